(* C08 - proofs about Model/Containers.v, part 1: focus validity for all histories.
   Every heap write of the model goes through a handful of writers; each keeps the node-local
   invariant [node_ok] (the contents are a Valid C16 focus list - lifted from MonitoredListProofs -
   and a Frame's focus_part names an existing part), hence so does every operation. *)
From Coq Require Import ZArith List Bool Lia ZifyBool.
Import ListNotations.
From Urwid Require Import PyBase PyList c08_container_gen Containers ContainersBase.
From Urwid Require MonitoredList PyListFacts MonitoredListProofs.
Open Scope Z_scope.
Arguments Z.add : simpl never. Arguments Z.sub : simpl never. Arguments Z.mul : simpl never.
Arguments Z.div : simpl never. Arguments Z.modulo : simpl never. Arguments Z.ltb : simpl never.
Arguments Z.leb : simpl never. Arguments Z.eqb : simpl never. Arguments Z.min : simpl never. Arguments Z.max : simpl never.

Notation Valid := MonitoredListProofs.Valid.

(* the translated range tests mean what they should *)
Lemma pos_invalid_spec k pos len :
  k = KPile \/ k = KCols \/ k = KGrid -> (pos_invalid k pos len = false <-> 0 <= pos < len).
Proof.
  intros [H|[H|H]]; subst k; unfold pos_invalid, pile_pos_invalid_gen, columns_pos_invalid_gen, gridflow_pos_invalid_gen; lia.
Qed.
Lemma overlay_pos_invalid_spec pos : overlay_pos_invalid_gen pos = false <-> pos = 1.
Proof. unfold overlay_pos_invalid_gen. lia. Qed.

Lemma step_valid s o : Valid s -> Valid (fst (MonitoredList.step s o)).
Proof. intros H. exact (proj1 (MonitoredListProofs.step_sound s o H)). Qed.

(* ---------- the invariant ---------- *)
Definition parts_ok (b d : oz) (part : Z) : Prop :=
  part = 100 \/ (part = 101 /\ b <> None) \/ (part = 102 /\ d <> None).

Section Pres.
(* strict = true: also the Frame clause (fails for Frame(body, header=None, focus_part='header')) *)
Variable strict : bool.

Definition node_ok (n : node) : Prop :=
  Valid (n_c n) /\ (strict = true -> nk n = KFrame -> parts_ok (n_b n) (n_d n) (n_part n)).
Notation I := (Inv node_ok).

Lemma pres_w_pref id p : pres I (w_pref id p).
Proof. apply pres_w_node. intros n H. exact H. Qed.
Lemma pres_w_selc id b : pres I (w_selc id b).
Proof. apply pres_w_node. intros n H. exact H. Qed.
Lemma pres_w_pend id p v : pres I (w_pend id p v).
Proof. apply pres_w_node. intros n H. exact H. Qed.
Lemma pres_w_contents id s : Valid s -> pres I (w_contents id s).
Proof. intros Hs. apply pres_w_node. intros n [_ H]. split; [exact Hs|exact H]. Qed.
Lemma pres_w_parts id a b d p : parts_ok b d p -> pres I (w_parts id a b d p).
Proof. intros Hp. apply pres_w_node. intros n [H _]. split; [exact H|]. intros _ _. exact Hp. Qed.

Lemma pres_w_listfocus id j : pres I (w_listfocus id j).
Proof.
  unfold w_listfocus. apply pres_rd_w_node. intros h n HI G.
  pose proof (step_valid (n_c n) (MonitoredList.SetFocus j) (proj1 (HI id n G))) as Hv.
  destruct (MonitoredList.step (n_c n) (MonitoredList.SetFocus j)) as [s' o]. cbn [fst] in Hv.
  destruct (MonitoredList.o_err o); [exact HI|]. apply pres_w_contents; assumption.
Qed.
Hint Resolve pres_w_pref pres_w_selc pres_w_pend pres_w_listfocus : pres.

Lemma pres_w_focus id j : pres I (w_focus id j).
Proof. unfold w_focus. pres_tac. Qed.
Hint Resolve pres_w_focus : pres.

Lemma pres_gpc f : forall id, pres I (gpc f id).
Proof. induction f as [|f IH]; intros id; cbn [gpc]; pres_tac. Qed.
Hint Resolve pres_gpc : pres.

Lemma pres_upd_pref_from_focus f id : pres I (upd_pref_from_focus f id).
Proof. unfold upd_pref_from_focus. pres_tac. Qed.
Hint Resolve pres_upd_pref_from_focus : pres.

Lemma pres_mc f : forall id col row, pres I (mc f id col row).
Proof. induction f as [|f IH]; intros id col row; cbn [mc]; pres_tac. Qed.
Hint Resolve pres_mc : pres.

Lemma pres_scan_rows f owner c rl : pres I (scan_rows f owner c rl).
Proof. induction rl as [|r rs IH]; cbn [scan_rows]; pres_tac. Qed.
Hint Resolve pres_scan_rows : pres.

Lemma pres_lb_set_focus id pos : pres I (lb_set_focus id pos).
Proof. unfold lb_set_focus. pres_tac. Qed.
Lemma pres_lb_visible0 f id focus : pres I (lb_visible0 f id focus).
Proof. unfold lb_visible0. pres_tac. Qed.
Hint Resolve pres_lb_set_focus pres_lb_visible0 : pres.
Lemma pres_lb_change_focus f id position cf : pres I (lb_change_focus f id position cf).
Proof. unfold lb_change_focus. pres_tac. Qed.
Hint Resolve pres_lb_change_focus : pres.
Lemma pres_lb_complete f id focus : pres I (lb_complete f id focus).
Proof. unfold lb_complete. pres_tac. Qed.
Hint Resolve pres_lb_complete : pres.
Lemma pres_lb_visible f id focus : pres I (lb_visible f id focus).
Proof. unfold lb_visible. pres_tac. Qed.
Hint Resolve pres_lb_visible : pres.

Lemma pres_pile_move f id up cands : pres I (pile_move f id up cands).
Proof. induction cands as [|j r IH]; cbn [pile_move]; pres_tac. Qed.
Lemma pres_cols_move f id cands : pres I (cols_move f id cands).
Proof. induction cands as [|j r IH]; cbn [cols_move]; pres_tac. Qed.
Hint Resolve pres_pile_move pres_cols_move : pres.

Lemma pres_kp f : forall id key, pres I (kp f id key).
Proof. induction f as [|f IH]; intros id key; cbn [kp]; unfold unhandled; pres_tac. Qed.
Hint Resolve pres_kp : pres.

(* a button-1 press: the Frame writer needs that the pressed part exists *)
Lemma pres_me f : forall id route focus, pres I (me f id route focus).
Proof.
  induction f as [|f IH]; intros id route focus; cbn [me]; [apply pres_raise|].
  apply pres_bind; [apply pres_rd|]. intros n. destruct (is_dis n); [apply pres_ret|].
  destruct (nk n); destruct route as [|p rest]; try solve [pres_tac].
  (* KFrame, p :: rest *)
  apply pres_bind; [apply pres_get_heap|]. intros h.
  destruct (p =? 100) eqn:E0.
  - pres_tac. apply pres_w_parts. left. lia.
  - destruct (p =? 101) eqn:E1.
    + destruct (n_b n) eqn:Eb; pres_tac. apply pres_w_parts. right; left. split; [lia|congruence].
    + destruct (p =? 102) eqn:E2; [|pres_tac].
      destruct (n_d n) eqn:Ed; pres_tac. apply pres_w_parts. right; right. split; [lia|congruence].
Qed.
Hint Resolve pres_me : pres.

Lemma pres_rn_list rnf keep l : (forall c b, pres I (rnf c b)) -> forall j fi focus, pres I (rn_list rnf keep l j fi focus).
Proof. intros H. induction l as [|c r IH]; intros j fi focus; cbn [rn_list]; pres_tac. Qed.
Lemma pres_rn f : forall id focus, pres I (rn f id focus).
Proof.
  induction f as [|f IH]; intros id focus; cbn [rn]; [apply pres_raise|].
  pres_tac; apply pres_rn_list; exact IH.
Qed.
Hint Resolve pres_rn : pres.

Lemma pres_set_pos id pos : pres I (set_pos id pos).
Proof.
  unfold set_pos. apply pres_bind; [apply pres_rd|]. intros n.
  destruct (nk n); try solve [pres_tac].
  destruct (negb ((pos =? 100) || (pos =? 101) || (pos =? 102))) eqn:E; [apply pres_raise|].
  destruct (n_b n) eqn:Eb, (n_d n) eqn:Ed;
    match goal with |- pres _ (if ?c then _ else _) => destruct c eqn:E2 end; try apply pres_raise;
    apply pres_w_parts; unfold parts_ok;
    destruct (pos =? 100) eqn:P0; [left; lia| |left; lia| |left; lia| |left; lia| ];
    destruct (pos =? 101) eqn:P1; try (right; left; split; [lia|congruence]);
    try (right; right; split; [lia|congruence]); cbn in E2; try discriminate; lia.
Qed.
Hint Resolve pres_set_pos : pres.

Lemma pres_sfp ps : forall id, pres I (sfp ps id).
Proof. induction ps as [|p r IH]; intros id; cbn [sfp]; pres_tac. Qed.
Hint Resolve pres_sfp : pres.

Lemma pres_edit f id e : pres I (edit f id e).
Proof.
  unfold edit. apply pres_rd_w_node. intros h n HI G.
  pose proof (step_valid (n_c n) e (proj1 (HI id n G))) as Hv.
  destruct (MonitoredList.o_err (snd (MonitoredList.step (n_c n) e))); [exact HI|].
  match goal with |- Inv _ (fst (?m h)) => assert (Hp : pres I m) end.
  { apply pres_bind; [apply pres_w_contents|intros _; destruct (nk n); pres_tac].
    destruct (is_simple_walker n); [|exact Hv].
    pose proof (MonitoredListProofs.valid_focus_nonneg _ (proj1 (HI id n G))) as Hnn.
    unfold simple_walker_state. set (its := MonitoredList.items (fst (MonitoredList.step (n_c n) e))).
    destruct its as [|x r] eqn:Ei.
    - left. cbn [MonitoredList.items MonitoredList.focus_raw]. split; [reflexivity|].
      change (zlen (@nil Z)) with 0. destruct (0 <=? MonitoredList.focus_raw (n_c n)) eqn:E; lia.
    - right. cbn [MonitoredList.items MonitoredList.focus_raw]. pose proof (zlen_nonneg r). rewrite zlen_cons in *.
      destruct (1 + zlen r <=? MonitoredList.focus_raw (n_c n)) eqn:E; lia. }
  exact (Hp h HI).
Qed.

Lemma parts_ok_drop_header b d part w :
  parts_ok b d part -> parts_ok w d (match w with None => if part =? 101 then 100 else part | Some _ => part end).
Proof.
  unfold parts_ok. intros [H|[[H1 H2]|[H1 H2]]]; destruct w; try (destruct (part =? 101) eqn:E); try lia;
    try (right; left; split; [lia|congruence]); try (right; right; split; [lia|assumption]); left; lia.
Qed.
Lemma parts_ok_drop_footer b d part w :
  parts_ok b d part -> parts_ok b w (match w with None => if part =? 102 then 100 else part | Some _ => part end).
Proof.
  unfold parts_ok. intros [H|[[H1 H2]|[H1 H2]]]; destruct w; try (destruct (part =? 102) eqn:E); try lia;
    try (right; right; split; [lia|congruence]); try (right; left; split; [lia|assumption]); left; lia.
Qed.

Lemma pres_set_part id part w : pres I (set_part id part w).
Proof.
  unfold set_part. apply pres_rd_w_node. intros h n HI G.
  destruct (HI id n G) as [Hv Hf].
  assert (Hgen : forall a b d p, (strict = true -> nk n = KFrame -> parts_ok b d p) -> Inv node_ok (fst (w_parts id a b d p h))).
  { intros a b d p Hp. unfold w_parts, w_node. rewrite G. cbn [fst].
    intros id' n' G'. rewrite getn_setn in G'.
    destruct ((id' =? id) && (0 <=? id) && (id <? zlen h)); [|exact (HI id' n' G')].
    injection G' as <-. split; [exact Hv|]. cbn. exact Hp. }
  destruct (part =? 100).
  - destruct w; [|exact HI]. apply Hgen. exact Hf.
  - destruct (part =? 101); apply Hgen; intros Hs Hk.
    + apply parts_ok_drop_header with (b := n_b n). exact (Hf Hs Hk).
    + apply parts_ok_drop_footer with (d := n_d n). exact (Hf Hs Hk).
Qed.
Hint Resolve pres_set_part : pres.

Lemma pres_del_part id part : pres I (del_part id part).
Proof. unfold del_part. pres_tac. Qed.
Hint Resolve pres_edit pres_del_part : pres.

End Pres.

(* ---------- the run loop ---------- *)
Lemma pres_do_op strict root s o :
  Inv (node_ok strict) (rs_h s) -> Inv (node_ok strict) (rs_h (fst (do_op root s o))).
Proof.
  intros H. destruct o; cbn [do_op].
  - pose proof (pres_kp strict FUEL root k (rs_h s) H) as Hk.
    destruct (kp FUEL root k (rs_h s)) as [h' [[k1 off]|e]]; exact Hk.
  - destruct (rs_rfail s); [exact H|]. destruct (negb (route_ok (rs_h s) root route)); [exact H|].
    pose proof (pres_me strict FUEL root route true (rs_h s) H) as Hk.
    destruct (me FUEL root route true (rs_h s)) as [h' [log|e]]; exact Hk.
  - destruct (resolve (rs_h s) root path); [|exact H]. exact (pres_set_pos strict z pos (rs_h s) H).
  - destruct (resolve (rs_h s) root path); [|exact H]. exact (pres_sfp strict pos z (rs_h s) H).
  - exact H.
  - destruct (rs_saved s); [|exact H]. exact (pres_sfp strict l root (rs_h s) H).
  - destruct (resolve (rs_h s) root path); [|exact H].
    destruct (kind_at (rs_h s) z) as [[]|]; try exact H; exact (pres_edit strict FUEL z e (rs_h s) H).
  - destruct (resolve (rs_h s) root path); [|exact H].
    destruct (kind_at (rs_h s) z) as [[]|]; try exact H. exact (pres_set_part strict z part w (rs_h s) H).
  - destruct (resolve (rs_h s) root path); [|exact H].
    destruct (kind_at (rs_h s) z) as [[]|]; try exact H. exact (pres_del_part strict z part (rs_h s) H).
Qed.

Lemma pres_observe strict root s :
  Inv (node_ok strict) (rs_h s) -> Inv (node_ok strict) (rs_h (fst (observe root s))).
Proof. intros H. unfold observe. cbn [fst rs_h]. exact (pres_rn strict FUEL root true (rs_h s) H). Qed.

Lemma pres_step strict root s o :
  Inv (node_ok strict) (rs_h s) -> Inv (node_ok strict) (rs_h (fst (step root s o))).
Proof.
  intros H. unfold step. pose proof (pres_do_op strict root s o H) as H1.
  destruct (do_op root s o) as [s1 a]. cbn [fst] in H1. pose proof (pres_observe strict root s1 H1) as H2.
  destruct (observe root s1) as [s2 b]. exact H2.
Qed.

Lemma run_fold_pres strict root ops : forall s out,
  Inv (node_ok strict) (rs_h s) ->
  Inv (node_ok strict) (rs_h (fst (fold_left (fun acc o => let '(s, out) := acc in let '(s', b) := step root s o in (s', out ++ b)) ops (s, out)))).
Proof.
  induction ops as [|o ops IH]; intros s out H; cbn [fold_left]; [exact H|].
  pose proof (pres_step strict root s o H) as H1. destruct (step root s o) as [s' b]. apply IH. exact H1.
Qed.

Theorem run_pres strict root h ops :
  Inv (node_ok strict) h -> Inv (node_ok strict) (rs_h (fst (run root h ops))).
Proof.
  intros H. unfold run.
  pose proof (pres_observe strict root (RS h None false) H) as H0.
  destruct (observe root (RS h None false)) as [s0 b0]. apply run_fold_pres. exact H0.
Qed.

(* ---------- what the invariant means for an observer ---------- *)
Definition is_list_kind (k : kind) : bool := match k with KPile | KCols | KGrid | KLBox => true | _ => false end.

Lemma focus_observable_list h id n :
  getn h id = Some n -> is_list_kind (nk n) = true -> Valid (n_c n) ->
  (items n = [] -> get_pos h id = RErr EIndex /\ focus_child h id = None) /\
  (items n <> [] -> exists p c, get_pos h id = ROk p /\ 0 <= p < nlen n /\ nthz (items n) p = Some c /\ focus_child h id = Some c).
Proof.
  intros G Hk Hv. unfold get_pos, focus_child. rewrite G. unfold is_empty.
  split; intros Hi.
  - rewrite Hi. destruct (nk n); try discriminate; split; reflexivity.
  - destruct Hv as [[He _]|Hr]; [unfold items in Hi; contradiction|].
    destruct (items n) as [|x r] eqn:E; [contradiction|].
    fold (items n) in Hr. fold (nfocus n) in Hr. rewrite E in Hr.
    destruct (nthz (x :: r) (nfocus n)) as [c|] eqn:En.
    + exists (nfocus n), c. unfold nlen. rewrite E.
      destruct (nk n); try discriminate; repeat split; try assumption; try lia.
    + exfalso. unfold nthz in En. destruct (nfocus n <? 0) eqn:E0; [lia|].
      apply nth_error_None in En. unfold zlen in Hr. lia.
Qed.

Lemma focus_observable_frame h id n :
  getn h id = Some n -> nk n = KFrame -> parts_ok (n_b n) (n_d n) (n_part n) ->
  exists c, focus_child h id = Some c /\ get_pos h id = ROk (n_part n) /\
            ((n_part n = 100 /\ c = n_a n) \/ (n_part n = 101 /\ n_b n = Some c) \/ (n_part n = 102 /\ n_d n = Some c)).
Proof.
  intros G Hk Hp. unfold focus_child, get_pos. rewrite G, Hk.
  destruct Hp as [H|[[H1 H2]|[H1 H2]]].
  - exists (n_a n). rewrite H. cbn. repeat split; left; split; reflexivity.
  - destruct (n_b n) as [c|] eqn:E; [|contradiction]. exists c. rewrite H1. cbn. repeat split. right; left. split; reflexivity.
  - destruct (n_d n) as [c|] eqn:E; [|contradiction]. exists c. rewrite H1. cbn. repeat split. right; right. split; reflexivity.
Qed.

(* ---------- construction ---------- *)
Lemma valid_empty : Valid (MonitoredList.St [] 0).
Proof. left. split; reflexivity. Qed.

Lemma fold_append_valid ch : forall s, Valid s ->
  Valid (fold_left (fun s c => st_apply s (MonitoredList.Append c)) ch s).
Proof. induction ch as [|c r IH]; intros s H; cbn [fold_left]; [exact H|]. apply IH. apply step_valid. exact H. Qed.

Lemma init_list_valid fuel h ch f : Valid (init_list fuel h ch f).
Proof.
  unfold init_list. pose proof (fold_append_valid ch _ valid_empty) as H.
  destruct ch; [exact H|].
  destruct (match f with Some j => Some j | None => first_sel fuel h (z :: ch) 0 end); [|exact H].
  apply step_valid. exact H.
Qed.

Lemma init_grid_valid fuel h ch f : Valid (init_grid fuel h ch f).
Proof.
  unfold init_grid. destruct ch as [|c r].
  - left. cbn [MonitoredList.items MonitoredList.focus_raw]. split; [reflexivity|].
    destruct (match f with Some j => Some j | None => first_sel fuel h [] 0 end) as [j|]; [|reflexivity].
    destruct ((0 <=? j) && (j <? zlen (@nil Z))) eqn:E; [|reflexivity]. change (zlen (@nil Z)) with 0 in E. lia.
  - right. cbn [MonitoredList.items MonitoredList.focus_raw].
    assert (Hn : 1 <= zlen (c :: r)) by (rewrite zlen_cons; pose proof (zlen_nonneg r); lia).
    destruct (match f with Some j => Some j | None => first_sel fuel h (c :: r) 0 end) as [j|]; [|lia].
    destruct ((0 <=? j) && (j <? zlen (c :: r))) eqn:E; lia.
Qed.

Lemma st0_valid (ch : list Z) : Valid (MonitoredList.St ch 0).
Proof.
  destruct ch as [|c r]; [exact valid_empty|]. right. cbn [MonitoredList.items MonitoredList.focus_raw].
  rewrite zlen_cons. pose proof (zlen_nonneg r). lia.
Qed.

(* every constructor yields a valid focus list; the Frame clause holds iff the spec names an existing part *)
Definition spec_ok (s : spec) : Prop :=
  match s with SFrame _ _ _ _ _ _ hd ft part => parts_ok hd ft part | _ => True end.

Lemma construct_ok strict fuel h s : (strict = true -> spec_ok s) -> node_ok strict (construct fuel h s).
Proof.
  intros Hs. destruct s as [wd box ht wt dc sl keys|k wd box ht wt dc f ch dv cw vs|wd box ht wt dc body hd ft part|wd box ht wt dc top bot]; cbn [construct].
  - split; [exact valid_empty|]. cbn. discriminate.
  - destruct k; (split; [|cbn; discriminate]); cbn [n_c];
      try apply init_list_valid; try apply init_grid_valid;
      destruct f, ch; try apply st0_valid; apply step_valid; apply st0_valid.
  - split; [exact valid_empty|]. cbn. intros Ht _. exact (Hs Ht).
  - split; [exact valid_empty|]. cbn. discriminate.
Qed.

Lemma getn_app_last h n id m : getn (h ++ [n]) id = Some m -> getn h id = Some m \/ m = n.
Proof.
  intros G. pose proof (getn_some_bounds _ _ _ G) as Hb. rewrite zlen_app in Hb. change (zlen [n]) with 1 in Hb.
  unfold getn in *. destruct (Z_lt_dec id (zlen h)).
  - left. rewrite PyListFacts.nthz_app_l in G by lia. exact G.
  - right. rewrite PyListFacts.nthz_app_r in G by lia. replace (id - zlen h) with 0 in G by lia.
    unfold nthz in G. cbn in G. injection G as <-. reflexivity.
Qed.

Lemma build_fold_ok strict fuel specs : forall h,
  (strict = true -> Forall spec_ok specs) -> Inv (node_ok strict) h ->
  Inv (node_ok strict) (fold_left (fun h s => h ++ [construct fuel h s]) specs h).
Proof.
  induction specs as [|s r IH]; intros h Hs H; cbn [fold_left]; [exact H|].
  apply IH.
  - intros Ht. specialize (Hs Ht). now inversion Hs.
  - intros id m G. apply getn_app_last in G. destruct G as [G| ->]; [exact (H id m G)|].
    apply construct_ok. intros Ht. specialize (Hs Ht). now inversion Hs.
Qed.

Theorem build_ok strict fuel specs :
  (strict = true -> Forall spec_ok specs) -> Inv (node_ok strict) (build fuel specs).
Proof.
  intros Hs. unfold build. apply build_fold_ok; [exact Hs|].
  intros id m G. unfold getn, nthz in G. destruct (id <? 0); [discriminate|]. destruct (Z.to_nat id); discriminate.
Qed.

(* ---------- assigning an invalid position ---------- *)
Definition same_focus (h h' : heap) : Prop :=
  forall id, get_pos h' id = get_pos h id /\ focus_child h' id = focus_child h id.

Lemma same_focus_refl h : same_focus h h.
Proof. intros id. split; reflexivity. Qed.

Lemma same_focus_set_pend h id n p v : getn h id = Some n -> same_focus h (setn h id (set_pend n p v)).
Proof.
  intros G id'. unfold get_pos, focus_child. rewrite getn_setn.
  destruct ((id' =? id) && (0 <=? id) && (id <? zlen h)) eqn:E; [|split; reflexivity].
  assert (id' = id) by lia. subst id'. rewrite G. split; reflexivity.
Qed.

Lemma w_listfocus_err h id j h' e : w_listfocus id j h = (h', RErr e) -> h' = h.
Proof.
  unfold w_listfocus, mbind, rd. destruct (getn h id) as [n|] eqn:G; [|intros H; injection H as <- _; reflexivity].
  destruct (MonitoredList.step (n_c n) (MonitoredList.SetFocus j)) as [s' o].
  destruct (MonitoredList.o_err o).
  - unfold raise. intros H; injection H as <- _; reflexivity.
  - unfold w_contents, w_node. rewrite G. discriminate.
Qed.

Lemma w_focus_err h id j h' e : w_focus id j h = (h', RErr e) -> h' = h.
Proof.
  unfold w_focus, mbind, rd. destruct (getn h id) as [n|] eqn:G; [|intros H; injection H as <- _; reflexivity].
  destruct (pos_invalid (nk n) j (nlen n)).
  - unfold raise. intros H; injection H as <- _; reflexivity.
  - apply w_listfocus_err.
Qed.

(* an assignment that raises leaves every focus position and every focus widget as it was
   (the heap itself is unchanged except for ListBox.set_focus_pending) *)
Theorem set_pos_error_keeps_focus h id pos h' e :
  set_pos id pos h = (h', RErr e) -> same_focus h h'.
Proof.
  unfold set_pos, mbind, rd. destruct (getn h id) as [n|] eqn:G; [|intros H; injection H as <- _; apply same_focus_refl].
  destruct (nk n) eqn:K.
  - unfold raise. intros H; injection H as <- _; apply same_focus_refl.
  - intros H. apply w_focus_err in H. subst. apply same_focus_refl.
  - intros H. apply w_focus_err in H. subst. apply same_focus_refl.
  - intros H. apply w_focus_err in H. subst. apply same_focus_refl.
  - destruct (negb ((pos =? 100) || (pos =? 101) || (pos =? 102))).
    + unfold raise. intros H; injection H as <- _; apply same_focus_refl.
    + match goal with |- (if ?c then _ else _) _ = _ -> _ => destruct c end.
      * unfold raise. intros H; injection H as <- _; apply same_focus_refl.
      * unfold w_parts, w_node. rewrite G. discriminate.
  - destruct (overlay_pos_invalid_gen pos); unfold raise, ret; intros H; [injection H as <- _; apply same_focus_refl|discriminate].
  - unfold lb_set_focus, mbind, rd. rewrite G. destruct (is_empty n).
    + unfold raise. intros H; injection H as <- _; apply same_focus_refl.
    + unfold w_pend, w_node. rewrite G.
      destruct (100 <=? pos).
      * unfold raise. intros H; injection H as <- _. apply same_focus_set_pend. exact G.
      * intros H. apply w_listfocus_err in H. subst. apply same_focus_set_pend. exact G.
Qed.

(* ... and an invalid position does raise IndexError *)
Theorem set_pos_invalid_raises h id pos n :
  getn h id = Some n -> Valid (n_c n) ->
  match nk n with
  | KLeaf => True
  | KPile | KCols | KGrid => ~ (0 <= pos < nlen n) -> set_pos id pos h = (h, RErr EIndex)
  | KLBox => ~ (0 <= pos < nlen n) -> exists h', set_pos id pos h = (h', RErr EIndex)
  | KFrame => ~ parts_ok (n_b n) (n_d n) pos \/ ~ (pos = 100 \/ pos = 101 \/ pos = 102) -> set_pos id pos h = (h, RErr EIndex)
  | KOvl => pos <> 1 -> set_pos id pos h = (h, RErr EIndex)
  end.
Proof.
  intros G Hv. unfold set_pos, mbind, rd. rewrite G. destruct (nk n) eqn:K; [exact I| | | | | |].
  1-3: intros Hp; unfold w_focus, mbind, rd; rewrite G, K;
       match goal with |- (if ?c then _ else _) _ = _ => assert (Hc : c = true) end;
       [ match goal with |- pos_invalid ?k _ _ = true => destruct (pos_invalid k pos (nlen n)) eqn:E; [reflexivity|] end;
         apply pos_invalid_spec in E; [contradiction|auto]
       | rewrite Hc; reflexivity ].
  - intros Hp.
    destruct (negb ((pos =? 100) || (pos =? 101) || (pos =? 102))) eqn:E; [reflexivity|].
    match goal with |- (if ?c then _ else _) _ = _ => destruct c eqn:E2 end; [reflexivity|].
    exfalso. destruct Hp as [Hp|Hp]; [|lia]. apply Hp. unfold parts_ok.
    destruct (pos =? 100) eqn:P0; [left; lia|].
    destruct (pos =? 101) eqn:P1.
    + right; left. split; [lia|]. destruct (n_b n); [discriminate|]. cbn in E2. lia.
    + right; right. split; [lia|]. destruct (n_d n); [discriminate|]. cbn in E2. destruct (pos =? 102) eqn:P2; cbn in E2; lia.
  - intros Hp. destruct (overlay_pos_invalid_gen pos) eqn:E; [reflexivity|]. apply overlay_pos_invalid_spec in E. contradiction.
  - intros Hp. unfold lb_set_focus, mbind, rd. rewrite G.
    destruct (is_empty n) eqn:Ee.
    + exists h. reflexivity.
    + unfold w_pend, w_node. rewrite G.
      destruct (100 <=? pos) eqn:E1; [eexists; reflexivity|].
      eexists. unfold w_listfocus, mbind, rd.
      assert (G2 : getn (setn h id (set_pend n (PendSet (nfocus n)) (n_vpend n))) id = Some (set_pend n (PendSet (nfocus n)) (n_vpend n))).
      { apply getn_setn_same. eapply getn_some_bounds; eauto. }
      rewrite G2. cbn [n_c set_pend].
      destruct (n_c n) as [its fr] eqn:Ec. cbn [MonitoredList.step MonitoredList.items MonitoredList.focus_raw].
      unfold MonitoredList.set_focus.
      assert (Hits : its <> []).
      { unfold is_empty, items in Ee. rewrite Ec in Ee. cbn in Ee. destruct its; [discriminate|discriminate]. }
      destruct its as [|x r]; [contradiction|].
      unfold nlen, items in Hp. rewrite Ec in Hp. cbn [MonitoredList.items] in Hp.
      assert (Hc : (pos <? 0) || (zlen (x :: r) <=? pos) = true) by lia. rewrite Hc. cbn. reflexivity.
Qed.

(* ---------- the focus clause for every history, in observable terms ---------- *)
Definition focus_valid_at (h : heap) (id : Z) (n : node) (frames_ok : Prop) : Prop :=
  (is_list_kind (nk n) = true ->
     (items n = [] -> get_pos h id = RErr EIndex /\ focus_child h id = None) /\
     (items n <> [] -> exists p c, get_pos h id = ROk p /\ 0 <= p < nlen n /\ nthz (items n) p = Some c /\ focus_child h id = Some c)) /\
  (frames_ok -> nk n = KFrame ->
     exists c, focus_child h id = Some c /\ get_pos h id = ROk (n_part n) /\
               ((n_part n = 100 /\ c = n_a n) \/ (n_part n = 101 /\ n_b n = Some c) \/ (n_part n = 102 /\ n_d n = Some c))) /\
  (nk n = KOvl -> get_pos h id = ROk 1 /\ focus_child h id = Some (n_a n)).

Theorem focus_valid_all_histories specs root ops id n :
  let h' := rs_h (fst (run root (build FUEL specs) ops)) in
  getn h' id = Some n -> focus_valid_at h' id n (Forall spec_ok specs).
Proof.
  intros h' G. unfold focus_valid_at. split; [|split].
  - intros Hk. apply focus_observable_list; [exact G|exact Hk|].
    assert (H : Inv (node_ok false) h') by (apply run_pres; apply build_ok; discriminate).
    exact (proj1 (H id n G)).
  - intros Hs Hk. apply focus_observable_frame; [exact G|exact Hk|].
    assert (H : Inv (node_ok true) h') by (apply run_pres; apply build_ok; intros _; exact Hs).
    exact (proj2 (H id n G) eq_refl Hk).
  - intros Hk. unfold get_pos, focus_child. rewrite G, Hk. split; reflexivity.
Qed.
