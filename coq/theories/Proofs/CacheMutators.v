(* C06: "every public mutator calls _invalidate" as a checked obligation.
   Gen/c06_mutators_gen.v is regenerated from the widget sources on every run (tools/py2v/mods/c06_mutators.py: a
   syntactic scan); here the table is checked inside Coq against an explicit, commented exemption list. *)
From Coq Require Import ZArith List Bool Lia PeanoNat.
Import ListNotations.
From Urwid Require Import c06_mutators_gen.
Open Scope Z_scope.

Fixpoint zs_eqb (a b : list Z) : bool :=
  match a, b with
  | [], [] => true
  | x :: a', y :: b' => (x =? y) && zs_eqb a' b'
  | _, _ => false
  end.

Lemma zs_eqb_eq a : forall b, zs_eqb a b = true <-> a = b.
Proof.
  induction a as [|x a IH]; destruct b as [|y b]; cbn; try (split; [discriminate|discriminate]); [tauto|].
  rewrite andb_true_iff, Z.eqb_eq, IH. split; [intros [-> ->]; reflexivity|intros H; inversion H; auto].
Qed.

(* public methods that write attributes of self and do NOT reach _invalidate, each with the reason why that is fine *)
Definition exempt : list (list Z * list Z) := [
  (* Edit.set_text: "not supported by Edit widget" - raises EditError; the only assignment (self._text = None) is
     the hack that lets Text.__init__ run before the Edit has any text, i.e. before anything can be cached *)
  ([69; 100; 105; 116], [115; 101; 116; 95; 116; 101; 120; 116]);
  (* ListBox.update_pref_col_from_focus: stores the preferred cursor column for later focus moves; pref_col is
     not part of what render() shows *)
  ([76; 105; 115; 116; 66; 111; 120], [117; 112; 100; 97; 116; 101; 95; 112; 114; 101; 102; 95; 99; 111; 108; 95; 102; 114; 111; 109; 95; 102; 111; 99; 117; 115])
].

Definition is_exempt (c n : list Z) : bool := existsb (fun e => zs_eqb (fst e) c && zs_eqb (snd e) n) exempt.
Definition mutator_ok (r : list Z * list Z * bool * bool) : bool :=
  let '(c, n, _, reaches) := r in reaches || is_exempt c n.

Lemma mutators_checked : forallb mutator_ok mutators = true.
Proof. vm_compute. reflexivity. Qed.

Lemma every_mutator_invalidates_lemma :
  forall c n s r, In (c, n, s, r) mutators -> r = true \/ In (c, n) exempt.
Proof.
  intros c n s r H. pose proof (proj1 (forallb_forall _ _) mutators_checked _ H) as K.
  change (r || is_exempt c n = true) in K.
  apply orb_true_iff in K. destruct K as [K|K]; [left; exact K|right].
  unfold is_exempt in K. apply existsb_exists in K. destruct K as [[ec en] [I E]]. cbn in E.
  apply andb_true_iff in E. destruct E as [E1 E2]. apply zs_eqb_eq in E1, E2. subst. exact I.
Qed.

(* the exemption list cannot rot: each entry names a mutator the scan found and found not to reach _invalidate *)
Lemma exemptions_all_used_lemma :
  forallb (fun e => existsb (fun r => let '(c, n, _, reaches) := r in zs_eqb c (fst e) && zs_eqb n (snd e) && negb reaches) mutators) exempt = true.
Proof. vm_compute. reflexivity. Qed.

Lemma mutators_nontrivial_lemma : (40 <= length mutators)%nat.
Proof. apply Nat.leb_le. vm_compute. reflexivity. Qed.
