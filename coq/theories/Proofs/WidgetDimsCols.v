(* C01 - Columns: contract lemma for box and flow sizing (and with it LineBox, whose generated Pile
   stacks three Columns).  The width arithmetic comes from C19 through WidgetDimsColsArith. *)
From Coq Require Import ZArith List Bool Lia ZifyBool.
Import ListNotations.
From Urwid Require Import WidgetDims WidgetDimsProofs WidgetDimsColsArith.
Open Scope Z_scope.

Arguments Z.add : simpl never.
Arguments Z.sub : simpl never.
Arguments Z.mul : simpl never.
Arguments Z.quot : simpl never.
Arguments Z.ltb : simpl never.
Arguments Z.leb : simpl never.
Arguments Z.eqb : simpl never.
Arguments Z.max : simpl never.
Arguments Z.min : simpl never.
Arguments Z.of_nat : simpl never.

(* pack(()) of a child that claims FIXED sizing answers a non-negative width (or is starved) *)
Definition fpack_ok (s : sem) : Prop :=
  s_fixed (m_sizing s) = true ->
  forall f, match m_pack s SFixed f with Ok (w, _) => 0 <= w | Err e => soft e end.

Definition cgoodN (n : Z) (it : citem) : Prop := GoodN n (ci_sem it) /\ (ci_kind it = KPack -> fpack_ok (ci_sem it)).
Notation cgood := (cgoodN 1).

(* the items covered: box columns hold box widgets, the others flow widgets; 'pack' columns hold flow widgets *)
Definition cols_item_ok (CS : sizing) (it : citem) : Prop :=
  (match ci_kind it with KPack => s_flow (m_sizing (ci_sem it)) = true | _ => 1 <= ci_amount it end)
  /\ (if ci_box it then s_box (m_sizing (ci_sem it)) = true
      else s_flow CS = true -> s_flow (m_sizing (ci_sem it)) = true)
  /\ (s_box CS = true -> s_box (m_sizing (ci_sem it)) = true).

Lemma item_static_ok n CS it maxcol mw fo :
  0 <= n -> cgoodN n it -> cols_item_ok CS it -> 1 <= maxcol -> 0 <= mw ->
  match item_static it maxcol mw fo with Ok sw => 0 <= sw | Err e => soft e end.
Proof.
  intros Hn0 [G FP] [K _] Hc Hm. unfold item_static.
  destruct (ci_kind it) eqn:EK.
  - lia.
  - rewrite K. rewrite orb_true_r.
    assert (PF : match m_pack (ci_sem it) (SFlow maxcol) fo with Ok p => 0 <= fst p | Err e => soft e end).
    { pose proof (g_rows _ G maxcol fo K Hc) as R. pose proof (g_pack _ G maxcol fo K Hc) as P.
      destruct (m_rows (ci_sem it) maxcol fo).
      - destruct P as [w [W0 P]]. rewrite P. exact W0.
      - rewrite P. exact R. }
    destruct (s_fixed (m_sizing (ci_sem it))) eqn:EF.
    + specialize (FP eq_refl EF fo). destruct (m_pack (ci_sem it) SFixed fo) as [[w h]|e]; cbn [bind fst]; [|exact FP].
      cbn [andb]. destruct ((w =? 0) || (maxcol <? w)).
      * destruct (m_pack (ci_sem it) (SFlow maxcol) fo); cbn; auto.
      * exact FP.
    + cbn [bind andb]. replace ((0 =? 0) || (maxcol <? 0)) with true by lia.
      destruct (m_pack (ci_sem it) (SFlow maxcol) fo); cbn; auto.
  - exact Hm.
Qed.

Lemma items_arith_ok n CS l maxcol mw :
  0 <= n -> Forall (cgoodN n) l -> Forall (cols_item_ok CS) l -> 1 <= maxcol -> 0 <= mw ->
  Forall (item_arith_ok maxcol mw) l.
Proof.
  intros Hn0 HG HO Hc Hm. induction l as [|it l IH]; [constructor|].
  inversion HG; inversion HO; subst. constructor; auto.
  unfold item_arith_ok. pose proof H5 as [K _].
  destruct (ci_kind it) eqn:EK; try lia.
  intros fo sw E. pose proof (item_static_ok n CS it maxcol mw fo Hn0 H1 H5 Hc Hm) as S. rewrite E in S. exact S.
Qed.

Lemma loop1_soft n CS maxcol d mw f fp : 0 <= n -> 1 <= maxcol -> 0 <= mw -> forall l i shared,
  Forall (cgoodN n) l -> Forall (cols_item_ok CS) l ->
  match cw_loop1 l maxcol d mw f fp i shared with Ok _ => True | Err e => soft e end.
Proof.
  intros Hn0 Hc Hm. induction l as [|it l IH]; intros i shared HG HO; cbn [cw_loop1]; [exact I|].
  inversion HG; inversion HO; subst.
  change (match ci_kind it with
          | KGiven => Ok (ci_amount it)
          | KPack => _
          | KWeight => Ok mw end) with (item_static it maxcol mw (item_focus f fp i)).
  pose proof (item_static_ok n CS it maxcol mw (item_focus f fp i) Hn0 H1 H5 Hc Hm) as S.
  destruct (item_static it maxcol mw (item_focus f fp i)) as [sw|e]; cbn [bind]; [|exact S].
  destruct ((shared <? sw + d) && (fp <? i)); [exact I|].
  specialize (IH (i + 1) (shared - (sw + d)) H2 H6).
  destruct (cw_loop1 l maxcol d mw f fp (i + 1) (shared - (sw + d))) as [[[a b] c0]|e]; cbn [bind]; auto.
Qed.

(* Columns.column_widths: non-negative widths that fit, or a starved child *)
Lemma column_widths_ok n CS l d mw fp maxcol f :
  0 <= n -> Forall (cgoodN n) l -> Forall (cols_item_ok CS) l -> 0 <= d -> 0 <= mw -> 1 <= maxcol -> 0 <= fp < zlength l ->
  match column_widths l d mw fp maxcol f with
  | Ok F => Forall (fun w => 0 <= w) F /\ rtotal F (zlength F) d 0 <= maxcol /\ (length F <= length l)%nat
  | Err e => soft e
  end.
Proof.
  intros Hn0 HG HO Hd Hm Hc Hfp.
  pose proof (items_arith_ok n CS l maxcol mw Hn0 HG HO Hc Hm) as HA.
  pose proof (loop1_soft n CS maxcol d mw f fp Hn0 Hc Hm l 0 (maxcol + d) HG HO) as L1.
  destruct (cw_loop1 l maxcol d mw f fp 0 (maxcol + d)) as [[[ws wt] sh]|e] eqn:E1.
  - destruct (column_widths_total l d mw fp maxcol f ws wt sh HA Hd Hm ltac:(lia) Hfp E1) as [F EF].
    rewrite EF. apply (widths_fit l d mw fp maxcol f F HA Hd Hm ltac:(lia) Hfp EF).
  - unfold column_widths. rewrite E1. exact L1.
Qed.

(* ------------------------------------------------------------------ CanvasJoin *)
Definition jentry (maxrow : Z) (e : canv * Z) : Prop :=
  0 <= snd e - cc (fst e) /\ 0 <= cc (fst e) /\ 0 <= cr (fst e) <= maxrow
  /\ rect (fst e) = true /\ inside (fst e).

Fixpoint sumw (l : list (canv * Z)) : Z := match l with [] => 0 | e :: r => snd e + sumw r end.

Lemma join_from_spec maxrow : forall l col acc,
  Forall (jentry maxrow) l -> cc acc = col -> cr acc = maxrow -> rect acc = true -> inside acc -> 0 <= col ->
  exists d, join_from maxrow col l acc = Ok d
            /\ cc d = col + sumw l /\ cr d = maxrow /\ rect d = true /\ inside d.
Proof.
  induction l as [|[c w] r IH]; intros col acc HF Hc Hr Hre Hin Hcol; cbn [join_from sumw].
  - exists acc. repeat split; auto. lia.
  - inversion HF as [|? ? [J1 [J2 [J3 [J4 J5]]]] HF']; subst. cbn [fst snd] in *.
    (* pad to the column width *)
    assert (S1 : exists c1, (if w - cc c =? 0 then Ok c else pad_trim_lr c 0 (w - cc c)) = Ok c1
                            /\ cc c1 = w /\ cr c1 = cr c /\ rect c1 = true /\ inside c1).
    { destruct (w - cc c =? 0) eqn:E0.
      - exists c. repeat split; auto. lia.
      - rewrite pad_lr_nonneg by lia. eexists. split; [reflexivity|].
        pose proof (inside_pad_lr c 0 (w - cc c) ltac:(lia) J1 J5) as IP. cbn in IP |- *.
        repeat split; auto. lia. }
    destruct S1 as [c1 [E1 [A1 [A2 [A3 A4]]]]]. rewrite E1. cbn [bind].
    (* pad to the tallest *)
    assert (S2 : exists c2, (if cr c1 <? cr acc then pad_trim_tb c1 0 (cr acc - cr c1) else Ok c1) = Ok c2
                            /\ cc c2 = w /\ cr c2 = cr acc /\ rect c2 = true /\ inside c2).
    { destruct (cr c1 <? cr acc) eqn:E0.
      - destruct (pad_tb_nonneg c1 0 (cr acc - cr c1)) as [c2 [E2 [B1 [B2 [B3 B4]]]]]; try lia.
        exists c2. repeat split; auto; try congruence. lia.
      - exists c1. repeat split; auto. lia. }
    destruct S2 as [c2 [E2 [B1 [B2 [B3 B4]]]]]. rewrite E2. cbn [bind].
    destruct (IH (cc acc + cc c2)
                 (mkC (cc acc + cc c2) (cr acc) (later_cur (cur acc) (shift_cur (cur c2) (cc acc) 0)) (rect acc && rect c2)))
      as [d [ED [D1 [D2 [D3 D4]]]]]; auto.
    + cbn. rewrite Hre, B3. reflexivity.
    + unfold inside in *. cbn. destruct (cur c2) as [[x y]|]; cbn.
      * lia.
      * destruct (cur acc) as [[x y]|]; auto. lia.
    + lia.
    + exists d. repeat split; auto. lia.
Qed.

Lemma fold_max_ge : forall (l : list (canv * Z)) m, m <= fold_left (fun (m : Z) (x : canv * Z) => Z.max m (cr (fst x))) l m.
Proof. induction l as [|x r IH]; intros m; cbn; [lia|]. specialize (IH (Z.max m (cr (fst x)))). lia. Qed.

Lemma fold_max_in : forall (l : list (canv * Z)) m e, In e l -> cr (fst e) <= fold_left (fun (m : Z) (x : canv * Z) => Z.max m (cr (fst x))) l m.
Proof.
  induction l as [|x r IH]; intros m e H; [inversion H|]. cbn. destruct H as [->|H].
  - pose proof (fold_max_ge r (Z.max m (cr (fst e)))). lia.
  - apply IH; auto.
Qed.

Lemma join_spec l :
  (forall e, In e l -> 0 <= snd e - cc (fst e) /\ 0 <= cc (fst e) /\ 0 <= cr (fst e)
                       /\ rect (fst e) = true /\ inside (fst e)) ->
  exists d, canvas_join l = Ok d /\ cc d = sumw l /\ cr d = maxrows l /\ rect d = true /\ inside d.
Proof.
  intros H. unfold canvas_join.
  destruct (join_from_spec (maxrows l) l 0 (mkC 0 (maxrows l) None true)) as [d [E [A [B [C D]]]]]; auto.
  - apply Forall_forall. intros e He. destruct (H e He) as [H1 [H2 [H3 [H4 H5]]]].
    unfold jentry. repeat split; auto. unfold maxrows. apply fold_max_in. exact He.
  - exact I.
  - lia.
  - exists d. repeat split; auto.
Qed.

(* ------------------------------------------------------------------ box Columns *)
Lemma maxrows_const (l : list (canv * Z)) r :
  l <> [] -> 0 <= r -> Forall (fun e => cr (fst e) = r) l -> maxrows l = r.
Proof.
  intros Hne Hr H. unfold maxrows.
  assert (G : forall m, 0 <= m <= r -> l <> [] ->
              fold_left (fun (m : Z) (x : canv * Z) => Z.max m (cr (fst x))) l m = r).
  { clear Hne. induction H as [|e l He Hl IH]; intros m Hm Hne; [congruence|]. cbn. rewrite He.
    destruct l as [|e2 l2]; [cbn; lia|]. apply IH; [lia|discriminate]. }
  apply G; [lia|exact Hne].
Qed.

Lemma plan_box c r f fp : forall ws l i,
  (length ws <= length l)%nat -> Forall (fun it => s_box (m_sizing (ci_sem it)) = true) l ->
  cols_plan ws l (SBox c r) f fp i = Ok (map (fun w => CPDone r (SBox w r)) ws).
Proof.
  induction ws as [|w ws IH]; intros l i HL HB; cbn [cols_plan map]; [reflexivity|].
  destruct l as [|it l]; [cbn in HL; lia|]. inversion HB; subst.
  rewrite H1. cbn [bind]. rewrite (IH l (i + 1)); auto. cbn in HL. lia.
Qed.

Lemma finish_box r : forall ws, cols_finish ws (map (fun w => CPDone r (SBox w r)) ws) r = map (fun w => (w, r, SBox w r)) ws.
Proof. induction ws as [|w ws IH]; cbn; [reflexivity|]. rewrite IH. reflexivity. Qed.

Definition rendered_ok (r : Z) (e : canv * Z) : Prop :=
  0 <= snd e - cc (fst e) /\ 0 <= cc (fst e) /\ cr (fst e) = r /\ rect (fst e) = true /\ inside (fst e).

Lemma render_box k r n d f fp : 1 <= r -> 0 <= d -> forall ws l i,
  (length ws <= length l)%nat -> Forall (fun w => 0 <= w) ws ->
  Forall (cgoodN k) l -> Forall (fun it => s_box (m_sizing (ci_sem it)) = true) l ->
  match cols_render_items l (map (fun w => (w, r, SBox w r)) ws) n d f fp i with
  | Ok data => sumw data = rtotal ws n d i /\ Forall (rendered_ok r) data
  | Err e => soft e
  end.
Proof.
  intros Hr Hd. induction ws as [|w ws IH]; intros l i HL HW HG HB.
  - destruct l; cbn; split; auto.
  - destruct l as [|it l]; [cbn in HL; lia|].
    inversion HW; inversion HG; inversion HB; subst.
    cbn [map cols_render_items rtotal].
    specialize (IH l (i + 1) ltac:(cbn in HL; lia) H2 H6 H10).
    destruct (w <=? 0) eqn:EW.
    + destruct (cols_render_items l (map (fun w0 => (w0, r, SBox w0 r)) ws) n d f fp (i + 1)); [|exact IH].
      destruct IH as [A B]. split; [lia|exact B].
    + destruct H5 as [G _].
      pose proof (g_box _ G w r (item_focus f fp i) H9 ltac:(lia) Hr) as R.
      destruct (m_render (ci_sem it) (SBox w r) (item_focus f fp i)) as [cv|e]; cbn [bind]; [|exact R].
      destruct R as [[R1 R2] [R3 R4]].
      destruct (cols_render_items l (map (fun w0 => (w0, r, SBox w0 r)) ws) n d f fp (i + 1)) as [data|e]; cbn [bind]; [|exact IH].
      destruct IH as [A B]. split.
      * cbn [sumw snd]. rewrite A. reflexivity.
      * constructor; auto. unfold rendered_ok. cbn [fst snd]. destruct (i <? n - 1); repeat split; auto; lia.
Qed.

Lemma cols_box_ok k CS l d mw fp c r f :
  0 <= k -> Forall (cgoodN k) l -> Forall (cols_item_ok CS) l -> s_box CS = true ->
  0 <= d -> 0 <= mw -> 0 <= fp < zlength l -> 1 <= c -> 1 <= r ->
  match cols_render l d mw fp (SBox c r) f with
  | Ok cv => cc cv = c /\ cr cv = r /\ (rect cv = true /\ inside cv)
  | Err e => soft e
  end.
Proof.
  intros Hk0 HG HO HS Hd Hm Hfp Hc Hr. unfold cols_render, cols_sizes.
  pose proof (column_widths_ok k CS l d mw fp c f Hk0 HG HO Hd Hm Hc Hfp) as W.
  destruct (column_widths l d mw fp c f) as [ws|e]; cbn [bind]; [|exact W].
  destruct W as [W1 [W2 W3]].
  assert (HB : Forall (fun it => s_box (m_sizing (ci_sem it)) = true) l).
  { eapply Forall_impl; [|exact HO]. intros it [_ [_ H]]. auto. }
  rewrite (plan_box c r f fp ws l 0 W3 HB). cbn [bind]. rewrite finish_box.
  pose proof (render_box k r (zlength (map (fun w => (w, r, SBox w r)) ws)) d f fp Hr Hd ws l 0 W3 W1 HG HB) as R.
  destruct (cols_render_items l (map (fun w => (w, r, SBox w r)) ws) (zlength (map (fun w => (w, r, SBox w r)) ws)) d f fp 0)
    as [data|e]; cbn [bind]; [|exact R].
  destruct R as [R1 R2].
  assert (EN : zlength (map (fun w => (w, r, SBox w r)) ws) = zlength ws).
  { unfold zlength. rewrite map_length. reflexivity. }
  rewrite EN in R1.
  destruct data as [|e0 data]; [cbn; repeat split; auto; exact I|].
  destruct (join_spec (e0 :: data)) as [cv [EJ [J1 [J2 [J3 J4]]]]].
  { intros e He. pose proof (proj1 (Forall_forall _ _) R2 e He) as [A [B [C [D E]]]]. repeat split; auto. lia. }
  rewrite EJ. cbn [bind].
  assert (J2' : cr cv = r).
  { rewrite J2. apply maxrows_const; [discriminate|lia|].
    eapply Forall_impl; [|exact R2]. intros e [_ [_ [H _]]]. exact H. }
  destruct (cc cv <? c) eqn:EC.
  - rewrite pad_lr_nonneg by lia.
    pose proof (inside_pad_lr cv 0 (c - cc cv) ltac:(lia) ltac:(lia) J4) as IP. cbn in IP |- *.
    repeat split; auto. lia.
  - repeat split; auto. lia.
Qed.

(* ------------------------------------------------------------------ flow Columns *)
(* what get_column_sizes decided for each column of a flow Columns *)
Fixpoint plan_rel (n : Z) (f : bool) (fp : Z) (ws : list Z) (l : list citem) (ps : list cplan) (i : Z) : Prop :=
  match ws, l, ps with
  | [], _, [] => True
  | w :: wr, it :: r, p :: pr =>
      (if ci_box it then p = CPBox /\ s_box (m_sizing (ci_sem it)) = true
       else s_flow (m_sizing (ci_sem it)) = true /\
            exists h, p = CPDone h (SFlow w)
                      /\ ((0 < w /\ m_rows (ci_sem it) w (item_focus f fp i) = Ok h /\ n <= h) \/ (w = 0 /\ h = 0)))
      /\ plan_rel n f fp wr r pr (i + 1)
  | _, _, _ => False
  end.

Lemma plan_flow n CS c f fp : s_flow CS = true -> forall ws l i,
  (length ws <= length l)%nat -> Forall (fun w => 0 <= w) ws ->
  Forall (cgoodN n) l -> Forall (cols_item_ok CS) l ->
  match cols_plan ws l (SFlow c) f fp i with
  | Ok ps => plan_rel n f fp ws l ps i
  | Err e => soft e
  end.
Proof.
  intros HCS. induction ws as [|w ws IH]; intros l i HL HW HG HO; cbn [cols_plan].
  - destruct l; exact I.
  - destruct l as [|it l]; [cbn in HL; lia|].
    inversion HW; inversion HG; inversion HO; subst.
    destruct H9 as [K1 [K2 K3]]. destruct H5 as [G _].
    specialize (IH l (i + 1) ltac:(cbn in HL; lia) H2 H6 H10).
    destruct (ci_box it) eqn:EB.
    + cbn [bind]. destruct (cols_plan ws l (SFlow c) f fp (i + 1)) as [ps|e]; cbn [bind]; [|exact IH].
      cbn [plan_rel]. rewrite EB. auto.
    + specialize (K2 HCS). rewrite K2.
      destruct (0 <? w) eqn:EW.
      * pose proof (g_rows _ G w (item_focus f fp i) K2 ltac:(lia)) as R.
        destruct (m_rows (ci_sem it) w (item_focus f fp i)) as [h|e] eqn:ER; cbn [bind]; [|exact R].
        destruct (cols_plan ws l (SFlow c) f fp (i + 1)) as [ps|e]; cbn [bind]; [|exact IH].
        cbn [plan_rel]. rewrite EB. split; [|exact IH]. split; [exact K2|].
        exists h. split; [reflexivity|]. left. repeat split; auto. lia.
      * cbn [bind]. destruct (cols_plan ws l (SFlow c) f fp (i + 1)) as [ps|e]; cbn [bind]; [|exact IH].
        cbn [plan_rel]. rewrite EB. split; [|exact IH]. split; [exact K2|].
        exists 0. split; [reflexivity|]. right. lia.
Qed.

(* all heights / heights of the rendered columns *)
Fixpoint all_heights (ws : list Z) (ps : list cplan) (maxh : Z) : list Z :=
  match ws, ps with
  | w :: wr, CPDone h _ :: pr => h :: all_heights wr pr maxh
  | w :: wr, CPBox :: pr => maxh :: all_heights wr pr maxh
  | _, _ => []
  end.
Fixpoint shown_heights (ws : list Z) (ps : list cplan) (maxh : Z) : list Z :=
  match ws, ps with
  | w :: wr, CPDone h _ :: pr => if w <=? 0 then shown_heights wr pr maxh else h :: shown_heights wr pr maxh
  | w :: wr, CPBox :: pr => if w <=? 0 then shown_heights wr pr maxh else maxh :: shown_heights wr pr maxh
  | _, _ => []
  end.

Lemma finish_heights maxh : forall ws ps,
  map (fun x : Z * Z * size => snd (fst x)) (cols_finish ws ps maxh) = all_heights ws ps maxh.
Proof.
  induction ws as [|w ws IH]; intros ps; cbn; [reflexivity|].
  destruct ps as [|[h s|] ps]; cbn; [reflexivity| |]; rewrite IH; reflexivity.
Qed.

Lemma heights_facts n f fp maxh : 0 <= n -> forall ws l ps i, plan_rel n f fp ws l ps i -> Forall (fun w => 0 <= w) ws ->
  (forall x, In x (shown_heights ws ps maxh) -> In x (all_heights ws ps maxh))
  /\ (forall x, In x (all_heights ws ps maxh) -> x = maxh \/ In x (cplan_heights ps))
  /\ (forall x, In x (cplan_heights ps) -> In x (all_heights ws ps maxh))
  /\ (forall x, In x (cplan_heights ps) -> 1 <= x -> In x (shown_heights ws ps maxh))
  /\ (forall x, In x (shown_heights ws ps maxh) -> x = maxh \/ In x (cplan_heights ps))
  /\ (forall x, In x (cplan_heights ps) -> 0 <= x)
  /\ length (all_heights ws ps maxh) = length ws.
Proof.
  intros Hn0. induction ws as [|w ws IH]; intros l ps i HP HW.
  - destruct ps; [|destruct l; contradiction]. cbn. repeat split; intros; try contradiction; auto.
  - destruct l as [|it l]; [contradiction|]. destruct ps as [|p ps]; [contradiction|].
    cbn [plan_rel] in HP. destruct HP as [HE HR]. inversion HW; subst.
    destruct (IH l ps (i + 1) HR H2) as [A [B [C [D [E [F L]]]]]].
    unfold cplan_heights in *.
    destruct (ci_box it).
    + destruct HE as [-> _]. cbn [all_heights shown_heights flat_map app].
      repeat split.
      * intros x Hx. destruct (w <=? 0); [right; auto|]. destruct Hx as [<-|Hx]; [left; auto|right; auto].
      * intros x [<-|Hx]; auto.
      * intros x Hx. right. auto.
      * intros x Hx H1x. destruct (w <=? 0); [auto|right; auto].
      * intros x Hx. destruct (w <=? 0); [auto|]. destruct Hx as [<-|Hx]; auto.
      * auto.
      * cbn. lia.
    + destruct HE as [_ [h [-> HH]]]. cbn [all_heights shown_heights flat_map app].
      repeat split.
      * intros x Hx. destruct (w <=? 0); [right; auto|]. destruct Hx as [<-|Hx]; [left; auto|right; auto].
      * intros x [<-|Hx]; [right; left; auto|]. destruct (B x Hx); auto. right. right. auto.
      * intros x [<-|Hx]; [left; auto|right; auto].
      * intros x [<-|Hx] H1x.
        -- destruct (w <=? 0) eqn:EW; [lia|left; auto].
        -- destruct (w <=? 0); [auto|right; auto].
      * intros x Hx. destruct (w <=? 0) eqn:EW.
        -- destruct (E x Hx) as [->|E1]; auto. right. right. auto.
        -- destruct Hx as [<-|Hx].
           ++ right. left. auto.
           ++ destruct (E x Hx) as [->|E1]; auto. right. right. auto.
      * intros x [<-|Hx]; [lia|auto].
      * cbn. lia.
Qed.

(* maxima *)
Lemma fold_max_spec : forall (l : list Z) m,
  (forall x, In x l -> x <= fold_left Z.max l m) /\ m <= fold_left Z.max l m
  /\ (fold_left Z.max l m = m \/ In (fold_left Z.max l m) l).
Proof.
  induction l as [|a l IH]; intros m; cbn [fold_left].
  - split; [intros x []|]. split; [lia|left; reflexivity].
  - destruct (IH (Z.max m a)) as [A [B C]]. split; [|split].
    + intros x [<-|Hx]; [lia|auto].
    + lia.
    + destruct C as [C|C]; [|right; right; exact C].
      destruct (Z.max_spec m a) as [[_ E]|[_ E]]; rewrite E in *.
      * right. left. symmetry. exact C.
      * left. exact C.
Qed.

Lemma maxz_is (l : list Z) m : l <> [] -> (forall x, In x l -> x <= m) -> In m l -> maxz l = m.
Proof.
  intros Hne Hub Hin. destruct l as [|a l]; [congruence|]. unfold maxz.
  destruct (fold_max_spec l a) as [A [B C]].
  assert (fold_left Z.max l a <= m).
  { destruct C as [C|C]; [rewrite C; apply Hub; left; auto|apply Hub; right; exact C]. }
  destruct Hin as [<-|Hin]; [lia|]. specialize (A m Hin). lia.
Qed.

Lemma maxz_facts (l : list Z) : l <> [] -> (forall x, In x l -> x <= maxz l) /\ In (maxz l) l.
Proof.
  intros Hne. destruct l as [|a l]; [congruence|]. unfold maxz.
  destruct (fold_max_spec l a) as [A [B C]]. split.
  - intros x [<-|Hx]; [lia|auto].
  - destruct C as [C|C]; [left; auto|right; auto].
Qed.

Lemma maxrows_map (l : list (canv * Z)) : maxrows l = fold_left Z.max (map (fun e => cr (fst e)) l) 0.
Proof.
  unfold maxrows. generalize 0. induction l as [|e l IH]; intros m; cbn; [reflexivity|]. apply IH.
Qed.

Definition jok (e : canv * Z) : Prop :=
  0 <= snd e - cc (fst e) /\ 0 <= cc (fst e) /\ 0 <= cr (fst e) /\ rect (fst e) = true /\ inside (fst e).

Lemma render_flow k f fp maxh n d : 0 <= k -> 0 <= d -> 1 <= maxh -> forall ws l ps i,
  plan_rel k f fp ws l ps i -> Forall (fun w => 0 <= w) ws -> Forall (cgoodN k) l ->
  match cols_render_items l (cols_finish ws ps maxh) n d f fp i with
  | Ok data => sumw data = rtotal ws n d i /\ Forall jok data
               /\ map (fun e => cr (fst e)) data = shown_heights ws ps maxh
  | Err e => soft e
  end.
Proof.
  intros Hk0 Hd Hmh. induction ws as [|w ws IH]; intros l ps i HP HW HG.
  - destruct ps; [|destruct l; contradiction]. destruct l; cbn; repeat split; auto.
  - destruct l as [|it l]; [contradiction|]. destruct ps as [|p ps]; [contradiction|].
    cbn [plan_rel] in HP. destruct HP as [HE HR]. inversion HW; inversion HG; subst.
    destruct H5 as [G _].
    specialize (IH l ps (i + 1) HR H2 H6).
    destruct (ci_box it).
    + destruct HE as [-> HB]. cbn [cols_finish cols_render_items rtotal shown_heights].
      destruct (w <=? 0) eqn:EW.
      * destruct (cols_render_items l (cols_finish ws ps maxh) n d f fp (i + 1)); [|exact IH].
        destruct IH as [A [B C]]. repeat split; auto; lia.
      * pose proof (g_box _ G w maxh (item_focus f fp i) HB ltac:(lia) Hmh) as R.
        destruct (m_render (ci_sem it) (SBox w maxh) (item_focus f fp i)) as [cv|e]; cbn [bind]; [|exact R].
        destruct R as [[R1 R2] [R3 R4]].
        destruct (cols_render_items l (cols_finish ws ps maxh) n d f fp (i + 1)) as [data|e]; cbn [bind]; [|exact IH].
        destruct IH as [A [B C]]. repeat split.
        -- cbn [sumw snd]. rewrite A. reflexivity.
        -- constructor; auto. unfold jok. cbn [fst snd]. destruct (i <? n - 1); repeat split; auto; lia.
        -- cbn [map fst]. rewrite C, R2. reflexivity.
    + destruct HE as [HF [h [-> HH]]]. cbn [cols_finish cols_render_items rtotal shown_heights].
      destruct (w <=? 0) eqn:EW.
      * destruct (cols_render_items l (cols_finish ws ps maxh) n d f fp (i + 1)); [|exact IH].
        destruct IH as [A [B C]]. repeat split; auto; lia.
      * destruct HH as [[H0 [HRows H1h]]|[H0 _]]; [|lia].
        pose proof (g_flow _ G w (item_focus f fp i) HF ltac:(lia)) as R.
        destruct (m_render (ci_sem it) (SFlow w) (item_focus f fp i)) as [cv|e]; cbn [bind]; [|exact R].
        destruct R as [[R1 R2] [R3 R4]]. rewrite HRows in R2. inversion R2 as [R2'].
        destruct (cols_render_items l (cols_finish ws ps maxh) n d f fp (i + 1)) as [data|e]; cbn [bind]; [|exact IH].
        destruct IH as [A [B C]]. repeat split.
        -- cbn [sumw snd]. rewrite A. reflexivity.
        -- constructor; auto. unfold jok. cbn [fst snd]. destruct (i <? n - 1); repeat split; auto; lia.
        -- cbn [map fst]. rewrite C. try rewrite R2'. reflexivity.
Qed.

(* the height of a flow Columns: rows() = max(1, heights), and the joined canvas, padded to one row when
   every shown column is empty (ba7db6e), has as many rows *)
Lemma heights_result k f fp ws l ps i maxh :
  0 <= k -> plan_rel k f fp ws l ps i -> Forall (fun w => 0 <= w) ws ->
  let FH := cplan_heights ps in
  (FH = [] -> maxh = 1) -> (FH <> [] -> maxh = Z.max 1 (maxz FH)) ->
  let AH := all_heights ws ps maxh in
  let RH := shown_heights ws ps maxh in
  1 <= maxh
  /\ (AH <> [] -> Z.max 1 (maxz AH) = maxh)
  /\ Z.max 1 (fold_left Z.max RH 0) = maxh.
Proof.
  intros Hk0 HP HW FH Hm1 Hm2 AH RH.
  destruct (heights_facts k f fp maxh Hk0 ws l ps i HP HW) as [A [B [C [D [E [F L]]]]]].
  fold FH AH RH in A, B, C, D, E, F.
  assert (M1 : 1 <= maxh).
  { destruct FH as [|a r] eqn:EF; [rewrite Hm1; [lia|reflexivity]|]. rewrite Hm2; [lia|discriminate]. }
  assert (UF : forall x, In x FH -> x <= maxh).
  { intros x Hx. assert (Hne : FH <> []) by (intro Hn; rewrite Hn in Hx; inversion Hx).
    rewrite (Hm2 Hne). destruct (maxz_facts FH Hne) as [Hub _]. specialize (Hub x Hx). lia. }
  assert (UA : forall x, In x AH -> x <= maxh).
  { intros x Hx. destruct (B x Hx) as [->|Hf]; [lia|auto]. }
  assert (UR : forall x, In x RH -> x <= maxh).
  { intros x Hx. destruct (E x Hx) as [->|Hf]; [lia|auto]. }
  split; [exact M1|]. split.
  - intros HA. destruct (maxz_facts AH HA) as [HubA HinA].
    pose proof (UA _ HinA) as U1.
    destruct (Z.eq_dec maxh 1) as [E1|E1]; [lia|].
    assert (Hne : FH <> []) by (intro Hn; specialize (Hm1 Hn); lia).
    destruct (maxz_facts FH Hne) as [_ HinF]. specialize (Hm2 Hne).
    pose proof (HubA _ (C _ HinF)). lia.
  - destruct (fold_max_spec RH 0) as [P1 [P2 P3]].
    assert (U2 : fold_left Z.max RH 0 <= maxh).
    { destruct P3 as [P3|P3]; [lia|auto]. }
    destruct (Z.eq_dec maxh 1) as [E1|E1]; [lia|].
    assert (Hne : FH <> []) by (intro Hn; specialize (Hm1 Hn); lia).
    destruct (maxz_facts FH Hne) as [_ HinF]. specialize (Hm2 Hne).
    assert (In maxh RH). { replace maxh with (maxz FH) by lia. apply D; [exact HinF|lia]. }
    pose proof (P1 _ H). lia.
Qed.

Definition flow_maxh (ps : list cplan) : Z := match cplan_heights ps with [] => 1 | hs => Z.max 1 (maxz hs) end.

Lemma cols_sizes_flow k CS l d mw fp c f : 0 <= k -> s_flow CS = true ->
  Forall (cgoodN k) l -> Forall (cols_item_ok CS) l -> 0 <= d -> 0 <= mw -> 0 <= fp < zlength l -> 1 <= c ->
  match cols_sizes l d mw fp (SFlow c) f with
  | Ok t => exists ws ps, t = cols_finish ws ps (flow_maxh ps) /\ plan_rel k f fp ws l ps 0
                          /\ Forall (fun w => 0 <= w) ws /\ rtotal ws (zlength ws) d 0 <= c
  | Err e => soft e
  end.
Proof.
  intros Hk0 HCS HG HO Hd Hm Hfp Hc. unfold cols_sizes.
  pose proof (column_widths_ok k CS l d mw fp c f Hk0 HG HO Hd Hm Hc Hfp) as W.
  destruct (column_widths l d mw fp c f) as [ws|e]; cbn [bind]; [|exact W].
  destruct W as [W1 [W2 W3]].
  pose proof (plan_flow k CS c f fp HCS ws l 0 W3 W1 HG HO) as P.
  destruct (cols_plan ws l (SFlow c) f fp 0) as [ps|e]; cbn [bind]; [|exact P].
  exists ws, ps. repeat split; auto.
Qed.

Lemma finish_length k f fp maxh : forall ws l ps i, plan_rel k f fp ws l ps i ->
  length (cols_finish ws ps maxh) = length ws.
Proof.
  intros ws l ps i HP. rewrite <- (map_length (fun x : Z * Z * size => snd (fst x))). rewrite finish_heights.
  induction ws as [|w ws IH] in l, ps, i, HP |- *.
  - destruct ps; [reflexivity|destruct l; contradiction].
  - destruct l as [|it l]; [contradiction|]. destruct ps as [|p ps]; [contradiction|].
    destruct HP as [_ HR]. destruct p; cbn; rewrite (IH l ps (i + 1) HR); reflexivity.
Qed.

(* Columns over children that may have no rows (Pile([])): the Columns itself always has at least one *)
Lemma cols_good k l d mw fp :
  0 <= k -> Forall (cgoodN k) l -> Forall (cols_item_ok (cols_sizing l)) l ->
  0 <= d -> 1 <= mw -> 0 <= fp < zlength l -> Good (cols_sem l d mw fp).
Proof.
  intros Hk0 HG HO Hd Hm Hfp. unfold cols_sem. apply mk_node_good.
  - (* rows *)
    intros c f Hs Hc. unfold cols_rows.
    pose proof (cols_sizes_flow k _ l d mw fp c f Hk0 Hs HG HO Hd ltac:(lia) Hfp Hc) as S.
    destruct (cols_sizes l d mw fp (SFlow c) f) as [t|e]; cbn [bind]; [|exact S].
    destruct t; lia.
  - (* flow *)
    intros c f Hs Hc. unfold cols_render, cols_rows.
    pose proof (cols_sizes_flow k _ l d mw fp c f Hk0 Hs HG HO Hd ltac:(lia) Hfp Hc) as S.
    destruct (cols_sizes l d mw fp (SFlow c) f) as [t|e]; cbn [bind]; [|exact S].
    destruct S as [ws [ps [-> [HP [HW HT]]]]].
    pose proof (finish_length k f fp (flow_maxh ps) ws l ps 0 HP) as FL.
    assert (Hm1 : cplan_heights ps = [] -> flow_maxh ps = 1).
    { unfold flow_maxh. intros ->. reflexivity. }
    assert (Hm2 : cplan_heights ps <> [] -> flow_maxh ps = Z.max 1 (maxz (cplan_heights ps))).
    { unfold flow_maxh. destruct (cplan_heights ps); [congruence|reflexivity]. }
    destruct (heights_result k f fp ws l ps 0 (flow_maxh ps) Hk0 HP HW Hm1 Hm2) as [M1 [HA HR]].
    pose proof (render_flow k f fp (flow_maxh ps) (zlength (cols_finish ws ps (flow_maxh ps))) d Hk0 Hd M1 ws l ps 0 HP HW HG) as R.
    destruct (cols_render_items l (cols_finish ws ps (flow_maxh ps)) (zlength (cols_finish ws ps (flow_maxh ps))) d f fp 0)
      as [data|e]; cbn [bind]; [|exact R].
    destruct R as [R1 [R2 R3]].
    assert (EN : zlength (cols_finish ws ps (flow_maxh ps)) = zlength ws) by (unfold zlength; rewrite FL; reflexivity).
    rewrite EN in R1.
    pose proof (finish_heights (flow_maxh ps) ws ps) as FH.
    destruct (cols_finish ws ps (flow_maxh ps)) as [|t0 t] eqn:ET.
    { (* no columns at all *)
      destruct ws; [|cbn in FL; lia]. destruct data; [|cbn in R3; destruct ps; cbn in R3; discriminate].
      cbn. repeat split; auto. }
    assert (HA' : all_heights ws ps (flow_maxh ps) <> []) by (rewrite <- FH; discriminate).
    specialize (HA HA'). rewrite FH, HA.
    destruct data as [|e0 data].
    + (* nothing is shown: one blank row *)
      cbn [map] in R3. rewrite <- R3 in HR. cbn in HR. cbn. repeat split; auto. f_equal. lia.
    + destruct (join_spec (e0 :: data)) as [cv [EJ [J1 [J2 [J3 J4]]]]].
      { intros e He. exact (proj1 (Forall_forall _ _) R2 e He). }
      rewrite EJ. cbn [bind].
      assert (J2' : Z.max 1 (cr cv) = flow_maxh ps).
      { rewrite J2, maxrows_map, R3. exact HR. }
      assert (S1 : exists c1, (if cc cv <? c then pad_trim_lr cv 0 (c - cc cv) else Ok cv) = Ok c1
                              /\ cc c1 = c /\ cr c1 = cr cv /\ rect c1 = true /\ inside c1).
      { destruct (cc cv <? c) eqn:EC.
        - rewrite pad_lr_nonneg by lia. eexists. split; [reflexivity|].
          pose proof (inside_pad_lr cv 0 (c - cc cv) ltac:(lia) ltac:(lia) J4) as IP. cbn in IP |- *.
          repeat split; auto. lia.
        - exists cv. repeat split; auto. lia. }
      destruct S1 as [c1 [E1 [A1 [A2 [A3 A4]]]]]. rewrite E1. cbn [bind].
      assert (0 <= cr cv).
      { rewrite J2, maxrows_map. destruct (fold_max_spec (map (fun e => cr (fst e)) (e0 :: data)) 0) as [_ [P2 _]]. exact P2. }
      destruct (cr c1 <? 1) eqn:ER.
      * destruct (pad_tb_nonneg c1 0 1) as [c2 [E2 [B1 [B2 [B3 B4]]]]]; try lia. rewrite E2.
        repeat split; auto; try congruence. f_equal. lia.
      * repeat split; auto. f_equal. lia.
  - (* box *)
    intros c r f Hs Hc Hr.
    exact (cols_box_ok k (cols_sizing l) l d mw fp c r f Hk0 HG HO Hs Hd ltac:(lia) Hfp Hc Hr).
Qed.
