(* C02: content_delta, part 3.  What shards_delta / shard_cviews_delta flag as unchanged,
   and the theorem: the delta applied to the old rows gives the new rows. *)
From Coq Require Import ZArith List Bool Lia ZifyBool.
From Urwid Require Import PyBase Canvas CanvasGrid CanvasFacts CanvasAbs CanvasVert CanvasHoriz CanvasJoin CanvasDelta CanvasDelta2.
Import ListNotations.
Open Scope Z_scope.
Arguments Z.add : simpl never.
Arguments Z.sub : simpl never.
Arguments Z.mul : simpl never.
Arguments Z.ltb : simpl never.
Arguments Z.leb : simpl never.
Arguments Z.eqb : simpl never.
Arguments Z.min : simpl never.
Arguments Z.max : simpl never.
Arguments Z.to_nat : simpl never.
Arguments Z.of_nat : simpl never.

(* ------------------------------------------------------------------ the generic aligner *)
Section AlignSpec.
  Context {A B C : Type}.
  Variables (sizeA : A -> Z) (sizeB : B -> Z) (hit : A -> B -> C) (miss : A -> C).
  Variable ys : list B.

  Definition sumB (l : list B) : Z := fold_right (fun b acc => sizeB b + acc) 0 l.
  Lemma sumB_app a b : sumB (a ++ b) = sumB a + sumB b.
  Proof. unfold sumB. induction a as [|x a IH]; cbn [app fold_right]; [lia|]. rewrite IH. lia. Qed.

  (* the iterator state: what has been consumed sums to opos *)
  Definition Cur (ocur : option B) (rest : list B) (opos : Z) : Prop :=
    exists done, ys = done ++ (match ocur with Some o => [o] | None => [] end) ++ rest /\ sumB done = opos.

  Lemma al_while_spec rest : forall o opos pos,
    Cur (Some o) rest opos ->
    let r := al_while sizeB o rest opos pos in
    Cur (fst (fst r)) (snd (fst r)) (snd r) /\ (forall o', fst (fst r) = Some o' -> pos <= snd r).
  Proof.
    induction rest as [|o1 rest IH]; intros o opos pos (done & E & S); cbn [al_while]; cbn zeta.
    - destruct (opos <? pos) eqn:El; cbn [fst snd].
      + split; [|discriminate]. exists (done ++ [o]). split; [rewrite E, <- app_assoc; reflexivity|]. rewrite sumB_app. cbn [sumB fold_right]. fold (sumB done). lia.
      + split; [exists done; auto|]. intros o' _. lia.
    - destruct (opos <? pos) eqn:El; cbn [fst snd].
      + apply IH. exists (done ++ [o]). split; [rewrite E, <- app_assoc; reflexivity|]. rewrite sumB_app. cbn [sumB fold_right]. fold (sumB done). lia.
      + split; [exists done; auto|]. intros o' _. lia.
  Qed.

  Fixpoint AlignSpec (pos : Z) (xs : list A) (outs : list C) : Prop :=
    match xs, outs with
    | [], [] => True
    | x :: xs', out :: outs' =>
        (out = miss x \/ exists done o post, ys = done ++ o :: post /\ sumB done = pos /\ out = hit x o) /\
        AlignSpec (pos + sizeA x) xs' outs'
    | _, _ => False
    end.

  Lemma align_spec : forall xs ocur rest pos opos,
    Cur ocur rest opos -> AlignSpec pos xs (align sizeA sizeB hit miss xs ocur rest pos opos).
  Proof.
    induction xs as [|x xs IH]; intros ocur rest pos opos HC; [exact I|].
    cbn [align].
    (* step 1: fetch *)
    assert (exists ocur1 rest1, (match ocur with Some _ => (ocur, rest) | None => match rest with [] => (None, []) | o :: r => (Some o, r) end end) = (ocur1, rest1)
                                /\ Cur ocur1 rest1 opos) as (ocur1 & rest1 & E1 & C1).
    { destruct ocur as [o|]; [eauto|]. destruct rest as [|o r]; [eauto|]. eexists _, _. split; [reflexivity|].
      destruct HC as (done & E & S). exists done. auto. }
    rewrite E1.
    assert (exists ocur2 rest2 opos2, (match ocur1 with None => (None, rest1, opos) | Some o => al_while sizeB o rest1 opos pos end) = (ocur2, rest2, opos2)
                                      /\ Cur ocur2 rest2 opos2 /\ (forall o', ocur2 = Some o' -> pos <= opos2)) as (ocur2 & rest2 & opos2 & E2 & C2 & Hge).
    { destruct ocur1 as [o|].
      - destruct (al_while_spec rest1 o opos pos C1) as [X Y]. cbn zeta in X, Y.
        destruct (al_while sizeB o rest1 opos pos) as [[a b] c]. cbn [fst snd] in *. eexists _, _, _. split; [reflexivity|]. auto.
      - eexists _, _, _. split; [reflexivity|]. split; [assumption|discriminate]. }
    rewrite E2. destruct ocur2 as [o|].
    - destruct (pos <? opos2) eqn:El.
      + cbn [AlignSpec]. split; [now left|]. apply IH. exact C2.
      + cbn [AlignSpec]. split.
        * right. destruct C2 as (done & E & S). exists done, o, rest2. specialize (Hge o eq_refl). repeat split; [exact E|lia].
        * apply IH. destruct C2 as (done & E & S). exists (done ++ [o]). split; [rewrite E, <- app_assoc; reflexivity|].
          rewrite sumB_app. cbn [sumB fold_right]. fold (sumB done). lia.
    - cbn [AlignSpec]. split; [now left|]. apply IH. exact C2.
  Qed.

  (* every output keeps its input *)
  Lemma align_proj {X} (proj : C -> X) (pa : A -> X) :
    (forall x o, proj (hit x o) = pa x) -> (forall x, proj (miss x) = pa x) ->
    forall xs ocur rest pos opos, map proj (align sizeA sizeB hit miss xs ocur rest pos opos) = map pa xs.
  Proof.
    intros Hh Hm. induction xs as [|x xs IH]; intros ocur rest pos opos; [reflexivity|]. cbn [align].
    destruct (match ocur with Some _ => (ocur, rest) | None => match rest with [] => (None, []) | o :: r => (Some o, r) end end) as [ocur1 rest1].
    destruct (match ocur1 with None => (None, rest1, opos) | Some o => al_while sizeB o rest1 opos pos end) as [[ocur2 rest2] opos2].
    destruct ocur2 as [o|]; [destruct (pos <? opos2)|]; cbn [map]; rewrite ?Hh, ?Hm, IH; reflexivity.
  Qed.
End AlignSpec.

(* ------------------------------------------------------------------ shape of shards_delta *)
Lemma shard_cviews_delta_fst cvs ocvs : map fst (shard_cviews_delta cvs ocvs) = cvs.
Proof.
  unfold shard_cviews_delta. rewrite (align_proj ccols ccols _ _ fst (fun cv : cview => cv)); [apply map_id| |]; reflexivity.
Qed.

Lemma shards_delta_proj new old : map projS (shards_delta new old) = new.
Proof.
  unfold shards_delta. rewrite (align_proj _ _ _ _ projS (fun s : shard => s)); [apply map_id| |].
  - intros [n cvs] [m ocvs]. cbn [fst snd]. destruct (_ && _); unfold projS; cbn [fst snd]; [now rewrite shard_cviews_delta_fst|].
    rewrite map_map. cbn [fst]. now rewrite map_id.
  - intros [n cvs]. unfold projS; cbn [fst snd]. rewrite map_map. cbn [fst]. now rewrite map_id.
Qed.

(* ------------------------------------------------------------------ "cv[5] is other_cv[5] and cv[:5] == other_cv[:5]" *)
Lemma amap_eqb_eq a b : amap_eqb a b = true -> a = b.
Proof.
  destruct a as [x|], b as [y|]; cbn [amap_eqb]; try discriminate; [|reflexivity]. intros H. f_equal.
  revert y H. induction x as [|[k v] x IH]; intros [|[k' v'] y] H; try discriminate; [reflexivity|].
  apply andb_prop in H as [H H3]. apply andb_prop in H as [H1 H2]. f_equal; [f_equal; lia|]. apply IH. exact H3.
Qed.

Lemma cview_same_eq a b : cview_same a b = true -> (cid (ccanv a) = cid (ccanv b) -> ccanv a = ccanv b) -> a = b.
Proof.
  unfold cview_same. intros H Hid. repeat (apply andb_prop in H as [H ?]).
  destruct a, b. cbn in *. f_equal; try lia; [now apply amap_eqb_eq|apply Hid; lia].
Qed.

(* ------------------------------------------------------------------ splitting a run *)
Lemma AWF_split w s1 : forall s2 sl,
  AWF w (s1 ++ s2) sl -> SWF w sl ->
  exists sl', AWF w s2 sl' /\ SWF w sl' /\
              acontent_from (s1 ++ s2) sl = acontent_from s1 sl ++ acontent_from s2 sl' /\
              zlen (acontent_from s1 sl) = ashards_rows s1.
Proof.
  induction s1 as [|[n cvs] s1 IH]; intros s2 sl A S.
  - exists sl. cbn [app acontent_from ashards_rows fold_right]. auto.
  - cbn [app] in A. destruct (AWF_step _ _ _ _ _ A S) as (fb & F & Efr & Ef & Hn & Fo & Fn & Hw & Hr & S').
    destruct (IH _ _ Hr S') as (sl' & A' & S'' & C' & L'). exists sl'. split; [assumption|]. split; [assumption|].
    cbn [app]. rewrite (acontent_step _ _ _ _ _ Ef), (acontent_step _ _ _ _ _ Ef), C', app_assoc. split; [reflexivity|].
    rewrite zlen_app, zlen_arows, L'. cbn [ashards_rows fold_right fst]. fold (ashards_rows s1). lia.
Qed.

(* ------------------------------------------------------------------ where a cview of the old canvas is *)
Lemma cviews_cols_abs cvs : body_width (map abs_cv cvs) = cviews_cols cvs.
Proof. apply body_width_abs_cv. Qed.

Lemma nthz_In {X} (l : list X) k x : nthz l k = Some x -> In x l.
Proof. unfold nthz. destruct (k <? 0); [discriminate|]. apply nth_error_In. Qed.

Lemma getrow_app_r (A B : list row) k : 0 <= k -> getrow (A ++ B) (zlen A + k) = getrow B k.
Proof.
  intros. unfold getrow. pose proof (zlen_nonneg A). rewrite (nthz_app_r A B (zlen A + k)); [|lia].
  replace (zlen A + k - zlen A) with k by lia. reflexivity.
Qed.
Lemma getrow_none (l : grid) i : zlen l <= i -> getrow l i = [].
Proof.
  intros. unfold getrow, nthz. destruct (i <? 0); [reflexivity|].
  assert (nth_error l (Z.to_nat i) = None) as -> by (apply nth_error_None; unfold zlen in *; lia). reflexivity.
Qed.

Lemma old_placed old O w :
  WF old -> shards_cols old = w -> content old = Ok O ->
  forall done n ocvs post od ov opost k ra,
    old = done ++ (n, ocvs) :: post -> cviews_cols ocvs = w -> ocvs = od ++ ov :: opost ->
    nthz (rows_of ov) k = Some ra ->
    rowagree (getrow O (shards_rows done + k)) (cviews_cols od) (map (tag true) ra).
Proof.
  intros W Ew C done n ocvs post od ov opost k ra Eold Hsum Eo Hra. subst ocvs.
  destruct (WF_elim _ W) as (Hc & S & A & C'). rewrite C' in C. injection C as <-. rewrite Ew in *.
  pose proof (AWF_equiv _ _ _ _ (sl_equiv_nil_free w) A) as A1.
  rewrite (acontent_equiv _ _ _ (sl_equiv_nil_free w)).
  rewrite Eold, map_app in A1 |- *. cbn [map] in A1 |- *.
  destruct (AWF_split _ _ _ _ A1 (SWF_free w ltac:(lia))) as (sl' & A2 & S2 & C2 & L2).
  rewrite shards_rows_abs in L2.
  destruct (nthz_some_lt _ _ _ Hra) as [Hk0 Hk1].
  (* the shard is all fresh: it can be run from the empty slot list *)
  change (abs_sh (n, (od ++ ov :: opost))) with (n, map abs_cv (od ++ ov :: opost)) in *.
  destruct (AWF_step _ _ _ _ _ A2 S2) as (fb & F & Efr & Ef & Hn & Fo & Fn & Hw & Hr & S').
  assert (fb = mk_fresh (map abs_cv (od ++ ov :: opost))) as Efb.
  { rewrite <- Efr. apply (Fit_all_fresh _ _ _ F); [eapply Forall_impl; [|exact Fo]; intros x [? _]; assumption|]. rewrite Efr, cviews_cols_abs. lia. }
  assert (body_of fb = map abs_cv (od ++ ov :: opost)) as Eb by (rewrite Efb; apply body_of_mk_fresh).
  rewrite Eb in *.
  assert (AWF w ((n, map abs_cv (od ++ ov :: opost)) :: map abs_sh post) []) as A3.
  { cbn [AWF fill]. split; [assumption|]. split; [assumption|]. exists (map abs_cv (od ++ ov :: opost)). repeat split; assumption. }
  assert (acontent_from ((n, map abs_cv (od ++ ov :: opost)) :: map abs_sh post) sl' = acontent_from ((n, map abs_cv (od ++ ov :: opost)) :: map abs_sh post) []) as Ec.
  { rewrite (acontent_step _ _ _ _ _ Ef). cbn [acontent_from fill]. reflexivity. }
  set (rest := acontent_from ((n, map abs_cv (od ++ ov :: opost)) :: map abs_sh post) []) in *.
  match type of C2 with _ = _ ++ ?X => replace X with rest in C2 by (symmetry; exact Ec) end.
  match goal with |- context [getrow ?X _] => replace X with (acontent_from (map abs_sh done) [Free w] ++ rest) by (symmetry; exact C2) end.
  assert (zlen rest = n + ashards_rows (map abs_sh post)) as Lr.
  { subst rest. rewrite (AWF_len _ _ _ A3). reflexivity. }
  assert (cview_ok ov) as Okv.
  { rewrite Eold in S. unfold shards_ok in S. apply Forall_app in S as [_ S0]. inversion S0 as [|x l Hx Hl]; subst x l.
    cbn [snd] in Hx. apply Forall_app in Hx as [_ Hx]. inversion Hx; assumption. }
  assert (zlen ra = ccols ov) as Hzra.
  { pose proof (rows_of_width _ Okv) as Fw. rewrite Forall_forall in Fw. apply Fw. eapply nthz_In; eauto. }
  assert (getrow (acontent_from (map abs_sh done) [Free w] ++ rest) (shards_rows done + k) = getrow rest k) as Hg.
  { rewrite <- L2. apply getrow_app_r. lia. }
  rewrite Hg.
  destruct (Z_lt_ge_dec k (n + ashards_rows (map abs_sh post))) as [Hlt|Hge].
  - rewrite map_app in A3. cbn [map] in A3. subst rest. rewrite map_app. cbn [map].
    destruct (placement_fresh w n (map abs_cv od) (abs_cv ov) (map abs_cv opost) (map abs_sh post) k A3) as (R & ra' & E1 & E2 & E3).
    + rewrite <- Hsum, <- cviews_cols_abs, map_app. reflexivity.
    + cbn [abs_cv snd]. lia.
    + lia.
    + cbn [abs_cv snd fst] in E2, E3. rewrite Hra in E2. injection E2 as <-.
      unfold getrow. rewrite E1. apply rowagree_eq. rewrite zlen_map, map_map.
      rewrite map_ext with (g := fun c => c) by (intros; apply untag_tag). rewrite map_id.
      rewrite cviews_cols_abs in E3. rewrite Hzra. exact E3.
  - rewrite getrow_none by lia. unfold rowagree. rewrite dropz_nil. constructor.
Qed.

(* ------------------------------------------------------------------ locating an output of the aligner *)
Section AlignNth.
  Context {A B C : Type}.
  Variables (sizeA : A -> Z) (sizeB : B -> Z) (hit : A -> B -> C) (miss : A -> C).
  Variable ys : list B.
  Definition sumA (l : list A) : Z := fold_right (fun a acc => sizeA a + acc) 0 l.

  Lemma AlignSpec_nth : forall o1 pos xs outs out o2,
    AlignSpec sizeA sizeB hit miss ys pos xs outs -> outs = o1 ++ out :: o2 ->
    exists x1 x x2, xs = x1 ++ x :: x2 /\ length x1 = length o1 /\
      (out = miss x \/ exists done o post, ys = done ++ o :: post /\ sumB sizeB done = pos + sumA x1 /\ out = hit x o).
  Proof.
    induction o1 as [|o0 o1 IH]; intros pos xs outs out o2 H E; subst outs; destruct xs as [|x xs]; cbn [AlignSpec app] in H; try contradiction.
    - destruct H as [H _]. exists [], x, xs. split; [reflexivity|]. split; [reflexivity|].
      destruct H as [H|(done & o & post & E1 & E2 & E3)]; [now left|right]. exists done, o, post. cbn [sumA fold_right]. repeat split; try assumption. lia.
    - destruct H as [_ H]. destruct (IH _ _ _ _ _ H eq_refl) as (x1 & x0 & x2 & -> & Hl & Hc).
      exists (x :: x1), x0, x2. split; [reflexivity|]. split; [cbn [length]; lia|].
      destruct Hc as [Hc|(done & o & post & E1 & E2 & E3)]; [now left|right]. exists done, o, post. cbn [sumA fold_right]. fold (sumA x1).
      repeat split; try assumption. lia.
  Qed.

  Lemma AlignSpec_length : forall xs pos outs, AlignSpec sizeA sizeB hit miss ys pos xs outs -> length outs = length xs.
  Proof.
    induction xs as [|x xs IH]; intros pos [|o outs] H; cbn [AlignSpec] in H; try contradiction; [reflexivity|].
    destruct H as [_ H]. cbn [length]. f_equal. eapply IH; eauto.
  Qed.
End AlignNth.

(* ------------------------------------------------------------------ what gets flagged lies at the same place in the old canvas *)
Definition all_cviews (s : shards) : list cview := flat_map snd s.
Definition ids_ok (new old : shards) : Prop :=
  forall a b, In a (all_cviews new) -> In b (all_cviews old) -> cid (ccanv a) = cid (ccanv b) -> ccanv a = ccanv b.

Lemma noskip_tabs_false cv : noskip (tabs (cv, false)).
Proof.
  unfold noskip, tabs, trows. cbn [fst snd]. apply Forall_forall. intros r Hr. apply in_map_iff in Hr as (r0 & <- & _).
  apply Forall_forall. intros c Hc. apply in_map_iff in Hc as (c0 & <- & _). apply is_skip_tag.
Qed.

Lemma body_width_tabs_cvs dcvs : body_width (map tabs dcvs) = cviews_cols (map fst dcvs).
Proof.
  induction dcvs as [|[cv u] l IH]; cbn [map body_width cviews_cols fold_right tabs fst]; [reflexivity|].
  unfold body_width, cviews_cols in IH. rewrite IH. reflexivity.
Qed.

Definition hitS (w : Z) (s o : shard) : Z * list dcview :=
  if (cviews_cols (snd s) =? cviews_cols (snd o)) && (cviews_cols (snd o) =? w)
  then (fst s, shard_cviews_delta (snd s) (snd o))
  else (fst s, map (fun cv => (cv, false)) (snd s)).
Definition missS (s : shard) : Z * list dcview := (fst s, map (fun cv => (cv, false)) (snd s)).

Lemma cviews_cols_sumA cvs : cviews_cols cvs = sumA ccols cvs.
Proof. reflexivity. Qed.

Lemma nthz_map_inv {X Y} (f : X -> Y) l k y : nthz (map f l) k = Some y -> exists x, nthz l k = Some x /\ y = f x.
Proof. rewrite nthz_map. destruct (nthz l k) as [x|]; [|discriminate]. intros [= <-]. eauto. Qed.

Lemma delta_shards_ok new old O w :
  WF old -> shards_cols old = w -> content old = Ok O -> ids_ok new old ->
  forall xs pos outs,
    AlignSpec (fun s : shard => fst s) (fun s : shard => fst s) (hitS w) missS old pos xs outs ->
    (forall s cv, In s xs -> In cv (snd s) -> In cv (all_cviews new)) ->
    ShardsOK O w pos (map tabs_sh outs).
Proof.
  intros Wold Ew Cold Hids. induction xs as [|s xs IH]; intros pos [|out outs] H Hin; cbn [AlignSpec] in H; try contradiction; [exact I|].
  destruct H as [Hout Hrest]. cbn [map ShardsOK].
  assert (fst (tabs_sh out) = fst s) as Efst.
  { destruct Hout as [->|(done & o & post & _ & _ & ->)]; [reflexivity|]. unfold hitS. destruct (_ && _); reflexivity. }
  destruct (tabs_sh out) as [n tcvs] eqn:Eout. cbn [fst] in Efst. subst n. split.
  2:{ apply IH; [exact Hrest|]. intros s0 cv H1 H2. apply (Hin s0 cv); [now right|assumption]. }
  assert (forall cvs0, tcvs = map tabs (map (fun cv : cview => (cv, false)) cvs0) -> FreshOK O w pos tcvs) as Hfalse.
  { intros cvs0 ->. left. apply Forall_forall. intros a Ha. apply in_map_iff in Ha as (dc & <- & Hdc). apply in_map_iff in Hdc as (cv & <- & _). apply noskip_tabs_false. }
  destruct Hout as [->|(done & o & post & Eold & Esum & ->)].
  - unfold missS, tabs_sh in Eout. cbn [fst snd] in Eout. injection Eout as <-. now apply (Hfalse (snd s)).
  - unfold hitS in Eout. destruct ((cviews_cols (snd s) =? cviews_cols (snd o)) && (cviews_cols (snd o) =? w)) eqn:Econd.
    2:{ unfold tabs_sh in Eout. cbn [fst snd] in Eout. injection Eout as <-. now apply (Hfalse (snd s)). }
    unfold tabs_sh in Eout. cbn [fst snd] in Eout. injection Eout as <-.
    right. split; [rewrite body_width_tabs_cvs, shard_cviews_delta_fst; lia|].
    intros c1 a c2 k rat Edec Hrat.
    destruct (map_eq_app_cons _ _ _ _ _ Edec) as (d1 & [cv u] & d2 & Ed & E1 & E2 & E3). subst a.
    destruct u; [|apply rowagree_noskip; pose proof (noskip_tabs_false cv) as Hn; unfold noskip in Hn; rewrite Forall_forall in Hn; apply Hn; eapply nthz_In; eauto].
    (* a flagged cview: locate its partner in the old shard *)
    pose proof (align_spec ccols ccols (fun cv o => (cv, cview_same cv o)) (fun cv => (cv, false)) (snd o) (snd s) None (snd o) 0 0) as Hsp.
    fold (shard_cviews_delta (snd s) (snd o)) in Hsp.
    assert (AlignSpec ccols ccols (fun cv o => (cv, cview_same cv o)) (fun cv => (cv, false)) (snd o) 0 (snd s) (shard_cviews_delta (snd s) (snd o))) as Hsp'.
    { apply Hsp. exists []. split; reflexivity. }
    destruct (AlignSpec_nth ccols ccols _ _ (snd o) d1 0 (snd s) _ (cv, true) d2 Hsp' Ed) as (x1 & x & x2 & Ex & Hlen & Hc).
    destruct Hc as [Hc|(odone & ov & opost & Eov & Esumo & Hc)]; [discriminate|]. injection Hc as -> Hsame. symmetry in Hsame.
    (* the prefix of the delta cviews is the prefix of the shard's cviews *)
    assert (map fst d1 = x1) as Ed1.
    { pose proof (shard_cviews_delta_fst (snd s) (snd o)) as Ef. rewrite Ed, Ex, map_app in Ef. cbn [map fst] in Ef.
      apply (f_equal (firstn (length x1))) in Ef. rewrite !firstn_app in Ef.
      rewrite map_length, <- Hlen, Nat.sub_diag in Ef. cbn [firstn] in Ef. rewrite !app_nil_r in Ef.
      rewrite firstn_all2 in Ef by (rewrite map_length; lia). rewrite firstn_all2 in Ef by lia. exact Ef. }
    assert (x = ov) as ->.
    { apply (cview_same_eq _ _ Hsame). apply Hids.
      - apply (Hin s x); [now left|]. rewrite Ex. apply in_or_app. right. now left.
      - unfold all_cviews. apply in_flat_map. exists o. split; [rewrite Eold; apply in_or_app; right; now left|]. rewrite Eov. apply in_or_app. right. now left. }
    (* its row *)
    cbn [tabs snd] in Hrat. unfold trows in Hrat. cbn [fst snd] in Hrat.
    assert (exists ra, nthz (rows_of ov) k = Some ra /\ rat = map (tag true) ra) as (ra & Hra & ->).
    { destruct (nthz_map_inv _ _ _ _ Hrat) as (ra & Hra & ->). eauto. }
    destruct o as [no ocvs]. cbn [snd] in *.
    pose proof (old_placed old O w Wold Ew Cold done no ocvs post odone ov opost k ra Eold ltac:(lia) Eov Hra) as Hp.
    replace (sumB (fun s0 : shard => fst s0) done) with (shards_rows done) in Esum by reflexivity.
    rewrite Esum in Hp.
    replace (body_width c1) with (cviews_cols odone); [exact Hp|].
    rewrite <- E1, body_width_tabs_cvs, Ed1. change (sumB ccols odone) with (cviews_cols odone) in Esumo. rewrite Esumo.
    change (sumA ccols x1) with (cviews_cols x1). lia.
Qed.

(* ------------------------------------------------------------------ the theorem *)
Lemma rows_agree_Forall2 : forall (O T : list row),
  length O = length T -> (forall k R, nthz T k = Some R -> rowagree (getrow O k) 0 R) ->
  Forall2 (fun Or Tr => rowagree Or 0 Tr) O T.
Proof.
  induction O as [|o O IH]; intros [|t T] Hl H; cbn [length] in Hl; try discriminate; constructor.
  - specialize (H 0 t eq_refl). exact H.
  - apply IH; [lia|]. intros k R Hk.
    destruct (Z_lt_ge_dec k 0) as [Hn|Hn]; [unfold nthz in Hk; destruct (k <? 0) eqn:E; [discriminate|lia]|].
    assert (nthz (t :: T) (k + 1) = Some R) as Hk'.
    { rewrite nthz_nth_error in * by lia. replace (Z.to_nat (k + 1)) with (S (Z.to_nat k)) by lia. exact Hk. }
    specialize (H _ _ Hk'). unfold getrow in *. rewrite nthz_nth_error in H by lia. replace (Z.to_nat (k + 1)) with (S (Z.to_nat k)) in H by lia.
    cbn [nth_error] in H. rewrite nthz_nth_error by lia. exact H.
Qed.

Lemma apply_delta_eq w : forall (O T : list row) d,
  Forall2 (fun Or Tr => rowagree Or 0 Tr) O T -> map expand d = map (map optcell) T ->
  Forall (fun r : row => zlen r = w) O -> Forall (fun r : row => zlen r = w) T ->
  apply_delta O d = map (map untag) T.
Proof.
  unfold apply_delta. induction O as [|o O IH]; intros T d F X Fo Ft; inversion F; subst.
  - reflexivity.
  - destruct d as [|di d]; [discriminate|]. cbn [map] in X. injection X as X1 X2.
    inversion Fo; subst. inversion Ft; subst. cbn [combine map fst snd]. f_equal; [|now apply IH].
    rewrite apply_delta_row_expand by (rewrite X1, zlen_map; lia). rewrite X1, pickopt_optcell. apply pickrow_agree; [lia|assumption].
Qed.

Lemma untag_tabs dc : pmap untag (tabs dc) = abs_cv (fst dc).
Proof.
  unfold pmap, tabs, abs_cv, trows, dcols. cbn [fst snd]. f_equal. rewrite map_map. rewrite <- (map_id (rows_of (fst dc))) at 2.
  apply map_ext. intros r. unfold rowmap. rewrite map_map. rewrite <- (map_id r) at 2. apply map_ext. intros c. apply untag_tag.
Qed.

Lemma untag_tabs_sh D : map (ashmap untag) (map tabs_sh D) = map abs_sh (map projS D).
Proof.
  rewrite !map_map. apply map_ext. intros [n dcvs]. unfold ashmap, tabs_sh, abs_sh, projS. cbn [fst snd]. f_equal.
  rewrite !map_map. apply map_ext. intros dc. apply untag_tabs.
Qed.

Theorem delta_apply new old N O d :
  WF new -> WF old -> shards_cols new = shards_cols old -> shards_rows new = shards_rows old -> ids_ok new old ->
  content new = Ok N -> content old = Ok O ->
  delta_from (shards_delta new old) [] = Ok d ->
  apply_delta O d = N.
Proof.
  intros Wn Wo Ec Er Hids Cn Co Ed.
  destruct (WF_elim _ Wn) as (Hw & Sn & An & Cn'). set (w := shards_cols new) in *.
  set (D := shards_delta new old) in *.
  assert (map projS D = new) as Hproj by apply shards_delta_proj.
  assert (wf_fromb w (map projS D) (map projT []) = true) as Hwf.
  { rewrite Hproj. unfold WF, wfb in Wn. apply andb_prop in Wn as [_ Wn]. exact Wn. }
  destruct (dwf_abs w Hw D [] [] ltac:(constructor) (sl_equiv_refl _) Hwf) as (AT & d0 & Ed0 & X).
  rewrite Ed in Ed0. injection Ed0 as <-.
  set (T := acontent_from (map tabs_sh D) []) in *.
  (* untagging the tagged run gives the new content *)
  assert (N = map (map untag) T) as ->.
  { destruct (amap_correct w untag (fun c => eq_refl) _ [] AT) as [_ C2]. cbn [map] in C2. rewrite untag_tabs_sh, Hproj in C2.
    rewrite Cn' in Cn. injection Cn as <-. exact C2. }
  (* agreement with the old rows *)
  pose proof (AWF_equiv _ _ _ _ (sl_equiv_nil_free w) AT) as AT1.
  assert (SI O 0 [Free w]) as Hsi by (intros s1 a s2 k ra E; destruct s1 as [|? [|? ?]]; discriminate).
  assert (ShardsOK O w 0 (map tabs_sh D)) as Hsh.
  { apply (delta_shards_ok new old O w Wo ltac:(lia) Co Hids new 0 D).
    - subst D. unfold shards_delta. apply align_spec. exists []. split; reflexivity.
    - intros s cv Hs Hcv. unfold all_cviews. apply in_flat_map. eauto. }
  pose proof (run_agree O w _ _ 0 AT1 (SWF_free w ltac:(lia)) Hsi Hsh) as Hag.
  rewrite <- (acontent_equiv _ _ _ (sl_equiv_nil_free w)) in Hag. fold T in Hag.
  destruct (content_size _ _ Wo Co) as [Lo Fo]. rewrite <- Ec in Fo. fold w in Fo.
  pose proof (AWF_len _ _ _ AT) as Lt. fold T in Lt. pose proof (AWF_width _ _ _ AT) as Ft. fold T in Ft.
  assert (ashards_rows (map tabs_sh D) = shards_rows new) as Lr.
  { rewrite <- Hproj. clear. induction D as [|[n c] D IH]; cbn [map ashards_rows shards_rows fold_right tabs_sh projS fst]; [reflexivity|].
    unfold ashards_rows, shards_rows in IH. now rewrite IH. }
  apply (apply_delta_eq w); try assumption.
  apply rows_agree_Forall2; [unfold zlen in *; lia|]. intros k R Hk. specialize (Hag k R Hk). now rewrite Z.add_0_l in Hag.
Qed.
