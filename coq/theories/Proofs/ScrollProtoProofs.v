(* C20 - ScrollBar.render over any widget speaking the scrolling protocol (ListBox included), absolute and
   relative mode: for ALL answers of the wrapped widget that satisfy the protocol's contract (a boolean predicate),
   the bar is drawn iff needed, never raises, its parts are >= 0 and fill the height, the thumb is off the top iff the
   effective position is positive (given room), the top part is monotone in the position. *)
From Coq Require Import ZArith QArith List Bool Lia ZifyBool.
From Urwid Require Import PyBase ScrollBase scrollable_gen ScrollFloat Scrollable ScrollableProofs ScrollFloatProofs ScrollBarProofs.
Import ListNotations.
Open Scope Z_scope.
Arguments Z.add : simpl never. Arguments Z.sub : simpl never. Arguments Z.mul : simpl never.
Arguments Z.ltb : simpl never. Arguments Z.leb : simpl never. Arguments Z.eqb : simpl never.
Arguments Z.min : simpl never. Arguments Z.max : simpl never.

(* the position / position range / thumb weight ScrollBar.render ends up using *)
Definition eff (maxrow : Z) (po : pobs) : Z * Z * Q :=
  match p_relative po with
  | Some x => x
  | None => (p_pos po, p_rows_w po - maxrow, thumb_weight_of maxrow (p_rows_w po))
  end.
Definition eff_pos maxrow po := fst (fst (eff maxrow po)).
Definition eff_posmax maxrow po := snd (fst (eff maxrow po)).
Definition wants_bar (maxrow : Z) (po : pobs) : bool :=
  match p_relative po with Some _ => true | None => maxrow <? p_rows_full po end.

(* the contract of the protocol, as far as the bar needs it (boolean):
   relative mode: the first visible position and the visible amount are >= 0 and first + visible does not exceed the
   (estimated) length; absolute mode: 0 <= get_scrollpos <= max 1 (rows_max - maxrow); all counts below 2^53 *)
Definition proto_okb (maxrow : Z) (po : pobs) : bool :=
  (1 <=? maxrow) && (maxrow <? 2 ^ 53) &&
  (if p_relcap po && p_reqrel po then
     (0 <=? p_first po) && (0 <=? p_visible po) &&
     (p_first po + p_visible po <=? Z.max (Z.max (p_len po) (p_visible po)) (p_first po)) &&
     (Z.max (Z.max (p_len po) (p_visible po)) (p_first po) <? 2 ^ 53)
   else true) &&
  (match p_relative po with
   | Some _ => true
   | None => negb (maxrow <? p_rows_full po) ||
             ((0 <=? p_pos po) && (p_pos po <=? Z.max 1 (p_rows_w po - maxrow)) && (p_rows_w po <? 2 ^ 53))
   end).

Lemma min1_div_range a b : 0 <= a -> (0 <= f_min1 (f_div_int_int a (Z.max 1 b)) <= 1)%Q.
Proof. intros Ha. exact (thumb_weight_range a b Ha). Qed.

Lemma eff_facts maxrow po :
  proto_okb maxrow po = true -> wants_bar maxrow po = true ->
  1 <= maxrow < 2 ^ 53 /\
  (0 <= snd (eff maxrow po) <= 1)%Q /\
  0 <= eff_pos maxrow po <= Z.max 1 (eff_posmax maxrow po) /\
  Z.max 1 (eff_posmax maxrow po) < 2 ^ 53.
Proof.
  unfold proto_okb, wants_bar, eff_pos, eff_posmax, eff, p_relative. intros H Hw.
  destruct (p_relcap po && p_reqrel po) eqn:Er.
  - set (L := Z.max (Z.max (p_len po) (p_visible po)) (p_first po)) in *.
    destruct (L =? p_visible po) eqn:El; cbn [fst snd] in *.
    + split; [lia|]. split; [apply thumb_weight_range; lia|]. lia.
    + split; [lia|]. split; [apply min1_div_range; lia|]. lia.
  - cbn [fst snd] in *. split; [lia|]. split; [apply thumb_weight_range; lia|]. lia.
Qed.

Theorem pb_render_ok bw maxcol maxrow po :
  proto_okb maxrow po = true ->
  if wants_bar maxrow po then
    exists b,
      pb_render bw maxcol maxrow po = Ok (Z.max 0 (maxcol - bw), Some b) /\
      b_width b = maxcol - Z.max 0 (maxcol - bw) /\
      0 <= b_top b /\ 1 <= b_thumb b <= maxrow /\ 0 <= b_bottom b /\
      b_top b + b_thumb b + b_bottom b = maxrow /\
      (0 < b_top b <-> 0 < eff_pos maxrow po /\ b_thumb b < maxrow) /\
      (b_top b, b_thumb b, b_bottom b) =
        thumb_geom maxrow (eff_pos maxrow po) (eff_posmax maxrow po) (snd (eff maxrow po))
  else pb_render bw maxcol maxrow po = Ok (maxcol, None).
Proof.
  intros H. destruct (wants_bar maxrow po) eqn:Hw.
  - destruct (eff_facts maxrow po H Hw) as (Hm & Htw & Hpos & Hpm).
    pose proof (thumb_parts maxrow _ _ _ Hm Htw Hpos Hpm) as P.
    pose proof (thumb_top_iff maxrow _ _ _ Hm Htw Hpos Hpm) as I.
    assert (E : pb_render bw maxcol maxrow po =
                (let '(top, thumb, bottom) := thumb_geom maxrow (eff_pos maxrow po) (eff_posmax maxrow po) (snd (eff maxrow po)) in
                 if (top <? 0) || (thumb <? 0) || (bottom <? 0) then Err WidgetError
                 else Ok (Z.max 0 (maxcol - bw), Some (Bar (maxcol - Z.max 0 (maxcol - bw)) top thumb bottom)))).
    { unfold pb_render, eff_pos, eff_posmax, eff, wants_bar in *.
      destruct (p_relative po) as [[[p pm] tw]|]; cbn [fst snd]; [reflexivity|]. rewrite Hw. reflexivity. }
    rewrite E. destruct (thumb_geom maxrow (eff_pos maxrow po) (eff_posmax maxrow po) (snd (eff maxrow po))) as [[top th] bot].
    destruct P as (P1 & P2 & P3 & P4).
    destruct ((top <? 0) || (th <? 0) || (bot <? 0)) eqn:N; [lia|].
    eexists. split; [reflexivity|]. cbn [b_width b_top b_thumb b_bottom].
    repeat match goal with |- _ /\ _ => split end; try lia; try reflexivity; try exact I.
  - unfold pb_render, wants_bar in *. destruct (p_relative po) as [[[p pm] tw]|]; [discriminate|]. rewrite Hw. reflexivity.
Qed.

(* the bar ScrollBar draws over a Scrollable ([b_render]) is this generic bar for the answers a Scrollable gives *)
Theorem b_render_is_proto bs maxcol maxrow ob bs' cw b v :
  b_render bs maxcol maxrow ob = Ok (bs', (cw, b, v)) ->
  pb_render (bar_width_raw bs) maxcol maxrow
    (PObs false false 0 0 0 (o_rows_full ob) (o_rows_w ob) (trim_top (inner bs'))) = Ok (cw, b).
Proof.
  intros H. unfold b_render in H. unfold pb_render, p_relative. cbn [p_relcap p_reqrel andb p_rows_full p_rows_w p_pos].
  destruct (maxrow <? o_rows_full ob) eqn:E.
  - destruct (s_render _ _ _ _) as [[st1 v1]|]; [|discriminate].
    destruct (thumb_geom maxrow (trim_top (s_rows_max st1 (o_rows_w ob))) (o_rows_w ob - maxrow)
                (thumb_weight_of maxrow (o_rows_w ob))) as [[t0 t1] t2] eqn:G.
    destruct ((t0 <? 0) || (t1 <? 0) || (t2 <? 0)) eqn:N; [discriminate|].
    inversion H; subst. cbn [inner]. rewrite G, N. reflexivity.
  - destruct (s_render _ _ _ _) as [[st1 v1]|]; [|discriminate]. inversion H; subst. reflexivity.
Qed.

(* monotone in the effective position, absolute and relative mode alike *)
Theorem proto_top_monotone maxrow pm tw p1 p2 :
  1 <= maxrow < 2 ^ 53 -> (0 <= tw <= 1)%Q -> 0 <= p1 <= p2 -> p2 <= Z.max 1 pm -> Z.max 1 pm < 2 ^ 53 ->
  fst (fst (thumb_geom maxrow p1 pm tw)) <= fst (fst (thumb_geom maxrow p2 pm tw)).
Proof. exact (thumb_top_mono maxrow p1 p2 pm tw). Qed.

(* non-vacuity: a ListBox-like widget of 40 items, 5 visible from item 12, in a 7x5 view: relative mode *)
Example ex_proto_relative :
  let po := PObs true true 40 5 12 40 40 12 in
  proto_okb 5 po = true /\ wants_bar 5 po = true /\
  pb_render 1 7 5 po = Ok (6, Some (Bar 1 1 1 3)).
Proof. vm_compute. repeat split; reflexivity. Qed.

(* ... and a short one in absolute mode: 9 rows, position 4, view of 5 rows *)
Example ex_proto_absolute :
  let po := PObs true false 6 3 2 9 9 4 in
  proto_okb 5 po = true /\ pb_render 1 7 5 po = Ok (6, Some (Bar 1 2 3 0)).
Proof. vm_compute. split; reflexivity. Qed.
