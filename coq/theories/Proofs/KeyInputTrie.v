(* C05 - the trie KeyqueueTrie.__init__/add builds IS the declared table: for every table on which
   the construction succeeds and for ALL byte strings, get_recurse = lookup of the unique table
   entry that is a prefix of the keys (so "longest match" = "only match"), MoreInputRequired exactly
   when the keys are a proper prefix of an entry.  General in the table; instantiated to the
   generated input_sequences at the end. *)
From Coq Require Import ZArith List Bool Lia.
Import ListNotations.
From Urwid Require Import PyBase escape_table_gen KeyInput.
Open Scope Z_scope.

Arguments Z.eqb : simpl never.

Definition table := list (list Z * list Z).

(* ---------- lookup without the leaf interpretation ---------- *)
Inductive lres := LLeaf (name rest : list Z) | LPartial | LNone.

Fixpoint tlookup (t : trie) (keys : list Z) {struct keys} : lres :=
  match t with
  | TLeaf n => LLeaf n keys
  | TNode ch =>
      match keys with
      | [] => LPartial
      | k :: r => match assoc k ch with None => LNone | Some sub => tlookup sub r end
      end
  end.

(* what get_recurse does on reaching a leaf *)
Definition leaf_result (name keys : list Z) (more : bool) : outcome (option (event * list Z)) :=
  if zs_eqb name str_mouse then read_mouse_info keys more
  else if zs_eqb name str_sgrmouse then read_sgrmouse_info keys more
  else OOk (Some (Key name, keys)).

Definition interp (r : lres) (more : bool) : outcome (option (event * list Z)) :=
  match r with
  | LLeaf n rest => leaf_result n rest more
  | LPartial => if more then OMore else OOk None
  | LNone => OOk None
  end.

Lemma get_recurse_tlookup keys : forall t more, get_recurse t keys more = interp (tlookup t keys) more.
Proof.
  induction keys as [|k r IH]; intros t more; destruct t as [n|ch]; try reflexivity.
  cbn [get_recurse tlookup]. destruct (assoc k ch) as [sub|]; [apply IH|reflexivity].
Qed.

(* ---------- association lists ---------- *)
Lemma assoc_set_same {B} k (v : B) l : assoc k (assoc_set k v l) = Some v.
Proof.
  induction l as [|[k' v'] l IH]; cbn [assoc assoc_set]; [rewrite Z.eqb_refl; reflexivity|].
  destruct (k =? k') eqn:E; cbn [assoc]; [rewrite Z.eqb_refl; reflexivity|rewrite E; exact IH].
Qed.

Lemma assoc_set_other {B} k c (v : B) l : (k =? c) = false -> assoc k (assoc_set c v l) = assoc k l.
Proof.
  intros Hkc. induction l as [|[k' v'] l IH]; cbn [assoc assoc_set]; [rewrite Hkc; reflexivity|].
  destruct (c =? k') eqn:E; cbn [assoc].
  - apply Z.eqb_eq in E. subst k'. rewrite Hkc. reflexivity.
  - destruct (k =? k'); [reflexivity|exact IH].
Qed.

Lemma assoc_app_last {B} k c (v : B) l :
  assoc k (l ++ [(c, v)]) = match assoc k l with Some x => Some x | None => if k =? c then Some v else None end.
Proof.
  induction l as [|[k' v'] l IH]; cbn [assoc app]; [reflexivity|].
  destruct (k =? k'); [reflexivity|exact IH].
Qed.

(* ---------- prefixes ---------- *)
Definition pprefix (a b : list Z) : bool := is_prefix a b && (length a <? length b)%nat.

Lemma is_prefix_cons c a b : is_prefix (c :: a) (c :: b) = is_prefix a b.
Proof. cbn [is_prefix]. rewrite Z.eqb_refl. reflexivity. Qed.

Lemma is_prefix_cons_ne c k a b : (k =? c) = false -> is_prefix (c :: a) (k :: b) = false.
Proof. intros H. cbn [is_prefix]. rewrite Z.eqb_sym, H. reflexivity. Qed.

Lemma pprefix_cons c a b : pprefix (c :: a) (c :: b) = pprefix a b.
Proof. unfold pprefix. rewrite is_prefix_cons. cbn [length]. reflexivity. Qed.

Lemma pprefix_cons_ne c k a b : (k =? c) = false -> pprefix (k :: a) (c :: b) = false.
Proof. intros H. unfold pprefix. cbn [is_prefix]. rewrite H. reflexivity. Qed.

Lemma pprefix_nil b : pprefix [] b = match b with [] => false | _ => true end.
Proof. destruct b; reflexivity. Qed.

Lemma is_prefix_split a : forall b, is_prefix a b = true -> b = a ++ skipn (length a) b.
Proof.
  induction a as [|x a IH]; intros b H; [reflexivity|].
  destruct b as [|y b]; [discriminate|]. cbn [is_prefix] in H. apply andb_true_iff in H. destruct H as [H1 H2].
  apply Z.eqb_eq in H1. subst y. cbn [length skipn app]. f_equal. apply IH; exact H2.
Qed.

Lemma is_prefix_app a r : is_prefix a (a ++ r) = true.
Proof. induction a as [|x a IH]; [reflexivity|]. cbn [app is_prefix]. rewrite Z.eqb_refl. exact IH. Qed.

Lemma is_prefix_trans a : forall b c, is_prefix a b = true -> is_prefix b c = true -> is_prefix a c = true.
Proof.
  induction a as [|x a IH]; intros b c H1 H2; [reflexivity|].
  destruct b as [|y b]; [discriminate|]. destruct c as [|z c]; [discriminate|].
  cbn [is_prefix] in *. apply andb_true_iff in H1, H2. destruct H1 as [E1 H1]. destruct H2 as [E2 H2].
  apply Z.eqb_eq in E1, E2. subst. rewrite Z.eqb_refl. cbn. eapply IH; eassumption.
Qed.

(* two prefixes of one list are comparable *)
Lemma is_prefix_comparable a : forall b c, is_prefix a c = true -> is_prefix b c = true ->
  is_prefix a b = true \/ is_prefix b a = true.
Proof.
  induction a as [|x a IH]; intros b c H1 H2; [left; reflexivity|].
  destruct b as [|y b]; [right; reflexivity|]. destruct c as [|z c]; [discriminate|].
  cbn [is_prefix] in *. apply andb_true_iff in H1, H2. destruct H1 as [E1 H1]. destruct H2 as [E2 H2].
  apply Z.eqb_eq in E1, E2. subst. rewrite Z.eqb_refl. cbn [andb]. eapply IH; eassumption.
Qed.

Lemma is_prefix_eq_or_proper a : forall b, is_prefix a b = true -> a = b \/ pprefix a b = true.
Proof.
  induction a as [|x a IH]; intros b H.
  - destruct b; [left; reflexivity|right; reflexivity].
  - destruct b as [|y b]; [discriminate|]. cbn [is_prefix] in H. apply andb_true_iff in H. destruct H as [E H].
    apply Z.eqb_eq in E. subst y. destruct (IH _ H) as [->|Hp]; [left; reflexivity|right].
    rewrite pprefix_cons. exact Hp.
Qed.

Lemma is_prefix_refl a : is_prefix a a = true.
Proof. induction a as [|x a IH]; [reflexivity|]. cbn. rewrite Z.eqb_refl. exact IH. Qed.

Lemma pprefix_is_prefix a b : pprefix a b = true -> is_prefix a b = true.
Proof. unfold pprefix. intros H. apply andb_true_iff in H. tauto. Qed.

(* ---------- one insertion ---------- *)
Definition empty_lookup (keys : list Z) : lres := match keys with [] => LPartial | _ => LNone end.

Lemma tlookup_leaf n keys : tlookup (TLeaf n) keys = LLeaf n keys.
Proof. destruct keys; reflexivity. Qed.

Lemma existsb_rev {A} (f : A -> bool) l : existsb f (rev l) = existsb f l.
Proof.
  induction l as [|x l IH]; [reflexivity|]. cbn [rev existsb]. rewrite existsb_app, IH. cbn [existsb].
  rewrite orb_false_r. apply orb_comm.
Qed.

Lemma tlookup_empty keys : tlookup (TNode []) keys = empty_lookup keys.
Proof. destruct keys; reflexivity. Qed.

(* what the lookup is after a successful add, for ALL keys *)
Lemma add_lookup s : forall ch n t' keys,
  trie_add (TNode ch) s n = Ok t' ->
  tlookup t' keys =
    if is_prefix s keys then LLeaf n (skipn (length s) keys)
    else if pprefix keys s then LPartial
    else tlookup (TNode ch) keys.
Proof.
  induction s as [|c s' IH]; intros ch n t' keys H; [cbn in H; discriminate|].
  cbn [trie_add] in H.
  destruct (assoc c ch) as [sub|] eqn:Ec.
  - (* descend into the existing child *)
    destruct sub as [ln|sch]; [destruct s'; cbn in H; discriminate|].
    destruct (trie_add (TNode sch) s' n) as [sub'|e] eqn:Ea; cbn [bind] in H; [|discriminate].
    inversion H; subst t'. clear H.
    destruct keys as [|k r]; [reflexivity|].
    cbn [tlookup]. destruct (k =? c) eqn:Ekc.
    + apply Z.eqb_eq in Ekc. subst k. rewrite assoc_set_same, Ec, is_prefix_cons, pprefix_cons.
      cbn [length skipn]. apply (IH _ _ _ r Ea).
    + rewrite (assoc_set_other _ _ _ _ Ekc), (is_prefix_cons_ne _ _ _ _ Ekc), (pprefix_cons_ne _ _ _ _ Ekc).
      reflexivity.
  - destruct s' as [|c2 s2].
    + (* root[ord(s)] = result *)
      inversion H; subst t'. clear H.
      destruct keys as [|k r]; [reflexivity|].
      cbn [tlookup]. rewrite assoc_app_last. destruct (k =? c) eqn:Ekc.
      * apply Z.eqb_eq in Ekc. subst k. rewrite Ec, is_prefix_cons, tlookup_leaf. cbn [is_prefix length skipn]. reflexivity.
      * rewrite (is_prefix_cons_ne _ _ _ _ Ekc), (pprefix_cons_ne _ _ _ _ Ekc).
        destruct (assoc k ch); reflexivity.
    + (* a fresh chain of dicts *)
      destruct (trie_add (TNode []) (c2 :: s2) n) as [d|e] eqn:Ea; cbn [bind] in H; [|discriminate].
      inversion H; subst t'. clear H.
      destruct keys as [|k r]; [reflexivity|].
      cbn [tlookup]. rewrite assoc_app_last. destruct (k =? c) eqn:Ekc.
      * apply Z.eqb_eq in Ekc. subst k. rewrite Ec, is_prefix_cons, pprefix_cons. cbn [length skipn].
        rewrite (IH _ _ _ r Ea), tlookup_empty.
        destruct (is_prefix (c2 :: s2) r); [reflexivity|].
        destruct (pprefix r (c2 :: s2)) eqn:Ep; [reflexivity|].
        destruct r; [discriminate Ep|reflexivity].
      * rewrite (is_prefix_cons_ne _ _ _ _ Ekc), (pprefix_cons_ne _ _ _ _ Ekc).
        destruct (assoc k ch); reflexivity.
Qed.

(* a successful add yields a dict again, and the new sequence was not there in any form *)
Lemma add_node s : forall ch n t', trie_add (TNode ch) s n = Ok t' -> exists ch', t' = TNode ch'.
Proof.
  destruct s as [|c s']; intros ch n t' H; cbn [trie_add] in H; [discriminate|].
  destruct (assoc c ch) as [sub|].
  - destruct (trie_add sub s' n); cbn [bind] in H; [|discriminate]. inversion H. eexists; reflexivity.
  - destruct s' as [|c2 s2].
    + inversion H. eexists; reflexivity.
    + destruct (trie_add (TNode []) (c2 :: s2) n); cbn [bind] in H; [|discriminate]. inversion H. eexists; reflexivity.
Qed.

Lemma add_fresh s : forall ch n t', trie_add (TNode ch) s n = Ok t' -> s <> [] /\ tlookup (TNode ch) s = LNone.
Proof.
  induction s as [|c s' IH]; intros ch n t' H; [cbn in H; discriminate|].
  split; [discriminate|]. cbn [trie_add] in H. cbn [tlookup].
  destruct (assoc c ch) as [sub|]; [|reflexivity].
  destruct sub as [ln|sch]; [destruct s'; cbn in H; discriminate|].
  destruct (trie_add (TNode sch) s' n) as [sub'|e] eqn:Ea; cbn [bind] in H; [|discriminate].
  apply (IH _ _ _ Ea).
Qed.

(* ---------- all insertions: the lookup after building, latest entry first ---------- *)
Fixpoint rspec (rtbl : table) (keys : list Z) : lres :=
  match rtbl with
  | [] => empty_lookup keys
  | (s, n) :: earlier =>
      if is_prefix s keys then LLeaf n (skipn (length s) keys)
      else if pprefix keys s then LPartial
      else rspec earlier keys
  end.

(* insertion order is irrelevant because a successful build means the table is prefix-free:
   no sequence is empty, none is a prefix of (or equal to) another *)
Fixpoint pfree (rtbl : table) : Prop :=
  match rtbl with
  | [] => True
  | (s, n) :: earlier =>
      s <> [] /\ (forall s2 n2, In (s2, n2) earlier -> is_prefix s2 s = false /\ is_prefix s s2 = false) /\
      pfree earlier
  end.

Lemma rspec_none rtbl s : s <> [] -> rspec rtbl s = LNone ->
  forall s2 n2, In (s2, n2) rtbl -> is_prefix s2 s = false /\ is_prefix s s2 = false.
Proof.
  intros Hne. induction rtbl as [|[s1 n1] earlier IH]; intros H s2 n2 Hin; [destruct Hin|].
  cbn [rspec] in H.
  destruct (is_prefix s1 s) eqn:E1; [discriminate|].
  destruct (pprefix s s1) eqn:E2; [discriminate|].
  destruct Hin as [Heq|Hin]; [|apply (IH H s2 n2 Hin)].
  inversion Heq; subst. split; [exact E1|].
  destruct (is_prefix s s2) eqn:E3; [|reflexivity].
  destruct (is_prefix_eq_or_proper _ _ E3) as [->|Hp]; [rewrite is_prefix_refl in E1; discriminate|congruence].
Qed.

Lemma build_from_spec : forall tbl ch rdone t,
  (forall keys, tlookup (TNode ch) keys = rspec rdone keys) -> pfree rdone ->
  trie_build_from (TNode ch) tbl = Ok t ->
  (forall keys, tlookup t keys = rspec (rev tbl ++ rdone) keys) /\ pfree (rev tbl ++ rdone).
Proof.
  induction tbl as [|[s n] tbl IH]; intros ch rdone t Hl Hp H.
  - cbn in H. inversion H; subst. cbn [rev app]. split; assumption.
  - cbn [trie_build_from] in H.
    destruct (trie_add (TNode ch) s n) as [t1|e] eqn:Ea; cbn [bind] in H; [|discriminate].
    destruct (add_node _ _ _ _ Ea) as [ch1 ->].
    destruct (add_fresh _ _ _ _ Ea) as [Hne Hfresh].
    cbn [rev]. rewrite <- app_assoc. cbn [app].
    apply (IH ch1 ((s, n) :: rdone) t); [| |exact H].
    + intros keys. rewrite (add_lookup _ _ _ _ keys Ea). cbn [rspec]. rewrite Hl. reflexivity.
    + cbn [pfree]. split; [exact Hne|]. split; [|exact Hp].
      apply rspec_none; [exact Hne|]. rewrite <- Hl. exact Hfresh.
Qed.

Lemma build_spec tbl t : trie_build tbl = Ok t ->
  (forall keys, tlookup t keys = rspec (rev tbl) keys) /\ pfree (rev tbl).
Proof.
  intros H. unfold trie_build in H.
  destruct (build_from_spec tbl [] [] t (fun keys => tlookup_empty keys) I H) as [A B].
  rewrite app_nil_r in A, B. split; assumption.
Qed.

(* ---------- declarative reading of rspec on a prefix-free table ---------- *)
Lemma pfree_nonempty rtbl : pfree rtbl -> forall s n, In (s, n) rtbl -> s <> [].
Proof.
  induction rtbl as [|[s1 n1] earlier IH]; intros Hp s n Hin; [destruct Hin|].
  destruct Hp as [Hne [_ Hp]]. destruct Hin as [Heq|Hin]; [inversion Heq; subst; exact Hne|eapply IH; eassumption].
Qed.

(* an entry that is a prefix of the keys is THE answer *)
Lemma rspec_match rtbl : pfree rtbl -> forall s n keys, In (s, n) rtbl -> is_prefix s keys = true ->
  rspec rtbl keys = LLeaf n (skipn (length s) keys).
Proof.
  induction rtbl as [|[s1 n1] earlier IH]; intros Hp s n keys Hin Hpre; [destruct Hin|].
  destruct Hp as [Hne [Hfree Hp]]. cbn [rspec].
  destruct Hin as [Heq|Hin].
  - inversion Heq; subst. rewrite Hpre. reflexivity.
  - destruct (Hfree _ _ Hin) as [F1 F2].
    destruct (is_prefix s1 keys) eqn:E1.
    { destruct (is_prefix_comparable _ _ _ E1 Hpre); congruence. }
    destruct (pprefix keys s1) eqn:E2.
    { apply pprefix_is_prefix in E2. rewrite (is_prefix_trans _ _ _ Hpre E2) in F1. discriminate. }
    apply IH; assumption.
Qed.

(* no entry is a prefix of the keys: more input is wanted exactly when the keys are a proper prefix
   of an entry (or empty: the root dict with no key to look up) *)
Lemma rspec_nomatch rtbl : forall keys,
  (forall s n, In (s, n) rtbl -> is_prefix s keys = false) ->
  rspec rtbl keys =
    if existsb (fun e => pprefix keys (fst e)) rtbl || match keys with [] => true | _ => false end
    then LPartial else LNone.
Proof.
  induction rtbl as [|[s1 n1] earlier IH]; intros keys H.
  - cbn. destruct keys; reflexivity.
  - cbn [rspec existsb fst]. rewrite (H s1 n1 (or_introl eq_refl)).
    destruct (pprefix keys s1); [reflexivity|]. cbn [orb].
    apply IH. intros s n Hin. apply (H s n). right; exact Hin.
Qed.

(* a leaf answer always comes from a table entry that is a prefix of the keys *)
Lemma rspec_leaf rtbl : forall keys n rest, rspec rtbl keys = LLeaf n rest ->
  exists s, In (s, n) rtbl /\ keys = s ++ rest.
Proof.
  induction rtbl as [|[s1 n1] earlier IH]; intros keys n rest H.
  - destruct keys; discriminate.
  - cbn [rspec] in H. destruct (is_prefix s1 keys) eqn:E1.
    + inversion H; subst. exists s1. split; [left; reflexivity|apply is_prefix_split; exact E1].
    + destruct (pprefix keys s1); [discriminate|].
      destruct (IH _ _ _ H) as [s [Hin Hk]]. exists s. split; [right; exact Hin|exact Hk].
Qed.

(* ---------- the theorem, for any table ---------- *)
Definition table_prefix_free (tbl : table) : Prop :=
  (forall s n, In (s, n) tbl -> s <> []) /\
  (forall a b s1 n1 s2 n2 c, tbl = a ++ (s1, n1) :: b ++ (s2, n2) :: c ->
     is_prefix s1 s2 = false /\ is_prefix s2 s1 = false).

Lemma pfree_rev_pairs tbl : pfree (rev tbl) -> table_prefix_free tbl.
Proof.
  intros Hp. split.
  - intros s n Hin. apply (pfree_nonempty _ Hp s n). apply in_rev in Hin. exact Hin.
  - intros a b s1 n1 s2 n2 c ->.
    (* rev = rev c ++ (s2,n2) :: rev b ++ (s1,n1) :: rev a *)
    assert (E : rev (a ++ (s1, n1) :: b ++ (s2, n2) :: c) = rev c ++ (s2, n2) :: (rev b ++ (s1, n1) :: rev a)).
    { rewrite rev_app_distr. cbn [rev]. rewrite rev_app_distr. cbn [rev].
      rewrite <- !app_assoc. cbn [app]. reflexivity. }
    rewrite E in Hp. clear E.
    induction (rev c) as [|[s0 n0] rc IH].
    + cbn [app pfree] in Hp. destruct Hp as [_ [Hfree _]].
      destruct (Hfree s1 n1) as [F1 F2]; [apply in_or_app; right; left; reflexivity|]. split; assumption.
    + cbn [app pfree] in Hp. destruct Hp as [_ [_ Hp]]. apply IH; exact Hp.
Qed.

Theorem trie_lookup_is_table_lookup_gen tbl t :
  trie_build tbl = Ok t ->
  table_prefix_free tbl /\
  forall keys more,
    (forall s n, In (s, n) tbl -> is_prefix s keys = true ->
       get_recurse t keys more = leaf_result n (skipn (length s) keys) more) /\
    ((forall s n, In (s, n) tbl -> is_prefix s keys = false) ->
       get_recurse t keys more =
         if existsb (fun e => pprefix keys (fst e)) tbl || match keys with [] => true | _ => false end
         then (if more then OMore else OOk None) else OOk None) /\
    (forall n rest, tlookup t keys = LLeaf n rest -> exists s, In (s, n) tbl /\ keys = s ++ rest).
Proof.
  intros H. destruct (build_spec _ _ H) as [Hl Hp]. split; [apply pfree_rev_pairs; exact Hp|].
  intros keys more. split; [|split].
  - intros s n Hin Hpre. rewrite get_recurse_tlookup, Hl.
    rewrite (rspec_match _ Hp s n keys); [reflexivity|apply in_rev in Hin; exact Hin|exact Hpre].
  - intros Hno. rewrite get_recurse_tlookup, Hl, rspec_nomatch.
    + rewrite existsb_rev. destruct (existsb _ tbl || _); reflexivity.
    + intros s n Hin. apply (Hno s n). apply in_rev. exact Hin.
  - intros n rest Hk. rewrite Hl in Hk. destruct (rspec_leaf _ _ _ _ Hk) as [s [Hin E]].
    exists s. split; [apply in_rev; exact Hin|exact E].
Qed.

(* ---------- the generated table ---------- *)
Lemma input_trie_built : trie_build input_sequences = Ok input_trie.
Proof. vm_compute. reflexivity. Qed.

Lemma leaf_result_key n r more name rest :
  leaf_result n r more = OOk (Some (Key name, rest)) ->
  n = name /\ r = rest /\ zs_eqb n str_mouse = false /\ zs_eqb n str_sgrmouse = false.
Proof.
  unfold leaf_result. destruct (zs_eqb n str_mouse).
  - destruct r as [|k0 [|k1 [|k2 r']]]; cbn [read_mouse_info]; try (destruct more; discriminate).
    unfold x10_event. intros H.
    repeat match type of H with context [if ?c then _ else _] => destruct c end; discriminate H.
  - destruct (zs_eqb n str_sgrmouse).
    + unfold read_sgrmouse_info. destruct r as [|k r']; [destruct more; discriminate|].
      destruct (sgr_scan (k :: r')) as [[[v t] r2]|]; [|destruct more; discriminate].
      unfold sgr_event.
      destruct (map py_int (split_on 59 v)) as [|[b|] [|[x|] [|[y|] [|? ?]]]]; try discriminate.
      destruct (t =? 77); [discriminate|]. destruct (t =? 109); discriminate.
    + intros H; inversion H; subst. auto.
Qed.

(* every key name the trie reports is the name of a table entry whose sequence was just consumed *)
Lemma key_names_come_from_table_proof keys more name rest :
  get_recurse input_trie keys more = OOk (Some (Key name, rest)) ->
  exists s, In (s, name) input_sequences /\ keys = s ++ rest.
Proof.
  intros H. rewrite get_recurse_tlookup in H.
  destruct (trie_lookup_is_table_lookup_gen _ _ input_trie_built) as [_ G].
  destruct (G keys more) as [_ [_ G3]].
  destruct (tlookup input_trie keys) as [n r| |] eqn:E; cbn [interp] in H.
  - destruct (leaf_result_key _ _ _ _ _ H) as [-> [-> _]]. apply G3. reflexivity.
  - destruct more; discriminate H.
  - discriminate H.
Qed.
