(* C07 - proofs, part 4: a button-1 press on a row showing a selectable item focuses that item. *)
From Coq Require Import ZArith List Bool Lia ZifyBool.
Import ListNotations.
From Urwid Require Import PyBase ListBoxView ListBoxViewProofs ListBoxWindowProofs ListBoxHistoryProofs.
Open Scope Z_scope.

Arguments Z.add : simpl never.
Arguments Z.sub : simpl never.
Arguments Z.mul : simpl never.
Arguments Z.ltb : simpl never.
Arguments Z.leb : simpl never.
Arguments Z.eqb : simpl never.
Arguments Z.of_nat : simpl never.
Arguments Z.to_nat : simpl never.

Lemma nthz_cons_succ {A} (x : A) l j : 0 <= j -> nthz (x :: l) (1 + j) = nthz l j.
Proof.
  intros H. unfold nthz. destruct (1 + j <? 0) eqn:E; [lia|]. destruct (j <? 0) eqn:E2; [lia|].
  replace (Z.to_nat (1 + j)) with (S (Z.to_nat j)) by lia. reflexivity.
Qed.

Lemma nthz_dropz {A} (l : list A) a j : 0 <= a -> 0 <= j -> nthz (dropz a l) j = nthz l (a + j).
Proof.
  intros Ha Hj. unfold nthz, dropz. destruct (j <? 0) eqn:E; [lia|]. destruct (a + j <? 0) eqn:E2; [lia|].
  rewrite nth_error_skipn_add. f_equal. lia.
Qed.

Lemma nthz_takez_some {A} (l : list A) k j x : nthz (takez k l) j = Some x -> nthz l j = Some x.
Proof.
  intros H. pose proof (nthz_lt _ _ _ H) as Hlt.
  destruct (Z.ltb_spec k 0) as [Hk|Hk].
  - unfold takez in Hlt. replace (Z.to_nat k) with 0%nat in Hlt by lia. cbn in Hlt. unfold zlen in Hlt. cbn in Hlt. lia.
  - rewrite zlen_takez in Hlt by lia. rewrite <- H. symmetry.
    rewrite <- (dropz_0 l) at 1. rewrite nthz_slice by lia. reflexivity.
Qed.

Lemma nthz_app_blank (l : list (Z * Z)) k j x :
  nthz (l ++ repeat blank k) j = Some x -> 0 <= fst x -> nthz l j = Some x.
Proof.
  intros H Hx. pose proof (nthz_lt _ _ _ H) as Hlt.
  destruct (Z.ltb_spec j (zlen l)) as [Hj|Hj].
  - now rewrite nthz_app_l in H by lia.
  - replace j with (zlen l + (j - zlen l)) in H by lia. rewrite nthz_app_r in H by lia.
    apply nthz_In in H. apply repeat_spec in H. subst x. cbn in Hx. lia.
Qed.

Lemma number_In : forall l s p rw, In (p, rw) (number s l) -> exists w, nthz l (p - s) = Some w /\ rw = i_rows w.
Proof.
  induction l as [|x l IH]; intros s p rw H; cbn [number] in H; [contradiction|].
  destruct H as [H|H].
  - inversion H; subst. exists x. replace (p - p) with 0 by lia. split; reflexivity.
  - pose proof (number_pos _ _ _ H) as Hp. cbn [fst] in Hp.
    destruct (IH _ _ _ H) as (w & Hw & Hr). exists w. split; [|assumption].
    replace (p - s) with (1 + (p - (s + 1))) by lia. now rewrite nthz_cons_succ by lia.
Qed.

(* the walk of mouse_event over w_list finds the widget drawn at the row *)
Lemma find_row_spec : forall wl wrow row, nonneg wl -> wrow <= row -> row - wrow < tot wl ->
  exists pos wr rows, find_row wl wrow row = Some (pos, wr) /\ In (pos, rows) wl /\
                      wr <= row < wr + rows /\ nthz (rs wl) (row - wrow) = Some (pos, row - wr).
Proof.
  induction wl as [|[p0 h0] wl IH]; intros wrow row Hnn Hle Hlt; cbn [tot] in Hlt; [lia|].
  inversion Hnn as [|? ? Hh0 Hrest]; subst. cbn [snd] in *.
  cbn [find_row]. destruct (row <? wrow + h0) eqn:E.
  - exists p0, wrow, h0. splits; try lia; [reflexivity | now left |].
    unfold rs. cbn [flat_map]. rewrite nthz_app_l by (rewrite zlen_rows_of; cbn [snd]; lia).
    now rewrite nthz_rows_of by (cbn [snd]; lia).
  - destruct (IH (wrow + h0) row Hrest ltac:(lia) ltac:(lia)) as (pos & wr & rows & Hf & Hin & Hr & Hn).
    exists pos, wr, rows. splits; try lia; [assumption | now right |].
    unfold rs. cbn [flat_map]. replace (row - wrow) with (zlen (rows_of (p0, h0)) + (row - (wrow + h0)))
      by (rewrite zlen_rows_of; cbn [snd]; lia).
    rewrite nthz_app_r by lia. exact Hn.
Qed.

(* a non-blank row of the rendered canvas is a row of the stacked visible widgets *)
Lemma render_vis_rows : forall its v m win cur row x,
  render_vis its v m = Ok (win, cur) -> nthz win row = Some x -> 0 <= fst x ->
  0 <= v_trim_top v /\
  nthz (rs (rev (v_above v) ++ (v_fpos v, v_frows v) :: v_below v)) (row + v_trim_top v) = Some x.
Proof.
  intros its v m win cur row x. unfold render_vis. change (@flat_map fitem (Z * Z) rows_of) with rs.
  assert (Eall : rs (rev (v_above v)) ++ rows_of (v_fpos v, v_frows v) ++ rs (v_below v)
                 = rs (rev (v_above v) ++ (v_fpos v, v_frows v) :: v_below v)).
  { rewrite rs_app. unfold rs at 4. cbn [flat_map]. reflexivity. }
  rewrite Eall. set (all := rs (rev (v_above v) ++ (v_fpos v, v_frows v) :: v_below v)).
  set (trt := v_trim_top v). set (trb := v_trim_bottom v).
  destruct (negb (trt =? 0) && ((trt <? 0) || (zlen all <=? trt))) eqn:C1; [discriminate|].
  assert (Htrt : 0 <= trt) by lia.
  assert (E1 : (if trt =? 0 then all else dropz trt all) = dropz trt all).
  { destruct (trt =? 0) eqn:E; [|reflexivity]. replace trt with 0 by lia. reflexivity. }
  rewrite E1.
  destruct (negb (trb =? 0) && ((trb <=? 0) || (zlen (dropz trt all) <? trb))) eqn:C2; [discriminate|].
  set (l2 := if trb =? 0 then dropz trt all else takez (zlen (dropz trt all) - trb) (dropz trt all)).
  assert (Hl2 : forall j y, nthz l2 j = Some y -> nthz all (j + trt) = Some y).
  { intros j y Hj. pose proof (nthz_lt _ _ _ Hj) as Hlt. unfold l2 in Hj.
    destruct (trb =? 0); [|apply nthz_takez_some in Hj]; rewrite nthz_dropz in Hj by lia;
      (replace (j + trt) with (trt + j) by lia); exact Hj. }
  destruct (m <? zlen all - trt - trb); [discriminate|].
  destruct (zlen all - trt - trb <? m).
  - destruct (negb (trb =? 0)); [discriminate|].
    destruct (existsb _ _); [discriminate|]. intros [= <- _] Hn Hx. split; [assumption|].
    apply Hl2. eapply nthz_app_blank; eassumption.
  - intros [= <- _] Hn Hx. split; [assumption|]. now apply Hl2.
Qed.

Lemma visible_ok : forall its f o n d maxrow fflag w,
  StateOK its o n d maxrow -> nthz its f = Some w -> cursor_ok w ->
  exists v, visible its f o n d maxrow fflag = Ok (Some v) /\
            VisFacts (above_of its f) (below_of its f) f (i_rows w) maxrow (cursor_of w maxrow fflag) v /\
            nonneg (above_of its f) /\ nonneg (below_of its f) /\ 0 <= i_rows w.
Proof.
  intros its f o n d maxrow fflag w [Hok Ho Hnd Hmr] Hw Hc.
  destruct (split_at its f w Hw) as (Esplit & Ltake & Hfr).
  assert (Hokp : heights_ok (takez f its) /\ heights_ok (w :: dropz (f + 1) its))
    by (apply heights_ok_app; now rewrite <- Esplit).
  destruct Hokp as [Hok1 Hok2].
  assert (Hh : 0 <= i_rows w) by (inversion Hok2; assumption).
  assert (Hok3 : heights_ok (dropz (f + 1) its)) by (inversion Hok2; assumption).
  assert (Hna : nonneg (above_of its f)) by (apply nonneg_rev, nonneg_number; assumption).
  assert (Hnb : nonneg (below_of its f)) by (apply nonneg_number; assumption).
  assert (Hcur : forall cy, cursor_of w maxrow fflag = Some cy -> 0 <= cy < i_rows w).
  { intros cy. unfold cursor_of. destruct (negb (maxrow =? 0) && i_sel w && fflag); [apply Hc | discriminate]. }
  destruct (calc_vis_ok (above_of its f) (below_of its f) f (i_rows w) o n d maxrow (cursor_of w maxrow fflag))
    as (v & Ev & HV); try assumption.
  exists v. unfold visible. rewrite Hw, Ev. splits; try assumption. reflexivity.
Qed.

Lemma In_number_takez its f x : In x (number 0 (takez f its)) -> In x (number 0 its).
Proof.
  intros H. destruct (nthz its f) as [w|] eqn:Hw.
  - rewrite (number_split its f w Hw). apply in_or_app. now left.
  - (* f out of range: takez f its is its or [] *)
    unfold nthz in Hw. destruct (f <? 0) eqn:E.
    + unfold takez in H. replace (Z.to_nat f) with 0%nat in H by lia. cbn in H. contradiction.
    + apply nth_error_None in Hw. unfold takez in H. now rewrite firstn_all2 in H by lia.
Qed.

Lemma mouse_press_focuses_lemma :
  forall s maxrow row pos r win cur,
    ViewOK s -> pend s = PNone -> vpend s = None -> heights_ok (items s) -> 1 <= maxrow ->
    (forall w, nthz (items s) (focus s) = Some w -> cursor_ok w) ->
    render s maxrow true = Ok (s, (win, cur)) ->
    nthz win row = Some (pos, r) -> 0 <= pos -> sel_at (items s) pos = true ->
    exists s' b, mouse_press s maxrow 1 row = Ok (s', b) /\ focus s' = pos /\ ViewOK s'.
Proof.
  intros s maxrow row pos r win cur [Ho Hnd] Hp Hvp Hh Hmr Hc Hr Hrow Hpos Hsel.
  rewrite (render_no_pending _ _ _ Hp Hvp) in Hr.
  destruct (nthz (items s) (focus s)) as [w|] eqn:Hw.
  2: { rewrite render_view_empty in Hr by assumption. inversion Hr; subst.
       apply nthz_In, repeat_spec in Hrow. inversion Hrow; subst. lia. }
  destruct (visible_ok (items s) (focus s) (off s) (inum s) (iden s) maxrow true w) as (v & Ev & HV & Hna & Hnb & Hh0);
    [constructor; assumption | assumption | now apply Hc |].
  unfold render_view in Hr. rewrite Ev in Hr.
  destruct (render_vis (items s) v maxrow) as [[win' cur']|] eqn:Erv; [|discriminate].
  inversion Hr; subst win' cur'. clear Hr.
  destruct (render_vis_rows _ _ _ _ _ _ _ Erv Hrow ltac:(cbn; lia)) as (Htrt & Hn).
  destruct HV as (Efp & Efr & Ecu & t2 & t4 & restA & takenB & restB & Hab & Hbe & Eva & Evb & _).
  set (wl := rev (v_above v) ++ (v_fpos v, v_frows v) :: v_below v) in *.
  (* every entry of w_list is a widget of the list with its own rows *)
  assert (Hwl : forall p rw, In (p, rw) wl -> In (p, rw) (number 0 (items s))).
  { intros p rw Hin. unfold wl in Hin. apply in_app_or in Hin. destruct Hin as [Hin|[Hin|Hin]].
    - apply in_rev in Hin. rewrite Eva in Hin. apply in_app_or in Hin.
      assert (Hin2 : In (p, rw) (above_of (items s) (focus s))).
      { rewrite Hab. apply in_or_app. left. apply in_or_app.
        destruct Hin as [Hin|Hin]; [left; now apply filter_In in Hin | now right]. }
      unfold above_of in Hin2. apply in_rev in Hin2. now apply In_number_takez in Hin2.
    - inversion Hin; subst. rewrite Efp, Efr. rewrite (number_split _ _ _ Hw). apply in_or_app. right. now left.
    - rewrite Evb in Hin. apply filter_In in Hin. destruct Hin as [Hin _].
      rewrite (number_split _ _ _ Hw). apply in_or_app. right. right.
      change (In (p, rw) (below_of (items s) (focus s))). rewrite Hbe. apply in_or_app. now left. }
  assert (Hnwl : nonneg wl).
  { unfold nonneg. apply Forall_forall. intros [p rw] Hin. cbn [snd].
    destruct (number_In _ _ _ _ (Hwl _ _ Hin)) as (w' & Hw' & ->).
    apply nthz_In in Hw'. unfold heights_ok in Hh. rewrite Forall_forall in Hh. now apply Hh. }
  pose proof (nthz_lt _ _ _ Hn) as Hlt. rewrite zlen_rs in Hlt by assumption.
  pose proof (nthz_lt _ _ _ Hrow) as Hrow0.
  destruct (find_row_spec wl (- v_trim_top v) row Hnwl ltac:(lia) ltac:(lia))
    as (pos' & wr & rows & Hf & Hin & Hwr & Hn').
  replace (row - - v_trim_top v) with (row + v_trim_top v) in Hn' by lia.
  rewrite Hn in Hn'. inversion Hn'; subst pos'. clear Hn'.
  destruct (number_In _ _ _ _ (Hwl _ _ Hin)) as (w' & Hw' & Hrows). replace (pos - 0) with pos in Hw' by lia.
  unfold mouse_press, calculate_visible, set_focus_complete, set_focus_pending_complete. rewrite Hp, Hvp, Ev. fold wl. rewrite Hf.
  change (1 =? 1) with true. rewrite Hsel. cbn [andb].
  unfold change_focus, change_focus_sr. rewrite Hw'. unfold snap_sr. cbn [is_above is_below andb].
  destruct (0 <=? wr) eqn:E1.
  - cbn [Z.eqb]. eexists; eexists. split; [reflexivity|]. cbn. unfold ViewOK. cbn. splits; try reflexivity; lia.
  - destruct (wr + i_rows w' <=? 0) eqn:E2; [lia|].
    eexists; eexists. split; [reflexivity|]. cbn. unfold ViewOK. cbn. splits; try reflexivity; lia.
Qed.
