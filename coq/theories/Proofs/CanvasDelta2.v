(* C02: content_delta, part 2.  Applying a delta through its column-wise expansion;
   decomposition of [Fit]; a cview keeps its column while it continues (placement), and the
   agreement invariant between the tagged run of the new canvas and the old content. *)
From Coq Require Import ZArith List Bool Lia ZifyBool.
From Urwid Require Import PyBase Canvas CanvasGrid CanvasFacts CanvasAbs CanvasVert CanvasHoriz CanvasJoin CanvasDelta.
Import ListNotations.
Open Scope Z_scope.
Arguments Z.add : simpl never.
Arguments Z.sub : simpl never.
Arguments Z.mul : simpl never.
Arguments Z.ltb : simpl never.
Arguments Z.leb : simpl never.
Arguments Z.eqb : simpl never.
Arguments Z.min : simpl never.
Arguments Z.max : simpl never.
Arguments Z.to_nat : simpl never.
Arguments Z.of_nat : simpl never.

(* ------------------------------------------------------------------ applying a delta row *)
Definition pickopt (o : row) (e : list (option cell)) : row :=
  map (fun p : cell * option cell => match snd p with None => fst p | Some c => c end) (combine o e).

Lemma combine_map_fst_repeat {A B} (l : list A) (y : B) n :
  length l = n -> map (fun p : A * B => fst p) (combine l (repeat y n)) = l.
Proof. revert n; induction l as [|x l IH]; intros [|n] H; cbn [length] in H; try discriminate; cbn [repeat combine map fst]; [reflexivity|]. f_equal. apply IH. lia. Qed.

Lemma apply_delta_row_expand items : forall o,
  zlen (expand items) <= zlen o -> apply_delta_row o items = pickopt o (expand items).
Proof.
  induction items as [|[n|c] items IH]; intros o Hl; cbn [apply_delta_row expand flat_map expand_item].
  - unfold pickopt. destruct o; reflexivity.
  - fold (expand items). cbn [expand flat_map expand_item] in Hl. fold (expand items) in Hl. rewrite zlen_app, zlen_repeatz in Hl.
    pose proof (zlen_nonneg (expand items)).
    rewrite IH by (rewrite zlen_dropz by lia; lia).
    unfold pickopt. rewrite <- (takez_dropz n o) at 3.
    rewrite combine_app' by (unfold takez, repeatz; rewrite firstn_length, repeat_length; unfold zlen in *; lia).
    rewrite map_app. f_equal. unfold repeatz.
    assert (length (takez n o) = Z.to_nat n) as Hlen by (unfold takez; rewrite firstn_length; unfold zlen in *; lia).
    rewrite <- (combine_map_fst_repeat (takez n o) (@None cell) (Z.to_nat n) Hlen) at 1. apply map_ext. intros [x y]. reflexivity.
  - fold (expand items). cbn [expand flat_map expand_item app] in Hl. fold (expand items) in Hl. rewrite zlen_cons in Hl.
    pose proof (zlen_nonneg (expand items)).
    destruct o as [|x o]; [rewrite zlen_nil in Hl; lia|]. rewrite zlen_cons in Hl.
    unfold pickopt. cbn [app combine map fst snd]. f_equal.
    change (dropz 1 (x :: o)) with o. apply IH. lia.
Qed.

Definition pickrow (o t : row) : row :=
  map (fun p : cell * cell => if is_skip (snd p) then fst p else untag (snd p)) (combine o t).

Lemma pickopt_optcell o t : pickopt o (map optcell t) = pickrow o t.
Proof.
  unfold pickopt, pickrow. revert t; induction o as [|x o IH]; intros [|c t]; cbn [map combine fst snd]; try reflexivity.
  rewrite IH. f_equal. unfold optcell. destruct (is_skip c); reflexivity.
Qed.

(* the tagged row agrees with a row R from column x on: wherever a cell is tagged "unchanged",
   R holds that very cell *)
Definition rowagree (R : row) (x : Z) (t : row) : Prop :=
  Forall (fun p : cell * cell => is_skip (snd p) = true -> fst p = untag (snd p)) (combine (dropz x R) t).

Lemma pickrow_agree R t : zlen R = zlen t -> rowagree R 0 t -> pickrow R t = map untag t.
Proof.
  unfold rowagree. rewrite dropz_le0 by lia. unfold pickrow. revert t; induction R as [|x R IH]; intros [|c t] Hl A; try reflexivity.
  - rewrite zlen_nil, zlen_cons in Hl. pose proof (zlen_nonneg t). lia.
  - rewrite zlen_nil, zlen_cons in Hl. pose proof (zlen_nonneg R). lia.
  - cbn [combine map fst snd] in *. inversion A; subst. cbn [fst snd] in *. rewrite !zlen_cons in Hl. rewrite IH by (try assumption; lia).
    f_equal. destruct (is_skip c) eqn:E; [auto|reflexivity].
Qed.

Lemma rowagree_app R x t1 t2 : 0 <= x -> rowagree R x t1 -> rowagree R (x + zlen t1) t2 -> rowagree R x (t1 ++ t2).
Proof.
  unfold rowagree. intros Hx A1 A2. pose proof (zlen_nonneg t1).
  rewrite <- dropz_dropz in A2 by lia. rewrite (Z.add_comm x) in A2 || idtac.
  revert A1 A2. rewrite <- (dropz_dropz (zlen t1) x) by lia. generalize (dropz x R) as L. clear. intros L. revert L.
  induction t1 as [|c t1 IH]; intros L A1 A2.
  - cbn [app]. rewrite zlen_nil, dropz_le0 in A2 by lia. exact A2.
  - destruct L as [|y L]; [constructor|]. cbn [app combine] in *. inversion A1; subst. constructor; [assumption|].
    apply IH; [assumption|]. rewrite zlen_cons in A2. pose proof (zlen_nonneg t1).
    replace (dropz (1 + zlen t1) (y :: L)) with (dropz (zlen t1) L) in A2; [exact A2|].
    unfold dropz. replace (Z.to_nat (1 + zlen t1)) with (S (Z.to_nat (zlen t1))) by lia. reflexivity.
Qed.

Lemma rowagree_nil R x : rowagree R x [].
Proof. unfold rowagree. destruct (dropz x R); constructor. Qed.

Lemma rowagree_noskip R x t : Forall (fun c => is_skip c = false) t -> rowagree R x t.
Proof.
  unfold rowagree. intros F. generalize (dropz x R). intros L. revert L. induction F as [|c t Hc _ IH]; intros [|y L]; cbn [combine]; constructor; [|apply IH].
  cbn [fst snd]. congruence.
Qed.

Lemma rowagree_eq R x t : takez (zlen t) (dropz x R) = map untag t -> rowagree R x t.
Proof.
  unfold rowagree. generalize (dropz x R). intros L. revert L. induction t as [|c t IH]; intros L E; [destruct L; constructor|].
  destruct L as [|y L]; [constructor|]. rewrite zlen_cons in E. pose proof (zlen_nonneg t).
  unfold takez in E. replace (Z.to_nat (1 + zlen t)) with (S (Z.to_nat (zlen t))) in E by lia. cbn [firstn map] in E. injection E as E1 E2.
  cbn [combine]. constructor; [cbn [fst snd]; intros _; exact E1|]. apply IH. exact E2.
Qed.

(* ------------------------------------------------------------------ decomposing Fit *)
Lemma Fit_split_slot s1 a s2 : forall g fb,
  Fit (s1 ++ Busy a :: s2) g fb ->
  exists f1 f2, fb = f1 ++ (false, a) :: f2 /\ body_width (body_of f1) = slots_width s1 + g /\ Fit s2 0 f2.
Proof.
  intros g fb F. remember (s1 ++ Busy a :: s2) as sl eqn:Esl. revert s1 Esl.
  induction F as [|w sl g fb Hw Hg _ IH|a0 sl g fb Ha _ IH|a0 sl fb F' IH]; intros s1 Esl.
  - destruct s1; discriminate.
  - destruct s1 as [|s s1]; [discriminate|]. injection Esl as -> Esl. destruct (IH s1 Esl) as (f1 & f2 & E & Hbw & F2).
    exists f1, f2. split; [assumption|]. split; [|assumption]. cbn [slots_width fold_right slot_width]. fold (slots_width s1). lia.
  - destruct (IH s1 Esl) as (f1 & f2 & E & Hbw & F2). exists ((true, a0) :: f1), f2. split; [now rewrite E|]. split; [|assumption].
    cbn [body_of map snd body_width fold_right]. fold (body_of f1). fold (body_width (body_of f1)). lia.
  - destruct s1 as [|s s1].
    + injection Esl as -> ->. exists [], fb. split; [reflexivity|]. split; [reflexivity|assumption].
    + injection Esl as -> Esl. destruct (IH s1 Esl) as (f1 & f2 & E & Hbw & F2). exists ((false, a0) :: f1), f2.
      split; [now rewrite E|]. split; [|assumption].
      cbn [body_of map snd body_width fold_right slots_width slot_width]. fold (body_of f1). fold (body_width (body_of f1)). fold (slots_width s1). lia.
Qed.

Lemma Fit_split_body f1 a f2 : forall sl g,
  Fit sl g (f1 ++ (false, a) :: f2) ->
  exists s1 s2, sl = s1 ++ Busy a :: s2 /\ slots_width s1 + g = body_width (body_of f1).
Proof.
  intros sl g F. remember (f1 ++ (false, a) :: f2) as fb eqn:Efb. revert f1 Efb.
  induction F as [|w sl g fb Hw Hg _ IH|a0 sl g fb Ha _ IH|a0 sl fb F' IH]; intros f1 Efb.
  - destruct f1; discriminate.
  - destruct (IH f1 Efb) as (s1 & s2 & E & Hbw). exists (Free w :: s1), s2. split; [now rewrite E|].
    cbn [slots_width fold_right slot_width]. fold (slots_width s1). lia.
  - destruct f1 as [|x f1]; [discriminate|]. injection Efb as -> Efb. destruct (IH f1 Efb) as (s1 & s2 & E & Hbw).
    exists s1, s2. split; [assumption|]. cbn [body_of map snd body_width fold_right]. fold (body_of f1). fold (body_width (body_of f1)). lia.
  - destruct f1 as [|x f1].
    + injection Efb as -> ->. exists [], sl. split; [reflexivity|reflexivity].
    + injection Efb as -> Efb. destruct (IH f1 Efb) as (s1 & s2 & E & Hbw). exists (Busy a0 :: s1), s2. split; [now rewrite E|].
      cbn [body_of map snd body_width fold_right slots_width slot_width]. fold (body_of f1). fold (body_width (body_of f1)). fold (slots_width s1). lia.
Qed.

Lemma fresh_width_le fb : Forall (fun a : acv => 0 < fst a) (body_of fb) -> body_width (fresh_of fb) <= body_width (body_of fb).
Proof.
  induction fb as [|[fl a] fb IH]; intros F; [cbn; lia|]. inversion F; subst. cbn [snd] in *. fold (body_of fb) in *. specialize (IH H2).
  destruct fl.
  - change (fresh_of ((true, a) :: fb)) with (a :: fresh_of fb). cbn [body_of map snd body_width fold_right].
    fold (body_of fb). fold (body_width (body_of fb)). fold (body_width (fresh_of fb)). lia.
  - change (fresh_of ((false, a) :: fb)) with (fresh_of fb). cbn [body_of map snd body_width fold_right].
    fold (body_of fb). fold (body_width (body_of fb)). lia.
Qed.

(* a flagged body whose fresh cviews already span the whole width has no continued cview *)
Lemma Fit_all_fresh sl g fb :
  Fit sl g fb -> Forall (fun a : acv => 0 < fst a) (body_of fb) ->
  body_width (fresh_of fb) = body_width (body_of fb) -> fb = mk_fresh (fresh_of fb).
Proof.
  intros _ Fp. induction fb as [|[fl a] fb IH]; intros E; [reflexivity|]. inversion Fp; subst. cbn [snd] in *. fold (body_of fb) in *.
  pose proof (fresh_width_le fb H2) as Hle.
  destruct fl.
  - change (fresh_of ((true, a) :: fb)) with (a :: fresh_of fb) in *. cbn [body_of map snd body_width fold_right] in E.
    fold (body_of fb) in E. fold (body_width (body_of fb)) in E. fold (body_width (fresh_of fb)) in E.
    cbn [mk_fresh map]. f_equal. apply IH; [assumption|lia].
  - change (fresh_of ((false, a) :: fb)) with (fresh_of fb) in *. cbn [body_of map snd body_width fold_right] in E.
    fold (body_of fb) in E. fold (body_width (body_of fb)) in E. lia.
Qed.
