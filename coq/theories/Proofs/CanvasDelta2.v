(* C02: content_delta, part 2.  Applying a delta through its column-wise expansion;
   decomposition of [Fit]; a cview keeps its column while it continues (placement), and the
   agreement invariant between the tagged run of the new canvas and the old content. *)
From Coq Require Import ZArith List Bool Lia ZifyBool.
From Urwid Require Import PyBase Canvas CanvasGrid CanvasFacts CanvasAbs CanvasVert CanvasHoriz CanvasJoin CanvasDelta.
Import ListNotations.
Open Scope Z_scope.
Arguments Z.add : simpl never.
Arguments Z.sub : simpl never.
Arguments Z.mul : simpl never.
Arguments Z.ltb : simpl never.
Arguments Z.leb : simpl never.
Arguments Z.eqb : simpl never.
Arguments Z.min : simpl never.
Arguments Z.max : simpl never.
Arguments Z.to_nat : simpl never.
Arguments Z.of_nat : simpl never.

(* ------------------------------------------------------------------ applying a delta row *)
Definition pickopt (o : row) (e : list (option cell)) : row :=
  map (fun p : cell * option cell => match snd p with None => fst p | Some c => c end) (combine o e).

Lemma combine_map_fst_repeat {A B} (l : list A) (y : B) n :
  length l = n -> map (fun p : A * B => fst p) (combine l (repeat y n)) = l.
Proof. revert n; induction l as [|x l IH]; intros [|n] H; cbn [length] in H; try discriminate; cbn [repeat combine map fst]; [reflexivity|]. f_equal. apply IH. lia. Qed.

Lemma combine_pick_none (l : row) n :
  length l = n ->
  map (fun p : cell * option cell => match snd p with None => fst p | Some c => c end) (combine l (repeat None n)) = l.
Proof. revert n; induction l as [|x l IH]; intros [|n] H; cbn [length] in H; try discriminate; cbn [repeat combine map fst snd]; [reflexivity|]. f_equal. apply IH. lia. Qed.

Lemma apply_delta_row_expand items : forall o,
  zlen (expand items) <= zlen o -> apply_delta_row o items = pickopt o (expand items).
Proof.
  induction items as [|[n|c] items IH]; intros o Hl; cbn [apply_delta_row expand flat_map expand_item].
  - unfold pickopt. destruct o; reflexivity.
  - fold (expand items). cbn [expand flat_map expand_item] in Hl. fold (expand items) in Hl. rewrite zlen_app, zlen_repeatz in Hl.
    pose proof (zlen_nonneg (expand items)).
    destruct (Z_le_gt_dec n 0) as [Hn|Hn].
    { rewrite takez_le0, dropz_le0 by lia. unfold repeatz. replace (Z.to_nat n) with O by lia. cbn [repeat app]. apply IH. lia. }
    rewrite IH by (rewrite zlen_dropz by lia; lia).
    unfold pickopt. rewrite <- (takez_dropz n o) at 3.
    rewrite combine_app' by (unfold takez, repeatz; rewrite firstn_length, repeat_length; unfold zlen in *; lia).
    rewrite map_app. f_equal. unfold repeatz.
    assert (length (takez n o) = Z.to_nat n) as Hlen by (unfold takez; rewrite firstn_length; unfold zlen in *; lia).
    symmetry. apply combine_pick_none. exact Hlen.
  - fold (expand items). cbn [expand flat_map expand_item app] in Hl. fold (expand items) in Hl. rewrite zlen_cons in Hl.
    pose proof (zlen_nonneg (expand items)).
    destruct o as [|x o]; [rewrite zlen_nil in Hl; lia|]. rewrite zlen_cons in Hl.
    unfold pickopt. cbn [app combine map fst snd]. f_equal.
    change (dropz 1 (x :: o)) with o. apply IH. lia.
Qed.

Definition pickrow (o t : row) : row :=
  map (fun p : cell * cell => if is_skip (snd p) then fst p else untag (snd p)) (combine o t).

Lemma pickopt_optcell o t : pickopt o (map optcell t) = pickrow o t.
Proof.
  unfold pickopt, pickrow. revert t; induction o as [|x o IH]; intros [|c t]; cbn [map combine fst snd]; try reflexivity.
  rewrite IH. f_equal. unfold optcell. destruct (is_skip c); reflexivity.
Qed.

(* the tagged row agrees with a row R from column x on: wherever a cell is tagged "unchanged",
   R holds that very cell *)
Definition rowagree (R : row) (x : Z) (t : row) : Prop :=
  Forall (fun p : cell * cell => is_skip (snd p) = true -> fst p = untag (snd p)) (combine (dropz x R) t).

Lemma pickrow_agree R t : zlen R = zlen t -> rowagree R 0 t -> pickrow R t = map untag t.
Proof.
  unfold rowagree. rewrite dropz_le0 by lia. unfold pickrow. revert t; induction R as [|x R IH]; intros [|c t] Hl A; try reflexivity.
  - unfold zlen in Hl. cbn [length] in Hl. lia.
  - cbn [combine map fst snd] in *. inversion A; subst. cbn [fst snd] in *. rewrite !zlen_cons in Hl. rewrite IH by (try assumption; lia).
    f_equal. destruct (is_skip c) eqn:E; [auto|reflexivity].
Qed.

Lemma rowagree_app R x t1 t2 : 0 <= x -> rowagree R x t1 -> rowagree R (x + zlen t1) t2 -> rowagree R x (t1 ++ t2).
Proof.
  unfold rowagree. intros Hx A1 A2. pose proof (zlen_nonneg t1).
  replace (x + zlen t1) with (zlen t1 + x) in A2 by lia. rewrite <- dropz_dropz in A2 by lia.
  revert A1 A2. generalize (dropz x R) as L. clear. intros L. revert L.
  induction t1 as [|c t1 IH]; intros L A1 A2.
  - cbn [app]. rewrite dropz_le0 in A2 by (unfold zlen; cbn [length]; lia). exact A2.
  - destruct L as [|y L]; [constructor|]. cbn [app combine] in *. inversion A1; subst. constructor; [assumption|].
    apply IH; [assumption|]. rewrite zlen_cons in A2. pose proof (zlen_nonneg t1).
    replace (dropz (1 + zlen t1) (y :: L)) with (dropz (zlen t1) L) in A2; [exact A2|].
    unfold dropz. replace (Z.to_nat (1 + zlen t1)) with (S (Z.to_nat (zlen t1))) by lia. reflexivity.
Qed.

Lemma rowagree_nil R x : rowagree R x [].
Proof. unfold rowagree. destruct (dropz x R); constructor. Qed.

Lemma rowagree_noskip R x t : Forall (fun c => is_skip c = false) t -> rowagree R x t.
Proof.
  unfold rowagree. intros F. generalize (dropz x R). intros L. revert L. induction F as [|c t Hc _ IH]; intros [|y L]; cbn [combine]; constructor; [|apply IH].
  cbn [fst snd]. congruence.
Qed.

Lemma rowagree_eq R x t : takez (zlen t) (dropz x R) = map untag t -> rowagree R x t.
Proof.
  unfold rowagree. generalize (dropz x R). intros L. revert L. induction t as [|c t IH]; intros L E; [destruct L; constructor|].
  destruct L as [|y L]; [constructor|]. rewrite zlen_cons in E. pose proof (zlen_nonneg t).
  unfold takez in E. replace (Z.to_nat (1 + zlen t)) with (S (Z.to_nat (zlen t))) in E by lia. cbn [firstn map] in E. injection E as E1 E2.
  cbn [combine]. constructor; [cbn [fst snd]; intros _; exact E1|]. apply IH. exact E2.
Qed.

(* ------------------------------------------------------------------ decomposing Fit *)
Lemma Fit_split_slot s1 a s2 : forall g fb,
  Fit (s1 ++ Busy a :: s2) g fb ->
  exists f1 f2, fb = f1 ++ (false, a) :: f2 /\ body_width (body_of f1) = slots_width s1 + g /\ Fit s2 0 f2.
Proof.
  intros g fb F. remember (s1 ++ Busy a :: s2) as sl eqn:Esl. revert s1 Esl.
  induction F as [|w sl g fb Hw Hg _ IH|a0 sl g fb Ha _ IH|a0 sl fb F' IH]; intros s1 Esl.
  - destruct s1; discriminate.
  - destruct s1 as [|s s1]; [discriminate|]. injection Esl as <- Esl. destruct (IH s1 Esl) as (f1 & f2 & E & Hbw & F2).
    exists f1, f2. split; [assumption|]. split; [|assumption]. cbn [slots_width fold_right slot_width]. fold (slots_width s1). lia.
  - destruct (IH s1 Esl) as (f1 & f2 & E & Hbw & F2). exists ((true, a0) :: f1), f2. split; [now rewrite E|]. split; [|assumption].
    cbn [body_of map snd body_width fold_right]. fold (body_of f1). fold (body_width (body_of f1)). lia.
  - destruct s1 as [|s s1].
    + injection Esl as -> ->. exists [], fb. split; [reflexivity|]. split; [reflexivity|assumption].
    + injection Esl as <- Esl. destruct (IH s1 Esl) as (f1 & f2 & E & Hbw & F2). exists ((false, a0) :: f1), f2.
      split; [now rewrite E|]. split; [|assumption].
      cbn [body_of map snd body_width fold_right slots_width slot_width]. fold (body_of f1). fold (body_width (body_of f1)). fold (slots_width s1). lia.
Qed.

Lemma Fit_split_body f1 a f2 : forall sl g,
  Fit sl g (f1 ++ (false, a) :: f2) ->
  exists s1 s2, sl = s1 ++ Busy a :: s2 /\ slots_width s1 + g = body_width (body_of f1).
Proof.
  intros sl g F. remember (f1 ++ (false, a) :: f2) as fb eqn:Efb. revert f1 Efb.
  induction F as [|w sl g fb Hw Hg _ IH|a0 sl g fb Ha _ IH|a0 sl fb F' IH]; intros f1 Efb.
  - destruct f1; discriminate.
  - destruct (IH f1 Efb) as (s1 & s2 & E & Hbw). exists (Free w :: s1), s2. split; [now rewrite E|].
    cbn [slots_width fold_right slot_width]. fold (slots_width s1). lia.
  - destruct f1 as [|x f1]; [discriminate|]. injection Efb as <- Efb. destruct (IH f1 Efb) as (s1 & s2 & E & Hbw).
    exists s1, s2. split; [assumption|]. cbn [body_of map snd body_width fold_right]. fold (body_of f1). fold (body_width (body_of f1)). lia.
  - destruct f1 as [|x f1].
    + injection Efb as -> ->. exists [], sl. split; [reflexivity|reflexivity].
    + injection Efb as <- Efb. destruct (IH f1 Efb) as (s1 & s2 & E & Hbw). exists (Busy a0 :: s1), s2. split; [now rewrite E|].
      cbn [body_of map snd body_width fold_right slots_width slot_width]. fold (body_of f1). fold (body_width (body_of f1)). fold (slots_width s1). lia.
Qed.

Lemma fresh_width_le fb : Forall (fun a : acv => 0 < fst a) (body_of fb) -> body_width (fresh_of fb) <= body_width (body_of fb).
Proof.
  induction fb as [|[fl a] fb IH]; intros F; [cbn; lia|]. inversion F; subst. cbn [snd] in *. fold (body_of fb) in *. specialize (IH H2).
  destruct fl.
  - change (fresh_of ((true, a) :: fb)) with (a :: fresh_of fb). cbn [body_of map snd body_width fold_right].
    fold (body_of fb). fold (body_width (body_of fb)). fold (body_width (fresh_of fb)). lia.
  - change (fresh_of ((false, a) :: fb)) with (fresh_of fb). cbn [body_of map snd body_width fold_right].
    fold (body_of fb). fold (body_width (body_of fb)). lia.
Qed.

(* a flagged body whose fresh cviews already span the whole width has no continued cview *)
Lemma Fit_all_fresh sl g fb :
  Fit sl g fb -> Forall (fun a : acv => 0 < fst a) (body_of fb) ->
  body_width (fresh_of fb) = body_width (body_of fb) -> fb = mk_fresh (fresh_of fb).
Proof.
  intros _ Fp. induction fb as [|[fl a] fb IH]; intros E; [reflexivity|]. inversion Fp; subst. cbn [snd] in *. fold (body_of fb) in *.
  pose proof (fresh_width_le fb H2) as Hle.
  destruct fl.
  - change (fresh_of ((true, a) :: fb)) with (a :: fresh_of fb) in *. cbn [body_of map snd body_width fold_right] in E.
    fold (body_of fb) in E. fold (body_width (body_of fb)) in E. fold (body_width (fresh_of fb)) in E.
    cbn [mk_fresh map]. f_equal. apply IH; [assumption|lia].
  - change (fresh_of ((false, a) :: fb)) with (fresh_of fb) in *. cbn [body_of map snd body_width fold_right] in E.
    fold (body_of fb) in E. fold (body_width (body_of fb)) in E. lia.
Qed.

(* ------------------------------------------------------------------ rows of a band *)
Definition getrow (O : grid) (i : Z) : row := match nthz O i with Some R => R | None => [] end.

Lemma nthz_arows body : forall m k0 k, 0 <= k < Z.of_nat m -> nthz (arows body k0 m) k = Some (arow body (k0 + k)).
Proof.
  induction m as [|m IH]; intros k0 k Hk; [lia|]. cbn [arows]. destruct (Z.eq_dec k 0) as [->|Hne].
  - unfold nthz. replace (0 <? 0) with false by lia. cbn. now rewrite Z.add_0_r.
  - rewrite nthz_nth_error by lia. replace (Z.to_nat k) with (S (Z.to_nat (k - 1))) by lia. cbn [nth_error].
    rewrite <- nthz_nth_error by lia. rewrite IH by lia. do 2 f_equal. lia.
Qed.

Lemma nthz_app_l {A} (a b : list A) k : 0 <= k < zlen a -> nthz (a ++ b) k = nthz a k.
Proof. intros. rewrite !nthz_nth_error by lia. apply nth_error_app1. unfold zlen in *. lia. Qed.
Lemma nthz_app_r {A} (a b : list A) k : zlen a <= k -> nthz (a ++ b) k = nthz b (k - zlen a).
Proof.
  intros. pose proof (zlen_nonneg a). rewrite !nthz_nth_error by lia. rewrite nth_error_app2 by (unfold zlen in *; lia).
  f_equal. unfold zlen in *. lia.
Qed.

(* the piece of a band row that belongs to one entry of the body *)
Lemma band_piece b1 a b2 k :
  0 <= k -> Forall acv_ok (b1 ++ a :: b2) -> Forall (fun a0 : acv => k < zlen (snd a0)) (b1 ++ a :: b2) ->
  exists ra, nthz (snd a) k = Some ra /\ zlen ra = fst a /\
             arow (b1 ++ a :: b2) k = arow b1 k ++ ra ++ arow b2 k /\ zlen (arow b1 k) = body_width b1.
Proof.
  intros Hk Fo Fk. apply Forall_app in Fo as [Fo1 Fo2]. apply Forall_app in Fk as [Fk1 Fk2].
  inversion Fo2 as [|? ? [Ha Hr] Fo3]; subst. inversion Fk2; subst.
  destruct (nthz_lt_some (snd a) k) as [ra Hra]; [lia|]. exists ra. split; [assumption|].
  assert (In ra (snd a)) as Hin by (unfold nthz in Hra; destruct (k <? 0); [discriminate|]; eapply nth_error_In; eauto).
  rewrite Forall_forall in Hr. destruct (Hr _ Hin) as [Hz _]. split; [assumption|]. split.
  - rewrite arow_app. f_equal. unfold arow at 1. cbn [flat_map]. now rewrite Hra.
  - now apply arow_width.
Qed.

Lemma takez_dropz_mid {A} (x y z : list A) n : n = zlen y -> takez n (dropz (zlen x) (x ++ y ++ z)) = y.
Proof. intros ->. rewrite dropz_app_r by lia. rewrite Z.sub_diag, dropz_le0 by lia. rewrite takez_app_l by lia. apply takez_all. lia. Qed.

(* ------------------------------------------------------------------ placement: a continued cview keeps its column *)
Lemma slots_after_app n b1 b2 : slots_after n (b1 ++ b2) = slots_after n b1 ++ slots_after n b2.
Proof. unfold slots_after. apply map_app. Qed.

Lemma placement w : forall ss sl s1 a s2 k,
  AWF w ss sl -> SWF w sl -> sl = s1 ++ Busy a :: s2 ->
  0 <= k < zlen (snd a) -> k < ashards_rows ss ->
  exists R ra, nthz (acontent_from ss sl) k = Some R /\ nthz (snd a) k = Some ra /\
               takez (fst a) (dropz (slots_width s1) R) = ra.
Proof.
  induction ss as [|[n cvs] ss IH]; intros sl s1 a s2 k A S Esl Hk Hrows.
  - cbn [ashards_rows fold_right] in Hrows. lia.
  - destruct (AWF_step _ _ _ _ _ A S) as (fb & F & Efr & Ef & Hn & Fo & Fn & Hw & Hr & S').
    rewrite Esl in F. destruct (Fit_split_slot _ _ _ _ _ F) as (f1 & f2 & Efb & Hbw & _). rewrite Z.add_0_r in Hbw.
    assert (body_of fb = body_of f1 ++ a :: body_of f2) as Eb by (rewrite Efb, body_of_app; reflexivity).
    rewrite (acontent_step _ _ _ _ _ Ef). cbn [ashards_rows fold_right fst] in Hrows. fold (ashards_rows ss) in Hrows.
    destruct (Z_lt_ge_dec k n) as [Hkn|Hkn].
    + rewrite nthz_app_l by (rewrite zlen_arows; lia). rewrite nthz_arows by lia. rewrite Z.add_0_l.
      rewrite Eb in Fo, Fn |- *.
      destruct (band_piece (body_of f1) a (body_of f2) k) as (ra & Hra & Hz & Erow & Hzl); [lia|assumption| |].
      { eapply Forall_impl; [|exact Fn]. cbn beta. intros; lia. }
      eexists _, ra. split; [reflexivity|]. split; [assumption|]. rewrite Erow, <- Hbw, <- Hzl. apply takez_dropz_mid. lia.
    + rewrite nthz_app_r by (rewrite zlen_arows; lia). rewrite zlen_arows.
      replace (k - Z.of_nat (Z.to_nat n)) with (k - n) by lia.
      rewrite Eb, slots_after_app. cbn [slots_after map]. fold (slots_after n (body_of f2)).
      assert (slot_after n a = Busy (pdrop n a)) as Esa by (unfold slot_after, pdrop; destruct (n =? zlen (snd a)) eqn:E; [lia|reflexivity]).
      rewrite Esa. rewrite Eb in Hr, S'. rewrite slots_after_app in Hr, S'. cbn [slots_after map] in Hr, S'. fold (slots_after n (body_of f2)) in Hr, S'. rewrite Esa in Hr, S'.
      destruct (IH _ (slots_after n (body_of f1)) (pdrop n a) (slots_after n (body_of f2)) (k - n) Hr S' eq_refl) as (R & ra & E1 & E2 & E3).
      * cbn [pdrop snd]. rewrite zlen_dropz by lia. lia.
      * lia.
      * exists R, ra. split; [assumption|]. split.
        -- cbn [pdrop snd] in E2. rewrite nthz_dropz in E2 by lia. replace (n + (k - n)) with k in E2 by lia. exact E2.
        -- cbn [pdrop fst] in E3. rewrite <- E3. do 2 f_equal.
           assert (Forall acv_ok (body_of f1)) as Fo1 by (rewrite Eb in Fo; apply Forall_app in Fo as [? _]; assumption).
           destruct (slots_after_width n _ Fo1) as [Esw _]. lia.
Qed.

(* a fresh cview of an all-fresh shard *)
Lemma placement_fresh w n c1 a c2 ss k :
  AWF w ((n, c1 ++ a :: c2) :: ss) [] -> body_width (c1 ++ a :: c2) = w ->
  0 <= k < zlen (snd a) -> k < n + ashards_rows ss ->
  exists R ra, nthz (acontent_from ((n, c1 ++ a :: c2) :: ss) []) k = Some R /\ nthz (snd a) k = Some ra /\
               takez (fst a) (dropz (body_width c1) R) = ra.
Proof.
  intros A Hw Hk Hrows. pose proof A as A0. cbn [AWF fill] in A. destruct A as (Hn & Fa & body & [= <-] & Fo & Fn & _ & Hr).
  cbn [acontent_from fill].
  destruct (Z_lt_ge_dec k n) as [Hkn|Hkn].
  - rewrite nthz_app_l by (rewrite zlen_arows; lia). rewrite nthz_arows by lia. rewrite Z.add_0_l.
    destruct (band_piece c1 a c2 k) as (ra & Hra & Hz & Erow & Hzl); [lia|assumption| |].
    { eapply Forall_impl; [|exact Fn]. cbn beta. intros; lia. }
    eexists _, ra. split; [reflexivity|]. split; [assumption|]. rewrite Erow, <- Hzl. apply takez_dropz_mid. lia.
  - rewrite nthz_app_r by (rewrite zlen_arows; lia). rewrite zlen_arows. replace (k - Z.of_nat (Z.to_nat n)) with (k - n) by lia.
    pose proof (slots_after_width n _ Fo) as S'. rewrite Hw in S'.
    rewrite slots_after_app in Hr, S' |- *. cbn [slots_after map] in Hr, S' |- *. fold (slots_after n c2) in Hr, S' |- *.
    assert (slot_after n a = Busy (pdrop n a)) as Esa by (unfold slot_after, pdrop; destruct (n =? zlen (snd a)) eqn:E; [lia|reflexivity]).
    rewrite Esa in Hr, S' |- *.
    destruct (placement w _ _ (slots_after n c1) (pdrop n a) (slots_after n c2) (k - n) Hr S' eq_refl) as (R & ra & E1 & E2 & E3).
    + cbn [pdrop snd]. rewrite zlen_dropz by lia. lia.
    + lia.
    + exists R, ra. split; [assumption|]. split.
      * cbn [pdrop snd] in E2. rewrite nthz_dropz in E2 by lia. replace (n + (k - n)) with k in E2 by lia. exact E2.
      * cbn [pdrop fst] in E3. rewrite <- E3. do 2 f_equal.
        assert (Forall acv_ok c1) as Fo1 by (apply Forall_app in Fo as [? _]; assumption).
        destruct (slots_after_width n _ Fo1) as [Esw _]. lia.
Qed.

(* ------------------------------------------------------------------ agreement of the tagged run with the old rows *)
Definition noskip (a : acv) : Prop := Forall (Forall (fun c : cell => is_skip c = false)) (snd a).

Definition SI (O : grid) (P : Z) (sl : list slot) : Prop :=
  forall s1 a s2 k ra, sl = s1 ++ Busy a :: s2 -> nthz (snd a) k = Some ra ->
                       rowagree (getrow O (P + k)) (slots_width s1) ra.

Definition FreshOK (O : grid) (w P : Z) (cvs : list acv) : Prop :=
  Forall noskip cvs \/
  (body_width cvs = w /\
   forall c1 a c2 k ra, cvs = c1 ++ a :: c2 -> nthz (snd a) k = Some ra -> rowagree (getrow O (P + k)) (body_width c1) ra).

Fixpoint ShardsOK (O : grid) (w P : Z) (ss : list ashard) : Prop :=
  match ss with
  | [] => True
  | (n, cvs) :: ss' => FreshOK O w P cvs /\ ShardsOK O w (P + n) ss'
  end.

Lemma map_eq_app_cons {A B} (f : A -> B) l : forall l1 y l2,
  map f l = l1 ++ y :: l2 -> exists a1 x a2, l = a1 ++ x :: a2 /\ map f a1 = l1 /\ f x = y /\ map f a2 = l2.
Proof.
  induction l as [|x l IH]; intros l1 y l2 E; [destruct l1; discriminate|]. destruct l1 as [|z l1]; cbn [map app] in E.
  - injection E as E1 E2. exists [], x, l. auto.
  - injection E as E1 E2. destruct (IH _ _ _ E2) as (a1 & x0 & a2 & -> & <- & <- & <-). exists (x :: a1), x0, a2. cbn [map app]. rewrite E1. auto.
Qed.

Lemma arow_agree Rw k : forall body x,
  0 <= x -> 0 <= k -> Forall acv_ok body -> Forall (fun a : acv => k < zlen (snd a)) body ->
  (forall b1 a b2 ra, body = b1 ++ a :: b2 -> nthz (snd a) k = Some ra -> rowagree Rw (x + body_width b1) ra) ->
  rowagree Rw x (arow body k).
Proof.
  induction body as [|a body IH]; intros x Hx Hk Fo Fk H; [apply rowagree_nil|].
  inversion Fo as [|? ? [Ha Hr] Fo']; subst. inversion Fk; subst.
  destruct (nthz_lt_some (snd a) k) as [ra Hra]; [lia|].
  assert (In ra (snd a)) as Hin by (unfold nthz in Hra; destruct (k <? 0); [discriminate|]; eapply nth_error_In; eauto).
  rewrite Forall_forall in Hr. destruct (Hr _ Hin) as [Hz _].
  unfold arow. cbn [flat_map]. rewrite Hra. fold (arow body k). apply rowagree_app; [assumption| |].
  - specialize (H [] a body ra eq_refl Hra). cbn [body_width fold_right] in H. now rewrite Z.add_0_r in H.
  - rewrite Hz. apply IH; [lia|assumption|assumption|assumption|]. intros b1 a0 b2 ra0 E N.
    specialize (H (a :: b1) a0 b2 ra0). cbn [app body_width fold_right] in H. fold (body_width b1) in H.
    replace (x + fst a + body_width b1) with (x + (fst a + body_width b1)) by lia. apply H; [now rewrite E|assumption].
Qed.

Lemma run_agree O w : forall ss sl P,
  AWF w ss sl -> SWF w sl -> SI O P sl -> ShardsOK O w P ss ->
  forall k R, nthz (acontent_from ss sl) k = Some R -> rowagree (getrow O (P + k)) 0 R.
Proof.
  induction ss as [|[n cvs] ss IH]; intros sl P A S Hsi Hsh k R Hk.
  - cbn [acontent_from] in Hk. unfold nthz in Hk. destruct (k <? 0); [discriminate|]. destruct (Z.to_nat k); discriminate.
  - destruct (AWF_step _ _ _ _ _ A S) as (fb & F & Efr & Ef & Hn & Fo & Fn & Hw & Hr & S').
    destruct Hsh as [Hfresh Hsh'].
    (* every entry of the body agrees at its column *)
    assert (forall b1 a b2 j ra, body_of fb = b1 ++ a :: b2 -> nthz (snd a) j = Some ra ->
                                 rowagree (getrow O (P + j)) (body_width b1) ra) as BI.
    { intros b1 a b2 j ra Eb Hra. unfold body_of in Eb. destruct (map_eq_app_cons _ _ _ _ _ Eb) as (f1 & [fl a0] & f2 & Efb & E1 & E2 & E3).
      cbn [snd] in E2. subst a0. fold (body_of f1) in E1. destruct fl.
      - (* fresh *)
        destruct Hfresh as [Hno|[Hbw Hall]].
        + apply rowagree_noskip. assert (In a cvs) as Hin.
          { rewrite <- Efr, Efb, fresh_of_app. apply in_or_app. right. left. reflexivity. }
          rewrite Forall_forall in Hno. specialize (Hno _ Hin). unfold noskip in Hno. rewrite Forall_forall in Hno. apply Hno.
          unfold nthz in Hra. destruct (j <? 0); [discriminate|]. eapply nth_error_In; eauto.
        + assert (fb = mk_fresh cvs) as Efb2.
          { rewrite <- Efr. apply (Fit_all_fresh _ _ _ F); [eapply Forall_impl; [|exact Fo]; intros x [? _]; assumption|]. rewrite Efr. lia. }
          assert (body_of fb = cvs) as Ebc by (rewrite Efb2; apply body_of_mk_fresh).
          rewrite <- E1. apply (Hall (body_of f1) a (body_of f2) j ra); [|assumption].
          rewrite <- Ebc, Efb, body_of_app. reflexivity.
      - (* continued *)
        rewrite Efb in F. destruct (Fit_split_body _ _ _ _ _ F) as (s1 & s2 & Esl & Hsw). rewrite Z.add_0_r in Hsw.
        rewrite <- E1, <- Hsw. eapply Hsi; eauto. }
    rewrite (acontent_step _ _ _ _ _ Ef) in Hk.
    destruct (Z_lt_ge_dec k 0) as [Hneg|Hnn]; [unfold nthz in Hk; destruct (k <? 0) eqn:E; [discriminate|lia]|].
    destruct (Z_lt_ge_dec k n) as [Hkn|Hkn].
    + rewrite nthz_app_l in Hk by (rewrite zlen_arows; lia). rewrite nthz_arows in Hk by lia. rewrite Z.add_0_l in Hk. injection Hk as <-.
      apply arow_agree; try assumption; try lia.
      * eapply Forall_impl; [|exact Fn]. cbn beta. intros; lia.
      * intros b1 a b2 ra Eb Hra. rewrite Z.add_0_l. eapply BI; eauto.
    + rewrite nthz_app_r in Hk by (rewrite zlen_arows; lia). rewrite zlen_arows in Hk.
      replace (k - Z.of_nat (Z.to_nat n)) with (k - n) in Hk by lia.
      replace (P + k) with (P + n + (k - n)) by lia. eapply (IH _ (P + n) Hr S'); [|exact Hsh'|exact Hk].
      (* the slot invariant after the band *)
      intros s1 a' s2 j ra Esl Hra. unfold slots_after in Esl. destruct (map_eq_app_cons _ _ _ _ _ Esl) as (b1 & a & b2 & Eb & E1 & E2 & E3).
      unfold slot_after in E2. destruct (n =? zlen (snd a)) eqn:E; [discriminate|]. injection E2 as <-.
      cbn [snd] in Hra.
      destruct (Z_lt_ge_dec j 0) as [Hjn|Hjn]; [unfold nthz in Hra; destruct (j <? 0) eqn:E4; [discriminate|lia]|].
      rewrite nthz_dropz in Hra by lia.
      assert (Forall acv_ok b1) as Fo1 by (rewrite Eb in Fo; apply Forall_app in Fo as [? _]; assumption).
      destruct (slots_after_width n _ Fo1) as [Esw _]. unfold slots_after in Esw. rewrite E1 in Esw. rewrite Esw.
      replace (P + n + j) with (P + (n + j)) by lia. eapply BI; eauto.
Qed.
