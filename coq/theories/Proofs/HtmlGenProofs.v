(* C04 - the HTML screenshot back-end (Model/HtmlGen.v): the spans carry exactly the canvas text,
   row by row, and at most one of them - a single character - has its colours swapped. *)
From Coq Require Import ZArith List Bool Lia ZifyBool.
From Urwid Require Import PyBase TermRef DrawScreen HtmlGen TermRefFacts.
Import ListNotations.
Open Scope Z_scope.

Arguments Z.add : simpl never.
Arguments Z.sub : simpl never.
Arguments Z.ltb : simpl never.
Arguments Z.leb : simpl never.
Arguments Z.eqb : simpl never.
Arguments Z.to_nat : simpl never.
Arguments Z.of_nat : simpl never.

(* what the canvas row says, control characters shown as '?' *)
Definition row_text (row : crow) : list chr := flat_map (fun r : crun => map trans_chr (snd r)) row.
Definition spans_text (spans : list hspan) : list chr := flat_map hs_text spans.
Definition n_swapped (spans : list hspan) : Z := zlen (filter hs_swapped spans).
Definition one_char_highlights (spans : list hspan) : Prop :=
  Forall (fun s => hs_swapped s = true -> zlen (hs_text s) = 1) spans.
Fixpoint total_swapped (out : list (list hspan)) : Z :=
  match out with [] => 0 | r :: rest => n_swapped r + total_swapped rest end.

Lemma n_swapped_app a b : n_swapped (a ++ b) = n_swapped a + n_swapped b.
Proof. unfold n_swapped. rewrite filter_app, zlen_app. reflexivity. Qed.

Lemma spans_text_app a b : spans_text (a ++ b) = spans_text a ++ spans_text b.
Proof. unfold spans_text. apply flat_map_app. Qed.

Lemma text_pos_lower t : forall p i sc, i <= fst (text_pos_utf8 t p i sc).
Proof.
  induction t as [|c t IH]; intros p i sc; cbn [text_pos_utf8 fst]; [lia|].
  destruct (p <? snd c + sc); cbn [fst]; [lia|]. specialize (IH p (i + 1) (sc + snd c)). lia.
Qed.

Lemma split3 {A} (s : list A) c : 0 <= c < zlen s -> takez c s ++ takez 1 (dropz c s) ++ dropz (c + 1) s = s /\ zlen (takez 1 (dropz c s)) = 1.
Proof.
  intros H. destruct (nthz_range s c H) as [x Hx]. destruct (nthz_split s c x Hx) as [Hs _].
  assert (Hd : dropz c s = x :: dropz (c + 1) s).
  { rewrite Hs at 1. apply dropz_app_exact. rewrite zlen_takez by lia. lia. }
  rewrite Hd. change (takez 1 (x :: dropz (c + 1) s)) with [x]. split; [|reflexivity].
  cbn [app]. symmetry. exact Hs.
Qed.

Lemma html_span_ok a s k sp : html_span a s k = Ok sp ->
  spans_text sp = s /\ n_swapped sp = (if 0 <=? k then 1 else 0) /\ one_char_highlights sp.
Proof.
  unfold html_span. destruct (0 <=? k) eqn:Ek.
  - destruct (text_pos_utf8 s k 0 0) as [c_off sc] eqn:Ep.
    pose proof (text_pos_lower s k 0 0) as Hlo. rewrite Ep in Hlo. cbn [fst] in Hlo.
    destruct (zlen s <=? c_off) eqn:El; [discriminate|]. intros H. inversion H; subst sp; clear H.
    destruct (split3 s c_off) as [Hs H1]; [lia|].
    split; [|split].
    + unfold spans_text. cbn [flat_map hs_text]. rewrite app_nil_r. exact Hs.
    + reflexivity.
    + repeat constructor; cbn; intros; try discriminate. exact H1.
  - destruct s as [|c s']; intros H; inversion H; subst sp.
    + split; [reflexivity|]. split; [reflexivity|constructor].
    + split; [unfold spans_text; cbn [flat_map hs_text]; now rewrite app_nil_r|].
      split; [reflexivity|]. repeat constructor. cbn. discriminate.
Qed.

Lemma html_runs_ok on cx row : forall col sp,
  html_runs on cx col row = Ok sp ->
  spans_text sp = row_text row /\ 0 <= n_swapped sp <= (if on && (col <=? cx) then 1 else 0) /\ one_char_highlights sp.
Proof.
  induction row as [|[[a cs] run] rest IH]; intros col sp H.
  - cbn [html_runs] in H. inversion H; subst sp. split; [reflexivity|]. split; [|constructor].
    change (n_swapped []) with 0. destruct (on && (col <=? cx)); lia.
  - cbn [html_runs] in H.
    destruct (on && (col <=? cx)) eqn:Eon.
    + set (w := calc_width (map trans_chr run)) in *.
      destruct (cx <? col + w) eqn:Ehit.
      * destruct (html_span a (map trans_chr run) (cx - col)) as [s1|] eqn:E1; [|discriminate]. cbn [bind] in H.
        destruct (html_runs on cx (col + w) rest) as [s2|] eqn:E2; [|discriminate]. cbn [bind] in H.
        inversion H; subst sp. destruct (html_span_ok _ _ _ _ E1) as (T1 & N1 & O1).
        destruct (IH _ _ E2) as (T2 & N2 & O2).
        assert (Ek : 0 <=? cx - col = true) by lia. rewrite Ek in N1.
        assert (Eoff : on && (col + w <=? cx) = false) by lia. rewrite Eoff in N2.
        split; [|split].
        -- rewrite spans_text_app, T1, T2. reflexivity.
        -- rewrite n_swapped_app. lia.
        -- apply Forall_app. split; assumption.
      * destruct (html_span a (map trans_chr run) (-1)) as [s1|] eqn:E1; [|discriminate]. cbn [bind] in H.
        destruct (html_runs on cx (col + w) rest) as [s2|] eqn:E2; [|discriminate]. cbn [bind] in H.
        inversion H; subst sp. destruct (html_span_ok _ _ _ _ E1) as (T1 & N1 & O1).
        destruct (IH _ _ E2) as (T2 & N2 & O2).
        change (n_swapped s1 = 0) in N1.
        split; [|split].
        -- rewrite spans_text_app, T1, T2. reflexivity.
        -- rewrite n_swapped_app. destruct (on && (col + w <=? cx)); lia.
        -- apply Forall_app. split; assumption.
    + destruct (html_span a (map trans_chr run) (-1)) as [s1|] eqn:E1; [|discriminate]. cbn [bind] in H.
      destruct (html_runs on cx col rest) as [s2|] eqn:E2; [|discriminate]. cbn [bind] in H.
      inversion H; subst sp. destruct (html_span_ok _ _ _ _ E1) as (T1 & N1 & O1).
      destruct (IH _ _ E2) as (T2 & N2 & O2). rewrite Eon in N2.
      change (n_swapped s1 = 0) in N1.
      split; [|split].
      * rewrite spans_text_app, T1, T2. reflexivity.
      * rewrite n_swapped_app. lia.
      * apply Forall_app. split; assumption.
Qed.

Lemma html_rows_ok cursor rows : forall y out,
  html_rows cursor y rows = Ok out ->
  map spans_text out = map row_text rows /\ Forall one_char_highlights out /\
  0 <= total_swapped out <= (match cursor with Some (_, cy) => if y <=? cy then 1 else 0 | None => 0 end).
Proof.
  induction rows as [|row rest IH]; intros y out H.
  - cbn [html_rows] in H. inversion H; subst out. split; [reflexivity|]. split; [constructor|].
    cbn [total_swapped]. destruct cursor as [[x cy]|]; [destruct (y <=? cy)|]; lia.
  - cbn [html_rows] in H.
    destruct (match cursor with Some (x, cy) => (y =? cy, x) | None => (false, 0) end) as [on_row cx] eqn:Ec.
    destruct (html_runs on_row cx 0 row) as [spans|] eqn:E1; [|discriminate]. cbn [bind] in H.
    destruct (html_rows cursor (y + 1) rest) as [more|] eqn:E2; [|discriminate]. cbn [bind] in H.
    inversion H; subst out. destruct (html_runs_ok _ _ _ _ _ E1) as (T1 & N1 & O1).
    destruct (IH _ _ E2) as (T2 & O2 & N2).
    split; [cbn [map]; rewrite T1, T2; reflexivity|]. split; [constructor; assumption|].
    cbn [total_swapped]. destruct cursor as [[x cy]|].
    + inversion Ec; subst on_row cx. destruct (y =? cy) eqn:Ey.
      * assert (E3 : y + 1 <=? cy = false) by lia. rewrite E3 in N2.
        assert (E4 : y <=? cy = true) by lia. rewrite E4.
        destruct (true && (0 <=? x)); lia.
      * cbn [andb] in N1. destruct (y + 1 <=? cy) eqn:E3.
        -- assert (E4 : y <=? cy = true) by lia. rewrite E4. lia.
        -- destruct (y <=? cy); lia.
    + inversion Ec; subst on_row cx. cbn [andb] in N1. lia.
Qed.

(* HtmlGenerator.draw_screen emits exactly the canvas text row by row (control characters as '?'), at most
   one span has its colours swapped, that span is one character, and none is swapped without a cursor *)
Theorem html_exact_lemma maxrow rows cursor out :
  html_draw maxrow rows cursor = Ok out ->
  map spans_text out = map row_text rows /\
  0 <= total_swapped out <= 1 /\ (cursor = None -> total_swapped out = 0) /\
  Forall one_char_highlights out.
Proof.
  unfold html_draw. destruct (negb (maxrow =? zlen rows)); [discriminate|]. intros H.
  destruct (html_rows_ok _ _ _ _ H) as (T & O & N).
  split; [exact T|]. split; [|split; [|exact O]].
  - destruct cursor as [[x cy]|]; [destruct (0 <=? cy)|]; lia.
  - intros ->. lia.
Qed.
