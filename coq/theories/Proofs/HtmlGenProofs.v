(* C04 - the HTML screenshot back-end (Model/HtmlGen.v): the spans carry exactly the canvas text,
   row by row, and at most one of them - a single character - has its colours swapped. *)
From Coq Require Import ZArith List Bool Lia ZifyBool.
From Urwid Require Import PyBase TermRef DrawScreen HtmlGen TermRefFacts.
Import ListNotations.
Open Scope Z_scope.

Arguments Z.add : simpl never.
Arguments Z.sub : simpl never.
Arguments Z.ltb : simpl never.
Arguments Z.leb : simpl never.
Arguments Z.eqb : simpl never.
Arguments Z.to_nat : simpl never.
Arguments Z.of_nat : simpl never.

(* what the canvas row says, control characters shown as '?' *)
Definition row_text (row : crow) : list chr := flat_map (fun r : crun => map trans_chr (snd r)) row.
Definition spans_text (spans : list hspan) : list chr := flat_map hs_text spans.
Definition n_swapped (spans : list hspan) : Z := zlen (filter hs_swapped spans).
Definition one_char_highlights (spans : list hspan) : Prop :=
  Forall (fun s => hs_swapped s = true -> zlen (hs_text s) = 1) spans.
Fixpoint total_swapped (out : list (list hspan)) : Z :=
  match out with [] => 0 | r :: rest => n_swapped r + total_swapped rest end.

Lemma n_swapped_app a b : n_swapped (a ++ b) = n_swapped a + n_swapped b.
Proof. unfold n_swapped. rewrite filter_app, zlen_app. reflexivity. Qed.

Lemma spans_text_app a b : spans_text (a ++ b) = spans_text a ++ spans_text b.
Proof. unfold spans_text. apply flat_map_app. Qed.

Lemma text_pos_lower t : forall p i sc, i <= fst (text_pos_utf8 t p i sc).
Proof.
  induction t as [|c t IH]; intros p i sc; cbn [text_pos_utf8 fst]; [lia|].
  destruct (p <? snd c + sc); cbn [fst]; [lia|]. specialize (IH p (i + 1) (sc + snd c)). lia.
Qed.

Lemma split3 {A} (s : list A) c : 0 <= c < zlen s -> takez c s ++ takez 1 (dropz c s) ++ dropz (c + 1) s = s /\ zlen (takez 1 (dropz c s)) = 1.
Proof.
  intros H. destruct (nthz_range s c H) as [x Hx]. destruct (nthz_split s c x Hx) as [Hs _].
  assert (Hd : dropz c s = x :: dropz (c + 1) s).
  { rewrite Hs at 1. apply dropz_app_exact. rewrite zlen_takez by lia. lia. }
  rewrite Hd. change (takez 1 (x :: dropz (c + 1) s)) with [x]. split; [|reflexivity].
  cbn [app]. symmetry. exact Hs.
Qed.

Lemma html_span_ok a s k sp : html_span a s k = Ok sp ->
  spans_text sp = s /\ n_swapped sp = (if 0 <=? k then 1 else 0) /\ one_char_highlights sp.
Proof.
  unfold html_span. destruct (0 <=? k) eqn:Ek.
  - destruct (text_pos_utf8 s k 0 0) as [c_off sc] eqn:Ep.
    pose proof (text_pos_lower s k 0 0) as Hlo. rewrite Ep in Hlo. cbn [fst] in Hlo.
    destruct (zlen s <=? c_off) eqn:El; [discriminate|]. intros H. inversion H; subst sp; clear H.
    destruct (split3 s c_off) as [Hs H1]; [lia|].
    split; [|split].
    + unfold spans_text. cbn [flat_map hs_text]. rewrite app_nil_r. exact Hs.
    + reflexivity.
    + repeat constructor; cbn; intros; try discriminate. exact H1.
  - destruct s as [|c s']; intros H; inversion H; subst sp.
    + split; [reflexivity|]. split; [reflexivity|constructor].
    + split; [unfold spans_text; cbn [flat_map hs_text]; now rewrite app_nil_r|].
      split; [reflexivity|]. repeat constructor. cbn. discriminate.
Qed.

Lemma html_runs_ok on cx row : forall col sp,
  html_runs on cx col row = Ok sp ->
  spans_text sp = row_text row /\ 0 <= n_swapped sp <= (if on && (col <=? cx) then 1 else 0) /\ one_char_highlights sp.
Proof.
  induction row as [|[[a cs] run] rest IH]; intros col sp H.
  - cbn [html_runs] in H. inversion H; subst sp. split; [reflexivity|]. split; [|constructor].
    change (n_swapped []) with 0. destruct (on && (col <=? cx)); lia.
  - cbn [html_runs] in H.
    destruct (on && (col <=? cx)) eqn:Eon.
    + set (w := calc_width (map trans_chr run)) in *.
      destruct (cx <? col + w) eqn:Ehit.
      * destruct (html_span a (map trans_chr run) (cx - col)) as [s1|] eqn:E1; [|discriminate]. cbn [bind] in H.
        destruct (html_runs on cx (col + w) rest) as [s2|] eqn:E2; [|discriminate]. cbn [bind] in H.
        inversion H; subst sp. destruct (html_span_ok _ _ _ _ E1) as (T1 & N1 & O1).
        destruct (IH _ _ E2) as (T2 & N2 & O2).
        assert (Ek : 0 <=? cx - col = true) by lia. rewrite Ek in N1.
        assert (Eoff : on && (col + w <=? cx) = false) by lia. rewrite Eoff in N2.
        split; [|split].
        -- rewrite spans_text_app, T1, T2. reflexivity.
        -- rewrite n_swapped_app. lia.
        -- apply Forall_app. split; assumption.
      * destruct (html_span a (map trans_chr run) (-1)) as [s1|] eqn:E1; [|discriminate]. cbn [bind] in H.
        destruct (html_runs on cx (col + w) rest) as [s2|] eqn:E2; [|discriminate]. cbn [bind] in H.
        inversion H; subst sp. destruct (html_span_ok _ _ _ _ E1) as (T1 & N1 & O1).
        destruct (IH _ _ E2) as (T2 & N2 & O2).
        change (n_swapped s1 = 0) in N1.
        split; [|split].
        -- rewrite spans_text_app, T1, T2. reflexivity.
        -- rewrite n_swapped_app. destruct (on && (col + w <=? cx)); lia.
        -- apply Forall_app. split; assumption.
    + destruct (html_span a (map trans_chr run) (-1)) as [s1|] eqn:E1; [|discriminate]. cbn [bind] in H.
      destruct (html_runs on cx col rest) as [s2|] eqn:E2; [|discriminate]. cbn [bind] in H.
      inversion H; subst sp. destruct (html_span_ok _ _ _ _ E1) as (T1 & N1 & O1).
      destruct (IH _ _ E2) as (T2 & N2 & O2). rewrite Eon in N2.
      change (n_swapped s1 = 0) in N1.
      split; [|split].
      * rewrite spans_text_app, T1, T2. reflexivity.
      * rewrite n_swapped_app. lia.
      * apply Forall_app. split; assumption.
Qed.

Lemma html_rows_ok cursor rows : forall y out,
  html_rows cursor y rows = Ok out ->
  map spans_text out = map row_text rows /\ Forall one_char_highlights out /\
  0 <= total_swapped out <= (match cursor with Some (_, cy) => if y <=? cy then 1 else 0 | None => 0 end).
Proof.
  induction rows as [|row rest IH]; intros y out H.
  - cbn [html_rows] in H. inversion H; subst out. split; [reflexivity|]. split; [constructor|].
    cbn [total_swapped]. destruct cursor as [[x cy]|]; [destruct (y <=? cy)|]; lia.
  - cbn [html_rows] in H.
    destruct (match cursor with Some (x, cy) => (y =? cy, x) | None => (false, 0) end) as [on_row cx] eqn:Ec.
    destruct (html_runs on_row cx 0 row) as [spans|] eqn:E1; [|discriminate]. cbn [bind] in H.
    destruct (html_rows cursor (y + 1) rest) as [more|] eqn:E2; [|discriminate]. cbn [bind] in H.
    inversion H; subst out. destruct (html_runs_ok _ _ _ _ _ E1) as (T1 & N1 & O1).
    destruct (IH _ _ E2) as (T2 & O2 & N2).
    split; [cbn [map]; rewrite T1, T2; reflexivity|]. split; [constructor; assumption|].
    cbn [total_swapped]. destruct cursor as [[x cy]|].
    + inversion Ec; subst on_row cx. destruct (y =? cy) eqn:Ey.
      * assert (E3 : y + 1 <=? cy = false) by lia. rewrite E3 in N2.
        assert (E4 : y <=? cy = true) by lia. rewrite E4.
        destruct (true && (0 <=? x)); lia.
      * cbn [andb] in N1. destruct (y + 1 <=? cy) eqn:E3.
        -- assert (E4 : y <=? cy = true) by lia. rewrite E4. lia.
        -- destruct (y <=? cy); lia.
    + inversion Ec; subst on_row cx. cbn [andb] in N1. lia.
Qed.

(* HtmlGenerator.draw_screen emits exactly the canvas text row by row (control characters as '?'), at most
   one span has its colours swapped, that span is one character, and none is swapped without a cursor *)
Theorem html_exact_lemma maxrow rows cursor out :
  html_draw maxrow rows cursor = Ok out ->
  map spans_text out = map row_text rows /\
  0 <= total_swapped out <= 1 /\ (cursor = None -> total_swapped out = 0) /\
  Forall one_char_highlights out.
Proof.
  unfold html_draw. destruct (negb (maxrow =? zlen rows)); [discriminate|]. intros H.
  destruct (html_rows_ok _ _ _ _ H) as (T & O & N).
  split; [exact T|]. split; [|split; [|exact O]].
  - destruct cursor as [[x cy]|]; [destruct (0 <=? cy)|]; lia.
  - intros ->. lia.
Qed.

(* ---------- escaping ---------- *)
Lemma html_escape_app a b : html_escape (a ++ b) = html_escape a ++ html_escape b.
Proof. unfold html_escape. apply flat_map_app. Qed.

Lemma escape_chr_len c : (1 <= length (escape_chr c))%nat.
Proof. unfold escape_chr. repeat (destruct (_ =? _); [cbn; lia|]). cbn. lia. Qed.

Lemma read_entity_escape c rest :
  (exists e, escape_chr c = e /\ c <> 38 /\ c <> 60 /\ c <> 62 /\ c <> 34 /\ c <> 39 /\ e = [c] /\
             read_entity entities (c :: rest) = None)
  \/ read_entity entities (escape_chr c ++ rest) = Some (c, rest).
Proof.
  unfold escape_chr.
  destruct (c =? 38) eqn:E1; [right; assert (c = 38) by lia; subst; vm_compute; reflexivity|].
  destruct (c =? 60) eqn:E2; [right; assert (c = 60) by lia; subst; vm_compute; reflexivity|].
  destruct (c =? 62) eqn:E3; [right; assert (c = 62) by lia; subst; vm_compute; reflexivity|].
  destruct (c =? 34) eqn:E4; [right; assert (c = 34) by lia; subst; vm_compute; reflexivity|].
  destruct (c =? 39) eqn:E5; [right; assert (c = 39) by lia; subst; vm_compute; reflexivity|].
  left. exists [c]. splits_; try lia; try reflexivity.
  unfold entities, read_entity, strip_prefix. assert (E : 38 =? c = false) by lia. rewrite E. reflexivity.
Qed.

(* reading the emitted markup gives the text back, whatever the text *)
Lemma unescape_escape s : forall fuel, (length (html_escape s) <= fuel)%nat -> html_unescape fuel (html_escape s) = s.
Proof.
  induction s as [|c s IH]; intros fuel Hf.
  - destruct fuel; reflexivity.
  - change (html_escape (c :: s)) with (escape_chr c ++ html_escape s) in *.
    rewrite app_length in Hf. pose proof (escape_chr_len c) as Hl.
    destruct fuel as [|k]; [lia|].
    destruct (read_entity_escape c (html_escape s)) as [(e & E & _ & _ & _ & _ & _ & -> & Hnone)|Hsome].
    + rewrite E in *. cbn [app html_unescape]. rewrite Hnone. f_equal. apply IH. cbn in Hf. lia.
    + destruct (escape_chr c ++ html_escape s) as [|x r] eqn:El.
      { destruct (escape_chr c); [cbn in Hl; lia|discriminate]. }
      cbn [html_unescape]. rewrite Hsome. f_equal. apply IH. lia.
Qed.

Definition row_markup (spans : list hspan) : list Z := flat_map span_markup spans.
Definition read_markup (m : list Z) : list Z := html_unescape (length m) m.

Lemma row_markup_escape spans : row_markup spans = html_escape (map fst (spans_text spans)).
Proof.
  induction spans as [|s spans IH]; [reflexivity|].
  cbn [row_markup flat_map spans_text]. fold (row_markup spans). fold (spans_text spans).
  rewrite map_app, html_escape_app, IH. reflexivity.
Qed.

(* reading the markup of every emitted row gives exactly the code points of the canvas row *)
Theorem html_markup_reads_back_lemma maxrow rows cursor out :
  html_draw maxrow rows cursor = Ok out ->
  map (fun spans => read_markup (row_markup spans)) out = map (fun row => map fst (row_text row)) rows.
Proof.
  intros H. destruct (html_exact_lemma _ _ _ _ H) as (T & _).
  rewrite <- (map_map row_text (map fst)). rewrite <- T. rewrite map_map.
  apply map_ext. intros spans. unfold read_markup. rewrite row_markup_escape. apply unescape_escape. lia.
Qed.

(* ---------- the highlighted cell is the character under the canvas cursor ---------- *)
Definition nonneg_widths (t : list chr) : Prop := Forall (fun ch : chr => 0 <= snd ch) t.

Lemma calc_width_app' a b : calc_width (a ++ b) = calc_width a + calc_width b.
Proof. induction a; cbn [calc_width app]; lia. Qed.

Lemma calc_width_nn t : nonneg_widths t -> 0 <= calc_width t.
Proof. induction 1; cbn [calc_width]; lia. Qed.

(* calc_text_pos: the character that covers column k *)
Lemma text_pos_covers t : forall k i sc, nonneg_widths t -> sc <= k < sc + calc_width t ->
  exists pre c post, t = pre ++ c :: post /\ text_pos_utf8 t k i sc = (i + zlen pre, sc + calc_width pre) /\
                     sc + calc_width pre <= k < sc + calc_width pre + snd c.
Proof.
  induction t as [|ch t IH]; intros k i sc Hw Hk.
  - cbn [calc_width] in Hk. lia.
  - inversion Hw as [|? ? Hch Hw']; subst. cbn [calc_width] in Hk. cbn [text_pos_utf8].
    destruct (k <? snd ch + sc) eqn:E.
    + exists [], ch, t. cbn [app calc_width]. rewrite zlen_nil. splits_; auto; try lia. f_equal; lia.
    + destruct (IH k (i + 1) (sc + snd ch) Hw') as (pre & c & post & -> & Ep & Hr); [lia|].
      exists (ch :: pre), c, post. cbn [app calc_width]. rewrite zlen_cons. splits_; auto; try lia.
      rewrite Ep. f_equal; lia.
Qed.

Definition one_highlight (spans : list hspan) (pre : list chr) (c : chr) (post : list chr) : Prop :=
  exists s1 a s2, spans = s1 ++ HSpan a true [c] :: s2 /\ n_swapped s1 = 0 /\ n_swapped s2 = 0 /\
                  spans_text s1 = pre /\ spans_text s2 = post.

Lemma html_span_cursor a s k sp : nonneg_widths s -> 0 <= k < calc_width s -> html_span a s k = Ok sp ->
  exists pre c post, s = pre ++ c :: post /\ one_highlight sp pre c post /\ calc_width pre <= k < calc_width pre + snd c.
Proof.
  intros Hw Hk. unfold html_span. assert (E : 0 <=? k = true) by lia. rewrite E.
  destruct (text_pos_covers s k 0 0 Hw) as (pre & c & post & -> & Ep & Hr); [lia|]. rewrite Ep.
  pose proof (zlen_nonneg pre) as Hp. pose proof (zlen_nonneg post) as Hq.
  destruct (zlen (pre ++ c :: post) <=? 0 + zlen pre) eqn:El; [rewrite zlen_app, zlen_cons in El; lia|].
  intros H. inversion H; subst sp; clear H.
  exists pre, c, post. splits_; auto; try lia.
  replace (0 + zlen pre) with (zlen pre) by lia.
  rewrite takez_app_exact by reflexivity. rewrite dropz_app_exact by reflexivity.
  replace (pre ++ c :: post) with ((pre ++ [c]) ++ post) by (now rewrite <- app_assoc).
  rewrite dropz_app_exact by (rewrite zlen_app, zlen_cons, zlen_nil; lia).
  change (takez 1 (c :: post)) with [c].
  exists [HSpan a false pre], a, [HSpan a false post]. unfold spans_text. cbn. rewrite !app_nil_r. splits_; reflexivity.
Qed.

Lemma no_highlight_spans on cx row col sp : html_runs on cx col row = Ok sp -> on && (col <=? cx) = false ->
  n_swapped sp = 0 /\ spans_text sp = row_text row.
Proof.
  intros H E. destruct (html_runs_ok _ _ _ _ _ H) as (T & N & _). rewrite E in N. split; [lia|exact T].
Qed.

Lemma html_runs_cursor cx row : forall col sp,
  nonneg_widths (row_text row) -> col <= cx < col + calc_width (row_text row) ->
  html_runs true cx col row = Ok sp ->
  exists pre c post, row_text row = pre ++ c :: post /\ one_highlight sp pre c post /\
                     col + calc_width pre <= cx < col + calc_width pre + snd c.
Proof.
  induction row as [|[[a cs] run] rest IH]; intros col sp Hw Hk H.
  - cbn in Hk. lia.
  - cbn [html_runs] in H. change (row_text ((a, cs, run) :: rest)) with (map trans_chr run ++ row_text rest) in *.
    apply Forall_app in Hw as [Hw1 Hw2]. rewrite calc_width_app' in Hk.
    assert (Eon : true && (col <=? cx) = true) by lia. rewrite Eon in H.
    set (w := calc_width (map trans_chr run)) in *.
    destruct (cx <? col + w) eqn:Ehit.
    + destruct (html_span a (map trans_chr run) (cx - col)) as [s1|] eqn:E1; [|discriminate]. cbn [bind] in H.
      destruct (html_runs true cx (col + w) rest) as [s2|] eqn:E2; [|discriminate]. cbn [bind] in H.
      inversion H; subst sp.
      destruct (html_span_cursor a _ (cx - col) s1 Hw1) as (pre & c & post & Et & (h1 & ha & h2 & -> & N1 & N2 & T1 & T2) & Hr);
        [fold w; lia|exact E1|].
      destruct (no_highlight_spans _ _ _ _ _ E2) as [N3 T3]; [lia|].
      exists pre, c, (post ++ row_text rest). rewrite Et, <- app_assoc. cbn [app]. splits_; auto; try lia.
      exists h1, ha, (h2 ++ s2). rewrite <- app_assoc. cbn [app]. splits_; auto.
      * rewrite n_swapped_app. lia.
      * rewrite spans_text_app, T2, T3. reflexivity.
    + destruct (html_span a (map trans_chr run) (-1)) as [s1|] eqn:E1; [|discriminate]. cbn [bind] in H.
      destruct (html_runs true cx (col + w) rest) as [s2|] eqn:E2; [|discriminate]. cbn [bind] in H.
      inversion H; subst sp. destruct (html_span_ok _ _ _ _ E1) as (T1 & N1 & _). change (n_swapped s1 = 0) in N1.
      destruct (IH (col + w) s2 Hw2) as (pre & c & post & Et & (h1 & ha & h2 & -> & M1 & M2 & U1 & U2) & Hr); [lia|exact E2|].
      exists (map trans_chr run ++ pre), c, post. rewrite Et, <- app_assoc. rewrite calc_width_app'. fold w.
      splits_; auto; try lia.
      exists (s1 ++ h1), ha, h2. rewrite <- app_assoc. splits_; auto.
      * rewrite n_swapped_app. lia.
      * rewrite spans_text_app, T1, U1. reflexivity.
Qed.

Lemma html_rows_cursor cx cy rows : forall y out row,
  html_rows (Some (cx, cy)) y rows = Ok out -> 0 <= y -> nthz rows (cy - y) = Some row ->
  nonneg_widths (row_text row) -> 0 <= cx < calc_width (row_text row) ->
  exists spans pre c post, nthz out (cy - y) = Some spans /\ row_text row = pre ++ c :: post /\
     one_highlight spans pre c post /\ calc_width pre <= cx < calc_width pre + snd c.
Proof.
  induction rows as [|r rest IH]; intros y out row H Hy Hn Hw Hk.
  - unfold nthz in Hn. destruct (cy - y <? 0); [discriminate|]. destruct (Z.to_nat (cy - y)); discriminate.
  - cbn [html_rows] in H.
    destruct (html_runs (y =? cy) cx 0 r) as [spans|] eqn:E1; [|discriminate]. cbn [bind] in H.
    destruct (html_rows (Some (cx, cy)) (y + 1) rest) as [more|] eqn:E2; [|discriminate]. cbn [bind] in H.
    inversion H; subst out.
    assert (Hge : 0 <= cy - y) by (unfold nthz in Hn; destruct (cy - y <? 0) eqn:E; [discriminate|lia]).
    destruct (Z.eq_dec cy y) as [->|Hne].
    + replace (y - y) with 0 in * by lia. cbn in Hn. inversion Hn; subst r.
      assert (Ey : y =? y = true) by lia. rewrite Ey in E1.
      destruct (html_runs_cursor cx row 0 spans Hw) as (pre & c & post & Et & Hh & Hr); [lia|exact E1|].
      exists spans, pre, c, post. splits_; auto; try lia.
    + assert (Hn' : nthz rest (cy - (y + 1)) = Some row).
      { unfold nthz in *. destruct (cy - y <? 0) eqn:Ea; [discriminate|]. destruct (cy - (y + 1) <? 0) eqn:Eb; [lia|].
        replace (Z.to_nat (cy - y)) with (S (Z.to_nat (cy - (y + 1)))) in Hn by lia. exact Hn. }
      destruct (IH (y + 1) more row E2 ltac:(lia) Hn' Hw Hk) as (spans' & pre & c & post & Hs & Et & Hh & Hr).
      exists spans', pre, c, post. splits_; auto; try lia.
      unfold nthz in *. destruct (cy - y <? 0) eqn:Ea; [lia|]. destruct (cy - (y + 1) <? 0) eqn:Eb; [lia|].
      replace (Z.to_nat (cy - y)) with (S (Z.to_nat (cy - (y + 1)))) by lia. exact Hs.
Qed.

(* with the canvas cursor on a cell of the canvas, exactly one span is highlighted, it is one character, and
   it is the character that covers the cursor column of the cursor row *)
Theorem html_cursor_cell_lemma maxrow rows cx cy out row :
  html_draw maxrow rows (Some (cx, cy)) = Ok out ->
  nthz rows cy = Some row -> nonneg_widths (row_text row) -> 0 <= cx < calc_width (row_text row) ->
  total_swapped out = 1 /\
  exists spans pre c post, nthz out cy = Some spans /\ row_text row = pre ++ c :: post /\
     one_highlight spans pre c post /\ calc_width pre <= cx < calc_width pre + snd c.
Proof.
  intros H Hn Hw Hk. pose proof (html_exact_lemma _ _ _ _ H) as (_ & Hle & _ & _).
  unfold html_draw in H. destruct (negb (maxrow =? zlen rows)); [discriminate|].
  replace cy with (cy - 0) in Hn by lia.
  destruct (html_rows_cursor cx cy rows 0 out row H ltac:(lia) Hn Hw Hk) as (spans & pre & c & post & Hs & Et & Hh & Hr).
  replace (cy - 0) with cy in Hs by lia.
  split; [|exists spans, pre, c, post; auto].
  (* at least one: the row cy contains a swapped span *)
  assert (Hone : 1 <= total_swapped out).
  { clear -Hs Hh. destruct Hh as (s1 & a & s2 & -> & _). revert cy Hs. induction out as [|r out IH]; intros cy Hs.
    - unfold nthz in Hs. destruct (cy <? 0); [discriminate|]. destruct (Z.to_nat cy); discriminate.
    - cbn [total_swapped]. assert (Hnn : forall l, 0 <= n_swapped l) by (intros; unfold n_swapped; apply zlen_nonneg).
      assert (Htn : forall o, 0 <= total_swapped o) by (induction o; cbn [total_swapped]; [lia|pose proof (Hnn a0); lia]).
      unfold nthz in Hs. destruct (cy <? 0) eqn:E; [discriminate|]. destruct (Z.to_nat cy) eqn:En.
      + cbn in Hs. inversion Hs; subst r. rewrite n_swapped_app. unfold n_swapped at 2. cbn [filter hs_swapped].
        rewrite zlen_cons. pose proof (Hnn s1). pose proof (zlen_nonneg (filter hs_swapped s2)). pose proof (Htn out). lia.
      + cbn in Hs. specialize (IH (Z.of_nat n)). unfold nthz in IH.
        destruct (Z.of_nat n <? 0) eqn:E2; [lia|]. rewrite Nat2Z.id in IH. specialize (IH Hs). pose proof (Hnn r). lia. }
  lia.
Qed.
