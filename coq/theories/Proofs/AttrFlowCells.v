(* C17 goal: the per-COLUMN statement.  Every canvas row is the byte string of a sequence of
   displayed characters; every screen column of a character carries that character's attribute
   (both columns of a double-width character), padding and fill columns carry None. *)
From Coq Require Import ZArith List Bool Lia ZifyBool.
Import ListNotations.
From Urwid Require Import PyBase PyList AttrFlow AttrFlowBasics AttrFlowLayout AttrFlowClip AttrFlowTrim.
Open Scope Z_scope.

Arguments Z.add : simpl never.
Arguments Z.sub : simpl never.
Arguments Z.ltb : simpl never.
Arguments Z.leb : simpl never.
Arguments Z.eqb : simpl never.
Arguments Z.to_nat : simpl never.
Arguments Z.of_nat : simpl never.

(* a text character as it is displayed: its encoded bytes, the columns of those bytes *)
Definition disp (c : chr) : rchr := RC (c_enc c) (c_wid c).

(* the displayed characters of one (trimmed) segment, with the attribute the property demands *)
Definition shown_seg (text : list chr) (attrs : rle) (s : seg) : crow :=
  match s with
  | SText _ o e => combine (map disp (sub text o e)) (map (rle_get_at attrs) (zrange' o e))
  | SIns sc o txt _ =>
      if rc_len txt =? 0 then repeat (blank (pad_attr attrs o)) (Z.to_nat sc)
      else map (fun c => (c, rle_get_at attrs o)) txt
  | SPad sc None => repeat (blank None) (Z.to_nat sc)
  | SPad sc (Some o) => repeat (blank (pad_attr attrs o)) (Z.to_nat sc)
  end.

(* the per-column demand, stated directly: for each character of the segment, as many columns as
   it is wide, all carrying the attribute of that character; blanks one column each *)
Definition seg_cells (text : list chr) (attrs : rle) (s : seg) : list attr :=
  match s with
  | SText _ o e =>
      flat_map (fun p : chr * attr => repeat (snd p) (Z.to_nat (c_wid (fst p))))
               (combine (sub text o e) (map (rle_get_at attrs) (zrange' o e)))
  | SIns sc o txt _ =>
      if rc_len txt =? 0 then repeat (pad_attr attrs o) (Z.to_nat sc)
      else repeat (rle_get_at attrs o) (Z.to_nat (rc_wid txt))
  | SPad sc None => repeat None (Z.to_nat sc)
  | SPad sc (Some o) => repeat (pad_attr attrs o) (Z.to_nat sc)
  end.

(* an insert whose encoded length is its length (no SO/SI inside), characters of sane size *)
Definition ins_plain (s : seg) : Prop :=
  match s with
  | SIns _ _ txt ilen => ilen = rc_len txt /\ Forall (fun c => 0 <= r_len c /\ 0 <= r_wid c) txt
  | _ => True
  end.

Lemma rbytes_blanks a n : rbytes (repeat (blank a) n) = repeat a n.
Proof. induction n; [reflexivity|]. cbn [repeat]. unfold rbytes in *. cbn [flat_map blank fst snd r_len]. now rewrite IHn. Qed.
Lemma colattrs_blanks a n : colattrs (repeat (blank a) n) = repeat a n.
Proof. induction n; [reflexivity|]. cbn [repeat]. unfold colattrs in *. cbn [flat_map blank fst snd r_wid]. now rewrite IHn. Qed.

Lemma flat_combine_map {A B C} (f : A -> B) (g : B * C -> list C) (l : list A) : forall (m : list C),
  flat_map g (combine (map f l) m) = flat_map (fun p : A * C => g (f (fst p), snd p)) (combine l m).
Proof. induction l as [|x t IH]; intros [|y u]; cbn; try reflexivity. now rewrite IH. Qed.

Lemma rbytes_const a txt : Forall (fun c => 0 <= r_len c /\ 0 <= r_wid c) txt ->
  rbytes (map (fun c => (c, a)) txt) = repeat a (Z.to_nat (rc_len txt)).
Proof.
  induction 1 as [|c t [H _] Ht IH]; [reflexivity|].
  cbn [map rc_len]. unfold rbytes in *. cbn [flat_map fst snd]. rewrite IH.
  assert (0 <= rc_len t) by (clear -Ht; induction Ht as [|? ? [? _]]; cbn [rc_len]; lia).
  now rewrite <- repeat_Z_add.
Qed.
Lemma colattrs_const a txt : Forall (fun c => 0 <= r_len c /\ 0 <= r_wid c) txt ->
  colattrs (map (fun c => (c, a)) txt) = repeat a (Z.to_nat (rc_wid txt)).
Proof.
  induction 1 as [|c t [_ H] Ht IH]; [reflexivity|].
  cbn [map rc_wid]. unfold colattrs in *. cbn [flat_map fst snd]. rewrite IH.
  assert (0 <= rc_wid t) by (clear -Ht; induction Ht as [|? ? [_ ?]]; cbn [rc_wid]; lia).
  now rewrite <- repeat_Z_add.
Qed.

(* the displayed characters carry exactly the bytes the byte-level theorem speaks of ... *)
Lemma shown_bytes text attrs s : ins_plain s -> rbytes (shown_seg text attrs s) = seg_spec text attrs s.
Proof.
  destruct s as [sc o e|sc o txt ilen|sc [o|]]; cbn [shown_seg seg_spec ins_plain]; intro H.
  - unfold rbytes, bytes_of. now rewrite flat_combine_map.
  - destruct H as [-> Hf]. destruct (rc_len txt =? 0).
    + rewrite rbytes_blanks. reflexivity.
    + now apply rbytes_const.
  - rewrite rbytes_blanks. reflexivity.
  - apply rbytes_blanks.
Qed.

(* ... and their columns are the per-column demand *)
Lemma shown_cells text attrs s : ins_plain s -> colattrs (shown_seg text attrs s) = seg_cells text attrs s.
Proof.
  destruct s as [sc o e|sc o txt ilen|sc [o|]]; cbn [shown_seg seg_cells ins_plain]; intro H.
  - unfold colattrs. now rewrite flat_combine_map.
  - destruct H as [_ Hf]. destruct (rc_len txt =? 0); [apply colattrs_blanks | now apply colattrs_const].
  - apply colattrs_blanks.
  - apply colattrs_blanks.
Qed.

Lemma shown_line_bytes text attrs segs : Forall ins_plain segs ->
  rbytes (flat_map (shown_seg text attrs) segs) = flat_map (seg_spec text attrs) segs.
Proof.
  induction 1 as [|s r Hs Hr IH]; [reflexivity|].
  cbn [flat_map]. now rewrite rbytes_app, IH, shown_bytes.
Qed.
Lemma shown_line_cells text attrs segs : Forall ins_plain segs ->
  colattrs (flat_map (shown_seg text attrs) segs) = flat_map (seg_cells text attrs) segs.
Proof.
  induction 1 as [|s r Hs Hr IH]; [reflexivity|].
  cbn [flat_map]. now rewrite colattrs_app, IH, shown_cells.
Qed.

(* the cell-level theorem for whole layouts *)
Lemma layout_cells_lemma isb text attrs lines tl maxcol rows :
  enc_ok isb text -> nonneg attrs -> trimmed_lines text maxcol lines tl -> Forall (Forall ins_plain) tl ->
  apply_text_layout isb text attrs lines maxcol = Ok rows ->
  Forall2 (fun segs row => exists (shown : crow) (k : nat),
             expand row = rbytes (shown ++ repeat (blank None) k) /\
             colattrs (shown ++ repeat (blank None) k) = flat_map (seg_cells text attrs) segs ++ repeat None k)
          tl rows.
Proof.
  intros Hok Hn Ht Hp Ha.
  pose proof (layout_rows_spec isb text attrs lines tl maxcol rows Hok Hn Ht Ha) as F.
  clear Ha Ht. revert Hp. induction F as [|segs row l l' [[k Hk] _] _ IH]; intro Hp; [constructor|].
  inversion Hp as [|? ? Hp1 Hp2]; subst. constructor; [|now apply IH].
  exists (flat_map (shown_seg text attrs) segs), k.
  rewrite rbytes_app, colattrs_app, rbytes_blanks, colattrs_blanks.
  rewrite shown_line_bytes, shown_line_cells by assumption. split; [exact Hk | reflexivity].
Qed.

(* trimming keeps inserts plain *)
Lemma rc_parts_nonneg txt n m : Forall (fun c => 0 <= r_len c /\ 0 <= r_wid c) txt ->
  Forall (fun c => 0 <= r_len c /\ 0 <= r_wid c) (take_bytes (drop_bytes txt n) m).
Proof. intro H. now apply Forall_take_bytes, Forall_drop_bytes. Qed.

Lemma subseg_plain text s start e l : ins_plain s -> subseg text s start e = Ok l -> Forall ins_plain l.
Proof.
  intros Hp. unfold subseg.
  destruct (Z.min e (seg_sc s) <=? Z.max start 0); [intro H; inversion H; constructor|].
  destruct s as [sc o en|sc o txt ilen|sc oo].
  - destruct (negb (en =? 0)).
    + destruct ((o <? 0) || (en <? o) || (zlen text <? en)); [discriminate|].
      destruct (calc_trim_text _ _ _) as [[[spos epos] pl] pr]. intro H; inversion H; subst.
      repeat (apply Forall_app; split);
        match goal with |- context [if ?b then _ else _] => destruct b end; repeat constructor.
    + intro H; inversion H; repeat constructor.
  - destruct Hp as [_ Hf]. destruct (negb (rc_len txt =? 0)).
    + destruct (calc_trim_text _ _ _) as [[[spos epos] pl] pr]. intro H; inversion H; subst.
      constructor; [|constructor]. cbn [ins_plain]. split; [reflexivity|].
      apply Forall_app. split; [apply Forall_forall; intros x Hx; apply repeat_spec in Hx; subst; cbn; lia|].
      apply Forall_app. split; [now apply rc_parts_nonneg|].
      apply Forall_forall; intros x Hx; apply repeat_spec in Hx; subst; cbn; lia.
    + intro H; inversion H; repeat constructor.
  - intro H; inversion H; repeat constructor.
Qed.

Lemma trim_line_go_plain text e : forall segs start x acc l,
  Forall ins_plain segs -> Forall ins_plain acc ->
  trim_line_go text segs start x e acc = Ok l -> Forall ins_plain l.
Proof.
  induction segs as [|s r IH]; intros start x acc l Hp Ha; cbn [trim_line_go].
  - intro H; inversion H; subst. exact Ha.
  - inversion Hp as [|? ? Hs Hr]; subst.
    destruct (negb (start =? 0) || (seg_sc s <? 0)).
    + destruct (seg_sc s <=? start); [now apply IH|].
      destruct (seg_check s); [|discriminate].
      destruct (e <=? x + seg_sc s); [now apply subseg_plain|].
      destruct (subseg text s start (seg_sc s)) as [l0|] eqn:E; [|discriminate].
      apply IH; [assumption|]. apply Forall_app. split; [assumption | now apply (subseg_plain text s start (seg_sc s))].
    + destruct (e <=? x); [intro H; inversion H; subst; exact Ha|].
      destruct (e <? x + seg_sc s).
      * destruct (seg_check s); [|discriminate].
        destruct (subseg text s 0 (e - x)) as [l0|] eqn:E; [|discriminate].
        intro H; inversion H; subst. apply Forall_app. split; [assumption | now apply (subseg_plain text s 0 (e - x))].
      * apply IH; [assumption|]. apply Forall_app. split; [assumption | now constructor].
Qed.

Lemma trimmed_lines_plain text maxcol lines tl :
  trimmed_lines text maxcol lines tl -> Forall (Forall ins_plain) lines -> Forall (Forall ins_plain) tl.
Proof.
  induction 1 as [|l l' r r' [Ht _] _ IH]; intro Hp; [constructor|].
  inversion Hp; subst. constructor; [|now apply IH].
  unfold trim_line in Ht. eapply trim_line_go_plain; [eassumption | constructor | exact Ht].
Qed.
