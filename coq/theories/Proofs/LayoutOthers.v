(* Proofs about the hand models of Pile.get_item_rows (box), GridFlow row breaking,
   Padding.padding_values, Filler.filler_values and Overlay.calculate_padding_filler. *)
From Coq Require Import ZArith List Bool Lia ZifyBool Permutation.
Import ListNotations.
From Urwid Require Import PyBase layout_gen Layout LayoutArith LayoutLists LayoutColumns.
Open Scope Z_scope.

Arguments Z.add : simpl never.
Arguments Z.sub : simpl never.
Arguments Z.mul : simpl never.
Arguments Z.div : simpl never.
Arguments Z.quot : simpl never.
Arguments Z.ltb : simpl never.
Arguments Z.leb : simpl never.
Arguments Z.eqb : simpl never.
Arguments Z.min : simpl never.
Arguments Z.max : simpl never.
Arguments Z.of_nat : simpl never.

Ltac znil := change (zlen (@nil col)) with 0 in *; change (zlen (@nil Z)) with 0 in *;
             change (zlen (@nil (Z * Z))) with 0 in *; change (zlen (@nil (option Z))) with 0 in *.

(* ------------------------------------------------------------------ *)
(* Pile, box branch                                                    *)

Definition rn_of (c : col) : option Z :=
  match fst c with
  | KWeight => if snd c =? 0 then Some 0 else None
  | _ => Some (snd c)
  end.
Fixpoint fixed_sum (items : list col) : Z :=
  match items with [] => 0 | c :: r => (if is_weight c then 0 else snd c) + fixed_sum r end.
Fixpoint weight_sum (items : list col) : Z :=
  match items with [] => 0 | c :: r => (if is_weight c then snd c else 0) + weight_sum r end.

(* items of the statement: given / packed rows non-negative, weights non-negative *)
Definition pitem_ok (c : col) : Prop := 0 <= snd c.

Lemma triple_eq {A B C} (a a' : A) (b b' : B) (c c' : C) : a = a' -> b = b' -> c = c' -> (a, b, c) = (a', b', c').
Proof. intros; subst; reflexivity. Qed.

Lemma pile_pass1_spec items : forall remaining wtotal,
  pile_pass1 items remaining wtotal =
    (map rn_of items, remaining - fixed_sum items, wtotal + weight_sum items).
Proof.
  induction items as [|[k h] r IH]; intros remaining wtotal; cbn [pile_pass1 map fixed_sum weight_sum].
  - apply triple_eq; [reflexivity|lia|lia].
  - destruct k; unfold rn_of, is_weight; cbn [fst snd].
    + rewrite IH. apply triple_eq; [reflexivity|lia|lia].
    + rewrite IH. apply triple_eq; [reflexivity|lia|lia].
    + destruct (h =? 0) eqn:E; rewrite IH; apply triple_eq; try reflexivity; lia.
Qed.

Lemma weight_sum_nonneg items : Forall pitem_ok items -> 0 <= weight_sum items.
Proof.
  induction 1 as [|c r Hc Hr IH]; cbn [weight_sum]; [lia|]. unfold pitem_ok in Hc. destruct (is_weight c); lia.
Qed.

Lemma fixed_sum_nonneg items : Forall pitem_ok items -> 0 <= fixed_sum items.
Proof.
  induction 1 as [|c r Hc Hr IH]; cbn [fixed_sum]; [lia|]. unfold pitem_ok in Hc. destruct (is_weight c); lia.
Qed.

(* a share never exceeds what remains *)
Lemma rhu_le_rem rem a W : 0 <= rem -> 1 <= a <= W ->
  0 <= round_half_up_div (rem * a) W <= rem.
Proof.
  intros Hr Ha. pose proof (rhu_bounds (rem * a) W ltac:(nia) ltac:(lia)) as H. cbv zeta in H.
  revert H. generalize (round_half_up_div (rem * a) W). intros r [[H1 H2] H0]. split; [lia|].
  destruct (Z_le_gt_dec r rem); [assumption|exfalso]. nia.
Qed.

Lemma pile_pass2_spec items : forall rem W,
  Forall pitem_ok items -> 0 <= rem -> W = weight_sum items ->
  exists rows, pile_pass2 items (map rn_of items) rem W = Ok rows /\
    zlen rows = zlen items /\ Forall (fun x => 0 <= x) rows /\
    (forall i c, nthz items i = Some c -> is_weight c = false -> nthz rows i = Some (snd c)) /\
    zsum rows = fixed_sum items + (if W =? 0 then 0 else rem).
Proof.
  induction items as [|[k h] r IH]; intros rem W Hok Hrem HW.
  - exists []. cbn. repeat split; try constructor.
    + intros i c H. unfold nthz in H. destruct (i <? 0); [discriminate|]. destruct (Z.to_nat i); discriminate.
    + cbn in HW. subst W. reflexivity.
  - inversion Hok as [|? ? Hc Hr]; subst. unfold pitem_ok in Hc. cbn [snd] in Hc.
    pose proof (weight_sum_nonneg r Hr) as Hwn.
    assert (Hfixed : forall v, rn_of (k, h) = Some v -> is_weight (k, h) = false \/ (is_weight (k, h) = true /\ h = 0 /\ v = 0)).
    { unfold rn_of, is_weight. cbn [fst snd]. destruct k; intros v Hv; try (left; reflexivity).
      right. destruct (h =? 0) eqn:E; [|discriminate]. injection Hv as <-. repeat split; lia. }
    cbn [map pile_pass2]. destruct (rn_of (k, h)) as [v|] eqn:Ern.
    + (* fixed rows *)
      destruct (IH rem (weight_sum r) Hr Hrem eq_refl) as [rows [Hp [Hl [Hnn [Hfix Hs]]]]].
      assert (HWr : weight_sum (@cons col (k, h) r) = weight_sum r).
      { cbn [weight_sum]. destruct (Hfixed v eq_refl) as [->|[-> [-> _]]]; cbn [snd]; lia. }
      exists (v :: rows). rewrite HWr. rewrite Hp. cbn [bind].
      assert (Hv : v = (if is_weight (k, h) then 0 else h) /\ 0 <= v).
      { unfold rn_of, is_weight in *. cbn [fst snd] in *. destruct k; try (injection Ern as <-; split; [reflexivity|lia]).
        destruct (h =? 0); [|discriminate]. injection Ern as <-. split; [reflexivity|lia]. }
      repeat split.
      * rewrite !zlen_cons. lia.
      * constructor; [lia|assumption].
      * intros i c Hi Hw. destruct (Z.eq_dec i 0) as [->|Hne].
        -- rewrite nthz_cons_zero in *. injection Hi as <-. destruct Hv as [-> _]. rewrite Hw. reflexivity.
        -- pose proof (nthz_range _ _ _ Hi). replace i with (i - 1 + 1) in * by lia.
           rewrite nthz_cons_succ in Hi by lia. rewrite nthz_cons_succ by lia. now apply Hfix.
      * cbn [zsum fixed_sum snd]. rewrite Hs. destruct Hv as [-> _]. lia.
    + (* a weighted item with a positive weight *)
      assert (Hk : is_weight (k, h) = true /\ 1 <= h).
      { unfold rn_of, is_weight in *. cbn [fst snd] in *. destruct k; try discriminate.
        destruct (h =? 0) eqn:E; [discriminate|]. split; [reflexivity|lia]. }
      destruct Hk as [Hkw Hh].
      set (W := weight_sum (@cons col (k, h) r)).
      assert (HWr : W = h + weight_sum r) by (subst W; cbn [weight_sum snd]; rewrite Hkw; reflexivity).
      clearbody W.
      destruct (W =? 0) eqn:E0; [lia|].
      pose proof (rhu_le_rem rem h W Hrem ltac:(lia)) as Hshare.
      set (rows0 := round_half_up_div (rem * h) W) in *.
      destruct (IH (rem - rows0) (W - h) Hr ltac:(lia) ltac:(lia)) as [rows [Hp [Hl [Hnn [Hfix Hs]]]]].
      rewrite Hp. cbn [bind]. exists (rows0 :: rows). repeat split.
      * rewrite !zlen_cons. lia.
      * constructor; [lia|assumption].
      * intros i c Hi Hw. destruct (Z.eq_dec i 0) as [->|Hne].
        -- rewrite nthz_cons_zero in Hi. injection Hi as <-. congruence.
        -- pose proof (nthz_range _ _ _ Hi). replace i with (i - 1 + 1) in * by lia.
           rewrite nthz_cons_succ in Hi by lia. rewrite nthz_cons_succ by lia. now apply Hfix.
      * cbn [zsum fixed_sum snd]. rewrite Hkw, Hs.
        destruct (W - h =? 0) eqn:E1; [|lia].
        assert (W = h) by lia. subst rows0. rewrite H. rewrite rhu_all by lia. lia.
Qed.

Section PileClauses.
Variables (items : list col) (maxrow : Z) (rows : list Z).
Hypothesis Hok : Forall pitem_ok items.
Hypothesis Hrun : pile_item_rows items maxrow = Ok rows.

Lemma pile_run :
  weight_sum items <> 0 /\
  zlen rows = zlen items /\ Forall (fun x => 0 <= x) rows /\
  (forall i c, nthz items i = Some c -> is_weight c = false -> nthz rows i = Some (snd c)) /\
  zsum rows = fixed_sum items + Z.max (maxrow - fixed_sum items) 0.
Proof.
  unfold pile_item_rows in Hrun. rewrite pile_pass1_spec in Hrun.
  replace (0 + weight_sum items) with (weight_sum items) in Hrun by lia.
  destruct (weight_sum items =? 0) eqn:E; [discriminate|].
  destruct (pile_pass2_spec items (Z.max (maxrow - fixed_sum items) 0) (weight_sum items) Hok ltac:(lia) eq_refl)
    as [rows' [Hp [Hl [Hnn [Hfix Hs]]]]].
  rewrite Hp in Hrun. injection Hrun as <-. rewrite E in Hs. repeat split; try assumption. lia.
Qed.

Lemma rows_length : zlen rows = zlen items.
Proof. apply pile_run. Qed.

Lemma rows_nonneg : Forall (fun x => 0 <= x) rows.
Proof. apply pile_run. Qed.

Lemma rows_given_own i c : nthz items i = Some c -> is_weight c = false -> nthz rows i = Some (snd c).
Proof. apply pile_run. Qed.

(* the rows fill the pile exactly when the given/packed items fit *)
Lemma rows_sum : fixed_sum items <= maxrow -> zsum rows = maxrow.
Proof. intros H. destruct pile_run as [_ [_ [_ [_ Hs]]]]. lia. Qed.

(* otherwise the weighted items get nothing and the pile overflows by the excess *)
Lemma rows_sum_overflow : maxrow <= fixed_sum items -> zsum rows = fixed_sum items.
Proof. intros H. destruct pile_run as [_ [_ [_ [_ Hs]]]]. lia. Qed.
End PileClauses.

(* ------------------------------------------------------------------ *)
(* GridFlow                                                            *)

Fixpoint cells_tagged (maxcol : Z) (cells : list Z) (i : Z) : list (Z * Z) :=
  match cells with [] => [] | w :: r => (i, Z.min w maxcol) :: cells_tagged maxcol r (i + 1) end.

Definition row_need (hsep : Z) (row : list (Z * Z)) : Z := zsum (map snd row) + hsep * (zlen row - 1).
Definition row_good (maxcol hsep : Z) (row : list (Z * Z)) : Prop :=
  row <> [] /\ row_need hsep row <= maxcol.

Lemma zsum_rev l : zsum (rev l) = zsum l.
Proof. apply zsum_perm. apply Permutation_sym, Permutation_rev. Qed.

Lemma row_need_rev hsep row : row_need hsep (rev row) = row_need hsep row.
Proof. unfold row_need. rewrite map_rev, zsum_rev, zlen_rev. reflexivity. Qed.

Lemma gf_loop_concat maxcol hsep cells : forall i started cur rows_rev,
  (started = false -> cur = []) ->
  concat (gf_loop maxcol hsep cells i started cur rows_rev) =
    concat (rev rows_rev) ++ rev cur ++ cells_tagged maxcol cells i.
Proof.
  induction cells as [|wa r IH]; intros i started cur rows_rev Hs; cbn [gf_loop cells_tagged].
  - destruct started.
    + cbn [rev]. rewrite concat_app. cbn [concat]. rewrite !app_nil_r. reflexivity.
    + rewrite (Hs eq_refl). cbn [rev app]. rewrite !app_nil_r. reflexivity.
  - rewrite IH by discriminate.
    destruct (negb started || (maxcol - row_used hsep cur <? wa)) eqn:En; cbn [andb].
    + destruct started; cbn [rev app].
      * rewrite concat_app. cbn [concat]. rewrite app_nil_r, <- !app_assoc. reflexivity.
      * rewrite (Hs eq_refl). cbn [rev app]. reflexivity.
    + cbn [rev]. rewrite <- !app_assoc. reflexivity.
Qed.

Lemma gf_loop_good maxcol hsep cells : forall i started cur rows_rev,
  (started = false -> cur = []) -> (started = true -> row_good maxcol hsep cur) ->
  Forall (row_good maxcol hsep) rows_rev ->
  Forall (row_good maxcol hsep) (gf_loop maxcol hsep cells i started cur rows_rev).
Proof.
  induction cells as [|wa r IH]; intros i started cur rows_rev Hs Hc Hrows; cbn [gf_loop].
  - apply Forall_rev. destruct started; [|assumption]. constructor; [|assumption].
    destruct (Hc eq_refl) as [Hne Hn]. split.
    + intros E. apply Hne. rewrite <- (rev_involutive cur), E. reflexivity.
    + now rewrite row_need_rev.
  - destruct (negb started || (maxcol - row_used hsep cur <? wa)) eqn:En; cbn [andb].
    + apply IH; try discriminate.
      * intros _. split; [discriminate|]. unfold row_need. cbn [map snd zsum]. rewrite zlen_cons. znil. lia.
      * destruct started; [|assumption]. constructor; [|assumption].
        destruct (Hc eq_refl) as [Hne Hn]. split.
        -- intros E. apply Hne. rewrite <- (rev_involutive cur), E. reflexivity.
        -- now rewrite row_need_rev.
    + apply IH; try discriminate; [|assumption].
      intros _. split; [discriminate|].
      destruct started; [|discriminate]. cbn [negb orb] in En.
      unfold row_need, row_used in *. cbn [map snd zsum]. rewrite zlen_cons. lia.
Qed.

Lemma grid_rows_concat maxcol hsep cells :
  concat (gridflow_rows maxcol hsep cells) = cells_tagged maxcol cells 0.
Proof. unfold gridflow_rows. rewrite gf_loop_concat by reflexivity. reflexivity. Qed.

Lemma grid_row_fits maxcol hsep cells :
  Forall (row_good maxcol hsep) (gridflow_rows maxcol hsep cells).
Proof. unfold gridflow_rows. apply gf_loop_good; [reflexivity|discriminate|constructor]. Qed.

(* ------------------------------------------------------------------ *)
(* Padding / Filler / Overlay                                          *)

(* the width the Padding asks for its child, box/flow render of maxcol columns *)
Definition padding_requested (c : padcfg) (maxcol : Z) (pack_fixed : Z) (pack_flow : Z -> Z) : Z :=
  match p_wt c with
  | WClip => pack_fixed
  | WPack => pack_flow (Z.max (maxcol - p_left c - p_right c) (opt_or (p_minw c) 0))
  | wt => clrp_width maxcol wt (p_wa c) (p_minw c) (p_left c) (p_right c)
  end.

Lemma padding_values_child c maxcol pf pack_flow l r :
  p_wt c <> WClip ->
  padding_values c (Some maxcol) pf pack_flow = Ok (l, r) ->
  0 <= l /\ 0 <= r /\
  padding_child_cols maxcol (l, r) = Z.min (padding_requested c maxcol pf pack_flow) maxcol.
Proof.
  intros Hc. unfold padding_values, padding_requested, padding_child_cols. cbn [fst snd].
  destruct (p_wt c) eqn:Ew; try congruence; intros H; injection H as H;
  match type of H with
  | calculate_left_right_padding ?m ?a ?aa ?wt ?wa ?mw ?le ?ri = _ =>
      pose proof (clrp_child m a aa wt wa mw le ri ltac:(discriminate)) as Hch; cbv zeta in Hch; rewrite H in Hch
  end; unfold clrp_width in *; intuition lia.
Qed.

Lemma padding_values_clip c maxcol pf pack_flow l r :
  p_wt c = WClip ->
  padding_values c (Some maxcol) pf pack_flow = Ok (l, r) -> l + pf + r = maxcol.
Proof.
  intros Hc. unfold padding_values. rewrite Hc. intros H. injection H as H.
  pose proof (clrp_clip_exact maxcol (p_at c) (p_aa c) pf None (p_left c) (p_right c)) as Hx.
  rewrite H in Hx. exact Hx.
Qed.

Lemma padding_values_fits c maxcol pf pack_flow l r :
  padding_values c (Some maxcol) pf pack_flow = Ok (l, r) ->
  let W := padding_requested c maxcol pf pack_flow in
  let A := align_pct (p_at c) (p_aa c) in
  0 <= A <= 100 -> 0 <= p_left c -> 0 <= p_right c -> 0 <= W -> p_left c + W + p_right c <= maxcol ->
  l + W + r = maxcol /\ p_left c <= l /\ p_right c <= r /\
  -100 <= 200 * (l - p_left c) - 2 * A * (maxcol - W - p_left c - p_right c) <= 100.
Proof.
  unfold padding_values, padding_requested.
  destruct (p_wt c) eqn:Ew; intros H; injection H as H; cbv zeta; intros HA Hl Hr HW Hfit;
  match type of H with
  | calculate_left_right_padding ?m ?a ?aa ?wt ?wa ?mw ?le ?ri = _ =>
      pose proof (clrp_fits m a aa wt wa mw le ri) as Hf; cbv zeta in Hf; unfold clrp_width in Hf;
      specialize (Hf HA Hl Hr HW Hfit); rewrite H in Hf; exact Hf
  end.
Qed.

(* the height the Filler asks for its child *)
Definition filler_requested (c : fillcfg) (maxrow child_rows : Z) : Z :=
  match f_ht c with
  | WPack => child_rows
  | ht => ctbf_height maxrow ht (f_ha c) (f_minh c) (f_top c) (f_bottom c)
  end.

Lemma filler_values_child c maxrow child_rows t b :
  filler_values c (Some maxrow) child_rows = Ok (t, b) ->
  0 <= t /\ 0 <= b /\ maxrow - t - b = Z.min (filler_requested c maxrow child_rows) maxrow.
Proof.
  unfold filler_values, filler_requested.
  destruct (f_ht c) eqn:Eh; intros H; injection H as H;
  match type of H with
  | calculate_top_bottom_filler ?m ?a ?aa ?ht ?ha ?mh ?to ?bo = _ =>
      pose proof (ctbf_child m a aa ht ha mh to bo) as Hch; cbv zeta in Hch; rewrite H in Hch
  end; unfold ctbf_height in *; exact Hch.
Qed.

Lemma filler_values_fits c maxrow child_rows t b :
  filler_values c (Some maxrow) child_rows = Ok (t, b) ->
  let H := filler_requested c maxrow child_rows in
  let A := valign_pct (f_vt c) (f_va c) in
  0 <= A <= 100 -> 0 <= f_top c -> 0 <= f_bottom c -> 0 <= H -> f_top c + H + f_bottom c <= maxrow ->
  t + H + b = maxrow /\ f_top c <= t /\ f_bottom c <= b /\
  -100 <= 200 * (t - f_top c) - 2 * A * (maxrow - H - f_top c - f_bottom c) <= 100.
Proof.
  unfold filler_values, filler_requested.
  destruct (f_ht c) eqn:Eh; intros H; injection H as H; cbv zeta; intros HA Ht Hb HH Hfit;
  match type of H with
  | calculate_top_bottom_filler ?m ?a ?aa ?ht ?ha ?mh ?to ?bo = _ =>
      pose proof (ctbf_fits m a aa ht ha mh to bo) as Hf; cbv zeta in Hf; unfold ctbf_height in Hf;
      specialize (Hf HA Ht Hb HH Hfit); rewrite H in Hf; exact Hf
  end.
Qed.

(* Overlay: what top_w is handed, in its three modes *)
Lemma overlay_fixed c maxcol maxrow pw ph (fr : Z -> Z) l r t b :
  p_wt (o_pad c) = WPack ->
  overlay_padding_filler c maxcol maxrow pw ph fr = Ok (l, r, t, b) ->
  overlay_top_w_size c maxcol maxrow l r t b = [] /\
  l + pw + r = maxcol /\ t + ph + b = maxrow /\ 0 <= t.
Proof.
  intros Hw. unfold overlay_padding_filler, overlay_top_w_size. rewrite Hw.
  destruct (ph =? 0) eqn:E; cbn [andb]; [discriminate|].
  pose proof (clrp_clip_exact maxcol (p_at (o_pad c)) (p_aa (o_pad c)) pw None (p_left (o_pad c)) (p_right (o_pad c))) as Hx.
  destruct (calculate_left_right_padding _ _ _ WClip pw None _ _) as [l0 r0].
  pose proof (ctbf_child maxrow (f_vt (o_fill c)) (f_va (o_fill c)) WGiven ph None (f_top (o_fill c)) (f_bottom (o_fill c))) as Hy.
  cbv zeta in Hy. unfold ctbf_height in Hy.
  destruct (calculate_top_bottom_filler _ _ _ WGiven ph None _ _) as [t0 b0].
  destruct (maxrow - t0 - b0 <? ph) eqn:E2; intros H; injection H as <- <- <- <-; repeat split; lia.
Qed.

Lemma overlay_flow c maxcol maxrow pw ph (fr : Z -> Z) l r t b :
  p_wt (o_pad c) <> WPack -> p_wt (o_pad c) <> WClip -> f_ht (o_fill c) = WPack ->
  overlay_padding_filler c maxcol maxrow pw ph fr = Ok (l, r, t, b) ->
  let W := clrp_width maxcol (p_wt (o_pad c)) (p_wa (o_pad c)) (p_minw (o_pad c)) (p_left (o_pad c)) (p_right (o_pad c)) in
  overlay_top_w_size c maxcol maxrow l r t b = [Z.min W maxcol] /\
  0 <= l /\ 0 <= r /\ 0 <= t /\
  (* the rows are asked at the width top_w is rendered with, and margins + rows fill maxrow *)
  t + fr (maxcol - l - r) + b = maxrow.
Proof.
  intros Hw Hc Hh. unfold overlay_padding_filler, overlay_top_w_size. rewrite Hh.
  pose proof (clrp_child maxcol (p_at (o_pad c)) (p_aa (o_pad c)) (p_wt (o_pad c)) (p_wa (o_pad c)) (p_minw (o_pad c))
                (p_left (o_pad c)) (p_right (o_pad c)) Hc) as Hx. cbv zeta in Hx.
  destruct (p_wt (o_pad c)) eqn:Ew; try congruence; cbn [andb];
  destruct (calculate_left_right_padding _ _ _ _ _ _ _ _) as [l0 r0];
  cbv zeta; remember (fr (maxcol - l0 - r0)) as h eqn:Eh;
  pose proof (ctbf_child maxrow (f_vt (o_fill c)) (f_va (o_fill c)) WGiven h None (f_top (o_fill c)) (f_bottom (o_fill c))) as Hy;
  cbv zeta in Hy; unfold ctbf_height in Hy;
  destruct (calculate_top_bottom_filler _ _ _ WGiven h None _ _) as [t0 b0];
  destruct (maxrow <? h) eqn:E2; intros H; injection H as <- <- <- <-; rewrite <- Eh;
  (split; [f_equal; lia|repeat split; lia]).
Qed.
Lemma overlay_box c maxcol maxrow pw ph (fr : Z -> Z) l r t b :
  p_wt (o_pad c) <> WPack -> p_wt (o_pad c) <> WClip -> f_ht (o_fill c) <> WPack ->
  overlay_padding_filler c maxcol maxrow pw ph fr = Ok (l, r, t, b) ->
  let W := clrp_width maxcol (p_wt (o_pad c)) (p_wa (o_pad c)) (p_minw (o_pad c)) (p_left (o_pad c)) (p_right (o_pad c)) in
  let H := ctbf_height maxrow (f_ht (o_fill c)) (f_ha (o_fill c)) (f_minh (o_fill c)) (f_top (o_fill c)) (f_bottom (o_fill c)) in
  overlay_top_w_size c maxcol maxrow l r t b = [Z.min W maxcol; Z.min H maxrow] /\
  0 <= l /\ 0 <= r /\ 0 <= t /\ 0 <= b.
Proof.
  intros Hw Hc Hh. unfold overlay_padding_filler, overlay_top_w_size.
  pose proof (clrp_child maxcol (p_at (o_pad c)) (p_aa (o_pad c)) (p_wt (o_pad c)) (p_wa (o_pad c)) (p_minw (o_pad c))
                (p_left (o_pad c)) (p_right (o_pad c)) Hc) as Hx. cbv zeta in Hx.
  pose proof (ctbf_child maxrow (f_vt (o_fill c)) (f_va (o_fill c)) (f_ht (o_fill c)) (f_ha (o_fill c)) (f_minh (o_fill c))
                (f_top (o_fill c)) (f_bottom (o_fill c))) as Hy. cbv zeta in Hy.
  destruct (p_wt (o_pad c)) eqn:Ew; try congruence; cbn [andb];
  destruct (calculate_left_right_padding _ _ _ _ _ _ _ _) as [l0 r0];
  destruct (f_ht (o_fill c)) eqn:Eh; try congruence;
  destruct (calculate_top_bottom_filler _ _ _ _ _ _ _ _) as [t0 b0];
  intros H; injection H as <- <- <- <-; cbv zeta;
  (split; [f_equal; [lia|f_equal; lia]|repeat split; lia]).
Qed.
