(* C12 - proofs about Model/MainLoop.v: the interpreter refines the specification lists of
   MainLoopSpec.v cut at the first fault; the outcome of run() is determined by that fault;
   the terminal is restored on every path. *)
From Coq Require Import ZArith List Bool Lia.
Import ListNotations.
From Urwid Require Import PyBase MainLoop MainLoopSpec.
Open Scope Z_scope.
Arguments Z.add : simpl never.
Arguments Z.eqb : simpl never.

(* ---------- cut / ncb / first_fault ---------- *)
Lemma ncb_app l1 l2 : ncb (l1 ++ l2) = ncb l1 + ncb l2.
Proof. induction l1; cbn [ncb app]; lia. Qed.

Lemma ncb_nonneg l : 0 <= ncb l.
Proof. induction l; cbn [ncb]; [lia|destruct (is_cb a); lia]. Qed.

Lemma cut_app P L1 : forall i L2,
  cut P i (L1 ++ L2) =
  match snd (cut P i L1) with
  | Some f => cut P i L1
  | None => (fst (cut P i L1) ++ fst (cut P (i + ncb (fst (cut P i L1))) L2),
             snd (cut P (i + ncb (fst (cut P i L1))) L2))
  end.
Proof.
  induction L1 as [|a L1 IH]; intros i L2; cbn [app cut fst snd ncb].
  - rewrite Z.add_0_r. destruct (cut P i L2); reflexivity.
  - destruct (is_cb a) eqn:Ea.
    + destruct (P i) eqn:Ep; cbn [fst snd]; [reflexivity|].
      rewrite IH. destruct (snd (cut P (i + 1) L1)) eqn:E1; cbn [fst snd ncb].
      * destruct (cut P (i + 1) L1); cbn [fst snd] in *; subst; reflexivity.
      * rewrite Ea. replace (i + (1 + ncb (fst (cut P (i + 1) L1)))) with (i + 1 + ncb (fst (cut P (i + 1) L1))) by lia.
        reflexivity.
    + rewrite IH. destruct (snd (cut P i L1)) eqn:E1; cbn [fst snd ncb].
      * destruct (cut P i L1); cbn [fst snd] in *; subst; reflexivity.
      * rewrite Ea. rewrite Z.add_0_l. reflexivity.
Qed.

Lemma cut_nofault_all P L : forall i, snd (cut P i L) = None -> fst (cut P i L) = L.
Proof.
  induction L as [|a L IH]; intros i H; cbn [cut fst snd] in *; [reflexivity|].
  destruct (is_cb a).
  - destruct (P i); cbn [fst snd] in *; [discriminate|]. f_equal. apply IH; exact H.
  - cbn [fst snd] in *. f_equal. apply IH; exact H.
Qed.

(* the list kept by [cut] is a prefix of the specification list *)
Lemma cut_prefix P L : forall i, exists rest, L = fst (cut P i L) ++ rest.
Proof.
  induction L as [|a L IH]; intros i; cbn [cut fst].
  - exists []; reflexivity.
  - destruct (is_cb a).
    + destruct (P i); cbn [fst].
      * exists L; reflexivity.
      * destruct (IH (i + 1)) as [r Hr]. exists r. cbn [app]. f_equal. exact Hr.
    + cbn [fst]. destruct (IH i) as [r Hr]. exists r. cbn [app]. f_equal. exact Hr.
Qed.

(* the fault found by [cut] is the first planned fault among the callback indices of the list;
   when there is one, the kept list ends with exactly that invocation *)
Lemma cut_first_fault P L : forall i,
  match first_fault P i (Z.to_nat (ncb L)) with
  | None => snd (cut P i L) = None
  | Some (j, f) => snd (cut P i L) = Some f /\ i + ncb (fst (cut P i L)) = j + 1
  end.
Proof.
  induction L as [|a L IH]; intros i; cbn [ncb cut fst snd].
  - reflexivity.
  - pose proof (ncb_nonneg L) as Hn. destruct (is_cb a) eqn:Ea.
    + replace (Z.to_nat (1 + ncb L)) with (S (Z.to_nat (ncb L))) by lia.
      cbn [first_fault]. destruct (P i) eqn:Ep; cbn [fst snd ncb].
      * rewrite Ea. split; [reflexivity|lia].
      * specialize (IH (i + 1)). destruct (first_fault P (i + 1) (Z.to_nat (ncb L))) as [[j f]|].
        -- rewrite Ea. destruct IH as [H1 H2]. split; [exact H1|lia].
        -- exact IH.
    + rewrite Z.add_0_l. specialize (IH i). cbn [fst snd ncb]. rewrite Ea.
      destruct (first_fault P i (Z.to_nat (ncb L))) as [[j f]|]; [|exact IH].
      destruct IH as [H1 H2]. split; [exact H1|lia].
Qed.

Lemma first_fault_none_before P k : forall i j f,
  first_fault P i k = Some (j, f) -> P j = Some f /\ i <= j /\ forall x, i <= x < j -> P x = None.
Proof.
  induction k as [|k IH]; intros i j f H; cbn [first_fault] in H; [discriminate|].
  destruct (P i) eqn:Ep.
  - inversion H; subst. split; [exact Ep|]. split; [lia|]. intros; lia.
  - destruct (IH _ _ _ H) as (H1 & H2 & H3). split; [exact H1|]. split; [lia|].
    intros x Hx. destruct (Z.eq_dec x i); [subst; exact Ep|apply H3; lia].
Qed.

(* ---------- the trace projection ---------- *)
Lemma acts_cons t s n' sc' tm' a b d e f g h i j k l :
  acts (St n' (t :: tr s) sc' tm' a b d e f g h i j k l) = acts s ++ (if is_act t then [t] else []).
Proof.
  unfold acts. cbn [tr rev]. rewrite filter_app. cbn [filter]. destruct (is_act t); reflexivity.
Qed.

Section WithConfig.
Variable c : config.
Variable p : list (Z * fault).
Variable kidle : nat.              (* how many MainLoop.entering_idle callbacks the event loop holds *)
Notation P := (plan_at p).

(* PopUpTarget's bookkeeping is consistent: it remembers a pop-up widget only while its current widget
   is the Overlay built for it, and it has an Overlay only under pop_ups=True *)
Definition pinv (s : st) : Prop :=
  (t_pop s = true -> t_overlay s = true) /\ (t_overlay s = true -> c_pop_ups c = true).

(* what the operations inside the loop leave alone: the Screen object and every terminal mode
   except cursor visibility (which stop() forces anyway); a plain screen writes no mode at all;
   the pop-up bookkeeping stays consistent *)
Definition Keeps (s s' : st) : Prop :=
  scr s' = scr s /\ set_mode 25 true (tm s') = set_mode 25 true (tm s) /\ (c_hook c = false -> tm s' = tm s) /\
  (pinv s -> pinv s') /\ idle_reg s' = idle_reg s /\ connected s' = connected s.

Lemma Keeps_refl s : Keeps s s.
Proof. unfold Keeps. split; [reflexivity|split; [reflexivity|split; [intros; reflexivity|split; [intros H; exact H|split; reflexivity]]]]. Qed.
Lemma Keeps_trans a b d : Keeps a b -> Keeps b d -> Keeps a d.
Proof.
  intros (A1 & A2 & A3 & A4 & A5 & A6) (B1 & B2 & B3 & B4 & B5 & B6). unfold Keeps.
  split; [congruence|split; [congruence|split; [|split; [intros H; apply B4; apply A4; exact H|split; congruence]]]].
  intros H. rewrite (B3 H). apply A3. exact H.
Qed.
Ltac keeps_triv := unfold Keeps, pinv; cbn [scr tm t_pop t_overlay idle_reg connected]; repeat split; try (intros; reflexivity); try tauto.

Definition outcome {A} (r0 : res A) (o : option fault) : res A :=
  match o with None => r0 | Some f => RErr (exn_of f) end.

(* [SemA Pre m L r0 Post]: from any state with a started screen, consistent pop-up bookkeeping and
   [Pre], [m] performs the actions of [L] cut at the first planned fault, numbering the callbacks from
   the current index; its result is [r0] when no fault was hit (and then [Post] holds) and exactly the
   planned exception otherwise. *)
Definition SemA {A} (Pre : st -> Prop) (m : M A) (L : list tev) (r0 : res A) (Post : st -> Prop) : Prop :=
  forall s, s_started (scr s) = true -> pinv s -> idle_reg s = kidle -> Pre s ->
    Keeps s (snd (m s)) /\
    acts (snd (m s)) = acts s ++ fst (cut P (n s) L) /\
    n (snd (m s)) = n s + ncb (fst (cut P (n s) L)) /\
    fst (m s) = outcome r0 (snd (cut P (n s) L)) /\
    (snd (cut P (n s) L) = None -> Post (snd (m s))).
(* the ghost state the specification lists depend on: pending alarms, is the launcher's pop-up open *)
Definition G (al : list alarm) (o : bool) (s : st) : Prop := alarms s = al /\ l_pop s = o.
(* returns [v]; pop-up open before: [o], after: [o'] *)
Definition SemO {A} (o : bool) (m : M A) (L : list tev) (v : A) (o' : bool) : Prop :=
  forall al, SemA (G al o) m L (ROk v) (G al o').
(* the common case: leaves alarms and pop-up alone *)
Definition Sem {A} (m : M A) (L : list tev) (v : A) : Prop := forall o, SemO o m L v o.

Lemma SemA_bind {A B} Pre (m : M A) (f : A -> M B) L1 L2 v r Q1 Q2 :
  SemA Pre m L1 (ROk v) Q1 -> SemA Q1 (f v) L2 r Q2 -> SemA Pre (bindM m f) (L1 ++ L2) r Q2.
Proof.
  intros Hm Hf s Hs Hp Hk Ha. destruct (Hm s Hs Hp Hk Ha) as (K1 & A1 & N1 & R1 & Q1').
  unfold bindM. rewrite cut_app.
  destruct (m s) as [r1 s1] eqn:E. cbn [fst snd] in *.
  destruct (snd (cut P (n s) L1)) as [ft|] eqn:C1; cbn [outcome] in R1; subst r1.
  - cbn [fst snd]. split; [exact K1|split; [exact A1|split; [exact N1|split; [rewrite C1; reflexivity|]]]].
    rewrite C1. discriminate.
  - assert (Hs1 : s_started (scr s1) = true) by (destruct K1 as [K _]; rewrite K; exact Hs).
    assert (Hp1 : pinv s1) by (apply K1; exact Hp).
    assert (Hk1 : idle_reg s1 = kidle) by (destruct K1 as (_ & _ & _ & _ & K5 & _); rewrite K5; exact Hk).
    destruct (Hf s1 Hs1 Hp1 Hk1 (Q1' eq_refl)) as (K2 & A2 & N2 & R2 & Q2'). rewrite N1 in *.
    destruct (f v s1) as [r2 s2]. cbn [fst snd] in *.
    split; [eapply Keeps_trans; eassumption|].
    split; [rewrite A2, A1, app_assoc; reflexivity|].
    split; [rewrite N2, ncb_app; lia|]. split; [exact R2|exact Q2'].
Qed.

Lemma SemA_weaken {A} (Pre Pre' : st -> Prop) (m : M A) L r Q :
  (forall s, Pre' s -> Pre s) -> SemA Pre m L r Q -> SemA Pre' m L r Q.
Proof. intros H Hm s Hs Hp Hk Ha. apply Hm; auto. Qed.

Lemma SemA_post {A} (Pre : st -> Prop) (m : M A) L r (Q Q' : st -> Prop) :
  (forall s, Q s -> Q' s) -> SemA Pre m L r Q -> SemA Pre m L r Q'.
Proof.
  intros H Hm s Hs Hp Hk Ha. destruct (Hm s Hs Hp Hk Ha) as (K & A1 & N1 & R1 & Q1).
  split; [exact K|split; [exact A1|split; [exact N1|split; [exact R1|intros C; apply H; apply Q1; exact C]]]].
Qed.

Lemma SemO_bind {A B} o o1 o2 (m : M A) (f : A -> M B) L1 L2 v w :
  SemO o m L1 v o1 -> SemO o1 (f v) L2 w o2 -> SemO o (bindM m f) (L1 ++ L2) w o2.
Proof. intros Hm Hf al. eapply SemA_bind; [apply Hm|apply Hf]. Qed.

Lemma Sem_bind {A B} (m : M A) (f : A -> M B) L1 L2 v w :
  Sem m L1 v -> Sem (f v) L2 w -> Sem (bindM m f) (L1 ++ L2) w.
Proof. intros Hm Hf o. eapply SemO_bind; [apply Hm|apply Hf]. Qed.

(* a step that leaves the ghost state alone, followed by anything *)
Lemma SemA_step {A B} al o (m : M A) (f : A -> M B) L1 L2 v r Q :
  Sem m L1 v -> SemA (G al o) (f v) L2 r Q -> SemA (G al o) (bindM m f) (L1 ++ L2) r Q.
Proof. intros Hm Hf. eapply SemA_bind; [apply Hm|exact Hf]. Qed.

Lemma SemO_step {A B} o o2 (m : M A) (f : A -> M B) L1 L2 v w :
  Sem m L1 v -> SemO o (f v) L2 w o2 -> SemO o (bindM m f) (L1 ++ L2) w o2.
Proof. intros Hm Hf. eapply SemO_bind; [apply Hm|exact Hf]. Qed.

Lemma Sem_SemO {A} o (m : M A) L v : Sem m L v -> SemO o m L v o.
Proof. intros H; apply H. Qed.

(* a state update that touches nothing the framework looks at *)
Lemma SemA_quiet {A} (Pre Post : st -> Prop) (m : M A) (v : A) :
  (forall s, fst (m s) = ROk v /\ n (snd (m s)) = n s /\ acts (snd (m s)) = acts s /\ Keeps s (snd (m s))) ->
  (forall s, Pre s -> Post (snd (m s))) ->
  SemA Pre m [] (ROk v) Post.
Proof.
  intros H HQ s Hs Hp Hk Ha. destruct (H s) as (R & N & A1 & K).
  cbn [cut fst snd ncb outcome]. rewrite app_nil_r, Z.add_0_r.
  split; [exact K|split; [exact A1|split; [exact N|split; [exact R|intros _; apply HQ; exact Ha]]]].
Qed.

Lemma Sem_ret {A} (v : A) : Sem (ret v) [] v.
Proof.
  intros o al. apply SemA_quiet; [|intros s H; exact H].
  intros s. cbn [ret fst snd]. split; [reflexivity|split; [reflexivity|split; [reflexivity|apply Keeps_refl]]].
Qed.

Lemma Sem_seq {A} (m : M unit) (k : M A) L1 L2 w :
  Sem m L1 tt -> Sem k L2 w -> Sem (bindM m (fun _ => k)) (L1 ++ L2) w.
Proof. intros; eapply Sem_bind; eassumption. Qed.

Lemma SemA_get {A B} Pre (g : st -> A) (k : A -> M B) L r Q :
  (forall x, SemA (fun s => Pre s /\ g s = x) (k x) L r Q) -> SemA Pre (bindM (get g) k) L r Q.
Proof. intros H s Hs Hp Hk Ha. unfold bindM, get. apply (H (g s)); auto. Qed.

Lemma Sem_get {A B} (g : st -> A) (k : A -> M B) L w :
  (forall x, Sem (k x) L w) -> Sem (bindM (get g) k) L w.
Proof. intros H o al s Hs Hp Hk Ha. unfold bindM, get. apply H; assumption. Qed.

Lemma SemO_get {A B} o o' (g : st -> A) (k : A -> M B) L w :
  (forall x, SemO o (k x) L w o') -> SemO o (bindM (get g) k) L w o'.
Proof. intros H al s Hs Hp Hk Ha. unfold bindM, get. apply H; assumption. Qed.

Lemma Sem_cb t : is_cb t = true -> Sem (cb p t) [t] tt.
Proof.
  intros Ht o al s Hs Hp Hk Ha. unfold cb. cbn [cut]. rewrite Ht.
  assert (Hact : is_act t = true) by (unfold is_act; rewrite Ht; reflexivity).
  destruct (P (n s)) eqn:Ep; cbn [fst snd ncb outcome]; rewrite ?acts_cons, ?Hact, ?Ht;
    (split; [keeps_triv|split; [reflexivity|split; [cbn [n]; lia|split; [reflexivity|]]]]).
  - discriminate.
  - intros _. exact Ha.
Qed.

Lemma Sem_emit_silent t : is_act t = false -> Sem (emit t) [] tt.
Proof.
  intros Ht o al. apply SemA_quiet; [|intros s H; exact H].
  intros s. unfold emit. cbn [fst snd n]. rewrite acts_cons, Ht, app_nil_r.
  split; [reflexivity|split; [reflexivity|split; [reflexivity|keeps_triv]]].
Qed.

Lemma Sem_emit_draw : Sem (emit TDraw) [TDraw] tt.
Proof.
  intros o al s Hs Hp Hk Ha. unfold emit. cbn [fst snd cut ncb outcome is_cb]. rewrite acts_cons. cbn [is_act is_cb orb].
  split; [keeps_triv|split; [reflexivity|split; [cbn [n]; lia|split; [reflexivity|]]]].
  intros _. exact Ha.
Qed.

Ltac quiet_setter := intros o al; apply SemA_quiet;
  [intros s; cbn [fst snd]; split; [reflexivity|split; [reflexivity|split; [reflexivity|keeps_triv]]]|intros s H; exact H].

Lemma Sem_set_size_known b : Sem (set_size_known b) [] tt.
Proof. unfold set_size_known. quiet_setter. Qed.
Lemma Sem_set_hooked b : Sem (set_hooked b) [] tt.
Proof. unfold set_hooked. quiet_setter. Qed.
Lemma Sem_set_wstate v : Sem (set_wstate v) [] tt.
Proof. unfold set_wstate. quiet_setter. Qed.
Lemma Sem_set_buf_ok b : Sem (set_buf_ok b) [] tt.
Proof. unfold set_buf_ok. quiet_setter. Qed.
Lemma Sem_set_buf_canvas oc : Sem (set_buf_canvas oc) [] tt.
Proof. unfold set_buf_canvas. quiet_setter. Qed.

Lemma SemA_set_alarms al o l : SemA (G al o) (set_alarms l) [] (ROk tt) (G l o).
Proof.
  apply SemA_quiet.
  - intros s. unfold set_alarms. cbn [fst snd]. split; [reflexivity|split; [reflexivity|split; [reflexivity|keeps_triv]]].
  - intros s [_ Ho]. unfold set_alarms, G. cbn [snd alarms l_pop]. split; [reflexivity|exact Ho].
Qed.
Lemma SemA_get_alarms {B} al o (k : list alarm -> M B) L r Q :
  SemA (G al o) (k al) L r Q -> SemA (G al o) (bindM (get alarms) k) L r Q.
Proof. intros H s Hs Hp Hk Ha. unfold bindM, get. destruct Ha as [Ha Ho]. rewrite Ha. apply H; [assumption|assumption|assumption|split; assumption]. Qed.

(* the launcher opens / closes its pop-up *)
Lemma SemO_set_l_pop o b : SemO o (set_l_pop b) [] tt b.
Proof.
  intros al. apply SemA_quiet.
  - intros s. unfold set_l_pop. cbn [fst snd]. split; [reflexivity|split; [reflexivity|split; [reflexivity|keeps_triv]]].
  - intros s [Ha _]. unfold set_l_pop, G. cbn [snd alarms l_pop]. split; [exact Ha|reflexivity].
Qed.

Lemma set_mode_cursor_idem b t : set_mode 25 true (set_mode 25 b t) = set_mode 25 true t.
Proof. reflexivity. Qed.

Lemma Sem_upd_cursor b : c_hook c = true -> Sem (upd_tm (set_mode 25 b)) [] tt.
Proof.
  intros Hh o al. apply SemA_quiet; [|intros s H; exact H].
  intros s. unfold upd_tm. cbn [fst snd]. split; [reflexivity|split; [reflexivity|split; [reflexivity|]]].
  unfold Keeps, pinv. cbn [scr tm t_pop t_overlay].
  split; [reflexivity|split; [apply set_mode_cursor_idem|split; [congruence|tauto]]].
Qed.

Lemma Sem_write_cursor b : c_hook c = true -> Sem (write_mode 25 b) [] tt.
Proof.
  intros Hh. unfold write_mode. change (@nil tev) with (@nil tev ++ []).
  apply Sem_seq; [apply Sem_emit_silent; reflexivity|apply Sem_upd_cursor; exact Hh].
Qed.

Lemma Sem_conv {A} (m : M A) L L' v : Sem m L v -> L = L' -> Sem m L' v.
Proof. intros H <-; exact H. Qed.
Lemma SemO_conv {A} o o' (m : M A) L L' v : SemO o m L v o' -> L = L' -> SemO o m L' v o'.
Proof. intros H <-; exact H. Qed.
Lemma SemA_conv {A} Pre (m : M A) L L' r Q : SemA Pre m L r Q -> L = L' -> SemA Pre m L' r Q.
Proof. intros H <-; exact H. Qed.

Lemma Sem_when (b : bool) (m : M unit) L : Sem m L tt -> Sem (if b then m else ret tt) (if b then L else []) tt.
Proof. destruct b; [auto|intros; apply Sem_ret]. Qed.

Hypothesis wf : wf_config c.
Lemma wf_mouse : c_pop_ups c = true -> w_has_mouse c = true.
Proof.
  intros H. unfold wf_config, wf_configb in wf. rewrite H in wf. cbn in wf.
  destruct (w_has_mouse c); [reflexivity|discriminate].
Qed.

(* ---------- the topmost widget ---------- *)
(* after PopUpTarget._update_overlay the Overlay is current exactly when the launcher's pop-up is open *)
Definition Synced (al : list alarm) (o : bool) (s : st) : Prop := G al o s /\ t_overlay s = pop_shown c o.

(* the part of _update_overlay after the render *)
Definition overlay_bookkeeping : M unit :=
  bindM (get l_pop) (fun lp =>
    if lp then
      bindM (get t_pop) (fun tp =>
        if tp then bindM (get t_overlay) (fun ov => if ov then ret tt else raise (PyErr 1))
        else bindM (set_t_pop true) (fun _ => set_t_overlay true))
    else bindM (set_t_pop false) (fun _ => set_t_overlay false)).

Lemma SemA_overlay_bookkeeping al o :
  c_pop_ups c = true -> SemA (G al o) overlay_bookkeeping [] (ROk tt) (Synced al o).
Proof.
  intros Epu s Hs Hp Hk Ha.
  destruct s as [n0 tr0 sc0 tm0 sk0 cn0 ir0 hk0 al0 ws0 bo0 bc0 lp0 tp0 ov0].
  unfold pinv, Synced, pop_shown, G in *. cbn [t_pop t_overlay alarms l_pop scr] in *. destruct Ha as [-> ->]. rewrite Epu.
  cbn [cut fst snd ncb outcome]. rewrite app_nil_r, Z.add_0_r.
  unfold overlay_bookkeeping, bindM, get, set_t_pop, set_t_overlay, ret, raise. cbn [l_pop t_pop t_overlay].
  destruct Hp as [Hp1 Hp2].
  destruct o; [destruct tp0; [rewrite (Hp1 eq_refl)|]|]; cbn;
    (split; [unfold Keeps, pinv; cbn [scr tm t_pop t_overlay idle_reg connected];
             split; [reflexivity|split; [reflexivity|split; [intros; reflexivity|split; [intros _; split; [auto|intros _; exact Epu]|split; reflexivity]]]]|]);
    (split; [reflexivity|split; [reflexivity|split; [reflexivity|intros _; cbn [alarms l_pop t_overlay]; auto]]]).
Qed.

Lemma SemA_update_overlay al o :
  SemA (G al o) (update_overlay c p) (overlay_spec c) (ROk tt) (Synced al o).
Proof.
  unfold overlay_spec. destruct (c_pop_ups c) eqn:Epu.
  - assert (E : update_overlay c p = bindM (cb p TRender) (fun _ => overlay_bookkeeping))
      by (unfold update_overlay; rewrite Epu; reflexivity).
    rewrite E. eapply SemA_conv; [eapply SemA_step; [apply Sem_cb; reflexivity|apply SemA_overlay_bookkeeping; exact Epu]|reflexivity].
  - unfold update_overlay. rewrite Epu.
    intros s Hs Hp Hk [Ha Ho]. cbn [ret fst snd cut ncb outcome]. rewrite app_nil_r, Z.add_0_r.
    split; [apply Keeps_refl|]. split; [reflexivity|split; [reflexivity|split; [reflexivity|]]].
    intros _. split; [split; assumption|]. unfold pop_shown. rewrite Epu. cbn [andb].
    destruct (t_overlay s) eqn:E; [|reflexivity].
    destruct Hp as [_ Hp2]. rewrite (Hp2 E) in Epu. discriminate.
Qed.

Lemma Sem_update_overlay : Sem (update_overlay c p) (overlay_spec c) tt.
Proof. intros o al. eapply SemA_post; [|apply SemA_update_overlay]. intros s [H _]; exact H. Qed.

Lemma SemA_get_overlay {B} al o (k : bool -> M B) L r Q :
  SemA (G al o) (k (pop_shown c o)) L r Q -> SemA (Synced al o) (bindM (get t_overlay) k) L r Q.
Proof.
  intros H s Hs Hp Hk [Ha Hov]. unfold bindM, get. rewrite Hov. apply H; assumption.
Qed.

Lemma Sem_widget_changed : Sem widget_changed [] tt.
Proof. unfold widget_changed. apply Sem_get. intros ws. apply Sem_set_wstate. Qed.

Lemma Sem_changed_if (b : bool) : Sem (if b then widget_changed else ret tt) [] tt.
Proof. destruct b; [apply Sem_widget_changed|apply Sem_ret]. Qed.

Lemma SemO_topmost_keypress o x :
  SemO o (topmost_keypress c p x) (overlay_spec c ++ [keypress_cb c o x]) (keypress_result c o x) (keypress_open c o x).
Proof.
  intros al. unfold topmost_keypress, keypress_cb, keypress_result, keypress_open.
  eapply SemA_bind; [apply SemA_update_overlay|]. apply SemA_get_overlay.
  destruct (pop_shown c o) eqn:Eps.
  - eapply SemA_conv; [eapply SemA_step; [apply Sem_cb; reflexivity|]|reflexivity].
    destruct (x =? 120).
    + eapply SemA_conv; [eapply SemA_bind; [apply SemO_set_l_pop|apply Sem_ret]|reflexivity].
    + apply Sem_ret.
  - destruct (c_launcher c && (x =? 111)).
    + eapply SemA_conv; [eapply SemA_step; [apply Sem_cb; reflexivity|]|reflexivity].
      eapply SemA_conv; [eapply SemA_bind; [apply SemO_set_l_pop|apply Sem_ret]|reflexivity].
    + eapply SemA_conv; [eapply SemA_step; [apply Sem_cb; reflexivity|]|reflexivity].
      eapply SemA_conv; [eapply SemA_step; [apply Sem_changed_if|apply Sem_ret]|reflexivity].
Qed.

Lemma Sem_widget_mouse_event b cl rw :
  Sem (widget_mouse_event c p b cl rw) [TMouse b cl rw] (widget_mouse c b).
Proof.
  unfold widget_mouse_event.
  eapply Sem_conv; [eapply Sem_seq; [apply Sem_cb; reflexivity|]|reflexivity].
  eapply Sem_conv; [eapply Sem_seq; [apply Sem_changed_if|apply Sem_ret]|reflexivity].
Qed.

Lemma Sem_topmost_mouse_event b cl rw o :
  SemO o (topmost_mouse_event c p b cl rw)
      (if pop_shown c o then overlay_spec c
       else if w_has_mouse c then overlay_spec c ++ [TMouse b cl rw] else [])
      (if pop_shown c o then false else if w_has_mouse c then widget_mouse c b else false) o.
Proof.
  intros al. unfold topmost_mouse_event. destruct (c_pop_ups c) eqn:Epu.
  - rewrite (wf_mouse Epu). destruct (pop_shown c o) eqn:Eps.
    + eapply SemA_conv; [eapply SemA_bind; [apply SemA_update_overlay|]|apply app_nil_r].
      apply SemA_get_overlay. rewrite Eps. apply Sem_ret.
    + eapply SemA_bind; [apply SemA_update_overlay|].
      apply SemA_get_overlay. rewrite Eps. apply Sem_widget_mouse_event.
  - unfold pop_shown. rewrite Epu. cbn [andb]. destruct (w_has_mouse c).
    + unfold overlay_spec. rewrite Epu. cbn [app]. apply Sem_widget_mouse_event.
    + apply Sem_ret.
Qed.

Lemma Sem_topmost_render o :
  SemO o (topmost_render c p) (overlay_spec c ++ (if pop_shown c o then [TRender; TRender] else [TRender])) tt o.
Proof.
  intros al. unfold topmost_render.
  eapply SemA_bind; [apply SemA_update_overlay|]. apply SemA_get_overlay.
  destruct (pop_shown c o).
  - change [TRender; TRender] with ([TRender] ++ [TRender]).
    apply (Sem_seq (cb p TRender) (cb p TRender)); apply Sem_cb; reflexivity.
  - apply Sem_cb; reflexivity.
Qed.

(* ---------- MainLoop input pipeline ---------- *)
Lemma Sem_input_filter ks : Sem (input_filter c p ks) (spec_filter c ks) (filtered c ks).
Proof.
  unfold input_filter, spec_filter, filtered. destruct (c_filter c).
  - eapply Sem_conv; [eapply Sem_seq; [apply Sem_cb; reflexivity|apply Sem_ret]|reflexivity].
  - apply Sem_ret.
Qed.

Lemma Sem_unhandled_input k : Sem (unhandled_input c p k) (spec_unhandled c k) tt.
Proof.
  unfold unhandled_input, spec_unhandled. destruct (c_unhandled c); [apply Sem_cb; reflexivity|apply Sem_ret].
Qed.

Lemma Sem_screen_clear : Sem screen_clear [] tt.
Proof.
  unfold screen_clear.
  eapply Sem_conv; [eapply Sem_seq; [apply Sem_emit_silent; reflexivity|apply Sem_set_buf_ok]|reflexivity].
Qed.

Lemma Sem_after_widget k : Sem (after_widget c p k) (spec_after c k) tt.
Proof.
  unfold after_widget, spec_after. destruct (is_redraw k); [apply Sem_screen_clear|apply Sem_unhandled_input].
Qed.

Lemma SemO_process_key o k : SemO o (process_key c p k) (fst (spec_key c o k)) tt (snd (spec_key c o k)).
Proof.
  destruct k as [|x|b cl rw]; cbn [process_key spec_key].
  - cbn [fst snd]. apply Sem_ret.
  - destruct (w_selectable c); cbn [fst snd]; [|apply Sem_after_widget].
    rewrite app_assoc. eapply SemO_bind; [apply SemO_topmost_keypress|].
    destruct (keypress_result c o x =? 0); [apply Sem_ret|apply Sem_after_widget].
  - pose proof (Sem_topmost_mouse_event b cl rw o) as H.
    destruct (pop_shown c o); cbn [fst snd].
    + eapply SemO_bind; [exact H|]. apply Sem_after_widget.
    + destruct (w_has_mouse c); cbn [fst snd].
      * rewrite app_assoc. eapply SemO_bind; [exact H|].
        destruct (widget_mouse c b); [apply Sem_ret|apply Sem_after_widget].
      * eapply SemO_conv; [eapply SemO_bind; [exact H|apply Sem_after_widget]|reflexivity].
Qed.


Lemma Sem_for_each {X} (f : X -> M unit) (S : X -> list tev) l :
  (forall x, Sem (f x) (S x) tt) -> Sem (for_each f l) (flat_map S l) tt.
Proof.
  intros H. induction l as [|x l IH]; cbn [for_each flat_map]; [apply Sem_ret|].
  apply Sem_seq; [apply H|exact IH].
Qed.

(* iteration that threads the pop-up state *)
Lemma SemO_for_each {X} (f : X -> M unit) (S : bool -> X -> list tev * bool) :
  (forall o x, SemO o (f x) (fst (S o x)) tt (snd (S o x))) ->
  forall l o, SemO o (for_each f l) (fst (thread S o l)) tt (snd (thread S o l)).
Proof.
  intros H. induction l as [|x l IH]; intros o; cbn [for_each thread fst snd]; [apply Sem_ret|].
  eapply SemO_bind; [apply H|apply IH].
Qed.

Lemma Sem_size_check (sk : bool) :
  Sem (if sk then ret tt else bindM get_cols_rows (fun _ => set_size_known true)) [] tt.
Proof.
  destruct sk; [apply Sem_ret|].
  eapply Sem_conv; [eapply Sem_seq; [apply Sem_emit_silent; reflexivity|apply Sem_set_size_known]|reflexivity].
Qed.

Lemma SemO_process_input o ks :
  SemO o (process_input c p ks) (fst (spec_keys c o ks)) tt (snd (spec_keys c o ks)).
Proof.
  unfold process_input. apply SemO_get. intros sk.
  eapply SemO_conv; [eapply SemO_step; [apply Sem_size_check|]|apply app_nil_l].
  apply SemO_for_each. intros o1 k. apply SemO_process_key.
Qed.

Lemma SemO_update o ks :
  SemO o (update c p ks) (fst (spec_update c o ks)) tt (snd (spec_update c o ks)).
Proof.
  unfold update, spec_update. cbn [fst snd]. eapply SemO_step; [apply Sem_input_filter|].
  destruct (filtered c ks) as [|k ks'] eqn:E; cbn [is_nil]; [cbn [spec_keys thread fst snd]; apply Sem_ret|].
  eapply SemO_conv; [eapply SemO_bind; [apply SemO_process_input|]|apply app_nil_r].
  destruct (has_resize (k :: ks')); [apply Sem_set_size_known|apply Sem_ret].
Qed.

(* ---------- redraw ---------- *)
Lemma Sem_get_started {B} (k : bool -> M B) L w :
  Sem (k true) L w -> Sem (bindM (get (fun s => s_started (scr s))) k) L w.
Proof. intros H o al s Hs Hp Hk Ha. unfold bindM, get. rewrite Hs. apply H; assumption. Qed.

Lemma SemO_get_started {B} o o' (k : bool -> M B) L w :
  SemO o (k true) L w o' -> SemO o (bindM (get (fun s => s_started (scr s))) k) L w o'.
Proof. intros H al s Hs Hp Hk Ha. unfold bindM, get. rewrite Hs. apply H; assumption. Qed.

Lemma Sem_screen_draw_screen : Sem (screen_draw_screen c) [TDraw] tt.
Proof.
  unfold screen_draw_screen.
  eapply Sem_conv; [eapply Sem_seq; [apply Sem_emit_draw|]|apply app_nil_r].
  destruct (c_hook c) eqn:Eh; [|apply Sem_ret].
  apply Sem_get_started.
  apply Sem_get. intros ok. apply Sem_get. intros bc. apply Sem_get. intros ws.
  destruct (ok && negb (c_pop_ups c) && match bc with Some k => k =? ws | None => false end); [apply Sem_ret|].
  eapply Sem_conv; [eapply Sem_seq; [apply Sem_write_cursor; exact Eh|]|apply app_nil_l].
  eapply Sem_conv; [eapply Sem_seq; [apply Sem_when; apply Sem_write_cursor; exact Eh|]|].
  2: { instantiate (1 := []). destruct (w_cursor c); reflexivity. }
  eapply Sem_conv; [eapply Sem_seq; [apply Sem_set_buf_ok|apply Sem_set_buf_canvas]|reflexivity].
Qed.

Lemma SemO_draw_screen o : SemO o (draw_screen c p) (spec_draw c o) tt o.
Proof.
  unfold draw_screen, spec_draw. apply SemO_get. intros sk.
  eapply SemO_conv; [eapply SemO_step; [apply Sem_size_check|]|apply app_nil_l].
  eapply SemO_conv; [eapply SemO_bind; [apply Sem_topmost_render|apply Sem_screen_draw_screen]|].
  rewrite <- !app_assoc. reflexivity.
Qed.

Lemma SemO_entering_idle o : SemO o (entering_idle c p) (spec_draw c o) tt o.
Proof. unfold entering_idle. apply SemO_get_started. apply SemO_draw_screen. Qed.

(* ---------- the event loop ---------- *)
Lemma SemO_fire_alarm o a : SemO o (fire_alarm c p a) (spec_alarm c o a) tt o.
Proof. destruct a; cbn [fire_alarm spec_alarm]; [apply Sem_cb; reflexivity|apply SemO_entering_idle]. Qed.

Lemma SemO_fire_alarms o al0 : SemO o (for_each (fire_alarm c p) al0) (flat_map (spec_alarm c o) al0) tt o.
Proof.
  induction al0 as [|a r IH]; cbn [for_each flat_map]; [apply Sem_ret|].
  eapply SemO_bind; [apply SemO_fire_alarm|exact IH].
Qed.

Lemma SemO_deliver o e : SemO o (deliver c p e) (fst (spec_event c o e)) tt (snd (spec_event c o e)).
Proof.
  destruct e; cbn [deliver spec_event]; try (cbn [fst snd]; apply Sem_cb; reflexivity); try apply SemO_update.
  eapply SemO_conv; [eapply SemO_step; [apply Sem_set_buf_ok|apply SemO_update]|apply app_nil_l].
Qed.

Lemma SemA_pop_alarm al o :
  SemA (G al o) pop_alarm [] (ROk (match al with [] => None | a :: _ => Some a end)) (G (tl al) o).
Proof.
  intros s Hs Hp Hk [Ha Ho]. unfold pop_alarm, bindM, get. rewrite Ha. destruct al as [|a r].
  - cbn [ret fst snd cut ncb outcome tl]. rewrite app_nil_r, Z.add_0_r.
    split; [apply Keeps_refl|]. split; [reflexivity|split; [reflexivity|split; [reflexivity|]]].
    intros _. split; assumption.
  - unfold set_alarms, ret. cbn [fst snd cut ncb outcome tl]. rewrite app_nil_r, Z.add_0_r.
    split; [keeps_triv|]. split; [reflexivity|split; [reflexivity|split; [reflexivity|]]].
    intros _. split; [reflexivity|exact Ho].
Qed.

(* the due alarms fire one by one, in heap order; afterwards the heap is empty *)
Lemma SemA_fire_n o : forall k al, (length al <= k)%nat ->
  SemA (G al o) (fire_n c p k) (flat_map (spec_alarm c o) al) (ROk tt) (G [] o).
Proof.
  induction k as [|k IH]; intros al Hl; cbn [fire_n].
  - destruct al; [apply Sem_ret|cbn [length] in Hl; lia].
  - eapply SemA_conv; [eapply SemA_bind; [apply SemA_pop_alarm|]|apply app_nil_l].
    destruct al as [|a r]; cbn [tl flat_map].
    + apply Sem_ret.
    + eapply SemA_bind; [apply SemO_fire_alarm|]. apply IH. cbn [length] in Hl. lia.
Qed.

Lemma SemA_fire_pending al o :
  SemA (G al o) (fire_pending c p) (flat_map (spec_alarm c o) al) (ROk tt) (G [] o).
Proof. unfold fire_pending. apply SemA_get_alarms. apply SemA_fire_n. lia. Qed.

(* the idle phase: every registered MainLoop.entering_idle *)
Lemma SemO_repeat_idle o : forall k, SemO o (repeat_m k (entering_idle c p)) (spec_idle c k o) tt o.
Proof.
  induction k as [|k IH]; cbn [repeat_m spec_idle]; [apply Sem_ret|].
  eapply SemO_bind; [apply SemO_entering_idle|exact IH].
Qed.

Lemma SemO_idle_round o : SemO o (idle_round c p) (spec_idle c kidle o) tt o.
Proof.
  intros al s Hs Hp Hk Ha. unfold idle_round, bindM, get. rewrite Hk. apply SemO_repeat_idle; assumption.
Qed.

Lemma SemO_deliver_fd o e :
  SemO o (deliver_fd c p e) (fst (spec_fd_event c o e)) tt (snd (spec_fd_event c o e)).
Proof. destruct e; cbn [deliver_fd spec_fd_event]; try apply SemO_deliver. cbn [fst snd]. apply Sem_ret. Qed.

Lemma SemA_do_round o r :
  SemA (G [] o) (do_round c p r) (fst (spec_round c kidle o r)) (ROk tt) (G [] (snd (spec_round c kidle o r))).
Proof.
  unfold do_round, spec_round. cbn [fst snd].
  eapply SemA_conv; [eapply SemA_bind; [apply SemA_get_alarms; apply SemA_set_alarms|]|apply app_nil_l].
  cbn [app].
  eapply SemA_bind; [apply SemO_for_each; intros o1 e; apply SemO_deliver_fd|].
  eapply SemA_bind; [apply SemA_fire_pending|].
  eapply SemA_conv; [eapply SemA_bind; [apply SemO_idle_round|apply Sem_emit_silent; reflexivity]|apply app_nil_r].
Qed.

Lemma SemA_rounds : forall rounds o,
  SemA (G [] o) (for_each (do_round c p) rounds) (fst (thread (spec_round c kidle) o rounds)) (ROk tt)
       (G [] (snd (thread (spec_round c kidle) o rounds))).
Proof.
  induction rounds as [|r rounds IH]; intros o; cbn [for_each thread fst snd]; [apply Sem_ret|].
  eapply SemA_bind; [apply SemA_do_round|apply IH].
Qed.

Lemma SemA_quit al o : SemA (G al o) quit [] (RErr ExitMainLoop) (fun _ => True).
Proof.
  intros s Hs Hp Hk Ha. unfold quit, bindM, emit, raise. cbn [fst snd cut ncb outcome].
  rewrite acts_cons. cbn [is_act is_cb orb]. rewrite !app_nil_r, Z.add_0_r.
  split; [keeps_triv|]. repeat split; reflexivity.
Qed.

(* the body of event_loop.run(), before ExitMainLoop is swallowed *)
Definition loop_inner (rounds : list (list event)) : M unit :=
  bindM (fire_pending c p) (fun _ =>
  bindM (idle_round c p) (fun _ =>
  bindM (emit TWait) (fun _ =>
  bindM (for_each (do_round c p) rounds) (fun _ => quit)))).

Lemma SemA_loop_inner al o rounds :
  SemA (G al o) (loop_inner rounds) (spec_loop c kidle o al rounds) (RErr ExitMainLoop) (fun _ => True).
Proof.
  unfold loop_inner, spec_loop.
  eapply SemA_bind; [apply SemA_fire_pending|].
  eapply SemA_bind; [apply SemO_idle_round|].
  eapply SemA_conv; [eapply SemA_step; [apply Sem_emit_silent; reflexivity|]|apply app_nil_l].
  eapply SemA_conv; [eapply SemA_bind; [apply SemA_rounds|apply SemA_quit]|apply app_nil_r].
Qed.

(* the result of run(): ExitMainLoop (planned, or the harness's final one) is swallowed *)
Definition loop_result (o : option fault) : res unit :=
  match o with Some (FRaise e) => RErr (UserExc e) | _ => ROk tt end.

Lemma event_loop_run_sem rounds s :
  s_started (scr s) = true -> pinv s -> idle_reg s = kidle ->
  let L := spec_loop c kidle (l_pop s) (alarms s) rounds in
  let rs := event_loop_run c p rounds s in
  Keeps s (snd rs) /\
  acts (snd rs) = acts s ++ fst (cut P (n s) L) /\
  n (snd rs) = n s + ncb (fst (cut P (n s) L)) /\
  fst rs = loop_result (snd (cut P (n s) L)).
Proof.
  intros Hs Hp Hk L rs.
  assert (E : rs = suppress_exit (loop_inner rounds) s) by reflexivity.
  destruct (SemA_loop_inner (alarms s) (l_pop s) rounds s Hs Hp Hk (conj eq_refl eq_refl)) as (K & A & N & R & _).
  fold L in A, N, R. rewrite E. unfold suppress_exit.
  destruct (loop_inner rounds s) as [r s1]. cbn [fst snd] in *.
  destruct (snd (cut P (n s) L)) as [[|e]|]; cbn [outcome exn_of] in R; subst r; cbn [fst snd loop_result];
    (split; [exact K|split; [exact A|split; [exact N|reflexivity]]]).
Qed.

(* ---------- _run_screen_event_loop ---------- *)
Definition pend (next : option alarm) (al : list alarm) : list alarm :=
  match next with Some a => a :: al | None => [] end.

Lemma SemA_fire_all o : forall fuel next,
  SemA (G fuel o) (fire_all c p fuel next) (flat_map (spec_alarm c o) (pend next fuel)) (ROk tt)
       (G (match next with Some _ => [] | None => fuel end) o).
Proof.
  induction fuel as [|b fuel IH]; intros [a|]; cbn [fire_all pend flat_map].
  - eapply SemA_conv; [eapply SemA_bind; [apply SemO_fire_alarm|apply Sem_ret]|reflexivity].
  - apply Sem_ret.
  - eapply SemA_bind; [apply SemO_fire_alarm|].
    eapply SemA_conv; [eapply SemA_bind; [apply SemA_pop_alarm|]|apply app_nil_l].
    cbn [tl]. apply (IH (Some b)).
  - apply Sem_ret.
Qed.

Lemma SemO_process_if o ks :
  SemO o (if is_nil ks then ret tt else process_input c p ks) (fst (spec_keys c o ks)) tt (snd (spec_keys c o ks)).
Proof. destruct ks; cbn [is_nil]; [cbn [spec_keys thread fst snd]; apply Sem_ret|apply SemO_process_input]. Qed.

Lemma Sem_resize_check ks : Sem (if has_resize ks then set_size_known false else ret tt) [] tt.
Proof. destruct (has_resize ks); [apply Sem_set_size_known|apply Sem_ret]. Qed.

Lemma SemA_screen_loop : forall inputs next al o,
  (next = None -> al = []) ->
  SemA (G al o) (screen_loop c p inputs next) (spec_screen_loop c o (pend next al) inputs) (RErr ExitMainLoop) (fun _ => True).
Proof.
  induction inputs as [|b rest IH]; intros next al o Hinv; cbn [screen_loop spec_screen_loop].
  - eapply SemA_conv; [eapply SemA_step; [apply Sem_emit_silent; reflexivity|]|apply app_nil_l].
    eapply SemA_conv; [eapply SemA_step; [apply Sem_emit_silent; reflexivity|apply SemA_quit]|apply app_nil_l].
  - eapply SemA_conv; [eapply SemA_step; [apply Sem_emit_silent; reflexivity|]|apply app_nil_l].
    eapply SemA_conv; [eapply SemA_step; [apply Sem_emit_silent; reflexivity|]|apply app_nil_l].
    assert (Step : forall nx, (nx = None -> al = []) ->
              SemA (G al o)
                (bindM (input_filter c p b) (fun ks' =>
                 bindM (if is_nil ks' then ret tt else process_input c p ks') (fun _ =>
                 bindM (get alarms) (fun al0 =>
                 bindM (fire_all c p al0 nx) (fun _ =>
                 bindM (if has_resize ks' then set_size_known false else ret tt) (fun _ =>
                 bindM (draw_screen c p) (fun _ =>
                 bindM pop_alarm (fun nx' => screen_loop c p rest nx'))))))))
                (fst (spec_update c o b) ++ flat_map (spec_alarm c (snd (spec_update c o b))) (pend nx al) ++
                 spec_draw c (snd (spec_update c o b)) ++ spec_screen_loop c (snd (spec_update c o b)) [] rest)
                (RErr ExitMainLoop) (fun _ => True)).
    { intros nx Hnx. unfold spec_update. cbn [fst snd]. rewrite <- app_assoc.
      eapply SemA_step; [apply Sem_input_filter|].
      eapply SemA_bind; [apply SemO_process_if|].
      apply SemA_get_alarms.
      eapply SemA_bind; [apply SemA_fire_all|].
      assert (Eal : (match nx with Some _ => [] | None => al end) = []) by (destruct nx; [reflexivity|apply Hnx; reflexivity]).
      rewrite Eal.
      eapply SemA_conv; [eapply SemA_step; [apply Sem_resize_check|]|apply app_nil_l].
      eapply SemA_bind; [apply SemO_draw_screen|].
      eapply SemA_conv; [eapply SemA_bind; [apply SemA_pop_alarm|]|apply app_nil_l].
      cbn [tl]. apply (IH None []). reflexivity. }
    destruct next as [a|].
    + rewrite andb_false_r. cbn [pend is_nil]. rewrite andb_false_r.
      apply (Step (Some a)). discriminate.
    + specialize (Hinv eq_refl). subst al. cbn [pend is_nil]. rewrite !andb_true_r.
      destruct b as [|k0 b0]; cbn [is_nil].
      * apply (IH None []). reflexivity.
      * apply (Step None). reflexivity.
Qed.

Lemma SemA_run_screen_event_loop al inputs :
  SemA (G al false) (run_screen_event_loop c p inputs)
       (spec_draw c false ++ spec_screen_loop c false al inputs) (RErr ExitMainLoop) (fun _ => True).
Proof.
  unfold run_screen_event_loop. eapply SemA_bind; [apply SemO_draw_screen|].
  eapply SemA_conv; [eapply SemA_bind; [apply SemA_pop_alarm|]|apply app_nil_l].
  destruct al as [|a r]; cbn [tl].
  - apply (SemA_screen_loop inputs None [] false). reflexivity.
  - apply (SemA_screen_loop inputs (Some a) r false). discriminate.
Qed.

End WithConfig.

(* ---------- start / stop: symbolic execution on the explicit screen and terminal records ---------- *)
Lemma acts_silent_prefix l s s' :
  tr s' = l ++ tr s -> filter is_act (rev l) = [] -> acts s' = acts s.
Proof.
  unfold acts. intros -> H. rewrite rev_app_distr, filter_app, H. apply app_nil_r.
Qed.

(* the Screen object and the terminal while the loop runs (cursor visibility aside) *)
Definition SC (c : config) (T0 : term) : screen :=
  Screen true (c_handle_mouse c) true (if c_isatty c then Some (t_tios T0) else None)
         (Some (t_winch T0)) (Some (t_tstp T0)) None.
Definition TM (c : config) (T0 : term) : term :=
  Term true true (c_handle_mouse c) (c_handle_mouse c) (c_handle_mouse c) (c_paste c) (c_focus c)
       (if c_isatty c then (fst (t_tios T0), true) else t_tios T0) 3 3 (t_cont T0) false.

(* what the application does before run() *)
Definition prefix (c : config) : M unit :=
  bindM (set_alarms (map AUser (c_pre_alarms c))) (fun _ => if c_prestarted c then screen_start c else ret tt).

Lemma session_unfold c p rounds inputs s :
  session c p rounds inputs s =
  match prefix c s with
  | (ROk _, s') => ml_run c p rounds inputs s'
  | (RErr e, s') => (RErr e, s')
  end.
Proof. reflexivity. Qed.

Lemma hook_start_state c ti w t cn :
  c_hook c = true ->
  let T0 := normal_term ti w t cn in
  let rs := ml_start c (snd (prefix c (init_st T0))) in
  fst (prefix c (init_st T0)) = ROk tt /\
  fst rs = ROk tt /\ n (snd rs) = 0 /\ scr (snd rs) = SC c T0 /\ tm (snd rs) = TM c T0 /\
  alarms (snd rs) = map AUser (c_pre_alarms c) ++ [AEnteringIdle] /\
  acts (snd rs) = [] /\
  (l_pop (snd rs) = false /\ t_pop (snd rs) = false /\ t_overlay (snd rs) = false) /\
  idle_reg (snd rs) = 1%nat.
Proof.
  destruct c as [hook filt unh hm pu pa fo ia ps pre sel hasm wk wm cur lau pk sr]. cbn [c_hook]. intros ->.
  Time destruct hm, pa, fo, ia, ps; vm_compute; repeat split; reflexivity.
Qed.

(* operations that invoke no callback and do not draw *)
Definition Silent {A} (m : M A) : Prop := forall s, acts (snd (m s)) = acts s /\ n (snd (m s)) = n s.

Lemma Silent_ret {A} (v : A) : Silent (ret v).
Proof. intros s; split; reflexivity. Qed.
Lemma Silent_raise {A} e : Silent (@raise A e).
Proof. intros s; split; reflexivity. Qed.
Lemma Silent_get {A} (g : st -> A) : Silent (get g).
Proof. intros s; split; reflexivity. Qed.
Lemma Silent_bind {A B} (m : M A) (f : A -> M B) : Silent m -> (forall a, Silent (f a)) -> Silent (bindM m f).
Proof.
  intros Hm Hf s. unfold bindM. destruct (Hm s) as [A1 N1]. destruct (m s) as [[a|e] s1]; cbn [fst snd] in *.
  - destruct (Hf a s1) as [A2 N2]. split; congruence.
  - split; assumption.
Qed.
Lemma Silent_emit t : is_act t = false -> Silent (emit t).
Proof. intros H s. unfold emit. cbn [fst snd n]. rewrite acts_cons, H, app_nil_r. split; reflexivity. Qed.
Lemma Silent_upd_scr f : Silent (upd_scr f).
Proof. intros s; split; reflexivity. Qed.
Lemma Silent_upd_tm f : Silent (upd_tm f).
Proof. intros s; split; reflexivity. Qed.
Lemma Silent_set_size_known b : Silent (set_size_known b).
Proof. intros s; split; reflexivity. Qed.
Lemma Silent_set_connected b : Silent (set_connected b).
Proof. intros s; split; reflexivity. Qed.
Lemma Silent_set_idle_reg b : Silent (set_idle_reg b).
Proof. intros s; split; reflexivity. Qed.
Lemma Silent_set_hooked b : Silent (set_hooked b).
Proof. intros s; split; reflexivity. Qed.
Lemma Silent_set_alarms l : Silent (set_alarms l).
Proof. intros s; split; reflexivity. Qed.
Lemma Silent_set_buf_ok b : Silent (set_buf_ok b).
Proof. intros s; split; reflexivity. Qed.

Ltac silent_step :=
  lazymatch goal with
  | |- Silent (ret _) => apply Silent_ret
  | |- Silent (raise _) => apply Silent_raise
  | |- Silent (get _) => apply Silent_get
  | |- Silent (upd_scr _) => apply Silent_upd_scr
  | |- Silent (upd_tm _) => apply Silent_upd_tm
  | |- Silent (set_size_known _) => apply Silent_set_size_known
  | |- Silent (set_connected _) => apply Silent_set_connected
  | |- Silent (set_idle_reg _) => apply Silent_set_idle_reg
  | |- Silent (set_hooked _) => apply Silent_set_hooked
  | |- Silent (set_alarms _) => apply Silent_set_alarms
  | |- Silent (set_buf_ok _) => apply Silent_set_buf_ok
  | |- Silent (emit _) => apply Silent_emit; reflexivity
  | |- Silent (bindM _ _) => apply Silent_bind; [|intros]
  | |- Silent (if ?b then _ else _) => destruct b
  | |- Silent (match ?o with _ => _ end) => destruct o
  end.
Ltac silent_all := repeat silent_step.

Lemma Silent_write_mode m b : Silent (write_mode m b).
Proof. unfold write_mode. silent_all. Qed.
Lemma Silent_mouse_tracking b : Silent (mouse_tracking b).
Proof.
  unfold mouse_tracking. destruct b;
    (apply Silent_bind; [apply Silent_write_mode|intros; apply Silent_bind; [apply Silent_write_mode|intros; apply Silent_write_mode]]).
Qed.
Lemma filter_reset_trace k : filter is_act (rev (reset_trace k)) = [].
Proof. induction k as [|k IH]; cbn [reset_trace rev]; [reflexivity|]. rewrite !filter_app, IH. reflexivity. Qed.
Lemma Silent_emit_descriptors_changed : Silent emit_descriptors_changed.
Proof.
  intros s. unfold emit_descriptors_changed. cbn [fst snd n]. split; [|reflexivity].
  unfold acts. cbn [tr]. rewrite rev_app_distr, filter_app, filter_reset_trace, app_nil_r. reflexivity.
Qed.
Lemma Silent_signal_restore : Silent signal_restore.
Proof. unfold signal_restore. silent_all. Qed.
Lemma Silent_signal_init : Silent signal_init.
Proof. unfold signal_init. silent_all. Qed.

Ltac sil_known :=
  lazymatch goal with
  | |- Silent (write_mode _ _) => apply Silent_write_mode
  | |- Silent (mouse_tracking _) => apply Silent_mouse_tracking
  | |- Silent emit_descriptors_changed => apply Silent_emit_descriptors_changed
  | |- Silent signal_restore => apply Silent_signal_restore
  | |- Silent signal_init => apply Silent_signal_init
  end.

Lemma Silent_raw_stop c : Silent (raw_stop c).
Proof.
  unfold raw_stop, screen_clear, stop_mouse_restore_buffer.
  repeat first [ silent_step | sil_known ].
Qed.
Lemma Silent_raw_start c : Silent (raw_start c).
Proof.
  unfold raw_start.
  repeat first [ silent_step | sil_known ].
Qed.
Lemma Silent_screen_stop c : Silent (screen_stop c).
Proof. unfold screen_stop. repeat first [silent_step | apply Silent_raw_stop]. Qed.
Lemma Silent_screen_start c : Silent (screen_start c).
Proof. unfold screen_start. repeat first [silent_step | apply Silent_raw_start]. Qed.
Lemma Silent_ml_stop c : Silent (ml_stop c).
Proof. unfold ml_stop, unhook_event_loop. repeat first [silent_step | apply Silent_screen_stop]. Qed.
Lemma Silent_set_mouse_tracking c : Silent (set_mouse_tracking c).
Proof. unfold set_mouse_tracking. repeat first [silent_step | apply Silent_mouse_tracking]. Qed.
Lemma Silent_ml_start c : Silent (ml_start c).
Proof.
  unfold ml_start, reset_input_descriptors, unhook_event_loop, hook_event_loop.
  repeat first [silent_step | apply Silent_screen_start | apply Silent_set_mouse_tracking].
Qed.

(* what stop() leaves: the terminal as before run(), the Screen object stopped, everything else alone *)
Definition StoppedFrom (c : config) (T0 : term) (s2 s3 : st) (ir : nat) : Prop :=
  tm s3 = T0 /\ scr s3 = set_started false (SC c T0) /\ idle_reg s3 = ir /\
  alarms s3 = alarms s2 /\ l_pop s3 = l_pop s2 /\ t_pop s3 = t_pop s2 /\ t_overlay s3 = t_overlay s2.

(* stopping the display from any state the loop can leave behind *)
Lemma hook_stop_state c ti w t cn (s2 : st) :
  c_hook c = true ->
  let T0 := normal_term ti w t cn in
  scr s2 = SC c T0 -> set_mode 25 true (tm s2) = TM c T0 ->
  (fst (screen_stop c s2) = ROk tt /\ StoppedFrom c T0 s2 (snd (screen_stop c s2)) (idle_reg s2)) /\
  (fst (ml_stop c s2) = ROk tt /\ StoppedFrom c T0 s2 (snd (ml_stop c s2)) (pred (idle_reg s2))).
Proof.
  destruct c as [hook filt unh hm pu pa fo ia ps pre sel hasm wk wm cur lau pk sr]. cbn [c_hook]. intros ->.
  destruct s2 as [n2 tr2 sc2 tm2 sk2 cn2 ir2 hk2 al2 ws2 bo2 bc2 lp2 tp2 ov2]. cbn [scr tm]. intros Hsc Htm. subst sc2.
  destruct tm2 as [a1 a2 a3 a4 a5 a6 a7 a8 a9 a10 a11 a12].
  unfold TM, normal_term in Htm. cbn [c_handle_mouse c_paste c_focus c_isatty t_tios t_winch t_tstp t_cont fst] in Htm.
  change (set_mode 25 true (Term a1 a2 a3 a4 a5 a6 a7 a8 a9 a10 a11 a12)) with (Term a1 true a3 a4 a5 a6 a7 a8 a9 a10 a11 a12) in Htm.
  injection Htm as E1 E3 E4 E5 E6 E7 E8 E9 E10 E11 E12. subst.
  unfold StoppedFrom.
  destruct hm, pa, fo, ia, cn2; vm_compute; repeat split; reflexivity.
Qed.

Lemma TM_cursor c T0 : set_mode 25 true (TM c T0) = TM c T0.
Proof. reflexivity. Qed.

(* a display that may be started: never started, or stopped by an earlier run() *)
Definition stopped_scr (c : config) (T0 : term) (sc : screen) : Prop :=
  sc = fresh_screen \/ sc = set_started false (SC c T0).

(* MainLoop.start() from any such state *)
Lemma hook_restart_state c ti w t cn (s : st) :
  c_hook c = true ->
  let T0 := normal_term ti w t cn in
  stopped_scr c T0 (scr s) -> tm s = T0 ->
  let rs := ml_start c s in
  fst rs = ROk tt /\ scr (snd rs) = SC c T0 /\ tm (snd rs) = TM c T0 /\
  alarms (snd rs) = alarms s ++ [AEnteringIdle] /\ idle_reg (snd rs) = S (idle_reg s) /\
  l_pop (snd rs) = l_pop s /\ t_pop (snd rs) = t_pop s /\ t_overlay (snd rs) = t_overlay s.
Proof.
  destruct c as [hook filt unh hm pu pa fo ia ps pre sel hasm wk wm cur lau pk sr]. cbn [c_hook]. intros ->.
  destruct s as [n2 tr2 sc2 tm2 sk2 cn2 ir2 hk2 al2 ws2 bo2 bc2 lp2 tp2 ov2]. cbn [scr tm]. intros Hsc Htm. subst tm2.
  destruct Hsc as [-> | ->]; destruct hm, pa, fo, ia; vm_compute; repeat split; reflexivity.
Qed.

(* ---------- run() on a screen with hook_event_loop ---------- *)
(* the part of _run after a successful start(): the event loop, then stop() / screen.stop() *)
Definition run_tail (c : config) (p : list (Z * fault)) (rounds : list (list event)) : M unit :=
  fun s1 =>
    match event_loop_run c p rounds s1 with
    | (RErr e, s2) => (bindM (screen_stop c) (fun _ => raise e)) s2
    | (ROk _, s2) => ml_stop c s2
    end.

(* a stopped state from which run() may be called (again) *)
Definition Restartable (c : config) (T0 : term) (s : st) : Prop :=
  stopped_scr c T0 (scr s) /\ tm s = T0 /\ pinv c s.

Lemma hook_run_tail c p rounds ti w t cn (s1 : st) :
  c_hook c = true -> wf_config c ->
  let T0 := normal_term ti w t cn in
  scr s1 = SC c T0 -> tm s1 = TM c T0 -> pinv c s1 ->
  let L := spec_loop c (idle_reg s1) (l_pop s1) (alarms s1) rounds in
  let ct := cut (plan_at p) (n s1) L in
  let rs := suppress_exit (run_tail c p rounds) s1 in
  acts (snd rs) = acts s1 ++ fst ct /\ n (snd rs) = n s1 + ncb (fst ct) /\ fst rs = loop_result (snd ct) /\
  Restartable c T0 (snd rs) /\
  idle_reg (snd rs) = (match snd ct with Some (FRaise _) => idle_reg s1 | _ => pred (idle_reg s1) end).
Proof.
  intros Hh Hwf T0 S1 T1 Hpi. cbv zeta.
  assert (Hst : s_started (scr s1) = true) by (rewrite S1; reflexivity).
  pose proof (event_loop_run_sem c p (idle_reg s1) Hwf rounds s1 Hst Hpi eq_refl) as H. cbv zeta in H.
  destruct H as (K & A & N & R).
  unfold suppress_exit, run_tail.
  destruct (event_loop_run c p rounds s1) as [r2 s2]. cbn [fst snd] in *.
  destruct K as (K1 & K2 & _ & K4 & K5 & _). rewrite S1 in K1. rewrite T1, TM_cursor in K2.
  destruct (hook_stop_state c ti w t cn s2 Hh K1 K2) as [(F1 & F2 & F3 & F4 & F5 & F6 & F7 & F8) (G1 & G2 & G3 & G4 & G5 & G6 & G7 & G8)].
  destruct (Silent_screen_stop c s2) as [Q1 Q2]. destruct (Silent_ml_stop c s2) as [Q3 Q4].
  assert (Hp2 : pinv c s2) by (apply K4; exact Hpi).
  set (ct := cut (plan_at p) (n s1) (spec_loop c (idle_reg s1) (l_pop s1) (alarms s1) rounds)) in *.
  destruct (snd ct) as [[|e]|]; cbn [loop_result] in R |- *; subst r2.
  - destruct (ml_stop c s2) as [r3 s3]. cbn [fst snd] in *. subst r3. cbn [fst snd].
    split; [congruence|split; [congruence|split; [reflexivity|split; [|congruence]]]].
    split; [right; exact G3|split; [exact G2|]]. unfold pinv in *. rewrite G7, G8. exact Hp2.
  - unfold bindM. destruct (screen_stop c s2) as [r3 s3]. cbn [fst snd] in *. subst r3. cbn [raise fst snd].
    split; [congruence|split; [congruence|split; [reflexivity|split; [|congruence]]]].
    split; [right; exact F3|split; [exact F2|]]. unfold pinv in *. rewrite F7, F8. exact Hp2.
  - destruct (ml_stop c s2) as [r3 s3]. cbn [fst snd] in *. subst r3. cbn [fst snd].
    split; [congruence|split; [congruence|split; [reflexivity|split; [|congruence]]]].
    split; [right; exact G3|split; [exact G2|]]. unfold pinv in *. rewrite G7, G8. exact Hp2.
Qed.

Lemma ml_run_hook_unfold c p rounds inputs s s1 :
  ml_start c s = (ROk tt, s1) -> ml_run c p rounds inputs s = suppress_exit (run_tail c p rounds) s1.
Proof. intros E. unfold ml_run, ml_run_inner, suppress_exit, run_tail. rewrite E. reflexivity. Qed.

(* run() from ANY restartable state: the state a first run() starts from, or what an earlier run() left -
   whether it ended normally or by an exception, at whatever point *)
Theorem hook_rerun c p rounds inputs ti w t cn (s : st) :
  c_hook c = true -> wf_config c ->
  let T0 := normal_term ti w t cn in
  Restartable c T0 s ->
  let L := spec_loop c (S (idle_reg s)) (l_pop s) (alarms s ++ [AEnteringIdle]) rounds in
  let ct := cut (plan_at p) (n s) L in
  let rs := ml_run c p rounds inputs s in
  acts (snd rs) = acts s ++ fst ct /\ n (snd rs) = n s + ncb (fst ct) /\ fst rs = loop_result (snd ct) /\
  Restartable c T0 (snd rs) /\
  idle_reg (snd rs) = (match snd ct with Some (FRaise _) => S (idle_reg s) | _ => idle_reg s end).
Proof.
  intros Hh Hwf T0 (Hsc & Htm & Hpi). cbv zeta.
  destruct (hook_restart_state c ti w t cn s Hh Hsc Htm) as (R1 & S1 & T1 & A1 & I1 & LP & TP & OV).
  destruct (Silent_ml_start c s) as [Ac1 N1].
  destruct (ml_start c s) as [r1 s1] eqn:Es. cbn [fst snd] in *. subst r1.
  rewrite (ml_run_hook_unfold c p rounds inputs s s1 Es).
  assert (Hp1 : pinv c s1) by (unfold pinv in *; rewrite TP, OV; exact Hpi).
  pose proof (hook_run_tail c p rounds ti w t cn s1 Hh Hwf S1 T1 Hp1) as H. cbv zeta in H.
  rewrite I1, LP, A1, N1, Ac1 in H. cbn [pred] in H. exact H.
Qed.

(* the first run(): what the application does before, then run() *)
Theorem hook_master c p rounds inputs ti w t cn :
  c_hook c = true -> wf_config c ->
  let T0 := normal_term ti w t cn in
  let rs := session c p rounds inputs (init_st T0) in
  let ct := cut (plan_at p) 0 (spec_hook_session c rounds) in
  acts (snd rs) = fst ct /\ n (snd rs) = ncb (fst ct) /\ fst rs = loop_result (snd ct) /\
  tm (snd rs) = normal_term ti w t cn /\ s_started (scr (snd rs)) = false /\
  Restartable c T0 (snd rs) /\
  idle_reg (snd rs) = (match snd ct with Some (FRaise _) => 1%nat | _ => O end).
Proof.
  intros Hh Hwf. cbv zeta. rewrite session_unfold.
  destruct (hook_start_state c ti w t cn Hh) as (P1 & R1 & N1 & S1 & T1 & A1 & Ac1 & (LP & TP & OV) & I1).
  destruct (prefix c (init_st (normal_term ti w t cn))) as [r0 s0']. cbn [fst snd] in *. subst r0.
  destruct (ml_start c s0') as [r1 s1] eqn:Es. cbn [fst snd] in *. subst r1.
  rewrite (ml_run_hook_unfold c p rounds inputs s0' s1 Es).
  assert (Hpi : pinv c s1) by (unfold pinv; rewrite TP, OV; split; discriminate).
  pose proof (hook_run_tail c p rounds ti w t cn s1 Hh Hwf S1 T1 Hpi) as H. cbv zeta in H.
  rewrite I1, LP, A1, N1, Ac1 in H. cbn [app pred] in H. rewrite Z.add_0_l in H.
  change (spec_loop c 1 false (map AUser (c_pre_alarms c) ++ [AEnteringIdle]) rounds) with (spec_hook_session c rounds) in H.
  destruct H as (A & N & R & Re & I).
  split; [exact A|split; [exact N|split; [exact R|]]].
  destruct Re as (Hsc & Htm & Hp).
  split; [exact Htm|]. split; [|split; [split; [exact Hsc|split; [exact Htm|exact Hp]]|exact I]].
  destruct Hsc as [E|E]; rewrite E; reflexivity.
Qed.

(* ---------- run() on a screen without hook_event_loop ---------- *)
Definition SCp : screen := Screen true false false None None None None.

Lemma plain_start_state c ti w t cn :
  c_hook c = false ->
  let T0 := normal_term ti w t cn in
  let rs := ml_start c (snd (prefix c (init_st T0))) in
  fst (prefix c (init_st T0)) = ROk tt /\
  fst rs = RErr CantUseExternalLoop /\ n (snd rs) = 0 /\ scr (snd rs) = SCp /\ tm (snd rs) = set_plain true T0 /\
  alarms (snd rs) = map AUser (c_pre_alarms c) /\
  acts (snd rs) = [] /\
  (l_pop (snd rs) = false /\ t_pop (snd rs) = false /\ t_overlay (snd rs) = false).
Proof.
  destruct c as [hook filt unh hm pu pa fo ia ps pre sel hasm wk wm cur lau pk sr]. cbn [c_hook]. intros ->.
  destruct hm, ps; vm_compute; repeat split; reflexivity.
Qed.

Lemma plain_stop_state c ti w t cn (s2 : st) :
  c_hook c = false ->
  let T0 := normal_term ti w t cn in
  scr s2 = SCp -> tm s2 = set_plain true T0 ->
  fst (screen_stop c s2) = ROk tt /\ tm (snd (screen_stop c s2)) = T0 /\
  s_started (scr (snd (screen_stop c s2))) = false.
Proof.
  destruct c as [hook filt unh hm pu pa fo ia ps pre sel hasm wk wm cur lau pk sr]. cbn [c_hook]. intros ->.
  destruct s2 as [n2 tr2 sc2 tm2 sk2 cn2 ir2 hk2 al2 ws2 bo2 bc2 lp2 tp2 ov2]. cbn [scr tm]. intros -> ->.
  vm_compute. repeat split; reflexivity.
Qed.

Theorem plain_master c p rounds inputs ti w t cn :
  c_hook c = false -> wf_config c ->
  let T0 := normal_term ti w t cn in
  let rs := session c p rounds inputs (init_st T0) in
  let ct := cut (plan_at p) 0 (spec_plain_session c inputs) in
  acts (snd rs) = fst ct /\ n (snd rs) = ncb (fst ct) /\ fst rs = loop_result (snd ct) /\
  tm (snd rs) = T0 /\ s_started (scr (snd rs)) = false.
Proof.
  intros Hh Hwf. cbv zeta. rewrite session_unfold.
  destruct (plain_start_state c ti w t cn Hh) as (P1 & R1 & N1 & S1 & T1 & A1 & Ac1 & LP & TP & OV).
  destruct (prefix c (init_st (normal_term ti w t cn))) as [r0 s0']. cbn [fst snd] in *. subst r0.
  unfold ml_run, ml_run_inner, suppress_exit.
  destruct (ml_start c s0') as [r1 s1]. cbn [fst snd] in *. subst r1.
  assert (Hst : s_started (scr s1) = true) by (rewrite S1; reflexivity).
  assert (Hpi : pinv c s1) by (unfold pinv; rewrite TP, OV; split; discriminate).
  destruct (SemA_run_screen_event_loop c p (idle_reg s1) Hwf (alarms s1) inputs s1 Hst Hpi eq_refl (conj eq_refl LP)) as (K & A & N & R & _).
  rewrite A1, N1, Ac1 in *. cbn [app] in A. rewrite Z.add_0_l in N.
  change (spec_draw c false ++ spec_screen_loop c false (map AUser (c_pre_alarms c)) inputs) with (spec_plain_session c inputs) in *.
  unfold finally.
  destruct (run_screen_event_loop c p inputs s1) as [r2 s2]. cbn [fst snd] in *.
  destruct K as (K1 & _ & K3 & _). rewrite S1 in K1.
  assert (K2 : tm s2 = set_plain true (normal_term ti w t cn)) by (rewrite (K3 Hh); exact T1).
  destruct (plain_stop_state c ti w t cn s2 Hh K1 K2) as (F1 & F2 & F3).
  destruct (Silent_screen_stop c s2) as [Q1 Q2].
  destruct (screen_stop c s2) as [r3 s3]. cbn [fst snd] in *. subst r3.
  destruct (snd (cut (plan_at p) 0 (spec_plain_session c inputs))) as [[|e]|];
    cbn [outcome exn_of loop_result] in R |- *; subst r2; cbn [fst snd];
    repeat split; congruence.
Qed.

(* ---------- both kinds of screen; the clauses of the property ---------- *)
Theorem session_master c p rounds inputs ti w t cn :
  wf_config c ->
  let rs := session c p rounds inputs (init_st (normal_term ti w t cn)) in
  let ct := cut (plan_at p) 0 (spec_session c rounds inputs) in
  acts (snd rs) = fst ct /\ n (snd rs) = ncb (fst ct) /\ fst rs = loop_result (snd ct) /\
  tm (snd rs) = normal_term ti w t cn /\ s_started (scr (snd rs)) = false.
Proof.
  intros Hwf. unfold spec_session. destruct (c_hook c) eqn:Hh.
  - destruct (hook_master c p rounds inputs ti w t cn Hh Hwf) as (A & N & R & T & S & _).
    repeat split; assumption.
  - apply plain_master; assumption.
Qed.

Lemma initial_modes_normal T0 :
  initial_modes T0 -> T0 = normal_term (fst (t_tios T0)) (t_winch T0) (t_tstp T0) (t_cont T0).
Proof.
  destruct T0 as [a1 a2 a3 a4 a5 a6 a7 [ti cb] a9 a10 a11 a12]. unfold initial_modes, normal_term. cbn.
  intros (-> & -> & -> & -> & -> & -> & -> & -> & ->). reflexivity.
Qed.

Lemma input_order_lemma c p rounds inputs T0 :
  wf_config c -> initial_modes T0 ->
  acts (snd (session c p rounds inputs (init_st T0))) =
  fst (cut (plan_at p) 0 (spec_session c rounds inputs)).
Proof.
  intros Hwf Hi. rewrite (initial_modes_normal T0 Hi). apply session_master. exact Hwf.
Qed.

Lemma input_order_prefix_lemma c p rounds inputs T0 :
  wf_config c -> initial_modes T0 ->
  exists rest, spec_session c rounds inputs = acts (snd (session c p rounds inputs (init_st T0))) ++ rest.
Proof.
  intros Hwf Hi. rewrite (input_order_lemma c p rounds inputs T0 Hwf Hi). apply cut_prefix.
Qed.

Definition callbacks_of_session c rounds inputs : nat := Z.to_nat (ncb (spec_session c rounds inputs)).

Lemma no_fault_complete_lemma c p rounds inputs T0 :
  wf_config c -> initial_modes T0 ->
  first_fault (plan_at p) 0 (callbacks_of_session c rounds inputs) = None ->
  acts (snd (session c p rounds inputs (init_st T0))) = spec_session c rounds inputs /\
  fst (session c p rounds inputs (init_st T0)) = ROk tt.
Proof.
  intros Hwf Hi Hf. rewrite (initial_modes_normal T0 Hi).
  destruct (session_master c p rounds inputs (fst (t_tios T0)) (t_winch T0) (t_tstp T0) (t_cont T0) Hwf) as (A & N & R & _).
  pose proof (cut_first_fault (plan_at p) (spec_session c rounds inputs) 0) as H.
  unfold callbacks_of_session in Hf. rewrite Hf in H.
  split; [rewrite A; apply cut_nofault_all; exact H|rewrite R, H; reflexivity].
Qed.

Lemma exit_is_normal_lemma c p rounds inputs T0 j :
  wf_config c -> initial_modes T0 ->
  first_fault (plan_at p) 0 (callbacks_of_session c rounds inputs) = Some (j, FExit) ->
  fst (session c p rounds inputs (init_st T0)) = ROk tt /\
  n (snd (session c p rounds inputs (init_st T0))) = j + 1.
Proof.
  intros Hwf Hi Hf. rewrite (initial_modes_normal T0 Hi).
  destruct (session_master c p rounds inputs (fst (t_tios T0)) (t_winch T0) (t_tstp T0) (t_cont T0) Hwf) as (A & N & R & _).
  pose proof (cut_first_fault (plan_at p) (spec_session c rounds inputs) 0) as H.
  unfold callbacks_of_session in Hf. rewrite Hf in H. destruct H as [H1 H2].
  split; [rewrite R, H1; reflexivity|rewrite N; lia].
Qed.

Lemma other_propagates_lemma c p rounds inputs T0 j e :
  wf_config c -> initial_modes T0 ->
  first_fault (plan_at p) 0 (callbacks_of_session c rounds inputs) = Some (j, FRaise e) ->
  fst (session c p rounds inputs (init_st T0)) = RErr (UserExc e) /\
  n (snd (session c p rounds inputs (init_st T0))) = j + 1.
Proof.
  intros Hwf Hi Hf. rewrite (initial_modes_normal T0 Hi).
  destruct (session_master c p rounds inputs (fst (t_tios T0)) (t_winch T0) (t_tstp T0) (t_cont T0) Hwf) as (A & N & R & _).
  pose proof (cut_first_fault (plan_at p) (spec_session c rounds inputs) 0) as H.
  unfold callbacks_of_session in Hf. rewrite Hf in H. destruct H as [H1 H2].
  split; [rewrite R, H1; reflexivity|rewrite N; lia].
Qed.

(* run() never lets anything else out: ExitMainLoop is always swallowed *)
Lemma outcome_cases_lemma c p rounds inputs T0 :
  wf_config c -> initial_modes T0 ->
  fst (session c p rounds inputs (init_st T0)) = ROk tt \/
  exists j e, plan_at p j = Some (FRaise e) /\ (forall i, 0 <= i < j -> plan_at p i = None) /\
              n (snd (session c p rounds inputs (init_st T0))) = j + 1 /\
              fst (session c p rounds inputs (init_st T0)) = RErr (UserExc e).
Proof.
  intros Hwf Hi.
  destruct (first_fault (plan_at p) 0 (callbacks_of_session c rounds inputs)) as [[j [|e]]|] eqn:Hf.
  - left. eapply exit_is_normal_lemma; eassumption.
  - right. destruct (first_fault_none_before _ _ _ _ _ Hf) as (H1 & H2 & H3).
    destruct (other_propagates_lemma c p rounds inputs T0 j e Hwf Hi Hf) as [R N].
    exists j, e. repeat split; assumption.
  - left. eapply no_fault_complete_lemma; eassumption.
Qed.

Lemma always_restored_lemma c p rounds inputs T0 :
  wf_config c -> initial_modes T0 ->
  tm (snd (session c p rounds inputs (init_st T0))) = T0 /\
  s_started (scr (snd (session c p rounds inputs (init_st T0)))) = false.
Proof.
  intros Hwf Hi. rewrite (initial_modes_normal T0 Hi).
  destruct (session_master c p rounds inputs (fst (t_tios T0)) (t_winch T0) (t_tstp T0) (t_cont T0) Hwf) as (_ & _ & _ & T & S).
  split; [exact T|exact S].
Qed.

(* ---------- run() again ---------- *)
Lemma restartable_stopped c T0 s : Restartable c T0 s -> s_started (scr s) = false.
Proof. intros ([E|E] & _); rewrite E; reflexivity. Qed.

(* after the first session - whatever the plan: normal end, ExitMainLoop or an exception at any point - the
   state is restartable; the only thing an exception leaves behind in the loop's idle phase is MainLoop's
   idle callback of that run (MainLoop.stop() is not called on that path) *)
Lemma first_run_restartable_lemma c p rounds inputs T0 :
  c_hook c = true -> wf_config c -> initial_modes T0 ->
  let s1 := snd (session c p rounds inputs (init_st T0)) in
  Restartable c T0 s1 /\
  idle_reg s1 = (match snd (cut (plan_at p) 0 (spec_hook_session c rounds)) with Some (FRaise _) => 1%nat | _ => O end).
Proof.
  intros Hh Hwf Hi. cbv zeta. rewrite (initial_modes_normal T0 Hi).
  destruct (hook_master c p rounds inputs (fst (t_tios T0)) (t_winch T0) (t_tstp T0) (t_cont T0) Hh Hwf)
    as (_ & _ & _ & _ & _ & Re & I).
  split; [exact Re|exact I].
Qed.

(* run() from a restartable state, stated for an arbitrary initial terminal *)
Lemma rerun_lemma c p rounds inputs T0 s :
  c_hook c = true -> wf_config c -> initial_modes T0 -> Restartable c T0 s ->
  let L := spec_loop c (S (idle_reg s)) (l_pop s) (alarms s ++ [AEnteringIdle]) rounds in
  let ct := cut (plan_at p) (n s) L in
  let rs := ml_run c p rounds inputs s in
  acts (snd rs) = acts s ++ fst ct /\ n (snd rs) = n s + ncb (fst ct) /\ fst rs = loop_result (snd ct) /\
  tm (snd rs) = T0 /\ s_started (scr (snd rs)) = false /\ Restartable c T0 (snd rs) /\
  idle_reg (snd rs) = (match snd ct with Some (FRaise _) => S (idle_reg s) | _ => idle_reg s end).
Proof.
  intros Hh Hwf Hi Hr. cbv zeta. revert Hr. rewrite (initial_modes_normal T0 Hi). intros Hr.
  destruct (hook_rerun c p rounds inputs (fst (t_tios T0)) (t_winch T0) (t_tstp T0) (t_cont T0) s Hh Hwf Hr)
    as (A & N & R & Re & I).
  split; [exact A|split; [exact N|split; [exact R|split; [apply Re|split; [eapply restartable_stopped; exact Re|split; [exact Re|exact I]]]]]].
Qed.

(* ---------- reading the specification ---------- *)
Lemma In_overlay_spec c t : In t (overlay_spec c) -> t = TRender.
Proof. unfold overlay_spec. destruct (c_pop_ups c); cbn; intuition congruence. Qed.

Ltac not_in_there H :=
  exfalso; repeat (destruct H as [H|H]); try discriminate H; try contradiction;
  try (apply In_overlay_spec in H; discriminate H).

(* a key offered to the topmost widget (the open pop-up, else the body behind the launcher) reaches
   unhandled_input exactly when that widget returned a key (did not handle it) and that key is not the
   REDRAW_SCREEN command *)
Lemma unhandled_iff_lemma c o x :
  w_selectable c = true -> c_unhandled c <> None ->
  let r := keypress_result c o x in
  In (TUnhandled (KKey r)) (fst (spec_key c o (KKey x))) <-> (r <> 0 /\ r <> 12).
Proof.
  intros Hs Hu r. cbn [spec_key]. rewrite Hs. cbn [fst]. fold r.
  rewrite !in_app_iff. cbn [In]. unfold spec_after, spec_unhandled, is_redraw, keypress_cb.
  destruct (c_unhandled c) as [u|]; [clear Hu|congruence].
  destruct (r =? 0) eqn:E0; [apply Z.eqb_eq in E0|apply Z.eqb_neq in E0].
  - split; [|intros [H _]; congruence]. intros H. destruct (pop_shown c o); not_in_there H.
  - destruct (r =? 12) eqn:E12; [apply Z.eqb_eq in E12|apply Z.eqb_neq in E12]; cbn [In].
    + split; [|intros [_ H]; congruence]. intros H. destruct (pop_shown c o); not_in_there H.
    + split; [intros _; split; assumption|]. intros _. right. right. left. reflexivity.
Qed.

(* mouse events: the body's mouse_event while no pop-up is shown; an open pop-up does not handle them *)
Lemma mouse_unhandled_iff_lemma c o b cl rw :
  w_has_mouse c = true -> c_unhandled c <> None ->
  In (TUnhandled (KMouse b cl rw)) (fst (spec_key c o (KMouse b cl rw))) <->
  (pop_shown c o = true \/ widget_mouse c b = false).
Proof.
  intros Hm Hu. cbn [spec_key]. unfold spec_after, spec_unhandled. cbn [is_redraw].
  destruct (c_unhandled c) as [u|]; [clear Hu|congruence].
  destruct (pop_shown c o); cbn [fst].
  - rewrite in_app_iff. cbn [In]. split; [intros _; left; reflexivity|]. intros _. right. left. reflexivity.
  - rewrite Hm. cbn [fst]. rewrite !in_app_iff. cbn [In]. destruct (widget_mouse c b); cbn [In].
    + split; [|intros [H|H]; discriminate]. intros H. not_in_there H.
    + split; [intros _; right; reflexivity|]. intros _. right. right. left. reflexivity.
Qed.

(* every round of events ends with: render the topmost widget, then screen.draw_screen
   (as long as MainLoop's idle callback is registered, which start() sees to) *)
Lemma spec_draw_ends c o : exists l, spec_draw c o = l ++ [TRender; TDraw].
Proof.
  unfold spec_draw. destruct (pop_shown c o).
  - exists (overlay_spec c ++ [TRender]). rewrite <- !app_assoc. reflexivity.
  - exists (overlay_spec c). reflexivity.
Qed.
Lemma spec_idle_ends c o k : exists l, spec_idle c (S k) o = l ++ [TRender; TDraw].
Proof.
  induction k as [|k IH].
  - cbn [spec_idle]. rewrite app_nil_r. apply spec_draw_ends.
  - destruct IH as [l Hl]. exists (spec_draw c o ++ l).
    change (spec_idle c (S (S k)) o) with (spec_draw c o ++ spec_idle c (S k) o). rewrite Hl, app_assoc. reflexivity.
Qed.
Lemma round_ends_with_redraw_lemma c k o r : exists l, fst (spec_round c (S k) o r) = l ++ [TRender; TDraw].
Proof.
  unfold spec_round. cbn [fst].
  destruct (spec_idle_ends c (snd (thread (spec_fd_event c) o r)) k) as [l Hl]. rewrite Hl.
  eexists. rewrite !app_assoc. reflexivity.
Qed.

(* ---------- pop-up routing over whole histories of keys ---------- *)
(* the obvious automaton: 'o' (111) typed while the pop-up is closed opens it, 'x' (120) typed into the open
   pop-up closes it; every key goes to the pop-up while it is open and to the body (launcher) otherwise *)
Definition is_keypress (t : tev) : bool :=
  match t with TKeypress _ | TPopKey _ => true | _ => false end.
Definition route_next (o : bool) (x : Z) : bool :=
  if o then negb (x =? 120) else (x =? 111).
Fixpoint route (o : bool) (ks : list key) : list tev :=
  match ks with
  | [] => []
  | KKey x :: r => (if o then TPopKey x else TKeypress x) :: route (route_next o x) r
  | _ :: r => route o r
  end.
Fixpoint route_state (o : bool) (ks : list key) : bool :=
  match ks with
  | [] => o
  | KKey x :: r => route_state (route_next o x) r
  | _ :: r => route_state o r
  end.

Lemma filter_keypress_overlay c : filter is_keypress (overlay_spec c) = [].
Proof. unfold overlay_spec. destruct (c_pop_ups c); reflexivity. Qed.
Lemma filter_keypress_after c k : filter is_keypress (spec_after c k) = [].
Proof.
  unfold spec_after, spec_unhandled. destruct (is_redraw k); [reflexivity|].
  destruct (c_unhandled c); reflexivity.
Qed.

Lemma popup_routing_lemma c : c_pop_ups c = true -> c_launcher c = true -> w_selectable c = true ->
  forall ks o,
    filter is_keypress (fst (spec_keys c o ks)) = route o ks /\
    snd (spec_keys c o ks) = route_state o ks.
Proof.
  intros Hpu Hl Hsel. induction ks as [|k r IH]; intros o; cbn [spec_keys thread fst snd route route_state].
  - split; reflexivity.
  - change (thread (spec_key c)) with (spec_keys c). rewrite filter_app.
    destruct k as [|x|b cl rw]; cbn [spec_key].
    + cbn [fst snd filter app]. apply IH.
    + rewrite Hsel. cbn [fst snd]. rewrite !filter_app, filter_keypress_overlay. cbn [app].
      assert (Hn : keypress_open c o x = route_next o x).
      { unfold keypress_open, route_next, pop_shown. rewrite Hpu, Hl. cbn [andb].
        destruct o; [destruct (x =? 120); reflexivity|destruct (x =? 111); reflexivity]. }
      assert (Hc : keypress_cb c o x = if o then TPopKey x else TKeypress x).
      { unfold keypress_cb, pop_shown. rewrite Hpu. cbn [andb]. reflexivity. }
      rewrite Hn, Hc.
      replace (filter is_keypress (if keypress_result c o x =? 0 then [] else spec_after c (KKey (keypress_result c o x)))) with (@nil tev)
        by (destruct (keypress_result c o x =? 0); [reflexivity|symmetry; apply filter_keypress_after]).
      destruct (IH (route_next o x)) as [IH1 IH2]. rewrite IH1, IH2.
      destruct o; split; reflexivity.
    + assert (E : filter is_keypress (fst (if pop_shown c o then (overlay_spec c ++ spec_after c (KMouse b cl rw), o)
                   else if w_has_mouse c then (overlay_spec c ++ [TMouse b cl rw] ++ (if widget_mouse c b then [] else spec_after c (KMouse b cl rw)), o)
                   else (spec_after c (KMouse b cl rw), o))) = []
                /\ snd (if pop_shown c o then (overlay_spec c ++ spec_after c (KMouse b cl rw), o)
                   else if w_has_mouse c then (overlay_spec c ++ [TMouse b cl rw] ++ (if widget_mouse c b then [] else spec_after c (KMouse b cl rw)), o)
                   else (spec_after c (KMouse b cl rw), o)) = o).
      { destruct (pop_shown c o); [|destruct (w_has_mouse c)]; cbn [fst snd];
          rewrite ?filter_app, ?filter_keypress_overlay, ?filter_keypress_after; cbn [filter is_keypress app];
          try (destruct (widget_mouse c b); rewrite ?filter_keypress_after); split; reflexivity. }
      destruct E as [E1 E2]. rewrite E1, E2. cbn [app]. apply IH.
Qed.
