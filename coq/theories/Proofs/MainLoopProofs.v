(* C12 - proofs about Model/MainLoop.v: the interpreter refines the specification lists of
   MainLoopSpec.v cut at the first fault; the outcome of run() is determined by that fault;
   the terminal is restored on every path. *)
From Coq Require Import ZArith List Bool Lia.
Import ListNotations.
From Urwid Require Import PyBase MainLoop MainLoopSpec.
Open Scope Z_scope.
Arguments Z.add : simpl never.
Arguments Z.eqb : simpl never.

(* ---------- cut / ncb / first_fault ---------- *)
Lemma ncb_app l1 l2 : ncb (l1 ++ l2) = ncb l1 + ncb l2.
Proof. induction l1; cbn [ncb app]; lia. Qed.

Lemma ncb_nonneg l : 0 <= ncb l.
Proof. induction l; cbn [ncb]; [lia|destruct (is_cb a); lia]. Qed.

Lemma cut_app P L1 : forall i L2,
  cut P i (L1 ++ L2) =
  match snd (cut P i L1) with
  | Some f => cut P i L1
  | None => (fst (cut P i L1) ++ fst (cut P (i + ncb (fst (cut P i L1))) L2),
             snd (cut P (i + ncb (fst (cut P i L1))) L2))
  end.
Proof.
  induction L1 as [|a L1 IH]; intros i L2; cbn [app cut fst snd ncb].
  - rewrite Z.add_0_r. destruct (cut P i L2); reflexivity.
  - destruct (is_cb a) eqn:Ea.
    + destruct (P i) eqn:Ep; cbn [fst snd]; [reflexivity|].
      rewrite IH. destruct (snd (cut P (i + 1) L1)) eqn:E1; cbn [fst snd ncb].
      * destruct (cut P (i + 1) L1); cbn [fst snd] in *; subst; reflexivity.
      * rewrite Ea. replace (i + (1 + ncb (fst (cut P (i + 1) L1)))) with (i + 1 + ncb (fst (cut P (i + 1) L1))) by lia.
        reflexivity.
    + rewrite IH. destruct (snd (cut P i L1)) eqn:E1; cbn [fst snd ncb].
      * destruct (cut P i L1); cbn [fst snd] in *; subst; reflexivity.
      * rewrite Ea. rewrite Z.add_0_l. reflexivity.
Qed.

Lemma cut_nofault_all P L : forall i, snd (cut P i L) = None -> fst (cut P i L) = L.
Proof.
  induction L as [|a L IH]; intros i H; cbn [cut fst snd] in *; [reflexivity|].
  destruct (is_cb a).
  - destruct (P i); cbn [fst snd] in *; [discriminate|]. f_equal. apply IH; exact H.
  - cbn [fst snd] in *. f_equal. apply IH; exact H.
Qed.

(* the list kept by [cut] is a prefix of the specification list *)
Lemma cut_prefix P L : forall i, exists rest, L = fst (cut P i L) ++ rest.
Proof.
  induction L as [|a L IH]; intros i; cbn [cut fst].
  - exists []; reflexivity.
  - destruct (is_cb a).
    + destruct (P i); cbn [fst].
      * exists L; reflexivity.
      * destruct (IH (i + 1)) as [r Hr]. exists r. cbn [app]. f_equal. exact Hr.
    + cbn [fst]. destruct (IH i) as [r Hr]. exists r. cbn [app]. f_equal. exact Hr.
Qed.

(* the fault found by [cut] is the first planned fault among the callback indices of the list;
   when there is one, the kept list ends with exactly that invocation *)
Lemma cut_first_fault P L : forall i,
  match first_fault P i (Z.to_nat (ncb L)) with
  | None => snd (cut P i L) = None
  | Some (j, f) => snd (cut P i L) = Some f /\ i + ncb (fst (cut P i L)) = j + 1
  end.
Proof.
  induction L as [|a L IH]; intros i; cbn [ncb cut fst snd].
  - reflexivity.
  - pose proof (ncb_nonneg L) as Hn. destruct (is_cb a) eqn:Ea.
    + replace (Z.to_nat (1 + ncb L)) with (S (Z.to_nat (ncb L))) by lia.
      cbn [first_fault]. destruct (P i) eqn:Ep; cbn [fst snd ncb].
      * rewrite Ea. split; [reflexivity|lia].
      * specialize (IH (i + 1)). destruct (first_fault P (i + 1) (Z.to_nat (ncb L))) as [[j f]|].
        -- rewrite Ea. destruct IH as [H1 H2]. split; [exact H1|lia].
        -- exact IH.
    + rewrite Z.add_0_l. specialize (IH i). cbn [fst snd ncb]. rewrite Ea.
      destruct (first_fault P i (Z.to_nat (ncb L))) as [[j f]|]; [|exact IH].
      destruct IH as [H1 H2]. split; [exact H1|lia].
Qed.

Lemma first_fault_none_before P k : forall i j f,
  first_fault P i k = Some (j, f) -> P j = Some f /\ i <= j /\ forall x, i <= x < j -> P x = None.
Proof.
  induction k as [|k IH]; intros i j f H; cbn [first_fault] in H; [discriminate|].
  destruct (P i) eqn:Ep.
  - inversion H; subst. split; [exact Ep|]. split; [lia|]. intros; lia.
  - destruct (IH _ _ _ H) as (H1 & H2 & H3). split; [exact H1|]. split; [lia|].
    intros x Hx. destruct (Z.eq_dec x i); [subst; exact Ep|apply H3; lia].
Qed.

(* ---------- the trace projection ---------- *)
Lemma acts_cons t s n' sc' tm' a b d e f g h i :
  acts (St n' (t :: tr s) sc' tm' a b d e f g h i) = acts s ++ (if is_act t then [t] else []).
Proof.
  unfold acts. cbn [tr rev]. rewrite filter_app. cbn [filter]. destruct (is_act t); reflexivity.
Qed.

Section WithConfig.
Variable c : config.
Variable p : list (Z * fault).
Notation P := (plan_at p).

(* what the operations inside the loop leave alone: the Screen object and every terminal mode
   except cursor visibility (which stop() forces anyway); a plain screen writes no mode at all *)
Definition Keeps (s s' : st) : Prop :=
  scr s' = scr s /\ set_mode 25 true (tm s') = set_mode 25 true (tm s) /\ (c_hook c = false -> tm s' = tm s).

Lemma Keeps_refl s : Keeps s s.
Proof. unfold Keeps. repeat split. Qed.
Lemma Keeps_trans a b d : Keeps a b -> Keeps b d -> Keeps a d.
Proof.
  intros (A1 & A2 & A3) (B1 & B2 & B3). unfold Keeps. repeat split; try congruence.
  intros H. rewrite (B3 H). apply A3. exact H.
Qed.
Ltac keeps_triv := unfold Keeps; repeat split; try (intros; reflexivity).

Definition outcome {A} (r0 : res A) (o : option fault) : res A :=
  match o with None => r0 | Some f => RErr (exn_of f) end.

(* [SemA al m L r0 Q]: from any state with a started screen and pending alarms [al], [m] performs
   the actions of [L] cut at the first planned fault, numbering the callbacks from the current
   index; its result is [r0] when no fault was hit (and then the pending alarms satisfy [Q]) and
   exactly the planned exception otherwise. *)
Definition SemA {A} (al : list alarm) (m : M A) (L : list tev) (r0 : res A) (Q : list alarm -> Prop) : Prop :=
  forall s, s_started (scr s) = true -> alarms s = al ->
    Keeps s (snd (m s)) /\
    acts (snd (m s)) = acts s ++ fst (cut P (n s) L) /\
    n (snd (m s)) = n s + ncb (fst (cut P (n s) L)) /\
    fst (m s) = outcome r0 (snd (cut P (n s) L)) /\
    (snd (cut P (n s) L) = None -> Q (alarms (snd (m s)))).
(* the common case: returns [v], leaves the pending alarms alone *)
Definition Sem {A} (m : M A) (L : list tev) (v : A) : Prop := forall al, SemA al m L (ROk v) (eq al).

Lemma SemA_bind {A B} al (m : M A) (f : A -> M B) L1 L2 v r Q1 Q2 :
  SemA al m L1 (ROk v) Q1 -> (forall al1, Q1 al1 -> SemA al1 (f v) L2 r Q2) ->
  SemA al (bindM m f) (L1 ++ L2) r Q2.
Proof.
  intros Hm Hf s Hs Ha. destruct (Hm s Hs Ha) as (K1 & A1 & N1 & R1 & Q1').
  unfold bindM. rewrite cut_app.
  destruct (m s) as [r1 s1] eqn:E. cbn [fst snd] in *.
  destruct (snd (cut P (n s) L1)) as [ft|] eqn:C1; cbn [outcome] in R1; subst r1.
  - cbn [fst snd]. split; [exact K1|split; [exact A1|split; [exact N1|split; [rewrite C1; reflexivity|]]]].
    rewrite C1. discriminate.
  - assert (Hs1 : s_started (scr s1) = true) by (destruct K1 as [K _]; rewrite K; exact Hs).
    destruct (Hf _ (Q1' eq_refl) s1 Hs1 eq_refl) as (K2 & A2 & N2 & R2 & Q2'). rewrite N1 in *.
    destruct (f v s1) as [r2 s2]. cbn [fst snd] in *.
    split; [eapply Keeps_trans; eassumption|].
    split; [rewrite A2, A1, app_assoc; reflexivity|].
    split; [rewrite N2, ncb_app; lia|]. split; [exact R2|exact Q2'].
Qed.

Lemma Sem_bind {A B} (m : M A) (f : A -> M B) L1 L2 v w :
  Sem m L1 v -> Sem (f v) L2 w -> Sem (bindM m f) (L1 ++ L2) w.
Proof. intros Hm Hf al. eapply SemA_bind; [apply Hm|]. intros al1 <-. apply Hf. Qed.

(* a step that leaves the alarms alone, followed by anything *)
Lemma SemA_step {A B} al (m : M A) (f : A -> M B) L1 L2 v r Q :
  Sem m L1 v -> SemA al (f v) L2 r Q -> SemA al (bindM m f) (L1 ++ L2) r Q.
Proof. intros Hm Hf. eapply SemA_bind; [apply Hm|]. intros al1 <-. exact Hf. Qed.

Lemma Sem_ret {A} (v : A) : Sem (ret v) [] v.
Proof.
  intros al s Hs Ha. cbn [ret fst snd cut ncb outcome]. rewrite app_nil_r, Z.add_0_r.
  split; [apply Keeps_refl|]. repeat split; try reflexivity. intros _. symmetry; exact Ha.
Qed.

Lemma Sem_seq {A} (m : M unit) (k : M A) L1 L2 w :
  Sem m L1 tt -> Sem k L2 w -> Sem (bindM m (fun _ => k)) (L1 ++ L2) w.
Proof. intros; eapply Sem_bind; eassumption. Qed.

Lemma Sem_get {A B} (g : st -> A) (k : A -> M B) L w :
  (forall x, Sem (k x) L w) -> Sem (bindM (get g) k) L w.
Proof. intros H al s Hs Ha. unfold bindM, get. apply H; assumption. Qed.

Lemma Sem_cb t : is_cb t = true -> Sem (cb p t) [t] tt.
Proof.
  intros Ht al s Hs Ha. unfold cb. cbn [cut]. rewrite Ht.
  assert (Hact : is_act t = true) by (unfold is_act; rewrite Ht; reflexivity).
  destruct (P (n s)) eqn:Ep; cbn [fst snd ncb outcome]; rewrite ?acts_cons, ?Hact, ?Ht;
    (split; [keeps_triv|split; [reflexivity|split; [cbn [n]; lia|split; [reflexivity|]]]]).
  - discriminate.
  - intros _. symmetry; exact Ha.
Qed.

Lemma Sem_emit_silent t : is_act t = false -> Sem (emit t) [] tt.
Proof.
  intros Ht al s Hs Ha. unfold emit. cbn [fst snd cut ncb outcome]. rewrite acts_cons, Ht.
  split; [keeps_triv|split; [reflexivity|split; [cbn [n]; lia|split; [reflexivity|]]]].
  intros _. symmetry; exact Ha.
Qed.

Lemma Sem_emit_draw : Sem (emit TDraw) [TDraw] tt.
Proof.
  intros al s Hs Ha. unfold emit. cbn [fst snd cut ncb outcome is_cb]. rewrite acts_cons. cbn [is_act is_cb orb].
  split; [keeps_triv|split; [reflexivity|split; [cbn [n]; lia|split; [reflexivity|]]]].
  intros _. symmetry; exact Ha.
Qed.

Lemma Sem_set_size_known b : Sem (set_size_known b) [] tt.
Proof.
  intros al s Hs Ha. unfold set_size_known. cbn [fst snd cut ncb outcome]. rewrite app_nil_r, Z.add_0_r.
  split; [keeps_triv|]. repeat split; try reflexivity. intros _. symmetry; exact Ha.
Qed.
Lemma Sem_set_hooked b : Sem (set_hooked b) [] tt.
Proof.
  intros al s Hs Ha. unfold set_hooked. cbn [fst snd cut ncb outcome]. rewrite app_nil_r, Z.add_0_r.
  split; [keeps_triv|]. repeat split; try reflexivity. intros _. symmetry; exact Ha.
Qed.
Lemma Sem_set_wstate v : Sem (set_wstate v) [] tt.
Proof.
  intros al s Hs Ha. unfold set_wstate. cbn [fst snd cut ncb outcome]. rewrite app_nil_r, Z.add_0_r.
  split; [keeps_triv|]. repeat split; try reflexivity. intros _. symmetry; exact Ha.
Qed.
Lemma Sem_set_buf_ok b : Sem (set_buf_ok b) [] tt.
Proof.
  intros al s Hs Ha. unfold set_buf_ok. cbn [fst snd cut ncb outcome]. rewrite app_nil_r, Z.add_0_r.
  split; [keeps_triv|]. repeat split; try reflexivity. intros _. symmetry; exact Ha.
Qed.
Lemma Sem_set_buf_canvas o : Sem (set_buf_canvas o) [] tt.
Proof.
  intros al s Hs Ha. unfold set_buf_canvas. cbn [fst snd cut ncb outcome]. rewrite app_nil_r, Z.add_0_r.
  split; [keeps_triv|]. repeat split; try reflexivity. intros _. symmetry; exact Ha.
Qed.
Lemma SemA_set_alarms al l : SemA al (set_alarms l) [] (ROk tt) (eq l).
Proof.
  intros s Hs Ha. unfold set_alarms. cbn [fst snd cut ncb outcome]. rewrite app_nil_r, Z.add_0_r.
  split; [keeps_triv|]. repeat split; reflexivity.
Qed.
Lemma SemA_get_alarms {B} al (k : list alarm -> M B) L r Q :
  SemA al (k al) L r Q -> SemA al (bindM (get alarms) k) L r Q.
Proof. intros H s Hs Ha. unfold bindM, get. rewrite Ha. apply H; assumption. Qed.

Lemma set_mode_cursor_idem b t : set_mode 25 true (set_mode 25 b t) = set_mode 25 true t.
Proof. reflexivity. Qed.

Lemma Sem_upd_cursor b : c_hook c = true -> Sem (upd_tm (set_mode 25 b)) [] tt.
Proof.
  intros Hh al s Hs Ha. unfold upd_tm. cbn [fst snd cut ncb outcome scr tm n]. rewrite app_nil_r, Z.add_0_r.
  split; [unfold Keeps; cbn [scr tm]; split; [reflexivity|split; [apply set_mode_cursor_idem|congruence]]|].
  repeat split; try reflexivity. intros _. symmetry; exact Ha.
Qed.

Lemma Sem_write_cursor b : c_hook c = true -> Sem (write_mode 25 b) [] tt.
Proof.
  intros Hh. unfold write_mode. change (@nil tev) with (@nil tev ++ []).
  apply Sem_seq; [apply Sem_emit_silent; reflexivity|apply Sem_upd_cursor; exact Hh].
Qed.

Lemma Sem_conv {A} (m : M A) L L' v : Sem m L v -> L = L' -> Sem m L' v.
Proof. intros H <-; exact H. Qed.
Lemma SemA_conv {A} al (m : M A) L L' r Q : SemA al m L r Q -> L = L' -> SemA al m L' r Q.
Proof. intros H <-; exact H. Qed.

Lemma Sem_when (b : bool) (m : M unit) L : Sem m L tt -> Sem (if b then m else ret tt) (if b then L else []) tt.
Proof. destruct b; [auto|intros; apply Sem_ret]. Qed.

(* ---------- the topmost widget ---------- *)
Lemma Sem_update_overlay : Sem (update_overlay c p) (overlay_spec c) tt.
Proof.
  unfold update_overlay, overlay_spec. destruct (c_pop_ups c); [apply Sem_cb; reflexivity|apply Sem_ret].
Qed.

Lemma Sem_widget_changed : Sem widget_changed [] tt.
Proof. unfold widget_changed. apply Sem_get. intros ws. apply Sem_set_wstate. Qed.

Lemma Sem_changed_if (b : bool) : Sem (if b then widget_changed else ret tt) [] tt.
Proof. destruct b; [apply Sem_widget_changed|apply Sem_ret]. Qed.

Lemma Sem_topmost_keypress x :
  Sem (topmost_keypress c p x) (overlay_spec c ++ [TKeypress x]) (widget_keypress c x).
Proof.
  unfold topmost_keypress. apply Sem_seq; [apply Sem_update_overlay|].
  eapply Sem_conv; [eapply Sem_seq; [apply Sem_cb; reflexivity|]|reflexivity].
  eapply Sem_conv; [eapply Sem_seq; [apply Sem_changed_if|apply Sem_ret]|reflexivity].
Qed.

Lemma Sem_widget_mouse_event b cl rw :
  Sem (widget_mouse_event c p b cl rw) [TMouse b cl rw] (widget_mouse c b).
Proof.
  unfold widget_mouse_event.
  eapply Sem_conv; [eapply Sem_seq; [apply Sem_cb; reflexivity|]|reflexivity].
  eapply Sem_conv; [eapply Sem_seq; [apply Sem_changed_if|apply Sem_ret]|reflexivity].
Qed.

Hypothesis wf : wf_config c.

Lemma Sem_topmost_mouse_event b cl rw :
  Sem (topmost_mouse_event c p b cl rw)
      (if w_has_mouse c then overlay_spec c ++ [TMouse b cl rw] else [])
      (if w_has_mouse c then widget_mouse c b else false).
Proof.
  unfold topmost_mouse_event. destruct (c_pop_ups c) eqn:Epu.
  - rewrite (wf Epu). apply Sem_seq; [apply Sem_update_overlay|apply Sem_widget_mouse_event].
  - destruct (w_has_mouse c).
    + unfold overlay_spec. rewrite Epu. cbn [app]. apply Sem_widget_mouse_event.
    + apply Sem_ret.
Qed.

Lemma Sem_topmost_render : Sem (topmost_render c p) (overlay_spec c ++ [TRender]) tt.
Proof. unfold topmost_render. apply Sem_seq; [apply Sem_update_overlay|apply Sem_cb; reflexivity]. Qed.

(* ---------- MainLoop input pipeline ---------- *)
Lemma Sem_input_filter ks : Sem (input_filter c p ks) (spec_filter c ks) (filtered c ks).
Proof.
  unfold input_filter, spec_filter, filtered. destruct (c_filter c).
  - eapply Sem_conv; [eapply Sem_seq; [apply Sem_cb; reflexivity|apply Sem_ret]|reflexivity].
  - apply Sem_ret.
Qed.

Lemma Sem_unhandled_input k : Sem (unhandled_input c p k) (spec_unhandled c k) tt.
Proof.
  unfold unhandled_input, spec_unhandled. destruct (c_unhandled c); [apply Sem_cb; reflexivity|apply Sem_ret].
Qed.

Lemma Sem_screen_clear : Sem screen_clear [] tt.
Proof.
  unfold screen_clear.
  eapply Sem_conv; [eapply Sem_seq; [apply Sem_emit_silent; reflexivity|apply Sem_set_buf_ok]|reflexivity].
Qed.

Lemma Sem_after_widget k : Sem (after_widget c p k) (spec_after c k) tt.
Proof.
  unfold after_widget, spec_after. destruct (is_redraw k); [apply Sem_screen_clear|apply Sem_unhandled_input].
Qed.

Lemma Sem_process_key k : Sem (process_key c p k) (spec_key c k) tt.
Proof.
  destruct k as [|x|b cl rw]; cbn [process_key spec_key].
  - apply Sem_ret.
  - destruct (w_selectable c); [|apply Sem_after_widget].
    rewrite app_assoc. eapply Sem_bind; [apply Sem_topmost_keypress|].
    destruct (widget_keypress c x =? 0); [apply Sem_ret|apply Sem_after_widget].
  - pose proof (Sem_topmost_mouse_event b cl rw) as H. destruct (w_has_mouse c).
    + rewrite app_assoc. eapply Sem_bind; [exact H|].
      destruct (widget_mouse c b); [apply Sem_ret|apply Sem_after_widget].
    + eapply Sem_conv; [eapply Sem_bind; [exact H|apply Sem_after_widget]|reflexivity].
Qed.

Lemma Sem_for_each {X} (f : X -> M unit) (S : X -> list tev) l :
  (forall x, Sem (f x) (S x) tt) -> Sem (for_each f l) (flat_map S l) tt.
Proof.
  intros H. induction l as [|x l IH]; cbn [for_each flat_map]; [apply Sem_ret|].
  apply Sem_seq; [apply H|exact IH].
Qed.

Lemma Sem_size_check (sk : bool) :
  Sem (if sk then ret tt else bindM get_cols_rows (fun _ => set_size_known true)) [] tt.
Proof.
  destruct sk; [apply Sem_ret|].
  eapply Sem_conv; [eapply Sem_seq; [apply Sem_emit_silent; reflexivity|apply Sem_set_size_known]|reflexivity].
Qed.

Lemma Sem_process_input ks : Sem (process_input c p ks) (flat_map (spec_key c) ks) tt.
Proof.
  unfold process_input. apply Sem_get. intros sk.
  eapply Sem_conv; [eapply Sem_seq; [apply Sem_size_check|]|apply app_nil_l].
  apply Sem_for_each. apply Sem_process_key.
Qed.

Lemma Sem_update ks : Sem (update c p ks) (spec_update c ks) tt.
Proof.
  unfold update, spec_update. eapply Sem_bind; [apply Sem_input_filter|].
  destruct (filtered c ks) as [|k ks'] eqn:E; cbn [is_nil]; [apply Sem_ret|].
  eapply Sem_conv; [eapply Sem_seq; [apply Sem_process_input|]|apply app_nil_r].
  destruct (has_resize (k :: ks')); [apply Sem_set_size_known|apply Sem_ret].
Qed.

(* ---------- redraw ---------- *)
Lemma Sem_get_started {B} (k : bool -> M B) L w :
  Sem (k true) L w -> Sem (bindM (get (fun s => s_started (scr s))) k) L w.
Proof. intros H al s Hs Ha. unfold bindM, get. rewrite Hs. apply H; assumption. Qed.

Lemma Sem_screen_draw_screen : Sem (screen_draw_screen c) [TDraw] tt.
Proof.
  unfold screen_draw_screen.
  eapply Sem_conv; [eapply Sem_seq; [apply Sem_emit_draw|]|apply app_nil_r].
  destruct (c_hook c) eqn:Eh; [|apply Sem_ret].
  apply Sem_get_started.
  apply Sem_get. intros ok. apply Sem_get. intros bc. apply Sem_get. intros ws.
  destruct (ok && negb (c_pop_ups c) && match bc with Some k => k =? ws | None => false end); [apply Sem_ret|].
  eapply Sem_conv; [eapply Sem_seq; [apply Sem_write_cursor; exact Eh|]|apply app_nil_l].
  eapply Sem_conv; [eapply Sem_seq; [apply Sem_when; apply Sem_write_cursor; exact Eh|]|].
  2: { instantiate (1 := []). destruct (w_cursor c); reflexivity. }
  eapply Sem_conv; [eapply Sem_seq; [apply Sem_set_buf_ok|apply Sem_set_buf_canvas]|reflexivity].
Qed.

Lemma Sem_draw_screen : Sem (draw_screen c p) (spec_draw c) tt.
Proof.
  unfold draw_screen, spec_draw. apply Sem_get. intros sk.
  eapply Sem_conv; [eapply Sem_seq; [apply Sem_size_check|]|apply app_nil_l].
  eapply Sem_conv; [eapply Sem_seq; [apply Sem_topmost_render|apply Sem_screen_draw_screen]|].
  rewrite <- app_assoc. reflexivity.
Qed.

Lemma Sem_entering_idle : Sem (entering_idle c p) (spec_draw c) tt.
Proof. unfold entering_idle. apply Sem_get_started. apply Sem_draw_screen. Qed.

(* ---------- the event loop ---------- *)
Lemma Sem_fire_alarm a : Sem (fire_alarm c p a) (spec_alarm c a) tt.
Proof. destruct a; cbn [fire_alarm spec_alarm]; [apply Sem_cb; reflexivity|apply Sem_entering_idle]. Qed.

Lemma Sem_deliver e : Sem (deliver c p e) (spec_event c e) tt.
Proof.
  destruct e; cbn [deliver spec_event]; try (apply Sem_cb; reflexivity); try apply Sem_update.
  eapply Sem_conv; [eapply Sem_seq; [apply Sem_set_buf_ok|apply Sem_update]|apply app_nil_l].
Qed.

Lemma Sem_do_round r : Sem (do_round c p r) (spec_round c r) tt.
Proof.
  unfold do_round, spec_round. apply Sem_seq; [apply Sem_for_each; apply Sem_deliver|].
  eapply Sem_conv; [eapply Sem_seq; [apply Sem_entering_idle|apply Sem_emit_silent; reflexivity]|apply app_nil_r].
Qed.

Lemma SemA_quit al : SemA al quit [] (RErr ExitMainLoop) (fun _ => True).
Proof.
  intros s Hs Ha. unfold quit, bindM, emit, raise. cbn [fst snd cut ncb outcome].
  rewrite acts_cons. cbn [is_act is_cb orb]. rewrite !app_nil_r, Z.add_0_r.
  split; [keeps_triv|]. repeat split; reflexivity.
Qed.

Definition spec_loop (al : list alarm) (rounds : list (list event)) : list tev :=
  flat_map (spec_alarm c) al ++ spec_draw c ++ flat_map (spec_round c) rounds.

(* the body of event_loop.run(), before ExitMainLoop is swallowed *)
Definition loop_inner (rounds : list (list event)) : M unit :=
  bindM (get alarms) (fun al =>
  bindM (set_alarms []) (fun _ =>
  bindM (for_each (fire_alarm c p) al) (fun _ =>
  bindM (entering_idle c p) (fun _ =>
  bindM (emit TWait) (fun _ =>
  bindM (for_each (do_round c p) rounds) (fun _ => quit)))))).

Lemma SemA_loop_inner al rounds : SemA al (loop_inner rounds) (spec_loop al rounds) (RErr ExitMainLoop) (fun _ => True).
Proof.
  unfold loop_inner, spec_loop. apply SemA_get_alarms.
  eapply SemA_conv; [eapply SemA_bind; [apply SemA_set_alarms|]|apply app_nil_l].
  intros al1 <-.
  eapply SemA_step; [apply Sem_for_each; apply Sem_fire_alarm|].
  eapply SemA_step; [apply Sem_entering_idle|].
  eapply SemA_conv; [eapply SemA_step; [apply Sem_emit_silent; reflexivity|]|apply app_nil_l].
  eapply SemA_conv; [eapply SemA_step; [apply Sem_for_each; apply Sem_do_round|apply SemA_quit]|apply app_nil_r].
Qed.

(* the result of run(): ExitMainLoop (planned, or the harness's final one) is swallowed *)
Definition loop_result (o : option fault) : res unit :=
  match o with Some (FRaise e) => RErr (UserExc e) | _ => ROk tt end.

Lemma event_loop_run_sem rounds s :
  s_started (scr s) = true ->
  let L := spec_loop (alarms s) rounds in
  let rs := event_loop_run c p rounds s in
  Keeps s (snd rs) /\
  acts (snd rs) = acts s ++ fst (cut P (n s) L) /\
  n (snd rs) = n s + ncb (fst (cut P (n s) L)) /\
  fst rs = loop_result (snd (cut P (n s) L)).
Proof.
  intros Hs L rs.
  assert (E : rs = suppress_exit (loop_inner rounds) s) by reflexivity.
  destruct (SemA_loop_inner (alarms s) rounds s Hs eq_refl) as (K & A & N & R & _).
  fold L in A, N, R. rewrite E. unfold suppress_exit.
  destruct (loop_inner rounds s) as [r s1]. cbn [fst snd] in *.
  destruct (snd (cut P (n s) L)) as [[|e]|]; cbn [outcome exn_of] in R; subst r; cbn [fst snd loop_result];
    (split; [exact K|split; [exact A|split; [exact N|reflexivity]]]).
Qed.

(* ---------- _run_screen_event_loop ---------- *)
Definition pend (next : option alarm) (al : list alarm) : list alarm :=
  match next with Some a => a :: al | None => [] end.

Lemma SemA_pop_alarm al :
  SemA al pop_alarm [] (ROk (match al with [] => None | a :: _ => Some a end)) (eq (tl al)).
Proof.
  intros s Hs Ha. unfold pop_alarm, bindM, get. rewrite Ha. destruct al as [|a r].
  - cbn [ret fst snd cut ncb outcome tl]. rewrite app_nil_r, Z.add_0_r.
    split; [apply Keeps_refl|]. repeat split; try reflexivity. intros _; symmetry; exact Ha.
  - unfold set_alarms, ret. cbn [fst snd cut ncb outcome tl]. rewrite app_nil_r, Z.add_0_r.
    split; [keeps_triv|]. repeat split; reflexivity.
Qed.

Lemma SemA_fire_all : forall fuel next,
  SemA fuel (fire_all c p fuel next) (flat_map (spec_alarm c) (pend next fuel)) (ROk tt)
       (eq (match next with Some _ => [] | None => fuel end)).
Proof.
  induction fuel as [|b fuel IH]; intros [a|]; cbn [fire_all pend flat_map].
  - eapply SemA_conv; [eapply SemA_bind; [apply Sem_fire_alarm|]|reflexivity].
    intros al1 <-. apply Sem_ret.
  - apply Sem_ret.
  - eapply SemA_bind; [apply Sem_fire_alarm|]. intros al1 <-.
    eapply SemA_conv; [eapply SemA_bind; [apply SemA_pop_alarm|]|apply app_nil_l].
    intros al2 <-. cbn [tl]. apply (IH (Some b)).
  - apply Sem_ret.
Qed.

Lemma Sem_process_if ks :
  Sem (if is_nil ks then ret tt else process_input c p ks) (flat_map (spec_key c) ks) tt.
Proof. destruct ks; cbn [is_nil]; [apply Sem_ret|apply Sem_process_input]. Qed.

Lemma Sem_resize_check ks : Sem (if has_resize ks then set_size_known false else ret tt) [] tt.
Proof. destruct (has_resize ks); [apply Sem_set_size_known|apply Sem_ret]. Qed.

Lemma SemA_screen_loop : forall inputs next al,
  (next = None -> al = []) ->
  SemA al (screen_loop c p inputs next) (spec_screen_loop c (pend next al) inputs) (RErr ExitMainLoop) (fun _ => True).
Proof.
  induction inputs as [|b rest IH]; intros next al Hinv; cbn [screen_loop spec_screen_loop].
  - eapply SemA_conv; [eapply SemA_step; [apply Sem_emit_silent; reflexivity|]|apply app_nil_l].
    eapply SemA_conv; [eapply SemA_step; [apply Sem_emit_silent; reflexivity|apply SemA_quit]|apply app_nil_l].
  - eapply SemA_conv; [eapply SemA_step; [apply Sem_emit_silent; reflexivity|]|apply app_nil_l].
    eapply SemA_conv; [eapply SemA_step; [apply Sem_emit_silent; reflexivity|]|apply app_nil_l].
    assert (Step : forall nx, (nx = None -> al = []) -> pend nx al <> [] \/ b <> [] ->
              SemA al
                (bindM (input_filter c p b) (fun ks' =>
                 bindM (if is_nil ks' then ret tt else process_input c p ks') (fun _ =>
                 bindM (get alarms) (fun al0 =>
                 bindM (fire_all c p al0 nx) (fun _ =>
                 bindM (if has_resize ks' then set_size_known false else ret tt) (fun _ =>
                 bindM (draw_screen c p) (fun _ =>
                 bindM pop_alarm (fun nx' => screen_loop c p rest nx'))))))))
                (spec_update c b ++ flat_map (spec_alarm c) (pend nx al) ++ spec_draw c ++ spec_screen_loop c [] rest)
                (RErr ExitMainLoop) (fun _ => True)).
    { intros nx Hnx _. unfold spec_update. rewrite <- app_assoc.
      eapply SemA_step; [apply Sem_input_filter|].
      eapply SemA_step; [apply Sem_process_if|].
      apply SemA_get_alarms.
      eapply SemA_bind; [apply SemA_fire_all|]. intros al1 Hal1.
      assert (al1 = []) as -> by (destruct nx; [symmetry; exact Hal1|rewrite <- Hal1; apply Hnx; reflexivity]).
      eapply SemA_conv; [eapply SemA_step; [apply Sem_resize_check|]|apply app_nil_l].
      eapply SemA_step; [apply Sem_draw_screen|].
      eapply SemA_conv; [eapply SemA_bind; [apply SemA_pop_alarm|]|apply app_nil_l].
      intros al2 <-. cbn [tl]. apply (IH None []). reflexivity. }
    destruct next as [a|].
    + rewrite andb_false_r. cbn [pend is_nil]. rewrite andb_false_r.
      apply (Step (Some a)); [discriminate|left; discriminate].
    + specialize (Hinv eq_refl). subst al. cbn [pend is_nil]. rewrite !andb_true_r.
      destruct b as [|k0 b0]; cbn [is_nil].
      * apply (IH None []). reflexivity.
      * apply (Step None); [reflexivity|right; discriminate].
Qed.

Lemma SemA_run_screen_event_loop al inputs :
  SemA al (run_screen_event_loop c p inputs) (spec_draw c ++ spec_screen_loop c al inputs) (RErr ExitMainLoop) (fun _ => True).
Proof.
  unfold run_screen_event_loop. eapply SemA_step; [apply Sem_draw_screen|].
  eapply SemA_conv; [eapply SemA_bind; [apply SemA_pop_alarm|]|apply app_nil_l].
  intros al1 <-. destruct al as [|a r]; cbn [tl].
  - apply (SemA_screen_loop inputs None []). reflexivity.
  - apply (SemA_screen_loop inputs (Some a) r). discriminate.
Qed.

End WithConfig.

(* ---------- start / stop: symbolic execution on the explicit screen and terminal records ---------- *)
Lemma acts_silent_prefix l s s' :
  tr s' = l ++ tr s -> filter is_act (rev l) = [] -> acts s' = acts s.
Proof.
  unfold acts. intros -> H. rewrite rev_app_distr, filter_app, H. apply app_nil_r.
Qed.

(* the Screen object and the terminal while the loop runs (cursor visibility aside) *)
Definition SC (c : config) (T0 : term) : screen :=
  Screen true (c_handle_mouse c) true (if c_isatty c then Some (t_tios T0) else None)
         (Some (t_winch T0)) (Some (t_tstp T0)) None.
Definition TM (c : config) (T0 : term) : term :=
  Term true true (c_handle_mouse c) (c_handle_mouse c) (c_handle_mouse c) (c_paste c) (c_focus c)
       (if c_isatty c then (fst (t_tios T0), true) else t_tios T0) 3 3 (t_cont T0) false.

(* what the application does before run() *)
Definition prefix (c : config) : M unit :=
  bindM (set_alarms (map AUser (c_pre_alarms c))) (fun _ => if c_prestarted c then screen_start c else ret tt).

Lemma session_unfold c p rounds inputs s :
  session c p rounds inputs s =
  match prefix c s with
  | (ROk _, s') => ml_run c p rounds inputs s'
  | (RErr e, s') => (RErr e, s')
  end.
Proof. reflexivity. Qed.

Lemma hook_start_state c ti w t cn :
  c_hook c = true ->
  let T0 := normal_term ti w t cn in
  let rs := ml_start c (snd (prefix c (init_st T0))) in
  fst (prefix c (init_st T0)) = ROk tt /\
  fst rs = ROk tt /\ n (snd rs) = 0 /\ scr (snd rs) = SC c T0 /\ tm (snd rs) = TM c T0 /\
  alarms (snd rs) = map AUser (c_pre_alarms c) ++ [AEnteringIdle] /\
  acts (snd rs) = [].
Proof.
  destruct c as [hook filt unh hm pu pa fo ia ps pre sel hasm wk wm cur]. cbn [c_hook]. intros ->.
  Time destruct hm, pa, fo, ia, ps; vm_compute; repeat split; reflexivity.
Qed.

(* operations that invoke no callback and do not draw *)
Definition Silent {A} (m : M A) : Prop := forall s, acts (snd (m s)) = acts s /\ n (snd (m s)) = n s.

Lemma Silent_ret {A} (v : A) : Silent (ret v).
Proof. intros s; split; reflexivity. Qed.
Lemma Silent_raise {A} e : Silent (@raise A e).
Proof. intros s; split; reflexivity. Qed.
Lemma Silent_get {A} (g : st -> A) : Silent (get g).
Proof. intros s; split; reflexivity. Qed.
Lemma Silent_bind {A B} (m : M A) (f : A -> M B) : Silent m -> (forall a, Silent (f a)) -> Silent (bindM m f).
Proof.
  intros Hm Hf s. unfold bindM. destruct (Hm s) as [A1 N1]. destruct (m s) as [[a|e] s1]; cbn [fst snd] in *.
  - destruct (Hf a s1) as [A2 N2]. split; congruence.
  - split; assumption.
Qed.
Lemma Silent_emit t : is_act t = false -> Silent (emit t).
Proof. intros H s. unfold emit. cbn [fst snd n]. rewrite acts_cons, H, app_nil_r. split; reflexivity. Qed.
Lemma Silent_upd_scr f : Silent (upd_scr f).
Proof. intros s; split; reflexivity. Qed.
Lemma Silent_upd_tm f : Silent (upd_tm f).
Proof. intros s; split; reflexivity. Qed.
Lemma Silent_set_size_known b : Silent (set_size_known b).
Proof. intros s; split; reflexivity. Qed.
Lemma Silent_set_connected b : Silent (set_connected b).
Proof. intros s; split; reflexivity. Qed.
Lemma Silent_set_idle_reg b : Silent (set_idle_reg b).
Proof. intros s; split; reflexivity. Qed.
Lemma Silent_set_hooked b : Silent (set_hooked b).
Proof. intros s; split; reflexivity. Qed.
Lemma Silent_set_alarms l : Silent (set_alarms l).
Proof. intros s; split; reflexivity. Qed.
Lemma Silent_set_buf_ok b : Silent (set_buf_ok b).
Proof. intros s; split; reflexivity. Qed.

Ltac silent_step :=
  lazymatch goal with
  | |- Silent (ret _) => apply Silent_ret
  | |- Silent (raise _) => apply Silent_raise
  | |- Silent (get _) => apply Silent_get
  | |- Silent (upd_scr _) => apply Silent_upd_scr
  | |- Silent (upd_tm _) => apply Silent_upd_tm
  | |- Silent (set_size_known _) => apply Silent_set_size_known
  | |- Silent (set_connected _) => apply Silent_set_connected
  | |- Silent (set_idle_reg _) => apply Silent_set_idle_reg
  | |- Silent (set_hooked _) => apply Silent_set_hooked
  | |- Silent (set_alarms _) => apply Silent_set_alarms
  | |- Silent (set_buf_ok _) => apply Silent_set_buf_ok
  | |- Silent (emit _) => apply Silent_emit; reflexivity
  | |- Silent (bindM _ _) => apply Silent_bind; [|intros]
  | |- Silent (if ?b then _ else _) => destruct b
  | |- Silent (match ?o with _ => _ end) => destruct o
  end.
Ltac silent_all := repeat silent_step.

Lemma Silent_write_mode m b : Silent (write_mode m b).
Proof. unfold write_mode. silent_all. Qed.
Lemma Silent_mouse_tracking b : Silent (mouse_tracking b).
Proof.
  unfold mouse_tracking. destruct b;
    (apply Silent_bind; [apply Silent_write_mode|intros; apply Silent_bind; [apply Silent_write_mode|intros; apply Silent_write_mode]]).
Qed.
Lemma Silent_emit_descriptors_changed : Silent emit_descriptors_changed.
Proof. unfold emit_descriptors_changed, reset_input_descriptors, unhook_event_loop, hook_event_loop. silent_all. Qed.
Lemma Silent_signal_restore : Silent signal_restore.
Proof. unfold signal_restore. silent_all. Qed.
Lemma Silent_signal_init : Silent signal_init.
Proof. unfold signal_init. silent_all. Qed.

Ltac sil_known :=
  lazymatch goal with
  | |- Silent (write_mode _ _) => apply Silent_write_mode
  | |- Silent (mouse_tracking _) => apply Silent_mouse_tracking
  | |- Silent emit_descriptors_changed => apply Silent_emit_descriptors_changed
  | |- Silent signal_restore => apply Silent_signal_restore
  | |- Silent signal_init => apply Silent_signal_init
  end.

Lemma Silent_raw_stop c : Silent (raw_stop c).
Proof.
  unfold raw_stop, screen_clear, stop_mouse_restore_buffer.
  repeat first [ silent_step | sil_known ].
Qed.
Lemma Silent_raw_start c : Silent (raw_start c).
Proof.
  unfold raw_start.
  repeat first [ silent_step | sil_known ].
Qed.
Lemma Silent_screen_stop c : Silent (screen_stop c).
Proof. unfold screen_stop. repeat first [silent_step | apply Silent_raw_stop]. Qed.
Lemma Silent_screen_start c : Silent (screen_start c).
Proof. unfold screen_start. repeat first [silent_step | apply Silent_raw_start]. Qed.
Lemma Silent_ml_stop c : Silent (ml_stop c).
Proof. unfold ml_stop, unhook_event_loop. repeat first [silent_step | apply Silent_screen_stop]. Qed.
Lemma Silent_set_mouse_tracking c : Silent (set_mouse_tracking c).
Proof. unfold set_mouse_tracking. repeat first [silent_step | apply Silent_mouse_tracking]. Qed.
Lemma Silent_ml_start c : Silent (ml_start c).
Proof.
  unfold ml_start, reset_input_descriptors, unhook_event_loop, hook_event_loop.
  repeat first [silent_step | apply Silent_screen_start | apply Silent_set_mouse_tracking].
Qed.

(* stopping the display from any state the loop can leave behind *)
Lemma hook_stop_state c ti w t cn (s2 : st) :
  c_hook c = true ->
  let T0 := normal_term ti w t cn in
  let T1 := normal_term ti w t cn in
  scr s2 = SC c T0 -> set_mode 25 true (tm s2) = TM c T0 ->
  (fst (screen_stop c s2) = ROk tt /\ tm (snd (screen_stop c s2)) = T1 /\
   s_started (scr (snd (screen_stop c s2))) = false) /\
  (fst (ml_stop c s2) = ROk tt /\ tm (snd (ml_stop c s2)) = T1 /\
   s_started (scr (snd (ml_stop c s2))) = false).
Proof.
  destruct c as [hook filt unh hm pu pa fo ia ps pre sel hasm wk wm cur]. cbn [c_hook]. intros ->.
  destruct s2 as [n2 tr2 sc2 tm2 sk2 cn2 ir2 hk2 al2 ws2 bo2 bc2]. cbn [scr tm]. intros Hsc Htm. subst sc2.
  destruct tm2 as [a1 a2 a3 a4 a5 a6 a7 a8 a9 a10 a11 a12].
  unfold TM, normal_term in Htm. cbn [c_handle_mouse c_paste c_focus c_isatty t_tios t_winch t_tstp t_cont fst] in Htm.
  change (set_mode 25 true (Term a1 a2 a3 a4 a5 a6 a7 a8 a9 a10 a11 a12)) with (Term a1 true a3 a4 a5 a6 a7 a8 a9 a10 a11 a12) in Htm.
  injection Htm as E1 E3 E4 E5 E6 E7 E8 E9 E10 E11 E12. subst.
  Time destruct hm, pa, fo, ia, cn2; vm_compute; repeat split; reflexivity.
Qed.

Lemma TM_cursor c T0 : set_mode 25 true (TM c T0) = TM c T0.
Proof. reflexivity. Qed.

(* ---------- run() on a screen with hook_event_loop ---------- *)
Theorem hook_master c p rounds inputs ti w t cn :
  c_hook c = true -> wf_config c ->
  let T0 := normal_term ti w t cn in
  let rs := session c p rounds inputs (init_st T0) in
  let ct := cut (plan_at p) 0 (spec_hook_session c rounds) in
  acts (snd rs) = fst ct /\ n (snd rs) = ncb (fst ct) /\ fst rs = loop_result (snd ct) /\
  tm (snd rs) = normal_term ti w t cn /\ s_started (scr (snd rs)) = false.
Proof.
  intros Hh Hwf. cbv zeta. rewrite session_unfold.
  destruct (hook_start_state c ti w t cn Hh) as (P1 & R1 & N1 & S1 & T1 & A1 & Ac1).
  destruct (prefix c (init_st (normal_term ti w t cn))) as [r0 s0']. cbn [fst snd] in *. subst r0.
  unfold ml_run, ml_run_inner, suppress_exit.
  destruct (ml_start c s0') as [r1 s1]. cbn [fst snd] in *. subst r1.
  assert (Hst : s_started (scr s1) = true) by (rewrite S1; reflexivity).
  pose proof (event_loop_run_sem c p Hwf rounds s1 Hst) as H. cbv zeta in H.
  rewrite A1, N1, Ac1 in H. cbn [app] in H.
  change (spec_loop c (map AUser (c_pre_alarms c) ++ [AEnteringIdle]) rounds) with (spec_hook_session c rounds) in H.
  destruct H as (K & A & N & R).
  destruct (event_loop_run c p rounds s1) as [r2 s2]. cbn [fst snd] in *.
  destruct K as (K1 & K2 & _). rewrite S1 in K1. rewrite T1, TM_cursor in K2.
  destruct (hook_stop_state c ti w t cn s2 Hh K1 K2) as [(F1 & F2 & F3) (G1 & G2 & G3)].
  destruct (Silent_screen_stop c s2) as [Q1 Q2]. destruct (Silent_ml_stop c s2) as [Q3 Q4].
  rewrite Z.add_0_l in N.
  destruct (snd (cut (plan_at p) 0 (spec_hook_session c rounds))) as [[|e]|]; cbn [loop_result] in R |- *; subst r2.
  - destruct (ml_stop c s2) as [r3 s3]. cbn [fst snd] in *. subst r3. cbn [fst snd].
    repeat split; congruence.
  - unfold bindM. destruct (screen_stop c s2) as [r3 s3]. cbn [fst snd] in *. subst r3. cbn [raise fst snd].
    repeat split; congruence.
  - destruct (ml_stop c s2) as [r3 s3]. cbn [fst snd] in *. subst r3. cbn [fst snd].
    repeat split; congruence.
Qed.

(* ---------- run() on a screen without hook_event_loop ---------- *)
Definition SCp : screen := Screen true false false None None None None.

Lemma plain_start_state c ti w t cn :
  c_hook c = false ->
  let T0 := normal_term ti w t cn in
  let rs := ml_start c (snd (prefix c (init_st T0))) in
  fst (prefix c (init_st T0)) = ROk tt /\
  fst rs = RErr CantUseExternalLoop /\ n (snd rs) = 0 /\ scr (snd rs) = SCp /\ tm (snd rs) = set_plain true T0 /\
  alarms (snd rs) = map AUser (c_pre_alarms c) /\
  acts (snd rs) = [].
Proof.
  destruct c as [hook filt unh hm pu pa fo ia ps pre sel hasm wk wm cur]. cbn [c_hook]. intros ->.
  destruct hm, ps; vm_compute; repeat split; reflexivity.
Qed.

Lemma plain_stop_state c ti w t cn (s2 : st) :
  c_hook c = false ->
  let T0 := normal_term ti w t cn in
  scr s2 = SCp -> tm s2 = set_plain true T0 ->
  fst (screen_stop c s2) = ROk tt /\ tm (snd (screen_stop c s2)) = T0 /\
  s_started (scr (snd (screen_stop c s2))) = false.
Proof.
  destruct c as [hook filt unh hm pu pa fo ia ps pre sel hasm wk wm cur]. cbn [c_hook]. intros ->.
  destruct s2 as [n2 tr2 sc2 tm2 sk2 cn2 ir2 hk2 al2 ws2 bo2 bc2]. cbn [scr tm]. intros -> ->.
  vm_compute. repeat split; reflexivity.
Qed.

Theorem plain_master c p rounds inputs ti w t cn :
  c_hook c = false -> wf_config c ->
  let T0 := normal_term ti w t cn in
  let rs := session c p rounds inputs (init_st T0) in
  let ct := cut (plan_at p) 0 (spec_plain_session c inputs) in
  acts (snd rs) = fst ct /\ n (snd rs) = ncb (fst ct) /\ fst rs = loop_result (snd ct) /\
  tm (snd rs) = T0 /\ s_started (scr (snd rs)) = false.
Proof.
  intros Hh Hwf. cbv zeta. rewrite session_unfold.
  destruct (plain_start_state c ti w t cn Hh) as (P1 & R1 & N1 & S1 & T1 & A1 & Ac1).
  destruct (prefix c (init_st (normal_term ti w t cn))) as [r0 s0']. cbn [fst snd] in *. subst r0.
  unfold ml_run, ml_run_inner, suppress_exit.
  destruct (ml_start c s0') as [r1 s1]. cbn [fst snd] in *. subst r1.
  assert (Hst : s_started (scr s1) = true) by (rewrite S1; reflexivity).
  destruct (SemA_run_screen_event_loop c p Hwf (alarms s1) inputs s1 Hst eq_refl) as (K & A & N & R & _).
  rewrite A1, N1, Ac1 in *. cbn [app] in A. rewrite Z.add_0_l in N.
  change (spec_draw c ++ spec_screen_loop c (map AUser (c_pre_alarms c)) inputs) with (spec_plain_session c inputs) in *.
  unfold finally.
  destruct (run_screen_event_loop c p inputs s1) as [r2 s2]. cbn [fst snd] in *.
  destruct K as (K1 & _ & K3). rewrite S1 in K1.
  assert (K2 : tm s2 = set_plain true (normal_term ti w t cn)) by (rewrite (K3 Hh); exact T1).
  destruct (plain_stop_state c ti w t cn s2 Hh K1 K2) as (F1 & F2 & F3).
  destruct (Silent_screen_stop c s2) as [Q1 Q2].
  destruct (screen_stop c s2) as [r3 s3]. cbn [fst snd] in *. subst r3.
  destruct (snd (cut (plan_at p) 0 (spec_plain_session c inputs))) as [[|e]|];
    cbn [outcome exn_of loop_result] in R |- *; subst r2; cbn [fst snd];
    repeat split; congruence.
Qed.

(* ---------- both kinds of screen; the clauses of the property ---------- *)
Theorem session_master c p rounds inputs ti w t cn :
  wf_config c ->
  let rs := session c p rounds inputs (init_st (normal_term ti w t cn)) in
  let ct := cut (plan_at p) 0 (spec_session c rounds inputs) in
  acts (snd rs) = fst ct /\ n (snd rs) = ncb (fst ct) /\ fst rs = loop_result (snd ct) /\
  tm (snd rs) = normal_term ti w t cn /\ s_started (scr (snd rs)) = false.
Proof.
  intros Hwf. unfold spec_session. destruct (c_hook c) eqn:Hh.
  - apply hook_master; assumption.
  - apply plain_master; assumption.
Qed.

Lemma initial_modes_normal T0 :
  initial_modes T0 -> T0 = normal_term (fst (t_tios T0)) (t_winch T0) (t_tstp T0) (t_cont T0).
Proof.
  destruct T0 as [a1 a2 a3 a4 a5 a6 a7 [ti cb] a9 a10 a11 a12]. unfold initial_modes, normal_term. cbn.
  intros (-> & -> & -> & -> & -> & -> & -> & -> & ->). reflexivity.
Qed.

Lemma input_order_lemma c p rounds inputs T0 :
  wf_config c -> initial_modes T0 ->
  acts (snd (session c p rounds inputs (init_st T0))) =
  fst (cut (plan_at p) 0 (spec_session c rounds inputs)).
Proof.
  intros Hwf Hi. rewrite (initial_modes_normal T0 Hi). apply session_master. exact Hwf.
Qed.

Lemma input_order_prefix_lemma c p rounds inputs T0 :
  wf_config c -> initial_modes T0 ->
  exists rest, spec_session c rounds inputs = acts (snd (session c p rounds inputs (init_st T0))) ++ rest.
Proof.
  intros Hwf Hi. rewrite (input_order_lemma c p rounds inputs T0 Hwf Hi). apply cut_prefix.
Qed.

Definition callbacks_of_session c rounds inputs : nat := Z.to_nat (ncb (spec_session c rounds inputs)).

Lemma no_fault_complete_lemma c p rounds inputs T0 :
  wf_config c -> initial_modes T0 ->
  first_fault (plan_at p) 0 (callbacks_of_session c rounds inputs) = None ->
  acts (snd (session c p rounds inputs (init_st T0))) = spec_session c rounds inputs /\
  fst (session c p rounds inputs (init_st T0)) = ROk tt.
Proof.
  intros Hwf Hi Hf. rewrite (initial_modes_normal T0 Hi).
  destruct (session_master c p rounds inputs (fst (t_tios T0)) (t_winch T0) (t_tstp T0) (t_cont T0) Hwf) as (A & N & R & _).
  pose proof (cut_first_fault (plan_at p) (spec_session c rounds inputs) 0) as H.
  unfold callbacks_of_session in Hf. rewrite Hf in H.
  split; [rewrite A; apply cut_nofault_all; exact H|rewrite R, H; reflexivity].
Qed.

Lemma exit_is_normal_lemma c p rounds inputs T0 j :
  wf_config c -> initial_modes T0 ->
  first_fault (plan_at p) 0 (callbacks_of_session c rounds inputs) = Some (j, FExit) ->
  fst (session c p rounds inputs (init_st T0)) = ROk tt /\
  n (snd (session c p rounds inputs (init_st T0))) = j + 1.
Proof.
  intros Hwf Hi Hf. rewrite (initial_modes_normal T0 Hi).
  destruct (session_master c p rounds inputs (fst (t_tios T0)) (t_winch T0) (t_tstp T0) (t_cont T0) Hwf) as (A & N & R & _).
  pose proof (cut_first_fault (plan_at p) (spec_session c rounds inputs) 0) as H.
  unfold callbacks_of_session in Hf. rewrite Hf in H. destruct H as [H1 H2].
  split; [rewrite R, H1; reflexivity|rewrite N; lia].
Qed.

Lemma other_propagates_lemma c p rounds inputs T0 j e :
  wf_config c -> initial_modes T0 ->
  first_fault (plan_at p) 0 (callbacks_of_session c rounds inputs) = Some (j, FRaise e) ->
  fst (session c p rounds inputs (init_st T0)) = RErr (UserExc e) /\
  n (snd (session c p rounds inputs (init_st T0))) = j + 1.
Proof.
  intros Hwf Hi Hf. rewrite (initial_modes_normal T0 Hi).
  destruct (session_master c p rounds inputs (fst (t_tios T0)) (t_winch T0) (t_tstp T0) (t_cont T0) Hwf) as (A & N & R & _).
  pose proof (cut_first_fault (plan_at p) (spec_session c rounds inputs) 0) as H.
  unfold callbacks_of_session in Hf. rewrite Hf in H. destruct H as [H1 H2].
  split; [rewrite R, H1; reflexivity|rewrite N; lia].
Qed.

(* run() never lets anything else out: ExitMainLoop is always swallowed *)
Lemma outcome_cases_lemma c p rounds inputs T0 :
  wf_config c -> initial_modes T0 ->
  fst (session c p rounds inputs (init_st T0)) = ROk tt \/
  exists j e, plan_at p j = Some (FRaise e) /\ (forall i, 0 <= i < j -> plan_at p i = None) /\
              n (snd (session c p rounds inputs (init_st T0))) = j + 1 /\
              fst (session c p rounds inputs (init_st T0)) = RErr (UserExc e).
Proof.
  intros Hwf Hi.
  destruct (first_fault (plan_at p) 0 (callbacks_of_session c rounds inputs)) as [[j [|e]]|] eqn:Hf.
  - left. eapply exit_is_normal_lemma; eassumption.
  - right. destruct (first_fault_none_before _ _ _ _ _ Hf) as (H1 & H2 & H3).
    destruct (other_propagates_lemma c p rounds inputs T0 j e Hwf Hi Hf) as [R N].
    exists j, e. repeat split; assumption.
  - left. eapply no_fault_complete_lemma; eassumption.
Qed.

Lemma always_restored_lemma c p rounds inputs T0 :
  wf_config c -> initial_modes T0 ->
  tm (snd (session c p rounds inputs (init_st T0))) = T0 /\
  s_started (scr (snd (session c p rounds inputs (init_st T0)))) = false.
Proof.
  intros Hwf Hi. rewrite (initial_modes_normal T0 Hi).
  destruct (session_master c p rounds inputs (fst (t_tios T0)) (t_winch T0) (t_tstp T0) (t_cont T0) Hwf) as (_ & _ & _ & T & S).
  split; [exact T|exact S].
Qed.

(* ---------- reading the specification ---------- *)
Lemma In_overlay_spec c t : In t (overlay_spec c) -> t = TRender.
Proof. unfold overlay_spec. destruct (c_pop_ups c); cbn; intuition congruence. Qed.

(* a key the selectable topmost widget was offered reaches unhandled_input exactly when the widget
   returned a key (did not handle it) and that key is not the REDRAW_SCREEN command *)
Ltac not_in_there H :=
  exfalso; repeat (destruct H as [H|H]); try discriminate H; try contradiction;
  apply In_overlay_spec in H; discriminate H.

Lemma unhandled_iff_lemma c x :
  w_selectable c = true -> c_unhandled c <> None ->
  let r := widget_keypress c x in
  In (TUnhandled (KKey r)) (spec_key c (KKey x)) <-> (r <> 0 /\ r <> 12).
Proof.
  intros Hs Hu r. cbn [spec_key]. rewrite Hs. fold r.
  rewrite !in_app_iff. cbn [In]. unfold spec_after, spec_unhandled, is_redraw.
  destruct (c_unhandled c) as [u|]; [clear Hu|congruence].
  destruct (r =? 0) eqn:E0; [apply Z.eqb_eq in E0|apply Z.eqb_neq in E0].
  - split; [|intros [H _]; congruence]. intros H. not_in_there H.
  - destruct (r =? 12) eqn:E12; [apply Z.eqb_eq in E12|apply Z.eqb_neq in E12]; cbn [In].
    + split; [|intros [_ H]; congruence]. intros H. not_in_there H.
    + split; [intros _; split; assumption|]. intros _. right. right. left. reflexivity.
Qed.

(* the same for mouse events *)
Lemma mouse_unhandled_iff_lemma c b cl rw :
  w_has_mouse c = true -> c_unhandled c <> None ->
  In (TUnhandled (KMouse b cl rw)) (spec_key c (KMouse b cl rw)) <-> widget_mouse c b = false.
Proof.
  intros Hm Hu. cbn [spec_key]. rewrite Hm. rewrite !in_app_iff. cbn [In].
  unfold spec_after, spec_unhandled. cbn [is_redraw].
  destruct (c_unhandled c) as [u|]; [clear Hu|congruence].
  destruct (widget_mouse c b); cbn [In].
  - split; [|discriminate]. intros H. not_in_there H.
  - split; [reflexivity|]. intros _. right. right. left. reflexivity.
Qed.

(* every round of events ends with: render the topmost widget, then screen.draw_screen *)
Lemma round_ends_with_redraw_lemma c r : exists l, spec_round c r = l ++ [TRender; TDraw].
Proof.
  unfold spec_round, spec_draw. exists (flat_map (spec_event c) r ++ overlay_spec c).
  rewrite <- app_assoc. reflexivity.
Qed.
