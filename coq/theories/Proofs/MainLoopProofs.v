(* C12 - proofs about Model/MainLoop.v: the interpreter refines the specification lists of
   MainLoopSpec.v cut at the first fault; the outcome of run() is determined by that fault;
   the terminal is restored on every path. *)
From Coq Require Import ZArith List Bool Lia.
Import ListNotations.
From Urwid Require Import PyBase MainLoop MainLoopSpec.
Open Scope Z_scope.
Arguments Z.add : simpl never.
Arguments Z.eqb : simpl never.

(* ---------- cut / ncb / first_fault ---------- *)
Lemma ncb_app l1 l2 : ncb (l1 ++ l2) = ncb l1 + ncb l2.
Proof. induction l1; cbn [ncb app]; lia. Qed.

Lemma ncb_nonneg l : 0 <= ncb l.
Proof. induction l; cbn [ncb]; [lia|destruct (is_cb a); lia]. Qed.

Lemma cut_app P L1 : forall i L2,
  cut P i (L1 ++ L2) =
  match snd (cut P i L1) with
  | Some f => cut P i L1
  | None => (fst (cut P i L1) ++ fst (cut P (i + ncb (fst (cut P i L1))) L2),
             snd (cut P (i + ncb (fst (cut P i L1))) L2))
  end.
Proof.
  induction L1 as [|a L1 IH]; intros i L2; cbn [app cut fst snd ncb].
  - rewrite Z.add_0_r. destruct (cut P i L2); reflexivity.
  - destruct (is_cb a) eqn:Ea.
    + destruct (P i) eqn:Ep; cbn [fst snd]; [reflexivity|].
      rewrite IH. destruct (snd (cut P (i + 1) L1)) eqn:E1; cbn [fst snd ncb].
      * destruct (cut P (i + 1) L1); cbn [fst snd] in *; subst; reflexivity.
      * rewrite Ea. replace (i + (1 + ncb (fst (cut P (i + 1) L1)))) with (i + 1 + ncb (fst (cut P (i + 1) L1))) by lia.
        reflexivity.
    + rewrite IH. destruct (snd (cut P i L1)) eqn:E1; cbn [fst snd ncb].
      * destruct (cut P i L1); cbn [fst snd] in *; subst; reflexivity.
      * rewrite Ea. rewrite Z.add_0_l. reflexivity.
Qed.

Lemma cut_nofault_all P L : forall i, snd (cut P i L) = None -> fst (cut P i L) = L.
Proof.
  induction L as [|a L IH]; intros i H; cbn [cut fst snd] in *; [reflexivity|].
  destruct (is_cb a).
  - destruct (P i); cbn [fst snd] in *; [discriminate|]. f_equal. apply IH; exact H.
  - cbn [fst snd] in *. f_equal. apply IH; exact H.
Qed.

(* the list kept by [cut] is a prefix of the specification list *)
Lemma cut_prefix P L : forall i, exists rest, L = fst (cut P i L) ++ rest.
Proof.
  induction L as [|a L IH]; intros i; cbn [cut fst].
  - exists []; reflexivity.
  - destruct (is_cb a).
    + destruct (P i); cbn [fst].
      * exists L; reflexivity.
      * destruct (IH (i + 1)) as [r Hr]. exists r. cbn [app]. f_equal. exact Hr.
    + cbn [fst]. destruct (IH i) as [r Hr]. exists r. cbn [app]. f_equal. exact Hr.
Qed.

(* the fault found by [cut] is the first planned fault among the callback indices of the list;
   when there is one, the kept list ends with exactly that invocation *)
Lemma cut_first_fault P L : forall i,
  match first_fault P i (Z.to_nat (ncb L)) with
  | None => snd (cut P i L) = None
  | Some (j, f) => snd (cut P i L) = Some f /\ i + ncb (fst (cut P i L)) = j + 1
  end.
Proof.
  induction L as [|a L IH]; intros i; cbn [ncb cut fst snd].
  - reflexivity.
  - pose proof (ncb_nonneg L) as Hn. destruct (is_cb a) eqn:Ea.
    + replace (Z.to_nat (1 + ncb L)) with (S (Z.to_nat (ncb L))) by lia.
      cbn [first_fault]. destruct (P i) eqn:Ep; cbn [fst snd ncb].
      * rewrite Ea. split; [reflexivity|lia].
      * specialize (IH (i + 1)). destruct (first_fault P (i + 1) (Z.to_nat (ncb L))) as [[j f]|].
        -- rewrite Ea. destruct IH as [H1 H2]. split; [exact H1|lia].
        -- exact IH.
    + rewrite Z.add_0_l. specialize (IH i). cbn [fst snd ncb]. rewrite Ea.
      destruct (first_fault P i (Z.to_nat (ncb L))) as [[j f]|]; [|exact IH].
      destruct IH as [H1 H2]. split; [exact H1|lia].
Qed.

Lemma first_fault_none_before P k : forall i j f,
  first_fault P i k = Some (j, f) -> P j = Some f /\ i <= j /\ forall x, i <= x < j -> P x = None.
Proof.
  induction k as [|k IH]; intros i j f H; cbn [first_fault] in H; [discriminate|].
  destruct (P i) eqn:Ep.
  - inversion H; subst. split; [exact Ep|]. split; [lia|]. intros; lia.
  - destruct (IH _ _ _ H) as (H1 & H2 & H3). split; [exact H1|]. split; [lia|].
    intros x Hx. destruct (Z.eq_dec x i); [subst; exact Ep|apply H3; lia].
Qed.

(* ---------- the trace projection ---------- *)
Lemma acts_cons t s n' sc' tm' a b d e f :
  acts (St n' (t :: tr s) sc' tm' a b d e f) = acts s ++ (if is_act t then [t] else []).
Proof.
  unfold acts. cbn [tr rev]. rewrite filter_app. cbn [filter]. destruct (is_act t); reflexivity.
Qed.

Section WithConfig.
Variable c : config.
Variable p : list (Z * fault).
Notation P := (plan_at p).

(* what the operations inside the loop leave alone: the Screen object and every terminal mode
   except cursor visibility (which stop() forces anyway) *)
Definition Keeps (s s' : st) : Prop :=
  scr s' = scr s /\ set_mode 25 true (tm s') = set_mode 25 true (tm s).

Lemma Keeps_refl s : Keeps s s.
Proof. split; reflexivity. Qed.
Lemma Keeps_trans a b d : Keeps a b -> Keeps b d -> Keeps a d.
Proof. intros [A1 A2] [B1 B2]. split; congruence. Qed.

Definition outcome {A} (r0 : res A) (o : option fault) : res A :=
  match o with None => r0 | Some f => RErr (exn_of f) end.

(* [SemR m L r0]: from any state with a started screen, [m] performs the actions of [L] cut at the
   first planned fault, numbering the callbacks from the current index; its result is [r0] when no
   fault was hit and exactly the planned exception otherwise. *)
Definition SemR {A} (m : M A) (L : list tev) (r0 : res A) : Prop :=
  forall s, s_started (scr s) = true ->
    Keeps s (snd (m s)) /\
    acts (snd (m s)) = acts s ++ fst (cut P (n s) L) /\
    n (snd (m s)) = n s + ncb (fst (cut P (n s) L)) /\
    fst (m s) = outcome r0 (snd (cut P (n s) L)).
Definition Sem {A} (m : M A) (L : list tev) (v : A) : Prop := SemR m L (ROk v).

Lemma Sem_ret {A} (v : A) : Sem (ret v) [] v.
Proof.
  intros s Hs. cbn [ret fst snd cut ncb outcome]. rewrite app_nil_r, Z.add_0_r.
  repeat split; reflexivity.
Qed.

Lemma SemR_bind {A B} (m : M A) (f : A -> M B) L1 L2 v r :
  Sem m L1 v -> SemR (f v) L2 r -> SemR (bindM m f) (L1 ++ L2) r.
Proof.
  intros Hm Hf s Hs. destruct (Hm s Hs) as (K1 & A1 & N1 & R1).
  unfold bindM. rewrite cut_app.
  destruct (m s) as [r1 s1] eqn:E. cbn [fst snd] in *.
  destruct (snd (cut P (n s) L1)) as [ft|] eqn:C1; cbn [outcome] in R1; subst r1.
  - cbn [fst snd]. split; [exact K1|split; [exact A1|split; [exact N1|rewrite C1; reflexivity]]].
  - assert (Hs1 : s_started (scr s1) = true) by (destruct K1 as [K _]; rewrite K; exact Hs).
    destruct (Hf s1 Hs1) as (K2 & A2 & N2 & R2). rewrite N1 in *.
    destruct (f v s1) as [r2 s2]. cbn [fst snd] in *.
    split; [eapply Keeps_trans; eassumption|].
    split; [rewrite A2, A1, app_assoc; reflexivity|].
    split; [rewrite N2, ncb_app; lia|exact R2].
Qed.

Lemma Sem_bind {A B} (m : M A) (f : A -> M B) L1 L2 v w :
  Sem m L1 v -> Sem (f v) L2 w -> Sem (bindM m f) (L1 ++ L2) w.
Proof. apply SemR_bind. Qed.

Lemma Sem_seq {A} (m : M unit) (k : M A) L1 L2 w :
  Sem m L1 tt -> Sem k L2 w -> Sem (bindM m (fun _ => k)) (L1 ++ L2) w.
Proof. intros; eapply Sem_bind; eassumption. Qed.

Lemma Sem_get {A B} (g : st -> A) (k : A -> M B) L w :
  (forall x, Sem (k x) L w) -> Sem (bindM (get g) k) L w.
Proof. intros H s Hs. unfold bindM, get. apply H. exact Hs. Qed.

Lemma Sem_cb t : is_cb t = true -> Sem (cb p t) [t] tt.
Proof.
  intros Ht s Hs. unfold cb. cbn [cut]. rewrite Ht.
  assert (Ha : is_act t = true) by (unfold is_act; rewrite Ht; reflexivity).
  destruct (P (n s)) eqn:Ep; cbn [fst snd ncb outcome]; rewrite ?acts_cons, ?Ha, ?Ht;
    (split; [split; reflexivity|split; [reflexivity|split; [cbn [n]; lia|reflexivity]]]).
Qed.

Lemma Sem_emit_silent t : is_act t = false -> Sem (emit t) [] tt.
Proof.
  intros Ht s Hs. unfold emit. cbn [fst snd cut ncb outcome]. rewrite acts_cons, Ht.
  split; [split; reflexivity|split; [reflexivity|split; [cbn [n]; lia|reflexivity]]].
Qed.

Lemma Sem_emit_draw : Sem (emit TDraw) [TDraw] tt.
Proof.
  intros s Hs. unfold emit. cbn [fst snd cut ncb outcome is_cb]. rewrite acts_cons. cbn [is_act is_cb orb].
  split; [split; reflexivity|split; [reflexivity|split; [cbn [n]; lia|reflexivity]]].
Qed.

Ltac silent := intros s Hs; cbn [fst snd cut ncb outcome]; rewrite app_nil_r, Z.add_0_r;
               (split; [split; reflexivity|split; [reflexivity|split; reflexivity]]).

Lemma Sem_set_size_known b : Sem (set_size_known b) [] tt.
Proof. unfold set_size_known. silent. Qed.
Lemma Sem_set_hooked b : Sem (set_hooked b) [] tt.
Proof. unfold set_hooked. silent. Qed.
Lemma Sem_set_alarms l : Sem (set_alarms l) [] tt.
Proof. unfold set_alarms. silent. Qed.

Lemma set_mode_cursor_idem b t : set_mode 25 true (set_mode 25 b t) = set_mode 25 true t.
Proof. reflexivity. Qed.

Lemma Sem_upd_cursor b : Sem (upd_tm (set_mode 25 b)) [] tt.
Proof.
  intros s Hs. unfold upd_tm. cbn [fst snd cut ncb outcome scr tm n]. rewrite app_nil_r, Z.add_0_r.
  split; [split; [reflexivity|apply set_mode_cursor_idem]|]. repeat split; reflexivity.
Qed.

Lemma Sem_write_cursor b : Sem (write_mode 25 b) [] tt.
Proof.
  unfold write_mode. change (@nil tev) with (@nil tev ++ []).
  apply Sem_seq; [apply Sem_emit_silent; reflexivity|apply Sem_upd_cursor].
Qed.

Lemma Sem_conv {A} (m : M A) L L' v : Sem m L v -> L = L' -> Sem m L' v.
Proof. intros H <-; exact H. Qed.

Lemma Sem_when (b : bool) (m : M unit) L : Sem m L tt -> Sem (if b then m else ret tt) (if b then L else []) tt.
Proof. destruct b; [auto|intros; apply Sem_ret]. Qed.

(* ---------- the topmost widget ---------- *)
Lemma Sem_update_overlay : Sem (update_overlay c p) (overlay_spec c) tt.
Proof.
  unfold update_overlay, overlay_spec. destruct (c_pop_ups c); [apply Sem_cb; reflexivity|apply Sem_ret].
Qed.

Lemma Sem_topmost_keypress x :
  Sem (topmost_keypress c p x) (overlay_spec c ++ [TKeypress x]) (widget_keypress c x).
Proof.
  unfold topmost_keypress. apply Sem_seq; [apply Sem_update_overlay|].
  eapply Sem_conv; [eapply Sem_seq; [apply Sem_cb; reflexivity|apply Sem_ret]|reflexivity].
Qed.

Hypothesis wf : wf_config c.

Lemma Sem_topmost_mouse_event b cl rw :
  Sem (topmost_mouse_event c p b cl rw)
      (if w_has_mouse c then overlay_spec c ++ [TMouse b cl rw] else [])
      (if w_has_mouse c then widget_mouse c b else false).
Proof.
  unfold topmost_mouse_event. destruct (c_pop_ups c) eqn:Epu.
  - rewrite (wf Epu). apply Sem_seq; [apply Sem_update_overlay|].
    eapply Sem_conv; [eapply Sem_seq; [apply Sem_cb; reflexivity|apply Sem_ret]|reflexivity].
  - destruct (w_has_mouse c).
    + unfold overlay_spec. rewrite Epu. cbn [app].
      eapply Sem_conv; [eapply Sem_seq; [apply Sem_cb; reflexivity|apply Sem_ret]|reflexivity].
    + apply Sem_ret.
Qed.

Lemma Sem_topmost_render : Sem (topmost_render c p) (overlay_spec c ++ [TRender]) tt.
Proof. unfold topmost_render. apply Sem_seq; [apply Sem_update_overlay|apply Sem_cb; reflexivity]. Qed.

(* ---------- MainLoop input pipeline ---------- *)
Lemma Sem_input_filter ks : Sem (input_filter c p ks) (spec_filter c ks) (filtered c ks).
Proof.
  unfold input_filter, spec_filter, filtered. destruct (c_filter c).
  - eapply Sem_conv; [eapply Sem_seq; [apply Sem_cb; reflexivity|apply Sem_ret]|reflexivity].
  - apply Sem_ret.
Qed.

Lemma Sem_unhandled_input k : Sem (unhandled_input c p k) (spec_unhandled c k) tt.
Proof.
  unfold unhandled_input, spec_unhandled. destruct (c_unhandled c); [apply Sem_cb; reflexivity|apply Sem_ret].
Qed.

Lemma Sem_screen_clear : Sem screen_clear [] tt.
Proof. apply Sem_emit_silent; reflexivity. Qed.

Lemma Sem_after_widget k : Sem (after_widget c p k) (spec_after c k) tt.
Proof.
  unfold after_widget, spec_after. destruct (is_redraw k); [apply Sem_screen_clear|apply Sem_unhandled_input].
Qed.

Lemma Sem_process_key k : Sem (process_key c p k) (spec_key c k) tt.
Proof.
  destruct k as [|x|b cl rw]; cbn [process_key spec_key].
  - apply Sem_ret.
  - destruct (w_selectable c); [|apply Sem_after_widget].
    rewrite app_assoc. eapply Sem_bind; [apply Sem_topmost_keypress|].
    destruct (widget_keypress c x =? 0); [apply Sem_ret|apply Sem_after_widget].
  - pose proof (Sem_topmost_mouse_event b cl rw) as H. destruct (w_has_mouse c).
    + rewrite app_assoc. eapply Sem_bind; [exact H|].
      destruct (widget_mouse c b); [apply Sem_ret|apply Sem_after_widget].
    + eapply Sem_conv; [eapply Sem_bind; [exact H|apply Sem_after_widget]|reflexivity].
Qed.

Lemma Sem_for_each {X} (f : X -> M unit) (S : X -> list tev) l :
  (forall x, Sem (f x) (S x) tt) -> Sem (for_each f l) (flat_map S l) tt.
Proof.
  intros H. induction l as [|x l IH]; cbn [for_each flat_map]; [apply Sem_ret|].
  apply Sem_seq; [apply H|exact IH].
Qed.

Lemma Sem_size_check (sk : bool) :
  Sem (if sk then ret tt else bindM get_cols_rows (fun _ => set_size_known true)) [] tt.
Proof.
  destruct sk; [apply Sem_ret|].
  eapply Sem_conv; [eapply Sem_seq; [apply Sem_emit_silent; reflexivity|apply Sem_set_size_known]|reflexivity].
Qed.

Lemma Sem_process_input ks : Sem (process_input c p ks) (flat_map (spec_key c) ks) tt.
Proof.
  unfold process_input. apply Sem_get. intros sk.
  eapply Sem_conv; [eapply Sem_seq; [apply Sem_size_check|]|apply app_nil_l].
  apply Sem_for_each. apply Sem_process_key.
Qed.

Lemma Sem_update ks : Sem (update c p ks) (spec_update c ks) tt.
Proof.
  unfold update, spec_update. eapply Sem_bind; [apply Sem_input_filter|].
  destruct (filtered c ks) as [|k ks'] eqn:E; cbn [is_nil]; [apply Sem_ret|].
  eapply Sem_conv; [eapply Sem_seq; [apply Sem_process_input|]|apply app_nil_r].
  destruct (has_resize (k :: ks')); [apply Sem_set_size_known|apply Sem_ret].
Qed.

(* ---------- redraw ---------- *)
Lemma Sem_get_started {B} (k : bool -> M B) L w :
  Sem (k true) L w -> Sem (bindM (get (fun s => s_started (scr s))) k) L w.
Proof. intros H s Hs. unfold bindM, get. rewrite Hs. apply H. exact Hs. Qed.

Lemma Sem_screen_draw_screen : Sem (screen_draw_screen c) [TDraw] tt.
Proof.
  unfold screen_draw_screen.
  eapply Sem_conv; [eapply Sem_seq; [apply Sem_emit_draw|]|apply app_nil_r].
  destruct (c_hook c); [|apply Sem_ret].
  apply Sem_get_started.
  eapply Sem_conv; [eapply Sem_seq; [apply Sem_write_cursor|apply Sem_when; apply Sem_write_cursor]|].
  destruct (w_cursor c); reflexivity.
Qed.

Lemma Sem_draw_screen : Sem (draw_screen c p) (spec_draw c) tt.
Proof.
  unfold draw_screen, spec_draw. apply Sem_get. intros sk.
  eapply Sem_conv; [eapply Sem_seq; [apply Sem_size_check|]|apply app_nil_l].
  eapply Sem_conv; [eapply Sem_seq; [apply Sem_topmost_render|apply Sem_screen_draw_screen]|].
  rewrite <- app_assoc. reflexivity.
Qed.

Lemma Sem_entering_idle : Sem (entering_idle c p) (spec_draw c) tt.
Proof. unfold entering_idle. apply Sem_get_started. apply Sem_draw_screen. Qed.

(* ---------- the event loop ---------- *)
Lemma Sem_fire_alarm a : Sem (fire_alarm c p a) (spec_alarm c a) tt.
Proof. destruct a; cbn [fire_alarm spec_alarm]; [apply Sem_cb; reflexivity|apply Sem_entering_idle]. Qed.

Lemma Sem_deliver e : Sem (deliver c p e) (spec_event c e) tt.
Proof.
  destruct e; cbn [deliver spec_event]; try (apply Sem_cb; reflexivity); apply Sem_update.
Qed.

Lemma Sem_do_round r : Sem (do_round c p r) (spec_round c r) tt.
Proof.
  unfold do_round, spec_round. apply Sem_seq; [apply Sem_for_each; apply Sem_deliver|apply Sem_entering_idle].
Qed.

(* everything event_loop.run() does before the harness ends the session *)
Definition loop_body (al : list alarm) (rounds : list (list event)) : M unit :=
  bindM (for_each (fire_alarm c p) al) (fun _ =>
  bindM (entering_idle c p) (fun _ => for_each (do_round c p) rounds)).
Definition spec_loop (al : list alarm) (rounds : list (list event)) : list tev :=
  flat_map (spec_alarm c) al ++ spec_draw c ++ flat_map (spec_round c) rounds.

Lemma Sem_loop_body al rounds : Sem (loop_body al rounds) (spec_loop al rounds) tt.
Proof.
  unfold loop_body, spec_loop.
  apply Sem_seq; [apply Sem_for_each; apply Sem_fire_alarm|].
  apply Sem_seq; [apply Sem_entering_idle|apply Sem_for_each; apply Sem_do_round].
Qed.

Lemma SemR_conv {A} (m : M A) L L' r : SemR m L r -> L = L' -> SemR m L' r.
Proof. intros H <-; exact H. Qed.

Lemma SemR_quit : SemR quit [] (RErr ExitMainLoop).
Proof.
  intros s Hs. unfold quit, bindM, emit, raise. cbn [fst snd cut ncb outcome].
  rewrite acts_cons. cbn [is_act is_cb orb]. rewrite !app_nil_r, Z.add_0_r.
  split; [split; reflexivity|]. repeat split; reflexivity.
Qed.

Definition loop_inner (al : list alarm) (rounds : list (list event)) : M unit :=
  bindM (set_alarms []) (fun _ =>
  bindM (for_each (fire_alarm c p) al) (fun _ =>
  bindM (entering_idle c p) (fun _ =>
  bindM (for_each (do_round c p) rounds) (fun _ => quit)))).

Lemma SemR_loop_inner al rounds : SemR (loop_inner al rounds) (spec_loop al rounds) (RErr ExitMainLoop).
Proof.
  unfold loop_inner, spec_loop.
  eapply SemR_conv; [eapply SemR_bind; [apply Sem_set_alarms|]|apply app_nil_l].
  eapply SemR_bind; [apply Sem_for_each; apply Sem_fire_alarm|].
  eapply SemR_bind; [apply Sem_entering_idle|].
  eapply SemR_conv; [eapply SemR_bind; [apply Sem_for_each; apply Sem_do_round|apply SemR_quit]|apply app_nil_r].
Qed.

(* the result of event_loop.run(): ExitMainLoop (planned, or the harness's final one) is swallowed *)
Definition loop_result (o : option fault) : res unit :=
  match o with Some (FRaise e) => RErr (UserExc e) | _ => ROk tt end.

Lemma event_loop_run_sem rounds s :
  s_started (scr s) = true ->
  let L := spec_loop (alarms s) rounds in
  let rs := event_loop_run c p rounds s in
  Keeps s (snd rs) /\
  acts (snd rs) = acts s ++ fst (cut P (n s) L) /\
  n (snd rs) = n s + ncb (fst (cut P (n s) L)) /\
  fst rs = loop_result (snd (cut P (n s) L)).
Proof.
  intros Hs L rs.
  assert (E : rs = suppress_exit (loop_inner (alarms s) rounds) s) by reflexivity.
  destruct (SemR_loop_inner (alarms s) rounds s Hs) as (K & A & N & R).
  fold L in A, N, R. rewrite E. unfold suppress_exit.
  destruct (loop_inner (alarms s) rounds s) as [r s1]. cbn [fst snd] in *.
  destruct (snd (cut P (n s) L)) as [[|e]|]; cbn [outcome exn_of] in R; subst r; cbn [fst snd loop_result];
    (split; [exact K|split; [exact A|split; [exact N|reflexivity]]]).
Qed.

End WithConfig.

(* ---------- start / stop: symbolic execution on the explicit screen and terminal records ---------- *)
Lemma acts_silent_prefix l s s' :
  tr s' = l ++ tr s -> filter is_act (rev l) = [] -> acts s' = acts s.
Proof.
  unfold acts. intros -> H. rewrite rev_app_distr, filter_app, H. apply app_nil_r.
Qed.

(* the Screen object and the terminal while the loop runs (cursor visibility aside) *)
Definition SC (c : config) (T0 : term) : screen :=
  Screen true (c_handle_mouse c) true (if c_isatty c then Some (t_tios T0) else None)
         (Some (t_winch T0)) (Some (t_tstp T0)) None.
Definition TM (c : config) (T0 : term) : term :=
  Term true true (c_handle_mouse c) (c_handle_mouse c) (c_handle_mouse c) (c_paste c) (c_focus c)
       (if c_isatty c then (fst (t_tios T0), true) else t_tios T0) 3 3 (t_cont T0) false.

(* what the application does before run() *)
Definition prefix (c : config) : M unit :=
  bindM (set_alarms (map AUser (c_pre_alarms c))) (fun _ => if c_prestarted c then screen_start c else ret tt).

Lemma session_unfold c p rounds inputs s :
  session c p rounds inputs s =
  match prefix c s with
  | (ROk _, s') => ml_run c p rounds inputs s'
  | (RErr e, s') => (RErr e, s')
  end.
Proof. reflexivity. Qed.

Lemma hook_start_state c ti w t cn :
  c_hook c = true ->
  let T0 := normal_term ti w t cn in
  exists trc,
    fst (prefix c (init_st T0)) = ROk tt /\
    ml_start c (snd (prefix c (init_st T0))) =
      (ROk tt, St 0 trc (SC c T0) (TM c T0) false true true true (map AUser (c_pre_alarms c) ++ [AEnteringIdle])) /\
    filter is_act (rev trc) = [].
Proof.
  destruct c as [hook filt unh hm pu pa fo ia ps pre sel hasm wk wm cur]. cbn [c_hook]. intros ->.
  destruct hm, pa, fo, ia, ps; eexists; (split; [reflexivity|split; [reflexivity|reflexivity]]).
Qed.
