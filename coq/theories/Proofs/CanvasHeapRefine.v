(* C02, heap layer, part 3: the machine over references computes, after dereferencing,
   exactly what the pure machine of Model/Canvas.v computes. *)
From Coq Require Import ZArith List Bool Lia ZifyBool.
From Urwid Require Import PyBase Canvas CanvasHeap CanvasHeapFrame CanvasHeapScope.
Import ListNotations.
Open Scope Z_scope.
Arguments Z.add : simpl never.
Arguments Z.sub : simpl never.
Arguments Z.mul : simpl never.
Arguments Z.ltb : simpl never.
Arguments Z.leb : simpl never.
Arguments Z.eqb : simpl never.
Arguments Z.min : simpl never.
Arguments Z.max : simpl never.
Arguments Z.to_nat : simpl never.
Arguments Z.of_nat : simpl never.

Definition entry (h : heap) (e : Z * Z) : shard := (fst e, get_inner h (snd e)).
Lemma deref_entry h id : deref h id = map (entry h) (get_outer h id).
Proof. reflexivity. Qed.

Definition plan_val (h : heap) (p : plan) : shards :=
  map (fun e : Z * iref => (fst e, match snd e with IShared iid => get_inner h iid | IFresh cvs => cvs end)) p.

Lemma plan_val_all_fresh h s : plan_val h (all_fresh s) = s.
Proof. unfold plan_val, all_fresh. rewrite map_map. cbn [fst snd]. rewrite <- (map_id s) at 2. apply map_ext. now intros [n c]. Qed.
Lemma plan_val_shared h a : plan_val h (shared a) = map (entry h) a.
Proof. unfold plan_val, shared. rewrite map_map. reflexivity. Qed.
Lemma plan_val_app h p q : plan_val h (p ++ q) = plan_val h p ++ plan_val h q.
Proof. unfold plan_val. apply map_app. Qed.

Lemma get_inner_last h cvs : get_inner (Heap (outer h) (inner h ++ [cvs])) (zlen (inner h)) = cvs.
Proof. unfold get_inner. cbn [inner]. now rewrite hp_nthz_last. Qed.

Lemma alloc_plan_val p : forall h h' a, alloc_plan h p = (h', a) -> plan_ok h p -> map (entry h') a = plan_val h p.
Proof.
  induction p as [|[n [iid|cvs]] p IH]; intros h h' a; cbn [alloc_plan].
  - intros [= <- <-] _. reflexivity.
  - destruct (alloc_plan h p) as [h1 a1] eqn:E. intros [= <- <-] F. inversion F; subst. cbn [snd] in *.
    cbn [map plan_val]. fold (plan_val h p). rewrite (IH _ _ _ E H2). f_equal. unfold entry. cbn [fst snd]. f_equal.
    apply get_inner_ext; [apply (alloc_plan_ext _ _ _ _ E)|assumption].
  - destruct (alloc_plan (Heap (outer h) (inner h ++ [cvs])) p) as [h1 a1] eqn:E. intros [= <- <-] F. inversion F; subst.
    pose proof (hext_push_inner h cvs) as X0. destruct (alloc_plan_ext _ _ _ _ E) as [X1 _].
    cbn [map plan_val]. fold (plan_val h p). f_equal.
    + unfold entry. cbn [fst snd]. f_equal. rewrite (get_inner_ext _ _ _ X1); [apply get_inner_last|].
      cbn [inner]. rewrite zlen_app. change (zlen [cvs]) with 1. pose proof (zlen_nonneg (inner h)). lia.
    + rewrite (IH _ _ _ E) by (eapply plan_ok_ext; eauto).
      unfold plan_val. apply map_ext_in. intros [m [iid|c]] Hin; cbn [fst snd]; [|reflexivity]. f_equal.
      unfold plan_ok in H2. rewrite Forall_forall in H2. specialize (H2 _ Hin). cbn [snd] in H2. now apply get_inner_ext.
Qed.

Lemma alloc_outer_val h p h' id : alloc_outer h p = (h', id) -> plan_ok h p -> deref h' id = plan_val h p.
Proof.
  unfold alloc_outer. destruct (alloc_plan h p) as [h1 a] eqn:E. intros [= <- <-] F.
  unfold deref, get_outer. cbn [outer]. rewrite hp_nthz_last. rewrite <- (alloc_plan_val _ _ _ _ E F).
  apply map_ext. intros e. reflexivity.
Qed.

(* ------------------------------------------------------------------ suffixes *)
Definition suffix {A} (r s : list A) : Prop := exists pre, s = pre ++ r.
Lemma suffix_refl {A} (s : list A) : suffix s s.
Proof. exists []. reflexivity. Qed.
Lemma suffix_cons {A} (x : A) r s : suffix (x :: r) s -> suffix r s.
Proof. intros [pre ->]. exists (pre ++ [x]). now rewrite <- app_assoc. Qed.
Lemma suffix_trans {A} (a b c : list A) : suffix a b -> suffix b c -> suffix a c.
Proof. intros [p ->] [q ->]. exists (q ++ p). now rewrite app_assoc. Qed.

Lemma lastn_suffix {A B} (f : A -> B) (l : list A) (r : list B) : suffix r (map f l) -> map f (lastn (length r) l) = r.
Proof.
  intros [pre E]. unfold lastn. rewrite <- skipn_map.
  assert (length l = (length pre + length r)%nat) as Hl by (rewrite <- (map_length f l), E, app_length; reflexivity).
  rewrite E, Hl. replace (length pre + length r - length r)%nat with (length pre) by lia.
  rewrite skipn_app, skipn_all, Nat.sub_diag. reflexivity.
Qed.

Lemma plan_first_fresh_val h a s' :
  (match s' with [] => True | _ :: rest => suffix rest (map (entry h) a) end) -> plan_val h (plan_first_fresh a s') = s'.
Proof.
  destruct s' as [|[n cvs] rest]; [reflexivity|]. intros S. cbn [plan_first_fresh plan_val map fst snd]. f_equal.
  fold (plan_val h (shared (lastn (length rest) a))). rewrite plan_val_shared. now apply lastn_suffix.
Qed.

(* shards_trim_top: a new first shard followed by a suffix of the old shards *)
Lemma trim_top_go_suffix ss : forall tail top s', trim_top_go ss tail top = Ok s' -> exists x rest, s' = x :: rest /\ suffix rest ss.
Proof.
  induction ss as [|[n cvs] ss IH]; intros tail top s'; cbn [trim_top_go]; [discriminate|].
  destruct (sbody cvs tail) as [sb|e]; [|discriminate]. destruct (top <? n).
  - intros [= <-]. eexists _, ss. split; [reflexivity|]. exists [(n, cvs)]. reflexivity.
  - intros H. destruct (IH _ _ _ H) as (x & rest & -> & S). exists x, rest. split; [reflexivity|].
    eapply suffix_trans; [exact S|]. exists [(n, cvs)]. reflexivity.
Qed.
Lemma trim_top_suffix ss top s' : shards_trim_top ss top = Ok s' -> exists x rest, s' = x :: rest /\ suffix rest ss.
Proof. unfold shards_trim_top. destruct (top <=? 0); [discriminate|]. apply trim_top_go_suffix. Qed.

(* ------------------------------------------------------------------ the operations *)
Ltac alloc_case E :=
  match goal with
  | |- context [alloc_outer ?h ?p] => destruct (alloc_outer h p) as [? ?] eqn:E
  end.

Definition okrel (h' : heap) (c' : hcomp) (r : result comp) : Prop := r = Ok (to_comp h' c').

Lemma to_comp_eq h c c0 : deref h (hid c) = cshards c0 -> hcoords c = ccoords c0 -> hfin c = cfin c0 -> to_comp h c = c0.
Proof. destruct c0. unfold to_comp. cbn. intros -> -> ->. reflexivity. Qed.

Lemma comp_trim_fin c top count c' : comp_trim c top count = Ok c' -> cfin c' = false.
Proof.
  unfold comp_trim. destruct (top <? 0); [discriminate|]. destruct (_ <=? top); [discriminate|]. destruct (cfin c); [discriminate|].
  destruct (if top =? 0 then _ else _); [|discriminate]. destruct (match count with Some _ => _ | None => _ end); [|discriminate]. now intros [= <-].
Qed.

Lemma h_wrap_ref h v h' c : h_wrap h v = Ok (h', c) -> wrap (to_value h v) = Ok (to_comp h' c).
Proof.
  unfold h_wrap. destruct v as [cv cu|c0]; cbn [to_value].
  - destruct (wrap (VLeaf cv cu)) as [c'|e] eqn:Ew; [|discriminate]. alloc_case E. intros [= <- <-]. f_equal. symmetry.
    apply to_comp_eq; cbn [hid hcoords hfin]; [|reflexivity|].
    + rewrite (alloc_outer_val _ _ _ _ E (plan_ok_all_fresh _ _)). apply plan_val_all_fresh.
    + cbn [wrap] in Ew. destruct (canvas_cols cv), (canvas_rows cv); try discriminate. now injection Ew as <-.
  - intros [= <- <-]. reflexivity.
Qed.
Lemma h_wrap_err h v e : h_wrap h v = Err e -> wrap (to_value h v) = Err e.
Proof.
  unfold h_wrap. destruct v as [cv cu|c0]; cbn [to_value]; [|discriminate].
  destruct (wrap (VLeaf cv cu)) as [c'|e0]; [alloc_case E; discriminate|]. now intros [= <-].
Qed.

Lemma h_trim_ref h c top count h' c' :
  h_trim h c top count = Ok (h', c') -> scoped h (hid c) -> comp_trim (to_comp h c) top count = Ok (to_comp h' c').
Proof.
  unfold h_trim. destruct (comp_trim (to_comp h c) top count) as [c1|e] eqn:Ec; [|discriminate]. intros H [S1 S2]. f_equal. symmetry.
  pose proof (comp_trim_fin _ _ _ _ Ec) as Hf. destruct count as [n|].
  - revert H. alloc_case E. intros [= <- <-]. apply to_comp_eq; cbn [hid hcoords hfin]; auto.
    rewrite (alloc_outer_val _ _ _ _ E (plan_ok_all_fresh _ _)). apply plan_val_all_fresh.
  - destruct (top =? 0) eqn:Et.
    + injection H as <- <-. apply to_comp_eq; cbn [hid hcoords hfin]; auto.
      unfold comp_trim in Ec. destruct (top <? 0); [discriminate|]. destruct (_ <=? top); [discriminate|]. destruct (cfin _); [discriminate|].
      rewrite Et in Ec. now injection Ec as <-.
    + revert H. alloc_case E. intros [= <- <-]. apply to_comp_eq; cbn [hid hcoords hfin]; auto.
      rewrite (alloc_outer_val _ _ _ _ E (plan_ok_first_fresh _ _ _ S2)). apply plan_first_fresh_val.
      unfold comp_trim in Ec. destruct (top <? 0); [discriminate|]. destruct (_ <=? top); [discriminate|]. destruct (cfin _); [discriminate|].
      rewrite Et in Ec. cbn [to_comp cshards] in Ec. destruct (shards_trim_top (deref h (hid c)) top) as [s1|e] eqn:E1; [|discriminate].
      injection Ec as <-. cbn [cshards]. destruct (trim_top_suffix _ _ _ E1) as (x & rest & -> & S). exact S.
Qed.

Lemma h_trim_end_ref h c e h' c' : h_trim_end h c e = Ok (h', c') -> comp_trim_end (to_comp h c) e = Ok (to_comp h' c').
Proof.
  unfold h_trim_end. destruct (comp_trim_end (to_comp h c) e) as [c1|er] eqn:Ec; [|discriminate]. alloc_case E. intros [= <- <-]. f_equal. symmetry.
  apply to_comp_eq; cbn [hid hcoords hfin]; [|reflexivity|].
  - rewrite (alloc_outer_val _ _ _ _ E (plan_ok_all_fresh _ _)). apply plan_val_all_fresh.
  - unfold comp_trim_end in Ec. destruct (e <=? 0); [discriminate|]. destruct (_ <? e); [discriminate|]. destruct (cfin _); [discriminate|].
    destruct (shards_trim_rows _ _); [|discriminate]. now injection Ec as <-.
Qed.

Lemma comp_pad_lr_fin c l r c' : comp_pad_trim_left_right c l r = Ok c' -> cfin c' = false.
Proof.
  unfold comp_pad_trim_left_right. destruct (cfin c); [discriminate|]. destruct (if (l <? 0) || (r <? 0) then _ else _) as [s|e]; [|discriminate].
  cbn zeta. destruct (if (0 <? l) || (0 <? r) then _ else _); [|discriminate]. now intros [= <-].
Qed.

Lemma h_pad_lr_ref h c l r h' c' :
  h_pad_trim_left_right h c l r = Ok (h', c') -> scoped h (hid c) ->
  comp_pad_trim_left_right (to_comp h c) l r = Ok (to_comp h' c').
Proof.
  unfold h_pad_trim_left_right. destruct (comp_pad_trim_left_right (to_comp h c) l r) as [c1|e] eqn:Ec; [|discriminate]. intros H [S1 S2].
  f_equal. symmetry. pose proof (comp_pad_lr_fin _ _ _ _ Ec) as Hf.
  destruct ((l <? 0) || (r <? 0)) eqn:E1; [|destruct ((0 <? l) || (0 <? r)) eqn:E2].
  - revert H. alloc_case E. intros [= <- <-]. apply to_comp_eq; cbn [hid hcoords hfin]; auto.
    rewrite (alloc_outer_val _ _ _ _ E (plan_ok_all_fresh _ _)). apply plan_val_all_fresh.
  - revert H. alloc_case E. intros [= <- <-]. apply to_comp_eq; cbn [hid hcoords hfin]; auto.
    rewrite (alloc_outer_val _ _ _ _ E (plan_ok_first_fresh _ _ _ S2)). apply plan_first_fresh_val.
    unfold comp_pad_trim_left_right in Ec. destruct (cfin _); [discriminate|]. rewrite E1 in Ec. cbn zeta in Ec. rewrite E2 in Ec.
    cbn [to_comp cshards] in Ec. destruct (deref h (hid c)) as [|[n cvs] s'] eqn:Ed; [discriminate|]. injection Ec as <-. cbn [cshards].
    rewrite <- deref_entry, Ed. exists [(n, cvs)]. reflexivity.
  - injection H as <- <-. apply to_comp_eq; cbn [hid hcoords hfin]; auto.
    unfold comp_pad_trim_left_right in Ec. destruct (cfin _); [discriminate|]. rewrite E1 in Ec. cbn zeta in Ec. rewrite E2 in Ec. now injection Ec as <-.
Qed.

Lemma h_fill_ref h c m h' c' : h_fill_attr_apply h c m = Ok (h', c') -> comp_fill_attr_apply (to_comp h c) m = Ok (to_comp h' c').
Proof.
  unfold h_fill_attr_apply. destruct (comp_fill_attr_apply (to_comp h c) m) as [c1|e] eqn:Ec; [|discriminate]. alloc_case E. intros [= <- <-]. f_equal. symmetry.
  apply to_comp_eq; cbn [hid hcoords hfin]; [|reflexivity|].
  - rewrite (alloc_outer_val _ _ _ _ E (plan_ok_all_fresh _ _)). apply plan_val_all_fresh.
  - unfold comp_fill_attr_apply in Ec. destruct (cfin _); [discriminate|]. now injection Ec as <-.
Qed.

Lemma h_same_ref h c f h' c' :
  (forall c0 c1, f c0 = Ok c1 -> cshards c1 = cshards c0) ->
  h_same h c f = Ok (h', c') -> f (to_comp h c) = Ok (to_comp h' c').
Proof.
  intros Hf. unfold h_same. destruct (f (to_comp h c)) as [c1|e] eqn:Ec; [|discriminate]. intros [= <- <-]. f_equal. symmetry.
  apply to_comp_eq; cbn [hid hcoords hfin]; auto. rewrite (Hf _ _ Ec). reflexivity.
Qed.

(* ------------------------------------------------------------------ pad_trim_top_bottom *)
Lemma get_outer_append h id e : 0 <= id < zlen (outer h) -> get_outer (append_outer h id e) id = get_outer h id ++ [e].
Proof.
  intros [I1 I2]. unfold append_outer. unfold get_outer at 1. cbn [outer]. unfold nthz. destruct (id <? 0) eqn:E; [lia|].
  now rewrite nth_error_set_nth_same by (unfold zlen in I2; lia).
Qed.
Lemma get_inner_append h id e iid : get_inner (append_outer h id e) iid = get_inner h iid.
Proof. reflexivity. Qed.

Lemma deref_append_outer h id n cvs :
  scoped h id ->
  deref (append_outer (Heap (outer h) (inner h ++ [cvs])) id (n, zlen (inner h))) id = deref h id ++ [(n, cvs)].
Proof.
  intros [I A]. unfold deref at 1. rewrite get_outer_append by exact I. rewrite map_app. cbn [map fst snd]. f_equal.
  - unfold deref. change (get_outer (Heap (outer h) (inner h ++ [cvs])) id) with (get_outer h id).
    apply map_ext_in. intros e He. f_equal. unfold ann_ok in A. rewrite Forall_forall in A. specialize (A _ He).
    rewrite get_inner_append. apply (get_inner_ext h); [apply hext_push_inner|exact A].
  - rewrite get_inner_append. now rewrite get_inner_last.
Qed.

Lemma h_drop_empty_ref h0 c0 t b h1 c1 :
  h_drop_empty h0 c0 t b = (h1, c1) -> to_comp h1 c1 = drop_empty (to_comp h0 c0) t b.
Proof.
  unfold h_drop_empty, drop_empty. cbn [to_comp cshards ccoords cfin].
  destruct (((0 <? t) || (0 <? b)) && (shards_rows (deref h0 (hid c0)) =? 0)).
  - destruct (alloc_outer h0 []) as [h2 id] eqn:E. intros [= <- <-]. unfold to_comp. cbn [hid hcoords hfin].
    rewrite (alloc_outer_val _ _ _ _ E) by constructor. reflexivity.
  - intros [= <- <-]. reflexivity.
Qed.

Lemma h_pad_tb_ref h c t b h' c' :
  h_pad_trim_top_bottom h c t b = Ok (h', c') -> scoped h (hid c) ->
  comp_pad_trim_top_bottom (to_comp h c) t b = Ok (to_comp h' c').
Proof.
  unfold h_pad_trim_top_bottom, comp_pad_trim_top_bottom. cbn [to_comp cfin cshards]. destruct (hfin c) eqn:Hf; [discriminate|]. intros H S.
  fold (to_comp h c).
  (* stage a *)
  assert (exists h1 c1, (if (t <? 0) || (b <? 0)
                         then h_trim h c (Z.max 0 (- t)) (Some (shards_rows (deref h (hid c)) - Z.max 0 (- t) - Z.max 0 (- b)))
                         else Ok (h, c)) = Ok (h1, c1) /\
                        (if (t <? 0) || (b <? 0)
                         then comp_trim (to_comp h c) (Z.max 0 (- t)) (Some (shards_rows (deref h (hid c)) - Z.max 0 (- t) - Z.max 0 (- b)))
                         else Ok (to_comp h c)) = Ok (to_comp h1 c1) /\ scoped h1 (hid c1) /\ hext h h1 /\
                        (hid c1 = hid c \/ zlen (outer h) <= hid c1)) as (h0 & c0 & Ea & Pa & S0 & X0 & I0).
  { destruct ((t <? 0) || (b <? 0)).
    - destruct (h_trim h c _ _) as [[h1 c1]|e] eqn:E; [|discriminate]. exists h1, c1. split; [reflexivity|].
      destruct (h_trim_ext _ _ _ _ _ _ E) as [X I]. split; [now apply h_trim_ref|]. split; [eapply h_trim_scoped; eauto|]. auto.
    - exists h, c. split; [reflexivity|]. split; [reflexivity|]. split; [assumption|]. split; [apply hext_refl|now left]. }
  rewrite Ea in H. rewrite Pa. cbn [to_comp cshards ccoords].
  set (cols := shards_cols (deref h0 (hid c0))) in *.
  (* the 0-row clause *)
  destruct (h_drop_empty h0 c0 t b) as [h1 c1] eqn:Ed.
  fold (to_comp h0 c0). rewrite <- (h_drop_empty_ref _ _ _ _ _ _ Ed). cbn [to_comp cshards ccoords].
  pose proof (h_drop_empty_scoped _ _ _ _ _ _ Ed S0) as S1.
  destruct (h_drop_empty_ext _ _ _ _ _ _ Ed) as [Xd Id].
  assert (X1 : hext h h1) by (eapply hext_trans; eauto).
  assert (I1 : hid c1 = hid c \/ zlen (outer h) <= hid c1).
  { destruct Id as [Id|Id]; [rewrite Id; exact I0|]. right. destruct X0 as (L & _). lia. }
  (* stage b *)
  assert (exists h2 c2, (if 0 <? t
                         then let '(h'0, id) := alloc_outer h1 ((t, IFresh (blank_cvs cols t)) :: shared (get_outer h1 (hid c1))) in
                              (h'0, HC id (translate_coords (hcoords c1) 0 t) false)
                         else (h1, c1)) = (h2, c2) /\ scoped h2 (hid c2) /\
                        (hid c2 = hid c \/ zlen (outer h) <= hid c2) /\
                        deref h2 (hid c2) = cshards (if 0 <? t then Comp ((t, blank_cvs cols t) :: deref h1 (hid c1)) (translate_coords (hcoords c1) 0 t) false
                                                     else to_comp h1 c1) /\
                        hcoords c2 = ccoords (if 0 <? t then Comp ((t, blank_cvs cols t) :: deref h1 (hid c1)) (translate_coords (hcoords c1) 0 t) false
                                              else to_comp h1 c1)) as (h2 & c2 & Eb & S2 & I2 & D2 & C2).
  { destruct (0 <? t).
    - destruct (alloc_outer h1 _) as [h2 id] eqn:E. destruct (alloc_outer_ext _ _ _ _ E) as (X & Y & Z).
      assert (plan_ok h1 ((t, IFresh (blank_cvs cols t)) :: shared (get_outer h1 (hid c1)))) as Pk by (constructor; [exact I|apply plan_ok_shared, S1]).
      eexists _, _. split; [reflexivity|]. cbn [hid hcoords cshards ccoords]. split; [eapply alloc_outer_scoped; eauto|].
      split; [right; destruct X1 as (L & _); lia|]. split; [|reflexivity].
      rewrite (alloc_outer_val _ _ _ _ E Pk). cbn [plan_val map fst snd]. f_equal. fold (plan_val h1 (shared (get_outer h1 (hid c1)))).
      now rewrite plan_val_shared.
    - eexists _, _. split; [reflexivity|]. cbn [to_comp cshards ccoords]. auto. }
  rewrite Eb in H. unfold blank_cvs in D2, C2.
  (* stage c *)
  destruct (0 <? b) eqn:Ebot.
  - destruct (hid c2 =? hid c) eqn:Eq.
    + destruct (alloc_outer h2 _) as [h3 id] eqn:E. injection H as <- <-. f_equal. symmetry. apply to_comp_eq; cbn [hid hcoords hfin cshards ccoords cfin]; auto.
      assert (plan_ok h2 (shared (get_outer h2 (hid c2)) ++ [(b, IFresh (blank_cvs cols b))])) as Pk.
      { unfold plan_ok. apply Forall_app. split; [apply plan_ok_shared, S2|constructor; [exact I|constructor]]. }
      rewrite (alloc_outer_val _ _ _ _ E Pk), plan_val_app, plan_val_shared, <- deref_entry, D2. reflexivity.
    + injection H as <- <-. f_equal. symmetry. apply to_comp_eq; cbn [hid hcoords hfin cshards ccoords cfin]; auto.
      rewrite deref_append_outer by assumption. rewrite D2. reflexivity.
  - injection H as <- <-. f_equal. symmetry. apply to_comp_eq; cbn [hid hcoords hfin cshards ccoords cfin]; auto.
Qed.

Ltac kill_alloc := repeat match goal with |- context [alloc_outer ?h ?p] => destruct (alloc_outer h p) as [? ?] end.

Lemma h_pad_tb_err h c t b e : h_pad_trim_top_bottom h c t b = Err e -> comp_pad_trim_top_bottom (to_comp h c) t b = Err e.
Proof.
  unfold h_pad_trim_top_bottom, comp_pad_trim_top_bottom. cbn [to_comp cfin cshards]. destruct (hfin c); [now intros [= <-]|]. fold (to_comp h c).
  destruct ((t <? 0) || (b <? 0)).
  - unfold h_trim.
    destruct (comp_trim (to_comp h c) (Z.max 0 (- t)) (Some (shards_rows (deref h (hid c)) - Z.max 0 (- t) - Z.max 0 (- b)))) as [c1|e1]; [|now intros [= <-]].
    kill_alloc. cbn zeta. destruct (h_drop_empty _ _ t b) as [? ?]. destruct (0 <? t); kill_alloc; destruct (0 <? b); try destruct (_ =? _); kill_alloc; discriminate.
  - cbn zeta. destruct (h_drop_empty _ _ t b) as [? ?]. destruct (0 <? t); kill_alloc; destruct (0 <? b); try destruct (_ =? _); kill_alloc; discriminate.
Qed.

(* ------------------------------------------------------------------ CanvasCombine *)
Lemma combine_go_shards : forall vs row sh co c',
  combine_go vs row sh co = Ok c' ->
  exists cs, Forall2 (fun v c => wrap v = Ok c) vs cs /\ cshards c' = sh ++ flat_map cshards cs /\ cfin c' = false.
Proof.
  induction vs as [|v vs IH]; intros row sh co c'; cbn [combine_go].
  - intros [= <-]. exists []. cbn. rewrite app_nil_r. auto.
  - destruct (wrap v) as [c|e] eqn:E; [|discriminate]. intros H. destruct (IH _ _ _ _ H) as (cs & F & S & Fn).
    exists (c :: cs). split; [constructor; assumption|]. split; [|assumption]. rewrite S. cbn [flat_map]. now rewrite app_assoc.
Qed.

Lemma h_wrap_all_ref vs : forall h h1 cs,
  h_wrap_all h vs = Ok (h1, cs) -> Forall (vscoped h) vs ->
  Forall2 (fun v c => wrap (to_value h v) = Ok (to_comp h1 c)) vs cs.
Proof.
  induction vs as [|v vs IH]; intros h h1 cs; cbn [h_wrap_all]; [intros [= <- <-] _; constructor|].
  destruct (h_wrap h v) as [[h0 c]|e] eqn:E; [|discriminate]. destruct (h_wrap_all h0 vs) as [[h2 cs']|e] eqn:E2; [|discriminate].
  intros [= <- <-] F. inversion F; subst.
  pose proof (proj1 (h_wrap_ext _ _ _ _ E)) as X0. pose proof (h_wrap_all_ext _ _ _ _ E2) as X2.
  constructor.
  - rewrite (h_wrap_ref _ _ _ _ E). f_equal. unfold to_comp. now rewrite (proj2 (scoped_ext _ _ _ X2 (h_wrap_scoped _ _ _ _ E H1))).
  - assert (Forall (vscoped h0) vs) as F0 by (eapply Forall_vscoped_ext; eauto).
    pose proof (IH _ _ _ E2 F0) as R. clear - R H2 X0.
    induction R as [|v0 c0 vs0 cs0 Hr _ IHR]; constructor; inversion H2; subst.
    + now rewrite <- (proj2 (vscoped_ext _ _ _ X0 H1)).
    + apply IHR. assumption.
Qed.

Lemma wrap_det_list vs : forall cs1 cs2,
  Forall2 (fun v c => wrap v = Ok c) vs cs1 -> Forall2 (fun v c => wrap v = Ok c) vs cs2 -> cs1 = cs2.
Proof.
  induction vs as [|v vs IH]; intros cs1 cs2 F1 F2; inversion F1; inversion F2; subst; [reflexivity|]. f_equal; [congruence|auto].
Qed.

Lemma alloc_res_val hx p co fl h' c :
  (let '(h2, id) := alloc_outer hx p in @Ok (heap * hcomp) (h2, HC id co fl)) = Ok (h', c) -> plan_ok hx p ->
  deref h' (hid c) = plan_val hx p /\ hcoords c = co /\ hfin c = fl.
Proof. destruct (alloc_outer hx p) as [h2 id] eqn:E. intros [= <- <-] F. cbn [hid hcoords hfin]. split; [eapply alloc_outer_val; eauto|auto]. Qed.

Lemma h_combine_ref h vs h' c :
  h_combine h vs = Ok (h', c) -> Forall (vscoped h) vs -> canvas_combine (map (to_value h) vs) = Ok (to_comp h' c).
Proof.
  unfold h_combine. destruct (canvas_combine (map (to_value h) vs)) as [c'|e] eqn:Ec; [|discriminate]. intros H F. f_equal. symmetry.
  unfold canvas_combine in Ec. destruct (combine_go_shards _ _ _ _ _ Ec) as (cs0 & F0 & S0 & Fn0). cbn [app] in S0.
  destruct (h_wrap_all h vs) as [[h1 cs]|e] eqn:E.
  - destruct (alloc_res_val _ _ _ _ _ _ H) as (D & Co & Fi).
    { pose proof (h_wrap_all_scoped _ _ _ _ E F) as Fs. unfold plan_ok. apply Forall_flat_map. eapply Forall_impl; [|exact Fs]. intros c0 [_ A]. apply plan_ok_shared, A. }
    apply to_comp_eq; [|assumption|congruence].
    rewrite D, S0.
    pose proof (h_wrap_all_ref _ _ _ _ E F) as R.
    assert (Forall2 (fun v c0 => wrap v = Ok c0) (map (to_value h) vs) (map (to_comp h1) cs)) as R'.
    { clear - R. induction R; cbn [map]; constructor; auto. }
    rewrite (wrap_det_list _ _ _ F0 R'). clear. induction cs as [|c0 cs IH]; cbn [flat_map map plan_val]; [reflexivity|].
    unfold plan_val in *. rewrite map_app. fold (plan_val h1 (shared (get_outer h1 (hid c0)))). rewrite plan_val_shared, <- deref_entry. now rewrite IH.
  - destruct (alloc_res_val _ _ _ _ _ _ H (plan_ok_all_fresh _ _)) as (D & Co & Fi).
    apply to_comp_eq; [rewrite D; apply plan_val_all_fresh|assumption|congruence].
Qed.

(* ------------------------------------------------------------------ CanvasJoin *)
Lemma canvas_join_fin l c : canvas_join l = Ok c -> cfin c = false.
Proof.
  unfold canvas_join. destruct (join_measure l 0) as [[l2 m]|e]; [|discriminate]. destruct (join_go l2 m 0 no_coords []) as [[co sls]|e]; [|discriminate].
  destruct (shards_join sls); [|discriminate]. now intros [= <-].
Qed.

Lemma h_join_ref h l h' c :
  h_join h l = Ok (h', c) -> canvas_join (map (fun vc : hvalue * Z => (to_value h (fst vc), snd vc)) l) = Ok (to_comp h' c).
Proof.
  unfold h_join. destruct (canvas_join _) as [c'|e] eqn:Ec; [|discriminate]. cbn zeta. intros H. f_equal. symmetry.
  destruct (alloc_res_val _ _ _ _ _ _ H (plan_ok_all_fresh _ _)) as (D & Co & Fi).
  apply to_comp_eq; [rewrite D; apply plan_val_all_fresh|assumption|]. rewrite Fi. symmetry. eapply canvas_join_fin; eauto.
Qed.

(* ------------------------------------------------------------------ CanvasOverlay *)
Lemma comp_overlay_parts c o l t c' :
  comp_overlay c o l t = Ok c' ->
  let shs := cshards c in
  let height := shards_rows (cshards o) in
  let width := shards_cols (cshards o) in
  let right := shards_cols shs - l - width in
  let bottom := shards_rows shs - t - height in
  exists side1 tops bots middle,
    (if t =? 0 then Ok shs else shards_trim_top shs t) = Ok side1 /\
    (if t =? 0 then Ok [] else shards_trim_rows shs t) = Ok tops /\
    (if bottom =? 0 then Ok [] else shards_trim_top side1 height) = Ok bots /\
    cshards c' = tops ++ middle ++ bots /\
    (shards_rows shs =? 0 = true -> middle = []) /\
    (shards_rows shs =? 0 = false -> negb (l =? 0) || negb (right =? 0) = false -> middle = cshards o) /\
    cfin c' = false.
Proof.
  unfold comp_overlay. destruct (cfin c); [discriminate|]. cbn zeta.
  set (shs := cshards c). set (height := shards_rows (cshards o)). set (width := shards_cols (cshards o)).
  set (right := shards_cols shs - l - width). set (bottom := shards_rows shs - t - height).
  destruct (right <? 0); [discriminate|]. destruct (bottom <? 0); [discriminate|].
  assert ((exists side1 tops, (if t =? 0 then Ok (shs, [])
            else match shards_trim_top shs t with
                 | Err e => Err e
                 | Ok side => match shards_trim_rows shs t with Err e => Err e | Ok tp => Ok (side, tp) end
                 end) = Ok (side1, tops) /\
          (if t =? 0 then Ok shs else shards_trim_top shs t) = Ok side1 /\
          (if t =? 0 then Ok [] else shards_trim_rows shs t) = Ok tops) \/
          exists e, (if t =? 0 then Ok (shs, [])
            else match shards_trim_top shs t with
                 | Err e => Err e
                 | Ok side => match shards_trim_rows shs t with Err e => Err e | Ok tp => Ok (side, tp) end
                 end) = @Err (shards * shards) e) as Hs.
  { destruct (t =? 0); [left; eauto|]. destruct (shards_trim_top shs t) as [sd|e]; [|right; eauto].
    destruct (shards_trim_rows shs t) as [tp|e]; [left; eauto|right; eauto]. }
  destruct Hs as [(side1 & tops & -> & Es1 & Et)|(e & ->)]; [|discriminate].
  assert ((exists side2 bots, (if bottom =? 0 then Ok (side1, [])
            else match shards_trim_top side1 height with
                 | Err e => Err e
                 | Ok bt => match shards_trim_rows side1 height with Err e => Err e | Ok sd => Ok (sd, bt) end
                 end) = Ok (side2, bots) /\
          (if bottom =? 0 then Ok [] else shards_trim_top side1 height) = Ok bots) \/
          exists e, (if bottom =? 0 then Ok (side1, [])
            else match shards_trim_top side1 height with
                 | Err e => Err e
                 | Ok bt => match shards_trim_rows side1 height with Err e => Err e | Ok sd => Ok (sd, bt) end
                 end) = @Err (shards * shards) e) as Hb.
  { destruct (bottom =? 0); [left; eauto|]. destruct (shards_trim_top side1 height) as [bt|e]; [|right; eauto].
    destruct (shards_trim_rows side1 height) as [sd|e]; [left; eauto|right; eauto]. }
  destruct Hb as [(side2 & bots & -> & Eb)|(e & ->)]; [|discriminate].
  destruct (if 0 <? l then _ else _) as [ls|e]; [|discriminate].
  destruct (if 0 <? right then _ else _) as [rs|e]; [|discriminate].
  destruct (shards_rows shs =? 0) eqn:Er.
  - intros [= <-]. exists side1, tops, bots, []. cbn [cshards cfin]. repeat split; auto. discriminate.
  - destruct (negb (l =? 0) || negb (right =? 0)) eqn:Ej.
    + destruct (shards_join _) as [mid|e]; [|discriminate]. intros [= <-]. exists side1, tops, bots, mid. cbn [cshards cfin].
      repeat split; auto; discriminate.
    + intros [= <-]. exists side1, tops, bots, (cshards o). cbn [cshards cfin]. repeat split; auto. discriminate.
Qed.

Definition psuffix {A} (r s : list A) : Prop := exists pre x0, s = pre ++ x0 :: r.
Lemma trim_top_go_psuffix ss : forall tail top s', trim_top_go ss tail top = Ok s' -> exists x rest, s' = x :: rest /\ psuffix rest ss.
Proof.
  induction ss as [|[n cvs] ss IH]; intros tail top s'; cbn [trim_top_go]; [discriminate|].
  destruct (sbody cvs tail) as [sb|e]; [|discriminate]. destruct (top <? n).
  - intros [= <-]. eexists _, ss. split; [reflexivity|]. exists [], (n, cvs). reflexivity.
  - intros H. destruct (IH _ _ _ H) as (x & rest & -> & (pre & x0 & ->)). exists x, rest. split; [reflexivity|].
    exists ((n, cvs) :: pre), x0. reflexivity.
Qed.
Lemma trim_top_psuffix ss top s' : shards_trim_top ss top = Ok s' -> exists x rest, s' = x :: rest /\ psuffix rest ss.
Proof. unfold shards_trim_top. destruct (top <=? 0); [discriminate|]. apply trim_top_go_psuffix. Qed.
Lemma psuffix_suffix {A} (r s : list A) : psuffix r s -> suffix r s.
Proof. intros (pre & x0 & ->). exists (pre ++ [x0]). now rewrite <- app_assoc. Qed.
Lemma psuffix_tail {A} (r : list A) y s1 : psuffix r (y :: s1) -> suffix r s1.
Proof.
  intros (pre & x0 & E). destruct pre as [|p pre]; cbn [app] in E; injection E as _ E; subst s1; [apply suffix_refl|].
  exists (pre ++ [x0]). now rewrite <- app_assoc.
Qed.

Lemma firstn_skipn_mid {A} (a m b : list A) :
  firstn (length (a ++ m ++ b) - length a - length b) (skipn (length a) (a ++ m ++ b)) = m.
Proof.
  rewrite skipn_app, skipn_all, Nat.sub_diag. cbn [skipn app]. rewrite !app_length.
  replace (length a + (length m + length b) - length a - length b)%nat with (length m) by lia.
  rewrite firstn_app, firstn_all, Nat.sub_diag. cbn [firstn]. apply app_nil_r.
Qed.

Lemma h_wrap_fin h v h' c : h_wrap h v = Ok (h', c) -> hfin c = false.
Proof.
  unfold h_wrap. destruct v as [cv cu|c0]; [|now intros [= <- <-]].
  destruct (wrap (VLeaf cv cu)); [|discriminate]. destruct (alloc_outer _ _). now intros [= <- <-].
Qed.

Lemma canvas_overlay_fin tv bv l t c : canvas_overlay tv bv l t = Ok c -> cfin c = false.
Proof.
  unfold canvas_overlay. destruct (wrap bv) as [b|e]; [|discriminate]. destruct tv as [? ?|o]; [discriminate|].
  intros H. destruct (comp_overlay_parts _ _ _ _ _ H) as (_ & _ & _ & _ & _ & _ & _ & _ & _ & _ & F). exact F.
Qed.

Lemma h_overlay_ref h tv bv l t h' c :
  h_overlay h tv bv l t = Ok (h', c) -> vscoped h tv -> vscoped h bv ->
  canvas_overlay (to_value h tv) (to_value h bv) l t = Ok (to_comp h' c).
Proof.
  unfold h_overlay. destruct (canvas_overlay (to_value h tv) (to_value h bv) l t) as [c'|e] eqn:Ec; [|discriminate]. cbn zeta.
  intros H St Sb. f_equal. symmetry. pose proof (canvas_overlay_fin _ _ _ _ _ Ec) as Hfin.
  assert (forall hx, (let '(h2, id) := alloc_outer hx (all_fresh (cshards c')) in @Ok (heap * hcomp) (h2, HC id (ccoords c') false)) = Ok (h', c) ->
                     to_comp h' c = c') as Fallback.
  { intros hx Hx. destruct (alloc_res_val _ _ _ _ _ _ Hx (plan_ok_all_fresh _ _)) as (D & Co & Fi).
    apply to_comp_eq; [rewrite D; apply plan_val_all_fresh|assumption|congruence]. }
  destruct (h_wrap h bv) as [[h1 b]|e] eqn:E; [|eapply Fallback; eauto].
  destruct tv as [? ?|o]; [eapply Fallback; eauto|].
  destruct (if t =? 0 then Ok (deref h1 (hid b)) else shards_trim_top (deref h1 (hid b)) t) as [side1|e] eqn:Es1; [|eapply Fallback; eauto].
  destruct (if t =? 0 then Ok [] else shards_trim_rows (deref h1 (hid b)) t) as [tops|e] eqn:Et; [|eapply Fallback; eauto].
  destruct (if _ =? 0 then Ok [] else shards_trim_top side1 _) as [bots|e] eqn:Eb; [|eapply Fallback; eauto].
  (* the main branch *)
  pose proof (proj1 (h_wrap_ext _ _ _ _ E)) as X1. pose proof (h_wrap_scoped _ _ _ _ E Sb) as Sb1.
  cbn [vscoped] in St. destruct (scoped_ext _ _ _ X1 St) as [St1 Do].
  unfold canvas_overlay in Ec. cbn [to_value] in Ec. rewrite (h_wrap_ref _ _ _ _ E) in Ec.
  destruct (comp_overlay_parts _ _ _ _ _ Ec) as (side1' & tops' & bots' & middle & P1 & P2 & P3 & P4 & P5 & P6 & _).
  cbn [to_comp cshards] in P1, P2, P3, P5, P6. rewrite <- Do in P3, P6.
  rewrite Es1 in P1. injection P1 as <-. rewrite Et in P2. injection P2 as <-. rewrite Eb in P3. injection P3 as <-.
  assert (plan_ok h1 (all_fresh tops ++
                      (if shards_rows (deref h1 (hid b)) =? 0 then []
                       else if negb (l =? 0) || negb (shards_cols (deref h1 (hid b)) - l - shards_cols (deref h1 (hid o)) =? 0)
                            then all_fresh (firstn (length (cshards c') - length tops - length bots) (skipn (length tops) (cshards c')))
                            else shared (get_outer h1 (hid o))) ++
                      plan_first_fresh (get_outer h1 (hid b)) bots)) as Pk.
  { unfold plan_ok. apply Forall_app. split; [apply plan_ok_all_fresh|]. apply Forall_app. split; [|apply plan_ok_first_fresh, Sb1].
    match goal with |- Forall _ (if ?c then _ else _) => destruct c end; [constructor|].
    match goal with |- Forall _ (if ?c then _ else _) => destruct c end; [apply plan_ok_all_fresh|apply plan_ok_shared, St1]. }
  destruct (alloc_res_val _ _ _ _ _ _ H Pk) as (D & Co & Fi).
  apply to_comp_eq; [|assumption|congruence].
  rewrite D, !plan_val_app, plan_val_all_fresh. rewrite P4. f_equal. f_equal.
  - (* the middle *)
    destruct (shards_rows (deref h1 (hid b)) =? 0) eqn:Er; [now rewrite (P5 eq_refl)|].
    destruct (negb (l =? 0) || negb (shards_cols (deref h1 (hid b)) - l - shards_cols (deref h1 (hid o)) =? 0)) eqn:Ej.
    + rewrite plan_val_all_fresh. apply firstn_skipn_mid.
    + rewrite plan_val_shared, <- deref_entry. rewrite (P6 eq_refl eq_refl). cbn [to_comp cshards]. now rewrite Do.
  - (* the bottom *)
    apply plan_first_fresh_val. destruct bots as [|x rest]; [exact I|].
    destruct (shards_rows (deref h1 (hid b)) - t - shards_rows (deref h1 (hid o)) =? 0); [discriminate|].
    destruct (trim_top_psuffix _ _ _ Eb) as (x' & rest' & [= <- <-] & PS). rewrite <- deref_entry.
    destruct (t =? 0).
    + injection Es1 as <-. now apply psuffix_suffix.
    + destruct (trim_top_psuffix _ _ _ Es1) as (y & s1 & -> & PS1). eapply suffix_trans; [eapply psuffix_tail; eauto|now apply psuffix_suffix].
Qed.
