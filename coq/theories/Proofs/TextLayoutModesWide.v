(* The wide (double-byte) and narrow (single-byte) byte-encoding modes satisfy the agreement hypotheses of
   Proofs/TextLayoutModesSim.v; hence the bytes layout in these modes is the image of the str layout.
   Wide mode: on WELL-FORMED double-byte text - a list of characters each of which is a single byte below 0x80
   or a lead byte 0x81..0xFF followed by a trail byte 0x40..0x7E / 0x80..0xFF (C11's dbchar_ok) - using C11's
   exactness theorem for within_double_byte (Proofs/WideExact.v).  A character is coded as one integer:
   the byte itself, or 256 * lead + trail. *)
From Coq Require Import ZArith List Bool Lia ZifyBool.
Import ListNotations.
From Urwid Require Import PyBase PyList TextLayout TextLayoutBytes TextLayoutModes TextLayoutFacts TextLayoutProofs TextLayoutModesSim.
From Urwid Require Width WidthFacts WideProofs WideExact str_loops_gen GenEq.
Open Scope Z_scope.

Arguments Z.add : simpl never.
Arguments Z.sub : simpl never.
Arguments Z.mul : simpl never.
Arguments Z.div : simpl never.
Arguments Z.modulo : simpl never.
Arguments Z.ltb : simpl never.
Arguments Z.leb : simpl never.
Arguments Z.eqb : simpl never.
Arguments Z.land : simpl never.
Arguments Z.of_nat : simpl never.
Arguments Z.to_nat : simpl never.

(* ---------- the primitives written out in the model are C11's ---------- *)
Lemma w_scan_eq text n : forall i ls, w_scan text n i ls = Width.wdb_scan text n i ls.
Proof.
  induction n as [|n IH]; intros i ls; cbn [w_scan Width.wdb_scan]; [reflexivity|].
  destruct (ls <=? i); [|reflexivity]. destruct (get_index text i); [|reflexivity].
  destruct (a <? 128); [reflexivity | apply IH].
Qed.

Lemma w_wdb_eq n : forall text ls pos, w_wdb n text ls pos = Width.wdb n text ls pos.
Proof.
  induction n as [|n IH]; intros text ls pos; cbn [w_wdb Width.wdb]; [reflexivity|].
  destruct (get_index text pos) as [v|e]; [|reflexivity].
  destruct ((64 <=? v) && (v <? 127)).
  - destruct (pos =? ls); [reflexivity|]. destruct (get_index text (pos - 1)) as [p1|e]; [|reflexivity].
    destruct (129 <=? p1); [|reflexivity]. rewrite IH. reflexivity.
  - destruct (v <? 128); [reflexivity|]. rewrite w_scan_eq. reflexivity.
Qed.

Lemma w_within_eq text ls pos : w_within_double_byte text ls pos = Width.within_double_byte text ls pos.
Proof. apply w_wdb_eq. Qed.

(* ... and C11 proves that function equal to the translation regenerated from str_util.py on every run *)
Lemma w_within_is_translated text ls pos :
  w_within_double_byte text ls pos = str_loops_gen.within_double_byte_gen 3 text ls pos.
Proof. rewrite w_within_eq. symmetry. apply GenEq.within_double_byte_gen_eq. Qed.

Lemma w_calc_text_pos_eq wcw t a b p : w_calc_text_pos t a b p = Width.calc_text_pos wcw Width.MWide t a b p.
Proof. unfold w_calc_text_pos, Width.calc_text_pos. rewrite w_within_eq. reflexivity. Qed.
Lemma n_calc_text_pos_eq wcw t a b p : n_calc_text_pos t a b p = Width.calc_text_pos wcw Width.MNarrow t a b p.
Proof. reflexivity. Qed.
Lemma n_calc_width_eq wcw t a b : n_calc_width t a b = Width.calc_width wcw Width.MWide t a b /\
                                  n_calc_width t a b = Width.calc_width wcw Width.MNarrow t a b.
Proof. split; reflexivity. Qed.
Lemma w_is_wide_char_eq wcw t o : w_is_wide_char t o = Width.is_wide_char wcw Width.MWide t o.
Proof. unfold w_is_wide_char, Width.is_wide_char. rewrite w_within_eq. reflexivity. Qed.
Lemma w_move_prev_char_eq t a b : w_move_prev_char t a b = Width.move_prev_char Width.MWide t a b.
Proof. unfold w_move_prev_char, Width.move_prev_char. rewrite w_within_eq. reflexivity. Qed.
Lemma w_move_next_char_eq t a b : w_move_next_char t a b = Width.move_next_char Width.MWide t a b.
Proof. unfold w_move_next_char, Width.move_next_char. rewrite w_within_eq. reflexivity. Qed.
Lemma n_move_char_eq t a b : n_move_prev_char t a b = Width.move_prev_char Width.MNarrow t a b /\
                             n_move_next_char t a b = Width.move_next_char Width.MNarrow t a b.
Proof. split; reflexivity. Qed.

(* ---------- uniqueness of the str position scan ---------- *)
Lemma ctp_unique cw (cw_range : forall c, 0 <= cw c <= 2) t a b col p :
  0 <= a <= p -> p <= b -> b <= zlen t -> 0 <= col -> sumw cw (slice t a p) <= col ->
  (p = b \/ exists ch, nthz t p = Some ch /\ col < cw ch + sumw cw (slice t a p)) ->
  calc_text_pos cw t a b col = LOk (p, sumw cw (slice t a p)).
Proof.
  intros H1 H2 H3 H4 H5 H6.
  destruct (calc_text_pos_spec cw t a b col ltac:(lia) H3 H4) as (p' & c' & E & Hp' & Hc' & Hle' & Hend').
  rewrite E. assert (p' = p); [|subst; reflexivity].
  pose proof (ctp_result_ge cw cw_range t a b col p' c' p ltac:(lia) H3 H4 E ltac:(lia) H5).
  destruct (Z_lt_le_dec p p') as [L|]; [exfalso | lia].
  destruct H6 as [->|(ch & N & Lt)]; [lia|].
  pose proof (sumw_slice_mono cw cw_range t a (p + 1) p' ltac:(lia) ltac:(lia)).
  rewrite (sumw_slice_snoc cw t a p ch) in H0 by (lia || assumption). lia.
Qed.

(* ====================================================================================== *)
(* narrow mode                                                                             *)
Definition enc_n (c : Z) : list Z := [c].
Definition cw_n (c : Z) : Z := 1.

Section Narrow.
Variable s : list Z.
Notation B := (gboff enc_n s).
Notation len := (zlen s).

Lemma F_n l : flat_map enc_n l = l.
Proof. induction l; cbn; [reflexivity | now rewrite IHl]. Qed.

Lemma sumw_n l : sumw cw_n l = zlen l.
Proof. induction l; cbn [sumw]; [reflexivity|]. rewrite IHl, zlen_cons. unfold cw_n. lia. Qed.

Lemma B_n k : 0 <= k <= len -> B k = k.
Proof. intros H. unfold gboff. rewrite F_n. rewrite zlen_takez by lia. lia. Qed.

Lemma narrow_head : forall c, In c s -> exists h r, enc_n c = h :: r /\ (h = NL <-> c = NL) /\ (h = SP <-> c = SP) /\
                                       ~ In NL r /\ (c = SP \/ c = NL -> r = []).
Proof. intros c _. exists c, []. repeat split; auto. Qed.

Lemma narrow_cw a b : 0 <= a <= b -> b <= len ->
  p_cw P_narrow (flat_map enc_n s) (B a) (B b) = Ok (sumw cw_n (slice s a b)).
Proof.
  intros H1 H2. rewrite !B_n by lia. cbn [p_cw P_narrow]. unfold n_calc_width.
  replace (b <? a) with false by lia. rewrite sumw_n, zlen_slice by lia. reflexivity.
Qed.

Lemma enc_n_len c : 1 <= zlen (enc_n c).
Proof. unfold enc_n, zlen. cbn [length]. lia. Qed.

Lemma cw_n_range c : 0 <= cw_n c <= 2.
Proof. unfold cw_n; lia. Qed.

Lemma narrow_ctp a b col : 0 <= a <= b -> b <= len -> 0 <= col ->
  exists p c, calc_text_pos cw_n s a b col = LOk (p, c) /\ a <= p <= b /\
              p_ctp P_narrow (flat_map enc_n s) (B a) (B b) col = Ok (B p, c).
Proof.
  intros H1 H2 H3. set (p := Z.min b (a + col)). exists p, (p - a).
  assert (Hw : sumw cw_n (slice s a p) = p - a) by (rewrite sumw_n, zlen_slice by lia; lia).
  split.
  - rewrite <- Hw. apply (ctp_unique cw_n cw_n_range); try lia.
    destruct (Z.eq_dec p b); [left; assumption | right].
    destruct (nthz_ex s p ltac:(lia)) as (ch & N). exists ch. split; [exact N|]. rewrite Hw. unfold cw_n. lia.
  - split; [lia|]. rewrite !B_n by lia. cbn [p_ctp P_narrow]. unfold n_calc_text_pos.
    replace (b <? a) with false by lia. destruct (b <=? a + col) eqn:E; f_equal; f_equal; lia.
Qed.

Lemma narrow_wide k c : nthz s k = Some c -> p_wide P_narrow (flat_map enc_n s) (B k) = Ok (cw_n c =? 2).
Proof. reflexivity. Qed.

Lemma narrow_prev a b : 0 <= a < b -> b <= len -> p_prev P_narrow (flat_map enc_n s) (B a) (B b) = Ok (B (b - 1)).
Proof.
  intros H1 H2. rewrite !B_n by lia. cbn [p_prev P_narrow]. unfold n_move_prev_char.
  replace (b <=? a) with false by lia. reflexivity.
Qed.

Lemma narrow_next a b : 0 <= a < b -> b <= len -> p_next P_narrow (flat_map enc_n s) (B a) (B b) = Ok (B (a + 1)).
Proof.
  intros H1 H2. rewrite !B_n by lia. cbn [p_next P_narrow]. unfold n_move_next_char.
  replace (b <=? a) with false by lia. reflexivity.
Qed.

Lemma narrow_roww e : p_cw P_narrow (flat_map enc_n e) 0 (zlen (flat_map enc_n e)) = Ok (sumw cw_n e).
Proof.
  cbn [p_cw P_narrow]. unfold n_calc_width. rewrite F_n.
  pose proof (zlen_nonneg e). replace (zlen e <? 0) with false by lia. rewrite sumw_n. f_equal. lia.
Qed.

End Narrow.

Theorem narrow_layout_is_image s width align wrap ell : 1 <= width ->
  layout_g P_narrow (flat_map enc_n s) width align wrap (map enc_n ell)
  = gmap_result enc_n s (layout cw_n s width align wrap ell).
Proof.
  intros Hw.
  exact (g_layout_is_image enc_n enc_n_len s cw_n cw_n_range P_narrow (narrow_head s) (narrow_cw s) (narrow_ctp s)
           (narrow_wide s) (narrow_prev s) (narrow_next s) width Hw eq_refl narrow_roww align wrap ell).
Qed.

(* ====================================================================================== *)
(* wide mode                                                                               *)
Definition enc_w (c : Z) : list Z := if c <? 256 then [c] else [c / 256; c mod 256].
Definition cw_w (c : Z) : Z := if c <? 256 then 1 else 2.
(* well-formed character: a byte below 0x80, or lead 0x81..0xFF and trail 0x40..0x7E / 0x80..0xFF *)
Definition wfb (c : Z) : bool :=
  ((0 <=? c) && (c <? 128)) ||
  ((256 <=? c) && (129 <=? c / 256) && (c / 256 <=? 255) &&
   (((64 <=? c mod 256) && (c mod 256 <=? 126)) || (128 <=? c mod 256))).
Definition to_db (c : Z) : WideExact.dbchar :=
  if c <? 256 then WideExact.DSingle c else WideExact.DDouble (c / 256) (c mod 256).

Lemma to_db_ok c : wfb c = true -> WideExact.dbchar_ok (to_db c).
Proof.
  unfold wfb, to_db. pose proof (Z.mod_pos_bound c 256 ltac:(lia)).
  destruct (c <? 256) eqn:E; cbn [WideExact.dbchar_ok]; lia.
Qed.

Lemma to_db_bytes c : WideExact.dbbytes (to_db c) = enc_w c.
Proof. unfold to_db, enc_w. destruct (c <? 256); reflexivity. Qed.

Lemma dbflat_map l : WideExact.dbflat (map to_db l) = flat_map enc_w l.
Proof.
  induction l as [|c l IH]; [reflexivity|]. cbn [map flat_map]. unfold WideExact.dbflat in *. cbn [flat_map].
  rewrite IH, to_db_bytes. reflexivity.
Qed.

Lemma ok_map l : forallb wfb l = true -> Forall WideExact.dbchar_ok (map to_db l).
Proof.
  induction l as [|c l IH]; cbn [forallb map]; intros H; [constructor|].
  apply andb_true_iff in H. destruct H. constructor; [apply to_db_ok; assumption | apply IH; assumption].
Qed.

Lemma len_F_w l : zlen (flat_map enc_w l) = sumw cw_w l.
Proof.
  induction l as [|c l IH]; [reflexivity|]. cbn [flat_map sumw]. rewrite zlen_app, IH.
  unfold enc_w, cw_w. destruct (c <? 256); reflexivity.
Qed.

Lemma cw_w_range c : 0 <= cw_w c <= 2.
Proof. unfold cw_w. destruct (c <? 256); lia. Qed.

Lemma enc_w_len c : 1 <= zlen (enc_w c).
Proof. unfold enc_w, zlen. destruct (c <? 256); cbn [length]; lia. Qed.

Lemma forallb_takez l n : forallb wfb l = true -> forallb wfb (takez n l) = true.
Proof.
  unfold takez. generalize (Z.to_nat n). intros k; revert l. induction k; intros l H; [reflexivity|].
  destruct l; [reflexivity|]. cbn [firstn forallb] in *. apply andb_true_iff in H. destruct H. rewrite H. cbn. apply IHk; assumption.
Qed.

Lemma forallb_dropz l n : forallb wfb l = true -> forallb wfb (dropz n l) = true.
Proof.
  unfold dropz. generalize (Z.to_nat n). intros k; revert l. induction k; intros l H; [exact H|].
  destruct l; [reflexivity|]. cbn [skipn forallb] in *. apply andb_true_iff in H. destruct H. apply IHk; assumption.
Qed.

Section Wide.
Variable s : list Z.
Hypothesis Hwf : forallb wfb s = true.
Notation B := (gboff enc_w s).
Notation bs := (flat_map enc_w s).
Notation len := (zlen s).

Lemma wf_in c : In c s -> wfb c = true.
Proof. intros I. rewrite forallb_forall in Hwf. apply Hwf; assumption. Qed.

Lemma wide_head : forall c, In c s -> exists h r, enc_w c = h :: r /\ (h = NL <-> c = NL) /\ (h = SP <-> c = SP) /\
                                     ~ In NL r /\ (c = SP \/ c = NL -> r = []).
Proof.
  intros c I. pose proof (wf_in c I) as W. unfold wfb in W. unfold enc_w, NL, SP.
  pose proof (Z.mod_pos_bound c 256 ltac:(lia)).
  destruct (c <? 256) eqn:E.
  - exists c, []. repeat split; auto.
  - exists (c / 256), [c mod 256]. split; [reflexivity|]. repeat split; try lia.
    all: try (intros [Q|[]]; lia). all: try (intros [Q|Q]; lia).
Qed.

Lemma B_split_w a b : 0 <= a <= b -> b <= len -> B b = B a + sumw cw_w (slice s a b).
Proof.
  intros H1 H2.
  destruct (B_split enc_w enc_w_len s a b H1 H2) as [_ E]. rewrite E, len_F_w. reflexivity.
Qed.

Lemma wide_cw a b : 0 <= a <= b -> b <= len -> p_cw P_wide bs (B a) (B b) = Ok (sumw cw_w (slice s a b)).
Proof.
  intros H1 H2. cbn [p_cw P_wide]. unfold n_calc_width. pose proof (B_split_w a b H1 H2).
  pose proof (sumw_nonneg cw_w cw_w_range (slice s a b)). replace (B b <? B a) with false by lia. f_equal. lia.
Qed.

(* the class of the bytes of character k, seen from any earlier boundary B a *)
Lemma wdb_at a k c : 0 <= a <= k -> k < len -> nthz s k = Some c ->
  (c < 256 -> w_within_double_byte bs (B a) (B k) = Ok 0) /\
  (256 <= c -> w_within_double_byte bs (B a) (B k) = Ok 1 /\ w_within_double_byte bs (B a) (B k + 1) = Ok 2).
Proof.
  intros H1 H2 N.
  assert (Es : s = takez a s ++ slice s a k ++ c :: dropz (k + 1) s).
  { rewrite (WidthFacts.takez_dropz_split s a k ltac:(lia) ltac:(lia)) at 1. f_equal. f_equal.
    change (takez (k - a) (dropz a s)) with (slice s a k).
    pose proof (WidthFacts.takez_dropz_split s k (k + 1) ltac:(lia) ltac:(lia)) as E2.
    change (takez (k + 1 - k) (dropz k s)) with (slice s k (k + 1)) in E2. rewrite (slice_one s k c N) in E2.
    assert (dropz k s = c :: dropz (k + 1) s).
    { rewrite E2 at 1. replace k with (zlen (takez k s)) at 1 by (rewrite zlen_takez by lia; lia).
      rewrite WidthFacts.dropz_app_exact. reflexivity. }
    exact H. }
  assert (Hok : Forall WideExact.dbchar_ok (map to_db (slice s a k) ++ to_db c :: map to_db (dropz (k + 1) s))).
  { change (to_db c :: map to_db (dropz (k + 1) s)) with (map to_db (c :: dropz (k + 1) s)). rewrite <- map_app.
    apply ok_map. rewrite Es in Hwf. rewrite forallb_app in Hwf. apply andb_true_iff in Hwf. tauto. }
  pose proof (WideExact.wdb_exact (flat_map enc_w (takez a s)) (map to_db (slice s a k)) (to_db c)
                (map to_db (dropz (k + 1) s)) [] Hok) as X. cbn zeta in X.
  change (to_db c :: map to_db (dropz (k + 1) s)) with (map to_db (c :: dropz (k + 1) s)) in X.
  rewrite <- map_app, dbflat_map, app_nil_r, <- flat_map_app, <- Es in X.
  rewrite dbflat_map in X.
  assert (EB : zlen (flat_map enc_w (takez a s)) + zlen (flat_map enc_w (slice s a k)) = B k).
  { destruct (B_split enc_w enc_w_len s a k ltac:(lia) ltac:(lia)) as [_ E]. unfold gboff in *. lia. }
  rewrite EB in X. change (zlen (flat_map enc_w (takez a s))) with (B a) in X.
  rewrite !w_within_eq. unfold to_db in X. split; intros Hc.
  - replace (c <? 256) with true in X by lia. exact X.
  - replace (c <? 256) with false in X by lia. exact X.
Qed.

Lemma wide_wide k c : nthz s k = Some c -> p_wide P_wide bs (B k) = Ok (cw_w c =? 2).
Proof.
  intros N. pose proof (nthz_lt _ _ _ N) as Hk. cbn [p_wide P_wide]. unfold w_is_wide_char.
  destruct (wdb_at k k c ltac:(lia) ltac:(lia) N) as (W1 & W2). unfold cw_w.
  destruct (c <? 256) eqn:E.
  - rewrite (W1 ltac:(lia)). reflexivity.
  - rewrite (proj1 (W2 ltac:(lia))). reflexivity.
Qed.

Lemma B_succ_w k c : nthz s k = Some c -> B (k + 1) = B k + cw_w c.
Proof.
  intros N. pose proof (nthz_lt _ _ _ N) as Hk. rewrite (B_split_w k (k + 1)) by lia.
  rewrite (slice_one s k c N). cbn [sumw]. lia.
Qed.

Lemma wide_next a b : 0 <= a < b -> b <= len -> p_next P_wide bs (B a) (B b) = Ok (B (a + 1)).
Proof.
  intros H1 H2. destruct (nthz_ex s a ltac:(lia)) as (c & N).
  cbn [p_next P_wide]. unfold w_move_next_char.
  pose proof (B_strict enc_w enc_w_len s a b H1 H2) as Hs. replace (B b <=? B a) with false by lia.
  destruct (wdb_at a a c ltac:(lia) ltac:(lia) N) as (W1 & W2). rewrite (B_succ_w a c N). unfold cw_w.
  destruct (c <? 256) eqn:E.
  - rewrite (W1 ltac:(lia)). reflexivity.
  - rewrite (proj1 (W2 ltac:(lia))). reflexivity.
Qed.

Lemma wide_prev a b : 0 <= a < b -> b <= len -> p_prev P_wide bs (B a) (B b) = Ok (B (b - 1)).
Proof.
  intros H1 H2. destruct (nthz_ex s (b - 1) ltac:(lia)) as (c & N).
  cbn [p_prev P_wide]. unfold w_move_prev_char.
  pose proof (B_strict enc_w enc_w_len s a b H1 H2) as Hs. replace (B b <=? B a) with false by lia.
  destruct (wdb_at a (b - 1) c ltac:(lia) ltac:(lia) N) as (W1 & W2).
  pose proof (B_succ_w (b - 1) c N) as Hsucc. replace (b - 1 + 1) with b in Hsucc by lia. unfold cw_w in Hsucc.
  destruct (c <? 256) eqn:E.
  - replace (B b - 1) with (B (b - 1)) by lia. rewrite (W1 ltac:(lia)).
    replace (0 =? 2) with false by reflexivity. reflexivity.
  - replace (B b - 1) with (B (b - 1) + 1) by lia. rewrite (proj2 (W2 ltac:(lia))).
    replace (2 =? 2) with true by reflexivity. f_equal. lia.
Qed.

(* every byte offset of [B a, B b) is the first byte of a character, or the second byte of a double one *)
Lemma classify_w a b j : 0 <= a <= b -> b <= len -> B a <= j < B b ->
  exists k c, a <= k < b /\ nthz s k = Some c /\ (j = B k \/ (j = B k + 1 /\ 256 <= c)).
Proof.
  intros H1 H2 Hj.
  assert (G : forall n : nat, a + Z.of_nat n <= b -> j < B (a + Z.of_nat n) ->
              exists k c, a <= k < a + Z.of_nat n /\ nthz s k = Some c /\ (j = B k \/ (j = B k + 1 /\ 256 <= c))).
  { induction n as [|n IH]; intros Hn Hlt.
    - replace (a + Z.of_nat 0) with a in Hlt by lia. lia.
    - destruct (Z_lt_le_dec j (B (a + Z.of_nat n))) as [L|Ge].
      + destruct (IH ltac:(lia) L) as (k & c & Hk & N & Hc). exists k, c. split; [lia|]. split; assumption.
      + destruct (nthz_ex s (a + Z.of_nat n) ltac:(lia)) as (c & N). exists (a + Z.of_nat n), c.
        split; [lia|]. split; [exact N|]. pose proof (B_succ_w _ c N) as E.
        replace (a + Z.of_nat n + 1) with (a + Z.of_nat (S n)) in E by lia. unfold cw_w in E.
        destruct (c <? 256) eqn:Ec; [left; lia|]. destruct (Z.eq_dec j (B (a + Z.of_nat n))); [left; assumption | right; lia]. }
  destruct (G (Z.to_nat (b - a)) ltac:(lia) ltac:(replace (a + Z.of_nat (Z.to_nat (b - a))) with b by lia; lia)) as (k & c & Hk & R).
  exists k, c. split; [lia | exact R].
Qed.

Lemma wide_ctp a b col : 0 <= a <= b -> b <= len -> 0 <= col ->
  exists p c, calc_text_pos cw_w s a b col = LOk (p, c) /\ a <= p <= b /\ p_ctp P_wide bs (B a) (B b) col = Ok (B p, c).
Proof.
  intros H1 H2 H3. cbn [p_ctp P_wide]. unfold w_calc_text_pos.
  pose proof (B_mono enc_w enc_w_len s a b H1 H2) as Hm. replace (B b <? B a) with false by lia.
  destruct (B b <=? B a + col) eqn:E.
  - exists b, (B b - B a). pose proof (B_split_w a b H1 H2) as Hw.
    split; [|split; [lia | reflexivity]].
    replace (B b - B a) with (sumw cw_w (slice s a b)) by lia.
    apply (ctp_unique cw_w cw_w_range); try lia.
  - destruct (classify_w a b (B a + col) H1 H2 ltac:(lia)) as (k & c & Hk & N & Hcl).
    destruct (wdb_at a k c ltac:(lia) ltac:(lia) N) as (W1 & W2).
    pose proof (B_split_w a k ltac:(lia) ltac:(lia)) as Hwk.
    destruct Hcl as [Ej | (Ej & Hc)].
    + (* the column falls on a character boundary *)
      exists k, col. rewrite Ej.
      assert (Hr : exists r, w_within_double_byte bs (B a) (B k) = Ok r /\ r <> 2).
      { destruct (Z_lt_le_dec c 256); [exists 0; split; [apply W1; lia | lia] | exists 1; split; [apply W2; lia | lia]]. }
      destruct Hr as (r & -> & Hr2). replace (r =? 2) with false by lia.
      split; [|split; [lia | f_equal; f_equal; lia]].
      replace col with (sumw cw_w (slice s a k)) at 2 by lia.
      apply (ctp_unique cw_w cw_w_range); try lia. right. exists c. split; [exact N|].
      pose proof (cw_w_range c). unfold cw_w in *. destruct (c <? 256); lia.
    + (* the column falls inside a double-byte character: step back to its lead byte *)
      exists k, (col - 1). rewrite Ej. rewrite (proj2 (W2 Hc)). replace (2 =? 2) with true by reflexivity.
      split; [|split; [lia | f_equal; f_equal; lia]].
      replace (col - 1) with (sumw cw_w (slice s a k)) by lia.
      apply (ctp_unique cw_w cw_w_range); try lia. right. exists c. split; [exact N|].
      assert (cw_w c = 2) by (unfold cw_w; replace (c <? 256) with false by lia; reflexivity). lia.
Qed.

Lemma wide_roww e : p_cw P_wide (flat_map enc_w e) 0 (zlen (flat_map enc_w e)) = Ok (sumw cw_w e).
Proof.
  cbn [p_cw P_wide]. unfold n_calc_width.
  pose proof (zlen_nonneg (flat_map enc_w e)). replace (zlen (flat_map enc_w e) <? 0) with false by lia.
  rewrite len_F_w. f_equal. lia.
Qed.

End Wide.

Theorem wide_layout_is_image s width align wrap ell : forallb wfb s = true -> 1 <= width ->
  layout_g P_wide (flat_map enc_w s) width align wrap (map enc_w ell)
  = gmap_result enc_w s (layout cw_w s width align wrap ell).
Proof.
  intros Hwf Hw.
  exact (g_layout_is_image enc_w enc_w_len s cw_w cw_w_range P_wide (wide_head s Hwf) (wide_cw s) (wide_ctp s Hwf)
           (wide_wide s Hwf) (wide_prev s Hwf) (wide_next s Hwf) width Hw eq_refl (wide_roww s) align wrap ell).
Qed.
