(* C11 - theorems about the str code path (calc_width, calc_text_pos, calc_trim_text, move_next/prev). *)
From Coq Require Import ZArith List Bool Lia ZifyBool.
Import ListNotations.
From Urwid Require Import PyBase PyList Utf8 wcwidth_table_gen str_util_gen Width WidthFacts.
Open Scope Z_scope.
Arguments Z.add : simpl never.
Arguments Z.sub : simpl never.
Arguments Z.mul : simpl never.
Arguments Z.ltb : simpl never.
Arguments Z.leb : simpl never.
Arguments Z.eqb : simpl never.
Arguments Z.of_nat : simpl never.
Arguments Z.to_nat : simpl never.

Section Str.
Variable wcw : Z -> Z.
Hypothesis Hw : forall c, wcw c <= 2.

Notation cw := (cw wcw).
Notation wsum := (wsum wcw).

(* width of text[x:y] *)
Definition W (text : list Z) (x y : Z) : Z := wsum (takez (y - x) (dropz x text)).

Lemma W_add text x y z : 0 <= x <= y -> y <= z -> z <= zlen text -> W text x z = W text x y + W text y z.
Proof. intros. unfold W. rewrite (slice_split text x y z) by lia. apply wsum_app. Qed.

Lemma W_nonneg text x y : 0 <= W text x y.
Proof. apply wsum_nonneg. exact Hw. Qed.

Lemma W_refl text x : W text x x = 0.
Proof. unfold W. replace (x - x) with 0 by lia. reflexivity. Qed.

Lemma W_mono text a x y : 0 <= a <= x -> x <= y -> y <= zlen text -> W text a x <= W text a y.
Proof. intros. rewrite (W_add text a x y) by lia. pose proof (W_nonneg text x y). lia. Qed.

Lemma W_step text x ch : 0 <= x -> nthz text x = Some ch -> W text x (x + 1) = cw ch.
Proof.
  intros Hx Hn. unfold W. replace (x + 1 - x) with 1 by lia.
  unfold nthz in Hn. destruct (x <? 0) eqn:E; [lia|].
  unfold takez, dropz. change (Z.to_nat 1) with 1%nat.
  destruct (skipn (Z.to_nat x) text) as [|c r] eqn:Es.
  - exfalso. assert (nth_error (skipn (Z.to_nat x) text) 0 = Some ch) by (rewrite nth_error_skipn', Nat.add_0_r; exact Hn).
    rewrite Es in H. discriminate.
  - assert (nth_error (skipn (Z.to_nat x) text) 0 = Some ch) by (rewrite nth_error_skipn', Nat.add_0_r; exact Hn).
    rewrite Es in H. cbn in H. inversion H. subst. cbn [firstn Width.wsum]. lia.
Qed.

Lemma nthz_some_lt {A} (l : list A) x v : nthz l x = Some v -> 0 <= x < zlen l.
Proof.
  unfold nthz. destruct (x <? 0) eqn:E; [discriminate|]. intros H.
  assert (Z.to_nat x < length l)%nat by (apply nth_error_Some; congruence). unfold zlen. lia.
Qed.

(* ---------- calc_width on a str ---------- *)
Lemma calc_width_str text a b :
  0 <= a <= b -> b <= zlen text -> calc_width wcw MStr text a b = Ok (W text a b).
Proof.
  intros. unfold calc_width. destruct (b <? a) eqn:E; [lia|]. now rewrite py_slice_in by lia.
Qed.

Theorem calc_width_app_str text a b c :
  0 <= a <= b -> b <= c -> c <= zlen text ->
  exists w1 w2, calc_width wcw MStr text a b = Ok w1 /\ calc_width wcw MStr text b c = Ok w2 /\
                calc_width wcw MStr text a c = Ok (w1 + w2).
Proof.
  intros. exists (W text a b), (W text b c). rewrite !calc_width_str by lia.
  repeat split. now rewrite (W_add text a b c) by lia.
Qed.

Lemma calc_width_str_range text a b w :
  0 <= a <= b -> b <= zlen text -> calc_width wcw MStr text a b = Ok w -> 0 <= w <= 2 * (b - a).
Proof.
  intros H1 H2. rewrite calc_width_str by lia. intros E. inversion E. unfold W.
  assert (G : forall l, 0 <= wsum l <= 2 * zlen l).
  { induction l as [|c r IH]; [change (zlen (@nil Z)) with 0; cbn; lia|].
    rewrite zlen_cons. cbn [Width.wsum]. pose proof (cw_range wcw Hw c). lia. }
  specialize (G (takez (b - a) (dropz a text))). rewrite zlen_slice_in in G by lia. lia.
Qed.

(* ---------- calc_text_pos on a str ---------- *)
Lemma calc_text_pos_str_eq text a b col :
  0 <= a <= b -> b <= zlen text ->
  let sl := takez (b - a) (dropz a text) in
  calc_text_pos wcw MStr text a b col = Ok (a + fst (tpos wcw sl col 0), snd (tpos wcw sl col 0)).
Proof.
  intros H1 H2 sl. unfold calc_text_pos, calc_string_text_pos.
  destruct (b <? a) eqn:E; [lia|].
  pose proof (takez_dropz_split text a b H1 H2) as Hs. fold sl in Hs.
  assert (Hl : zlen sl = b - a) by (apply zlen_slice_in; lia).
  assert (Hp : zlen (takez a text) = a) by (apply zlen_takez_in; lia).
  replace (Z.to_nat (b - a)) with (length sl) by (rewrite <- Hl; symmetry; apply to_nat_zlen).
  replace (cstp_loop wcw text (length sl) a 0 col b)
    with (cstp_loop wcw (takez a text ++ sl ++ dropz b text) (length sl) (zlen (takez a text)) 0 col b)
    by (rewrite <- Hs, Hp; reflexivity).
  rewrite cstp_loop_tpos by lia. now rewrite Hp.
Qed.

Theorem calc_text_pos_str_spec text a b col :
  0 <= a <= b -> b <= zlen text -> 0 <= col ->
  exists p c, calc_text_pos wcw MStr text a b col = Ok (p, c) /\
    a <= p <= b /\ c = W text a p /\ c <= col /\
    (p = b \/ exists ch, nthz text p = Some ch /\ col < c + cw ch).
Proof.
  intros H1 H2 Hc. rewrite calc_text_pos_str_eq by lia.
  set (sl := takez (b - a) (dropz a text)).
  pose proof (tpos_spec wcw sl col 0) as S. destruct (tpos wcw sl col 0) as [k c'].
  assert (Hl : zlen sl = b - a) by (apply zlen_slice_in; lia).
  destruct S as (Hk & Hc' & Hle & Hmax). cbn [fst snd].
  exists (a + k), c'. split; [reflexivity|]. split; [lia|]. split.
  - rewrite Hc'. unfold W, sl. replace (a + k - a) with k by lia.
    replace k with ((a + k) - a) at 1 by lia. rewrite takez_takez_slice by lia.
    replace (a + k - a) with k by lia. lia.
  - split; [lia|]. destruct Hmax as [->|(ch & Hn & Hlt)]; [left; lia|right].
    exists ch. split; [|exact Hlt].
    assert (Hk2 : 0 <= k < b - a) by (apply nthz_some_lt in Hn; lia).
    unfold sl in Hn. now rewrite nthz_slice in Hn by lia.
Qed.

(* every earlier character fits: the result is the first position that does not fit *)
Lemma calc_text_pos_str_first text a b col p c j :
  0 <= a <= b -> b <= zlen text ->
  calc_text_pos wcw MStr text a b col = Ok (p, c) -> a <= j < p -> W text a (j + 1) <= col.
Proof.
  intros H1 H2. rewrite calc_text_pos_str_eq by lia. intros E Hj. inversion E as [[Hp Hc]].
  set (sl := takez (b - a) (dropz a text)) in *.
  pose proof (tpos_prefix_fits wcw sl col 0 (j - a)) as F.
  pose proof (tpos_spec wcw sl col 0) as S. destruct (tpos wcw sl col 0) as [k c'].
  cbn [fst snd] in *. destruct S as (Hk & _).
  assert (Hl : zlen sl = b - a) by (apply zlen_slice_in; lia).
  specialize (F ltac:(lia)). unfold W. replace (j + 1 - a) with (j - a + 1) by lia.
  unfold sl in F. replace (j - a + 1) with ((j + 1) - a) in F |- * by lia.
  rewrite takez_takez_slice in F by lia. lia.
Qed.

(* ---------- move_next_char / move_prev_char on a str ---------- *)
Theorem move_next_prev_str text a b :
  a < b ->
  exists n, move_next_char MStr text a b = Ok n /\ n = a + 1 /\ move_prev_char MStr text a n = Ok a.
Proof.
  intros. exists (a + 1). unfold move_next_char, move_prev_char.
  destruct (b <=? a) eqn:E1; [lia|]. destruct (a + 1 <=? a) eqn:E2; [lia|].
  repeat split. f_equal. lia.
Qed.

Theorem is_wide_char_str text x ch :
  nthz text x = Some ch -> is_wide_char wcw MStr text x = Ok (cw ch =? 2).
Proof.
  intros Hn. pose proof (nthz_some_lt _ _ _ Hn). unfold is_wide_char.
  rewrite get_index_in by lia. now rewrite Hn.
Qed.

(* ---------- calc_trim_text, generic in the text mode: it only needs a position function
   with the calc_text_pos specification relative to a width function F x = width of [a, x) ---------- *)
Section Trim.
Variable T : Type.
Variable ctp : T -> Z -> Z -> Z -> result (Z * Z).
Variable text : T.
Variables a b : Z.
Variable F : Z -> Z.             (* width of the range [a, x) *)
Variable valid : Z -> Prop.      (* x is a character boundary in [a, b] *)
Variable nextb : Z -> Z.         (* the boundary after x *)
Hypothesis Fa : F a = 0.
Hypothesis va : valid a.
Hypothesis Fmono : forall x y, valid x -> valid y -> x <= y -> F x <= F y.
Hypothesis vnext : forall x, valid x -> x < b -> valid (nextb x) /\ x < nextb x /\ F x <= F (nextb x) <= F x + 2
                                                  /\ (forall y, valid y -> x < y -> nextb x <= y).
Hypothesis ctp_spec : forall x col, valid x -> 0 <= col ->
  exists p c, ctp text x b col = Ok (p, c) /\ valid p /\ x <= p /\ c = F p - F x /\ c <= col /\
              (p = b \/ (p < b /\ col < c + (F (nextb p) - F p))).

Definition straddles (col : Z) : Prop := exists k, valid k /\ k < b /\ F k < col < F (nextb k).

Lemma no_straddle_at_boundary p col : valid p -> F p = col -> ~ straddles col.
Proof.
  intros Vp Hp (k & Vk & Hkb & Hk).
  destruct (Z_lt_le_dec k p) as [Hlt|Hge].
  - destruct (vnext k Vk Hkb) as (Vn & _ & _ & Hmin).
    specialize (Hmin p Vp Hlt). pose proof (Fmono _ _ Vn Vp Hmin). lia.
  - pose proof (Fmono _ _ Vp Vk Hge). lia.
Qed.

Theorem calc_trim_text_generic start_col end_col :
  0 <= start_col < end_col -> end_col <= F b -> valid b ->
  exists spos pos pl pr,
    calc_trim_text_gen T ctp text a b start_col end_col = Ok (spos, pos, pl, pr) /\
    valid spos /\ valid pos /\ spos <= pos /\
    (pl = 0 \/ pl = 1) /\ (pr = 0 \/ pr = 1) /\
    F spos = start_col + pl /\
    pl + (F pos - F spos) + pr = end_col - start_col /\
    (pl = 1 <-> straddles start_col) /\
    (pr = 1 <-> straddles end_col).
Proof.
  intros Hc Hwide Vb.
  (* the left edge *)
  assert (L : exists spos pl,
    (if 0 <? start_col then
       match ctp text a b start_col with Err e_ => Err e_ | Ok (spos_4, sc_5) =>
       match (if sc_5 <? start_col then
                match ctp text a b (start_col + 1) with Err e_ => Err e_ | Ok (spos_7, sc_8) => Ok (1, spos_7) end
              else Ok (0, spos_4)) with Err e_ => Err e_ | Ok (pad_left_9, spos_10) => Ok (pad_left_9, spos_10) end end
     else @Ok (Z * Z) (0, a)) = Ok (pl, spos) /\
    valid spos /\ (pl = 0 \/ pl = 1) /\ F spos = start_col + pl /\ (pl = 1 <-> straddles start_col)).
  { destruct (0 <? start_col) eqn:E0.
    - destruct (ctp_spec a start_col va ltac:(lia)) as (p1 & c1 & E1 & V1 & Hp1 & Hc1 & Hle1 & Hmax1).
      rewrite E1. rewrite Fa in Hc1.
      destruct (c1 <? start_col) eqn:E2.
      + (* a wide character straddles the left edge *)
        assert (Hp1b : p1 < b).
        { destruct Hmax1 as [->|[? _]]; [|assumption]. lia. }
        destruct Hmax1 as [->|[_ Hmax1]]; [lia|].
        destruct (vnext p1 V1 Hp1b) as (Vn1 & Hn1 & Hstep1 & Hmin1).
        destruct (ctp_spec a (start_col + 1) va ltac:(lia)) as (p2 & c2 & E3 & V2 & Hp2 & Hc2 & Hle2 & Hmax2).
        rewrite E3. rewrite Fa in Hc2.
        exists p2, 1. split; [reflexivity|]. split; [exact V2|]. split; [now right|].
        assert (Hs : straddles start_col) by (exists p1; repeat split; try assumption; lia).
        split; [|tauto].
        (* F p2 = start_col + 1 *)
        destruct (Z.eq_dec c2 (start_col + 1)) as [|Hne]; [lia|]. exfalso.
        assert (Hc2le : c2 <= start_col) by lia.
        destruct Hmax2 as [->|[Hp2b Hmax2]]; [lia|].
        destruct (vnext p2 V2 Hp2b) as (Vn2 & Hn2 & Hstep2 & Hmin2).
        assert (c2 = start_col) by lia.
        destruct (Z_lt_le_dec p1 p2) as [Hlt|Hge].
        * specialize (Hmin1 p2 V2 Hlt). pose proof (Fmono _ _ Vn1 V2 Hmin1). lia.
        * pose proof (Fmono _ _ V2 V1 Hge). lia.
      + exists p1, 0. split; [reflexivity|]. split; [exact V1|]. split; [now left|]. split; [lia|].
        split; [lia|]. intros Hs. exfalso. revert Hs. apply (no_straddle_at_boundary p1); [exact V1|lia].
    - exists a, 0. split; [reflexivity|]. split; [exact va|]. split; [now left|]. split; [lia|].
      split; [lia|]. intros Hs. exfalso. revert Hs. apply (no_straddle_at_boundary a); [exact va|lia]. }
  destruct L as (spos & pl & EL & Vs & Hpl & HFs & Hstr).
  unfold calc_trim_text_gen. rewrite EL.
  assert (Hrun : 0 <= end_col - start_col - pl) by lia.
  destruct (ctp_spec spos (end_col - start_col - pl) Vs Hrun) as (p3 & c3 & E3 & V3 & Hp3 & Hc3 & Hle3 & Hmax3).
  rewrite E3.
  destruct (c3 <? end_col - start_col - pl) eqn:E4.
  - (* a wide character straddles the right edge *)
    destruct Hmax3 as [->|[Hp3b Hmax3]]; [lia|].
    destruct (vnext p3 V3 Hp3b) as (Vn3 & Hn3 & Hstep3 & Hmin3).
    exists spos, p3, pl, 1. split; [reflexivity|].
    split; [assumption|]. split; [assumption|]. split; [lia|]. split; [assumption|]. split; [now right|].
    split; [lia|]. split; [lia|]. split; [exact Hstr|].
    split; [intros _|reflexivity]. exists p3. repeat split; try assumption; lia.
  - exists spos, p3, pl, 0. split; [reflexivity|].
    split; [assumption|]. split; [assumption|]. split; [lia|]. split; [assumption|]. split; [now left|].
    split; [lia|]. split; [lia|]. split; [exact Hstr|].
    split; [lia|]. intros Hs. exfalso. revert Hs. apply (no_straddle_at_boundary p3); [exact V3|lia].
Qed.

End Trim.

(* instance: a str *)
Theorem calc_trim_text_str_spec text a b start_col end_col :
  0 <= a <= b -> b <= zlen text -> 0 <= start_col < end_col -> end_col <= W text a b ->
  exists spos pos pl pr,
    calc_trim_text wcw MStr text a b start_col end_col = Ok (spos, pos, pl, pr) /\
    a <= spos <= pos /\ pos <= b /\
    (pl = 0 \/ pl = 1) /\ (pr = 0 \/ pr = 1) /\
    W text a spos = start_col + pl /\
    pl + W text spos pos + pr = end_col - start_col /\
    (pl = 1 <-> exists k, a <= k < b /\ W text a k < start_col < W text a (k + 1)) /\
    (pr = 1 <-> exists k, a <= k < b /\ W text a k < end_col < W text a (k + 1)).
Proof.
  intros H1 H2 Hc Hwide.
  pose proof (calc_trim_text_generic (list Z) (calc_text_pos wcw MStr) text a b (W text a)
                (fun x => a <= x <= b) (fun x => x + 1)) as G.
  assert (Hstep : forall x, a <= x < b -> W text a x <= W text a (x + 1) <= W text a x + 2).
  { intros x Hx. rewrite (W_add text a x (x + 1)) by lia.
    destruct (nthz text x) as [ch|] eqn:En.
    - rewrite (W_step text x ch) by (lia || assumption). pose proof (cw_range wcw Hw ch). lia.
    - exfalso. unfold nthz in En. destruct (x <? 0) eqn:E; [lia|].
      apply nth_error_None in En. unfold zlen in *. lia. }
  cbn beta in G.
  specialize (G (W_refl text a) ltac:(lia)
                ltac:(intros x y Hx Hy Hxy; apply W_mono; lia)).
  assert (Hnext : forall x, a <= x <= b -> x < b ->
            (a <= x + 1 <= b) /\ x < x + 1 /\ W text a x <= W text a (x + 1) <= W text a x + 2 /\
            (forall y, a <= y <= b -> x < y -> x + 1 <= y)).
  { intros x Hx Hxb. split; [lia|]. split; [lia|]. split; [apply Hstep; lia|]. intros; lia. }
  specialize (G Hnext).
  assert (Hspec : forall x col, a <= x <= b -> 0 <= col ->
            exists p c, calc_text_pos wcw MStr text x b col = Ok (p, c) /\ a <= p <= b /\ x <= p /\
              c = W text a p - W text a x /\ c <= col /\
              (p = b \/ (p < b /\ col < c + (W text a (p + 1) - W text a p)))).
  { intros x col Hx Hcol.
    destruct (calc_text_pos_str_spec text x b col ltac:(lia) H2 Hcol) as (p & c & E & Hp & Hcw & Hle & Hmax).
    exists p, c. split; [exact E|]. split; [lia|]. split; [lia|]. split.
    - rewrite (W_add text a x p) by lia. lia.
    - split; [exact Hle|]. destruct Hmax as [->|(ch & Hn & Hlt)]; [now left|].
      pose proof (nthz_some_lt _ _ _ Hn). destruct (Z.eq_dec p b) as [->|]; [now left|right; split; [lia|]].
      rewrite (W_add text a p (p + 1)) by lia. rewrite (W_step text p ch) by (lia || assumption). lia. }
  specialize (G Hspec start_col end_col Hc Hwide ltac:(lia)).
  destruct G as (spos & pos & pl & pr & E & Vs & Vp & Hsp & Hpl & Hpr & HF & Htot & HL & HR).
  exists spos, pos, pl, pr. split; [exact E|]. split; [lia|]. split; [lia|].
  split; [exact Hpl|]. split; [exact Hpr|]. split; [exact HF|]. split.
  - rewrite (W_add text a spos pos) in Htot by lia. lia.
  - unfold straddles in HL, HR. split.
    + rewrite HL. split; intros (k & Hk); exists k; [destruct Hk as (? & ? & ?)|destruct Hk as (? & ?)];
        repeat split; try lia.
    + rewrite HR. split; intros (k & Hk); exists k; [destruct Hk as (? & ? & ?)|destruct Hk as (? & ?)];
        repeat split; try lia.
Qed.

End Str.
