(* C18 - facts about the string primitives of Base/ColourStr.v: bounds of int(), int() of a formatted
   number, split / strip of clean strings. *)
From Coq Require Import ZArith List Bool Lia ZifyBool.
Import ListNotations.
From Urwid Require Import PyBase PyList ColourStr.
Open Scope Z_scope.

(* ------------------------------------------------------------------ lengths *)
Lemma zlen_map {A B} (f : A -> B) l : zlen (map f l) = zlen l.
Proof. unfold zlen. now rewrite map_length. Qed.
Lemma zlen_skip_space l : zlen (skip_space l) <= zlen l.
Proof.
  induction l as [|c r IH]; cbn [skip_space]; [lia|].
  destruct (ascii_space c); rewrite ?zlen_cons; lia.
Qed.
Lemma zlen_takez_le {A} n (l : list A) : zlen (takez n l) <= zlen l.
Proof. unfold zlen, takez. rewrite firstn_length. apply inj_le, Nat.le_min_r. Qed.
Lemma zlen_dropz_le {A} n (l : list A) : zlen (dropz n l) <= zlen l.
Proof. unfold zlen, dropz. rewrite skipn_length. apply inj_le, Nat.le_sub_l. Qed.

(* ------------------------------------------------------------------ the digit loop *)
Lemma digit_val_nonneg c : 0 <= digit_val c.
Proof.
  unfold digit_val. destruct ((48 <=? c) && (c <=? 57)) eqn:A; [lia|].
  destruct ((97 <=? c) && (c <=? 122)) eqn:B; [lia|]. destruct ((65 <=? c) && (c <=? 90)) eqn:C; lia.
Qed.

Lemma pow_pos_ge1 b k : 1 <= b -> 0 <= k -> 1 <= b ^ k.
Proof. intros. pose proof (Z.pow_pos_nonneg b k ltac:(lia) ltac:(lia)). lia. Qed.

Lemma scan_bound base : 2 <= base ->
  forall l us nd acc v nd' rest, 0 <= acc ->
    scan_digits base l us nd acc = Some (v, nd', rest) ->
    0 <= v /\ v + 1 <= (acc + 1) * base ^ (zlen l).
Proof.
  intros Hb. induction l as [|c r IH]; intros us nd acc v nd' rest Ha E; cbn [scan_digits] in E.
  - destruct us; [discriminate|]. injection E as <- _ _. change (zlen (@nil Z)) with 0. rewrite Z.pow_0_r. lia.
  - rewrite zlen_cons. pose proof (zlen_nonneg r) as Hr.
    replace (1 + zlen r) with (Z.succ (zlen r)) by lia. rewrite Z.pow_succ_r by lia.
    pose proof (pow_pos_ge1 base (zlen r) ltac:(lia) Hr) as Hp.
    destruct (c =? 95).
    + destruct us; [discriminate|]. destruct (IH _ _ _ _ _ _ Ha E) as [A B]. split; [exact A|]. nia.
    + destruct (digit_val c <? base) eqn:Ed.
      * pose proof (digit_val_nonneg c).
        assert (Ha' : 0 <= acc * base + digit_val c) by nia.
        destruct (IH _ _ _ _ _ _ Ha' E) as [A B]. split; [exact A|]. nia.
      * destruct us; [discriminate|]. injection E as <- _ _. split; [lia|]. nia.
Qed.

Lemma zlen_after_sign l : zlen (snd (after_sign l)) <= zlen l.
Proof.
  unfold after_sign. destruct l as [|c r]; [cbn; lia|].
  destruct (c =? 43); [cbn [snd]; rewrite zlen_cons; lia|].
  destruct (c =? 45); cbn [snd]; rewrite ?zlen_cons; lia.
Qed.
Lemma zlen_after_prefix base l : zlen (after_prefix base l) <= zlen l.
Proof.
  unfold after_prefix. destruct (base =? 16); [|lia].
  destruct l as [|c [|x r]]; try lia.
  destruct ((c =? 48) && ((x =? 120) || (x =? 88))); [|lia].
  rewrite !zlen_cons. destruct r as [|y r']; [lia|].
  destruct (y =? 95); rewrite ?zlen_cons; lia.
Qed.

Lemma finish_bound base neg l n : 2 <= base -> finish_int base neg l = Some n ->
  - base ^ (zlen l) < n < base ^ (zlen l) /\ (neg = false -> 0 <= n).
Proof.
  intros Hb E'. unfold finish_int in E'.
  destruct (match l with c :: _ => c =? 95 | [] => false end); [discriminate|].
  destruct (scan_digits base l false 0 0) as [[[v nd] rest]|] eqn:S; [|discriminate].
  destruct (scan_bound base Hb l false 0 0 v nd rest (Z.le_refl 0) S) as [A B].
  destruct (nd =? 0); [discriminate|]. destruct (skip_space rest); [|discriminate].
  injection E' as <-. destruct neg; split; try lia; intros; try discriminate; lia.
Qed.

(* |int(s, base)| < base ^ len(s) *)
Theorem py_int_bound base s n : 2 <= base -> py_int base s = Some n ->
  - base ^ (zlen s) < n < base ^ (zlen s).
Proof.
  intros Hb E. unfold py_int in E. cbv zeta in E.
  destruct (finish_bound base _ _ n Hb E) as [B _].
  remember (skip_space (map to_ascii s)) as l1 eqn:El1.
  assert (L : zlen (after_prefix base (snd (after_sign l1))) <= zlen s).
  { pose proof (zlen_after_prefix base (snd (after_sign l1))). pose proof (zlen_after_sign l1).
    pose proof (zlen_skip_space (map to_ascii s)) as X. rewrite zlen_map, <- El1 in X. lia. }
  pose proof (zlen_nonneg (after_prefix base (snd (after_sign l1)))).
  pose proof (Z.pow_le_mono_r base _ _ ltac:(lia) L). lia.
Qed.

(* int("0x" + r, 16) is not negative and below 16 ^ len(r) *)
Theorem py_int_0x_bound r n : py_int 16 (48 :: 120 :: r) = Some n -> 0 <= n < 16 ^ (zlen r).
Proof.
  intros E. unfold py_int in E. cbv zeta in E.
  change (map to_ascii (48 :: 120 :: r)) with (48 :: 120 :: map to_ascii r) in E.
  change (skip_space (48 :: 120 :: map to_ascii r)) with (48 :: 120 :: map to_ascii r) in E.
  change (after_sign (48 :: 120 :: map to_ascii r)) with (false, 48 :: 120 :: map to_ascii r) in E.
  cbn [fst snd] in E.
  destruct (finish_bound 16 _ _ n ltac:(lia) E) as [B N]. specialize (N eq_refl).
  split; [exact N|].
  assert (L : zlen (after_prefix 16 (48 :: 120 :: map to_ascii r)) <= zlen r).
  { unfold after_prefix. change (16 =? 16) with true. change ((48 =? 48) && ((120 =? 120) || (120 =? 88))) with true.
    cbn iota. rewrite <- (zlen_map to_ascii r).
    destruct (map to_ascii r) as [|y r']; [lia|]. destruct (y =? 95); rewrite ?zlen_cons; lia. }
  pose proof (zlen_nonneg (after_prefix 16 (48 :: 120 :: map to_ascii r))).
  pose proof (Z.pow_le_mono_r 16 _ _ ltac:(lia) L). lia.
Qed.

(* ------------------------------------------------------------------ int() of formatted digits *)
Definition is_digit (base c : Z) : bool := (c <? 127) && negb (c =? 95) && (digit_val c <? base).
Fixpoint value_of (base : Z) (l : str) (a : Z) : Z :=
  match l with [] => a | c :: r => value_of base r (a * base + digit_val c) end.

Lemma value_of_app base l1 l2 a : value_of base (l1 ++ l2) a = value_of base l2 (value_of base l1 a).
Proof. revert a. induction l1; intros; cbn; auto. Qed.

Lemma scan_all_digits base : forall l nd a, forallb (is_digit base) l = true ->
  scan_digits base l false nd a = Some (value_of base l a, nd + zlen l, []).
Proof.
  induction l as [|c r IH]; intros nd a H; cbn [scan_digits value_of].
  - rewrite (@zlen_nil Z). now rewrite Z.add_0_r.
  - cbn [forallb] in H. apply andb_true_iff in H. destruct H as [Hc Hr]. unfold is_digit in Hc.
    replace (c =? 95) with false by lia. replace (digit_val c <? base) with true by lia.
    rewrite IH by assumption. rewrite zlen_cons. do 2 f_equal. f_equal. lia.
Qed.

Lemma to_ascii_digit base c : is_digit base c = true -> to_ascii c = c.
Proof. unfold is_digit, to_ascii. intros H. now replace (c <? 127) with true by lia. Qed.
Lemma map_to_ascii_digits base l : forallb (is_digit base) l = true -> map to_ascii l = l.
Proof.
  induction l as [|c r IH]; [reflexivity|]. cbn [forallb map]. intros H. apply andb_true_iff in H.
  destruct H as [Hc Hr]. now rewrite (to_ascii_digit base c Hc), IH.
Qed.
Lemma digit_range base c : base <= 16 -> is_digit base c = true ->
  48 <= c <= 57 \/ 97 <= c <= 102 \/ 65 <= c <= 70.
Proof.
  unfold is_digit, digit_val. intros Hb H.
  destruct ((48 <=? c) && (c <=? 57)) eqn:A; [lia|].
  destruct ((97 <=? c) && (c <=? 122)) eqn:B; [lia|].
  destruct ((65 <=? c) && (c <=? 90)) eqn:C; lia.
Qed.
Lemma digit_not_space base c : base <= 16 -> is_digit base c = true -> ascii_space c = false.
Proof. intros Hb H. pose proof (digit_range base c Hb H). unfold ascii_space. lia. Qed.

(* a non-empty string of digits of the base that does not look like a sign or a "0x" prefix *)
Theorem py_int_digits base l : 2 <= base <= 16 -> l <> [] -> forallb (is_digit base) l = true ->
  (base = 16 -> match l with _ :: x :: _ => (x =? 120) || (x =? 88) = false | _ => True end) ->
  py_int base l = Some (value_of base l 0).
Proof.
  intros Hb Hne Hd Hx. unfold py_int. cbv zeta. rewrite (map_to_ascii_digits base l Hd).
  destruct l as [|c r]; [contradiction|]. cbn [forallb] in Hd. apply andb_true_iff in Hd. destruct Hd as [Hc Hr].
  assert (Sp : skip_space (c :: r) = c :: r) by (cbn [skip_space]; now rewrite (digit_not_space base c ltac:(lia) Hc)).
  rewrite Sp.
  assert (Sg : after_sign (c :: r) = (false, c :: r)).
  { unfold after_sign. pose proof (digit_range base c ltac:(lia) Hc).
    replace (c =? 43) with false by lia. replace (c =? 45) with false by lia. reflexivity. }
  rewrite Sg. cbn [fst snd].
  assert (Px : after_prefix base (c :: r) = c :: r).
  { unfold after_prefix. destruct (base =? 16) eqn:Eb; [|reflexivity]. specialize (Hx ltac:(lia)).
    destruct r as [|x r']; [reflexivity|]. rewrite Hx. now rewrite andb_false_r. }
  rewrite Px. unfold finish_int.
  assert (Nu : (c =? 95) = false) by (pose proof (digit_range base c ltac:(lia) Hc); lia). rewrite Nu.
  assert (F : forallb (is_digit base) (c :: r) = true) by (cbn [forallb]; now rewrite Hc, Hr).
  rewrite (scan_all_digits base (c :: r) 0 0 F).
  rewrite zlen_cons. pose proof (zlen_nonneg r). replace (0 + (1 + zlen r) =? 0) with false by lia.
  reflexivity.
Qed.

(* the digits that format(n, "x"/"d") writes *)
Lemma digit_char_ok base d : 2 <= base <= 16 -> 0 <= d < base ->
  is_digit base (digit_char d) = true /\ digit_val (digit_char d) = d /\
  (digit_char d =? 120) || (digit_char d =? 88) = false /\ uni_isspace (digit_char d) = false /\
  (digit_char d =? 44) = false.
Proof.
  intros Hb Hd. unfold is_digit.
  assert (D : d = 0 \/ d = 1 \/ d = 2 \/ d = 3 \/ d = 4 \/ d = 5 \/ d = 6 \/ d = 7 \/ d = 8 \/ d = 9 \/ d = 10 \/
              d = 11 \/ d = 12 \/ d = 13 \/ d = 14 \/ d = 15) by lia.
  repeat (destruct D as [->|D]; [repeat split; try reflexivity; vm_compute (digit_val _); vm_compute (_ <? 127); vm_compute (negb _); cbn [andb]; lia|]).
  subst. repeat split; try reflexivity. vm_compute (digit_val _); vm_compute (_ <? 127); vm_compute (negb _); cbn [andb]; lia.
Qed.

Lemma digits_fuel_acc fuel base : forall n acc, digits_fuel fuel base n acc = digits_fuel fuel base n [] ++ acc.
Proof.
  induction fuel as [|f IH]; intros n acc; cbn [digits_fuel]; [reflexivity|].
  destruct (n <? base); [reflexivity|]. rewrite (IH _ (_ :: acc)), (IH _ [_]), <- app_assoc. reflexivity.
Qed.

Lemma digits_fuel_spec base : 2 <= base <= 16 -> forall fuel n k, 0 <= n < base ^ k -> 1 <= k <= Z.of_nat fuel ->
  let ds := digits_fuel fuel base n [] in
  forallb (is_digit base) ds = true /\ value_of base ds 0 = n /\ 1 <= zlen ds <= k /\
  forallb (fun c => negb ((c =? 120) || (c =? 88)) && negb (uni_isspace c) && negb (c =? 44)) ds = true.
Proof.
  intros Hb. induction fuel as [|f IH]; intros n k Hn Hk; [lia|]. cbn [digits_fuel].
  destruct (n <? base) eqn:E.
  - destruct (digit_char_ok base n Hb ltac:(lia)) as [A [B [C [D F]]]].
    cbn [forallb value_of]. rewrite A, B, C, D, F, zlen_cons, (@zlen_nil Z). repeat split; try reflexivity; lia.
  - rewrite digits_fuel_acc.
    assert (k <> 1) by (intros ->; rewrite Z.pow_1_r in Hn; lia).
    assert (Hq : 0 <= n / base < base ^ (k - 1)).
    { split; [apply Z.div_pos; lia|]. apply Z.div_lt_upper_bound; [lia|].
      rewrite <- Z.pow_succ_r by lia. replace (Z.succ (k - 1)) with k by lia. lia. }
    destruct (IH (n / base) (k - 1) Hq ltac:(lia)) as [A [B [[C1 C2] D]]].
    destruct (digit_char_ok base (n mod base) Hb (Z.mod_pos_bound n base ltac:(lia))) as [A' [B' [C' [D' F']]]].
    rewrite forallb_app, value_of_app, zlen_app, forallb_app. cbn [forallb value_of].
    rewrite A, A', B, B', C', D', F', D, zlen_cons, (@zlen_nil Z).
    repeat split; try reflexivity; try lia. pose proof (Z.div_mod n base ltac:(lia)). lia.
Qed.


(* enough fuel: n < 2 ^ (log2 n + 1) <= base ^ (log2 n + 1) *)
Lemma digits_of_spec base n : 2 <= base <= 16 -> 0 <= n ->
  let ds := digits_of base n in
  forallb (is_digit base) ds = true /\ value_of base ds 0 = n /\ 1 <= zlen ds /\
  (forall k, 1 <= k -> n < base ^ k -> zlen ds <= k) /\
  forallb (fun c => negb ((c =? 120) || (c =? 88)) && negb (uni_isspace c) && negb (c =? 44)) ds = true.
Proof.
  intros Hb Hn. unfold digits_of. set (fuel := S (Z.to_nat (Z.log2 n))).
  assert (Hf : n < base ^ (Z.of_nat fuel)).
  { unfold fuel. rewrite Nat2Z.inj_succ, Z2Nat.id by apply Z.log2_nonneg.
    destruct (Z.eq_dec n 0) as [->|Hz]; [apply Z.pow_pos_nonneg; cbn; lia|].
    pose proof (Z.log2_spec n ltac:(lia)) as [_ L].
    pose proof (Z.pow_le_mono_l 2 base (Z.succ (Z.log2 n)) ltac:(lia)). lia. }
  destruct (digits_fuel_spec base Hb fuel n (Z.of_nat fuel) ltac:(lia) ltac:(unfold fuel; lia)) as [A [B [[C1 C2] D]]].
  split; [exact A|]. split; [exact B|]. split; [exact C1|]. split; [|exact D].
  intros k Hk Hnk.
  destruct (Z_le_gt_dec k (Z.of_nat fuel)) as [Le|Gt]; [|lia].
  now destruct (digits_fuel_spec base Hb fuel n k ltac:(lia) ltac:(lia)) as [_ [_ [[_ X] _]]].
Qed.

Lemma forallb_repeat {A} (f : A -> bool) x n : f x = true -> forallb f (repeat x n) = true.
Proof. intros H. induction n; cbn; [reflexivity|now rewrite H]. Qed.
Lemma value_of_zeros base n a : value_of base (repeat 48 n) a = a * base ^ (Z.of_nat n).
Proof.
  revert a. induction n as [|n IH]; intros a; [cbn; lia|].
  cbn [repeat value_of]. rewrite IH. change (digit_val 48) with 0.
  rewrite Nat2Z.inj_succ, Z.pow_succ_r by lia. lia.
Qed.

(* f"{n:06x}" for 0 <= n < 2^24: six hex digits, none of them 'x', and int(.., 16) gives n back *)
Theorem fmt_x_pad6 n : 0 <= n < 16777216 ->
  let s := fmt_x_pad 6 n in
  zlen s = 6 /\ py_int 16 s = Some n /\
  forallb (fun c => negb (uni_isspace c) && negb (c =? 44)) s = true.
Proof.
  intros Hn. cbv zeta. unfold fmt_x_pad. replace (n <? 0) with false by lia.
  destruct (digits_of_spec 16 n ltac:(lia) ltac:(lia)) as [A [B [C [D F]]]].
  specialize (D 6 ltac:(lia) ltac:(change (16 ^ 6) with 16777216; lia)).
  set (ds := digits_of 16 n) in *. unfold zero_pad.
  set (z := Z.to_nat (6 - zlen ds)).
  assert (Z6 : zlen (repeat 48 z ++ ds) = 6).
  { rewrite zlen_app. unfold zlen at 1. rewrite repeat_length. unfold z. lia. }
  split; [exact Z6|].
  assert (Dg : forallb (is_digit 16) (repeat 48 z ++ ds) = true)
    by (rewrite forallb_app, A, forallb_repeat by reflexivity; reflexivity).
  split.
  - rewrite (py_int_digits 16 _ ltac:(lia)); try assumption.
    + rewrite value_of_app, value_of_zeros, Z.mul_0_l, B. reflexivity.
    + intros E. apply (f_equal zlen) in E. rewrite Z6, (@zlen_nil Z) in E. lia.
    + intros _. assert (G : forallb (fun c => negb ((c =? 120) || (c =? 88))) (repeat 48 z ++ ds) = true).
      { rewrite forallb_app, forallb_repeat by reflexivity. cbn [andb].
        rewrite forallb_forall in F |- *. intros c Hc. specialize (F c Hc). lia. }
      destruct (repeat 48 z ++ ds) as [|c0 [|x r]]; try exact I. cbn [forallb] in G. lia.
  - rewrite forallb_app, forallb_repeat by reflexivity. cbn [andb].
    rewrite forallb_forall in F |- *. intros c Hc. specialize (F c Hc). lia.
Qed.

(* ------------------------------------------------------------------ startswith *)
Lemma startswith_excl s a b : a <> b -> startswith s [a] = true -> startswith s [b] = false.
Proof. intros N H. destruct s as [|c r]; cbn in *; [discriminate|]. lia. Qed.
Lemma startswith_first s a : startswith s [a] = true -> exists r, s = a :: r.
Proof. destruct s as [|c r]; cbn; [discriminate|]. intros H. exists r. f_equal. lia. Qed.
Lemma startswith2_first s a b : startswith s [a; b] = true -> startswith s [a] = true.
Proof. destruct s as [|c [|c2 r]]; cbn; try discriminate; lia. Qed.

(* ------------------------------------------------------------------ split and strip of clean strings *)
Definition no_comma (s : str) : bool := forallb (fun c => negb (c =? 44)) s.

Lemma split_nonempty sep s : split_on sep s <> [].
Proof. destruct s as [|x r]; cbn; [discriminate|]. destruct (x =? sep); [discriminate|]. destruct (split_on sep r); discriminate. Qed.

Lemma split_app_nocomma s t : no_comma s = true ->
  split_on 44 (s ++ t) = match split_on 44 t with h :: tl => (s ++ h) :: tl | [] => [s] end.
Proof.
  induction s as [|c r IH]; intros H.
  - cbn [app]. destruct (split_on 44 t) eqn:E; [now destruct (split_nonempty 44 t)|reflexivity].
  - cbn [no_comma forallb] in H. apply andb_true_iff in H. destruct H as [Hc Hr].
    cbn [app split_on]. replace (c =? 44) with false by lia. rewrite (IH Hr).
    destruct (split_on 44 t); reflexivity.
Qed.

Lemma lstrip_id c r : uni_isspace c = false -> lstrip (c :: r) = c :: r.
Proof. intros H. cbn [lstrip]. now rewrite H. Qed.
Lemma strip_id s : s <> [] -> uni_isspace (hd 0 s) = false -> uni_isspace (hd 0 (rev s)) = false -> strip s = s.
Proof.
  intros Hne H1 H2. unfold strip. destruct s as [|c r]; [contradiction|]. cbn [hd] in H1.
  rewrite (lstrip_id c r H1). destruct (rev (c :: r)) as [|z m] eqn:E.
  - apply (f_equal (@rev Z)) in E. rewrite rev_involutive in E. discriminate.
  - cbn [hd] in H2. rewrite (lstrip_id z m H2), <- E. apply rev_involutive.
Qed.
Lemma strip_all_nonspace s : s <> [] -> forallb (fun c => negb (uni_isspace c)) s = true -> strip s = s.
Proof.
  intros Hne H. rewrite forallb_forall in H. apply strip_id; [assumption| |].
  - destruct s as [|c r]; [contradiction|]. cbn. specialize (H c (or_introl eq_refl)). lia.
  - destruct (rev s) as [|z m] eqn:E.
    + apply (f_equal (@rev Z)) in E. rewrite rev_involutive in E. now subst.
    + cbn. assert (In z s) by (apply in_rev; rewrite E; now left). specialize (H z H0). lia.
Qed.
