(* C18 - the AttrSpec methods translated from the source (Gen/colours_gen.v: set_foreground_gen,
   set_background_gen, attrspec_init_gen, foreground_color_gen, foreground_gen, background_gen,
   get_rgb_values_gen, copy_modified_gen, attrspec_eq_gen) are, for ALL inputs, the hand-written
   string-level model of Model/Colours.v about which the theorems are proved. *)
From Coq Require Import ZArith List Bool Lia ZifyBool.
Import ListNotations.
From Urwid Require Import PyBase PyList ColourBase ColourStr colours_gen Colours ColoursStrFacts.
Open Scope Z_scope.

Lemma bind_ret {A} (r : result A) : bind r (fun t => Ok t) = r.
Proof. destruct r; reflexivity. Qed.

(* ------------------------------------------------------------------ __set_foreground *)
(* one iteration of the translated loop equals one unfolding of the recursive model *)
Lemma fold_err {A B} (f : res A -> B -> res A) (Hf : forall e w b, f (RErr e w) b = RErr e w) :
  forall l e w, fold_left f l (RErr e w) = RErr e w.
Proof. induction l as [|b l IH]; intros; cbn; [reflexivity|]. now rewrite Hf, IH. Qed.

Theorem set_foreground_gen_ok v fg : set_foreground_gen v fg = set_foreground_s v fg.
Proof.
  unfold set_foreground_gen, set_foreground_s, fg_parts. cbv zeta.
  match goal with |- context [fold_left ?f _ _] => set (step := f) end.
  assert (StepErr : forall e w b, step (RErr e w) b = RErr e w) by reflexivity.
  assert (Loop : forall parts color flags,
             fold_left step parts (ROk (color, flags)) = fg_loop_s v (map strip parts) color flags).
  { induction parts as [|p rest IH]; intros color flags; [reflexivity|].
    cbn [fold_left map fg_loop_s].
    assert (Step : step (ROk (color, flags)) p =
              match find_setting ATTRIBUTE_NAMES (strip p) with
              | Some s => if negb (Z.land flags (ATTRIBUTES s) =? 0) then RErr AttrSpecError 1
                          else ROk (color, Z.lor flags (ATTRIBUTES s))
              | None =>
                  match parse_part_s v (strip p) FG_BASIC_COLOR FG_HIGH_COLOR FG_TRUE_COLOR with
                  | Err e => RErr e 0
                  | Ok (scolor, kf) =>
                      match scolor with
                      | None => RErr AttrSpecError 2
                      | Some sc => match color with Some _ => RErr AttrSpecError 3
                                                 | None => ROk (Some sc, Z.lor flags kf) end
                      end
                  end
              end).
    { unfold step. cbn [rbind]. unfold parse_part_s, S_default.
      destruct (find_setting ATTRIBUTE_NAMES (strip p)); [reflexivity|].
      destruct (str_eqb (strip p) [] || str_eqb (strip p) [100; 101; 102; 97; 117; 108; 116]).
      { now rewrite Z.lor_0_r. }
      destruct (str_index BASIC_COLORS (strip p)); [destruct color; reflexivity|].
      destruct (negb (Z.land v HIGH_88_COLOR =? 0)).
      { destruct (parse_color_88_s (strip p)) as [[c|]|]; cbn [bind]; try reflexivity; destruct color; reflexivity. }
      destruct (negb (Z.land v HIGH_TRUE_COLOR =? 0)).
      { destruct (parse_color_true_s (strip p)) as [[c|]|]; cbn [bind]; try reflexivity; destruct color; reflexivity. }
      destruct (true_to_256_s (strip p)) as [t|]; cbn [bind]; [|reflexivity].
      destruct (parse_color_256_s _) as [[c|]|]; cbn [bind]; try reflexivity; destruct color; reflexivity. }
    rewrite Step. clear Step.
    destruct (find_setting ATTRIBUTE_NAMES (strip p)) as [s|].
    - destruct (negb (Z.land flags (ATTRIBUTES s) =? 0)); [now apply fold_err|apply IH].
    - destruct (parse_part_s v (strip p) FG_BASIC_COLOR FG_HIGH_COLOR FG_TRUE_COLOR) as [[[sc|] kf]|];
        try (now apply fold_err). destruct color; [now apply fold_err|apply IH]. }
  rewrite Loop.
  destruct (fg_loop_s v (map strip (split_on 44 fg)) None 0) as [[[c|] f]|]; reflexivity.
Qed.

(* ------------------------------------------------------------------ __set_background *)
Theorem set_background_gen_ok v bg : set_background_gen v bg = set_background_s v bg.
Proof.
  unfold set_background_gen, set_background_s, parse_part_s, S_default. cbv zeta.
  destruct (str_eqb bg [] || str_eqb bg [100; 101; 102; 97; 117; 108; 116]); [reflexivity|].
  destruct (str_index BASIC_COLORS bg); [reflexivity|].
  destruct (negb (Z.land v HIGH_88_COLOR =? 0)).
  { destruct (parse_color_88_s bg) as [[c|]|]; reflexivity. }
  destruct (negb (Z.land v HIGH_TRUE_COLOR =? 0)).
  { destruct (parse_color_true_s bg) as [[c|]|]; reflexivity. }
  destruct (true_to_256_s bg) as [t|]; cbn [bind lift rbind]; [|reflexivity].
  destruct (parse_color_256_s _) as [[c|]|]; reflexivity.
Qed.

(* ------------------------------------------------------------------ __init__ *)
Theorem attrspec_init_gen_ok fg bg D : attrspec_init_gen fg bg D = attrspec_new_s fg bg D.
Proof.
  unfold attrspec_init_gen, attrspec_new_s. cbv zeta.
  change (Z.pow 2 24) with TRUE_DEPTH. fold (valid_depth D).
  destruct (negb (valid_depth D)); [reflexivity|].
  fold (init_value D). rewrite set_foreground_gen_ok.
  destruct (set_foreground_s (init_value D) fg) as [v1|]; cbn [rbind]; [|reflexivity].
  rewrite set_background_gen_ok.
  destruct (set_background_s v1 bg) as [v2|]; cbn [rbind]; [|reflexivity].
  unfold drop_marker. rewrite negb_involutive.
  destruct (Z.land v2 (Z.lor FG_TRUE_COLOR BG_TRUE_COLOR) =? 0); reflexivity.
Qed.

(* ------------------------------------------------------------------ the describers *)
Theorem foreground_color_gen_ok v : foreground_color_gen v = foreground_color_s v.
Proof.
  unfold foreground_color_gen, foreground_color_s, basic_name_s, S_default. rewrite !bind_ret. reflexivity.
Qed.

Theorem foreground_gen_ok v : foreground_gen v = foreground_s v.
Proof.
  unfold foreground_gen, foreground_s. rewrite foreground_color_gen_ok.
  destruct (foreground_color_s v) as [c|]; cbn [bind]; [|reflexivity].
  unfold settings_suffix, S_bold, S_italics, S_standout, S_blink, S_underline, S_strikethrough.
  now rewrite <- !app_assoc.
Qed.

Theorem background_gen_ok v : background_gen v = background_s v.
Proof. unfold background_gen, background_s, basic_name_s, S_default. rewrite !bind_ret. reflexivity. Qed.

Theorem attrspec_eq_gen_ok v w : attrspec_eq_gen v w = spec_eq v w.
Proof. reflexivity. Qed.

(* ------------------------------------------------------------------ get_rgb_values *)
(* the three bytes of f"{n:06x}" *)
Lemma is_digit_16_val c : is_digit 16 c = true -> 0 <= digit_val c < 16.
Proof. unfold is_digit. pose proof (digit_val_nonneg c). lia. Qed.

Lemma py_int_2hex x y : is_digit 16 x = true -> is_digit 16 y = true -> (y =? 120) || (y =? 88) = false ->
  py_int 16 [x; y] = Some (digit_val x * 16 + digit_val y).
Proof.
  intros Hx Hy Ny. rewrite (py_int_digits 16 [x; y]).
  - cbn [value_of]. f_equal; lia.
  - lia.
  - discriminate.
  - cbn [forallb]. now rewrite Hx, Hy.
  - intros _. exact Ny.
Qed.

Lemma hex6_slices n : 0 <= n < 16777216 ->
  let h := fmt_x_pad 6 n in
  py_int 16 (str_slice h 0 2) = Some (n / 65536) /\
  py_int 16 (str_slice h 2 4) = Some ((n / 256) mod 256) /\
  py_int 16 (str_slice h 4 6) = Some (n mod 256).
Proof.
  intros Hn. cbv zeta. unfold fmt_x_pad. replace (n <? 0) with false by lia.
  destruct (digits_of_spec 16 n ltac:(lia) ltac:(lia)) as [A [B [C [D F]]]].
  specialize (D 6 ltac:(lia) ltac:(change (16 ^ 6) with 16777216; lia)).
  set (ds := digits_of 16 n) in *. unfold zero_pad. set (z := Z.to_nat (6 - zlen ds)).
  assert (Z6 : zlen (repeat 48 z ++ ds) = 6).
  { rewrite zlen_app. unfold zlen at 1. rewrite repeat_length. unfold z. lia. }
  assert (Dg : forallb (is_digit 16) (repeat 48 z ++ ds) = true)
    by (rewrite forallb_app, A, forallb_repeat by reflexivity; reflexivity).
  assert (Nx : forallb (fun c => negb ((c =? 120) || (c =? 88))) (repeat 48 z ++ ds) = true).
  { rewrite forallb_app, forallb_repeat by reflexivity. cbn [andb].
    rewrite forallb_forall in F |- *. intros c Hc. specialize (F c Hc). lia. }
  assert (V : value_of 16 (repeat 48 z ++ ds) 0 = n) by (now rewrite value_of_app, value_of_zeros, Z.mul_0_l).
  destruct (repeat 48 z ++ ds) as [|a [|b [|c [|d [|e [|f [|g r]]]]]]];
    try (unfold zlen in Z6; cbn [length] in Z6; lia).
  clear Z6. cbn [forallb] in Dg, Nx. rewrite !andb_true_iff in Dg, Nx.
  destruct Dg as [Da [Db [Dc [Dd [De [Df _]]]]]]. destruct Nx as [_ [Nb [_ [Nd [_ [Nf _]]]]]].
  pose proof (is_digit_16_val a Da). pose proof (is_digit_16_val b Db). pose proof (is_digit_16_val c Dc).
  pose proof (is_digit_16_val d Dd). pose proof (is_digit_16_val e De). pose proof (is_digit_16_val f Df).
  cbn [value_of] in V.
  assert (S1 : str_slice [a; b; c; d; e; f] 0 2 = [a; b]) by reflexivity.
  assert (S2 : str_slice [a; b; c; d; e; f] 2 4 = [c; d]) by reflexivity.
  assert (S3 : str_slice [a; b; c; d; e; f] 4 6 = [e; f]) by reflexivity.
  rewrite S1, S2, S3.
  apply negb_true_iff in Nb, Nd, Nf.
  pose proof (py_int_2hex a b Da Db Nb) as P1. pose proof (py_int_2hex c d Dc Dd Nd) as P2.
  pose proof (py_int_2hex e f De Df Nf) as P3.
  remember (digit_val a * 16 + digit_val b) as x1 eqn:EA. remember (digit_val c * 16 + digit_val d) as x2 eqn:EB.
  remember (digit_val e * 16 + digit_val f) as x3 eqn:EC.
  assert (HA : 0 <= x1 < 256) by lia. assert (HB : 0 <= x2 < 256) by lia. assert (HC : 0 <= x3 < 256) by lia.
  assert (Vn : n = (x1 * 256 + x2) * 256 + x3) by lia.
  rewrite P1, P2, P3. clear - HA HB HC Vn. subst n.
  repeat split; f_equal; Z.div_mod_to_equations; lia.
Qed.

Lemma fg_number_range v : 0 <= attr_foreground_number v < 16777216.
Proof.
  unfold attr_foreground_number. change FG_COLOR_MASK with (Z.ones 24). rewrite Z.land_ones by lia.
  change (2 ^ 24) with 16777216. apply Z.mod_pos_bound. lia.
Qed.
Lemma bg_number_range v : 0 <= attr_background_number v < 16777216.
Proof.
  unfold attr_background_number. change BG_SHIFT with 24.
  change BG_COLOR_MASK with (Z.shiftl (Z.ones 24) 24). rewrite Z.shiftr_land.
  change (Z.shiftr (Z.shiftl (Z.ones 24) 24) 24) with (Z.ones 24).
  rewrite Z.land_ones by lia. change (2 ^ 24) with 16777216. apply Z.mod_pos_bound. lia.
Qed.

Definition flat3 (o : option (Z * Z * Z)) : list (option Z) :=
  match o with Some t => opt3 t | None => [None; None; None] end.
Definition rgb_list (r : result (option (Z * Z * Z) * option (Z * Z * Z))) : result (list (option Z)) :=
  bind r (fun fb => Ok (flat3 (fst fb) ++ flat3 (snd fb))).

(* the background half, as it appears (duplicated) in the translated function *)
Definition rgb_bg_gen (v : Z) (vals : list (option Z)) : result (list (option Z)) :=
  bind (rgb_bg v) (fun b => Ok (vals ++ flat3 b)).

Theorem get_rgb_values_gen_ok v : get_rgb_values_gen v = rgb_list (get_rgb_values v).
Proof.
  pose proof (hex6_slices _ (fg_number_range v)) as [F1 [F2 F3]].
  pose proof (hex6_slices _ (bg_number_range v)) as [B1 [B2 B3]]. cbv zeta in F1, F2, F3, B1, B2, B3.
  unfold get_rgb_values_gen, rgb_list, get_rgb_values, rgb_fg, rgb_bg, hex_rgb. cbv zeta.
  change (Z.pow 2 24) with TRUE_DEPTH.
  rewrite ?F1, ?F2, ?F3, ?B1, ?B2, ?B3.
  destruct (negb (attr_foreground_basic v || attr_foreground_high v || attr_foreground_true v));
  destruct (negb (attr_background_basic v || attr_background_high v || attr_background_true v));
  destruct (attr_foreground_basic v); destruct (attr_background_basic v);
  destruct (attr_colors v =? 88); destruct (attr_colors v =? TRUE_DEPTH);
  destruct (88 <=? attr_foreground_number v); destruct (88 <=? attr_background_number v);
  cbn [bind fst snd flat3 app];
  repeat (match goal with |- context [get_index ?t ?i] => destruct (get_index t i) as [[[? ?] ?]|] end;
          cbn [bind fst snd flat3 opt3 app]);
  reflexivity.
Qed.
