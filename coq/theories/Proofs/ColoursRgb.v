(* C18 - get_rgb_values against the xterm tables. *)
From Coq Require Import ZArith List Bool Lia ZifyBool.
Import ListNotations.
From Urwid Require Import PyBase PyList ColourBase colours_gen Colours ColoursTables ColoursBits ColoursSpec ColoursRound.
Open Scope Z_scope.

(* what the xterm tables give for a reported description when the reported depth is cs *)
Definition expected_rgb (cs : Z) (d : desc) : option (Z * Z * Z) :=
  match d with
  | DDefault => None
  | DBasic n => Some (triple_d xterm_basic n)
  | DTrue n => Some (hex_rgb n)
  | _ => match (if cs =? 88 then parse_color_88 d else parse_color_256 d) with
         | Ok (Some c) => Some (if cs =? 88 then xterm88 c else xterm256 c)
         | _ => None
         end
  end.

(* the if-chain of get_rgb_values for one side that is not 'default' *)
Definition rgb_num (cs n : Z) : result (option (Z * Z * Z)) :=
  if cs =? 88 then
    if 88 <=? n then Err ValueError else bind (get_index COLOR_VALUES_88 n) (fun t => Ok (Some t))
  else if cs =? TRUE_DEPTH then Ok (Some (hex_rgb n))
  else bind (get_index COLOR_VALUES_256 n) (fun t => Ok (Some t)).

Section Rgb.
Variables (md : mode) (fn bn : Z) (ss : sset) (k bk : kind).
Hypothesis Hfn : low24 fn.
Hypothesis Hbn : low24 bn.
Let v := pack (marker md) fn (F ss k) bn (bgflag bk).

Lemma rgb_fg_pack : rgb_fg v = match k with KNone => Ok None | _ => rgb_num (colors_spec md k bk) fn end.
Proof.
  destruct (fg_kind_pack md fn bn ss k bk Hfn Hbn) as [E1 [E2 E3]]. unfold rgb_fg, rgb_num.
  fold v in E1, E2, E3. rewrite E1, E2, E3. unfold v. rewrite !colors_pack by assumption.
  rewrite !(acc_fgnum _ _ _ _ _ (OKv md fn bn ss k bk Hfn Hbn)).
  destruct k; reflexivity.
Qed.
Lemma rgb_bg_pack : rgb_bg v = match bk with KNone => Ok None | _ => rgb_num (colors_spec md k bk) bn end.
Proof.
  destruct (bg_kind_pack md fn bn ss k bk Hfn Hbn) as [E1 [E2 E3]]. unfold rgb_bg, rgb_num.
  fold v in E1, E2, E3. rewrite E1, E2, E3. unfold v. rewrite !colors_pack by assumption.
  rewrite !(acc_bgnum _ _ _ _ _ (OKv md fn bn ss k bk Hfn Hbn)).
  destruct bk; reflexivity.
Qed.
End Rgb.

Lemma xterm_basic_256 n : 0 <= n < 16 -> xterm256 n = triple_d xterm_basic n.
Proof. intros H. unfold xterm256. now replace (n <? 16) with true by lia. Qed.
Lemma xterm_basic_88 n : 0 <= n < 16 -> xterm88 n = triple_d xterm_basic n.
Proof. intros H. unfold xterm88. now replace (n <? 16) with true by lia. Qed.

Definition mode_depth (md : mode) : Z := match md with M88 => 88 | MTrue => TRUE_DEPTH | M256 => 256 end.

(* one side: the model's answer is the xterm value of the reported description *)
Lemma side_rgb md ks n cs d :
  side_ok md ks n ->
  (ks = KBasic -> cs = 16 \/ cs = 88 \/ cs = 256) ->
  (ks = KHigh \/ ks = KTrue -> cs = mode_depth md) ->
  side_desc cs ks n = Ok d ->
  match ks with KNone => Ok None | _ => rgb_num cs n end = Ok (expected_rgb cs d).
Proof.
  intros Hs Hb Hh Ed. destruct ks; cbn [side_desc] in Ed.
  - injection Ed as <-. reflexivity.
  - cbn in Hs. unfold basic_name in Ed. replace ((0 <=? n) && (n <? 16)) with true in Ed by lia.
    injection Ed as <-. cbn [expected_rgb]. unfold rgb_num.
    destruct (Hb eq_refl) as [-> | [-> | ->]].
    + change (16 =? 88) with false. change (16 =? TRUE_DEPTH) with false. cbn iota.
      rewrite color_values_256_xterm by lia. cbn [bind]. now rewrite xterm_basic_256.
    + rewrite Z.eqb_refl. replace (88 <=? n) with false by lia.
      rewrite color_values_88_xterm by lia. cbn [bind]. now rewrite xterm_basic_88.
    + change (256 =? 88) with false. change (256 =? TRUE_DEPTH) with false. cbn iota.
      rewrite color_values_256_xterm by lia. cbn [bind]. now rewrite xterm_basic_256.
  - destruct Hs as [Hk Hn]. rewrite (Hh (or_introl eq_refl)) in *.
    destruct md; cbn in Hk; try discriminate; cbn in Hn; cbn [mode_depth] in *.
    + rewrite Z.eqb_refl in Ed. destruct (rt_88_norm n Hn) as [d' [Ed' [Ep Nd]]].
      rewrite Ed' in Ed. injection Ed as <-.
      unfold rgb_num. rewrite Z.eqb_refl. replace (88 <=? n) with false by lia.
      rewrite color_values_88_xterm by lia. cbn [bind].
      destruct d'; try discriminate Nd; cbn [expected_rgb]; rewrite Z.eqb_refl, Ep; reflexivity.
    + change (256 =? 88) with false in *. change (256 =? TRUE_DEPTH) with false in *. cbn iota in Ed.
      destruct (rt_256_norm n Hn) as [d' [Ed' [Ep Nd]]]. rewrite Ed' in Ed. injection Ed as <-.
      unfold rgb_num. change (256 =? 88) with false. change (256 =? TRUE_DEPTH) with false. cbn iota.
      rewrite color_values_256_xterm by lia. cbn [bind].
      destruct d'; try discriminate Nd; cbn [expected_rgb]; change (256 =? 88) with false; cbn iota; rewrite Ep; reflexivity.
  - destruct Hs as [Hk Hn]. rewrite (Hh (or_intror eq_refl)) in *.
    destruct md; cbn in Hk; try discriminate. cbn [mode_depth] in *.
    change (TRUE_DEPTH =? 88) with false in *. rewrite Z.eqb_refl in Ed. cbn iota in Ed.
    injection Ed as <-. unfold rgb_num. change (TRUE_DEPTH =? 88) with false. rewrite Z.eqb_refl. reflexivity.
Qed.

(* hex_rgb splits a 24-bit number into its three bytes *)
Lemma hex_rgb_spec n : 0 <= n < 16777216 ->
  let '(r, g, b) := hex_rgb n in 0 <= r < 256 /\ 0 <= g < 256 /\ 0 <= b < 256 /\ n = r * 65536 + g * 256 + b.
Proof. intros H. unfold hex_rgb. repeat split; Z.div_mod_to_equations; lia. Qed.

(* ------------------------------------------------------------------ the whole specification *)
Lemma colors_spec_basic md k bk :
  (k = KBasic \/ bk = KBasic) ->
  colors_spec md k bk = 16 \/ colors_spec md k bk = 88 \/ colors_spec md k bk = 256 \/ colors_spec md k bk = TRUE_DEPTH.
Proof. destruct md, k, bk; cbn; intros [H|H]; try discriminate; tauto. Qed.

Definition is_basic_desc (d : desc) : bool := match d with DBasic _ => true | _ => false end.

Lemma side_desc_basic cs k n d : side_desc cs k n = Ok d -> k = KBasic -> is_basic_desc d = true.
Proof.
  intros E ->. cbn in E. unfold basic_name in E. destruct ((0 <=? n) && (n <? 16)); [|discriminate].
  now injection E as <-.
Qed.

Theorem rgb_matches_xterm_unmixed D fg bg v fd fs bd :
  Forall (wf_part (mode_of D)) fg -> wf_desc (mode_of D) bg -> attrspec_new fg bg D = ROk v ->
  foreground v = Ok (fd, fs) -> background v = Ok bd ->
  (attr_colors v = TRUE_DEPTH -> is_basic_desc fd = false /\ is_basic_desc bd = false) ->
  get_rgb_values v = Ok (expected_rgb (attr_colors v) fd, expected_rgb (attr_colors v) bd).
Proof.
  intros W Wb E EF EB NM.
  destruct (construct_inv D fg bg v W Wb E) as [VD [LE [_ [fcol [ss [k [bn [EFa [EP [EV [Hfn [Hbn [S1 S2]]]]]]]]]]]]].
  set (md := mode_of D) in *. set (bk := part_kind md bg) in *. set (fn := dflt fcol) in *.
  destruct (colors_of_high md k bk fn bn S1 S2) as [C1 C2].
  assert (EC : attr_colors v = colors_spec md k bk) by (subst v; now apply colors_pack).
  assert (EFD : side_desc (colors_spec md k bk) k fn = Ok fd).
  { unfold foreground in EF. destruct (foreground_color v) as [fd'|] eqn:X; [|discriminate]. cbn [bind] in EF.
    injection EF as <- _. subst v. rewrite foreground_color_pack in X by assumption.
    unfold side_desc. unfold high_desc in X. destruct k; exact X. }
  assert (EBD : side_desc (colors_spec md k bk) bk bn = Ok bd).
  { subst v. rewrite background_pack in EB by assumption. unfold side_desc. unfold high_desc in EB. destruct bk; exact EB. }
  unfold get_rgb_values. subst v. rewrite rgb_fg_pack, rgb_bg_pack by assumption.
  rewrite EC in *.
  rewrite (side_rgb md k fn _ fd S1), (side_rgb md bk bn _ bd S2); try assumption; try reflexivity.
  - intros Hk. destruct (colors_spec_basic md k bk (or_intror Hk)) as [?|[?|[?|T]]]; try tauto.
    exfalso. destruct (NM T) as [_ N2]. rewrite (side_desc_basic _ _ _ _ EBD Hk) in N2. discriminate.
  - intros [Hk|Hk]; apply C2; rewrite Hk; reflexivity.
  - intros Hk. destruct (colors_spec_basic md k bk (or_introl Hk)) as [?|[?|[?|T]]]; try tauto.
    exfalso. destruct (NM T) as [N1 _]. rewrite (side_desc_basic _ _ _ _ EFD Hk) in N1. discriminate.
  - intros [Hk|Hk]; apply C1; rewrite Hk; reflexivity.
Qed.

(* the statement without the "unmixed" premise is false of the code as it is: a basic colour beside a
   true colour is reported as (0, 0, number) *)
Definition rgb_matches_xterm_full : Prop :=
  forall D fg bg v fd fs bd,
  Forall (wf_part (mode_of D)) fg -> wf_desc (mode_of D) bg -> attrspec_new fg bg D = ROk v ->
  foreground v = Ok (fd, fs) -> background v = Ok bd ->
  get_rgb_values v = Ok (expected_rgb (attr_colors v) fd, expected_rgb (attr_colors v) bd).

(* ------------------------------------------------------------------ get_rgb_values never raises on a constructed specification *)
Lemma rgb_num_total md ks n cs :
  side_ok md ks n -> ks <> KNone -> (cs = 88 -> md = M88) ->
  (ks = KHigh \/ ks = KTrue -> cs = mode_depth md) ->
  exists t, rgb_num cs n = Ok t.
Proof.
  intros Hs Hn H88 Hh. unfold rgb_num.
  destruct (cs =? 88) eqn:E88.
  - assert (cs = 88) by lia. specialize (H88 H). subst md.
    assert (0 <= n < 88) by (destruct ks; cbn in Hs; try tauto; lia).
    replace (88 <=? n) with false by lia. rewrite color_values_88_xterm by lia. eexists; reflexivity.
  - destruct (cs =? TRUE_DEPTH) eqn:ET; [eexists; reflexivity|].
    assert (0 <= n < 256).
    { destruct ks; cbn in Hs; try tauto; try lia.
      - destruct Hs as [Hk Hr]. specialize (Hh (or_introl eq_refl)).
        destruct md; cbn in Hk, Hr, Hh; try discriminate; lia.
      - destruct Hs as [Hk Hr]. specialize (Hh (or_intror eq_refl)).
        destruct md; cbn in Hk, Hr, Hh; try discriminate; lia. }
    rewrite color_values_256_xterm by lia. eexists; reflexivity.
Qed.

Theorem get_rgb_total D fg bg v :
  Forall (wf_part (mode_of D)) fg -> wf_desc (mode_of D) bg -> attrspec_new fg bg D = ROk v ->
  exists r, get_rgb_values v = Ok r.
Proof.
  intros W Wb E.
  destruct (construct_inv D fg bg v W Wb E) as [VD [LE [_ [fcol [ss [k [bn [EFa [EP [EV [Hfn [Hbn [S1 S2]]]]]]]]]]]]].
  set (md := mode_of D) in *. set (bk := part_kind md bg) in *. set (fn := dflt fcol) in *.
  destruct (colors_of_high md k bk fn bn S1 S2) as [C1 C2].
  assert (M88' : colors_spec md k bk = 88 -> md = M88) by (destruct md, k, bk; cbn; intros; try discriminate; reflexivity).
  unfold get_rgb_values. subst v. rewrite rgb_fg_pack, rgb_bg_pack by assumption.
  assert (A : exists t, match k with KNone => Ok None | _ => rgb_num (colors_spec md k bk) fn end = Ok t).
  { destruct k eqn:Ek; [eexists; reflexivity| | |];
      (eapply rgb_num_total; [exact S1|discriminate|exact M88'|]; intros [X|X]; try discriminate X; apply C1; reflexivity). }
  assert (B : exists t, match bk with KNone => Ok None | _ => rgb_num (colors_spec md k bk) bn end = Ok t).
  { destruct bk eqn:Ek; [eexists; reflexivity| | |];
      (eapply rgb_num_total; [exact S2|discriminate|exact M88'|]; intros [X|X]; try discriminate X; apply C2; reflexivity). }
  destruct A as [ta Ea], B as [tb Eb]. rewrite Ea, Eb. eexists; reflexivity.
Qed.
