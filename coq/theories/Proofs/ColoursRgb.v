(* C18 - get_rgb_values against the xterm tables. *)
From Coq Require Import ZArith List Bool Lia ZifyBool.
Import ListNotations.
From Urwid Require Import PyBase PyList ColourBase colours_gen Colours ColoursTables ColoursBits ColoursSpec ColoursRound.
Open Scope Z_scope.

(* what the xterm tables give for a reported description when the reported depth is cs *)
Definition expected_rgb (cs : Z) (d : desc) : option (Z * Z * Z) :=
  match d with
  | DDefault => None
  | DBasic n => Some (triple_d xterm_basic n)
  | DTrue n => Some (hex_rgb n)
  | _ => match (if cs =? 88 then parse_color_88 d else parse_color_256 d) with
         | Ok (Some c) => Some (if cs =? 88 then xterm88 c else xterm256 c)
         | _ => None
         end
  end.

(* the if-chain of get_rgb_values for one side that is not 'default' *)
Definition rgb_num (cs n : Z) : result (option (Z * Z * Z)) :=
  if cs =? 88 then
    if 88 <=? n then Err ValueError else bind (get_index COLOR_VALUES_88 n) (fun t => Ok (Some t))
  else if cs =? TRUE_DEPTH then Ok (Some (hex_rgb n))
  else bind (get_index COLOR_VALUES_256 n) (fun t => Ok (Some t)).

Section Rgb.
Variables (md : mode) (fn bn : Z) (ss : sset) (k bk : kind).
Hypothesis Hfn : low24 fn.
Hypothesis Hbn : low24 bn.
Let v := pack (marker md) fn (F ss k) bn (bgflag bk).

Definition rgb_basic (n : Z) : result (option (Z * Z * Z)) := bind (get_index BASIC_COLOR_VALUES n) (fun t => Ok (Some t)).

Lemma rgb_fg_pack : rgb_fg v = match k with KNone => Ok None | KBasic => rgb_basic fn | _ => rgb_num (colors_spec md k bk) fn end.
Proof.
  destruct (fg_kind_pack md fn bn ss k bk Hfn Hbn) as [E1 [E2 E3]]. unfold rgb_fg, rgb_num, rgb_basic.
  fold v in E1, E2, E3. rewrite E1, E2, E3. unfold v. rewrite !colors_pack by assumption.
  rewrite !(acc_fgnum _ _ _ _ _ (OKv md fn bn ss k bk Hfn Hbn)).
  destruct k; reflexivity.
Qed.
Lemma rgb_bg_pack : rgb_bg v = match bk with KNone => Ok None | KBasic => rgb_basic bn | _ => rgb_num (colors_spec md k bk) bn end.
Proof.
  destruct (bg_kind_pack md fn bn ss k bk Hfn Hbn) as [E1 [E2 E3]]. unfold rgb_bg, rgb_num, rgb_basic.
  fold v in E1, E2, E3. rewrite E1, E2, E3. unfold v. rewrite !colors_pack by assumption.
  rewrite !(acc_bgnum _ _ _ _ _ (OKv md fn bn ss k bk Hfn Hbn)).
  destruct bk; reflexivity.
Qed.
End Rgb.

Lemma xterm_basic_256 n : 0 <= n < 16 -> xterm256 n = triple_d xterm_basic n.
Proof. intros H. unfold xterm256. now replace (n <? 16) with true by lia. Qed.
Lemma xterm_basic_88 n : 0 <= n < 16 -> xterm88 n = triple_d xterm_basic n.
Proof. intros H. unfold xterm88. now replace (n <? 16) with true by lia. Qed.

Definition mode_depth (md : mode) : Z := match md with M88 => 88 | MTrue => TRUE_DEPTH | M256 => 256 end.

Lemma basic_sweep : forallb (fun n => match get_index BASIC_COLOR_VALUES n with Ok t => triple_eqb t (triple_d xterm_basic n) | Err _ => false end) (upto 16) = true.
Proof. vm_compute. reflexivity. Qed.
Lemma rgb_basic_xterm n : 0 <= n < 16 -> rgb_basic n = Ok (Some (triple_d xterm_basic n)).
Proof.
  intros H. pose proof (sweep 16 _ basic_sweep n ltac:(lia)) as S. cbn beta in S. unfold rgb_basic.
  destruct (get_index BASIC_COLOR_VALUES n); [|discriminate]. cbn [bind]. now rewrite (triple_eqb_eq _ _ S).
Qed.

(* one side: the model's answer is the xterm value of the reported description *)
Lemma side_rgb md ks n cs d :
  side_ok md ks n ->
  (ks = KHigh \/ ks = KTrue -> cs = mode_depth md) ->
  side_desc cs ks n = Ok d ->
  match ks with KNone => Ok None | KBasic => rgb_basic n | _ => rgb_num cs n end = Ok (expected_rgb cs d).
Proof.
  intros Hs Hh Ed. destruct ks; cbn [side_desc] in Ed.
  - injection Ed as <-. reflexivity.
  - cbn in Hs. unfold basic_name in Ed. replace ((0 <=? n) && (n <? 16)) with true in Ed by lia.
    injection Ed as <-. cbn [expected_rgb]. now apply rgb_basic_xterm.
  - destruct Hs as [Hk Hn]. rewrite (Hh (or_introl eq_refl)) in *.
    destruct md; cbn in Hk; try discriminate; cbn in Hn; cbn [mode_depth] in *.
    + rewrite Z.eqb_refl in Ed. destruct (rt_88_norm n Hn) as [d' [Ed' [Ep Nd]]].
      rewrite Ed' in Ed. injection Ed as <-.
      unfold rgb_num. rewrite Z.eqb_refl. replace (88 <=? n) with false by lia.
      rewrite color_values_88_xterm by lia. cbn [bind].
      destruct d'; try discriminate Nd; cbn [expected_rgb]; rewrite Z.eqb_refl, Ep; reflexivity.
    + change (256 =? 88) with false in *. change (256 =? TRUE_DEPTH) with false in *. cbn iota in Ed.
      destruct (rt_256_norm n Hn) as [d' [Ed' [Ep Nd]]]. rewrite Ed' in Ed. injection Ed as <-.
      unfold rgb_num. change (256 =? 88) with false. change (256 =? TRUE_DEPTH) with false. cbn iota.
      rewrite color_values_256_xterm by lia. cbn [bind].
      destruct d'; try discriminate Nd; cbn [expected_rgb]; change (256 =? 88) with false; cbn iota; rewrite Ep; reflexivity.
  - destruct Hs as [Hk Hn]. rewrite (Hh (or_intror eq_refl)) in *.
    destruct md; cbn in Hk; try discriminate. cbn [mode_depth] in *.
    change (TRUE_DEPTH =? 88) with false in *. rewrite Z.eqb_refl in Ed. cbn iota in Ed.
    injection Ed as <-. unfold rgb_num. change (TRUE_DEPTH =? 88) with false. rewrite Z.eqb_refl. reflexivity.
Qed.

(* hex_rgb splits a 24-bit number into its three bytes *)
Lemma hex_rgb_spec n : 0 <= n < 16777216 ->
  let '(r, g, b) := hex_rgb n in 0 <= r < 256 /\ 0 <= g < 256 /\ 0 <= b < 256 /\ n = r * 65536 + g * 256 + b.
Proof. intros H. unfold hex_rgb. repeat split; Z.div_mod_to_equations; lia. Qed.

(* ------------------------------------------------------------------ the whole specification *)
Theorem rgb_matches_xterm D fg bg v fd fs bd :
  Forall (wf_part (mode_of D)) fg -> wf_desc (mode_of D) bg -> attrspec_new fg bg D = ROk v ->
  foreground v = Ok (fd, fs) -> background v = Ok bd ->
  get_rgb_values v = Ok (expected_rgb (attr_colors v) fd, expected_rgb (attr_colors v) bd).
Proof.
  intros W Wb E EF EB.
  destruct (describe_fields D fg bg v W Wb E) as [fcol [ss [k [bn [fd' [bd' H]]]]]]. cbv zeta in H.
  destruct H as [EV [Hfn [Hbn [S1 [S2 [EC [Efd [Ebd [EF' [EB' _]]]]]]]]]].
  rewrite EF' in EF. injection EF as -> _. rewrite EB' in EB. injection EB as ->.
  set (md := mode_of D) in *. set (bk := part_kind md bg) in *. set (fn := dflt fcol) in *.
  destruct (colors_of_high md k bk fn bn S1 S2) as [C1 C2].
  rewrite EC. unfold get_rgb_values. subst v. rewrite rgb_fg_pack, rgb_bg_pack by assumption.
  rewrite colors_spec_out.
  rewrite (side_rgb md k fn _ fd S1), (side_rgb md bk bn _ bd S2); try assumption; try reflexivity.
  - intros [Hk|Hk]; apply C2; rewrite Hk; reflexivity.
  - intros [Hk|Hk]; apply C1; rewrite Hk; reflexivity.
Qed.

(* get_rgb_values never raises on a constructed specification *)
Theorem get_rgb_total D fg bg v :
  Forall (wf_part (mode_of D)) fg -> wf_desc (mode_of D) bg -> attrspec_new fg bg D = ROk v ->
  exists r, get_rgb_values v = Ok r.
Proof.
  intros W Wb E. destruct (roundtrip D fg bg v W Wb E) as [[fd fs] [bd [EF [EB _]]]].
  eexists. exact (rgb_matches_xterm D fg bg v fd fs bd W Wb E EF EB).
Qed.
