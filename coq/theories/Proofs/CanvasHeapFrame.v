(* C02, heap layer, part 1: no operation changes a list object that existed before it.
   [hext h h']: h' extends h - every list object of h is still there with the same contents.
   The only in-place write of the model ([append_outer], the "self.shards.append" of
   pad_trim_top_bottom) hits an object created by the same call. *)
From Coq Require Import ZArith List Bool Lia ZifyBool.
From Urwid Require Import PyBase Canvas CanvasHeap.
Import ListNotations.
Open Scope Z_scope.
Arguments Z.add : simpl never.
Arguments Z.sub : simpl never.
Arguments Z.mul : simpl never.
Arguments Z.ltb : simpl never.
Arguments Z.leb : simpl never.
Arguments Z.eqb : simpl never.
Arguments Z.min : simpl never.
Arguments Z.max : simpl never.
Arguments Z.to_nat : simpl never.
Arguments Z.of_nat : simpl never.

Definition hext (h h' : heap) : Prop :=
  zlen (outer h) <= zlen (outer h') /\ zlen (inner h) <= zlen (inner h') /\
  (forall id, 0 <= id < zlen (outer h) -> nthz (outer h') id = nthz (outer h) id) /\
  (forall iid, 0 <= iid < zlen (inner h) -> nthz (inner h') iid = nthz (inner h) iid).

Lemma hext_refl h : hext h h.
Proof. repeat split; auto; lia. Qed.
Lemma hext_trans h1 h2 h3 : hext h1 h2 -> hext h2 h3 -> hext h1 h3.
Proof.
  intros (A1 & A2 & A3 & A4) (B1 & B2 & B3 & B4). repeat split; try lia.
  - intros id H. rewrite B3 by lia. now apply A3.
  - intros id H. rewrite B4 by lia. now apply A4.
Qed.

Lemma hp_nthz_app_l {A} (a b : list A) k : 0 <= k < zlen a -> nthz (a ++ b) k = nthz a k.
Proof.
  intros. unfold nthz. destruct (k <? 0) eqn:E; [lia|]. apply nth_error_app1. unfold zlen in *. lia.
Qed.
Lemma hp_nthz_last {A} (a : list A) x : nthz (a ++ [x]) (zlen a) = Some x.
Proof.
  pose proof (zlen_nonneg a). unfold nthz. destruct (zlen a <? 0) eqn:E; [lia|].
  rewrite nth_error_app2 by (unfold zlen; lia). unfold zlen. rewrite Nat2Z.id, Nat.sub_diag. reflexivity.
Qed.

Lemma hext_push_inner h cvs : hext h (Heap (outer h) (inner h ++ [cvs])).
Proof.
  unfold hext. cbn [outer inner]. split; [lia|]. split; [rewrite zlen_app, zlen_cons, zlen_nil; lia|]. split; [auto|].
  intros iid H. now apply hp_nthz_app_l.
Qed.
Lemma hext_push_outer h a : hext h (Heap (outer h ++ [a]) (inner h)).
Proof.
  unfold hext. cbn [outer inner]. split; [rewrite zlen_app, zlen_cons, zlen_nil; lia|]. split; [lia|]. split; [|auto].
  intros id H. now apply hp_nthz_app_l.
Qed.

Lemma alloc_plan_ext p : forall h h' a, alloc_plan h p = (h', a) -> hext h h' /\ outer h' = outer h.
Proof.
  induction p as [|[n [iid|cvs]] p IH]; intros h h' a; cbn [alloc_plan].
  - intros [= <- <-]. split; [apply hext_refl|reflexivity].
  - destruct (alloc_plan h p) as [h1 a1] eqn:E. intros [= <- <-]. eapply IH; eauto.
  - destruct (alloc_plan (Heap (outer h) (inner h ++ [cvs])) p) as [h1 a1] eqn:E. intros [= <- <-].
    destruct (IH _ _ _ E) as [X Y]. split; [eapply hext_trans; [apply hext_push_inner|exact X]|exact Y].
Qed.

Lemma alloc_outer_ext h p h' id :
  alloc_outer h p = (h', id) -> hext h h' /\ id = zlen (outer h) /\ zlen (outer h') = id + 1.
Proof.
  unfold alloc_outer. destruct (alloc_plan h p) as [h1 a] eqn:E. intros [= <- <-].
  destruct (alloc_plan_ext _ _ _ _ E) as [X Y]. split; [eapply hext_trans; [exact X|apply hext_push_outer]|].
  cbn [outer]. rewrite Y, zlen_app, zlen_cons, zlen_nil. lia.
Qed.

Lemma set_nth_length {A} (l : list A) n x : length (set_nth l n x) = length l.
Proof. revert n; induction l as [|y l IH]; intros [|n]; cbn [set_nth length]; auto. Qed.
Lemma set_nth_other {A} (l : list A) n x m : m <> n -> nth_error (set_nth l n x) m = nth_error l m.
Proof.
  revert n m; induction l as [|y l IH]; intros [|n] [|m] H; cbn [set_nth nth_error]; try reflexivity; try congruence.
  apply IH. congruence.
Qed.

(* the in-place append does not touch objects older than its target *)
Lemma append_outer_ext h0 h id e : hext h0 h -> zlen (outer h0) <= id -> hext h0 (append_outer h id e).
Proof.
  intros (A1 & A2 & A3 & A4) Hid. unfold append_outer. repeat split; cbn [outer inner]; try lia.
  - unfold zlen. rewrite set_nth_length. unfold zlen in A1. lia.
  - intros k Hk. rewrite <- A3 by lia. unfold nthz. destruct (k <? 0) eqn:E; [reflexivity|]. apply set_nth_other. lia.
  - exact A4.
Qed.

(* ------------------------------------------------------------------ every operation extends the heap *)
Lemma h_wrap_ext h v h' c : h_wrap h v = Ok (h', c) -> hext h h' /\ (zlen (outer h) <= hid c \/ exists c0, v = HComp c0 /\ hid c = hid c0).
Proof.
  unfold h_wrap. destruct v as [cv cu|c0].
  - destruct (wrap (VLeaf cv cu)) as [c'|e]; [|discriminate]. destruct (alloc_outer h (all_fresh (cshards c'))) as [h1 id] eqn:E.
    intros [= <- <-]. destruct (alloc_outer_ext _ _ _ _ E) as (X & Y & Z). split; [exact X|left; cbn [hid]; lia].
  - intros [= <- <-]. split; [apply hext_refl|right; eauto].
Qed.

Ltac alloc_case E :=
  match goal with
  | |- context [alloc_outer ?h ?p] => destruct (alloc_outer h p) as [? ?] eqn:E
  end.

Lemma h_trim_ext h c top count h' c' :
  h_trim h c top count = Ok (h', c') -> hext h h' /\ (hid c' = hid c \/ zlen (outer h) <= hid c').
Proof.
  unfold h_trim. destruct (comp_trim (to_comp h c) top count) as [c1|e]; [|discriminate]. destruct count as [n|].
  - alloc_case E. intros [= <- <-]. destruct (alloc_outer_ext _ _ _ _ E) as (X & Y & Z). split; [exact X|right; cbn [hid]; lia].
  - destruct (top =? 0).
    + intros [= <- <-]. split; [apply hext_refl|now left].
    + alloc_case E. intros [= <- <-]. destruct (alloc_outer_ext _ _ _ _ E) as (X & Y & Z). split; [exact X|right; cbn [hid]; lia].
Qed.

Lemma h_trim_end_ext h c e h' c' : h_trim_end h c e = Ok (h', c') -> hext h h'.
Proof.
  unfold h_trim_end. destruct (comp_trim_end (to_comp h c) e) as [c1|er]; [|discriminate].
  alloc_case E. intros [= <- <-]. apply (alloc_outer_ext _ _ _ _ E).
Qed.

Lemma h_pad_lr_ext h c l r h' c' : h_pad_trim_left_right h c l r = Ok (h', c') -> hext h h'.
Proof.
  unfold h_pad_trim_left_right. destruct (comp_pad_trim_left_right (to_comp h c) l r) as [c1|e]; [|discriminate].
  destruct ((l <? 0) || (r <? 0)); [|destruct ((0 <? l) || (0 <? r))].
  - alloc_case E. intros [= <- <-]. apply (alloc_outer_ext _ _ _ _ E).
  - alloc_case E. intros [= <- <-]. apply (alloc_outer_ext _ _ _ _ E).
  - intros [= <- <-]. apply hext_refl.
Qed.

Lemma h_fill_ext h c m h' c' : h_fill_attr_apply h c m = Ok (h', c') -> hext h h'.
Proof.
  unfold h_fill_attr_apply. destruct (comp_fill_attr_apply (to_comp h c) m) as [c1|e]; [|discriminate].
  alloc_case E. intros [= <- <-]. apply (alloc_outer_ext _ _ _ _ E).
Qed.

Lemma h_same_ext h c f h' c' : h_same h c f = Ok (h', c') -> hext h h'.
Proof. unfold h_same. destruct (f (to_comp h c)); [|discriminate]. intros [= <- <-]. apply hext_refl. Qed.

Lemma h_drop_empty_ext h0 c0 t b h1 c1 :
  h_drop_empty h0 c0 t b = (h1, c1) -> hext h0 h1 /\ (hid c1 = hid c0 \/ zlen (outer h0) <= hid c1).
Proof.
  unfold h_drop_empty. destruct (((0 <? t) || (0 <? b)) && (shards_rows (deref h0 (hid c0)) =? 0)).
  - destruct (alloc_outer h0 []) as [h2 id] eqn:E. intros [= <- <-]. destruct (alloc_outer_ext _ _ _ _ E) as (X & Y & Z).
    split; [exact X|]. right. cbn [hid]. lia.
  - intros [= <- <-]. split; [apply hext_refl|now left].
Qed.

(* pad_trim_top_bottom: the append in place goes to a list created by this very call *)
Lemma h_pad_tb_ext h c t b h' c' : h_pad_trim_top_bottom h c t b = Ok (h', c') -> hext h h'.
Proof.
  unfold h_pad_trim_top_bottom. destruct (hfin c); [discriminate|].
  assert (forall h1 c1, (if (t <? 0) || (b <? 0)
                         then h_trim h c (Z.max 0 (- t)) (Some (shards_rows (deref h (hid c)) - Z.max 0 (- t) - Z.max 0 (- b)))
                         else Ok (h, c)) = Ok (h1, c1) ->
                        hext h h1 /\ (hid c1 = hid c \/ zlen (outer h) <= hid c1)) as Ha.
  { intros h1 c1. destruct ((t <? 0) || (b <? 0)).
    - apply h_trim_ext.
    - intros [= <- <-]. split; [apply hext_refl|now left]. }
  destruct (if (t <? 0) || (b <? 0) then _ else _) as [[h0 c0]|e]; [|discriminate].
  destruct (Ha h0 c0 eq_refl) as [X0 I0]. clear Ha.
  set (cols := shards_cols (deref h0 (hid c0))).
  destruct (h_drop_empty h0 c0 t b) as [h1 c1] eqn:Ed.
  destruct (h_drop_empty_ext _ _ _ _ _ _ Ed) as [Xd Id].
  assert (X1 : hext h h1) by (eapply hext_trans; eauto).
  assert (I1 : hid c1 = hid c \/ zlen (outer h) <= hid c1).
  { destruct Id as [Id|Id]; [rewrite Id; exact I0|]. right. destruct X0 as (L & _). lia. }
  assert (exists h2 c2, (if 0 <? t
                         then let '(h'0, id) := alloc_outer h1 ((t, IFresh (blank_cvs cols t)) :: shared (get_outer h1 (hid c1))) in
                              (h'0, HC id (translate_coords (hcoords c1) 0 t) false)
                         else (h1, c1)) = (h2, c2) /\ hext h h2 /\ (hid c2 = hid c \/ zlen (outer h) <= hid c2)) as (h2 & c2 & E2 & X2 & I2).
  { destruct (0 <? t).
    - alloc_case E. destruct (alloc_outer_ext _ _ _ _ E) as (X & Y & Z). eexists _, _. split; [reflexivity|].
      split; [eapply hext_trans; eauto|]. right. cbn [hid]. destruct X1 as (L & _). lia.
    - eexists _, _. split; [reflexivity|]. auto. }
  rewrite E2. destruct (0 <? b).
  - destruct (hid c2 =? hid c) eqn:Eq.
    + alloc_case E. intros [= <- <-]. destruct (alloc_outer_ext _ _ _ _ E) as (X & _). eapply hext_trans; eauto.
    + intros [= <- <-]. destruct I2 as [I2|I2]; [lia|]. apply append_outer_ext; [|exact I2].
      eapply hext_trans; [exact X2|apply hext_push_inner].
  - intros [= <- <-]. exact X2.
Qed.

Lemma h_wrap_all_ext vs : forall h h' cs, h_wrap_all h vs = Ok (h', cs) -> hext h h'.
Proof.
  induction vs as [|v vs IH]; intros h h' cs; cbn [h_wrap_all]; [intros [= <- <-]; apply hext_refl|].
  destruct (h_wrap h v) as [[h1 c]|e] eqn:E; [|discriminate]. destruct (h_wrap_all h1 vs) as [[h2 cs']|e] eqn:E2; [|discriminate].
  intros [= <- <-]. eapply hext_trans; [apply (h_wrap_ext _ _ _ _ E)|eapply IH; eauto].
Qed.

Lemma alloc_res_ext hx p co fl h' c :
  (let '(h2, id) := alloc_outer hx p in @Ok (heap * hcomp) (h2, HC id co fl)) = Ok (h', c) -> hext hx h'.
Proof. destruct (alloc_outer hx p) as [h2 id] eqn:E. intros [= <- <-]. apply (alloc_outer_ext _ _ _ _ E). Qed.

Lemma h_combine_ext h vs h' c : h_combine h vs = Ok (h', c) -> hext h h'.
Proof.
  unfold h_combine. destruct (canvas_combine (map (to_value h) vs)); [|discriminate].
  destruct (h_wrap_all h vs) as [[h1 cs]|e] eqn:E; intros H; apply alloc_res_ext in H; [|exact H].
  eapply hext_trans; [eapply h_wrap_all_ext; eauto|exact H].
Qed.

Lemma h_overlay_ext h tv bv l t h' c : h_overlay h tv bv l t = Ok (h', c) -> hext h h'.
Proof.
  unfold h_overlay. destruct (canvas_overlay (to_value h tv) (to_value h bv) l t); [|discriminate]. cbn zeta.
  destruct (h_wrap h bv) as [[h1 b]|e] eqn:E; [|intros H; apply alloc_res_ext in H; exact H].
  destruct tv as [? ?|o]; [intros H; apply alloc_res_ext in H; exact H|].
  destruct (if t =? 0 then Ok (deref h1 (hid b)) else shards_trim_top (deref h1 (hid b)) t) as [side1|e];
    [|intros H; apply alloc_res_ext in H; exact H].
  destruct (if t =? 0 then Ok [] else shards_trim_rows (deref h1 (hid b)) t) as [tops|e]; [|intros H; apply alloc_res_ext in H; exact H].
  destruct (if _ =? 0 then Ok [] else shards_trim_top side1 _) as [bots|e]; [|intros H; apply alloc_res_ext in H; exact H].
  intros H; apply alloc_res_ext in H. eapply hext_trans; [apply (h_wrap_ext _ _ _ _ E)|exact H].
Qed.

Lemma h_join_go_ext l maxrow : forall h h', h_join_go h l maxrow = Ok h' -> hext h h'.
Proof.
  induction l as [|[v cols] l IH]; intros h h'; cbn [h_join_go]; [intros [= <-]; apply hext_refl|].
  destruct (vrows (to_value h v)) as [rows|e]; [|discriminate]. destruct (vcols (to_value h v)) as [vc|e]; [|discriminate].
  destruct (h_wrap h v) as [[h0 c0]|e] eqn:E0; [|discriminate].
  destruct (if cols - vc =? 0 then Ok (h0, c0) else h_pad_trim_left_right h0 c0 0 (cols - vc)) as [[h1 c1]|e] eqn:E1; [|discriminate].
  destruct (if rows <? maxrow then h_pad_trim_top_bottom h1 c1 0 (maxrow - rows) else Ok (h1, c1)) as [[h2 c2]|e] eqn:E2; [|discriminate].
  intros G. eapply hext_trans; [apply (h_wrap_ext _ _ _ _ E0)|]. eapply hext_trans; [|eapply IH; eauto].
  eapply hext_trans.
  - destruct (cols - vc =? 0); [injection E1 as <- <-; apply hext_refl|eapply h_pad_lr_ext; eauto].
  - destruct (rows <? maxrow); [eapply h_pad_tb_ext; eauto|injection E2 as <- <-; apply hext_refl].
Qed.

Lemma h_join_ext h l h' c : h_join h l = Ok (h', c) -> hext h h'.
Proof.
  unfold h_join. destruct (canvas_join _); [|discriminate]. cbn zeta. intros H. apply alloc_res_ext in H.
  destruct (h_join_go h l _) as [h1|e] eqn:E; [|exact H]. eapply hext_trans; [eapply h_join_go_ext; eauto|exact H].
Qed.

Lemma on_hcomp_ext st f st' :
  (forall h c h' c', f h c = Ok (h', c') -> hext h h') ->
  on_hcomp st f = Ok st' -> hext (hheap st) (hheap st') /\ henv st' = henv st.
Proof.
  intros Hf. unfold on_hcomp. destruct (hstack st) as [|[? ?|c] rest]; try discriminate.
  destruct (f (hheap st) c) as [[h' c']|e] eqn:E; [|discriminate]. intros [= <-]. cbn [hheap henv]. split; [eapply Hf; eauto|reflexivity].
Qed.

(* one instruction: the heap is extended, the environment only grows *)
Theorem hstep_frame leaves st i st' :
  hstep leaves st i = Ok st' ->
  hext (hheap st) (hheap st') /\ (henv st' = henv st \/ exists v, henv st' = henv st ++ [v]).
Proof.
  destruct i; cbn [hstep].
  - destruct (nthz leaves (i - 1)) as [[c cu]|]; [|discriminate]. intros [= <-]. cbn. split; [apply hext_refl|now left].
  - destruct (nthz (henv st) k); [|discriminate]. intros [= <-]. cbn. split; [apply hext_refl|now left].
  - destruct (hstack st) as [|v rest]; [discriminate|]. destruct (h_wrap (hheap st) v) as [[h' c]|e] eqn:E; [|discriminate].
    intros [= <-]. cbn. split; [apply (h_wrap_ext _ _ _ _ E)|now left].
  - destruct (pop_n n (hstack st)) as [[vs rest]|e]; [|discriminate]. destruct (h_combine (hheap st) vs) as [[h' c]|e] eqn:E; [|discriminate].
    intros [= <-]. cbn. split; [eapply h_combine_ext; eauto|now left].
  - destruct (pop_n (zlen cols) (hstack st)) as [[vs rest]|e]; [|discriminate].
    destruct (h_join (hheap st) (combine vs cols)) as [[h' c]|e] eqn:E; [|discriminate].
    intros [= <-]. cbn. split; [eapply h_join_ext; eauto|now left].
  - destruct (hstack st) as [|tv [|bv rest]]; try discriminate. destruct (h_overlay (hheap st) tv bv left top) as [[h' c]|e] eqn:E; [|discriminate].
    intros [= <-]. cbn. split; [eapply h_overlay_ext; eauto|now left].
  - intros H. destruct (on_hcomp_ext _ _ _ (fun h c h' c' => h_pad_lr_ext h c l r h' c') H) as [X Y]. auto.
  - intros H. destruct (on_hcomp_ext _ _ _ (fun h c h' c' => h_pad_tb_ext h c t b h' c') H) as [X Y]. auto.
  - intros H. destruct (on_hcomp_ext _ _ _ (fun h c h' c' E => proj1 (h_trim_ext h c top count h' c' E)) H) as [X Y]. auto.
  - intros H. destruct (on_hcomp_ext _ _ _ (fun h c h' c' => h_trim_end_ext h c e h' c') H) as [X Y]. auto.
  - intros H. destruct (on_hcomp_ext _ _ _ (fun h c h' c' => h_fill_ext h c (dict_of_list m) h' c') H) as [X Y]. auto.
  - intros H. destruct (on_hcomp_ext _ _ _ (fun h c0 h' c' => h_same_ext h c0 _ h' c') H) as [X Y]. auto.
  - intros H. destruct (on_hcomp_ext _ _ _ (fun h c0 h' c' => h_same_ext h c0 _ h' c') H) as [X Y]. auto.
  - intros H. destruct (on_hcomp_ext _ _ _ (fun h c0 h' c' => h_same_ext h c0 _ h' c') H) as [X Y]. auto.
  - destruct (hstack st) as [|v rest]; [discriminate|]. intros [= <-]. cbn. split; [apply hext_refl|right; eauto].
  - destruct (nthz (henv st) i), (nthz (henv st) j); try discriminate. intros [= <-]. cbn. split; [apply hext_refl|now left].
Qed.
