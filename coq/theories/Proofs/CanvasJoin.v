(* C02: shards_join.  Every joined canvas is followed by a cursor into its own well-formed
   run (current shard, rows already consumed, flagged body, rest); the joined slot list is
   the concatenation of the cursors' contributions and the joined body the concatenation of
   the bodies, so each band of the result is the row-wise concatenation of the bands. *)
From Coq Require Import ZArith List Bool Lia ZifyBool.
From Urwid Require Import PyBase Canvas CanvasGrid CanvasFacts CanvasAbs CanvasVert CanvasHoriz.
Import ListNotations.
Open Scope Z_scope.
Arguments Z.add : simpl never.
Arguments Z.sub : simpl never.
Arguments Z.mul : simpl never.
Arguments Z.ltb : simpl never.
Arguments Z.leb : simpl never.
Arguments Z.eqb : simpl never.
Arguments Z.min : simpl never.
Arguments Z.max : simpl never.
Arguments Z.to_nat : simpl never.
Arguments Z.of_nat : simpl never.

(* ------------------------------------------------------------------ row-wise concatenation *)
Lemma hcat2_length a b : length (hcat2 a b) = Nat.min (length a) (length b).
Proof. unfold hcat2. now rewrite map_length, combine_length. Qed.

Lemma combine_app' {A B} (a1 a2 : list A) (b1 b2 : list B) :
  length a1 = length b1 -> combine (a1 ++ a2) (b1 ++ b2) = combine a1 b1 ++ combine a2 b2.
Proof.
  revert b1; induction a1 as [|x a1 IH]; intros [|y b1] H; cbn [length] in H; try discriminate; cbn [app combine]; [reflexivity|].
  f_equal. apply IH. lia.
Qed.
Lemma hcat2_app a1 a2 b1 b2 : length a1 = length b1 -> hcat2 (a1 ++ a2) (b1 ++ b2) = hcat2 a1 b1 ++ hcat2 a2 b2.
Proof. intros H. unfold hcat2. now rewrite combine_app', map_app. Qed.

Lemma arows_length body k m : length (arows body k m) = m.
Proof. revert k; induction m; intros k; cbn [arows length]; [reflexivity|]. now rewrite IHm. Qed.

Lemma arows_hcat2 b1 b2 k m : arows (b1 ++ b2) k m = hcat2 (arows b1 k m) (arows b2 k m).
Proof.
  revert k; induction m as [|m IH]; intros k; cbn [arows]; [reflexivity|].
  unfold hcat2 in *. cbn [combine map fst snd]. rewrite IH, arow_app. reflexivity.
Qed.

Lemma g_hcat_cons2 g g' gs : g_hcat (g :: g' :: gs) = hcat2 g (g_hcat (g' :: gs)).
Proof. reflexivity. Qed.

Lemma g_hcat_length m gs : gs <> [] -> Forall (fun g : grid => length g = m) gs -> length (g_hcat gs) = m.
Proof.
  induction gs as [|g gs IH]; [congruence|]. intros _ F. inversion F; subst. destruct gs as [|g' gs'].
  - reflexivity.
  - rewrite g_hcat_cons2, hcat2_length, IH; [lia|discriminate|assumption].
Qed.

(* arows of concatenated bodies *)
Lemma arows_concat bodies k m :
  bodies <> [] -> arows (concat bodies) k m = g_hcat (map (fun b => arows b k m) bodies).
Proof.
  induction bodies as [|b bodies IH]; [congruence|]. intros _. destruct bodies as [|b' bodies'].
  - cbn [concat map g_hcat]. now rewrite app_nil_r.
  - cbn [concat] in *. rewrite arows_hcat2. cbn [map]. rewrite g_hcat_cons2. f_equal. apply IH. discriminate.
Qed.

(* hcat distributes over vertical append when the upper parts have the same height *)
Lemma g_hcat_app m (l : list (grid * grid)) :
  l <> [] -> Forall (fun p : grid * grid => length (fst p) = m) l ->
  g_hcat (map (fun p : grid * grid => fst p ++ snd p) l) = g_hcat (map fst l) ++ g_hcat (map snd l).
Proof.
  induction l as [|p l IH]; [congruence|]. intros _ F. inversion F; subst. destruct l as [|p' l'].
  - reflexivity.
  - cbn [map]. rewrite !g_hcat_cons2. cbn [map] in IH.
    specialize (IH ltac:(discriminate) H2).
    transitivity (hcat2 (fst p ++ snd p) (g_hcat (fst p' :: map fst l') ++ g_hcat (snd p' :: map snd l'))); [f_equal; exact IH|].
    apply hcat2_app. rewrite (g_hcat_length (length (fst p))); [reflexivity|discriminate|].
    apply Forall_forall. intros g Hg. change (fst p' :: map fst l') with (map fst (p' :: l')) in Hg.
    apply in_map_iff in Hg as (q & <- & Hq). rewrite Forall_forall in H2. now apply H2.
Qed.

(* ------------------------------------------------------------------ list_min *)
Lemma fold_min_le l x : fold_left Z.min l x <= x /\ Forall (fun y => fold_left Z.min l x <= y) l.
Proof.
  revert x; induction l as [|y l IH]; intros x; cbn [fold_left]; [split; [lia|constructor]|].
  destruct (IH (Z.min x y)) as [A B]. split; [lia|]. constructor; [lia|assumption].
Qed.
Lemma fold_min_in l x : fold_left Z.min l x = x \/ In (fold_left Z.min l x) l.
Proof.
  revert x; induction l as [|y l IH]; intros x; cbn [fold_left]; [now left|].
  destruct (IH (Z.min x y)) as [A|A]; [|right; now right].
  destruct (Z.min_spec x y) as [[_ E]|[_ E]]; rewrite E in *; [now left|right; left; congruence].
Qed.
Lemma list_min_spec l m : list_min l = Ok m -> Forall (fun y => m <= y) l /\ In m l.
Proof.
  destruct l as [|x l]; [discriminate|]. cbn [list_min]. intros [= <-].
  destruct (fold_min_le l x) as [A B]. split; [constructor; assumption|].
  destruct (fold_min_in l x) as [E|E]; [left; congruence|right; assumption].
Qed.
Lemma list_min_ok l : l <> [] -> exists m, list_min l = Ok m.
Proof. destruct l; [congruence|]. intros _. eexists; reflexivity. Qed.

(* ------------------------------------------------------------------ cursors *)
Record jcur := JC { jk : Z; jn : Z; jfb : fbody; jsl : list slot; jrest : list ashard }.
Definition jbody (c : jcur) : list acv := body_of (jfb c).

Definition jcur_ok (w : Z) (c : jcur) : Prop :=
  Fit (jsl c) 0 (jfb c) /\ 0 <= jk c < jn c /\ Forall acv_ok (jbody c) /\
  Forall (fun a : acv => jn c <= zlen (snd a)) (jbody c) /\ body_width (jbody c) = w /\
  AWF w (jrest c) (slots_after (jn c) (jbody c)).

Definition jcontrib_sl (c : jcur) : list slot :=
  if jk c =? 0 then jsl c else map Busy (map (pdrop (jk c)) (jbody c)).
Definition jcontrib_fb (c : jcur) : fbody :=
  if jk c =? 0 then jfb c else mk_busy (map (pdrop (jk c)) (jbody c)).
Definition jrows (c : jcur) : grid :=
  arows (jbody c) (jk c) (Z.to_nat (jn c - jk c)) ++ acontent_from (jrest c) (slots_after (jn c) (jbody c)).
Definition jrem (c : jcur) : Z := jn c - jk c + ashards_rows (jrest c).

Lemma pdrop_0 a : pdrop 0 a = a.
Proof. destruct a as [w rs]. unfold pdrop; cbn [fst snd]. now rewrite dropz_le0 by lia. Qed.
Lemma map_pdrop_0 l : map (pdrop 0) l = l.
Proof. rewrite map_ext with (g := fun a => a) by apply pdrop_0. apply map_id. Qed.

Lemma jcontrib_body c : body_of (jcontrib_fb c) = map (pdrop (jk c)) (jbody c).
Proof.
  unfold jcontrib_fb. destruct (jk c =? 0) eqn:E.
  - assert (jk c = 0) as -> by lia. now rewrite map_pdrop_0.
  - apply body_of_mk_busy.
Qed.

Lemma jcontrib_fit w c : jcur_ok w c -> Fit (jcontrib_sl c) 0 (jcontrib_fb c).
Proof.
  intros (F & _). unfold jcontrib_sl, jcontrib_fb. destruct (jk c =? 0); [exact F|apply Fit_all_busy].
Qed.

Lemma fits_concat ws curs :
  Forall2 jcur_ok ws curs -> Fit (flat_map jcontrib_sl curs) 0 (flat_map jcontrib_fb curs).
Proof.
  induction 1 as [|w c ws curs H _ IH]; cbn [flat_map]; [constructor|]. apply Fit_app; [eapply jcontrib_fit; eauto|exact IH].
Qed.

Lemma body_of_flat_map curs : body_of (flat_map jcontrib_fb curs) = concat (map (fun c => map (pdrop (jk c)) (jbody c)) curs).
Proof. induction curs as [|c curs IH]; cbn [flat_map map concat]; [reflexivity|]. now rewrite body_of_app, jcontrib_body, IH. Qed.

Definition sumz (l : list Z) : Z := fold_right Z.add 0 l.

Lemma body_width_map_pdrop t l : body_width (map (pdrop t) l) = body_width l.
Proof. apply body_width_map. reflexivity. Qed.

Lemma body_width_concat ws curs :
  Forall2 jcur_ok ws curs -> body_width (concat (map (fun c => map (pdrop (jk c)) (jbody c)) curs)) = sumz ws.
Proof.
  induction 1 as [|w c ws curs H _ IH]; cbn [map concat sumz fold_right]; [reflexivity|].
  rewrite body_width_app, body_width_map_pdrop, IH. destruct H as (_ & _ & _ & _ & -> & _). reflexivity.
Qed.

(* one band of [num] rows *)
Definition jadv (num : Z) (c : jcur) : option jcur :=
  if jk c + num <? jn c then Some (JC (jk c + num) (jn c) (jfb c) (jsl c) (jrest c))
  else
    match jrest c with
    | [] => None
    | (n', cvs') :: rest' =>
        match ffill (slots_after (jn c) (jbody c)) cvs' 0 with
        | Ok fb' => Some (JC 0 n' fb' (slots_after (jn c) (jbody c)) rest')
        | Err _ => None
        end
    end.

Lemma slots_after_busy_pdrop num t body :
  0 <= t -> 0 < num -> Forall (fun a : acv => t + num < zlen (snd a)) body ->
  slots_after num (map (pdrop t) body) = map Busy (map (pdrop (t + num)) body).
Proof.
  intros Ht Hn F. unfold slots_after. rewrite !map_map. apply map_ext_in. intros a Ha.
  rewrite Forall_forall in F. specialize (F _ Ha). unfold slot_after. cbn [pdrop fst snd].
  rewrite zlen_dropz_le by lia. destruct (num =? zlen (snd a) - t) eqn:E; [lia|].
  rewrite dropz_dropz by lia. unfold pdrop. do 3 f_equal. lia.
Qed.

Lemma slots_after_pdrop_finish num t n body :
  0 <= t -> t + num = n -> 0 < num -> Forall (fun a : acv => n <= zlen (snd a)) body ->
  slots_after num (map (pdrop t) body) = slots_after n body.
Proof.
  intros Ht En Hn F. unfold slots_after. rewrite map_map. apply map_ext_in. intros a Ha.
  rewrite Forall_forall in F. specialize (F _ Ha). replace num with (n - t) by lia.
  destruct (Z.eq_dec t 0) as [->|Hne].
  - rewrite pdrop_0. f_equal. lia.
  - apply slot_after_pdrop; lia.
Qed.

Lemma AWF_rows_zero w ss sl : AWF w ss sl -> ashards_rows ss <= 0 -> ss = [].
Proof.
  destruct ss as [|[n cvs] ss]; [reflexivity|]. intros A H. exfalso. cbn [AWF] in A.
  destruct A as (Hn & _ & body & _ & _ & _ & _ & Hr). cbn [ashards_rows fold_right fst] in H. fold (ashards_rows ss) in H.
  pose proof (AWF_len _ _ _ Hr). pose proof (zlen_nonneg (acontent_from ss (slots_after n body))). lia.
Qed.

Lemma arows_pdrop_shift t body k m : 0 <= t -> 0 <= k -> arows (map (pdrop t) body) k m = arows body (t + k) m.
Proof. intros. apply arows_shift. intros j Hj. apply arow_pdrop; lia. Qed.

Lemma jadv_ok w num c :
  jcur_ok w c -> 0 < num <= jn c - jk c -> 0 < jrem c - num ->
  exists c2, jadv num c = Some c2 /\ jcur_ok w c2 /\ jrem c2 = jrem c - num /\
             jcontrib_sl c2 = slots_after num (map (pdrop (jk c)) (jbody c)) /\
             jrows c = arows (map (pdrop (jk c)) (jbody c)) 0 (Z.to_nat num) ++ jrows c2 /\
             (length (jrest c2) <= length (jrest c))%nat /\
             (jn c - jk c <= num -> (length (jrest c2) < length (jrest c))%nat) /\
             ((jk c + num < jn c /\ c2 = JC (jk c + num) (jn c) (jfb c) (jsl c) (jrest c)) \/
              (jk c + num = jn c /\ exists n' cvs' rest', jrest c = (n', cvs') :: rest' /\ jk c2 = 0 /\ jn c2 = n' /\
                                                        fresh_of (jfb c2) = cvs' /\ jrest c2 = rest')).
Proof.
  intros (F & Hk & Fo & Fn & Hw & Hr) Hnum Hrem. unfold jadv, jrem in *.
  destruct (jk c + num <? jn c) eqn:E.
  - (* the current shard continues *)
    eexists; split; [reflexivity|]. unfold jcur_ok, jrem, jcontrib_sl, jrows, jbody. cbn [jk jn jfb jsl jrest].
    fold (jbody c). split; [repeat split; try assumption; lia|]. split; [lia|]. split.
    + destruct (jk c + num =? 0) eqn:E0; [lia|]. symmetry. apply slots_after_busy_pdrop; [lia|lia|].
      eapply Forall_impl; [|exact Fn]. cbn beta. intros; lia.
    + split; [|split; [lia|split; [lia|left; split; [lia|reflexivity]]]]. rewrite app_assoc. f_equal. rewrite arows_pdrop_shift by lia. rewrite Z.add_0_r.
      replace (Z.to_nat (jn c - jk c)) with (Z.to_nat num + Z.to_nat (jn c - (jk c + num)))%nat by lia.
      rewrite arows_app. do 2 f_equal. lia.
  - (* the shard ends: the next one starts *)
    assert (jk c + num = jn c) as En by lia.
    destruct (jrest c) as [|[n' cvs'] rest'] eqn:Er.
    { cbn [ashards_rows fold_right] in Hrem. lia. }
    pose proof (slots_after_width (jn c) _ Fo) as S'. rewrite Hw in S'.
    destruct (AWF_step _ _ _ _ _ Hr S') as (fb' & F' & Efr' & Ef' & Hn' & Fo' & Fn' & Hw' & Hr' & _).
    rewrite <- Efr'. rewrite (Fit_ffill _ _ _ F').
    eexists; split; [reflexivity|]. unfold jcur_ok, jrem, jcontrib_sl, jrows, jbody. cbn [jk jn jfb jsl jrest].
    fold (jbody c). split; [repeat split; try assumption; lia|]. split.
    + cbn [ashards_rows fold_right fst]. fold (ashards_rows rest'). lia.
    + split; [replace (0 =? 0) with true by lia; symmetry; apply slots_after_pdrop_finish; try assumption; lia|].
      split; [|cbn [length]; split; [lia|split; [lia|right; split; [lia|]; exists n', cvs', rest'; cbn [jk jn jfb jrest]; rewrite ?Efr'; auto]]].
      rewrite Er. rewrite (acontent_step _ _ _ _ _ Ef'). rewrite Z.sub_0_r. rewrite arows_pdrop_shift by lia. rewrite Z.add_0_r.
      replace (jn c - jk c) with num by lia. reflexivity.
Qed.

(* ------------------------------------------------------------------ the concrete loop state *)
Definition jst_rel (st : join_st) (c : jcur) : Prop :=
  fst (fst st) = jn c - jk c /\
  map abs_cv (snd (fst st)) = (if jk c =? 0 then fresh_of (jfb c) else []) /\
  map abs_sh (snd st) = jrest c /\ Forall cview_ok (snd (fst st)) /\ shards_ok (snd st).

Definition adv_facts (num : Z) (c c2 : jcur) : Prop :=
  jrem c2 = jrem c - num /\
  jcontrib_sl c2 = slots_after num (map (pdrop (jk c)) (jbody c)) /\
  jrows c = arows (map (pdrop (jk c)) (jbody c)) 0 (Z.to_nat num) ++ jrows c2 /\
  (length (jrest c2) <= length (jrest c))%nat /\
  (jn c - jk c <= num -> (length (jrest c2) < length (jrest c))%nat).

Lemma advance_rel num : forall sts curs ws,
  Forall2 jst_rel sts curs -> Forall2 jcur_ok ws curs ->
  Forall (fun c => 0 < num <= jn c - jk c /\ 0 < jrem c - num) curs ->
  exists sts2 curs2,
    join_advance (map (fun s : join_st => (fst (fst s) - num, @nil cview, snd s)) sts) = Some sts2 /\
    Forall2 jst_rel sts2 curs2 /\ Forall2 jcur_ok ws curs2 /\ Forall2 (adv_facts num) curs curs2.
Proof.
  induction sts as [|[[r cvs] rest] sts IH]; intros curs ws R O F; inversion R; subst.
  - inversion O; subst. exists [], []. repeat split; constructor.
  - rename y into c. rename l' into curs'. inversion O as [|w c0 ws' curs0 Oc Os]; subst. inversion F as [|c0 curs0 Fc Fs]; subst.
    destruct (IH _ _ H3 Os Fs) as (sts2 & curs2 & E2 & R2 & O2 & A2).
    destruct Fc as [Hnum Hrem].
    destruct (jadv_ok _ _ _ Oc Hnum Hrem) as (c2 & _ & Oc2 & Erem & Esl & Erows & Hlen & Hlt & Hcase).
    destruct H1 as (Hr & Hcv & Hrest & Fcv & Srest). cbn [fst snd] in *. pose proof Oc as (_ & Hkc & _).
    cbn [map join_advance fst snd]. rewrite E2.
    destruct Hcase as [[Hlt' ->]|(Heq & n' & cvs' & rest' & Er & Ek2 & En2 & Efr2 & Er2)].
    + destruct (0 <? r - num) eqn:E; [|lia].
      exists ((r - num, [], rest) :: sts2), (JC (jk c + num) (jn c) (jfb c) (jsl c) (jrest c) :: curs2).
      split; [reflexivity|]. split; [|split; [constructor; assumption|constructor; [|assumption]]].
      * constructor; [|assumption]. unfold jst_rel. cbn [fst snd jk jn jfb jrest map].
        destruct (jk c + num =? 0) eqn:E0; [lia|]. repeat split; try assumption; try constructor. lia.
      * unfold adv_facts. auto.
    + destruct (0 <? r - num) eqn:E; [lia|].
      rewrite Er in Hrest. destruct rest as [|[rn rcvs] rest0]; [discriminate|]. cbn [map abs_sh fst snd] in Hrest.
      injection Hrest as Hn Hc Hr0. inversion Srest; subst. cbn [snd] in *.
      exists ((jn c2, rcvs, rest0) :: sts2), (c2 :: curs2).
      split; [reflexivity|]. split; [|split; [constructor; assumption|constructor; [|assumption]]].
      * constructor; [|assumption]. unfold jst_rel. cbn [fst snd]. rewrite Ek2, Efr2, Er2.
        replace (0 =? 0) with true by lia. repeat split; try assumption. lia.
      * unfold adv_facts. auto.
Qed.

Definition jsum (curs : list jcur) : nat := fold_right (fun c acc => (length (jrest c) + acc)%nat) O curs.

Lemma jsum_adv num curs curs2 :
  Forall2 (adv_facts num) curs curs2 ->
  (jsum curs2 <= jsum curs)%nat /\ (Exists (fun c => jn c - jk c <= num) curs -> (jsum curs2 < jsum curs)%nat).
Proof.
  induction 1 as [|c c2 curs curs2 (_ & _ & _ & Hle & Hlt) _ [IH1 IH2]]; cbn [jsum fold_right].
  - split; [lia|]. intros H; inversion H.
  - fold (jsum curs) (jsum curs2). split; [lia|]. intros Ex. inversion Ex; subst; [specialize (Hlt H0); lia|specialize (IH2 H0); lia].
Qed.

Lemma fresh_concat sts curs :
  Forall2 jst_rel sts curs ->
  map abs_cv (flat_map (fun s : Z * list cview * shards => snd (fst s)) sts) = fresh_of (flat_map jcontrib_fb curs).
Proof.
  induction 1 as [|st c sts curs (_ & Hcv & _) _ IH]; cbn [flat_map]; [reflexivity|].
  rewrite map_app, fresh_of_app, IH. f_equal. rewrite Hcv. unfold jcontrib_fb.
  destruct (jk c =? 0); [reflexivity|now rewrite fresh_of_mk_busy].
Qed.

Lemma slots_after_concat num (bodies : list (list acv)) :
  slots_after num (concat bodies) = flat_map (slots_after num) bodies.
Proof. unfold slots_after. induction bodies as [|b bs IH]; cbn [concat flat_map map]; [reflexivity|]. now rewrite map_app, IH. Qed.

Lemma flat_map_map' {A B C} (f : A -> B) (g : B -> list C) l : flat_map g (map f l) = flat_map (fun x => g (f x)) l.
Proof. induction l as [|x l IH]; cbn [map flat_map]; [reflexivity|]. now rewrite IH. Qed.

Lemma abs_sh_cons n cvs s : map abs_sh ((n, cvs) :: s) = (n, map abs_cv cvs) :: map abs_sh s.
Proof. reflexivity. Qed.

(* the loop *)
Lemma join_loop_correct : forall fuel sts curs ws R,
  Forall2 jst_rel sts curs -> Forall2 jcur_ok ws curs -> Forall (fun c => jrem c = R) curs ->
  curs <> [] -> (jsum curs < fuel)%nat ->
  exists s, join_loop fuel sts = Ok s /\ s <> [] /\ shards_ok s /\
            AWF (sumz ws) (map abs_sh s) (flat_map jcontrib_sl curs) /\
            acontent_from (map abs_sh s) (flat_map jcontrib_sl curs) = g_hcat (map jrows curs).
Proof.
  induction fuel as [|fuel IH]; intros sts curs ws R Rel Oks Rems Hne Hfuel; [lia|].
  cbn [join_loop].
  assert (map (fun s : Z * list cview * shards => fst (fst s)) sts = map (fun c => jn c - jk c) curs) as Ers.
  { clear - Rel. induction Rel as [|st c sts curs (H & _) _ IHr]; cbn [map]; [reflexivity|]. now rewrite H, IHr. }
  rewrite Ers.
  destruct (list_min_ok (map (fun c => jn c - jk c) curs)) as [num Emin]; [destruct curs; [congruence|discriminate]|].
  rewrite Emin. destruct (list_min_spec _ _ Emin) as [Hall Hin].
  assert (Forall (fun c => num <= jn c - jk c) curs) as Hle.
  { apply Forall_forall. intros c Hc. rewrite Forall_forall in Hall. apply Hall. apply in_map_iff. eauto. }
  apply in_map_iff in Hin as (cm & Ecm & Hcm).
  assert (Forall (fun c => 0 <= jk c < jn c) curs) as Hks.
  { clear - Oks. induction Oks as [|w c ws curs (_ & H & _) _ IHo]; constructor; assumption. }
  assert (0 < num) as Hnum by (rewrite Forall_forall in Hks; specialize (Hks _ Hcm); lia).
  set (FB := flat_map jcontrib_fb curs).
  set (bodies := map (fun c => map (pdrop (jk c)) (jbody c)) curs).
  assert (body_of FB = concat bodies) as EFB by apply body_of_flat_map.
  assert (Fit (flat_map jcontrib_sl curs) 0 FB) as FitFB by (eapply fits_concat; eauto).
  assert (Forall acv_ok (body_of FB)) as FoFB.
  { rewrite EFB. apply Forall_concat. subst bodies. apply Forall_forall. intros b Hb. apply in_map_iff in Hb as (c & <- & Hc).
    assert (Forall acv_ok (jbody c)) as Fc.
    { clear - Oks Hc. induction Oks as [|w c0 ws curs (_ & _ & H & _) _ IHo]; [destruct Hc|]. destruct Hc as [<-|Hc]; auto. }
    apply Forall_forall. intros a Ha. apply in_map_iff in Ha as (a0 & <- & Ha0). apply pdrop_ok. rewrite Forall_forall in Fc; auto. }
  assert (Forall (fun a : acv => num <= zlen (snd a)) (body_of FB)) as FnFB.
  { rewrite EFB. apply Forall_concat. subst bodies. apply Forall_forall. intros b Hb. apply in_map_iff in Hb as (c & <- & Hc).
    assert (0 <= jk c < jn c /\ Forall (fun a : acv => jn c <= zlen (snd a)) (jbody c)) as [Hkc Fc].
    { clear - Oks Hc. induction Oks as [|w c0 ws curs (_ & H1 & _ & H2 & _) _ IHo]; [destruct Hc|]. destruct Hc as [<-|Hc]; auto. }
    rewrite Forall_forall in Hle. specialize (Hle _ Hc).
    apply Forall_forall. intros a Ha. apply in_map_iff in Ha as (a0 & <- & Ha0). cbn [pdrop snd].
    rewrite Forall_forall in Fc. specialize (Fc _ Ha0). rewrite zlen_dropz_le by lia. lia. }
  assert (body_width (body_of FB) = sumz ws) as HwFB by (rewrite EFB; subst bodies; now apply body_width_concat).
  assert (Forall cview_ok (flat_map (fun s : Z * list cview * shards => snd (fst s)) sts)) as Fnew.
  { clear - Rel. induction Rel as [|st c sts curs (_ & _ & _ & H & _) _ IHr]; cbn [flat_map]; [constructor|]. apply Forall_app; auto. }
  assert (arows (body_of FB) 0 (Z.to_nat num) = g_hcat (map (fun c => arows (map (pdrop (jk c)) (jbody c)) 0 (Z.to_nat num)) curs)) as Erows.
  { rewrite EFB. subst bodies. rewrite arows_concat by (destruct curs; [congruence|discriminate]). now rewrite map_map. }
  destruct (Z.eq_dec R num) as [ER|ER].
  - (* last band *)
    assert (Forall (fun c => jn c - jk c = num /\ jrest c = []) curs) as Hfin.
    { apply Forall_forall. intros c Hc. rewrite Forall_forall in Rems, Hle. specialize (Rems _ Hc). specialize (Hle _ Hc). unfold jrem in Rems.
      assert (AWF_c : exists w, jcur_ok w c).
      { clear - Oks Hc. induction Oks as [|w c0 ws curs H _ IHo]; [destruct Hc|]. destruct Hc as [<-|Hc]; eauto. }
      destruct AWF_c as (w & _ & _ & _ & _ & _ & Hr).
      assert (0 <= ashards_rows (jrest c)) by (rewrite <- (AWF_len _ _ _ Hr); apply zlen_nonneg).
      split; [lia|]. eapply AWF_rows_zero; [exact Hr|lia]. }
    assert (join_advance (map (fun s : join_st => (fst (fst s) - num, @nil cview, snd s)) sts) = None) as ->.
    { destruct Rel as [|[[r cvs] rest] c sts curs (Hr & _ & Hrest & _) _]; [congruence|]. cbn [map join_advance fst snd] in *.
      inversion Hfin as [|c' curs' [Hf1 Hf2] Hf3]; subst. rewrite Hf2 in Hrest. destruct rest; [|discriminate].
      match goal with |- (if ?b then _ else _) = _ => destruct b eqn:E end; [lia|reflexivity]. }
    eexists; split; [reflexivity|]. split; [discriminate|]. split; [constructor; [assumption|constructor]|].
    rewrite abs_sh_cons. rewrite (fresh_concat _ _ Rel). fold FB.
    assert (closed (slots_after num (body_of FB))) as Cl.
    { rewrite EFB, slots_after_concat. subst bodies. rewrite flat_map_map'. apply closed_iff. apply Forall_flat_map.
      apply Forall_forall. intros c Hc. rewrite Forall_forall in Hfin. destruct (Hfin _ Hc) as [Hf1 Hf2].
      assert (0 <= jk c < jn c /\ Forall (fun a : acv => jn c <= zlen (snd a)) (jbody c) /\ closed (slots_after (jn c) (jbody c))) as (Hkc & Fc & Clc).
      { clear - Oks Hc Hf2. induction Oks as [|w c0 ws curs (_ & H1 & _ & H2 & _ & H3) _ IHo]; [destruct Hc|].
        destruct Hc as [<-|Hc]; [|auto]. rewrite Hf2 in H3. cbn [AWF] in H3. auto. }
      rewrite (slots_after_pdrop_finish num (jk c) (jn c)) by (try assumption; lia). now apply closed_iff. }
    split.
    + apply AWF_build; try assumption.
    + rewrite (acontent_step _ _ _ _ (body_of FB)) by now apply Fit_fill. cbn [acontent_from]. rewrite app_nil_r, Erows. f_equal.
      apply map_ext_in. intros c Hc. rewrite Forall_forall in Hfin, Hks. destruct (Hfin _ Hc) as [Hf1 Hf2]. specialize (Hks _ Hc).
      unfold jrows. rewrite Hf2. cbn [acontent_from]. rewrite app_nil_r, Hf1. rewrite arows_pdrop_shift by lia. f_equal. lia.
  - (* a band followed by more *)
    assert (Forall (fun c => 0 < num <= jn c - jk c /\ 0 < jrem c - num) curs) as Hadv.
    { apply Forall_forall. intros c Hc. rewrite Forall_forall in Rems, Hle. specialize (Rems _ Hc). specialize (Hle _ Hc).
      split; [lia|]. rewrite Rems.
      assert (num <= R); [|lia]. rewrite <- Rems. unfold jrem.
      assert (AWF_c : exists w, jcur_ok w c).
      { clear - Oks Hc. induction Oks as [|w c0 ws curs H _ IHo]; [destruct Hc|]. destruct Hc as [<-|Hc]; eauto. }
      destruct AWF_c as (w & _ & _ & _ & _ & _ & Hr).
      assert (0 <= ashards_rows (jrest c)) by (rewrite <- (AWF_len _ _ _ Hr); apply zlen_nonneg). lia. }
    destruct (advance_rel num _ _ _ Rel Oks Hadv) as (sts2 & curs2 & -> & Rel2 & Oks2 & Adv).
    destruct (jsum_adv _ _ _ Adv) as [Hs1 Hs2].
    assert (jsum curs2 < jsum curs)%nat as Hlt by (apply Hs2; apply Exists_exists; exists cm; split; [assumption|lia]).
    destruct (IH sts2 curs2 ws (R - num) Rel2 Oks2) as (s & Es & Hs & Ss & As & Cs).
    { clear - Adv Rems. revert Rems. induction Adv as [|c c2 curs curs2 (H & _) _ IHa]; intros Rems; constructor; inversion Rems; subst; auto. }
    { inversion Adv; subst; [congruence|discriminate]. }
    { lia. }
    rewrite Es. eexists; split; [reflexivity|]. split; [discriminate|]. split; [constructor; assumption|].
    rewrite abs_sh_cons. rewrite (fresh_concat _ _ Rel). fold FB.
    assert (slots_after num (body_of FB) = flat_map jcontrib_sl curs2) as Esl.
    { rewrite EFB, slots_after_concat. subst bodies. rewrite flat_map_map'.
      clear - Adv. induction Adv as [|c c2 curs curs2 (_ & H & _) _ IHa]; cbn [flat_map]; [reflexivity|]. now rewrite H, IHa. }
    split.
    + apply AWF_build; try assumption. rewrite Esl. exact As.
    + rewrite (acontent_step _ _ _ _ (body_of FB)) by now apply Fit_fill. rewrite Esl, Cs, Erows.
      set (pairs := map (fun cc : jcur * jcur => (arows (map (pdrop (jk (fst cc))) (jbody (fst cc))) 0 (Z.to_nat num), jrows (snd cc))) (combine curs curs2)).
      assert (map jrows curs = map (fun p : grid * grid => fst p ++ snd p) pairs /\
              map (fun c => arows (map (pdrop (jk c)) (jbody c)) 0 (Z.to_nat num)) curs = map fst pairs /\
              map jrows curs2 = map snd pairs) as (P1 & P2 & P3).
      { subst pairs. clear - Adv. induction Adv as [|c c2 curs curs2 (_ & _ & H & _) _ (I1 & I2 & I3)]; cbn [combine map fst snd]; [auto|].
        rewrite I1, I2, I3, H. auto. }
      rewrite P1, P2, P3. symmetry. apply (g_hcat_app (Z.to_nat num)).
      * subst pairs. destruct curs; [congruence|]. inversion Adv; subst. discriminate.
      * subst pairs. apply Forall_forall. intros p Hp. apply in_map_iff in Hp as (cc & <- & _). cbn [fst]. apply arows_length.
Qed.

(* ------------------------------------------------------------------ shards_join *)
Definition init_cur (s : shard) (rest : shards) : jcur :=
  JC 0 (fst s) (mk_fresh (map abs_cv (snd s))) [Free (cviews_cols (snd s))] (map abs_sh rest).

Lemma init_cur_ok n cvs rest :
  WF ((n, cvs) :: rest) ->
  jcur_ok (cviews_cols cvs) (init_cur (n, cvs) rest) /\ jst_rel (n, cvs, rest) (init_cur (n, cvs) rest) /\
  jrem (init_cur (n, cvs) rest) = shards_rows ((n, cvs) :: rest) /\
  content ((n, cvs) :: rest) = Ok (jrows (init_cur (n, cvs) rest)) /\ 0 < cviews_cols cvs.
Proof.
  intros W. destruct (WF_elim _ W) as (Hc & S & A & C). cbn [shards_cols] in *.
  pose proof A as A0. cbn [map abs_sh fst snd AWF fill] in A. destruct A as (Hn & Fa & body & [= <-] & Fo & Fn & Hw & Hr).
  rewrite body_width_abs_cv in Hw. inversion S; subst. cbn [snd] in *.
  unfold init_cur, jcur_ok, jst_rel, jrem, jrows, jbody. cbn [jk jn jfb jsl jrest fst snd]. rewrite body_of_mk_fresh.
  split; [|split; [|split; [|split]]].
  - split.
    + apply fit_free; [lia|lia|]. rewrite <- (app_nil_r (mk_fresh (map abs_cv cvs))).
      replace (0 + cviews_cols cvs) with (0 + body_width (map abs_cv cvs)) by (rewrite body_width_abs_cv; lia).
      apply Fit_fresh_prefix; [|constructor]. eapply Forall_impl; [|exact Fo]. intros a [? _]; assumption.
    + repeat split; try assumption; try lia. now rewrite body_width_abs_cv.
  - replace (0 =? 0) with true by lia. rewrite fresh_of_mk_fresh. repeat split; try assumption. lia.
  - rewrite shards_rows_abs. cbn [shards_rows fold_right fst]. fold (shards_rows rest). lia.
  - rewrite C. cbn [map abs_sh fst snd acontent_from fill]. now rewrite Z.sub_0_r.
  - assumption.
Qed.

Lemma join_init_ok sls :
  Forall WF sls ->
  exists sts, join_init sls = Ok sts /\
              Forall2 (fun s st => exists n cvs rest, s = (n, cvs) :: rest /\ st = (n, cvs, rest)) sls sts.
Proof.
  induction 1 as [|s sls W _ (sts & E & F)]; [exists []; split; [reflexivity|constructor]|].
  destruct s as [|[n cvs] rest]; [destruct (WF_elim _ W) as (Hc & _); cbn in Hc; lia|].
  cbn [join_init]. rewrite E. eexists; split; [reflexivity|]. constructor; [|assumption]. eauto.
Qed.

Theorem join_shards sls gs H :
  sls <> [] -> Forall2 (fun s g => WF s /\ content s = Ok g) sls gs -> Forall (fun s => shards_rows s = H) sls ->
  exists s, shards_join sls = Ok s /\ WF s /\ content s = Ok (g_hcat gs) /\ shards_cols s = sumz (map shards_cols sls).
Proof.
  intros Hne F2 Hrows.
  assert (Forall WF sls) as Fw by (clear - F2; induction F2 as [|s g sls gs [W _] _ IH]; constructor; auto).
  destruct (join_init_ok _ Fw) as (sts & Ei & Fi). unfold shards_join. rewrite Ei.
  (* build the cursors *)
  assert (exists curs, Forall2 jst_rel sts curs /\ Forall2 jcur_ok (map shards_cols sls) curs /\
                       Forall (fun c => jrem c = H) curs /\ map jrows curs = gs /\
                       flat_map jcontrib_sl curs = map (fun s => Free (shards_cols s)) sls /\
                       (jsum curs < S (fold_right (fun sl acc => (length sl + acc)%nat) O sls))%nat /\
                       Forall (fun w => 0 < w) (map shards_cols sls)) as (curs & Rel & Oks & Rems & Egs & Esl & Hfuel & Hpos).
  { clear Hne Ei. revert gs sts F2 Fi Hrows Fw. induction sls as [|s sls IH]; intros gs sts F2 Fi Hrows Fw.
    - inversion F2; subst. inversion Fi; subst. exists []. repeat split; try constructor.
    - inversion F2 as [|s0 g sls0 gs0 [W C] F2']; subst. inversion Fi as [|s0 st sls0 sts0 (n & cvs & rest & -> & ->) Fi']; subst.
      inversion Hrows as [|s0 sls0 Hr0 Hrows']; subst. inversion Fw as [|s0 sls0 W0 Fw']; subst.
      destruct (IH gs0 sts0 F2' Fi' Hrows' Fw') as (curs & Rel & Oks & Rems & Egs & Esl & Hfuel & Hpos).
      destruct (init_cur_ok _ _ _ W) as (A & B & D & E & P).
      exists (init_cur (n, cvs) rest :: curs). cbn [map shards_cols flat_map].
      split; [constructor; assumption|]. split; [constructor; assumption|]. split; [constructor; [rewrite D; reflexivity|assumption]|].
      split; [cbn [map]; rewrite Egs; f_equal; rewrite E in C; congruence|].
      split; [rewrite Esl; reflexivity|]. split; [|constructor; assumption].
      cbn [jsum fold_right init_cur jrest length]. rewrite map_length. fold (jsum curs). lia. }
  destruct (join_loop_correct (S (fold_right (fun sl acc => (length sl + acc)%nat) O sls)) _ _ _ H Rel Oks Rems) as (s & Es & Hs & Ss & As & Cs).
  { destruct curs; [|discriminate]. inversion Rel; subst. inversion Fi; subst. exfalso. apply Hne. reflexivity. }
  { exact Hfuel. }
  exists s. split; [exact Es|].
  assert (sl_equiv (flat_map jcontrib_sl curs) []) as Eq.
  { apply closed_equiv_nil, closed_iff. rewrite Esl. apply Forall_forall. intros x Hx. apply in_map_iff in Hx as (y & <- & _). exact I. }
  assert (0 < sumz (map shards_cols sls)) as Hpos'.
  { destruct sls as [|s0 sls0]; [congruence|]. cbn [map sumz fold_right] in *. inversion Hpos; subst.
    assert (0 <= fold_right Z.add 0 (map shards_cols sls0)); [|lia]. clear - H3. induction H3; cbn [fold_right]; lia. }
  destruct (WF_intro _ _ Hpos' Hs Ss (AWF_equiv _ _ _ _ Eq As)) as [W Ec].
  split; [assumption|]. split; [|assumption].
  destruct (WF_elim _ W) as (_ & _ & _ & C). rewrite C. f_equal. rewrite <- (acontent_equiv _ _ _ Eq), Cs, Egs. reflexivity.
Qed.
