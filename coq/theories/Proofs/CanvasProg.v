(* C02: the shard machine (Model/Canvas.v) simulates the grid machine (Model/CanvasGrid.v):
   per-operation lemmas on composite canvases and the step/run simulation for the proved
   instruction fragment. *)
From Coq Require Import ZArith List Bool Lia ZifyBool.
From Urwid Require Import PyBase Canvas CanvasGrid CanvasFacts CanvasAbs CanvasVert.
Import ListNotations.
Open Scope Z_scope.
Arguments Z.add : simpl never.
Arguments Z.sub : simpl never.
Arguments Z.mul : simpl never.
Arguments Z.ltb : simpl never.
Arguments Z.leb : simpl never.
Arguments Z.eqb : simpl never.
Arguments Z.min : simpl never.
Arguments Z.max : simpl never.
Arguments Z.to_nat : simpl never.
Arguments Z.of_nat : simpl never.

(* ------------------------------------------------------------------ a single cview *)
Lemma arows_single (a : acv) k m :
  0 <= k -> k + Z.of_nat m <= zlen (snd a) -> arows [a] k m = takez (Z.of_nat m) (dropz k (snd a)).
Proof.
  revert k; induction m as [|m IH]; intros k Hk Hm; cbn [arows].
  - now rewrite takez_le0 by lia.
  - rewrite IH by lia. unfold arow. cbn [flat_map]. rewrite app_nil_r.
    destruct (nthz_lt_some (snd a) k) as [r Hr]; [lia|]. rewrite Hr.
    unfold takez, dropz. replace (Z.to_nat (Z.of_nat (S m))) with (S (Z.to_nat (Z.of_nat m))) by lia.
    rewrite nthz_nth_error in Hr by lia.
    replace (Z.to_nat (k + 1)) with (S (Z.to_nat k)) by lia.
    generalize dependent (Z.to_nat k). intros n. generalize (snd a). clear. intros l; revert n. induction l as [|x l IHl]; intros n Hr.
    + destruct n; discriminate.
    + destruct n as [|n]; cbn [nth_error skipn] in *.
      * injection Hr as <-. reflexivity.
      * apply IHl. exact Hr.
Qed.

Lemma single_shard cv :
  cview_ok cv ->
  WF [(crows cv, [cv])] /\ content [(crows cv, [cv])] = Ok (rows_of cv) /\ shards_cols [(crows cv, [cv])] = ccols cv.
Proof.
  intros H. destruct (cview_ok_pos _ H) as [Hc Hr].
  assert (AWF (ccols cv) (map abs_sh [(crows cv, [cv])]) []) as A.
  { cbn [map abs_sh fst snd AWF fill]. split; [assumption|]. split; [constructor; [now apply abs_cv_ok|constructor]|].
    exists [abs_cv cv]. split; [reflexivity|]. split; [constructor; [now apply abs_cv_ok|constructor]|].
    split; [constructor; [cbn [abs_cv snd]; rewrite zlen_rows_of by assumption; lia|constructor]|].
    split; [cbn [body_width fold_right abs_cv fst]; lia|].
    apply closed_iff. cbn [slots_after map]. constructor; [|constructor]. unfold slot_after. cbn [abs_cv fst snd].
    rewrite zlen_rows_of by assumption. destruct (crows cv =? crows cv) eqn:E; [exact I|lia]. }
  destruct (WF_intro (ccols cv) [(crows cv, [cv])]) as [W Ec]; [assumption|discriminate|constructor; [constructor; [assumption|constructor]|constructor]|assumption|].
  split; [assumption|]. split; [|assumption].
  destruct (WF_elim _ W) as (_ & _ & _ & C). rewrite C. f_equal.
  cbn [map abs_sh fst snd acontent_from fill]. rewrite app_nil_r.
  rewrite arows_single.
  - cbn [abs_cv snd]. rewrite dropz_le0 by lia. apply takez_all. rewrite zlen_rows_of by assumption. lia.
  - lia.
  - cbn [abs_cv snd]. rewrite zlen_rows_of by assumption. lia.
Qed.

(* ------------------------------------------------------------------ grids *)
Definition grect (g : grid) : Prop :=
  0 < gheight g /\ 0 < gwidth g /\ Forall (fun r : row => zlen r = gwidth g) g.

Lemma gwidth_of_rows (g : grid) w : 0 < zlen g -> Forall (fun r : row => zlen r = w) g -> gwidth g = w.
Proof. destruct g as [|r g]; [unfold zlen; cbn [length]; lia|]. intros _ F. inversion F; subst. reflexivity. Qed.

Lemma WF_content_grid s g :
  WF s -> content s = Ok g -> grect g /\ gheight g = shards_rows s /\ gwidth g = shards_cols s.
Proof.
  intros W C. destruct (content_size _ _ W C) as [Hl Hw]. pose proof (WF_rows_pos _ W). destruct (WF_elim _ W) as (Hc & _).
  assert (gwidth g = shards_cols s) as Ew by (apply gwidth_of_rows; [lia|assumption]).
  unfold grect, gheight. rewrite Ew. repeat split; try lia; assumption.
Qed.

(* ------------------------------------------------------------------ the relation *)
Definition vrel (v : value) (gv : gval) : Prop :=
  match v with
  | VLeaf c cu =>
      gleaf gv = true /\ gfin gv = false /\ leaf_okb c = true /\ gg gv = leaf_grid c /\ gco gv = Coords cu None
  | VComp c =>
      gleaf gv = false /\ WF (cshards c) /\ content (cshards c) = Ok (gg gv) /\ ccoords c = gco gv /\ cfin c = gfin gv
  end.

Lemma leaf_wrap_cview c w h :
  leaf_okb c = true -> canvas_cols c = Ok w -> canvas_rows c = Ok h ->
  cview_ok (CV 0 0 w h None c) /\ rows_of (CV 0 0 w h None c) = leaf_grid c.
Proof.
  unfold leaf_okb, canvas_cols, canvas_rows, leaf_grid. intros L Ew Eh.
  destruct (cknd c) as [rws mc|cs ch cols rows|] eqn:E; [| |discriminate].
  - injection Ew as <-. injection Eh as <-.
    assert (cview_ok (CV 0 0 mc (zlen rws) None c)) as Ok1.
    { unfold cview_ok, cview_okb. cbn [ccols crows ccanv tl tt]. rewrite E. lia. }
    split; [assumption|]. rewrite (rows_of_text (CV 0 0 mc (zlen rws) None c) rws mc Ok1 E). cbn [tl tt ccols crows cam].
    rewrite dropz_le0 by lia. rewrite takez_all by lia.
    apply andb_prop in L as [_ L]. rewrite forallb_forall in L.
    rewrite <- (map_id rws) at 2. apply map_ext_in. intros r Hr. specialize (L _ Hr). apply andb_prop in L as [L1 L2].
    rewrite text_row_window by (try assumption; lia). rewrite map_ext with (g := fun c => c) by apply cell_map_attr_none. rewrite map_id.
    replace (0 + mc) with (zlen r) by lia. now apply trim_cells_all.
  - injection Ew as <-. injection Eh as <-.
    assert (cview_ok (CV 0 0 cols rows None c)) as Ok1.
    { unfold cview_ok, cview_okb. cbn [ccols crows ccanv tl tt]. rewrite E. lia. }
    split; [assumption|]. rewrite (rows_of_solid (CV 0 0 cols rows None c) cs ch cols rows E). reflexivity.
Qed.

Lemma leaf_dims c : leaf_okb c = true -> exists w h, canvas_cols c = Ok w /\ canvas_rows c = Ok h.
Proof. unfold leaf_okb, canvas_cols, canvas_rows. destruct (cknd c); [eauto|eauto|discriminate]. Qed.

Lemma wrap_rel v gv :
  vrel v gv -> exists c, wrap v = Ok c /\ vrel (VComp c) (GV (gg gv) (gco gv) false false).
Proof.
  destruct v as [c cu|c]; cbn [vrel wrap].
  - intros (_ & _ & L & Eg & Ec). destruct (leaf_dims _ L) as (w & h & Ew & Eh). rewrite Ew, Eh.
    destruct (leaf_wrap_cview _ _ _ L Ew Eh) as [Ok1 R]. destruct (single_shard _ Ok1) as (W & C & _).
    cbn [crows] in W, C. eexists; split; [reflexivity|]. cbn [vrel cshards ccoords cfin gleaf gg gco gfin].
    rewrite C, R, Eg, Ec. repeat split; assumption.
  - intros (_ & W & C & Eco & _). eexists; split; [reflexivity|]. cbn [vrel cshards ccoords cfin gleaf gg gco gfin]. auto.
Qed.

Lemma vrel_dims v gv :
  vrel v gv -> vcols v = Ok (gwidth (gg gv)) /\ vrows v = Ok (gheight (gg gv)) /\ grect (gg gv).
Proof.
  intros R. destruct (wrap_rel _ _ R) as (c & Ew & (_ & W & C & _)). cbn [cshards gg] in *.
  destruct (WF_content_grid _ _ W C) as (G & Eh & Ec). split; [|split; [|assumption]].
  - destruct v as [c0 cu|c0]; cbn [vcols wrap] in *.
    + destruct (canvas_cols c0) eqn:E1, (canvas_rows c0) eqn:E2; try discriminate. injection Ew as <-.
      cbn [cshards shards_cols cviews_cols fold_right ccols] in Ec. f_equal. lia.
    + injection Ew as <-. cbn [cshards] in *. now rewrite Ec.
  - destruct v as [c0 cu|c0]; cbn [vrows wrap] in *.
    + destruct (canvas_cols c0) eqn:E1, (canvas_rows c0) eqn:E2; try discriminate. injection Ew as <-.
      cbn [cshards shards_rows fold_right fst] in Eh. f_equal. lia.
    + injection Ew as <-. cbn [cshards] in *. now rewrite Eh.
Qed.

(* ------------------------------------------------------------------ coordinates *)
Ltac coords_eq :=
  repeat match goal with
         | |- Coords _ _ = Coords _ _ => f_equal
         | |- Some _ = Some _ => f_equal
         | |- (_, _) = (_, _) => f_equal
         end; try reflexivity; try lia.

Lemma translate_coords_0 c : translate_coords c 0 0 = c.
Proof.
  destruct c as [[[x y]|] [[[x' y'] w]|]]; unfold translate_coords; cbn [cur pop]; coords_eq.
Qed.
Lemma translate_translate c a b a' b' :
  translate_coords (translate_coords c a b) a' b' = translate_coords c (a + a') (b + b').
Proof.
  destruct c as [[[x y]|] [[[x' y'] w]|]]; unfold translate_coords; cbn [cur pop]; coords_eq.
Qed.
Lemma translate_coords_eq c a b a' b' : a = a' -> b = b' -> translate_coords c a b = translate_coords c a' b'.
Proof. now intros -> ->. Qed.

(* ------------------------------------------------------------------ CanvasCombine *)
Lemma combine_go_rel w : forall vs gvs sh g0 co,
  Forall2 vrel vs gvs -> Forall (fun u : gval => gwidth (gg u) = w) gvs ->
  ((sh = [] /\ g0 = []) \/ (WF sh /\ shards_cols sh = w /\ content sh = Ok g0)) ->
  (sh <> [] \/ vs <> []) ->
  exists c, combine_go vs (gheight g0) sh co = Ok c /\ WF (cshards c) /\
            content (cshards c) = Ok (g0 ++ g_vstack (map gg gvs)) /\
            ccoords c = g_combine_coords gvs (gheight g0) co /\ cfin c = false.
Proof.
  induction vs as [|v vs IH]; intros gvs sh g0 co F Fw Acc Hne; inversion F; subst.
  - cbn [combine_go map g_vstack concat g_combine_coords]. rewrite app_nil_r.
    destruct Acc as [[-> _]|(W & _ & C)]; [destruct Hne; congruence|].
    eexists; split; [reflexivity|]. cbn [cshards ccoords cfin]. auto.
  - rename y into gv. rename l' into gvs'. inversion Fw; subst.
    destruct (wrap_rel _ _ H1) as (c1 & Ew & (_ & W1 & C1 & Eco1 & _)). cbn [cshards ccoords gg gco] in *.
    cbn [combine_go]. rewrite Ew.
    destruct (WF_content_grid _ _ W1 C1) as (G1 & Eh1 & Ec1).
    assert (WF (sh ++ cshards c1) /\ shards_cols (sh ++ cshards c1) = gwidth (gg gv) /\ content (sh ++ cshards c1) = Ok (g0 ++ gg gv)) as (W' & Ec' & C').
    { destruct Acc as [[-> ->]|(W & Ecs & C)].
      - cbn [app]. auto.
      - destruct (combine_shards _ _ _ _ W W1 ltac:(lia) C C1) as (A & B & D & _). repeat split; try assumption. lia. }
    assert (gheight (g0 ++ gg gv) = gheight g0 + shards_rows (cshards c1)) as Eh' by (unfold gheight in *; rewrite zlen_app; lia).
    destruct (IH gvs' (sh ++ cshards c1) (g0 ++ gg gv) (coords_update co (translate_coords (ccoords c1) 0 (gheight g0))) H3 H4) as (c & R1 & R2 & R3 & R4 & R5).
    + right. auto.
    + left. destruct sh; [destruct (cshards c1) eqn:E; [|discriminate]|discriminate].
      exfalso. destruct (WF_elim _ W1) as (Hc & _). cbn in Hc. lia.
    + exists c. rewrite Eh' in R1, R4. split; [exact R1|]. split; [assumption|]. split.
      * rewrite R3. cbn [map g_vstack concat]. now rewrite app_assoc.
      * split; [|assumption]. rewrite R4. cbn [g_combine_coords]. rewrite Eco1, Eh1. reflexivity.
Qed.

Lemma canvas_combine_rel vs gvs :
  Forall2 vrel vs gvs -> same_width gvs = true ->
  exists c, canvas_combine vs = Ok c /\
            vrel (VComp c) (GV (g_vstack (map gg gvs)) (g_combine_coords gvs 0 no_coords) false false).
Proof.
  intros F S. unfold same_width in S. destruct gvs as [|gv0 gvs0] eqn:Eg; [discriminate|].
  assert (Forall (fun u : gval => gwidth (gg u) = gwidth (gg gv0)) (gv0 :: gvs0)) as Fw.
  { apply Forall_forall. intros u Hu. rewrite forallb_forall in S. specialize (S _ Hu). lia. }
  destruct (combine_go_rel (gwidth (gg gv0)) vs (gv0 :: gvs0) [] [] no_coords F Fw) as (c & R1 & R2 & R3 & R4 & R5).
  - left; auto.
  - right. inversion F; discriminate.
  - exists c. split; [exact R1|]. cbn [vrel gleaf gg gco gfin]. cbn [app] in R3. unfold gheight in R4. rewrite zlen_nil in R4. auto.
Qed.

(* _drop_cursor_outside on a well-formed canvas is the grid's *)
Lemma drop_rel s g co : WF s -> content s = Ok g -> drop_cursor_outside s co = g_drop_cursor g co.
Proof.
  intros W C. destruct (WF_content_grid _ _ W C) as (_ & Eh & Ew). unfold drop_cursor_outside, g_drop_cursor. now rewrite Eh, Ew.
Qed.

(* ------------------------------------------------------------------ trim / trim_end *)
Lemma comp_trim_rel c gv top count :
  vrel (VComp c) gv -> gfin gv = false -> 0 <= top < gheight (gg gv) ->
  match count with None => True | Some n => 0 < n end ->
  exists c', comp_trim c top count = Ok c' /\
             vrel (VComp c') (GV (g_trim (gg gv) top count)
                                 (g_drop_cursor (g_trim (gg gv) top count) (translate_coords (gco gv) 0 (- top))) false false).
Proof.
  intros (Hl & W & C & Eco & Ef) Hf Ht Hc. cbn [cshards ccoords cfin] in *.
  destruct (WF_content_grid _ _ W C) as (G & Eh & Ec).
  unfold comp_trim. destruct (top <? 0) eqn:E1; [lia|]. destruct (shards_rows (cshards c) <=? top) eqn:E2; [lia|].
  rewrite Ef, Hf.
  assert (exists s1, (if top =? 0 then Ok (cshards c) else shards_trim_top (cshards c) top) = Ok s1 /\ WF s1 /\ content s1 = Ok (dropz top (gg gv))) as (s1 & Es1 & W1 & C1).
  { destruct (top =? 0) eqn:E3.
    - exists (cshards c). rewrite dropz_le0 by lia. auto.
    - destruct (trim_top_shards _ top _ W ltac:(lia) C) as (s' & A & B & D & _). exists s'. auto. }
  rewrite Es1. destruct count as [n|].
  - destruct (n =? 0) eqn:E4; [lia|].
    destruct (trim_rows_shards _ n _ W1 Hc C1) as (s2 & A & B & D & _). rewrite A.
    eexists; split; [reflexivity|]. cbn [vrel cshards ccoords cfin gleaf gg gco gfin g_trim]. rewrite Eco, (drop_rel _ _ _ B D). auto.
  - eexists; split; [reflexivity|]. cbn [vrel cshards ccoords cfin gleaf gg gco gfin g_trim]. rewrite Eco, (drop_rel _ _ _ W1 C1). auto.
Qed.

Lemma comp_trim_end_rel c gv e :
  vrel (VComp c) gv -> gfin gv = false -> 0 < e < gheight (gg gv) ->
  exists c', comp_trim_end c e = Ok c' /\
             vrel (VComp c') (GV (takez (gheight (gg gv) - e) (gg gv))
                                 (g_drop_cursor (takez (gheight (gg gv) - e) (gg gv)) (gco gv)) false false).
Proof.
  intros (Hl & W & C & Eco & Ef) Hf He. cbn [cshards ccoords cfin] in *.
  destruct (WF_content_grid _ _ W C) as (G & Eh & Ec).
  unfold comp_trim_end. destruct (e <=? 0) eqn:E1; [lia|]. destruct (shards_rows (cshards c) <? e) eqn:E2; [lia|].
  rewrite Ef, Hf. destruct (trim_rows_shards _ (shards_rows (cshards c) - e) _ W ltac:(lia) C) as (s2 & A & B & D & _). rewrite A.
  eexists; split; [reflexivity|]. cbn [vrel cshards ccoords cfin gleaf gg gco gfin]. rewrite Eh, Eco, (drop_rel _ _ _ B D). auto.
Qed.

(* ------------------------------------------------------------------ pad_trim_top_bottom *)
Lemma blank_shard w h :
  0 < w -> 0 < h ->
  WF [(h, [CV 0 0 w h None blank_canvas])] /\ content [(h, [CV 0 0 w h None blank_canvas])] = Ok (blank_grid w h) /\
  shards_cols [(h, [CV 0 0 w h None blank_canvas])] = w.
Proof.
  intros Hw Hh.
  assert (cview_ok (CV 0 0 w h None blank_canvas)) as Ok1 by (unfold cview_ok, cview_okb; cbn [ccols crows ccanv blank_canvas cknd]; lia).
  destruct (single_shard _ Ok1) as (A & B & C). cbn [crows ccols] in *. split; [assumption|]. split; [|assumption].
  rewrite B. reflexivity.
Qed.

Lemma comp_pad_trim_top_bottom_rel c gv t b :
  vrel (VComp c) gv -> gfin gv = false -> 0 < gheight (gg gv) + Z.min t 0 + Z.min b 0 ->
  exists c', comp_pad_trim_top_bottom c t b = Ok c' /\
             vrel (VComp c') (GV (g_pad_trim_tb (gg gv) t b) (g_padtb_coords (gg gv) t b (gco gv)) false false).
Proof.
  intros R Hf Hd. pose proof R as (Hl & W & C & Eco & Ef). cbn [cshards ccoords cfin] in *.
  destruct (WF_content_grid _ _ W C) as (G & Eh & Ec).
  unfold comp_pad_trim_top_bottom. rewrite Ef, Hf.
  set (tt0 := Z.max 0 (- t)). set (bb0 := Z.max 0 (- b)).
  assert (exists c1, (if (t <? 0) || (b <? 0) then comp_trim c tt0 (Some (shards_rows (cshards c) - tt0 - bb0)) else Ok c) = Ok c1 /\
                     WF (cshards c1) /\ content (cshards c1) = Ok (takez (gheight (gg gv) - tt0 - bb0) (dropz tt0 (gg gv))) /\
                     ccoords c1 = (if (t <? 0) || (b <? 0)
                                   then g_drop_cursor (takez (gheight (gg gv) - tt0 - bb0) (dropz tt0 (gg gv))) (translate_coords (gco gv) 0 (- tt0))
                                   else gco gv) /\ cfin c1 = false) as (c1 & E1 & W1 & C1 & Eco1 & Ef1).
  { destruct ((t <? 0) || (b <? 0)) eqn:E.
    - destruct (comp_trim_rel c gv tt0 (Some (shards_rows (cshards c) - tt0 - bb0)) R Hf) as (c1 & A & (_ & B & D & F & H)); [lia|lia|].
      exists c1. cbn [cshards ccoords cfin gg gco gfin g_trim] in *. rewrite Eh. auto.
    - exists c. assert (tt0 = 0) by lia. assert (bb0 = 0) by lia. rewrite H, H0. rewrite dropz_le0 by lia.
      rewrite takez_all by (unfold gheight; lia). rewrite Ef, Hf. auto. }
  rewrite E1.
  destruct (WF_content_grid _ _ W1 C1) as (G1 & Eh1 & Ec1).
  (* a well-formed canvas has rows: the 0-row clause does not fire *)
  assert (De : drop_empty c1 t b = c1).
  { unfold drop_empty. pose proof (WF_rows_pos _ W1) as Hp.
    replace (shards_rows (cshards c1) =? 0) with false by (symmetry; apply Z.eqb_neq; lia). now rewrite andb_false_r. }
  rewrite De.
  assert (gwidth (takez (gheight (gg gv) - tt0 - bb0) (dropz tt0 (gg gv))) = gwidth (gg gv)) as Ew1.
  { destruct G as (_ & _ & Fw). apply gwidth_of_rows; [destruct G1; unfold gheight in *; lia|]. apply Forall_takez, Forall_dropz, Fw. }
  set (w := shards_cols (cshards c1)) in *. assert (w = gwidth (gg gv)) as Hw by lia. assert (0 < w) by (destruct G as (_ & ? & _); lia).
  (* top padding *)
  set (c2 := if 0 <? t then Comp ((t, [CV 0 0 w t None blank_canvas]) :: cshards c1) (translate_coords (ccoords c1) 0 t) false else c1).
  assert (WF (cshards c2) /\ shards_cols (cshards c2) = w /\
          content (cshards c2) = Ok (blank_grid w (Z.max 0 t) ++ takez (gheight (gg gv) - tt0 - bb0) (dropz tt0 (gg gv))) /\
          ccoords c2 = g_padtb_coords (gg gv) t b (gco gv)) as (W2 & Ec2 & C2 & Eco2).
  { subst c2. destruct (0 <? t) eqn:E.
    - destruct (blank_shard w t) as (A & B & D); [lia|lia|]. cbn [cshards ccoords].
      destruct (combine_shards _ _ _ _ A W1 ltac:(fold w; lia) B C1) as (A' & B' & D' & _). cbn [app] in A', B', D'.
      replace (Z.max 0 t) with t by lia. split; [exact A'|]. split; [etransitivity; [exact D'|exact D]|]. split; [exact B'|].
      unfold g_padtb_coords. fold tt0 bb0. rewrite E. now rewrite Eco1.
    - replace (Z.max 0 t) with 0 by lia. unfold blank_grid.
      unfold repeatz. replace (Z.to_nat 0) with O by lia. cbn [repeat app]. split; [exact W1|]. split; [reflexivity|]. split; [exact C1|].
      unfold g_padtb_coords. fold tt0 bb0. rewrite E. exact Eco1. }
  eexists; split; [reflexivity|]. cbn [vrel cshards ccoords cfin gleaf gg gco gfin]. fold c2.
  split; [reflexivity|]. unfold g_pad_trim_tb. fold tt0 bb0. rewrite <- Hw.
  destruct (0 <? b) eqn:E.
  - destruct (blank_shard w b) as (A & B & D); [lia|lia|].
    destruct (combine_shards _ _ _ _ W2 A ltac:(lia) C2 B) as (A' & B' & _).
    replace (Z.max 0 b) with b by lia. rewrite <- app_assoc in B'. auto.
  - replace (Z.max 0 b) with 0 by lia. change (blank_grid w 0) with (@nil row). rewrite !app_nil_r. auto.
Qed.

(* ------------------------------------------------------------------ fill_attr_apply, flags *)
Lemma comp_fill_attr_rel c gv m :
  vrel (VComp c) gv -> gfin gv = false ->
  exists c', comp_fill_attr_apply c m = Ok c' /\ vrel (VComp c') (GV (g_fill m (gg gv)) (gco gv) false false).
Proof.
  intros (Hl & W & C & Eco & Ef) Hf. cbn [cshards ccoords cfin] in *. unfold comp_fill_attr_apply. rewrite Ef, Hf.
  destruct (fill_attr_shards m _ _ W C) as (A & B & _). eexists; split; [reflexivity|].
  cbn [vrel cshards ccoords cfin gleaf gg gco gfin]. unfold g_fill. auto.
Qed.

Lemma comp_set_cursor_rel c gv cu :
  vrel (VComp c) gv -> gfin gv = false ->
  exists c', comp_set_cursor c cu = Ok c' /\ vrel (VComp c') (GV (gg gv) (Coords cu (pop (gco gv))) false false).
Proof.
  intros (Hl & W & C & Eco & Ef) Hf. cbn [cshards ccoords cfin] in *. unfold comp_set_cursor. rewrite Ef, Hf.
  eexists; split; [reflexivity|]. cbn [vrel cshards ccoords cfin gleaf gg gco gfin]. rewrite Eco. auto.
Qed.
Lemma comp_set_pop_up_rel c gv w x y :
  vrel (VComp c) gv -> gfin gv = false ->
  exists c', comp_set_pop_up c w x y = Ok c' /\ vrel (VComp c') (GV (gg gv) (Coords (cur (gco gv)) (Some (x, y, w))) false false).
Proof.
  intros (Hl & W & C & Eco & Ef) Hf. cbn [cshards ccoords cfin] in *. unfold comp_set_pop_up. rewrite Ef, Hf.
  eexists; split; [reflexivity|]. cbn [vrel cshards ccoords cfin gleaf gg gco gfin]. rewrite Eco. auto.
Qed.
Lemma comp_finalize_rel c gv :
  vrel (VComp c) gv -> gfin gv = false ->
  exists c', comp_finalize c = Ok c' /\ vrel (VComp c') (GV (gg gv) (gco gv) true false).
Proof.
  intros (Hl & W & C & Eco & Ef) Hf. cbn [cshards ccoords cfin] in *. unfold comp_finalize. rewrite Ef, Hf.
  eexists; split; [reflexivity|]. cbn [vrel cshards ccoords cfin gleaf gg gco gfin]. auto.
Qed.

