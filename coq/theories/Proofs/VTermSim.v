(* C15 - simulation of the reference VT100 (Model/VT100Ref.v) by the emulator model (Model/VTerm.v) fed with
   the byte encoding of the reference's commands: the relation R, one lemma per command, composition. *)
From Coq Require Import ZArith List Bool Lia ZifyBool.
Import ListNotations.
From Urwid Require Import PyBase PyList vterm_csi_gen VTerm VT100Ref VTermRefine VTermListFacts VTermProofs VTermParse.
Open Scope Z_scope.

Arguments Z.mul : simpl never.
Arguments Z.add : simpl never.
Arguments Z.sub : simpl never.
Arguments Z.div : simpl never.
Arguments Z.modulo : simpl never.
Arguments Z.ltb : simpl never.
Arguments Z.leb : simpl never.
Arguments Z.eqb : simpl never.
Arguments Z.min : simpl never.
Arguments Z.max : simpl never.
Arguments Z.pow : simpl never.
Arguments Z.to_nat : simpl never.
Arguments Z.of_nat : simpl never.

(* ---------- the relation ---------- *)
Definition RA_ok (ra : rattr) : Prop :=
  match r_fg ra with Some n => 0 <= n < 8 | None => True end /\
  match r_bg ra with Some n => 0 <= n < 8 | None => True end.

(* the AttrSpec the emulator holds for a VT100 rendition (bold brightens the 16-colour foreground) *)
Definition attr_of_ref (ra : rattr) : option attr :=
  if is_none (r_fg ra) && is_none (r_bg ra) && negb (r_bold ra || r_ul ra || r_blink ra || r_rev ra) then None
  else Some (mkAttr (match r_fg ra with Some n => Some (if r_bold ra then n + 8 else n) | None => None end) (r_bg ra)
                    (if is_none (r_fg ra) && is_none (r_bg ra) then 1 else 16)
                    (r_bold ra) (r_ul ra) (r_blink ra) (r_rev ra)).

Definition cell_rel (c : cell) (r : rcell) : Prop :=
  snd c = [fst r] /\
  match snd r with
  | None => True
  | Some (ra, rcs) => fst (fst c) = attr_of_ref ra /\ RA_ok ra /\ snd (fst c) = rcs
  end.
(* the emulator's TermCharset against the reference's (G0, G1, shift); no ibmpc / SGR mapping in the subset *)
Definition cs_rel (c : charset_t) (k : Z * Z * Z) : Prop :=
  let '(g0, g1, sh) := k in
  cs_sgr c = false /\ cs_g0 c = g0 /\ (g0 = 0 \/ g0 = 1) /\ (cs_g1 c = 0 \/ cs_g1 c = 1) /\ (g1 = -1 \/ cs_g1 c = g1) /\
  cs_active c = sh /\ (sh = 0 \/ (sh = 1 /\ g1 <> -1)) /\ cs_current c = (if sh =? 0 then g0 else g1).
Definition grid_rel (t : list row) (g : list rrow) : Prop := Forall2 (Forall2 cell_rel) t g.

(* the tab stops of a terminal on which no stop was set or cleared: every 8 columns *)
Definition tabs0 (w : Z) : list Z := repeatz 1 (if 0 <? w mod 8 then w / 8 + 1 else w / 8).

Definition modes0 : modes_t := mkModes false false false false false false true true false charset_default_gen.

Record R0 (t : st) (v : vt) : Prop := mkR0 {
  r_inv : Inv t;
  r_w : width t = v_w v;
  r_h : height t = v_h v;
  r_grid : grid_rel (term t) (v_g v);
  r_cur : cur t = (v_x v, v_y v);
  r_top : sr_start t = v_top v;
  r_bot : sr_end t = v_bot v;
  r_pend : rotten t = v_pend v;
  r_pendx : v_pend v = true -> v_x v = v_w v - 1;
  r_attr : attrspec t = attr_of_ref (v_attr v);
  r_raok : RA_ok (v_attr v);
  r_u8 : u8eat t = None;
  r_modes : modes t = modes0;
  r_cset : cs_rel (cset t) (v_cs v);
  r_tabs : tabstops t = tabs0 (v_w v);
  r_replies : replies_of (events t) = map render_reply (v_replies v);
  r_sb : v_sbknown v = true -> grid_rel (sb t) (tail_max (v_sb v)) }.

Ltac hist :=
  try match goal with
      | H : events ?t' = events ?t, R : replies_of (events ?t) = _ |- replies_of (events ?t') = _ => rewrite H; exact R
      | H : sb ?t' = sb ?t, R : _ = true -> grid_rel (sb ?t) _ |- _ = true -> grid_rel (sb ?t') _ => rewrite H; exact R
      | H : cset ?t' = cset ?t, R : cs_rel (cset ?t) _ |- cs_rel (cset ?t') _ => rewrite H; exact R
      end.

Definition R (s : st) (v : vt) : Prop := R0 s v /\ inesc s = false /\ pstate s = 0.

Lemma R_idle s v : R s v -> Idle s.
Proof. intros ([] & He & Hp). constructor; auto; rewrite r_modes0; reflexivity. Qed.

(* fields R0 reads, other than cur and rotten *)
Definition same_gfx (t t' : st) : Prop :=
  width t' = width t /\ height t' = height t /\ term t' = term t /\ sr_start t' = sr_start t /\ sr_end t' = sr_end t /\
  attrspec t' = attrspec t /\ u8eat t' = u8eat t /\ modes t' = modes t /\ cset t' = cset t /\ tabstops t' = tabstops t /\ sb t' = sb t /\ events t' = events t.

Lemma R0_moved t t' v x y p :
  R0 t v -> Inv t' -> same_gfx t t' -> cur t' = (x, y) -> rotten t' = p -> (p = true -> x = v_w v - 1) ->
  R0 t' (with_xy v x y p).
Proof.
  intros [] I' (E1 & E2 & E3 & E4 & E5 & E6 & E7 & E8 & E9 & E10 & E11 & E12) Hc Hr Hp.
  constructor; cbn [with_xy v_w v_h v_g v_x v_y v_pend v_top v_bot v_attr v_sb v_sbknown v_replies v_cs]; try congruence; auto; hist.
Qed.

Lemma R0_parser t t' v :
  R0 t v -> same_gfx t t' -> cur t' = cur t -> rotten t' = rotten t -> cursor t' = cursor t -> sup t' = sup t ->
  tabstops t' = tabstops t -> saved_attrs t' = saved_attrs t -> events t' = events t -> sb t' = sb t -> R0 t' v.
Proof.
  intros [] (E1 & E2 & E3 & E4 & E5 & E6 & E7 & E8 & E9 & E10 & E11 & E12) Hc Hr H1 H2 H3 H4 H5 H6.
  constructor; try congruence; auto; hist.
  eapply Inv_ext; [| | | | | | | | | | | | | |eassumption]; auto. rewrite E8. reflexivity.
Qed.

Lemma R0_csi_state s v l : R0 s v -> R0 (csi_state s l) v.
Proof. intros H. eapply R0_parser; [eassumption|..]; try reflexivity. repeat split. Qed.

Lemma R_leave t v : R0 t v -> R (leave_escape (with_pstate t 0)) v.
Proof.
  intros H. split; [|split; reflexivity]. eapply R0_parser; [eassumption|..]; try reflexivity. repeat split.
Qed.

(* ---------- cursor helpers ---------- *)
Lemma stc_frame t x y :
  same_gfx t (set_term_cursor t x y) /\ cur (set_term_cursor t x y) = constrain t x y 0 /\
  rotten (set_term_cursor t x y) = rotten t /\ inesc (set_term_cursor t x y) = inesc t /\
  pstate (set_term_cursor t x y) = pstate t /\ sb (set_term_cursor t x y) = sb t /\
  events (set_term_cursor t x y) = events t.
Proof.
  unfold set_term_cursor. destruct (constrain t x y 0) as [cx cy].
  match goal with |- context [if ?b then _ else _] => destruct b end; repeat split; reflexivity.
Qed.

Definition clamp (v lim : Z) : Z := if lim <=? v then lim - 1 else if v <? 0 then 0 else v.

Lemma constrain_plain t x y :
  m_constrain (modes t) = false -> constrain t x y 0 = (clamp x (width t), clamp y (height t)).
Proof. intros H. unfold constrain, constrain_coords_gen, clamp. cbv zeta. rewrite H. reflexivity. Qed.

Lemma constrain_plain1 t x y : constrain t x y 1 = (clamp x (width t), clamp y (height t)).
Proof.
  unfold constrain, constrain_coords_gen, clamp. cbv zeta.
  replace (negb (negb (1 =? 0))) with false by reflexivity. rewrite andb_false_r. reflexivity.
Qed.

(* moving the cursor (clearing the pending wrap) *)
Lemma R0_move t v x y :
  R0 t v ->
  R0 (set_term_cursor (with_rotten t false) x y) (with_xy v (clamp x (v_w v)) (clamp y (v_h v)) false).
Proof.
  intros H. pose proof H as [].
  destruct (stc_frame (with_rotten t false) x y) as (F & C & Rt & _).
  eapply R0_moved; [exact H| | | | |discriminate].
  - eapply K_Inv. apply set_term_cursor_unrotten_K. assumption.
  - destruct F as (E1 & E2 & E3 & E4 & E5 & E6 & E7 & E8 & E9 & E10 & E11 & E12). repeat split; assumption.
  - rewrite C. rewrite constrain_plain by (cbn; rewrite r_modes0; reflexivity). cbn [width height with_rotten].
    rewrite r_w0, r_h0. reflexivity.
  - rewrite Rt. reflexivity.
Qed.

(* ---------- the step shape, CSI commands ---------- *)
Lemma sim_csi s v ps f nargs dflt tgt v' :
  R s v -> Forall small ps -> csi_table f = Some (nargs, dflt, tgt) -> plain_byte f ->
  (forall X, R0 X v -> exists s', csi_dispatch X tgt (csi_args ps nargs dflt) false = Ok s' /\ R0 s' v') ->
  exists s', addbytes s (csi ps f) = Ok s' /\ R s' v'.
Proof.
  intros HR Hs Hf Hp Hd. pose proof (R_idle s v HR) as Hi. destruct HR as (H0 & _).
  rewrite <- (app_nil_r (csi ps f)). rewrite (feed_csi s ps f nargs dflt tgt []) by assumption.
  destruct (Hd (csi_state s (enc_params ps)) (R0_csi_state s v _ H0)) as (s' & E & HR').
  rewrite E. cbn [bind addbytes]. eexists. split; [reflexivity|]. apply R_leave. assumption.
Qed.

Definition dflt_of (d n : Z) : Z := match p2o n with None => d | Some v => if v =? 0 then d else v end.

Lemma csi_args_1 n d : csi_args [n] 1 d = [dflt_of d n].
Proof. reflexivity. Qed.
Lemma csi_args_2 a b d : csi_args [a; b] 2 d = [dflt_of d a; dflt_of d b].
Proof. reflexivity. Qed.

Lemma dflt_one n : dflt_of 1 n = one n.
Proof. unfold dflt_of, p2o, one. destruct (n <? 0) eqn:A, (n <=? 0) eqn:C; try lia; destruct (n =? 0) eqn:B; lia. Qed.

Lemma cd_move X args q c :
  csi_dispatch X c args q =
  (if c =? 65 then Ok (move_cursor X 0 (- arg args 0) false false true)
   else if c =? 66 then Ok (move_cursor X 0 (arg args 0) false false true)
   else if c =? 67 then Ok (move_cursor X (arg args 0) 0 false false true)
   else if c =? 68 then Ok (move_cursor X (- arg args 0) 0 false false true)
   else if c =? 72 then Ok (move_cursor X (arg args 1 - 1) (arg args 0 - 1) false false false)
   else csi_dispatch X c args q).
Proof.
  destruct (c =? 65) eqn:E1; [apply Z.eqb_eq in E1; subst; unfold csi_dispatch; destruct (cur X); reflexivity|].
  destruct (c =? 66) eqn:E2; [apply Z.eqb_eq in E2; subst; unfold csi_dispatch; destruct (cur X); reflexivity|].
  destruct (c =? 67) eqn:E3; [apply Z.eqb_eq in E3; subst; unfold csi_dispatch; destruct (cur X); reflexivity|].
  destruct (c =? 68) eqn:E4; [apply Z.eqb_eq in E4; subst; unfold csi_dispatch; destruct (cur X); reflexivity|].
  destruct (c =? 72) eqn:E5; [apply Z.eqb_eq in E5; subst; unfold csi_dispatch; destruct (cur X); reflexivity|].
  reflexivity.
Qed.

(* bounds of the reference state that follow from the relation *)
Lemma R0_bounds t v : R0 t v ->
  1 <= v_w v /\ 1 <= v_h v /\ 0 <= v_x v < v_w v /\ 0 <= v_y v < v_h v /\
  0 <= v_top v /\ v_top v <= v_bot v /\ v_bot v < v_h v.
Proof.
  intros []. destruct r_inv0. rewrite r_cur0 in *. cbn [fst snd] in *. lia.
Qed.

Lemma move_cursor_rel X v x y :
  R0 X v ->
  R0 (move_cursor X x y false false true)
     (with_xy v (clamp (x + v_x v) (v_w v)) (clamp (y + v_y v) (v_h v)) false).
Proof.
  intros H. unfold move_cursor. cbv zeta. cbn [orb]. pose proof H as []. rewrite r_cur0. cbn [fst snd].
  apply R0_move. assumption.
Qed.

Lemma move_cursor_abs X v x y :
  R0 X v ->
  R0 (move_cursor X x y false false false) (with_xy v (clamp x (v_w v)) (clamp y (v_h v)) false).
Proof.
  intros H. unfold move_cursor. cbv zeta. cbn [orb]. pose proof H as []. rewrite r_modes0. cbn [m_constrain modes0].
  apply R0_move. assumption.
Qed.

Lemma with_xy_eq v x y p x' y' : x = x' -> y = y' -> with_xy v x y p = with_xy v x' y' p.
Proof. intros -> ->. reflexivity. Qed.

(* CUP *)
Lemma sim_cup s v r c : R s v -> small r -> small c ->
  exists s', addbytes s (enc_cmd (CCup r c)) = Ok s' /\ R s' (exec v (CCup r c)).
Proof.
  intros HR Hr Hc. cbn [enc_cmd exec].
  eapply (sim_csi s v [r; c] 72 2 1 72); [assumption|repeat constructor; assumption|reflexivity|unfold plain_byte; lia|].
  intros X HX. rewrite cd_move. cbn [Z.eqb]. replace (72 =? 65) with false by reflexivity.
  replace (72 =? 66) with false by reflexivity. replace (72 =? 67) with false by reflexivity.
  replace (72 =? 68) with false by reflexivity. replace (72 =? 72) with true by reflexivity.
  eexists. split; [reflexivity|]. rewrite csi_args_2. cbn [arg nth]. rewrite !dflt_one.
  pose proof (R0_bounds X v HX) as B.
  erewrite with_xy_eq; [apply move_cursor_abs; assumption| |]; unfold clamp, one; split_ifs; lia.
Qed.

(* CUU CUD CUF CUB *)
Lemma sim_cuf s v n : R s v -> small n ->
  exists s', addbytes s (enc_cmd (CCuf n)) = Ok s' /\ R s' (exec v (CCuf n)).
Proof.
  intros HR Hn. cbn [enc_cmd exec].
  eapply (sim_csi s v [n] 67 1 1 67); [assumption|repeat constructor; assumption|reflexivity|unfold plain_byte; lia|].
  intros X HX. rewrite cd_move. replace (67 =? 65) with false by reflexivity.
  replace (67 =? 66) with false by reflexivity. replace (67 =? 67) with true by reflexivity.
  eexists. split; [reflexivity|]. rewrite csi_args_1. cbn [arg nth]. rewrite !dflt_one.
  pose proof (R0_bounds X v HX) as B.
  erewrite with_xy_eq; [apply move_cursor_rel; assumption| |]; unfold clamp, one; split_ifs; lia.
Qed.

Lemma sim_cub s v n : R s v -> small n ->
  exists s', addbytes s (enc_cmd (CCub n)) = Ok s' /\ R s' (exec v (CCub n)).
Proof.
  intros HR Hn. cbn [enc_cmd exec].
  eapply (sim_csi s v [n] 68 1 1 68); [assumption|repeat constructor; assumption|reflexivity|unfold plain_byte; lia|].
  intros X HX. rewrite cd_move. replace (68 =? 65) with false by reflexivity.
  replace (68 =? 66) with false by reflexivity. replace (68 =? 67) with false by reflexivity.
  replace (68 =? 68) with true by reflexivity.
  eexists. split; [reflexivity|]. rewrite csi_args_1. cbn [arg nth]. rewrite !dflt_one.
  pose proof (R0_bounds X v HX) as B.
  erewrite with_xy_eq; [apply move_cursor_rel; assumption| |]; unfold clamp, one; split_ifs; lia.
Qed.

Lemma sim_cuu s v n : R s v -> small n -> ambiguous v (CCuu n) = false ->
  exists s', addbytes s (enc_cmd (CCuu n)) = Ok s' /\ R s' (exec v (CCuu n)).
Proof.
  intros HR Hn Ha. cbn [enc_cmd exec].
  eapply (sim_csi s v [n] 65 1 1 65); [assumption|repeat constructor; assumption|reflexivity|unfold plain_byte; lia|].
  intros X HX. rewrite cd_move. replace (65 =? 65) with true by reflexivity.
  eexists. split; [reflexivity|]. rewrite csi_args_1. cbn [arg nth]. rewrite !dflt_one.
  pose proof (R0_bounds X v HX) as B. cbn [ambiguous] in Ha.
  erewrite with_xy_eq; [apply move_cursor_rel; assumption| |]; unfold clamp, one in *; split_ifs; lia.
Qed.

Lemma sim_cud s v n : R s v -> small n -> ambiguous v (CCud n) = false ->
  exists s', addbytes s (enc_cmd (CCud n)) = Ok s' /\ R s' (exec v (CCud n)).
Proof.
  intros HR Hn Ha. cbn [enc_cmd exec].
  eapply (sim_csi s v [n] 66 1 1 66); [assumption|repeat constructor; assumption|reflexivity|unfold plain_byte; lia|].
  intros X HX. rewrite cd_move. replace (66 =? 65) with false by reflexivity. replace (66 =? 66) with true by reflexivity.
  eexists. split; [reflexivity|]. rewrite csi_args_1. cbn [arg nth]. rewrite !dflt_one.
  pose proof (R0_bounds X v HX) as B. cbn [ambiguous] in Ha.
  erewrite with_xy_eq; [apply move_cursor_rel; assumption| |]; unfold clamp, one in *; split_ifs; lia.
Qed.

Lemma R0_same t t' v :
  R0 t v -> Inv t' -> same_gfx t t' -> cur t' = cur t -> rotten t' = rotten t -> R0 t' v.
Proof.
  intros [] I' (E1 & E2 & E3 & E4 & E5 & E6 & E7 & E8 & E9 & E10 & E11 & E12) Hc Hr. constructor; try congruence; auto; hist.
Qed.

(* ---------- single bytes ---------- *)
Lemma addbytes_1 s b : addbytes s [b] = addbyte s b.
Proof. cbn [addbytes]. destruct (addbyte s b); reflexivity. Qed.

Lemma pc_cr s : m_display_ctrl (modes s) = false -> process_char s [13] = Ok (carriage_return s).
Proof. intros Hd. unfold process_char. destruct (cur s). cbv zeta. rewrite Hd. reflexivity. Qed.

Lemma pc_bs s : m_display_ctrl (modes s) = false ->
  process_char s [8] = (if 0 <? fst (cur s) then Ok (set_term_cursor (with_rotten s false) (fst (cur s) - 1) (snd (cur s)))
                        else Ok (with_rotten s false)).
Proof. intros Hd. unfold process_char. destruct (cur s). cbv zeta. rewrite Hd. reflexivity. Qed.

Lemma sim_cr s v : R s v -> exists s', addbytes s (enc_cmd CCr) = Ok s' /\ R s' (exec v CCr).
Proof.
  intros HR. pose proof (R_idle s v HR) as [He Hp Hu Hd Hm]. destruct HR as (H0 & _).
  cbn [enc_cmd exec]. rewrite addbytes_1. rewrite addbyte_ascii by (auto; lia). rewrite pc_cr by assumption.
  eexists. split; [reflexivity|]. unfold carriage_return.
  destruct (stc_frame (with_rotten s false) 0 (snd (cur s))) as (_ & _ & _ & Ei & Ep & _).
  split; [|split; [rewrite Ei; exact He|rewrite Ep; exact Hp]].
  pose proof (R0_bounds s v H0) as B. pose proof H0 as []. rewrite r_cur0. cbn [snd].
  erewrite with_xy_eq; [apply R0_move; assumption| |]; unfold clamp; split_ifs; lia.
Qed.

Lemma sim_bs s v : R s v -> exists s', addbytes s (enc_cmd CBs) = Ok s' /\ R s' (exec v CBs).
Proof.
  intros HR. pose proof (R_idle s v HR) as [He Hp Hu Hd Hm]. destruct HR as (H0 & _).
  cbn [enc_cmd exec]. rewrite addbytes_1. rewrite addbyte_ascii by (auto; lia). rewrite pc_bs by assumption.
  pose proof (R0_bounds s v H0) as B. pose proof H0 as []. rewrite r_cur0. cbn [fst snd].
  destruct (0 <? v_x v) eqn:C.
  - eexists. split; [reflexivity|].
    destruct (stc_frame (with_rotten s false) (v_x v - 1) (v_y v)) as (_ & _ & _ & Ei & Ep & _).
    split; [|split; [rewrite Ei; exact He|rewrite Ep; exact Hp]].
    erewrite with_xy_eq; [apply R0_move; assumption| |]; unfold clamp; split_ifs; lia.
  - eexists. split; [reflexivity|]. split; [|split; assumption].
    eapply R0_moved; [exact H0| | |exact r_cur0|reflexivity|discriminate].
    + eapply K_Inv. apply with_rotten_K. assumption.
    + repeat split.
Qed.

(* ---------- DECSTBM, DSR ---------- *)
Lemma cd_misc X args q c :
  csi_dispatch X c args q =
  (if c =? 114 then Ok (csi_set_scroll X (arg args 0) (arg args 1))
   else if c =? 110 then Ok (csi_status_report X (arg args 0))
   else csi_dispatch X c args q).
Proof.
  destruct (c =? 114) eqn:E1; [apply Z.eqb_eq in E1; subst; unfold csi_dispatch; destruct (cur X); reflexivity|].
  destruct (c =? 110) eqn:E2; [apply Z.eqb_eq in E2; subst; unfold csi_dispatch; destruct (cur X); reflexivity|].
  reflexivity.
Qed.

Lemma dflt_zero n : dflt_of 0 n = Z.max n 0.
Proof. unfold dflt_of, p2o. destruct (n <? 0) eqn:A; [lia|]. destruct (n =? 0) eqn:B; lia. Qed.

Lemma sim_stbm s v t b : R s v -> small t -> small b ->
  exists s', addbytes s (enc_cmd (CStbm t b)) = Ok s' /\ R s' (exec v (CStbm t b)).
Proof.
  intros HR Ht Hb. cbn [enc_cmd exec].
  eapply (sim_csi s v [t; b] 114 2 0 114); [assumption|repeat constructor; assumption|reflexivity|unfold plain_byte; lia|].
  intros X HX. rewrite cd_misc. replace (114 =? 114) with true by reflexivity.
  eexists. split; [reflexivity|]. rewrite csi_args_2. cbn [arg nth]. rewrite !dflt_zero.
  pose proof (R0_bounds X v HX) as B. pose proof HX as [].
  unfold csi_set_scroll. cbv zeta. rewrite r_h0.
  assert ((if Z.max t 0 =? 0 then 1 else Z.max t 0) = one t) as E1 by (unfold one; split_ifs; lia).
  assert ((if Z.max b 0 =? 0 then v_h v else Z.max b 0) = (if b <=? 0 then v_h v else b)) as E2 by (split_ifs; lia).
  assert (1 <= one t) as O1 by (unfold one; split_ifs; lia).
  rewrite E1, E2. set (b' := if b <=? 0 then v_h v else b). set (ot := one t) in *.
  destruct ((ot <? b') && (b' <=? v_h v)) eqn:C; [|exact HX].
  pose proof C as C'. apply andb_prop in C'. destruct C' as [C1 C2]. apply Z.ltb_lt in C1. apply Z.leb_le in C2.
  match goal with |- R0 (set_term_cursor (with_rotten ?S false) 0 0) _ => set (s2 := S) end.
  assert (Inv (set_term_cursor (with_rotten s2 false) 0 0)) as I2.
  { pose proof (csi_set_scroll_K X (Z.max t 0) (Z.max b 0) r_inv0) as Kc. unfold csi_set_scroll in Kc. cbv zeta in Kc.
    rewrite r_h0, E1, E2 in Kc. fold b' in Kc. rewrite C in Kc. apply K_Inv in Kc. exact Kc. }
  clearbody b' ot.
  destruct (stc_frame (with_rotten s2 false) 0 0) as ((F1 & F2 & F3 & F4 & F5 & F6 & F7 & F8 & F9 & F10 & F11 & F12) & Fc & Fr & _).
  assert (sr_start s2 = ot - 1) as S1.
  { subst s2. cbn [sr_start with_sr_end with_sr_start]. rewrite constrain_ign. rewrite r_h0. split_ifs; lia. }
  assert (sr_end s2 = b' - 1) as S2.
  { subst s2. cbn [sr_end with_sr_end]. rewrite constrain_ign. cbn [height with_sr_start]. rewrite r_h0. split_ifs; lia. }
  constructor; cbn [v_w v_h v_g v_x v_y v_pend v_top v_bot v_attr]; auto.
  - rewrite F1. exact r_w0.
  - rewrite F2. exact r_h0.
  - rewrite F3. exact r_grid0.
  - rewrite Fc. rewrite constrain_plain by (cbn; rewrite r_modes0; reflexivity). cbn [width height with_rotten].
    unfold clamp. subst s2. cbn [width height with_sr_end with_sr_start]. rewrite r_w0, r_h0. split_ifs; try lia. reflexivity.
  - rewrite F4. cbn [sr_start with_rotten]. exact S1.
  - rewrite F5. cbn [sr_end with_rotten]. exact S2.
  - discriminate.
  - rewrite F6. exact r_attr0.
  - rewrite F7. exact r_u9.
  - rewrite F8. exact r_modes0.
  - rewrite F9. exact r_cset0.
  - rewrite F10. exact r_tabs0.
  - rewrite F12. exact r_replies0.
  - rewrite F11. exact r_sb0.
Qed.

Lemma sim_dsr s v n : R s v -> small n ->
  exists s', addbytes s (enc_cmd (CDsr n)) = Ok s' /\ R s' (exec v (CDsr n)).
Proof.
  intros HR Hn. cbn [enc_cmd exec].
  eapply (sim_csi s v [n] 110 1 0 110); [assumption|repeat constructor; assumption|reflexivity|unfold plain_byte; lia|].
  intros X HX. rewrite cd_misc. replace (110 =? 114) with false by reflexivity. replace (110 =? 110) with true by reflexivity.
  eexists. split; [reflexivity|]. pose proof HX as []. pose proof (csi_status_report_K X (dflt_of 0 n) r_inv0) as Kc. apply K_Inv in Kc.
  rewrite csi_args_1 in *. cbn [arg nth] in *. rewrite dflt_zero in *.
  assert (forall r', replies_of (Respond r' :: events X) = replies_of (events X) ++ [r']) as Hr.
  { intros r'. unfold replies_of. cbn [rev]. rewrite flat_map_app. cbn [flat_map app]. reflexivity. }
  unfold csi_status_report, respond in *. rewrite r_cur0, r_modes0 in *. cbn [fst snd m_constrain modes0] in *. cbv zeta in *.
  destruct (Z.max n 0 =? 5) eqn:C5; [|destruct (Z.max n 0 =? 6) eqn:C6].
  - replace (n =? 5) with true by lia.
    constructor; cbn [v_w v_h v_g v_x v_y v_pend v_top v_bot v_attr v_sb v_sbknown v_replies events with_events]; auto.
    rewrite Hr, r_replies0, map_app. reflexivity.
  - replace (n =? 5) with false by lia. replace (n =? 6) with true by lia.
    constructor; cbn [v_w v_h v_g v_x v_y v_pend v_top v_bot v_attr v_sb v_sbknown v_replies events with_events]; auto.
    rewrite Hr, r_replies0, map_app. reflexivity.
  - replace (n =? 5) with false by lia. replace (n =? 6) with false by lia.
    constructor; cbn [v_w v_h v_g v_x v_y v_pend v_top v_bot v_attr v_sb v_sbknown v_replies v_cs]; auto.
    rewrite app_nil_r. exact r_replies0.
Qed.

(* ---------- the initial states are related ---------- *)
Lemma clear_fields s :
  m_constrain (modes s) = false ->
  let s' := clear s None in
  term s' = repeatz (empty_line s [32]) (height s) /\ cur s' = (clamp 0 (width s), clamp 0 (height s)) /\
  width s' = width s /\ height s' = height s /\ sr_start s' = sr_start s /\ sr_end s' = sr_end s /\
  rotten s' = rotten s /\ attrspec s' = attrspec s /\ u8eat s' = u8eat s /\ modes s' = modes s /\ cset s' = cset s /\
  inesc s' = inesc s /\ pstate s' = pstate s /\ tabstops s' = tabstops s /\ sb s' = sb s /\ events s' = events s.
Proof.
  intros Hm. unfold clear. cbv zeta.
  match goal with |- context [set_term_cursor ?S 0 0] => set (S0 := S) end.
  destruct (stc_frame S0 0 0) as ((F1 & F2 & F3 & F4 & F5 & F6 & F7 & F8 & F9 & F10 & F11 & F12) & Fc & Fr & Fi & Fp & _).
  rewrite F1, F2, F3, F4, F5, F6, F7, F8, F9, F10, F11, F12, Fc, Fr, Fi, Fp.
  rewrite constrain_plain by exact Hm. repeat split; reflexivity.
Qed.

Lemma reset_fields s :
  let s' := reset s in
  term s' = repeatz (repeatz (None, 0, [32]) (width s)) (height s) /\
  cur s' = (clamp 0 (width s), clamp 0 (height s)) /\
  width s' = width s /\ height s' = height s /\ sr_start s' = 0 /\ sr_end s' = height s - 1 /\
  rotten s' = false /\ attrspec s' = None /\ u8eat s' = u8eat s /\ modes s' = modes_reset (modes s) /\
  cset s' = charset_new /\ inesc s' = false /\ pstate s' = 0 /\ tabstops s' = tabs0 (width s) /\
  sb s' = sb s /\ events s' = events s.
Proof.
  unfold reset. cbv zeta.
  match goal with |- context [clear ?S None] => set (S0 := S) end.
  destruct (clear_fields S0 eq_refl) as (F1 & F2 & F3 & F4 & F5 & F6 & F7 & F8 & F9 & F10 & F11 & F12 & F13 & F14 & F15 & F16).
  cbv zeta in *. rewrite F1, F2, F3, F4, F5, F6, F7, F8, F9, F10, F11, F12, F13, F14, F15, F16.
  repeat split; reflexivity.
Qed.

Lemma Forall2_repeat {A B} (P : A -> B -> Prop) a b n : P a b -> Forall2 P (repeat a n) (repeat b n).
Proof. intros. induction n; cbn; constructor; auto. Qed.

Lemma R_reset S :
  Inv (reset S) -> 1 <= width S -> 1 <= height S -> u8eat S = None -> m_bracketed (modes S) = false ->
  sb S = [] -> events S = [] ->
  R (reset S) (vt_init (width S) (height S)).
Proof.
  intros I Hw Hh Hu Hb Hsb Hev.
  destruct (reset_fields S) as (F1 & F2 & F3 & F4 & F5 & F6 & F7 & F8 & F9 & F10 & F11 & F12 & F13 & F14 & F15 & F16). cbv zeta in *.
  split; [|split; assumption].
  constructor; cbn [vt_init v_w v_h v_g v_x v_y v_pend v_top v_bot v_attr];
    rewrite ?F1, ?F2, ?F3, ?F4, ?F5, ?F6, ?F7, ?F8, ?F9, ?F10, ?F11, ?F14, ?F15, ?F16, ?Hsb, ?Hev; auto; try reflexivity; try discriminate.
  - unfold repeatz. apply Forall2_repeat. apply Forall2_repeat. split; [reflexivity|]. split; [reflexivity|]. split; [split; exact Logic.I|reflexivity].
  - unfold clamp. split_ifs; try lia. reflexivity.
  - split; exact Logic.I.
  - unfold modes_reset, modes0. rewrite Hb. reflexivity.
  - unfold cs_rel, charset_new. cbn. repeat split; auto.
  - intros _. constructor.
Qed.

Definition raw0 (w h e : Z) : st := (mkSt w h [] (0, 0) (Some (0, 0)) false [] 0 None [] [] false 0 None charset_new None None false 0 (h - 1) [] (mkModes false false false false false false true true false charset_default_gen) [] e).
Lemma init_raw w h e : init w h e = reset (raw0 w h e).
Proof. reflexivity. Qed.

Lemma R_init w h e : 1 <= w -> 1 <= h -> R (init w h e) (vt_init w h).
Proof.
  intros Hw Hh. pose proof (init_Inv w h e Hw Hh) as I. rewrite init_raw in *.
  exact (R_reset (raw0 w h e) I Hw Hh eq_refl eq_refl eq_refl eq_refl).
Qed.

(* ---------- what R gives at the end ---------- *)
Lemma attr_round ra : RA_ok ra -> rattr_eqb (attr_as_ref (attr_of_ref ra)) ra = true.
Proof.
  destruct ra as [fg bg bo ul bl rv]. unfold RA_ok, attr_of_ref, attr_as_ref, rattr_eqb. cbn [r_fg r_bg r_bold r_ul r_blink r_rev].
  intros [Hf Hb].
  destruct fg as [f|], bg as [b|], bo, ul, bl, rv; cbn [is_none andb orb negb a_fg a_bg a_colors a_bold a_ul a_blink a_so
    r_fg r_bg r_bold r_ul r_blink r_rev ra0 oz_eqb Bool.eqb]; split_ifs; cbn [oz_eqb andb]; try lia; reflexivity.
Qed.

Lemma cell_rel_agrees c r : cell_rel c r -> cell_agrees c r = true.
Proof.
  destruct c as [[a cs] ch], r as [rc ra]. unfold cell_rel, cell_agrees. cbn [fst snd]. intros [-> H].
  cbn [list_eqb]. replace (rc =? rc) with true by lia. cbn [andb].
  destruct ra as [[ra rcs]|]; [|reflexivity]. destruct H as (-> & Hok & ->). rewrite attr_round by assumption.
  replace (rcs =? rcs) with true by lia. reflexivity.
Qed.

Lemma all2_Forall2 {A B} (f : A -> B -> bool) (P : A -> B -> Prop) l m :
  (forall a b, P a b -> f a b = true) -> Forall2 P l m -> all2 f l m = true.
Proof. intros Hf H. induction H; cbn [all2]; [reflexivity|]. rewrite (Hf _ _ H), IHForall2. reflexivity. Qed.

Lemma R0_agrees t v : R0 t v -> agrees t v = true.
Proof.
  intros []. unfold agrees. rewrite r_cur0, r_top0, r_bot0. cbn [fst snd].
  rewrite (all2_Forall2 _ (Forall2 cell_rel) _ _ (fun a b => all2_Forall2 _ cell_rel a b cell_rel_agrees) r_grid0).
  cbn [andb]. lia.
Qed.

(* ---------- the relation without the pending-wrap part (holds in the middle of a command) ---------- *)
Record Rg (t : st) (v : vt) : Prop := mkRg {
  g_inv : Inv t;
  g_w : width t = v_w v;
  g_h : height t = v_h v;
  g_grid : grid_rel (term t) (v_g v);
  g_cur : cur t = (v_x v, v_y v);
  g_top : sr_start t = v_top v;
  g_bot : sr_end t = v_bot v;
  g_attr : attrspec t = attr_of_ref (v_attr v);
  g_raok : RA_ok (v_attr v);
  g_u8 : u8eat t = None;
  g_modes : modes t = modes0;
  g_cset : cs_rel (cset t) (v_cs v);
  g_tabs : tabstops t = tabs0 (v_w v);
  g_replies : replies_of (events t) = map render_reply (v_replies v);
  g_sb : v_sbknown v = true -> grid_rel (sb t) (tail_max (v_sb v)) }.

Lemma R0_Rg t v : R0 t v -> Rg t v.
Proof. intros []. constructor; assumption. Qed.

Lemma Rg_R0 t v : Rg t v -> rotten t = v_pend v -> (v_pend v = true -> v_x v = v_w v - 1) -> R0 t v.
Proof. intros [] H1 H2. constructor; assumption. Qed.

Lemma Rg_bounds t v : Rg t v ->
  1 <= v_w v /\ 1 <= v_h v /\ 0 <= v_x v < v_w v /\ 0 <= v_y v < v_h v /\
  0 <= v_top v /\ v_top v <= v_bot v /\ v_bot v < v_h v /\ zlen (v_g v) = v_h v.
Proof.
  intros []. pose proof (Forall2_zlen _ _ _ g_grid0) as L. destruct g_inv0. rewrite g_cur0 in *. cbn [fst snd] in *.
  unfold row, cell, rrow, rcell in *. lia.
Qed.

(* Rg does not read the pending flag of the reference, nor rotten / parser fields of the emulator *)
Lemma Rg_pend t v x y p p' : Rg t (with_xy v x y p) -> Rg t (with_xy v x y p').
Proof. intros []. constructor; assumption. Qed.

Lemma Rg_same t t' v :
  Rg t v -> Inv t' -> same_gfx t t' -> cur t' = cur t -> Rg t' v.
Proof.
  intros [] I' (E1 & E2 & E3 & E4 & E5 & E6 & E7 & E8 & E9 & E10 & E11 & E12) Hc. constructor; try congruence; auto; hist.
Qed.

Lemma Rg_rotten t v b : Rg t v -> Rg (with_rotten t b) v.
Proof.
  intros H. eapply Rg_same; [exact H|eapply K_Inv; apply with_rotten_K; apply H| |reflexivity]. repeat split.
Qed.

(* moving the cursor *)
Lemma Rg_move t v x y p :
  Rg t v -> Rg (set_term_cursor t x y) (with_xy v (clamp x (v_w v)) (clamp y (v_h v)) p).
Proof.
  intros H. pose proof H as [].
  destruct (stc_frame t x y) as ((E1 & E2 & E3 & E4 & E5 & E6 & E7 & E8 & E9 & E10 & E11 & E12) & C & _).
  constructor; cbn [with_xy v_w v_h v_g v_x v_y v_pend v_top v_bot v_attr v_sb v_sbknown v_replies v_cs]; try congruence; auto; hist.
  - eapply K_Inv. apply set_term_cursor_K. assumption.
  - rewrite C. rewrite constrain_plain by (rewrite g_modes0; reflexivity). rewrite g_w0, g_h0. reflexivity.
Qed.

(* ---------- rows ---------- *)
Definition rowz (t : list row) (y : Z) : row := match nthz t y with Some r => r | None => [] end.

Lemma rowz_rel t g y : grid_rel t g -> 0 <= y < zlen t ->
  nthz t y = Some (rowz t y) /\ nthz g y = Some (nth_row g y) /\ Forall2 cell_rel (rowz t y) (nth_row g y).
Proof.
  intros H Hy. destruct (nthz_some t y Hy) as (r & Hr & _). unfold rowz, nth_row.
  destruct (Forall2_nthz _ _ _ _ _ H Hr) as (r' & Hr' & P). unfold row, cell, rrow, rcell in *. rewrite Hr, Hr'. auto.
Qed.

Lemma grid_set_row t g y r r' :
  grid_rel t g -> Forall2 cell_rel r r' ->
  grid_rel (takez y t ++ r :: dropz (y + 1) t) (set_row g y r').
Proof.
  intros H Hr. unfold set_row, grid_rel. apply Forall2_app; [apply Forall2_takez; exact H|].
  constructor; [exact Hr|apply Forall2_dropz; exact H].
Qed.

Lemma blank_rel t n : Forall2 cell_rel (repeatz (empty_char t [32]) n) (blanks n).
Proof. unfold repeatz, blanks. apply Forall2_repeat'. split; [reflexivity|exact Logic.I]. Qed.

Lemma blank_line_rel t v : Rg t v -> Forall2 cell_rel (empty_line t [32]) (blanks (v_w v)).
Proof. intros []. unfold empty_line. rewrite g_w0. apply blank_rel. Qed.

(* replacing the grid *)
Lemma Rg_term t v t1 g1 :
  Rg t v -> Dims (width t) (height t) t1 -> grid_rel t1 g1 -> Rg (with_term t t1) (with_g v g1).
Proof.
  intros H D G. pose proof H as [].
  constructor; cbn [with_g v_w v_h v_g v_x v_y v_pend v_top v_bot v_attr width height term cur sr_start sr_end attrspec
                    u8eat modes cset with_term]; auto.
  eapply K_Inv. apply with_term_K; assumption.
Qed.

Lemma Dims_rel w h t g : grid_rel t g -> zlen g = h -> Forall (fun r : rrow => zlen r = w) g -> Dims w h t.
Proof.
  unfold Dims, grid_rel, row, cell, rrow, rcell. intros G L F.
  split; [pose proof (Forall2_zlen _ _ _ G); lia|]. clear L.
  induction G; constructor.
  - inversion F; subst. pose proof (Forall2_zlen _ _ _ H). lia.
  - inversion F; subst. apply IHG. assumption.
Qed.

Lemma Rg_upd t t' v g1 :
  Rg t v -> Inv t' -> width t' = width t -> height t' = height t -> cur t' = cur t -> sr_start t' = sr_start t ->
  sr_end t' = sr_end t -> attrspec t' = attrspec t -> u8eat t' = u8eat t -> modes t' = modes t -> cset t' = cset t ->
  tabstops t' = tabstops t -> sb t' = sb t -> events t' = events t -> grid_rel (term t') g1 -> Rg t' (with_g v g1).
Proof.
  intros [] I' E1 E2 E3 E4 E5 E6 E7 E8 E9 E10 E11 E12 G.
  constructor; cbn [with_g v_w v_h v_g v_x v_y v_pend v_top v_bot v_attr v_sb v_sbknown v_replies v_cs]; try congruence; auto; hist.
Qed.

Lemma rowz_len t y : Inv t -> 0 <= y < height t -> zlen (rowz (term t) y) = width t.
Proof.
  intros I Hy. pose proof (i_rows t I) as Hr. pose proof (i_cols t I) as Hc.
  destruct (nthz_some (term t) y) as (r & E & Hin); [lia|]. unfold rowz. rewrite E.
  rewrite Forall_forall in Hc. apply Hc. assumption.
Qed.

Lemma clamp_in x n : 0 <= x < n -> clamp x n = x.
Proof. intros. unfold clamp. split_ifs; lia. Qed.

(* TermCanvas.set_char at the cursor *)
Definition put_term (t : st) (ch : list Z) : list row :=
  let x := fst (cur t) in let y := snd (cur t) in let r := rowz (term t) y in
  takez y (term t) ++ (takez x r ++ (attrspec t, cs_current (cset t), ch) :: dropz (x + 1) r) :: dropz (y + 1) (term t).

Lemma set_char_eq t v ch :
  Rg t v -> set_char t ch (fst (cur t)) (snd (cur t)) = Ok (with_term t (put_term t ch)).
Proof.
  intros H. pose proof (Rg_bounds t v H) as B. pose proof H as [].
  unfold set_char. rewrite constrain_plain by (rewrite g_modes0; reflexivity).
  rewrite g_cur0. cbn [fst snd]. rewrite g_w0, g_h0. rewrite !clamp_in by lia.
  assert (0 <= v_y v < zlen (term t)) as Hy by (rewrite (i_rows t g_inv0), g_h0; lia).
  destruct (rowz_rel (term t) (v_g v) (v_y v) g_grid0 Hy) as (N1 & _ & _).
  assert (0 <= v_y v) as Hy0 by lia. rewrite (get_index_nthz (term t) (v_y v) _ Hy0 N1). cbn [bind].
  pose proof (rowz_len t (v_y v) g_inv0 ltac:(lia)) as Lr.
  rewrite set_index_eq by lia. cbn [bind]. rewrite set_index_eq by lia. cbn [bind].
  unfold put_term. rewrite g_cur0. reflexivity.
Qed.

(* the reference's effect of writing a character at its cursor *)
Definition put_ref (v : vt) (ch : Z) : vt :=
  let r := nth_row (v_g v) (v_y v) in
  with_g v (set_row (v_g v) (v_y v) (takez (v_x v) r ++ (ch, Some (v_attr v, cur_cs v)) :: dropz (v_x v + 1) r)).

Lemma put_grid_rel t v ch : Rg t v -> grid_rel (put_term t [ch]) (v_g (put_ref v ch)).
Proof.
  intros H. pose proof (Rg_bounds t v H) as B. pose proof H as [].
  unfold put_term, put_ref. cbv zeta. rewrite g_cur0. cbn [fst snd with_g v_g].
  assert (0 <= v_y v < zlen (term t)) as Hy by (rewrite (i_rows t g_inv0), g_h0; lia).
  destruct (rowz_rel (term t) (v_g v) (v_y v) g_grid0 Hy) as (_ & _ & Rr).
  apply grid_set_row; [assumption|].
  apply Forall2_app; [apply Forall2_takez; exact Rr|]. constructor; [|apply Forall2_dropz; exact Rr].
  split; [reflexivity|]. cbn [fst snd]. split; [assumption|]. split; [assumption|].
  unfold cs_rel, cur_cs in *. destruct (v_cs v) as [[g0 g1] sh]. destruct g_cset0 as (_ & _ & _ & _ & _ & _ & _ & Ec). exact Ec.
Qed.

Lemma apply_mapping_id c k ch : cs_rel c k -> apply_mapping c ch = (c, ch).
Proof.
  destruct k as [[g0 g1] sh]. intros (E1 & E2 & E3 & E4 & E5 & E6 & E7 & E8). unfold apply_mapping, cs_g. rewrite E1, E6.
  destruct E7 as [-> | [-> Hg]].
  - replace (0 =? 0) with true by reflexivity. rewrite E2. destruct E3 as [-> | ->]; reflexivity.
  - replace (1 =? 0) with false by reflexivity. destruct E4 as [-> | ->]; reflexivity.
Qed.

Lemma apply_mapping_new ch : apply_mapping charset_new ch = (charset_new, ch).
Proof. reflexivity. Qed.

(* TermCanvas.push_char *)
Lemma push_char_Rg t v ch x' y' p :
  Rg t v ->
  exists t', push_char t [ch] x' y' = Ok t' /\
             Rg t' (with_xy (put_ref v ch) (clamp x' (v_w v)) (clamp y' (v_h v)) p) /\
             rotten t' = rotten t /\ inesc t' = inesc t /\ pstate t' = pstate t.
Proof.
  intros H. pose proof H as [].
  unfold push_char. rewrite (apply_mapping_id _ _ [ch] g_cset0).
  set (t0 := with_cset t (cset t)).
  assert (Rg t0 v) as H0.
  { eapply Rg_same; [exact H|eapply K_Inv; apply with_cset_K; assumption| |reflexivity]. repeat split; reflexivity. }
  replace (m_insert (modes t0)) with false by (subst t0; cbn [modes with_cset]; rewrite g_modes0; reflexivity).
  rewrite (set_char_eq t0 v [ch] H0). cbn [bind].
  set (t1 := with_term t0 (put_term t0 [ch])).
  assert (Rg t1 (put_ref v ch)) as H1.
  { pose proof (set_char_Keeps t0 [ch] (fst (cur t0)) (snd (cur t0)) (g_inv t0 v H0)) as Kp.
    rewrite (set_char_eq t0 v [ch] H0) in Kp. apply K_Inv in Kp.
    unfold put_ref. cbv zeta. eapply Rg_upd; [exact H0|exact Kp|..]; try reflexivity.
    apply (put_grid_rel t0 v ch H0). }
  eexists. split; [reflexivity|].
  destruct (stc_frame t1 x' y') as (_ & _ & Fr & Fi & Fp & _).
  split; [|split; [rewrite Fr; reflexivity|split; [rewrite Fi; reflexivity|rewrite Fp; reflexivity]]].
  pose proof (Rg_move t1 (put_ref v ch) x' y' p H1) as M. exact M.
Qed.

(* ---------- scrolling ---------- *)
Lemma tail_max_push (b : list row) (l : list rrow) r r' :
  grid_rel b (tail_max l) -> Forall2 cell_rel r r' -> grid_rel (sb_push b r) (tail_max (l ++ [r'])).
Proof.
  intros Hb Hr. pose proof (Forall2_zlen _ _ _ Hb) as Lb. unfold grid_rel, tail_max, sb_push in *. cbv zeta.
  unfold scrollback_maxlen_gen in *. unfold row, cell, rrow, rcell in *. pose proof (zlen_nonneg l) as Ll.
  assert (zlen (l ++ [r']) = zlen l + 1) as La by (unfold zlen; rewrite app_length; cbn [length]; lia).
  assert (zlen (b ++ [r]) = zlen b + 1) as Lba by (unfold zlen; rewrite app_length; cbn [length]; lia).
  rewrite La, Lba.
  destruct (Z_lt_ge_dec (zlen l) 10000) as [C|C].
  - rewrite (dropz_nonpos l) in * by lia. rewrite (dropz_nonpos (l ++ [r'])) by lia.
    replace (10000 <? zlen b + 1) with false by lia. apply Forall2_app; [exact Hb|]. constructor; [exact Hr|constructor].
  - rewrite zlen_dropz in Lb by lia.
    replace (10000 <? zlen b + 1) with true by lia.
    replace (zlen l + 1 - 10000) with (1 + (zlen l - 10000)) by lia.
    rewrite <- dropz_dropz' by lia. apply Forall2_dropz.
    rewrite dropz_app. rewrite (dropz_nonpos [r']) by lia.
    apply Forall2_app; [exact Hb|]. constructor; [exact Hr|constructor].
Qed.

Lemma scroll_up_Rg t v :
  Rg t v ->
  exists t', scroll t false = Ok t' /\ Rg t' (scroll_up v) /\
             rotten t' = rotten t /\ inesc t' = inesc t /\ pstate t' = pstate t.
Proof.
  intros H. pose proof (Rg_bounds t v H) as B. pose proof H as [].
  pose proof (scroll_Keeps t false g_inv0) as Kp.
  unfold scroll in *. rewrite g_top0 in *.
  assert (zlen (term t) = v_h v) as Lt by (rewrite (i_rows t g_inv0); exact g_h0).
  destruct (rowz_rel (term t) (v_g v) (v_top v) g_grid0 ltac:(lia)) as (N1 & _ & _).
  rewrite (pop_eq (term t) (v_top v) _ ltac:(lia) N1) in *. cbn [bind fst snd] in *.
  set (t1 := sb_append t (rowz (term t) (v_top v))) in *.
  set (T := takez (v_top v) (term t) ++ dropz (v_top v + 1) (term t)) in *.
  assert (zlen T = v_h v - 1) as LT.
  { subst T. rewrite zlen_app, zlen_takez, zlen_dropz by lia. lia. }
  change (sr_end t1) with (sr_end t) in *. rewrite g_bot0 in *.
  rewrite (insert_eq T (v_bot v)) in * by lia.
  eexists. split; [reflexivity|]. split; [|repeat split; reflexivity].
  apply K_Inv in Kp.
  unfold scroll_up.
  destruct (rowz_rel (term t) (v_g v) (v_top v) g_grid0 ltac:(lia)) as (_ & _ & Rtop).
  constructor; cbn [v_w v_h v_g v_x v_y v_pend v_top v_bot v_attr v_sb v_sbknown v_replies v_cs]; auto.
  2:{ intros Hk. apply andb_prop in Hk. destruct Hk as [Hk1 Hk2]. rewrite Hk2. apply Z.eqb_eq in Hk2.
      cbn [sb with_term]. subst t1. unfold sb_append. cbv zeta. cbn [sb with_sb]. fold (sb_push (sb t) (rowz (term t) (v_top v))).
      apply tail_max_push; [apply g_sb0; exact Hk1|]. rewrite Hk2 in Rtop. rewrite Hk2. exact Rtop. }
  subst T. cbn [term with_term].
  rewrite (scroll_up_list (term t) (v_top v) (v_bot v)) by lia.
  unfold grid_rel, sub. replace (v_bot v + 1 - (v_top v + 1)) with (v_bot v - v_top v) by lia.
  apply Forall2_app; [apply Forall2_takez; exact g_grid0|].
  apply Forall2_app; [apply Forall2_takez; apply Forall2_dropz; exact g_grid0|].
  constructor; [|apply Forall2_dropz; exact g_grid0].
  unfold empty_line. change (width t1) with (width t). rewrite g_w0. apply blank_rel.
Qed.

Lemma scroll_down_Rg t v :
  Rg t v ->
  exists t', scroll t true = Ok t' /\ Rg t' (scroll_down v) /\
             rotten t' = rotten t /\ inesc t' = inesc t /\ pstate t' = pstate t.
Proof.
  intros H. pose proof (Rg_bounds t v H) as B. pose proof H as [].
  pose proof (scroll_Keeps t true g_inv0) as Kp.
  unfold scroll in *. rewrite g_top0, g_bot0 in *.
  assert (zlen (term t) = v_h v) as Lt by (rewrite (i_rows t g_inv0); exact g_h0).
  destruct (rowz_rel (term t) (v_g v) (v_bot v) g_grid0 ltac:(lia)) as (N1 & _ & _).
  rewrite (pop_eq (term t) (v_bot v) _ ltac:(lia) N1) in *. cbn [bind fst snd] in *.
  set (T := takez (v_bot v) (term t) ++ dropz (v_bot v + 1) (term t)) in *.
  assert (zlen T = v_h v - 1) as LT.
  { subst T. rewrite zlen_app, zlen_takez, zlen_dropz by lia. lia. }
  rewrite (insert_eq T (v_top v)) in * by lia.
  eexists. split; [reflexivity|]. split; [|repeat split; reflexivity].
  apply K_Inv in Kp.
  unfold scroll_down.
  eapply Rg_upd; [exact H|exact Kp|..]; try reflexivity.
  subst T. cbn [term with_term].
  rewrite (scroll_down_list (term t) (v_top v) (v_bot v)) by lia.
  unfold grid_rel, sub.
  apply Forall2_app; [apply Forall2_takez; exact g_grid0|].
  constructor; [rewrite <- g_w0; apply blank_rel|].
  apply Forall2_app; [apply Forall2_takez; apply Forall2_dropz; exact g_grid0|apply Forall2_dropz; exact g_grid0].
Qed.

(* ---------- LF, RI ---------- *)
Lemma with_xy_id v : with_xy v (v_x v) (v_y v) (v_pend v) = v.
Proof. destruct v. reflexivity. Qed.

Lemma Rg_stay t v : Rg t v -> Rg (set_term_cursor t (v_x v) (v_y v)) v.
Proof.
  intros H. pose proof (Rg_bounds t v H) as B.
  pose proof (Rg_move t v (v_x v) (v_y v) (v_pend v) H) as M.
  rewrite !clamp_in in M by lia. rewrite with_xy_id in M. exact M.
Qed.

Lemma linefeed_Rg t v :
  Rg t v ->
  exists t', linefeed t false = Ok t' /\ Rg t' (index v) /\
             rotten t' = rotten t /\ inesc t' = inesc t /\ pstate t' = pstate t.
Proof.
  intros H. pose proof (Rg_bounds t v H) as B. pose proof H as [].
  unfold linefeed, index. rewrite g_cur0, g_h0, g_bot0.
  destruct ((v_h v - 1 <=? v_y v) && (v_bot v <? v_h v - 1)) eqn:C1.
  - replace (v_y v =? v_bot v) with false by lia. replace (v_y v <? v_h v - 1) with false by lia.
    eexists. split; [reflexivity|]. split; [apply Rg_stay; assumption|].
    destruct (stc_frame t (v_x v) (v_y v)) as (_ & _ & Fr & Fi & Fp & _). auto.
  - destruct (v_y v =? v_bot v) eqn:C2.
    + destruct (scroll_up_Rg t v H) as (t1 & E1 & H1 & Fr1 & Fi1 & Fp1). rewrite E1. cbn [bind].
      eexists. split; [reflexivity|].
      destruct (stc_frame t1 (v_x v) (v_y v)) as (_ & _ & Fr & Fi & Fp & _).
      split; [|rewrite Fr, Fi, Fp; auto].
      apply (Rg_stay t1 (scroll_up v) H1).
    + replace (v_y v <? v_h v - 1) with true by lia.
      eexists. split; [reflexivity|].
      destruct (stc_frame t (v_x v) (v_y v + 1)) as (_ & _ & Fr & Fi & Fp & _).
      split; [|auto].
      pose proof (Rg_move t v (v_x v) (v_y v + 1) (v_pend v) H) as M. rewrite !clamp_in in M by lia. exact M.
Qed.

Lemma rlinefeed_Rg t v :
  Rg t v ->
  exists t', linefeed t true = Ok t' /\ Rg t' (exec v CRi) /\
             rotten t' = rotten t /\ inesc t' = inesc t /\ pstate t' = pstate t.
Proof.
  intros H. pose proof (Rg_bounds t v H) as B. pose proof H as [].
  unfold linefeed. cbn [exec]. rewrite g_cur0, g_top0.
  destruct ((v_y v <=? 0) && (0 <? v_top v)) eqn:C1.
  - replace (v_y v =? v_top v) with false by lia. replace (0 <? v_y v) with false by lia.
    eexists. split; [reflexivity|]. split; [apply Rg_stay; assumption|].
    destruct (stc_frame t (v_x v) (v_y v)) as (_ & _ & Fr & Fi & Fp & _). auto.
  - destruct (v_y v =? v_top v) eqn:C2.
    + destruct (scroll_down_Rg t v H) as (t1 & E1 & H1 & Fr1 & Fi1 & Fp1). rewrite E1. cbn [bind].
      eexists. split; [reflexivity|].
      destruct (stc_frame t1 (v_x v) (v_y v)) as (_ & _ & Fr & Fi & Fp & _).
      split; [|rewrite Fr, Fi, Fp; auto].
      apply (Rg_stay t1 (scroll_down v) H1).
    + replace (0 <? v_y v) with true by lia.
      eexists. split; [reflexivity|].
      destruct (stc_frame t (v_x v) (v_y v - 1)) as (_ & _ & Fr & Fi & Fp & _).
      split; [|auto].
      pose proof (Rg_move t v (v_x v) (v_y v - 1) (v_pend v) H) as M. rewrite !clamp_in in M by lia. exact M.
Qed.

Lemma pc_lf s : m_display_ctrl (modes s) = false ->
  process_char s [10] = bind (linefeed s false) (fun s' => if m_lfnl (modes s') then Ok (carriage_return s') else Ok s').
Proof. intros Hd. unfold process_char. destruct (cur s). cbv zeta. rewrite Hd. reflexivity. Qed.

Lemma index_pend v : v_pend (index v) = v_pend v /\ (v_pend v = false -> True).
Proof. unfold index, scroll_up. split_ifs; cbn; auto. Qed.

Lemma index_xw v : v_x (index v) = v_x v /\ v_w (index v) = v_w v.
Proof. unfold index, scroll_up. split_ifs; cbn; auto. Qed.

Lemma sim_lf s v : R s v -> ambiguous v CLf = false ->
  exists s', addbytes s (enc_cmd CLf) = Ok s' /\ R s' (exec v CLf).
Proof.
  intros HR Ha. pose proof (R_idle s v HR) as [He Hp Hu Hd Hm]. destruct HR as (H0 & _).
  cbn [enc_cmd exec ambiguous] in *. rewrite addbytes_1. rewrite addbyte_ascii by (auto; lia). rewrite pc_lf by assumption.
  destruct (linefeed_Rg s v (R0_Rg s v H0)) as (s1 & E & H1 & Fr & Fi & Fp). rewrite E. cbn [bind].
  rewrite (g_modes s1 _ H1). cbn [m_lfnl modes0].
  eexists. split; [reflexivity|]. split; [|split; congruence].
  destruct (index_pend v) as [P1 _]. destruct (index_xw v) as [X1 X2].
  apply Rg_R0; [exact H1|rewrite Fr, P1; apply (r_pend s v H0)|rewrite P1, Ha; discriminate].
Qed.

Lemma R_leave2 t v : R0 t v -> R (leave_escape t) v.
Proof.
  intros H. split; [|split; reflexivity]. eapply R0_parser; [eassumption|..]; try reflexivity. repeat split.
Qed.

Lemma sim_ri s v : R s v -> ambiguous v CRi = false ->
  exists s', addbytes s (enc_cmd CRi) = Ok s' /\ R s' (exec v CRi).
Proof.
  intros HR Ha. pose proof (R_idle s v HR) as [He Hp Hu Hd Hm]. destruct HR as (H0 & _).
  cbn [enc_cmd ambiguous] in *. cbn [addbytes].
  rewrite addbyte_ascii by (auto; lia).
  assert (process_char s [27] = Ok (with_inesc s true)) as E1.
  { unfold process_char. destruct (cur s). cbv zeta. rewrite Hp. reflexivity. }
  rewrite E1. cbn [bind]. set (s1 := with_inesc s true).
  assert (R0 s1 v) as H1 by (eapply R0_parser; [exact H0|..]; try reflexivity; repeat split).
  rewrite addbyte_ascii by (auto; lia).
  rewrite process_char_plain by (auto; unfold plain_byte; lia).
  change (inesc s1) with true. cbv iota.
  assert (parse_escape s1 [77] = bind (linefeed s1 true) (fun s' => Ok (leave_escape s'))) as E2.
  { unfold parse_escape. cbv zeta. change (pstate s1) with (pstate s). rewrite Hp. reflexivity. }
  rewrite E2.
  destruct (rlinefeed_Rg s1 v (R0_Rg s1 v H1)) as (s2 & E & H2 & Fr & Fi & Fp). rewrite E. cbn [bind].
  eexists. split; [reflexivity|]. apply R_leave2.
  assert (v_pend (exec v CRi) = v_pend v) as P1 by (cbn [exec]; unfold scroll_down; split_ifs; reflexivity).
  apply Rg_R0; [exact H2|rewrite Fr, P1; apply (r_pend s1 v H1)|rewrite P1, Ha; discriminate].
Qed.

(* ---------- printable characters ---------- *)
Lemma scroll_up_xy v x y p : scroll_up (with_xy v x y p) = with_xy (scroll_up v) x y p.
Proof. destruct v. reflexivity. Qed.

Lemma put_ref_fields v ch :
  v_w (put_ref v ch) = v_w v /\ v_h (put_ref v ch) = v_h v /\ v_x (put_ref v ch) = v_x v /\ v_y (put_ref v ch) = v_y v.
Proof. unfold put_ref. cbv zeta. repeat split; reflexivity. Qed.

Lemma exec_ch v ch :
  exec v (CCh ch) =
  (let v0 := if v_pend v then index (with_xy v 0 (v_y v) false) else v in
   if v_x v0 =? v_w v - 1 then with_xy (put_ref v0 ch) (v_x v0) (v_y v0) true
   else with_xy (put_ref v0 ch) (v_x v0 + 1) (v_y v0) false).
Proof. reflexivity. Qed.

Lemma sim_ch s v ch : R s v -> 32 <= ch <= 126 ->
  exists s', addbytes s (enc_cmd (CCh ch)) = Ok s' /\ R s' (exec v (CCh ch)).
Proof.
  intros HR Hc. pose proof (R_idle s v HR) as [He Hp Hu Hd Hm]. destruct HR as (H0 & _).
  pose proof (R0_bounds s v H0) as B. pose proof H0 as [].
  cbn [enc_cmd]. rewrite addbytes_1. rewrite addbyte_ascii by (auto; lia).
  rewrite process_char_plain by (auto; unfold plain_byte; lia). rewrite He.
  rewrite exec_ch. cbv zeta.
  unfold push_cursor. rewrite r_cur0. rewrite r_modes0. cbn [m_autowrap modes0]. rewrite r_w0, r_pend0.
  destruct (v_pend v) eqn:P.
  - (* a pending wrap is performed first *)
    specialize (r_pendx0 eq_refl).
    cbn [negb]. rewrite andb_false_r. cbv zeta.
    replace ((v_w v <=? v_x v + 1) && true) with true by lia.
    rewrite r_bot0, r_h0.
    set (v1 := index (with_xy v 0 (v_y v) false)).
    assert (exists t1 y', (do s' <- (if v_y v =? v_bot v then scroll s false else Ok s);
                           Ok (set_term_cursor s' 0 (if v_y v =? v_bot v then v_y v else if v_y v <? v_h v - 1 then v_y v + 1 else v_y v),
                               1, (if v_y v =? v_bot v then v_y v else if v_y v <? v_h v - 1 then v_y v + 1 else v_y v)))
                          = Ok (t1, 1, y') /\ Rg t1 v1 /\ y' = v_y v1 /\ rotten t1 = true /\ inesc t1 = false /\ pstate t1 = 0)
      as (t1 & y' & E1 & H1 & Ey & Fr1 & Fi1 & Fp1).
    { subst v1. unfold index. cbn [with_xy v_y v_bot v_h v_x v_pend].
      destruct (v_y v =? v_bot v) eqn:C2.
      - destruct (scroll_up_Rg s v (R0_Rg s v H0)) as (t0 & E0 & G0 & Fr0 & Fi0 & Fp0). rewrite E0. cbn [bind].
        eexists _, _. split; [reflexivity|].
        destruct (stc_frame t0 0 (v_y v)) as (_ & _ & Fr & Fi & Fp & _).
        rewrite scroll_up_xy. split; [|split; [reflexivity|rewrite Fr, Fi, Fp; repeat split; congruence]].
        pose proof (Rg_move t0 (scroll_up v) 0 (v_y v) false G0) as M.
        change (v_w (scroll_up v)) with (v_w v) in M. change (v_h (scroll_up v)) with (v_h v) in M.
        rewrite !clamp_in in M by lia. exact M.
      - cbn [bind]. destruct (v_y v <? v_h v - 1) eqn:C3.
        + eexists _, _. split; [reflexivity|].
          destruct (stc_frame s 0 (v_y v + 1)) as (_ & _ & Fr & Fi & Fp & _).
          split; [|split; [reflexivity|rewrite Fr, Fi, Fp; repeat split; congruence]].
          pose proof (Rg_move s v 0 (v_y v + 1) false (R0_Rg s v H0)) as M. rewrite !clamp_in in M by lia. exact M.
        + eexists _, _. split; [reflexivity|].
          destruct (stc_frame s 0 (v_y v)) as (_ & _ & Fr & Fi & Fp & _).
          split; [|split; [reflexivity|rewrite Fr, Fi, Fp; repeat split; congruence]].
          pose proof (Rg_move s v 0 (v_y v) false (R0_Rg s v H0)) as M. rewrite !clamp_in in M by lia. exact M. }
    rewrite E1. cbn [bind].
    assert (v_w v1 = v_w v /\ v_h v1 = v_h v /\ v_x v1 = 0 /\ 0 <= v_y v1 < v_h v) as (W1 & Hh1 & X1 & Y1).
    { pose proof (Rg_bounds t1 v1 H1) as B1. subst v1. unfold index, scroll_up in *. cbn [with_xy v_y v_bot v_h v_x v_w] in *.
      split_ifs; cbn [v_w v_h v_x v_y with_xy] in *; repeat split; lia. }
    destruct (push_char_Rg t1 v1 ch 1 y' (v_w v <=? 1) H1) as (t2 & E2 & H2 & Fr2 & Fi2 & Fp2).
    rewrite E2. cbn [bind]. eexists. split; [reflexivity|].
    change (width t2) with (width t2).
    assert (width t2 = v_w v) as W2.
    { rewrite (g_w t2 _ H2). cbn [with_xy v_w]. destruct (put_ref_fields v1 ch) as (Q & _). rewrite Q. exact W1. }
    rewrite W2. rewrite X1.
    split; [|split; [cbn; congruence|cbn; congruence]].
    apply Rg_R0.
    + apply Rg_rotten.
      rewrite W1, Hh1 in H2. rewrite Ey in H2. rewrite (clamp_in (v_y v1)) in H2 by lia.
      unfold clamp in H2.
      destruct (0 =? v_w v - 1) eqn:C4.
      * replace (v_w v <=? 1) with true in H2 by lia. replace (v_w v - 1) with 0 in H2 by lia. exact H2.
      * replace (v_w v <=? 1) with false in H2 by lia. replace (1 <? 0) with false in H2 by reflexivity.
        eapply Rg_pend. exact H2.
    + cbn [rotten with_rotten]. destruct (0 =? v_w v - 1) eqn:C4; cbn [with_xy v_pend]; lia.
    + destruct (0 =? v_w v - 1) eqn:C4; cbn [with_xy v_pend v_x v_w]; [|discriminate].
      intros _. destruct (put_ref_fields v1 ch) as (Q & _). rewrite Q, W1. lia.
  - (* no pending wrap *)
    cbn [negb]. rewrite andb_true_r, andb_false_r.
    destruct (v_w v <=? v_x v + 1) eqn:C1.
    + (* last column: the character goes there and the wrap becomes pending *)
      replace (v_x v =? v_w v - 1) with true by lia.
      destruct (push_char_Rg (with_rotten s true) v ch (v_x v) (v_y v) true (Rg_rotten s v true (R0_Rg s v H0)))
        as (t2 & E2 & H2 & Fr2 & Fi2 & Fp2).
      rewrite E2. eexists. split; [reflexivity|].
      split; [|split; [rewrite Fi2; exact He|rewrite Fp2; exact Hp]].
      rewrite !clamp_in in H2 by lia.
      apply Rg_R0; [exact H2|rewrite Fr2; reflexivity|].
      intros _. cbn [with_xy v_x v_w]. destruct (put_ref_fields v ch) as (Q & _). rewrite Q. lia.
    + replace (v_x v =? v_w v - 1) with false by lia. cbv zeta. cbn [bind].
      destruct (push_char_Rg s v ch (v_x v + 1) (v_y v) false (R0_Rg s v H0)) as (t2 & E2 & H2 & Fr2 & Fi2 & Fp2).
      rewrite E2. cbn [bind]. eexists. split; [reflexivity|].
      split; [|split; [cbn; congruence|cbn; congruence]].
      rewrite !clamp_in in H2 by lia.
      assert (width t2 = v_w v) as W2.
      { rewrite (g_w t2 _ H2). cbn [with_xy v_w]. destruct (put_ref_fields v ch) as (Q & _). exact Q. }
      rewrite W2. replace (v_w v <=? v_x v + 1) with false by lia.
      apply Rg_R0; [|reflexivity|discriminate].
      apply Rg_rotten. exact H2.
Qed.

(* ---------- erasing ---------- *)
Lemma set_range_n_eq n : forall (r : row) x v, 0 <= x -> x + Z.of_nat n <= zlen r ->
  set_range_n n r x v = Ok (takez x r ++ repeat v n ++ dropz (x + Z.of_nat n) r).
Proof.
  induction n; intros r x v Hx Hl.
  - cbn [set_range_n repeat app]. replace (x + Z.of_nat 0) with x by lia. rewrite takez_dropz. reflexivity.
  - cbn [set_range_n]. rewrite set_index_eq by lia. cbn [bind].
    rewrite IHn; [|lia|rewrite zlen_upd; lia].
    rewrite takez_upd by lia. replace (x + 1 + Z.of_nat n) with (x + 1 + Z.of_nat n) by lia.
    rewrite dropz_upd by lia. rewrite <- app_assoc. cbn [app repeat].
    replace (x + Z.of_nat (S n)) with (x + 1 + Z.of_nat n) by lia. reflexivity.
Qed.

Definition erased_row (t : st) (y a b : Z) : row :=
  let r := rowz (term t) y in takez a r ++ repeatz (empty_char t [32]) (b - a) ++ dropz b r.

Lemma set_cells_eq t y a b :
  Inv t -> 0 <= y < height t -> 0 <= a < b -> b <= width t ->
  set_cells t y a b = Ok (with_term t (takez y (term t) ++ erased_row t y a b :: dropz (y + 1) (term t))).
Proof.
  intros I Hy Ha Hb. unfold set_cells. replace (b <=? a) with false by lia.
  pose proof (i_rows t I) as Lt.
  destruct (nthz_some (term t) y ltac:(lia)) as (r & Er & _).
  assert (rowz (term t) y = r) as Rr by (unfold rowz; rewrite Er; reflexivity).
  pose proof (rowz_len t y I Hy) as Lr. rewrite Rr in Lr.
  assert (0 <= y) as Hy0 by lia. rewrite (get_index_nthz _ _ _ Hy0 Er). cbn [bind].
  unfold set_range. rewrite set_range_n_eq by lia. cbn [bind].
  rewrite set_index_eq by lia. cbn [bind].
  unfold erased_row, repeatz. cbv zeta. rewrite Rr. replace (a + Z.of_nat (Z.to_nat (b - a))) with b by lia. reflexivity.
Qed.

Lemma erased_row_rel t v y a b :
  Rg t v -> 0 <= y < v_h v ->
  Forall2 cell_rel (erased_row t y a b) (let r := nth_row (v_g v) y in takez a r ++ blanks (b - a) ++ dropz b r).
Proof.
  intros H Hy. pose proof H as []. unfold erased_row. cbv zeta.
  destruct (rowz_rel (term t) (v_g v) y g_grid0) as (_ & _ & Rr); [rewrite (i_rows t g_inv0), g_h0; lia|].
  apply Forall2_app; [apply Forall2_takez; exact Rr|].
  apply Forall2_app; [apply blank_rel|apply Forall2_dropz; exact Rr].
Qed.

(* same state except the grid *)
Lemma Rg_with_term t v T g1 :
  Rg t v -> Inv (with_term t T) -> grid_rel T g1 -> Rg (with_term t T) (with_g v g1).
Proof. intros H I G. eapply Rg_upd; [exact H|exact I|..]; try reflexivity. exact G. Qed.

Lemma set_cells_Rg t v y a b :
  Rg t v -> 0 <= y < v_h v -> 0 <= a < b -> b <= v_w v ->
  exists T, set_cells t y a b = Ok (with_term t T) /\ Rg (with_term t T) (erase_cells v y a b).
Proof.
  intros H Hy Ha Hb. pose proof H as [].
  pose proof (set_cells_Keeps t y a b g_inv0 ltac:(lia) ltac:(lia) ltac:(lia)) as Kp.
  rewrite set_cells_eq in * by (auto; lia). apply K_Inv in Kp.
  eexists. split; [reflexivity|]. unfold erase_cells. cbv zeta.
  apply Rg_with_term; [assumption|exact Kp|].
  apply grid_set_row; [assumption|]. apply (erased_row_rel t v y a b H Hy).
Qed.

Lemma blank_line_Rg t v y :
  Rg t v -> 0 <= y < v_h v ->
  exists T, blank_line t y = Ok (with_term t T) /\ Rg (with_term t T) (erase_cells v y 0 (v_w v)).
Proof.
  intros H Hy. pose proof (Rg_bounds t v H) as B. pose proof H as [].
  pose proof (blank_line_Keeps t y g_inv0 ltac:(lia)) as Kp.
  unfold blank_line in *. rewrite set_index_eq in * by (rewrite (i_rows t g_inv0); lia). cbn [bind] in *. apply K_Inv in Kp.
  eexists. split; [reflexivity|]. unfold erase_cells. cbv zeta.
  apply Rg_with_term; [assumption|exact Kp|].
  apply grid_set_row; [assumption|].
  destruct (rowz_rel (term t) (v_g v) y g_grid0) as (_ & N2 & Rr); [rewrite (i_rows t g_inv0), g_h0; lia|].
  pose proof (Forall2_zlen _ _ _ Rr) as Lr. rewrite (rowz_len t y g_inv0 ltac:(lia)) in Lr.
  rewrite takez_nonpos by lia. rewrite (dropz_all' (nth_row (v_g v) y)) by lia. rewrite app_nil_r. cbn [app].
  replace (v_w v - 0) with (v_w v) by lia. apply (blank_line_rel t v H).
Qed.

Lemma cd_erase X args q c :
  csi_dispatch X c args q =
  (if c =? 75 then csi_erase_line X (arg args 0)
   else if c =? 74 then csi_erase_display X (arg args 0)
   else csi_dispatch X c args q).
Proof.
  destruct (c =? 75) eqn:E1; [apply Z.eqb_eq in E1; subst; unfold csi_dispatch; destruct (cur X); reflexivity|].
  destruct (c =? 74) eqn:E2; [apply Z.eqb_eq in E2; subst; unfold csi_dispatch; destruct (cur X); reflexivity|].
  reflexivity.
Qed.

Lemma erase_eq t v p q :
  Rg t v ->
  erase t p q =
  (let sx := clamp (fst p) (v_w v) in let sy := clamp (snd p) (v_h v) in
   let ex := clamp (fst q) (v_w v) in let ey := clamp (snd q) (v_h v) in
   if sy =? ey then set_cells t sy sx (ex + 1)
   else VTerm.erase_rows (Z.to_nat (ey - sy + 1)) t sy sx sy ex ey).
Proof.
  intros []. unfold erase. rewrite !constrain_plain1. rewrite g_w0, g_h0. reflexivity.
Qed.

(* from Rg of the result back to R0 when only the grid changed *)
Lemma R0_grid X v T v' :
  R0 X v -> Rg (with_term X T) v' -> v_pend v' = v_pend v -> v_x v' = v_x v -> v_w v' = v_w v ->
  R0 (with_term X T) v'.
Proof.
  intros [] H P Ex Ew. apply Rg_R0; [exact H|cbn [rotten with_term]; congruence|]. rewrite P, Ex, Ew. assumption.
Qed.

Lemma sim_el s v m : R s v -> m <= 2 -> small m ->
  exists s', addbytes s (enc_cmd (CEl m)) = Ok s' /\ R s' (exec v (CEl m)).
Proof.
  intros HR Hm Hs. cbn [enc_cmd].
  eapply (sim_csi s v [m] 75 1 0 75); [assumption|repeat constructor; assumption|reflexivity|unfold plain_byte; lia|].
  intros X HX. rewrite cd_erase. replace (75 =? 75) with true by reflexivity.
  rewrite csi_args_1. cbn [arg nth]. rewrite dflt_zero.
  pose proof (R0_bounds X v HX) as B. pose proof (R0_Rg X v HX) as G. pose proof HX as [].
  unfold csi_erase_line. rewrite r_cur0. cbn [exec]. rewrite r_w0.
  destruct (m <=? 0) eqn:C0.
  - replace (Z.max m 0 =? 0) with true by lia.
    rewrite (erase_eq X v _ _ G). cbn [fst snd]. cbv zeta. rewrite !clamp_in by lia.
    replace (v_y v =? v_y v) with true by lia. replace (v_w v - 1 + 1) with (v_w v) by lia.
    destruct (set_cells_Rg X v (v_y v) (v_x v) (v_w v) G) as (T & E & H'); try lia.
    rewrite E. eexists. split; [reflexivity|]. apply (R0_grid X v T _ HX H'); reflexivity.
  - replace (Z.max m 0 =? 0) with false by lia.
    destruct (m =? 1) eqn:C1.
    + replace (Z.max m 0 =? 1) with true by lia.
      rewrite (erase_eq X v _ _ G). cbn [fst snd]. cbv zeta. rewrite !clamp_in by lia.
      replace (v_y v =? v_y v) with true by lia.
      destruct (set_cells_Rg X v (v_y v) 0 (v_x v + 1) G) as (T & E & H'); try lia.
      rewrite E. eexists. split; [reflexivity|]. apply (R0_grid X v T _ HX H'); reflexivity.
    + replace (Z.max m 0 =? 1) with false by lia. replace (m =? 2) with true by lia. replace (Z.max m 0 =? 2) with true by lia.
      destruct (blank_line_Rg X v (v_y v) G) as (T & E & H'); try lia.
      rewrite E. eexists. split; [reflexivity|]. apply (R0_grid X v T _ HX H'); reflexivity.
Qed.

(* ---------- erase in display: the row loop ---------- *)
Definition erase_step (t : st) (y sx sy ex ey : Z) : result st :=
  if y =? sy then set_cells t y sx (width t) else if y =? ey then set_cells t y 0 (ex + 1) else blank_line t y.

Lemma erase_rows_S k t y sx sy ex ey :
  VTerm.erase_rows (S k) t y sx sy ex ey = bind (erase_step t y sx sy ex ey) (fun s' => VTerm.erase_rows k s' (y + 1) sx sy ex ey).
Proof. reflexivity. Qed.

Lemma bind_assoc {A B C} (r : result A) (f : A -> result B) (g : B -> result C) :
  bind (bind r f) g = bind r (fun a => bind (f a) g).
Proof. destruct r; reflexivity. Qed.

Lemma erase_rows_snoc n : forall t y sx sy ex ey,
  VTerm.erase_rows (S n) t y sx sy ex ey =
  bind (VTerm.erase_rows n t y sx sy ex ey) (fun t' => erase_step t' (y + Z.of_nat n) sx sy ex ey).
Proof.
  induction n; intros t y sx sy ex ey.
  - rewrite erase_rows_S. cbn [VTerm.erase_rows bind]. replace (y + Z.of_nat 0) with y by lia.
    destruct (erase_step t y sx sy ex ey); reflexivity.
  - rewrite erase_rows_S. rewrite (erase_rows_S n). rewrite bind_assoc.
    destruct (erase_step t y sx sy ex ey) as [s1|]; [|reflexivity]. cbn [bind].
    rewrite IHn. replace (y + 1 + Z.of_nat n) with (y + Z.of_nat (S n)) by lia. reflexivity.
Qed.

Definition blankish (w : Z) (r : row) : Prop := Forall2 cell_rel r (blanks w).

Lemma erase_step_full t y sx sy ex ey :
  Inv t -> 0 <= y < height t -> (y = sy -> sx = 0) -> (y <> sy -> y = ey -> ex + 1 = width t) ->
  exists row1, erase_step t y sx sy ex ey = Ok (with_term t (takez y (term t) ++ row1 :: dropz (y + 1) (term t))) /\
               Inv (with_term t (takez y (term t) ++ row1 :: dropz (y + 1) (term t))) /\ blankish (width t) row1.
Proof.
  intros I Hy H1 H2. pose proof (i_w t I) as Hw. unfold erase_step.
  assert (forall b, b = width t -> exists row1, set_cells t y 0 b = Ok (with_term t (takez y (term t) ++ row1 :: dropz (y + 1) (term t))) /\
               Inv (with_term t (takez y (term t) ++ row1 :: dropz (y + 1) (term t))) /\ blankish (width t) row1) as Hfull.
  { intros b ->. pose proof (set_cells_Keeps t y 0 (width t) I Hy ltac:(lia) ltac:(lia)) as Kp.
    rewrite set_cells_eq in * by (auto; lia). apply K_Inv in Kp.
    eexists. split; [reflexivity|]. split; [exact Kp|].
    unfold blankish, erased_row. cbv zeta. pose proof (rowz_len t y I Hy) as Lr.
    rewrite takez_nonpos by lia. rewrite (dropz_all' (rowz (term t) y)) by lia. rewrite app_nil_r. cbn [app].
    replace (width t - 0) with (width t) by lia. apply blank_rel. }
  destruct (y =? sy) eqn:C1.
  - rewrite (H1 ltac:(lia)). apply Hfull. reflexivity.
  - destruct (y =? ey) eqn:C2.
    + apply Hfull. apply H2; lia.
    + pose proof (blank_line_Keeps t y I Hy) as Kp. unfold blank_line in *.
      rewrite set_index_eq in * by (rewrite (i_rows t I); lia). cbn [bind] in *. apply K_Inv in Kp.
      eexists. split; [reflexivity|]. split; [exact Kp|]. unfold blankish, empty_line. apply blank_rel.
Qed.

Lemma erase_rows_full n : forall t y0 sx sy ex ey,
  Inv t -> 0 <= y0 -> y0 + Z.of_nat n <= height t ->
  (forall yy, y0 <= yy < y0 + Z.of_nat n -> (yy = sy -> sx = 0) /\ (yy <> sy -> yy = ey -> ex + 1 = width t)) ->
  exists rows', VTerm.erase_rows n t y0 sx sy ex ey =
                  Ok (with_term t (takez y0 (term t) ++ rows' ++ dropz (y0 + Z.of_nat n) (term t))) /\
                Inv (with_term t (takez y0 (term t) ++ rows' ++ dropz (y0 + Z.of_nat n) (term t))) /\
                length rows' = n /\ Forall (blankish (width t)) rows'.
Proof.
  induction n; intros t y0 sx sy ex ey I Hy Hn Hf.
  - exists []. cbn [VTerm.erase_rows app length]. replace (y0 + Z.of_nat 0) with y0 by lia. rewrite takez_dropz.
    assert (with_term t (term t) = t) as E by (destruct t; reflexivity). rewrite E. auto.
  - rewrite erase_rows_S.
    destruct (Hf y0 ltac:(lia)) as (F1 & F2).
    destruct (erase_step_full t y0 sx sy ex ey I ltac:(lia) F1 F2) as (row1 & E1 & I1 & B1).
    rewrite E1. cbn [bind]. set (T1 := takez y0 (term t) ++ row1 :: dropz (y0 + 1) (term t)) in *.
    destruct (IHn (with_term t T1) (y0 + 1) sx sy ex ey I1 ltac:(lia) ltac:(cbn [height with_term]; lia)) as (rows2 & E2 & I2 & L2 & B2).
    { intros yy Hyy. cbn [width with_term]. apply Hf. lia. }
    exists (row1 :: rows2). pose proof (i_rows t I) as Lt.
    cbn [term with_term width] in E2, I2, B2.
    assert (takez (y0 + 1) T1 ++ rows2 ++ dropz (y0 + 1 + Z.of_nat n) T1
            = takez y0 (term t) ++ (row1 :: rows2) ++ dropz (y0 + Z.of_nat (S n)) (term t)) as ET.
    { subst T1. rewrite takez_upd by lia. rewrite dropz_upd by lia. rewrite <- app_assoc. cbn [app].
      replace (y0 + 1 + Z.of_nat n) with (y0 + Z.of_nat (S n)) by lia. reflexivity. }
    rewrite ET in E2, I2. split; [exact E2|]. split; [exact I2|]. split; [cbn [length]; lia|]. constructor; assumption.
Qed.

Lemma blank_rows_rel w rows' : Forall (blankish w) rows' -> Forall2 (Forall2 cell_rel) rows' (blank_rows w (Z.of_nat (length rows'))).
Proof.
  intros H. unfold blank_rows. rewrite Nat2Z.id. apply Forall2_repeat_r. exact H.
Qed.

Lemma with_term_id t : with_term t (term t) = t.
Proof. destruct t; reflexivity. Qed.

Lemma sim_ed s v m : R s v -> m <= 2 -> small m ->
  exists s', addbytes s (enc_cmd (CEd m)) = Ok s' /\ R s' (exec v (CEd m)).
Proof.
  intros HR Hm Hs. cbn [enc_cmd].
  eapply (sim_csi s v [m] 74 1 0 74); [assumption|repeat constructor; assumption|reflexivity|unfold plain_byte; lia|].
  intros X HX. rewrite cd_erase. replace (74 =? 75) with false by reflexivity. replace (74 =? 74) with true by reflexivity.
  rewrite csi_args_1. cbn [arg nth]. rewrite dflt_zero.
  pose proof (R0_bounds X v HX) as B. pose proof (R0_Rg X v HX) as G. pose proof HX as [].
  pose proof (Rg_bounds X v G) as (_ & _ & _ & _ & _ & _ & _ & Lg).
  pose proof (i_rows X r_inv0) as Lt.
  unfold csi_erase_display. cbn [exec].
  destruct (m <=? 0) eqn:C0.
  - (* from the cursor to the end of the display *)
    replace (Z.max m 0 =? 0) with true by lia. replace (Z.max m 0 =? 1) with false by lia.
    replace (Z.max m 0 =? 2) with false by lia.
    rewrite (erase_eq X v _ _ G). rewrite r_cur0, r_w0, r_h0. cbn [fst snd]. cbv zeta. rewrite !clamp_in by lia.
    replace (v_w v - 1 + 1) with (v_w v) by lia.
    destruct (set_cells_Rg X v (v_y v) (v_x v) (v_w v) G) as (T1 & E1 & H1); try lia.
    set (v1 := erase_cells v (v_y v) (v_x v) (v_w v)) in *.
    pose proof (Rg_bounds _ v1 H1) as (_ & _ & _ & _ & _ & _ & _ & Lg1). change (v_h v1) with (v_h v) in Lg1.
    destruct (v_y v =? v_h v - 1) eqn:C1.
    + rewrite E1. cbn [bind]. eexists. split; [reflexivity|].
      apply (R0_grid X v T1 _ HX); try reflexivity.
      unfold VT100Ref.erase_rows. replace (v_y v + 1) with (v_h v) by lia.
      apply (Rg_with_term (with_term X T1) v1 T1 _ H1); [apply H1|].
      rewrite (takez_all' (v_g v1)) by lia. rewrite (dropz_all' (v_g v1)) by lia.
      replace (v_h v - v_h v) with 0 by lia. cbn [blank_rows repeat app]. rewrite app_nil_r. apply H1.
    + replace (Z.to_nat (v_h v - 1 - v_y v + 1)) with (S (Z.to_nat (v_h v - 1 - v_y v))) by lia.
      rewrite erase_rows_S. unfold erase_step. replace (v_y v =? v_y v) with true by lia. rewrite r_w0. rewrite E1. cbn [bind].
      set (t1 := with_term X T1) in *. set (k := Z.to_nat (v_h v - 1 - v_y v)).
      destruct (erase_rows_full k t1 (v_y v + 1) (v_x v) (v_y v) (v_w v - 1) (v_h v - 1) (g_inv _ _ H1))
        as (rows' & E2 & I2 & L2 & B2); [lia|cbn [height t1 with_term]; lia| |].
      { intros yy Hyy. split; [lia|]. intros _ _. cbn [width t1 with_term]. lia. }
      rewrite E2. cbn [bind]. eexists. split; [reflexivity|].
      apply (R0_grid X v _ _ HX); try reflexivity.
      unfold VT100Ref.erase_rows. apply (Rg_with_term t1 v1 _ _ H1 I2).
      cbn [term t1 with_term].
      replace (v_y v + 1 + Z.of_nat k) with (v_h v) by lia.
      apply Forall2_app; [apply Forall2_takez; apply H1|].
      apply Forall2_app; [|apply Forall2_dropz; apply H1].
      replace (v_h v - (v_y v + 1)) with (Z.of_nat (length rows')) by lia.
      apply blank_rows_rel. cbn [width t1 with_term] in B2. rewrite r_w0 in B2. exact B2.
  - replace (Z.max m 0 =? 0) with false by lia. cbn [bind].
    destruct (m =? 1) eqn:C1.
    + (* from the start of the display through the cursor *)
      replace (Z.max m 0 =? 1) with true by lia.
      rewrite (erase_eq X v _ _ G). rewrite r_cur0. cbn [fst snd]. cbv zeta. rewrite !clamp_in by lia.
      destruct (0 =? v_y v) eqn:C2.
      * replace (v_y v) with 0 by lia.
        destruct (set_cells_Rg X v 0 0 (v_x v + 1) G) as (T1 & E1 & H1); try lia.
        rewrite E1. eexists. split; [reflexivity|].
        apply (R0_grid X v T1 _ HX); try reflexivity.
        replace (v_y v) with 0 in H1 by lia. exact H1.
      * replace (Z.to_nat (v_y v - 0 + 1)) with (S (Z.to_nat (v_y v))) by lia.
        rewrite erase_rows_snoc. set (k := Z.to_nat (v_y v)).
        destruct (erase_rows_full k X 0 0 0 (v_x v) (v_y v) r_inv0) as (rows' & E2 & I2 & L2 & B2); [lia|lia| |].
        { intros yy Hyy. split; [reflexivity|]. intros _ Hy. lia. }
        rewrite E2. cbn [bind]. set (T1 := takez 0 (term X) ++ rows' ++ dropz (0 + Z.of_nat k) (term X)) in *.
        set (t1 := with_term X T1) in *.
        assert (Rg t1 (VT100Ref.erase_rows v 0 (v_y v))) as H1.
        { unfold VT100Ref.erase_rows. apply Rg_with_term; [exact G|exact I2|]. subst T1.
          replace (0 + Z.of_nat k) with (v_y v) by lia.
          apply Forall2_app; [apply Forall2_takez; exact r_grid0|].
          apply Forall2_app; [|apply Forall2_dropz; exact r_grid0].
          replace (v_y v - 0) with (Z.of_nat (length rows')) by lia.
          apply blank_rows_rel. rewrite r_w0 in B2. exact B2. }
        unfold erase_step. replace (0 + Z.of_nat k) with (v_y v) by lia.
        replace (v_y v =? 0) with false by lia. replace (v_y v =? v_y v) with true by lia.
        destruct (set_cells_Rg t1 _ (v_y v) 0 (v_x v + 1) H1) as (T2 & E3 & H3); cbn [VT100Ref.erase_rows with_g v_h v_w]; try lia.
        rewrite E3. eexists. split; [reflexivity|].
        change (with_term t1 T2) with (with_term X T2) in *.
        apply (R0_grid X v T2 _ HX H3); reflexivity.
    + replace (Z.max m 0 =? 1) with false by lia. replace (m =? 2) with true by lia. replace (Z.max m 0 =? 2) with true by lia.
      (* the whole display; the cursor stays *)
      eexists. split; [reflexivity|].
      unfold clear. rewrite r_cur0.
      set (T1 := repeatz (empty_line X [32]) (height X)).
      assert (Rg (with_term X T1) (VT100Ref.erase_rows v 0 (v_h v))) as H1.
      { pose proof (clear_K X (Some (cur X)) r_inv0) as Kc. unfold VT100Ref.erase_rows.
        apply Rg_with_term; [exact G| |].
        - apply with_term_K; [assumption|]. subst T1. split; [apply zlen_repeatz; lia|].
          apply Forall_repeat. apply zlen_empty_line. lia.
        - subst T1. rewrite takez_nonpos by lia. rewrite (dropz_all' (v_g v)) by lia. rewrite app_nil_r. cbn [app].
          unfold blank_rows, repeatz. rewrite r_h0. replace (v_h v - 0) with (v_h v) by lia.
          apply Forall2_repeat'. apply (blank_line_rel X v G). }
      pose proof (Rg_stay _ _ H1) as H2. cbn [VT100Ref.erase_rows with_g v_x v_y] in H2.
      destruct (stc_frame (with_term X T1) (v_x v) (v_y v)) as (_ & _ & Fr & _).
      apply Rg_R0; [exact H2|rewrite Fr; exact r_pend0|exact r_pendx0].
Qed.

(* ---------- insert / delete characters ---------- *)
Lemma iter_succ_r {A} (f : A -> A) k x : Nat.iter k f (f x) = Nat.iter (S k) f x.
Proof. induction k; [reflexivity|]. change (Nat.iter (S k) f (f x)) with (f (Nat.iter k f (f x))). rewrite IHk. reflexivity. Qed.

Lemma ich_iter (e : cell) k : forall (A C : list row) (p s : row), 0 < zlen s ->
  iter_res k (fun t => do r <- get_index t (zlen A); do q <- pop (insert r (zlen p) e) (-1); set_index t (zlen A) (snd q))
           (A ++ (p ++ s) :: C)
  = Ok (A ++ (p ++ Nat.iter k (shr e) s) :: C).
Proof.
  induction k; intros A C p s Hs; [reflexivity|].
  cbn [iter_res]. rewrite get_mid. cbn [bind].
  destruct (ich_step p s e Hs) as (x0 & E). unfold row, cell in *. rewrite E. cbn [bind snd]. rewrite set_mid. cbn [bind].
  rewrite IHk by (rewrite zlen_shr; assumption). rewrite iter_succ_r. reflexivity.
Qed.

Lemma dch_iter (e : cell) k : forall (A C : list row) (p s : row), 0 < zlen s ->
  iter_res k (fun t => do r <- get_index t (zlen A); do q <- pop r (zlen p); set_index t (zlen A) (snd q ++ [e]))
           (A ++ (p ++ s) :: C)
  = Ok (A ++ (p ++ Nat.iter k (shl e) s) :: C).
Proof.
  induction k; intros A C p s Hs; [reflexivity|].
  cbn [iter_res]. rewrite get_mid. cbn [bind].
  destruct (dch_step p s Hs) as (x0 & E). unfold row, cell in *. rewrite E. cbn [bind snd]. rewrite set_mid. cbn [bind].
  rewrite <- app_assoc. change (dropz 1 s ++ [e]) with (shl e s).
  rewrite IHk by (rewrite zlen_shl; assumption). rewrite iter_succ_r. reflexivity.
Qed.

Lemma ich_iter' (e : cell) k (A C : list row) (p s : row) x y : x = zlen p -> y = zlen A -> 0 < zlen s ->
  iter_res k (fun t => do r <- get_index t y; do q <- pop (insert r x e) (-1); set_index t y (snd q)) (A ++ (p ++ s) :: C)
  = Ok (A ++ (p ++ Nat.iter k (shr e) s) :: C).
Proof. intros -> ->. apply ich_iter. Qed.

Lemma dch_iter' (e : cell) k (A C : list row) (p s : row) x y : x = zlen p -> y = zlen A -> 0 < zlen s ->
  iter_res k (fun t => do r <- get_index t y; do q <- pop r x; set_index t y (snd q ++ [e])) (A ++ (p ++ s) :: C)
  = Ok (A ++ (p ++ Nat.iter k (shl e) s) :: C).
Proof. intros -> ->. apply dch_iter. Qed.

(* the cursor row split at the cursor *)
Lemma cursor_split t v :
  Rg t v ->
  let T := term t in let r := rowz T (v_y v) in
  T = takez (v_y v) T ++ (takez (v_x v) r ++ dropz (v_x v) r) :: dropz (v_y v + 1) T /\
  zlen (takez (v_y v) T) = v_y v /\ zlen (takez (v_x v) r) = v_x v /\ zlen (dropz (v_x v) r) = v_w v - v_x v /\
  Forall2 cell_rel r (nth_row (v_g v) (v_y v)).
Proof.
  intros H. cbv zeta. pose proof (Rg_bounds t v H) as B. pose proof H as [].
  assert (0 <= v_y v < zlen (term t)) as Hy by (rewrite (i_rows t g_inv0), g_h0; lia).
  destruct (rowz_rel (term t) (v_g v) (v_y v) g_grid0 Hy) as (N1 & _ & Rr).
  pose proof (rowz_len t (v_y v) g_inv0 ltac:(lia)) as Lr.
  rewrite takez_dropz. split; [apply split_at; exact N1|].
  rewrite !zlen_takez, zlen_dropz by lia. repeat split; try lia. exact Rr.
Qed.

Lemma cd_chars X args q c :
  csi_dispatch X c args q =
  (if c =? 64 then insert_chars X (cur X) (arg args 0) None
   else if c =? 80 then remove_chars X (cur X) (arg args 0)
   else if c =? 76 then insert_lines X (arg args 0)
   else if c =? 77 then remove_lines X (arg args 0)
   else csi_dispatch X c args q).
Proof.
  destruct (c =? 64) eqn:E1; [apply Z.eqb_eq in E1; subst; unfold csi_dispatch; destruct (cur X); reflexivity|].
  destruct (c =? 80) eqn:E2; [apply Z.eqb_eq in E2; subst; unfold csi_dispatch; destruct (cur X); reflexivity|].
  destruct (c =? 76) eqn:E3; [apply Z.eqb_eq in E3; subst; unfold csi_dispatch; destruct (cur X); reflexivity|].
  destruct (c =? 77) eqn:E4; [apply Z.eqb_eq in E4; subst; unfold csi_dispatch; destruct (cur X); reflexivity|].
  reflexivity.
Qed.

Lemma sim_ich s v n : R s v -> small n ->
  exists s', addbytes s (enc_cmd (CIch n)) = Ok s' /\ R s' (exec v (CIch n)).
Proof.
  intros HR Hs. cbn [enc_cmd].
  eapply (sim_csi s v [n] 64 1 1 64); [assumption|repeat constructor; assumption|reflexivity|unfold plain_byte; lia|].
  intros X HX. rewrite cd_chars. replace (64 =? 64) with true by reflexivity.
  rewrite csi_args_1. cbn [arg nth]. rewrite dflt_one.
  pose proof (R0_bounds X v HX) as B. pose proof (R0_Rg X v HX) as G. pose proof HX as [].
  assert (1 <= one n) as O1 by (unfold one; split_ifs; lia). set (a0 := one n) in *. rewrite r_cur0.
  pose proof (insert_chars_Keeps X (cur X) a0 None r_inv0) as Kp.
  rewrite r_cur0 in Kp. cbn [snd] in Kp. rewrite r_h0 in Kp. specialize (Kp ltac:(lia)).
  destruct (cursor_split X v G) as (ET & LA & Lp & Ls & Rr). cbv zeta in ET, LA, Lp, Ls, Rr.
  set (A := takez (v_y v) (term X)) in *. set (C := dropz (v_y v + 1) (term X)) in *.
  set (r := rowz (term X) (v_y v)) in *. set (p := takez (v_x v) r) in *. set (sg := dropz (v_x v) r) in *.
  assert (insert_chars X (v_x v, v_y v) a0 None
          = Ok (with_term X (A ++ (p ++ Nat.iter (Z.to_nat (Z.min a0 (v_w v))) (shr (empty_char X [32])) sg) :: C))) as E.
  { unfold insert_chars. replace (a0 =? 0) with false by lia. rewrite r_w0. rewrite ET.
    rewrite (ich_iter' _ _ A C p sg (v_x v) (v_y v)) by (auto; lia). reflexivity. }
  rewrite E in Kp |- *. apply K_Inv in Kp.
  eexists. split; [reflexivity|]. cbn [exec].
  apply (R0_grid X v _ _ HX); try reflexivity.
  apply Rg_with_term; [exact G|exact Kp|].
  subst A C. apply grid_set_row; [exact r_grid0|].
  rewrite shr_iter by lia. rewrite Ls.
  set (kk := Z.min a0 (v_w v - v_x v)).
  replace (Nat.min (Z.to_nat (Z.min a0 (v_w v))) (Z.to_nat (v_w v - v_x v))) with (Z.to_nat kk) by lia.
  subst p sg. apply Forall2_app; [apply Forall2_takez; exact Rr|].
  apply Forall2_app.
  - unfold blanks. apply Forall2_repeat'. split; [reflexivity|exact Logic.I].
  - unfold sub. replace (v_w v - v_x v - Z.of_nat (Z.to_nat kk)) with (v_w v - kk - v_x v) by lia.
    apply Forall2_takez. apply Forall2_dropz. exact Rr.
Qed.

Lemma sim_dch s v n : R s v -> small n ->
  exists s', addbytes s (enc_cmd (CDch n)) = Ok s' /\ R s' (exec v (CDch n)).
Proof.
  intros HR Hs. cbn [enc_cmd].
  eapply (sim_csi s v [n] 80 1 1 80); [assumption|repeat constructor; assumption|reflexivity|unfold plain_byte; lia|].
  intros X HX. rewrite cd_chars. replace (80 =? 64) with false by reflexivity. replace (80 =? 80) with true by reflexivity.
  rewrite csi_args_1. cbn [arg nth]. rewrite dflt_one.
  pose proof (R0_bounds X v HX) as B. pose proof (R0_Rg X v HX) as G. pose proof HX as [].
  assert (1 <= one n) as O1 by (unfold one; split_ifs; lia). set (a0 := one n) in *. rewrite r_cur0.
  pose proof (remove_chars_Keeps X (cur X) a0 r_inv0) as Kp.
  rewrite r_cur0 in Kp. cbn [fst snd] in Kp. rewrite r_h0, r_w0 in Kp. specialize (Kp ltac:(lia) ltac:(lia)).
  destruct (cursor_split X v G) as (ET & LA & Lp & Ls & Rr). cbv zeta in ET, LA, Lp, Ls, Rr.
  set (A := takez (v_y v) (term X)) in *. set (C := dropz (v_y v + 1) (term X)) in *.
  set (r := rowz (term X) (v_y v)) in *. set (p := takez (v_x v) r) in *. set (sg := dropz (v_x v) r) in *.
  assert (remove_chars X (v_x v, v_y v) a0
          = Ok (with_term X (A ++ (p ++ Nat.iter (Z.to_nat (Z.min a0 (v_w v))) (shl (empty_char X [32])) sg) :: C))) as E.
  { unfold remove_chars. replace (a0 =? 0) with false by lia. rewrite r_w0. rewrite ET.
    rewrite (dch_iter' _ _ A C p sg (v_x v) (v_y v)) by (auto; lia). reflexivity. }
  rewrite E in Kp |- *. apply K_Inv in Kp.
  eexists. split; [reflexivity|]. cbn [exec].
  apply (R0_grid X v _ _ HX); try reflexivity.
  apply Rg_with_term; [exact G|exact Kp|].
  subst A C. apply grid_set_row; [exact r_grid0|].
  rewrite shl_iter by lia. rewrite Ls.
  set (kk := Z.min a0 (v_w v - v_x v)).
  replace (Nat.min (Z.to_nat (Z.min a0 (v_w v))) (Z.to_nat (v_w v - v_x v))) with (Z.to_nat kk) by lia.
  subst p sg. apply Forall2_app; [apply Forall2_takez; exact Rr|].
  apply Forall2_app.
  - rewrite dropz_dropz' by lia. replace (Z.of_nat (Z.to_nat kk) + v_x v) with (v_x v + kk) by lia.
    apply Forall2_dropz. exact Rr.
  - unfold blanks. apply Forall2_repeat'. split; [reflexivity|exact Logic.I].
Qed.

(* ---------- insert / delete lines ---------- *)
Lemma il_iter (e : row) k (A C : list row) bot : forall (s : list row), 0 < zlen s -> bot = zlen A + zlen s - 1 ->
  iter_res k (fun t => do q <- pop t bot; Ok (insert (snd q) (zlen A) e)) (A ++ s ++ C)
  = Ok (A ++ Nat.iter k (shr e) s ++ C).
Proof.
  induction k; intros s Hs Hb; [reflexivity|].
  cbn [iter_res]. destruct (il_step A s C e Hs) as (x0 & E1 & E2). rewrite <- Hb in E1.
  unfold row, cell in *. rewrite E1. cbn [bind snd]. rewrite E2.
  rewrite IHk by (rewrite ?zlen_shr; auto; lia). rewrite iter_succ_r. reflexivity.
Qed.

Lemma dl_iter (e : row) k (A C : list row) bot : forall (s : list row), 0 < zlen s -> bot = zlen A + zlen s - 1 ->
  iter_res k (fun t => do q <- pop t (zlen A); Ok (insert (snd q) bot e)) (A ++ s ++ C)
  = Ok (A ++ Nat.iter k (shl e) s ++ C).
Proof.
  induction k; intros s Hs Hb; [reflexivity|].
  cbn [iter_res]. destruct (dl_step A s C e Hs) as (x0 & E1 & E2). rewrite <- Hb in E2.
  unfold row, cell in *. rewrite E1. cbn [bind snd]. rewrite E2.
  rewrite IHk by (rewrite ?zlen_shl; auto; lia). rewrite iter_succ_r. reflexivity.
Qed.

Lemma il_iter' (e : row) k (A C : list row) bot y (s : list row) : y = zlen A -> 0 < zlen s -> bot = zlen A + zlen s - 1 ->
  iter_res k (fun t => do q <- pop t bot; Ok (insert (snd q) y e)) (A ++ s ++ C) = Ok (A ++ Nat.iter k (shr e) s ++ C).
Proof. intros ->. apply il_iter. Qed.

Lemma dl_iter' (e : row) k (A C : list row) bot y (s : list row) : y = zlen A -> 0 < zlen s -> bot = zlen A + zlen s - 1 ->
  iter_res k (fun t => do q <- pop t y; Ok (insert (snd q) bot e)) (A ++ s ++ C) = Ok (A ++ Nat.iter k (shl e) s ++ C).
Proof. intros ->. apply dl_iter. Qed.

(* the grid split around the lines from the cursor row to the bottom margin *)
Lemma region_split (T : list row) y bot : 0 <= y <= bot -> bot < zlen T ->
  T = takez y T ++ takez (bot - y + 1) (dropz y T) ++ dropz (bot + 1) T /\
  zlen (takez y T) = y /\ zlen (takez (bot - y + 1) (dropz y T)) = bot - y + 1.
Proof.
  intros H1 H2. split; [|rewrite !zlen_takez, zlen_dropz by lia; lia].
  rewrite <- (takez_dropz T y) at 1. f_equal.
  rewrite <- (takez_dropz (dropz y T) (bot - y + 1)) at 1. f_equal.
  rewrite dropz_dropz' by lia. f_equal. lia.
Qed.

Definition il_ref (v : vt) (n : Z) : vt :=
  if (v_top v <=? v_y v) && (v_y v <=? v_bot v) then
    let k := Z.min (one n) (v_bot v - v_y v + 1) in
    let g := v_g v in
    with_g v (takez (v_y v) g ++ blank_rows (v_w v) k ++ sub g (v_y v) (v_bot v + 1 - k) ++ dropz (v_bot v + 1) g)
  else v.
Definition dl_ref (v : vt) (n : Z) : vt :=
  if (v_top v <=? v_y v) && (v_y v <=? v_bot v) then
    let k := Z.min (one n) (v_bot v - v_y v + 1) in
    let g := v_g v in
    with_g v (takez (v_y v) g ++ sub g (v_y v + k) (v_bot v + 1) ++ blank_rows (v_w v) k ++ dropz (v_bot v + 1) g)
  else v.

Lemma exec_il v n : exec v (CIl n) = with_xy (il_ref v n) 0 (v_y v) false.
Proof. cbn [exec]. unfold il_ref. destruct ((v_top v <=? v_y v) && (v_y v <=? v_bot v)); reflexivity. Qed.
Lemma exec_dl v n : exec v (CDl n) = with_xy (dl_ref v n) 0 (v_y v) false.
Proof. cbn [exec]. unfold dl_ref. destruct ((v_top v <=? v_y v) && (v_y v <=? v_bot v)); reflexivity. Qed.

Lemma blank_rows_rel' X v k : Rg X v -> Forall2 (Forall2 cell_rel) (repeat (empty_line X [32]) (Z.to_nat k)) (blank_rows (v_w v) k).
Proof. intros G. unfold blank_rows. apply Forall2_repeat'. apply (blank_line_rel X v G). Qed.

Lemma insert_lines_R0 X v n :
  R0 X v -> exists s', insert_lines X (one n) = Ok s' /\ R0 s' (il_ref v n).
Proof.
  intros HX. pose proof (R0_bounds X v HX) as B. pose proof (R0_Rg X v HX) as G. pose proof HX as [].
  assert (1 <= one n) as O1 by (unfold one; split_ifs; lia). set (a0 := one n) in *.
  pose proof (insert_lines_Keeps X a0 r_inv0) as Kp.
  unfold insert_lines, il_ref in *. rewrite r_cur0 in *. cbn [snd] in *. rewrite r_top0, r_bot0, r_h0 in *.
  destruct ((v_top v <=? v_y v) && (v_y v <=? v_bot v)) eqn:C0; cbn [negb] in *.
  2:{ eexists. split; [reflexivity|exact HX]. }
  replace (a0 =? 0) with false in * by lia. cbv zeta in *.
  pose proof (i_rows X r_inv0) as Lt. rewrite r_h0 in Lt.
  destruct (region_split (term X) (v_y v) (v_bot v)) as (ET & LA & Ls); [lia|lia|].
  set (A := takez (v_y v) (term X)) in *. set (C := dropz (v_bot v + 1) (term X)) in *.
  set (sg := takez (v_bot v - v_y v + 1) (dropz (v_y v) (term X))) in *.
  assert (iter_res (Z.to_nat (Z.min a0 (v_h v)))
            (fun t => do p <- pop t (v_bot v); Ok (insert (snd p) (v_y v) (empty_line X [32]))) (term X)
          = Ok (A ++ Nat.iter (Z.to_nat (Z.min a0 (v_h v))) (shr (empty_line X [32])) sg ++ C)) as E.
  { rewrite ET. apply il_iter'; lia. }
  unfold row, cell in *. rewrite E in Kp |- *. cbn [bind] in *. apply K_Inv in Kp.
  eexists. split; [reflexivity|].
  apply (R0_grid X v _ _ HX); try reflexivity.
  apply Rg_with_term; [exact G|exact Kp|].
  rewrite shr_iter by lia. rewrite Ls.
  set (kk := Z.min a0 (v_bot v - v_y v + 1)).
  replace (Nat.min (Z.to_nat (Z.min a0 (v_h v))) (Z.to_nat (v_bot v - v_y v + 1))) with (Z.to_nat kk) by lia.
  subst A C sg. unfold grid_rel.
  apply Forall2_app; [apply Forall2_takez; exact r_grid0|].
  rewrite <- app_assoc.
  apply Forall2_app; [apply (blank_rows_rel' X v kk G)|].
  apply Forall2_app; [|apply Forall2_dropz; exact r_grid0].
  unfold sub. rewrite takez_takez by lia.
  replace (v_bot v - v_y v + 1 - Z.of_nat (Z.to_nat kk)) with (v_bot v + 1 - kk - v_y v) by lia.
  apply Forall2_takez. apply Forall2_dropz. exact r_grid0.
Qed.

Lemma remove_lines_R0 X v n :
  R0 X v -> exists s', remove_lines X (one n) = Ok s' /\ R0 s' (dl_ref v n).
Proof.
  intros HX. pose proof (R0_bounds X v HX) as B. pose proof (R0_Rg X v HX) as G. pose proof HX as [].
  assert (1 <= one n) as O1 by (unfold one; split_ifs; lia). set (a0 := one n) in *.
  pose proof (remove_lines_Keeps X a0 r_inv0) as Kp.
  unfold remove_lines, dl_ref in *. rewrite r_cur0 in *. cbn [snd] in *. rewrite r_top0, r_bot0, r_h0 in *.
  destruct ((v_top v <=? v_y v) && (v_y v <=? v_bot v)) eqn:C0; cbn [negb] in *.
  2:{ eexists. split; [reflexivity|exact HX]. }
  replace (a0 =? 0) with false in * by lia. cbv zeta in *.
  pose proof (i_rows X r_inv0) as Lt. rewrite r_h0 in Lt.
  destruct (region_split (term X) (v_y v) (v_bot v)) as (ET & LA & Ls); [lia|lia|].
  set (A := takez (v_y v) (term X)) in *. set (C := dropz (v_bot v + 1) (term X)) in *.
  set (sg := takez (v_bot v - v_y v + 1) (dropz (v_y v) (term X))) in *.
  assert (iter_res (Z.to_nat (Z.min a0 (v_h v)))
            (fun t => do p <- pop t (v_y v); Ok (insert (snd p) (v_bot v) (empty_line X [32]))) (term X)
          = Ok (A ++ Nat.iter (Z.to_nat (Z.min a0 (v_h v))) (shl (empty_line X [32])) sg ++ C)) as E.
  { rewrite ET. apply dl_iter'; lia. }
  unfold row, cell in *. rewrite E in Kp |- *. cbn [bind] in *. apply K_Inv in Kp.
  eexists. split; [reflexivity|].
  apply (R0_grid X v _ _ HX); try reflexivity.
  apply Rg_with_term; [exact G|exact Kp|].
  rewrite shl_iter by lia. rewrite Ls.
  set (kk := Z.min a0 (v_bot v - v_y v + 1)).
  replace (Nat.min (Z.to_nat (Z.min a0 (v_h v))) (Z.to_nat (v_bot v - v_y v + 1))) with (Z.to_nat kk) by lia.
  subst A C sg. unfold grid_rel.
  apply Forall2_app; [apply Forall2_takez; exact r_grid0|].
  rewrite <- app_assoc.
  apply Forall2_app.
  - unfold sub. rewrite dropz_takez by lia. rewrite dropz_dropz' by lia.
    replace (v_bot v - v_y v + 1 - Z.of_nat (Z.to_nat kk)) with (v_bot v + 1 - (v_y v + kk)) by lia.
    replace (Z.of_nat (Z.to_nat kk) + v_y v) with (v_y v + kk) by lia.
    apply Forall2_takez. apply Forall2_dropz. exact r_grid0.
  - apply Forall2_app; [apply (blank_rows_rel' X v kk G)|apply Forall2_dropz; exact r_grid0].
Qed.

Lemma sim_then_cr s bytes v1 :
  (exists s1, addbytes s bytes = Ok s1 /\ R s1 v1) ->
  exists s', addbytes s (bytes ++ [13]) = Ok s' /\ R s' (with_xy v1 0 (v_y v1) false).
Proof.
  intros (s1 & E1 & R1). rewrite addbytes_app, E1. cbn [bind]. apply (sim_cr s1 v1 R1).
Qed.

Lemma sim_il s v n : R s v -> small n ->
  exists s', addbytes s (enc_cmd (CIl n)) = Ok s' /\ R s' (exec v (CIl n)).
Proof.
  intros HR Hs. rewrite exec_il. cbn [enc_cmd].
  replace (v_y v) with (v_y (il_ref v n)) by (unfold il_ref; split_ifs; reflexivity).
  apply sim_then_cr.
  eapply (sim_csi s v [n] 76 1 1 76); [assumption|repeat constructor; assumption|reflexivity|unfold plain_byte; lia|].
  intros X HX. rewrite cd_chars. replace (76 =? 64) with false by reflexivity. replace (76 =? 80) with false by reflexivity.
  replace (76 =? 76) with true by reflexivity. rewrite csi_args_1. cbn [arg nth]. rewrite dflt_one.
  apply insert_lines_R0. assumption.
Qed.

Lemma sim_dl s v n : R s v -> small n ->
  exists s', addbytes s (enc_cmd (CDl n)) = Ok s' /\ R s' (exec v (CDl n)).
Proof.
  intros HR Hs. rewrite exec_dl. cbn [enc_cmd].
  replace (v_y v) with (v_y (dl_ref v n)) by (unfold dl_ref; split_ifs; reflexivity).
  apply sim_then_cr.
  eapply (sim_csi s v [n] 77 1 1 77); [assumption|repeat constructor; assumption|reflexivity|unfold plain_byte; lia|].
  intros X HX. rewrite cd_chars. replace (77 =? 64) with false by reflexivity. replace (77 =? 80) with false by reflexivity.
  replace (77 =? 76) with false by reflexivity. replace (77 =? 77) with true by reflexivity.
  rewrite csi_args_1. cbn [arg nth]. rewrite dflt_one.
  apply remove_lines_R0. assumption.
Qed.

(* ---------- SGR (the classic parameters: no 38 / 48 colour sequences) ---------- *)
Lemma sgr_cons n r a : (n =? 38) || (n =? 48) = false -> sgr (n :: r) a = sgr r (sgr1 n a).
Proof. intros H. cbn [sgr]. rewrite H. reflexivity. Qed.

Definition sgr_values : list Z :=
  [0; 1; 4; 5; 7; 24; 25; 27; 30; 31; 32; 33; 34; 35; 36; 37; 39; 40; 41; 42; 43; 44; 45; 46; 47; 49].

Lemma sgr_value_plain a : In a sgr_values -> (a =? 38) || (a =? 48) = false.
Proof. unfold sgr_values. cbn [In]. intros H. repeat (destruct H as [H|H]; [subst a; reflexivity|]). contradiction. Qed.

Lemma sgr_norm l : Forall (fun n => In (Z.max n 0) sgr_values) l -> forall a, sgr l a = sgr (map (fun n => Z.max n 0) l) a.
Proof.
  induction l as [|n r IH]; intros Hl a; [reflexivity|]. inversion Hl as [|? ? Hn Hr]; subst. cbn [map].
  pose proof (sgr_value_plain _ Hn) as P.
  assert ((n =? 38) || (n =? 48) = false) as P' by lia.
  rewrite (sgr_cons n r a P'). rewrite (sgr_cons _ _ a P). rewrite IH by assumption. f_equal.
  destruct a. unfold sgr1. destruct (n <=? 0) eqn:C.
  - replace (Z.max n 0 <=? 0) with true by lia. reflexivity.
  - replace (Z.max n 0) with n by lia. rewrite C. reflexivity.
Qed.

(* the running values of sgi_to_attrspec's loop against the reference rendition *)
Definition G_rel (g : sgi_t) (a : rattr) (cs : charset_t) (dc : bool) : Prop :=
  g_fg g = r_fg a /\ g_bg g = r_bg a /\ g_bold g = r_bold a /\ g_ul g = r_ul a /\ g_blink g = r_blink a /\
  g_so g = r_rev a /\ RA_ok a /\ (g_colors g = 1 \/ g_colors g = 16) /\
  ((g_fg g <> None \/ g_bg g <> None) -> g_colors g = 16) /\ g_cs g = cs /\ g_dc g = dc.

Lemma memz_in b l : memz b l = true -> In b l.
Proof.
  induction l; cbn [memz]; [discriminate|]. intros H. apply orb_prop in H. destruct H as [H|H].
  - left. lia.
  - right. auto.
Qed.

Ltac eval_cmp :=
  repeat match goal with
         | |- context [?a <=? ?b] =>
             let r := eval vm_compute in (a <=? b) in
             match r with true => idtac | false => idtac end; change (a <=? b) with r
         | |- context [?a =? ?b] =>
             let r := eval vm_compute in (a =? b) in
             match r with true => idtac | false => idtac end; change (a =? b) with r
         end.

Lemma sgi_step_rel a g ra cs dc : In a sgr_values -> G_rel g ra cs dc -> G_rel (sgi_step1 a g) (sgr1 a ra) cs dc.
Proof.
  intros Ha (E1 & E2 & E3 & E4 & E5 & E6 & (O1 & O2) & Ec & Ei & Ecs & Edc).
  destruct g as [fg bg colors bold ul blink so gcs gdc gfi gbi]. destruct ra as [rf rb rbo rul rbl rrv].
  cbn [g_fg g_bg g_colors g_bold g_ul g_blink g_so g_cs g_dc r_fg r_bg r_bold r_ul r_blink r_rev] in *. subst.
  unfold sgr_values in Ha. cbn [In] in Ha.
  repeat (destruct Ha as [Ha|Ha]; [subst a; unfold G_rel, RA_ok, sgi_step1, sgr1, ra0; eval_cmp; cbn; repeat split; auto; try lia; try (intros [?|?]; try congruence; apply Ei; auto); try (destruct Ec; lia)|]).
  contradiction.
Qed.

Lemma sgi_loop_rel l : forall g ra cs dc, Forall (fun a => In a sgr_values) l -> G_rel g ra cs dc ->
  G_rel (sgi_loop l g) (sgr l ra) cs dc.
Proof.
  induction l as [|a r IH]; intros g ra cs dc Hl HG; [exact HG|].
  inversion Hl as [|? ? Ha Hr]; subst. cbn [sgi_loop]. pose proof (sgr_value_plain a Ha) as E.
  rewrite (sgr_cons a r ra E). rewrite E. apply IH; [assumption|]. apply sgi_step_rel; assumption.
Qed.

Ltac lia_cmp :=
  repeat match goal with
         | |- context [?a <=? ?b] => first [replace (a <=? b) with true by lia | replace (a <=? b) with false by lia]
         | |- context [?a <? ?b] => first [replace (a <? b) with true by lia | replace (a <? b) with false by lia]
         | |- context [?a =? ?b] => first [replace (a =? b) with true by lia | replace (a =? b) with false by lia]
         end.

Lemma mk_attrspec_rel g ra cs dc :
  G_rel g ra cs dc ->
  mk_attrspec (match g_fg g with
               | Some f => if g_bold g && (g_colors g =? 16) && (f <? 8) then Some (f + 8) else Some f
               | None => None
               end) (g_bg g) (g_colors g) (g_bold g) (g_ul g) (g_blink g) (g_so g) = Ok (attr_of_ref ra).
Proof.
  intros (E1 & E2 & E3 & E4 & E5 & E6 & (O1 & O2) & Ec & Ei & _ & _).
  destruct g as [fg bg colors bold ul blink so gcs gdc gfi gbi]. destruct ra as [rf rb rbo rul rbl rrv].
  cbn [g_fg g_bg g_colors g_bold g_ul g_blink g_so g_cs g_dc r_fg r_bg r_bold r_ul r_blink r_rev] in *. subst.
  unfold mk_attrspec, attr_of_ref, colors_ok, color_ok. cbn [r_fg r_bg r_bold r_ul r_blink r_rev].
  destruct rf as [f|], rb as [b|];
    try (assert (colors = 16) as -> by (apply Ei; (left; discriminate) || (right; discriminate)));
    try (destruct Ec as [-> | ->]);
    destruct rbo, rul, rbl, rrv; cbv beta iota in O1, O2;
    do 4 (lia_cmp; cbn [andb orb negb is_none]; cbv beta iota); reflexivity.
Qed.

(* the values with which sgi_to_attrspec starts when the current AttrSpec is that of a reference rendition *)
Lemma G_rel_start ra cs dc fi bi : RA_ok ra ->
  match attr_of_ref ra with
  | None => G_rel (mkSgi None None 1 false false false false cs dc fi bi) ra cs dc
  | Some a => G_rel (mkSgi (unbright a (a_fg a)) (unbright a (a_bg a)) (a_colors a) (a_bold a) (a_ul a) (a_blink a) (a_so a) cs dc fi bi) ra cs dc
  end.
Proof.
  destruct ra as [rf rb rbo rul rbl rrv]. unfold RA_ok, attr_of_ref. cbn [r_fg r_bg r_bold r_ul r_blink r_rev]. intros [O1 O2].
  destruct rf as [f|], rb as [b|], rbo, rul, rbl, rrv; cbn [andb orb negb is_none];
    unfold G_rel, RA_ok, unbright; cbn [g_fg g_bg g_colors g_bold g_ul g_blink g_so g_cs g_dc r_fg r_bg r_bold r_ul r_blink r_rev
                                    a_fg a_bg a_colors a_bold a_ul a_blink a_so andb];
    lia_cmp; cbn [andb]; repeat split; auto; try lia; try (f_equal; lia); try (intros [?|?]; congruence).
Qed.

Lemma cd_sgr X args q : csi_dispatch X 109 args q = csi_set_attr X args.
Proof. unfold csi_dispatch. destruct (cur X). reflexivity. Qed.

Lemma repeatz_nonpos {A} (x : A) n : n <= 0 -> repeatz x n = [].
Proof. intros. unfold repeatz. replace (Z.to_nat n) with 0%nat by lia. reflexivity. Qed.

Lemma csi_args_sgr l :
  csi_args l 1 0 = map (fun n => Z.max n 0) (match l with [] => [0] | _ => l end).
Proof.
  unfold csi_args. cbv zeta. destruct l as [|a r]; [reflexivity|].
  set (l := a :: r).
  rewrite repeatz_nonpos by (rewrite zlen_map; subst l; rewrite zlen_cons; pose proof (zlen_nonneg r); lia).
  rewrite app_nil_r. rewrite map_map. apply map_ext. intros n. apply dflt_zero.
Qed.

Lemma sim_sgr s v l : R s v -> cmd_ok (CSgr l) = true -> Forall small l ->
  exists s', addbytes s (enc_cmd (CSgr l)) = Ok s' /\ R s' (exec v (CSgr l)).
Proof.
  intros HR Hok Hs. cbn [enc_cmd exec].
  eapply (sim_csi s v l 109 1 0 109); [assumption|assumption|reflexivity|unfold plain_byte; lia|].
  intros X HX. rewrite cd_sgr. rewrite csi_args_sgr.
  set (l' := match l with [] => [0] | _ => l end).
  assert (Forall (fun n => In (Z.max n 0) sgr_values) l') as Hv0.
  { apply Forall_forall. intros n Hn.
    assert (memz n [-1; 0; 1; 4; 5; 7; 24; 25; 27; 30; 31; 32; 33; 34; 35; 36; 37; 39; 40; 41; 42; 43; 44; 45; 46; 47; 49] = true) as Hm.
    { subst l'. cbn [cmd_ok] in Hok. destruct l as [|a0 r0]; [destruct Hn as [<-|[]]; reflexivity|].
      rewrite forallb_forall in Hok. apply Hok. exact Hn. }
    apply memz_in in Hm. cbn [In] in Hm. unfold sgr_values. cbn [In].
    repeat (destruct Hm as [Hm|Hm]; [subst n; cbv; tauto|]). contradiction. }
  rewrite (sgr_norm l' Hv0). set (args := map (fun n => Z.max n 0) l').
  assert (Forall (fun a => In a sgr_values) args) as Hv.
  { subst args. apply Forall_forall. intros a Ha. apply in_map_iff in Ha. destruct Ha as (n & <- & Hn).
    rewrite Forall_forall in Hv0. apply Hv0. exact Hn. }
  pose proof HX as [I1 _ _ _ _ _ _ _ _ A1 O1 _ M1 C1].
  unfold csi_set_attr. set (ra := v_attr v) in *.
  assert (exists g, G_rel g (sgr args ra) (cset X) (m_display_ctrl (modes X)) /\
            match attrspec X with
            | Some a => sgi_to_attrspec X args (unbright a (a_fg a)) (unbright a (a_bg a)) (a_bold a) (a_ul a) (a_blink a) (a_so a) (a_colors a)
            | None => sgi_to_attrspec X args None None false false false false 1
            end = Ok (with_modes (with_cset X (g_cs g)) (set_m_display_ctrl (modes X) (g_dc g)), attr_of_ref (sgr args ra)))
    as (g & Gg & E2).
  { rewrite A1.
    assert (forall g0, G_rel g0 ra (cset X) (m_display_ctrl (modes X)) ->
              exists g, G_rel g (sgr args ra) (cset X) (m_display_ctrl (modes X)) /\ g = sgi_loop args g0) as Hloop.
    { intros g0 G0. eexists. split; [|reflexivity]. apply sgi_loop_rel; assumption. }
    destruct (attr_of_ref ra) as [a|] eqn:Ea.
    - pose proof (G_rel_start ra (cset X) (m_display_ctrl (modes X)) (negb (a_colors a =? 16777216)) (negb (a_colors a =? 16777216)) O1) as G0.
      rewrite Ea in G0. destruct (Hloop _ G0) as (g & Gl & Eg).
      exists g. split; [exact Gl|]. unfold sgi_to_attrspec. cbv zeta. rewrite <- Eg.
      pose proof Gl as (_ & _ & _ & _ & _ & _ & _ & Ec & _).
      replace (g_colors g =? 16777216) with false by (destruct Ec as [-> | ->]; reflexivity). cbn [bind fst snd].
      match goal with |- bind ?M _ = _ => replace M with (@Ok (option attr) (attr_of_ref (sgr args ra))) by (symmetry; apply (mk_attrspec_rel _ _ _ _ Gl)) end. reflexivity.
    - pose proof (G_rel_start ra (cset X) (m_display_ctrl (modes X)) (negb (1 =? 16777216)) (negb (1 =? 16777216)) O1) as G0.
      rewrite Ea in G0. destruct (Hloop _ G0) as (g & Gl & Eg).
      exists g. split; [exact Gl|]. unfold sgi_to_attrspec. cbv zeta. rewrite <- Eg.
      pose proof Gl as (_ & _ & _ & _ & _ & _ & _ & Ec & _).
      replace (g_colors g =? 16777216) with false by (destruct Ec as [-> | ->]; reflexivity). cbn [bind fst snd].
      match goal with |- bind ?M _ = _ => replace M with (@Ok (option attr) (attr_of_ref (sgr args ra))) by (symmetry; apply (mk_attrspec_rel _ _ _ _ Gl)) end. reflexivity. }
  rewrite E2. cbn [bind].
  destruct Gg as (_ & _ & _ & _ & _ & _ & Ok' & _ & _ & Ecs & Edc). rewrite Ecs, Edc.
  rewrite M1. cbn [m_reverse_video set_m_display_ctrl modes0 m_display_ctrl modes with_modes with_cset].
  eexists. split; [reflexivity|]. pose proof HX as [].
  constructor; cbn [v_w v_h v_g v_x v_y v_pend v_top v_bot v_attr width height term cur sr_start sr_end rotten attrspec u8eat
                    modes cset with_attrspec with_modes with_cset]; auto.
  eapply K_Inv. eapply K_trans; [apply with_cset_K; exact I1|].
  assert (K (with_cset X (cset X)) (with_modes (with_cset X (cset X)) modes0)) as Km.
  { apply with_modes_K; [apply with_cset_K; exact I1|]. cbn. discriminate. }
  eapply K_trans; [exact Km|].
  apply with_attrspec_K; [apply Km|].
  destruct (attr_of_ref (sgr args ra)) eqn:Ea; [|exact Logic.I].
  (* the built AttrSpec is in the domain *)
  unfold attr_of_ref in Ea. destruct Ok' as [P1 P2].
  destruct (sgr args ra) as [rf rb rbo rul rbl rrv]. cbn [r_fg r_bg r_bold r_ul r_blink r_rev] in *.
  destruct (is_none rf && is_none rb && negb (rbo || rul || rbl || rrv)); [discriminate|]. inversion Ea; subst.
  unfold oattr_ok, attr_ok, colors_ok, color_ok. cbn [a_colors a_fg a_bg].
  destruct rf as [f|], rb as [b|], rbo; cbn [is_none andb]; lia_cmp; cbn [andb]; repeat split; reflexivity.
Qed.

(* ---------- HT ---------- *)
Lemma nthz_repeat {A} (x : A) n i : 0 <= i < Z.of_nat n -> nthz (repeat x n) i = Some x.
Proof.
  intros H. unfold nthz. replace (i <? 0) with false by lia.
  assert (Z.to_nat i < n)%nat as Hn by lia. revert Hn. generalize (Z.to_nat i) as k. clear. intros k. revert k.
  induction n; intros k Hk; [lia|]. destruct k; [reflexivity|]. cbn [repeat nth_error]. apply IHn. lia.
Qed.

Lemma is_tabstop_default t v x : Rg t v -> 0 <= x < v_w v -> is_tabstop t x = Ok (x mod 8 =? 0).
Proof.
  intros H Hx. pose proof H as []. unfold is_tabstop. rewrite g_tabs0. unfold tabs0, repeatz.
  pose proof (tablen_bound (v_w v) ltac:(lia)) as B.
  set (tl := if 0 <? v_w v mod 8 then v_w v / 8 + 1 else v_w v / 8) in *.
  assert (0 <= x / 8 < tl) as Hi.
  { split; [apply Z.div_pos; lia|apply Z.div_lt_upper_bound; lia]. }
  rewrite (get_index_nthz _ (x / 8) 1); [|lia|apply nthz_repeat; lia]. cbn [bind].
  pose proof (Z.mod_pos_bound x 8 ltac:(lia)) as Hm. set (m := x mod 8) in *.
  assert (m = 0 \/ m = 1 \/ m = 2 \/ m = 3 \/ m = 4 \/ m = 5 \/ m = 6 \/ m = 7) as E by lia.
  clearbody m. repeat (destruct E as [E|E]; [subst m; reflexivity|]). subst m. reflexivity.
Qed.

Lemma tab_loop_default fuel : forall t v x, Rg t v -> 0 <= x <= v_w v - 1 -> v_w v - 1 - x < Z.of_nat fuel ->
  tab_loop fuel t x = Ok (t, Z.min (v_w v - 1) ((x / 8 + 1) * 8)).
Proof.
  induction fuel; intros t v x H Hx Hf; [lia|]. pose proof H as [].
  cbn [tab_loop]. rewrite g_w0.
  pose proof (Z.div_mod x 8 ltac:(lia)) as Dx. pose proof (Z.mod_pos_bound x 8 ltac:(lia)) as Mx.
  destruct (x <? v_w v - 1) eqn:C.
  - rewrite (is_tabstop_default t v (x + 1) H) by lia. cbn [bind].
    destruct ((x + 1) mod 8 =? 0) eqn:C2.
    + f_equal. f_equal.
      assert ((x + 1) mod 8 = 0) as M1 by lia. pose proof (Z.div_mod (x + 1) 8 ltac:(lia)) as D1. rewrite M1 in D1.
      assert (x mod 8 = 7) as M7.
      { assert ((x + 1) mod 8 = (x mod 8 + 1) mod 8) as E by (rewrite Z.add_mod_idemp_l by lia; reflexivity).
        rewrite M1 in E. destruct (Z.eq_dec (x mod 8) 7); [assumption|]. rewrite Z.mod_small in E by lia. lia. }
      lia.
    + rewrite (IHfuel t v (x + 1) H) by lia. f_equal. f_equal. f_equal.
      assert ((x + 1) / 8 = x / 8) as E.
      { symmetry. apply (Z.div_unique (x + 1) 8 (x / 8) (x mod 8 + 1)); [|lia].
        assert ((x + 1) mod 8 = (x mod 8 + 1) mod 8) as E by (rewrite Z.add_mod_idemp_l by lia; reflexivity).
        destruct (Z.eq_dec (x mod 8) 7) as [E7|E7]; [rewrite E7 in E; change ((7 + 1) mod 8) with 0 in E; lia|lia]. }
      rewrite E. reflexivity.
  - f_equal. f_equal. lia.
Qed.

Lemma pc_ht s : m_display_ctrl (modes s) = false -> process_char s [9] = tab s.
Proof. intros Hd. unfold process_char. destruct (cur s). cbv zeta. rewrite Hd. reflexivity. Qed.

Lemma sim_ht s v : R s v -> ambiguous v CHt = false ->
  exists s', addbytes s (enc_cmd CHt) = Ok s' /\ R s' (exec v CHt).
Proof.
  intros HR Ha. pose proof (R_idle s v HR) as [He Hp Hu Hd Hm]. destruct HR as (H0 & _).
  pose proof (R0_bounds s v H0) as B. pose proof H0 as [].
  cbn [enc_cmd exec ambiguous] in *. rewrite addbytes_1. rewrite addbyte_ascii by (auto; lia). rewrite pc_ht by assumption.
  unfold tab. rewrite r_cur0.
  rewrite (tab_loop_default _ s v (v_x v) (R0_Rg s v H0)) by lia. cbn [bind fst snd].
  eexists. split; [reflexivity|].
  destruct (stc_frame (with_rotten s false) (Z.min (v_w v - 1) ((v_x v / 8 + 1) * 8)) (v_y v)) as (_ & _ & _ & Ei & Ep & _).
  split; [|split; [rewrite Ei; exact He|rewrite Ep; exact Hp]].
  pose proof (Z.div_pos (v_x v) 8 ltac:(lia) ltac:(lia)).
  erewrite with_xy_eq; [apply R0_move; assumption| |]; unfold clamp; split_ifs; lia.
Qed.

