(* C15 - simulation of the reference VT100 (Model/VT100Ref.v) by the emulator model (Model/VTerm.v) fed with
   the byte encoding of the reference's commands: the relation R, one lemma per command, composition. *)
From Coq Require Import ZArith List Bool Lia ZifyBool.
Import ListNotations.
From Urwid Require Import PyBase PyList vterm_csi_gen VTerm VT100Ref VTermRefine VTermListFacts VTermProofs VTermParse.
Open Scope Z_scope.

Arguments Z.mul : simpl never.
Arguments Z.add : simpl never.
Arguments Z.sub : simpl never.
Arguments Z.div : simpl never.
Arguments Z.modulo : simpl never.
Arguments Z.ltb : simpl never.
Arguments Z.leb : simpl never.
Arguments Z.eqb : simpl never.
Arguments Z.min : simpl never.
Arguments Z.max : simpl never.
Arguments Z.pow : simpl never.
Arguments Z.to_nat : simpl never.
Arguments Z.of_nat : simpl never.

(* ---------- the relation ---------- *)
(* reference colours: c < 256 palette index, 256 + rgb direct colour *)
Definition col_ok (c : oz) : Prop := match c with None => True | Some n => 0 <= n < 256 + 16777216 end.
Definition RA_ok (ra : rattr) : Prop := col_ok (r_fg ra) /\ col_ok (r_bg ra).
Definition below (k : Z) (c : oz) : Prop := match c with None => True | Some n => n < k end.

(* the number the emulator stores for a reference colour in an AttrSpec of depth d *)
Definition col_at (d c : Z) : Z := if d =? 16777216 then (if c <? 256 then palette c else c - 256) else c.
(* depths at which a reference rendition can be held: 16 needs the eight classic colours, 256 palette indexes *)
Definition depth_ok (d : Z) (ra : rattr) : Prop :=
  (d = 16 /\ below 8 (r_fg ra) /\ below 8 (r_bg ra)) \/ (d = 256 /\ below 256 (r_fg ra) /\ below 256 (r_bg ra)) \/ d = 16777216.
(* the AttrSpec (as vterm.py reads it back) for a reference rendition at depth d: at 16 colours bold brightens the
   foreground *)
Definition attr_at (d : Z) (ra : rattr) : option attr :=
  if is_none (r_fg ra) && is_none (r_bg ra) && negb (r_bold ra || r_ul ra || r_blink ra || r_rev ra) then None
  else Some (mkAttr (match r_fg ra with Some n => Some (if (d =? 16) && r_bold ra then n + 8 else col_at d n) | None => None end)
                    (match r_bg ra with Some n => Some (col_at d n) | None => None end)
                    (if is_none (r_fg ra) && is_none (r_bg ra) then 1 else d)
                    (r_bold ra) (r_ul ra) (r_blink ra) (r_rev ra)).
(* the depth is history: 38;5;1 gives a 256-colour "h1" where 31 gives a 16-colour "dark red", and it sticks until both
   colours are default again *)
Definition attr_rel (a : option attr) (ra : rattr) : Prop := exists d, depth_ok d ra /\ a = attr_at d ra.

Definition cell_rel (c : cell) (r : rcell) : Prop :=
  snd c = [fst r] /\
  match snd r with
  | None => True
  | Some (ra, rcs) => attr_rel (fst (fst c)) ra /\ RA_ok ra /\ snd (fst c) = rcs
  end.
(* the emulator's TermCharset against the reference's (G0, G1, shift); no ibmpc / SGR mapping in the subset *)
Definition cs_rel (c : charset_t) (k : Z * Z * Z) : Prop :=
  let '(g0, g1, sh) := k in
  cs_sgr c = false /\ cs_g0 c = g0 /\ (g0 = 0 \/ g0 = 1) /\ (cs_g1 c = 0 \/ cs_g1 c = 1) /\ (g1 = -1 \/ cs_g1 c = g1) /\
  cs_active c = sh /\ (sh = 0 \/ (sh = 1 /\ g1 <> -1)) /\ cs_current c = (if sh =? 0 then g0 else g1).
Definition grid_rel (t : list row) (g : list rrow) : Prop := Forall2 (Forall2 cell_rel) t g.

(* the tab stops of a terminal on which no stop was set or cleared: every 8 columns *)
Definition tabs0 (w : Z) : list Z := repeatz 1 (if 0 <? w mod 8 then w / 8 + 1 else w / 8).

(* the modes of a session of the compared subset: only origin mode (DECOM) ever changes *)
Definition modes0 (o : bool) : modes_t := mkModes false false false false false o true true false charset_default_gen.

Record R0 (t : st) (v : vt) : Prop := mkR0 {
  r_inv : Inv t;
  r_w : width t = v_w v;
  r_h : height t = v_h v;
  r_grid : grid_rel (term t) (v_g v);
  r_cur : cur t = (v_x v, v_y v);
  r_top : sr_start t = v_top v;
  r_bot : sr_end t = v_bot v;
  r_pend : rotten t = v_pend v;
  r_pendx : v_pend v = true -> v_x v = v_w v - 1;
  r_attr : attr_rel (attrspec t) (v_attr v);
  r_raok : RA_ok (v_attr v);
  r_u8 : u8eat t = None;
  r_modes : modes t = modes0 (v_origin v);
  r_cset : cs_rel (cset t) (v_cs v);
  r_tabs : tabstops t = tabs0 (v_w v);
  r_replies : replies_of (events t) = map render_reply (v_replies v);
  r_sb : v_sbknown v = true -> grid_rel (sb t) (tail_max (v_sb v)) }.

Ltac hist :=
  try match goal with
      | H : events ?t' = events ?t, R : replies_of (events ?t) = _ |- replies_of (events ?t') = _ => rewrite H; exact R
      | H : sb ?t' = sb ?t, R : _ = true -> grid_rel (sb ?t) _ |- _ = true -> grid_rel (sb ?t') _ => rewrite H; exact R
      | H : cset ?t' = cset ?t, R : cs_rel (cset ?t) _ |- cs_rel (cset ?t') _ => rewrite H; exact R
      | H : attrspec ?t' = attrspec ?t, R : attr_rel (attrspec ?t) _ |- attr_rel (attrspec ?t') _ => rewrite H; exact R
      end.

Definition R (s : st) (v : vt) : Prop := R0 s v /\ inesc s = false /\ pstate s = 0.

Lemma R_idle s v : R s v -> Idle s.
Proof. intros ([] & He & Hp). constructor; auto; rewrite r_modes0; reflexivity. Qed.

(* fields R0 reads, other than cur and rotten *)
Definition same_gfx (t t' : st) : Prop :=
  width t' = width t /\ height t' = height t /\ term t' = term t /\ sr_start t' = sr_start t /\ sr_end t' = sr_end t /\
  attrspec t' = attrspec t /\ u8eat t' = u8eat t /\ modes t' = modes t /\ cset t' = cset t /\ tabstops t' = tabstops t /\ sb t' = sb t /\ events t' = events t.

Lemma R0_moved t t' v x y p :
  R0 t v -> Inv t' -> same_gfx t t' -> cur t' = (x, y) -> rotten t' = p -> (p = true -> x = v_w v - 1) ->
  R0 t' (with_xy v x y p).
Proof.
  intros [] I' (E1 & E2 & E3 & E4 & E5 & E6 & E7 & E8 & E9 & E10 & E11 & E12) Hc Hr Hp.
  constructor; cbn [with_xy v_w v_h v_g v_x v_y v_pend v_top v_bot v_attr v_sb v_sbknown v_replies v_cs v_origin]; try congruence; auto; hist.
Qed.

Lemma R0_parser t t' v :
  R0 t v -> same_gfx t t' -> cur t' = cur t -> rotten t' = rotten t -> cursor t' = cursor t -> sup t' = sup t ->
  tabstops t' = tabstops t -> saved_attrs t' = saved_attrs t -> events t' = events t -> sb t' = sb t -> R0 t' v.
Proof.
  intros [] (E1 & E2 & E3 & E4 & E5 & E6 & E7 & E8 & E9 & E10 & E11 & E12) Hc Hr H1 H2 H3 H4 H5 H6.
  constructor; try congruence; auto; hist.
  eapply Inv_ext; [| | | | | | | | | | | | | |eassumption]; auto. rewrite E8. reflexivity.
Qed.

Lemma R0_csi_state s v l : R0 s v -> R0 (csi_state s l) v.
Proof. intros H. eapply R0_parser; [eassumption|..]; try reflexivity. repeat split. Qed.

Lemma R_leave t v : R0 t v -> R (leave_escape (with_pstate t 0)) v.
Proof.
  intros H. split; [|split; reflexivity]. eapply R0_parser; [eassumption|..]; try reflexivity. repeat split.
Qed.

(* ---------- cursor helpers ---------- *)
Lemma stc_frame t x y :
  same_gfx t (set_term_cursor t x y) /\ cur (set_term_cursor t x y) = constrain t x y 0 /\
  rotten (set_term_cursor t x y) = rotten t /\ inesc (set_term_cursor t x y) = inesc t /\
  pstate (set_term_cursor t x y) = pstate t /\ sb (set_term_cursor t x y) = sb t /\
  events (set_term_cursor t x y) = events t.
Proof.
  unfold set_term_cursor. destruct (constrain t x y 0) as [cx cy].
  match goal with |- context [if ?b then _ else _] => destruct b end; repeat split; reflexivity.
Qed.

Definition clamp (v lim : Z) : Z := if lim <=? v then lim - 1 else if v <? 0 then 0 else v.

Lemma constrain_plain t x y :
  m_constrain (modes t) = false -> constrain t x y 0 = (clamp x (width t), clamp y (height t)).
Proof. intros H. unfold constrain, constrain_coords_gen, clamp. cbv zeta. rewrite H. reflexivity. Qed.

Lemma constrain_plain1 t x y : constrain t x y 1 = (clamp x (width t), clamp y (height t)).
Proof.
  unfold constrain, constrain_coords_gen, clamp. cbv zeta.
  replace (negb (negb (1 =? 0))) with false by reflexivity. rewrite andb_false_r. reflexivity.
Qed.

(* the line a cursor motion to line y ends on: origin mode keeps the cursor inside the margins *)
Definition clampy (v : vt) (y : Z) : Z :=
  if v_origin v then (if v_bot v <? y then v_bot v else if y <? v_top v then v_top v else y) else clamp y (v_h v).

Lemma constrain_gen t v x y :
  modes t = modes0 (v_origin v) -> width t = v_w v -> height t = v_h v -> sr_start t = v_top v -> sr_end t = v_bot v ->
  constrain t x y 0 = (clamp x (v_w v), clampy v y).
Proof.
  intros Hm Hw Hh Ht Hb. unfold constrain, constrain_coords_gen, clamp, clampy. cbv zeta.
  rewrite Hm, Hw, Hh, Ht, Hb. cbn [m_constrain modes0].
  replace (negb (negb (0 =? 0))) with true by reflexivity. rewrite andb_true_r.
  destruct (v_origin v); reflexivity.
Qed.

Lemma constrain_R0 t v x y : R0 t v -> constrain t x y 0 = (clamp x (v_w v), clampy v y).
Proof. intros []. apply constrain_gen; assumption. Qed.

(* in origin mode the cursor is inside the margins *)
Lemma R0_org t v : R0 t v -> v_origin v = true -> v_top v <= v_y v <= v_bot v.
Proof.
  intros [] O. pose proof (i_org t r_inv0) as Ho. rewrite r_modes0, r_cur0, r_top0, r_bot0 in Ho. cbn [m_constrain modes0 snd] in Ho.
  apply Ho. exact O.
Qed.

(* lia without the flag equations (rotten t' = rotten t, inesc s = false, ...): ZifyBool makes each of them a case split *)
Ltac clear_flags :=
  repeat match goal with
         | H : @eq bool ?a ?b |- _ =>
             lazymatch a with
             | context [Z.eqb] => fail | context [Z.ltb] => fail | context [Z.leb] => fail
             | context [andb] => fail | context [orb] => fail
             | _ => clear H
             end
         end.
Ltac flia := clear_flags; lia.

Ltac csolve v Og :=
  unfold clampy, clamp, one, line in *;
  let O := fresh "O" in destruct (v_origin v) eqn:O; [specialize (Og eq_refl)|clear Og]; clear_flags; split_ifs; lia.

Lemma clampy_in v y : (v_origin v = true -> v_top v <= y <= v_bot v) -> 0 <= y < v_h v -> clampy v y = y.
Proof. intros Og Hy. csolve v Og. Qed.

(* moving the cursor (clearing the pending wrap) *)
Lemma R0_move t v x y :
  R0 t v ->
  R0 (set_term_cursor (with_rotten t false) x y) (with_xy v (clamp x (v_w v)) (clampy v y) false).
Proof.
  intros H. pose proof H as [].
  destruct (stc_frame (with_rotten t false) x y) as (F & C & Rt & _).
  eapply R0_moved; [exact H| | | | |discriminate].
  - eapply K_Inv. apply set_term_cursor_unrotten_K. assumption.
  - destruct F as (E1 & E2 & E3 & E4 & E5 & E6 & E7 & E8 & E9 & E10 & E11 & E12). repeat split; assumption.
  - rewrite C. change (constrain (with_rotten t false) x y 0) with (constrain t x y 0). apply constrain_R0. exact H.
  - rewrite Rt. reflexivity.
Qed.

(* ---------- the step shape, CSI commands ---------- *)
Lemma sim_csi s v ps f nargs dflt tgt v' :
  R s v -> Forall small ps -> csi_table f = Some (nargs, dflt, tgt) -> plain_byte f ->
  (forall X, R0 X v -> exists s', csi_dispatch X tgt (csi_args ps nargs dflt) false = Ok s' /\ R0 s' v') ->
  exists s', addbytes s (csi ps f) = Ok s' /\ R s' v'.
Proof.
  intros HR Hs Hf Hp Hd. pose proof (R_idle s v HR) as Hi. destruct HR as (H0 & _).
  rewrite <- (app_nil_r (csi ps f)). rewrite (feed_csi s ps f nargs dflt tgt []) by assumption.
  destruct (Hd (csi_state s (enc_params ps)) (R0_csi_state s v _ H0)) as (s' & E & HR').
  rewrite E. cbn [bind addbytes]. eexists. split; [reflexivity|]. apply R_leave. assumption.
Qed.

Definition dflt_of (d n : Z) : Z := match p2o n with None => d | Some v => if v =? 0 then d else v end.

Lemma csi_args_1 n d : csi_args [n] 1 d = [dflt_of d n].
Proof. reflexivity. Qed.
Lemma csi_args_2 a b d : csi_args [a; b] 2 d = [dflt_of d a; dflt_of d b].
Proof. reflexivity. Qed.

Lemma dflt_one n : dflt_of 1 n = one n.
Proof. unfold dflt_of, p2o, one. destruct (n <? 0) eqn:A, (n <=? 0) eqn:C; try lia; destruct (n =? 0) eqn:B; lia. Qed.

Lemma cd_move X args q c :
  csi_dispatch X c args q =
  (if c =? 65 then Ok (move_cursor X 0 (- arg args 0) false false true)
   else if c =? 66 then Ok (move_cursor X 0 (arg args 0) false false true)
   else if c =? 67 then Ok (move_cursor X (arg args 0) 0 false false true)
   else if c =? 68 then Ok (move_cursor X (- arg args 0) 0 false false true)
   else if c =? 72 then Ok (move_cursor X (arg args 1 - 1) (arg args 0 - 1) false false false)
   else csi_dispatch X c args q).
Proof.
  destruct (c =? 65) eqn:E1; [apply Z.eqb_eq in E1; subst; unfold csi_dispatch; destruct (cur X); reflexivity|].
  destruct (c =? 66) eqn:E2; [apply Z.eqb_eq in E2; subst; unfold csi_dispatch; destruct (cur X); reflexivity|].
  destruct (c =? 67) eqn:E3; [apply Z.eqb_eq in E3; subst; unfold csi_dispatch; destruct (cur X); reflexivity|].
  destruct (c =? 68) eqn:E4; [apply Z.eqb_eq in E4; subst; unfold csi_dispatch; destruct (cur X); reflexivity|].
  destruct (c =? 72) eqn:E5; [apply Z.eqb_eq in E5; subst; unfold csi_dispatch; destruct (cur X); reflexivity|].
  reflexivity.
Qed.

(* bounds of the reference state that follow from the relation *)
Lemma R0_bounds t v : R0 t v ->
  1 <= v_w v /\ 1 <= v_h v /\ 0 <= v_x v < v_w v /\ 0 <= v_y v < v_h v /\
  0 <= v_top v /\ v_top v <= v_bot v /\ v_bot v < v_h v.
Proof.
  intros []. destruct r_inv0. rewrite r_cur0 in *. cbn [fst snd] in *. lia.
Qed.

Lemma move_cursor_rel X v x y :
  R0 X v ->
  R0 (move_cursor X x y false false true)
     (with_xy v (clamp (x + v_x v) (v_w v)) (clampy v (y + v_y v)) false).
Proof.
  intros H. unfold move_cursor. cbv zeta. cbn [orb]. pose proof H as []. rewrite r_cur0. cbn [fst snd].
  apply R0_move. assumption.
Qed.

Lemma move_cursor_abs X v x y :
  R0 X v ->
  R0 (move_cursor X x y false false false)
     (with_xy v (clamp x (v_w v)) (clampy v (if v_origin v then y + v_top v else y)) false).
Proof.
  intros H. unfold move_cursor. cbv zeta. cbn [orb]. pose proof H as []. rewrite r_modes0, r_top0. cbn [m_constrain modes0].
  apply R0_move. assumption.
Qed.

(* the column stays: VPA *)
Lemma move_cursor_line X v y :
  R0 X v ->
  R0 (move_cursor X 0 y true false false)
     (with_xy v (clamp (0 + v_x v) (v_w v)) (clampy v (if v_origin v then y + v_top v else y)) false).
Proof.
  intros H. unfold move_cursor. cbv zeta. cbn [orb]. pose proof H as []. rewrite r_modes0, r_top0, r_cur0. cbn [m_constrain modes0 fst].
  apply R0_move. assumption.
Qed.

Lemma with_xy_eq v x y p x' y' : x = x' -> y = y' -> with_xy v x y p = with_xy v x' y' p.
Proof. intros -> ->. reflexivity. Qed.

(* CUP *)
Lemma sim_cup s v r c : R s v -> small r -> small c ->
  exists s', addbytes s (enc_cmd (CCup r c)) = Ok s' /\ R s' (exec v (CCup r c)).
Proof.
  intros HR Hr Hc. cbn [enc_cmd exec].
  eapply (sim_csi s v [r; c] 72 2 1 72); [assumption|repeat constructor; assumption|reflexivity|unfold plain_byte; lia|].
  intros X HX. rewrite cd_move. cbn [Z.eqb]. replace (72 =? 65) with false by reflexivity.
  replace (72 =? 66) with false by reflexivity. replace (72 =? 67) with false by reflexivity.
  replace (72 =? 68) with false by reflexivity. replace (72 =? 72) with true by reflexivity.
  eexists. split; [reflexivity|]. rewrite csi_args_2. cbn [arg nth]. rewrite !dflt_one.
  pose proof (R0_bounds X v HX) as B. pose proof (R0_org X v HX) as Og.
  erewrite with_xy_eq; [apply move_cursor_abs; assumption| |]; csolve v Og.
Qed.

(* CUU CUD CUF CUB *)
Lemma sim_cuf s v n : R s v -> small n ->
  exists s', addbytes s (enc_cmd (CCuf n)) = Ok s' /\ R s' (exec v (CCuf n)).
Proof.
  intros HR Hn. cbn [enc_cmd exec].
  eapply (sim_csi s v [n] 67 1 1 67); [assumption|repeat constructor; assumption|reflexivity|unfold plain_byte; lia|].
  intros X HX. rewrite cd_move. replace (67 =? 65) with false by reflexivity.
  replace (67 =? 66) with false by reflexivity. replace (67 =? 67) with true by reflexivity.
  eexists. split; [reflexivity|]. rewrite csi_args_1. cbn [arg nth]. rewrite !dflt_one.
  pose proof (R0_bounds X v HX) as B. pose proof (R0_org X v HX) as Og.
  erewrite with_xy_eq; [apply move_cursor_rel; assumption| |]; csolve v Og.
Qed.

Lemma sim_cub s v n : R s v -> small n ->
  exists s', addbytes s (enc_cmd (CCub n)) = Ok s' /\ R s' (exec v (CCub n)).
Proof.
  intros HR Hn. cbn [enc_cmd exec].
  eapply (sim_csi s v [n] 68 1 1 68); [assumption|repeat constructor; assumption|reflexivity|unfold plain_byte; lia|].
  intros X HX. rewrite cd_move. replace (68 =? 65) with false by reflexivity.
  replace (68 =? 66) with false by reflexivity. replace (68 =? 67) with false by reflexivity.
  replace (68 =? 68) with true by reflexivity.
  eexists. split; [reflexivity|]. rewrite csi_args_1. cbn [arg nth]. rewrite !dflt_one.
  pose proof (R0_bounds X v HX) as B. pose proof (R0_org X v HX) as Og.
  erewrite with_xy_eq; [apply move_cursor_rel; assumption| |]; csolve v Og.
Qed.

Lemma sim_cuu s v n : R s v -> small n -> ambiguous v (CCuu n) = false ->
  exists s', addbytes s (enc_cmd (CCuu n)) = Ok s' /\ R s' (exec v (CCuu n)).
Proof.
  intros HR Hn Ha. cbn [enc_cmd exec].
  eapply (sim_csi s v [n] 65 1 1 65); [assumption|repeat constructor; assumption|reflexivity|unfold plain_byte; lia|].
  intros X HX. rewrite cd_move. replace (65 =? 65) with true by reflexivity.
  eexists. split; [reflexivity|]. rewrite csi_args_1. cbn [arg nth]. rewrite !dflt_one.
  pose proof (R0_bounds X v HX) as B. pose proof (R0_org X v HX) as Og. cbn [ambiguous] in Ha.
  erewrite with_xy_eq; [apply move_cursor_rel; assumption| |]; csolve v Og.
Qed.

Lemma sim_cud s v n : R s v -> small n -> ambiguous v (CCud n) = false ->
  exists s', addbytes s (enc_cmd (CCud n)) = Ok s' /\ R s' (exec v (CCud n)).
Proof.
  intros HR Hn Ha. cbn [enc_cmd exec].
  eapply (sim_csi s v [n] 66 1 1 66); [assumption|repeat constructor; assumption|reflexivity|unfold plain_byte; lia|].
  intros X HX. rewrite cd_move. replace (66 =? 65) with false by reflexivity. replace (66 =? 66) with true by reflexivity.
  eexists. split; [reflexivity|]. rewrite csi_args_1. cbn [arg nth]. rewrite !dflt_one.
  pose proof (R0_bounds X v HX) as B. pose proof (R0_org X v HX) as Og. cbn [ambiguous] in Ha.
  erewrite with_xy_eq; [apply move_cursor_rel; assumption| |]; csolve v Og.
Qed.

Lemma R0_same t t' v :
  R0 t v -> Inv t' -> same_gfx t t' -> cur t' = cur t -> rotten t' = rotten t -> R0 t' v.
Proof.
  intros [] I' (E1 & E2 & E3 & E4 & E5 & E6 & E7 & E8 & E9 & E10 & E11 & E12) Hc Hr. constructor; try congruence; auto; hist.
Qed.

(* ---------- single bytes ---------- *)
Lemma addbytes_1 s b : addbytes s [b] = addbyte s b.
Proof. cbn [addbytes]. destruct (addbyte s b); reflexivity. Qed.

Lemma pc_cr s : m_display_ctrl (modes s) = false -> process_char s [13] = Ok (carriage_return s).
Proof. intros Hd. unfold process_char. destruct (cur s). cbv zeta. rewrite Hd. reflexivity. Qed.

Lemma pc_bs s : m_display_ctrl (modes s) = false ->
  process_char s [8] = (if 0 <? fst (cur s) then Ok (set_term_cursor (with_rotten s false) (fst (cur s) - 1) (snd (cur s)))
                        else Ok (with_rotten s false)).
Proof. intros Hd. unfold process_char. destruct (cur s). cbv zeta. rewrite Hd. reflexivity. Qed.

Lemma sim_cr s v : R s v -> exists s', addbytes s (enc_cmd CCr) = Ok s' /\ R s' (exec v CCr).
Proof.
  intros HR. pose proof (R_idle s v HR) as [He Hp Hu Hd Hm]. destruct HR as (H0 & _).
  cbn [enc_cmd exec]. rewrite addbytes_1. rewrite addbyte_ascii by (auto; lia). rewrite pc_cr by assumption.
  eexists. split; [reflexivity|]. unfold carriage_return.
  destruct (stc_frame (with_rotten s false) 0 (snd (cur s))) as (_ & _ & _ & Ei & Ep & _).
  split; [|split; [rewrite Ei; exact He|rewrite Ep; exact Hp]].
  pose proof (R0_bounds s v H0) as B. pose proof (R0_org s v H0) as Og. pose proof H0 as []. rewrite r_cur0. cbn [snd].
  erewrite with_xy_eq; [apply R0_move; assumption| |]; csolve v Og.
Qed.

Lemma sim_bs s v : R s v -> exists s', addbytes s (enc_cmd CBs) = Ok s' /\ R s' (exec v CBs).
Proof.
  intros HR. pose proof (R_idle s v HR) as [He Hp Hu Hd Hm]. destruct HR as (H0 & _).
  cbn [enc_cmd exec]. rewrite addbytes_1. rewrite addbyte_ascii by (auto; lia). rewrite pc_bs by assumption.
  pose proof (R0_bounds s v H0) as B. pose proof (R0_org s v H0) as Og. pose proof H0 as []. rewrite r_cur0. cbn [fst snd].
  destruct (0 <? v_x v) eqn:C.
  - eexists. split; [reflexivity|].
    destruct (stc_frame (with_rotten s false) (v_x v - 1) (v_y v)) as (_ & _ & _ & Ei & Ep & _).
    split; [|split; [rewrite Ei; exact He|rewrite Ep; exact Hp]].
    erewrite with_xy_eq; [apply R0_move; assumption| |]; csolve v Og.
  - eexists. split; [reflexivity|]. split; [|split; assumption].
    eapply R0_moved; [exact H0| | |exact r_cur0|reflexivity|discriminate].
    + eapply K_Inv. apply with_rotten_K. assumption.
    + repeat split.
Qed.

(* ---------- DECSTBM, DSR ---------- *)
Lemma cd_misc X args q c :
  csi_dispatch X c args q =
  (if c =? 114 then Ok (csi_set_scroll X (arg args 0) (arg args 1))
   else if c =? 110 then Ok (csi_status_report X (arg args 0))
   else csi_dispatch X c args q).
Proof.
  destruct (c =? 114) eqn:E1; [apply Z.eqb_eq in E1; subst; unfold csi_dispatch; destruct (cur X); reflexivity|].
  destruct (c =? 110) eqn:E2; [apply Z.eqb_eq in E2; subst; unfold csi_dispatch; destruct (cur X); reflexivity|].
  reflexivity.
Qed.

Lemma dflt_zero n : dflt_of 0 n = Z.max n 0.
Proof. unfold dflt_of, p2o. destruct (n <? 0) eqn:A; [lia|]. destruct (n =? 0) eqn:B; lia. Qed.

Lemma sim_stbm s v t b : R s v -> small t -> small b ->
  exists s', addbytes s (enc_cmd (CStbm t b)) = Ok s' /\ R s' (exec v (CStbm t b)).
Proof.
  intros HR Ht Hb. cbn [enc_cmd exec].
  eapply (sim_csi s v [t; b] 114 2 0 114); [assumption|repeat constructor; assumption|reflexivity|unfold plain_byte; lia|].
  intros X HX. rewrite cd_misc. replace (114 =? 114) with true by reflexivity.
  eexists. split; [reflexivity|]. rewrite csi_args_2. cbn [arg nth]. rewrite !dflt_zero.
  pose proof (R0_bounds X v HX) as B. pose proof HX as [].
  unfold csi_set_scroll. cbv zeta. rewrite r_h0.
  assert ((if Z.max t 0 =? 0 then 1 else Z.max t 0) = one t) as E1 by (unfold one; split_ifs; lia).
  assert ((if Z.max b 0 =? 0 then v_h v else Z.max b 0) = (if b <=? 0 then v_h v else b)) as E2 by (split_ifs; lia).
  assert (1 <= one t) as O1 by (unfold one; split_ifs; lia).
  rewrite E1, E2. set (b' := if b <=? 0 then v_h v else b). set (ot := one t) in *.
  destruct ((ot <? b') && (b' <=? v_h v)) eqn:C; [|exact HX].
  pose proof C as C'. apply andb_prop in C'. destruct C' as [C1 C2]. apply Z.ltb_lt in C1. apply Z.leb_le in C2.
  match goal with |- R0 (set_term_cursor (with_rotten ?S false) 0 0) _ => set (s2 := S) end.
  assert (Inv (set_term_cursor (with_rotten s2 false) 0 0)) as I2.
  { pose proof (csi_set_scroll_K X (Z.max t 0) (Z.max b 0) r_inv0) as Kc. unfold csi_set_scroll in Kc. cbv zeta in Kc.
    rewrite r_h0, E1, E2 in Kc. fold b' in Kc. rewrite C in Kc. apply K_Inv in Kc. exact Kc. }
  clearbody b' ot.
  destruct (stc_frame (with_rotten s2 false) 0 0) as ((F1 & F2 & F3 & F4 & F5 & F6 & F7 & F8 & F9 & F10 & F11 & F12) & Fc & Fr & _).
  assert (sr_start s2 = ot - 1) as S1.
  { subst s2. cbn [sr_start with_sr_end with_sr_start]. rewrite constrain_ign. rewrite r_h0. split_ifs; lia. }
  assert (sr_end s2 = b' - 1) as S2.
  { subst s2. cbn [sr_end with_sr_end]. rewrite constrain_ign. cbn [height with_sr_start]. rewrite r_h0. split_ifs; lia. }
  constructor; cbn [v_w v_h v_g v_x v_y v_pend v_top v_bot v_attr v_origin]; auto.
  - rewrite F1. exact r_w0.
  - rewrite F2. exact r_h0.
  - rewrite F3. exact r_grid0.
  - rewrite Fc. unfold constrain, constrain_coords_gen. cbv zeta. cbn [sr_start sr_end modes width height with_rotten].
    rewrite S1, S2. replace (modes s2) with (modes X) by reflexivity. replace (width s2) with (width X) by reflexivity.
    replace (height s2) with (height X) by reflexivity. rewrite r_modes0, r_w0, r_h0. cbn [m_constrain modes0].
    replace (negb (negb (0 =? 0))) with true by reflexivity. rewrite andb_true_r.
    destruct (v_origin v); split_ifs; try lia; try reflexivity; f_equal; lia.
  - rewrite F4. cbn [sr_start with_rotten]. exact S1.
  - rewrite F5. cbn [sr_end with_rotten]. exact S2.
  - discriminate.
  - rewrite F6. exact r_attr0.
  - rewrite F7. exact r_u9.
  - rewrite F8. exact r_modes0.
  - rewrite F9. exact r_cset0.
  - rewrite F10. exact r_tabs0.
  - rewrite F12. exact r_replies0.
  - rewrite F11. exact r_sb0.
Qed.

Lemma sim_dsr s v n : R s v -> small n ->
  exists s', addbytes s (enc_cmd (CDsr n)) = Ok s' /\ R s' (exec v (CDsr n)).
Proof.
  intros HR Hn. cbn [enc_cmd exec].
  eapply (sim_csi s v [n] 110 1 0 110); [assumption|repeat constructor; assumption|reflexivity|unfold plain_byte; lia|].
  intros X HX. rewrite cd_misc. replace (110 =? 114) with false by reflexivity. replace (110 =? 110) with true by reflexivity.
  eexists. split; [reflexivity|]. pose proof HX as []. pose proof (csi_status_report_K X (dflt_of 0 n) r_inv0) as Kc. apply K_Inv in Kc.
  rewrite csi_args_1 in *. cbn [arg nth] in *. rewrite dflt_zero in *.
  assert (forall r', replies_of (Respond r' :: events X) = replies_of (events X) ++ [r']) as Hr.
  { intros r'. unfold replies_of. cbn [rev]. rewrite flat_map_app. cbn [flat_map app]. reflexivity. }
  unfold csi_status_report, respond in *. rewrite r_cur0, r_modes0, r_top0 in *. cbn [fst snd m_constrain modes0] in *. cbv zeta in *.
  destruct (Z.max n 0 =? 5) eqn:C5; [|destruct (Z.max n 0 =? 6) eqn:C6].
  - replace (n =? 5) with true by lia.
    constructor; cbn [v_w v_h v_g v_x v_y v_pend v_top v_bot v_attr v_sb v_sbknown v_replies v_cs v_origin events with_events]; auto.
    rewrite Hr, r_replies0, map_app. reflexivity.
  - replace (n =? 5) with false by lia. replace (n =? 6) with true by lia.
    constructor; cbn [v_w v_h v_g v_x v_y v_pend v_top v_bot v_attr v_sb v_sbknown v_replies v_cs v_origin events with_events]; auto.
    rewrite Hr, r_replies0, map_app. reflexivity.
  - replace (n =? 5) with false by lia. replace (n =? 6) with false by lia.
    constructor; cbn [v_w v_h v_g v_x v_y v_pend v_top v_bot v_attr v_sb v_sbknown v_replies v_cs v_origin]; auto.
    rewrite app_nil_r. exact r_replies0.
Qed.

(* ---------- the initial states are related ---------- *)
Lemma clear_fields s :
  m_constrain (modes s) = false ->
  let s' := clear s None in
  term s' = repeatz (empty_line s [32]) (height s) /\ cur s' = (clamp 0 (width s), clamp 0 (height s)) /\
  width s' = width s /\ height s' = height s /\ sr_start s' = sr_start s /\ sr_end s' = sr_end s /\
  rotten s' = rotten s /\ attrspec s' = attrspec s /\ u8eat s' = u8eat s /\ modes s' = modes s /\ cset s' = cset s /\
  inesc s' = inesc s /\ pstate s' = pstate s /\ tabstops s' = tabstops s /\ sb s' = sb s /\ events s' = events s.
Proof.
  intros Hm. unfold clear. cbv zeta.
  match goal with |- context [set_term_cursor ?S 0 0] => set (S0 := S) end.
  destruct (stc_frame S0 0 0) as ((F1 & F2 & F3 & F4 & F5 & F6 & F7 & F8 & F9 & F10 & F11 & F12) & Fc & Fr & Fi & Fp & _).
  rewrite F1, F2, F3, F4, F5, F6, F7, F8, F9, F10, F11, F12, Fc, Fr, Fi, Fp.
  rewrite constrain_plain by exact Hm. repeat split; reflexivity.
Qed.

Lemma reset_fields s :
  let s' := reset s in
  term s' = repeatz (repeatz (None, 0, [32]) (width s)) (height s) /\
  cur s' = (clamp 0 (width s), clamp 0 (height s)) /\
  width s' = width s /\ height s' = height s /\ sr_start s' = 0 /\ sr_end s' = height s - 1 /\
  rotten s' = false /\ attrspec s' = None /\ u8eat s' = u8eat s /\ modes s' = modes_reset (modes s) /\
  cset s' = charset_new /\ inesc s' = false /\ pstate s' = 0 /\ tabstops s' = tabs0 (width s) /\
  sb s' = sb s /\ events s' = events s.
Proof.
  unfold reset. cbv zeta.
  match goal with |- context [clear ?S None] => set (S0 := S) end.
  destruct (clear_fields S0 eq_refl) as (F1 & F2 & F3 & F4 & F5 & F6 & F7 & F8 & F9 & F10 & F11 & F12 & F13 & F14 & F15 & F16).
  cbv zeta in *. rewrite F1, F2, F3, F4, F5, F6, F7, F8, F9, F10, F11, F12, F13, F14, F15, F16.
  repeat split; reflexivity.
Qed.

Lemma Forall2_repeat {A B} (P : A -> B -> Prop) a b n : P a b -> Forall2 P (repeat a n) (repeat b n).
Proof. intros. induction n; cbn; constructor; auto. Qed.

Lemma attr_rel_default : attr_rel None ra0.
Proof. exists 16777216. split; [right; right; reflexivity|reflexivity]. Qed.

Lemma RA_ok_default : RA_ok ra0.
Proof. split; exact Logic.I. Qed.

Lemma R_reset S :
  Inv (reset S) -> 1 <= width S -> 1 <= height S -> u8eat S = None -> m_bracketed (modes S) = false ->
  sb S = [] -> events S = [] ->
  R (reset S) (vt_init (width S) (height S)).
Proof.
  intros I Hw Hh Hu Hb Hsb Hev.
  destruct (reset_fields S) as (F1 & F2 & F3 & F4 & F5 & F6 & F7 & F8 & F9 & F10 & F11 & F12 & F13 & F14 & F15 & F16). cbv zeta in *.
  split; [|split; assumption].
  constructor; cbn [vt_init v_w v_h v_g v_x v_y v_pend v_top v_bot v_attr];
    rewrite ?F1, ?F2, ?F3, ?F4, ?F5, ?F6, ?F7, ?F8, ?F9, ?F10, ?F11, ?F14, ?F15, ?F16, ?Hsb, ?Hev; auto; try (reflexivity || discriminate).
  - unfold repeatz. apply Forall2_repeat. apply Forall2_repeat. split; [reflexivity|]. split; [apply attr_rel_default|]. split; [apply RA_ok_default|reflexivity].
  - unfold clamp. split_ifs; try lia. reflexivity.
  - apply attr_rel_default.
  - apply RA_ok_default.
  - unfold modes_reset, modes0. rewrite Hb. reflexivity.
  - unfold cs_rel, charset_new. cbn. repeat split; auto.
  - intros _. constructor.
Qed.

Definition raw0 (w h e : Z) : st := (mkSt w h [] (0, 0) (Some (0, 0)) false [] 0 None [] [] false 0 None charset_new None None false 0 (h - 1) [] (mkModes false false false false false false true true false charset_default_gen) [] e).
Lemma init_raw w h e : init w h e = reset (raw0 w h e).
Proof. reflexivity. Qed.

Lemma R_init w h e : 1 <= w -> 1 <= h -> R (init w h e) (vt_init w h).
Proof.
  intros Hw Hh. pose proof (init_Inv w h e Hw Hh) as I. rewrite init_raw in *.
  exact (R_reset (raw0 w h e) I Hw Hh eq_refl eq_refl eq_refl eq_refl).
Qed.

(* ---------- what R gives at the end ---------- *)
Ltac lia_cmp0 :=
  repeat match goal with
         | |- context [?a <=? ?b] => first [replace (a <=? b) with true by lia | replace (a <=? b) with false by lia]
         | |- context [?a <? ?b] => first [replace (a <? b) with true by lia | replace (a <? b) with false by lia]
         | |- context [?a =? ?b] => first [replace (a =? b) with true by lia | replace (a =? b) with false by lia]
         end.

Lemma colour_shows_at d bold side c :
  (d = 16 /\ below 8 c) \/ (d = 256 /\ below 256 c) \/ d = 16777216 -> col_ok c ->
  colour_shows (match c with Some n => Some (if (d =? 16) && (side && bold) then n + 8 else col_at d n) | None => None end)
               d bold side c = true.
Proof.
  intros Hd Hc. destruct c as [n|]; [|reflexivity]. unfold colour_shows, col_at, below, col_ok in *.
  destruct Hd as [[-> Hn] | [[-> Hn] | ->]].
  - replace (16 =? 16777216) with false by reflexivity. replace (16 =? 16) with true by reflexivity. cbn [andb].
    destruct side, bold; cbn [andb]; lia_cmp0; cbn [andb]; reflexivity.
  - replace (256 =? 16777216) with false by reflexivity. replace (256 =? 16) with false by reflexivity. cbn [andb].
    lia_cmp0. reflexivity.
  - replace (16777216 =? 16777216) with true by reflexivity. replace (16777216 =? 16) with false by reflexivity. cbn [andb].
    lia_cmp0. reflexivity.
Qed.

Lemma attr_rel_shows a ra : attr_rel a ra -> RA_ok ra -> attr_shows a ra = true.
Proof.
  intros (d & Hd & ->) [Of Ob]. destruct ra as [fg bg bo ul bl rv]. unfold attr_at, attr_shows, depth_ok in *.
  cbn [r_fg r_bg r_bold r_ul r_blink r_rev] in *.
  destruct (is_none fg && is_none bg && negb (bo || ul || bl || rv)) eqn:E.
  - destruct fg, bg; try discriminate. exact E.
  - cbn [a_fg a_bg a_colors a_bold a_ul a_blink a_so].
    assert (forall b : bool, Bool.eqb b b = true) as Hb by (intros []; reflexivity). rewrite !Hb. rewrite !andb_true_r.
    destruct (is_none fg && is_none bg) eqn:E2.
    + destruct fg, bg; try discriminate. reflexivity.
    + pose proof (colour_shows_at d bo true fg) as Cf. pose proof (colour_shows_at d bo false bg) as Cb.
      cbn [andb] in Cf, Cb. rewrite andb_false_r in Cb.
      rewrite Cf, Cb; auto; destruct Hd as [(-> & H1 & H2) | [(-> & H1 & H2) | ->]]; auto.
Qed.

Lemma cell_rel_agrees c r : cell_rel c r -> cell_agrees c r = true.
Proof.
  destruct c as [[a cs] ch], r as [rc ra]. unfold cell_rel, cell_agrees. cbn [fst snd]. intros [-> H].
  cbn [list_eqb]. replace (rc =? rc) with true by lia. cbn [andb].
  destruct ra as [[ra rcs]|]; [|reflexivity]. destruct H as (Ha & Hok & ->). rewrite (attr_rel_shows _ _ Ha Hok).
  replace (rcs =? rcs) with true by lia. reflexivity.
Qed.

Lemma all2_Forall2 {A B} (f : A -> B -> bool) (P : A -> B -> Prop) l m :
  (forall a b, P a b -> f a b = true) -> Forall2 P l m -> all2 f l m = true.
Proof. intros Hf H. induction H; cbn [all2]; [reflexivity|]. rewrite (Hf _ _ H), IHForall2. reflexivity. Qed.

Lemma R0_agrees t v : R0 t v -> agrees t v = true.
Proof.
  intros []. unfold agrees. rewrite r_cur0, r_top0, r_bot0, r_modes0. cbn [fst snd m_constrain modes0].
  rewrite (all2_Forall2 _ (Forall2 cell_rel) _ _ (fun a b => all2_Forall2 _ cell_rel a b cell_rel_agrees) r_grid0).
  cbn [andb]. replace (Bool.eqb (v_origin v) (v_origin v)) with true by (destruct (v_origin v); reflexivity). lia.
Qed.

