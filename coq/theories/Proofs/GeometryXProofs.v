(* C09: the theorems lifted to the extended model (Model/GeometryX.v), including the size ():
   generalised vocabulary (a child's area is xw x xh: its packed size when it is rendered fixed), generic
   composition lemmas for [xinterp], local lemmas for the nodes with fixed-size paths, and the structural induction.
   On trees without fixed parts the extended view is the proved view by construction ([xview_sized]). *)
From Coq Require Import ZArith List Bool Lia ZifyBool.
Import ListNotations.
From Urwid Require Import PyBase geo_padfill_gen Geometry GeometryX GeometryFacts GeometryProofs GeometryLayoutTie.
Open Scope Z_scope.

Arguments Z.add : simpl never. Arguments Z.sub : simpl never. Arguments Z.mul : simpl never.
Arguments Z.div : simpl never. Arguments Z.modulo : simpl never. Arguments Z.ltb : simpl never.
Arguments Z.leb : simpl never. Arguments Z.eqb : simpl never. Arguments Z.min : simpl never.
Arguments Z.max : simpl never. Arguments Z.quot : simpl never.

(* ------------------------------------------------------------------------------------------ *)
(* the bridge: on a tree without fixed parts the extended view is the view of Geometry.v         *)
(* ------------------------------------------------------------------------------------------ *)
Lemma xview_sized w : sized_tree w = true -> fst (xview w) = view w /\ xc (snd (xview w)) = v_info (view w).
Proof.
  intro H. destruct w; cbn [xview]; repeat match goal with |- context [let '(_, _) := ?x in _] => destruct x end;
    rewrite H; split; reflexivity.
Qed.

(* ------------------------------------------------------------------------------------------ *)
(* vocabulary                                                                                  *)
(* ------------------------------------------------------------------------------------------ *)
Definition xsize_ok (s : size) : Prop := is_fixed s = true \/ size_pos s.
(* the area of a widget rendered with size s: its packed size when s = () *)
Definition xw (xi : xinfo) (s : size) : Z := if is_fixed s then fst (x_pack xi) else fst s.
Definition xh (xi : xinfo) (s : size) : Z := if is_fixed s then snd (x_pack xi) else crows (xc xi) s.

Definition kid := (wview * xinfo)%type.
Definition nth_kid (d : widget) (kids : list kid) (i : Z) : kid :=
  (nth_view d (map fst kids) i, nth_xinfo (map snd kids) i).

Lemma nth_kid_eq d kids i :
  nth_kid d kids i = match nthz kids i with Some k => k | None => (dummy_view d, dummy_xinfo) end.
Proof.
  unfold nth_kid, nth_view, nth_xinfo. rewrite !nthz_map. unfold kid in *. destruct (nthz kids i) as [[v xi]|]; reflexivity.
Qed.

Lemma nth_kid_prop (P : kid -> Prop) d kids i :
  Forall P kids -> P (dummy_view d, dummy_xinfo) -> P (nth_kid d kids i).
Proof.
  intros H Hd. rewrite nth_kid_eq. destruct (nthz kids i) eqn:E; [|exact Hd].
  rewrite Forall_forall in H. apply H. eapply nthz_In; eauto.
Qed.

Definition XLocalWithin (nd : node) (self : xinfo) (kx : list xinfo) : Prop :=
  forall s p, n_fits nd s = true -> xsize_ok s -> In p (n_place nd s) -> xsize_ok (p_size p) ->
    0 <= p_x p /\ p_x p + xw (nth_xinfo kx (p_idx p)) (p_size p) <= xw self s /\
    0 <= p_y p /\ p_y p + xh (nth_xinfo kx (p_idx p)) (p_size p) <= xh self s.

Definition XLocalMouse (nd : node) (kx : list xinfo) : Prop :=
  forall s p col row focus, n_fits nd s = true -> xsize_ok s -> In p (n_place nd s) -> p_bg p = false ->
    xsize_ok (p_size p) ->
    in_rect (p_x p) (p_y p) (xw (nth_xinfo kx (p_idx p)) (p_size p)) (xh (nth_xinfo kx (p_idx p)) (p_size p)) col row ->
    exists f, n_route nd s col row focus = Some (Routed (p_idx p) (p_size p) (col - p_x p) (row - p_y p) f).

Definition XLocalCursor (nd : node) (kx : list xinfo) : Prop :=
  forall s, n_fits nd s = true -> xsize_ok s ->
    exists p, In p (n_place nd s) /\ p_isfocus p = true /\
      (forall q, In q (n_place nd s) -> p_isfocus q = true -> q = p) /\
      let ci := xc (nth_xinfo kx (p_idx p)) in
      match n_cursor nd s with
      | CPNone => i_sel ci = false \/ i_hascur ci = false \/ ~ xsize_ok (p_size p)
      | CPErr _ => False
      | CPAsk i cs dx dy clamp nr =>
          i = p_idx p /\ cs = p_size p /\ dx = p_x p /\ dy = p_y p /\ nr = false /\
          match clamp with None => True | Some m => xh (nth_xinfo kx (p_idx p)) cs <= m end
      end.

Definition XLocalFlags (nd : node) (kx : list xinfo) : Prop :=
  forall s p, In p (n_place nd s) -> p_isfocus p = true ->
    (i_sel (n_info nd) = false -> i_sel (xc (nth_xinfo kx (p_idx p))) = false) /\
    (i_hascur (n_info nd) = false -> i_hascur (xc (nth_xinfo kx (p_idx p))) = false).

Definition XLocalMove (nd : node) (kx : list xinfo) : Prop :=
  forall s p col row, n_fits nd s = true -> xsize_ok s -> In p (n_place nd s) -> p_bg p = false ->
    xsize_ok (p_size p) ->
    in_rect (p_x p) (p_y p) (xw (nth_xinfo kx (p_idx p)) (p_size p)) (xh (nth_xinfo kx (p_idx p)) (p_size p)) col row ->
    i_hasmove (n_info nd) = true ->
    i_sel (xc (nth_xinfo kx (p_idx p))) = true -> i_hasmove (xc (nth_xinfo kx (p_idx p))) = true ->
    exists nf, n_move nd s col row = MPAsk (p_idx p) (p_size p) (col - p_x p) (row - p_y p) nf.

(* properties of (view, xinfo) pairs *)
Definition XOk (k : kid) : Prop := v_info (fst k) = xc (snd k).
Definition XFitsOk (k : kid) : Prop := forall s, v_fits (fst k) s = true -> xsize_ok s.
Definition XRectsWithin (k : kid) : Prop :=
  forall s f r, v_fits (fst k) s = true -> In r (v_rects (fst k) s f) ->
    0 <= rc_x r /\ rc_x r + rc_cols r <= xw (snd k) s /\ 0 <= rc_y r /\ rc_y r + rc_rows r <= xh (snd k) s.
Definition XCursorInRows (k : kid) : Prop :=
  forall s f x y, v_fits (fst k) s = true -> v_rcursor (fst k) s f = Some (x, y) -> 0 <= y < xh (snd k) s.
Definition XGood (k : kid) : Prop :=
  XOk k /\ XFitsOk k /\ XRectsWithin k /\ NoFocusNoCursor (fst k) /\ FlagsNoCursor (fst k) /\ XCursorInRows k.

Lemma xgood_dummy d : XGood (dummy_view d, dummy_xinfo).
Proof.
  split; [reflexivity|]. split; [intros s H; discriminate H|]. split; [intros s f r H; discriminate H|].
  split; [intros s; reflexivity|]. split; [intros s f H; discriminate H|]. intros s f x y H; discriminate H.
Qed.

(* ------------------------------------------------------------------------------------------ *)
(* generic composition over [xinterp]                                                          *)
(* ------------------------------------------------------------------------------------------ *)
Lemma xinterp_fits_inv d nd kv s :
  v_fits (xinterp d nd kv) s = true ->
  xsize_ok s /\ n_fits nd s = true /\
  forall p, In p (n_place nd s) -> v_fits (nth_view d kv (p_idx p)) (p_size p) = true.
Proof.
  cbn [xinterp v_fits]. unfold xinterp_fits. intro H.
  apply andb_true_iff in H as [H Hall]. apply andb_true_iff in H as [Hs Hn].
  split; [|split; [exact Hn|]].
  - apply orb_true_iff in Hs as [Hs|Hs]; [left; exact Hs|right].
    apply andb_true_iff in Hs as [Hc Hr]. split; [lia|]. intros r E. rewrite E in Hr. lia.
  - intros p Hp. rewrite forallb_forall in Hall. apply Hall. exact Hp.
Qed.

Lemma in_xinterp_rects d nd kv s f r :
  In r (v_rects (xinterp d nd kv) s f) ->
  exists p r0, In p (n_place nd s) /\
    In r0 (v_rects (nth_view d kv (p_idx p)) (p_size p) (f && p_isfocus p)) /\
    r = shift_rect (p_x p) (p_y p) (p_bg p) r0.
Proof. exact (in_interp_rects d nd kv s f r). Qed.

Section XGeneric.
  Variable d : widget.
  Variable nd : node.
  Variable self : xinfo.
  Variable kids : list kid.
  Let kv := map fst kids.
  Let kx := map snd kids.
  Hypothesis Hself : n_info nd = xc self.
  Hypothesis HK : Forall XGood kids.

  Lemma kid_good i : XGood (nth_kid d kids i).
  Proof. apply nth_kid_prop; [exact HK|apply xgood_dummy]. Qed.

  Lemma kid_fits_ok p s' : v_fits (nth_view d kv p) s' = true -> xsize_ok s'.
  Proof. intro H. destruct (kid_good p) as [_ [F _]]. apply (F s' H). Qed.

  Lemma kv_prop (P : wview -> Prop) i : Forall (fun k : kid => P (fst k)) kids -> P (dummy_view d) -> P (nth_view d kv i).
  Proof. intros H Hd. apply nth_view_prop; [|exact Hd]. unfold kv. apply Forall_map. exact H. Qed.

  Lemma x_ok : XOk (xinterp d nd kv, self).
  Proof. exact Hself. Qed.

  Lemma x_fits_ok : XFitsOk (xinterp d nd kv, self).
  Proof. intros s H. destruct (xinterp_fits_inv d nd kv s H) as [H1 _]. exact H1. Qed.

  Lemma x_rects_within : XLocalWithin nd self kx -> XRectsWithin (xinterp d nd kv, self).
  Proof.
    intros LW s f r Hfit Hr. cbn [fst snd] in *.
    destruct (xinterp_fits_inv d nd kv s Hfit) as [Hpos [Hn Hkids]].
    destruct (in_xinterp_rects d nd kv _ _ _ Hr) as [p [r0 [Hp [Hr0 ->]]]].
    pose proof (kid_fits_ok _ _ (Hkids p Hp)) as Hps.
    specialize (LW s p Hn Hpos Hp Hps).
    destruct (kid_good (p_idx p)) as [_ [_ [RW _]]].
    specialize (RW _ _ _ (Hkids p Hp) Hr0). cbn [nth_kid fst snd] in RW. fold kx in RW.
    cbn [shift_rect rc_x rc_y rc_cols rc_rows]. lia.
  Qed.

  Lemma x_nofocus : NoFocusNoCursor (xinterp d nd kv).
  Proof.
    apply (interp_nofocus d nd kv). apply Forall_forall. intros v Hv. unfold kv in Hv.
    apply in_map_iff in Hv as [k [<- Hk]]. rewrite Forall_forall in HK. apply (HK k Hk).
  Qed.

  Lemma kv_nofocus i : NoFocusNoCursor (nth_view d kv i).
  Proof. destruct (kid_good i) as [_ [_ [_ [H _]]]]. exact H. Qed.
  Lemma kv_flags i : FlagsNoCursor (nth_view d kv i).
  Proof. destruct (kid_good i) as [_ [_ [_ [_ [H _]]]]]. exact H. Qed.
  Lemma kv_info i : v_info (nth_view d kv i) = xc (nth_xinfo kx i).
  Proof. destruct (kid_good i) as [H _]. exact H. Qed.

  Lemma x_flags : XLocalFlags nd kx -> FlagsNoCursor (xinterp d nd kv).
  Proof.
    intros LF s f Hfit Hflags.
    destruct (xinterp_fits_inv d nd kv s Hfit) as [Hpos [Hn Hkids]].
    change (v_rcursor (xinterp d nd kv) s f) with (v_rcursor (interp d nd kv) s f).
    rewrite interp_rcursor_upd. apply fold_upd_none. intros q Hq. unfold rc_g.
    destruct (f && p_isfocus q) eqn:E.
    - apply andb_true_iff in E as [_ E].
      destruct (LF s q Hq E) as [L1 L2]. cbn [xinterp v_info interp] in Hflags.
      rewrite (kv_flags (p_idx q) (p_size q) true (Hkids q Hq)); [reflexivity|].
      rewrite kv_info. destruct Hflags; [left|right]; auto.
    - rewrite (kv_nofocus (p_idx q)). reflexivity.
  Qed.

  Lemma x_inrows : XLocalWithin nd self kx -> XCursorInRows (xinterp d nd kv, self).
  Proof.
    intros LW s f x y Hfit Hc. cbn [fst snd] in *.
    destruct (xinterp_fits_inv d nd kv s Hfit) as [Hpos [Hn Hkids]].
    change (v_rcursor (xinterp d nd kv) s f) with (v_rcursor (interp d nd kv) s f) in Hc.
    rewrite interp_rcursor_upd in Hc. apply fold_upd_some in Hc as [q [Hq E]].
    unfold rc_g in E. destruct (v_rcursor _ _ _) as [[x0 y0]|] eqn:E0; [|discriminate]. inversion E; subst x y.
    destruct (kid_good (p_idx q)) as [_ [_ [_ [_ [_ R]]]]].
    specialize (R _ _ _ _ (Hkids q Hq) E0). cbn [nth_kid fst snd] in R. fold kx in R.
    specialize (LW s q Hn Hpos Hq (kid_fits_ok _ _ (Hkids q Hq))). lia.
  Qed.

  Lemma x_good : XLocalWithin nd self kx -> XLocalFlags nd kx -> XGood (xinterp d nd kv, self).
  Proof.
    intros LW LF. split; [apply x_ok|]. split; [apply x_fits_ok|]. split; [apply x_rects_within; exact LW|].
    split; [apply x_nofocus|]. split; [apply x_flags; exact LF|apply x_inrows; exact LW].
  Qed.

  Lemma x_mouse_deep :
    XLocalWithin nd self kx -> XLocalMouse nd kx -> Forall (fun k => MouseDeep (fst k)) kids ->
    MouseDeep (xinterp d nd kv).
  Proof.
    intros LW LM HM s f1 f2 r col row Hfit Hr Hbg Hin.
    destruct (xinterp_fits_inv d nd kv s Hfit) as [Hpos [Hn Hkids]].
    destruct (in_xinterp_rects d nd kv _ _ _ Hr) as [p [r0 [Hp [Hr0 ->]]]].
    cbn [shift_rect rc_bg rc_x rc_y rc_cols rc_rows rc_id rc_size] in *.
    apply orb_false_iff in Hbg as [Hbg0 Hbgp].
    pose proof (kid_fits_ok _ _ (Hkids p Hp)) as Hps.
    destruct (kid_good (p_idx p)) as [_ [_ [RW _]]].
    specialize (RW _ _ _ (Hkids p Hp) Hr0). cbn [nth_kid fst snd] in RW. fold kx in RW.
    unfold in_rect in Hin.
    destruct (LM s p col row f2 Hn Hpos Hp Hbgp Hps) as [f Hroute].
    { unfold in_rect. lia. }
    cbn [xinterp interp v_mouse]. unfold interp_mouse. rewrite Hroute. cbn [r_idx r_size r_col r_row r_focus].
    assert (MD : MouseDeep (nth_view d kv (p_idx p))) by (apply kv_prop; [exact HM|apply dummy_mouse_deep]).
    destruct (MD (p_size p) (f1 && p_isfocus p) f r0 (col - p_x p) (row - p_y p) (Hkids p Hp) Hr0 Hbg0) as [f' Hm].
    { unfold in_rect. lia. }
    exists f'. rewrite Hm. f_equal. f_equal; lia.
  Qed.

  Lemma x_cursor_deep :
    XLocalCursor nd kx -> Forall (fun k => CursorDeep (fst k)) kids -> CursorDeep (xinterp d nd kv).
  Proof.
    intros LC HD s Hfit.
    destruct (xinterp_fits_inv d nd kv s Hfit) as [Hpos [Hn Hkids]].
    destruct (LC s Hn Hpos) as [p [Hp [Hpf [Huniq Hplan]]]].
    change (v_rcursor (xinterp d nd kv) s true) with (v_rcursor (interp d nd kv) s true).
    rewrite interp_rcursor_upd.
    rewrite (fold_upd_unique (rc_g d kv true) (n_place nd s) p None Hp).
    2:{ intros q Hq Hg. apply Huniq; [exact Hq|]. unfold rc_g in Hg. cbn [andb] in Hg.
        destruct (p_isfocus q); [reflexivity|]. rewrite (kv_nofocus (p_idx q)) in Hg. congruence. }
    unfold upd, rc_g. cbn [andb]. rewrite Hpf.
    cbn [xinterp interp v_cursor]. unfold interp_cursor.
    assert (Kfit : v_fits (nth_view d kv (p_idx p)) (p_size p) = true) by (apply Hkids; exact Hp).
    cbv zeta in Hplan. rewrite <- kv_info in Hplan.
    assert (CD : CursorDeep (nth_view d kv (p_idx p))) by (apply kv_prop; [exact HD|apply dummy_cursor_deep]).
    destruct (n_cursor nd s) as [|e|i cs dx dy clamp nr].
    - assert (E : v_rcursor (nth_view d kv (p_idx p)) (p_size p) true = None).
      { destruct Hplan as [H|[H|H]].
        - apply (kv_flags (p_idx p)); [exact Kfit|left; exact H].
        - apply (kv_flags (p_idx p)); [exact Kfit|right; exact H].
        - exfalso. apply H. apply (kid_fits_ok _ _ Kfit). }
      rewrite E. reflexivity.
    - contradiction.
    - destruct Hplan as [-> [-> [-> [-> [-> Hclamp]]]]].
      rewrite (CD _ Kfit).
      destruct (v_rcursor (nth_view d kv (p_idx p)) (p_size p) true) as [[x y]|] eqn:E; cbn [of_oxy]; [|reflexivity].
      destruct (kid_good (p_idx p)) as [_ [_ [_ [_ [_ R]]]]].
      specialize (R _ _ _ _ Kfit E). cbn [nth_kid fst snd] in R. fold kx in R.
      destruct clamp as [m|]; [|reflexivity].
      destruct (m <=? y) eqn:Em; [lia|reflexivity].
  Qed.
End XGeneric.

(* ------------------------------------------------------------------------------------------ *)
(* from the local lemmas of Geometry.v (sizes (maxcol,) / (maxcol, maxrow)) to the extended ones  *)
(* ------------------------------------------------------------------------------------------ *)
Lemma nth_info_xc kx i : nth_info (map xc kx) i = xc (nth_xinfo kx i).
Proof. unfold nth_info, nth_xinfo. rewrite nthz_map. destruct (nthz kx i); reflexivity. Qed.

Lemma is_fixed_fixed : is_fixed fixed_size = true.
Proof. reflexivity. Qed.

Lemma not_fixed_pos s : xsize_ok s -> is_fixed s = false -> size_pos s.
Proof. intros [H|H] E; [congruence|exact H]. Qed.

Lemma pos_not_fixed s : size_pos s -> is_fixed s = false.
Proof. intros [H _]. unfold is_fixed. lia. Qed.

(* [nx] behaves like the node [nd] of Geometry.v on every size that is not (): *)
Definition SizedLike (nx nd : node) (self : xinfo) : Prop :=
  forall s, is_fixed s = false ->
    n_place nx s = n_place nd s /\ n_cursor nx s = n_cursor nd s /\
    (forall c r f, n_route nx s c r f = n_route nd s c r f) /\ (forall c r, n_move nx s c r = n_move nd s c r) /\
    (n_fits nx s = true -> n_fits nd s = true) /\
    xw self s = fst s /\ xh self s = crows (n_info nd) s.
(* the sizes [nd] hands to its children keep the width class of the size it was given *)
Definition KeepsKind (nx nd : node) : Prop :=
  forall s p, n_fits nx s = true -> size_pos s -> In p (n_place nd s) -> xsize_ok (p_size p) -> is_fixed (p_size p) = false.

Section Transfer.
  Variable nx nd : node.
  Variable self : xinfo.
  Variable kx : list xinfo.
  Hypothesis SL : SizedLike nx nd self.
  Hypothesis KK : KeepsKind nx nd.
  Hypothesis Hinfo : n_info nx = n_info nd.

  Lemma tr_within :
    LocalWithin nd (map xc kx) ->
    (forall s p, is_fixed s = true -> n_fits nx s = true -> In p (n_place nx s) -> xsize_ok (p_size p) ->
       0 <= p_x p /\ p_x p + xw (nth_xinfo kx (p_idx p)) (p_size p) <= xw self s /\
       0 <= p_y p /\ p_y p + xh (nth_xinfo kx (p_idx p)) (p_size p) <= xh self s) ->
    XLocalWithin nx self kx.
  Proof.
    intros LW F s p Hf Hok Hp Hps. destruct (is_fixed s) eqn:Efx; [apply F; assumption|].
    destruct (SL s Efx) as [Epl [_ [_ [_ [Efit [Ew Eh]]]]]].
    pose proof (not_fixed_pos s Hok Efx) as Hpos. rewrite Epl in Hp.
    pose proof (KK s p Hf Hpos Hp Hps) as Ek.
    specialize (LW s p (Efit Hf) Hpos Hp). rewrite nth_info_xc in LW.
    unfold xw at 1, xh at 1. rewrite Ek, Ew, Eh. exact LW.
  Qed.

  Lemma tr_mouse :
    LocalMouse nd (map xc kx) ->
    (forall s p col row focus, is_fixed s = true -> n_fits nx s = true -> In p (n_place nx s) -> p_bg p = false ->
       xsize_ok (p_size p) ->
       in_rect (p_x p) (p_y p) (xw (nth_xinfo kx (p_idx p)) (p_size p)) (xh (nth_xinfo kx (p_idx p)) (p_size p)) col row ->
       exists f, n_route nx s col row focus = Some (Routed (p_idx p) (p_size p) (col - p_x p) (row - p_y p) f)) ->
    XLocalMouse nx kx.
  Proof.
    intros LM F s p col row focus Hf Hok Hp Hbg Hps Hin. destruct (is_fixed s) eqn:Efx; [eapply F; eassumption|].
    destruct (SL s Efx) as [Epl [_ [Er [_ [Efit _]]]]].
    pose proof (not_fixed_pos s Hok Efx) as Hpos. rewrite Epl in Hp.
    pose proof (KK s p Hf Hpos Hp Hps) as Ek.
    rewrite Er. apply (LM s p col row focus (Efit Hf) Hpos Hp Hbg).
    rewrite nth_info_xc. unfold xw, xh in Hin. rewrite Ek in Hin. exact Hin.
  Qed.

  Lemma tr_move :
    LocalMove nd (map xc kx) ->
    (forall s p col row, is_fixed s = true -> n_fits nx s = true -> In p (n_place nx s) -> p_bg p = false ->
       xsize_ok (p_size p) ->
       in_rect (p_x p) (p_y p) (xw (nth_xinfo kx (p_idx p)) (p_size p)) (xh (nth_xinfo kx (p_idx p)) (p_size p)) col row ->
       i_hasmove (n_info nx) = true ->
       i_sel (xc (nth_xinfo kx (p_idx p))) = true -> i_hasmove (xc (nth_xinfo kx (p_idx p))) = true ->
       exists nf, n_move nx s col row = MPAsk (p_idx p) (p_size p) (col - p_x p) (row - p_y p) nf) ->
    XLocalMove nx kx.
  Proof.
    intros LM F s p col row Hf Hok Hp Hbg Hps Hin Hm Hs Hcm. destruct (is_fixed s) eqn:Efx; [eapply F; eassumption|].
    destruct (SL s Efx) as [Epl [_ [_ [Em [Efit _]]]]].
    pose proof (not_fixed_pos s Hok Efx) as Hpos. rewrite Epl in Hp.
    pose proof (KK s p Hf Hpos Hp Hps) as Ek.
    rewrite Em. apply (LM s p col row (Efit Hf) Hpos Hp Hbg).
    - rewrite nth_info_xc. unfold xw, xh in Hin. rewrite Ek in Hin. exact Hin.
    - rewrite <- Hinfo. exact Hm.
    - rewrite nth_info_xc. exact Hs.
    - rewrite nth_info_xc. exact Hcm.
  Qed.

  Lemma tr_cursor :
    LocalCursor nd (map xc kx) ->
    (forall s, is_fixed s = true -> n_fits nx s = true ->
       exists p, In p (n_place nx s) /\ p_isfocus p = true /\
         (forall q, In q (n_place nx s) -> p_isfocus q = true -> q = p) /\
         let ci := xc (nth_xinfo kx (p_idx p)) in
         match n_cursor nx s with
         | CPNone => i_sel ci = false \/ i_hascur ci = false \/ ~ xsize_ok (p_size p)
         | CPErr _ => False
         | CPAsk i cs dx dy clamp nr =>
             i = p_idx p /\ cs = p_size p /\ dx = p_x p /\ dy = p_y p /\ nr = false /\
             match clamp with None => True | Some m => xh (nth_xinfo kx (p_idx p)) cs <= m end
         end) ->
    XLocalCursor nx kx.
  Proof.
    intros LC F s Hf Hok. destruct (is_fixed s) eqn:Efx; [apply F; assumption|].
    destruct (SL s Efx) as [Epl [Ec [_ [_ [Efit _]]]]].
    pose proof (not_fixed_pos s Hok Efx) as Hpos.
    destruct (LC s (Efit Hf) Hpos) as [p [Hp [Hpf [Hu Hplan]]]].
    exists p. rewrite Epl, Ec. split; [exact Hp|]. split; [exact Hpf|]. split; [exact Hu|].
    cbv zeta in *. rewrite nth_info_xc in Hplan.
    destruct (n_cursor nd s) as [|e|i cs dx dy clamp nr].
    - destruct Hplan as [H|[H|H]]; [left; exact H|right; left; exact H|].
      right; right. intro Hx. pose proof (KK s p Hf Hpos Hp Hx) as Ek. destruct Hx as [Hx|[Hx _]]; [congruence|lia].
    - exact Hplan.
    - destruct Hplan as [-> [-> [-> [-> [-> Hcl]]]]]. repeat split; try reflexivity.
      destruct clamp as [m|]; [|exact I].
      unfold xh. destruct (is_fixed (p_size p)) eqn:Ek; [|exact Hcl].
      pose proof (KK s p Hf Hpos Hp (or_introl Ek)). congruence.
  Qed.

  Lemma tr_flags :
    LocalFlags nd (map xc kx) ->
    (forall s p, is_fixed s = true -> In p (n_place nx s) -> p_isfocus p = true ->
       (i_sel (n_info nx) = false -> i_sel (xc (nth_xinfo kx (p_idx p))) = false) /\
       (i_hascur (n_info nx) = false -> i_hascur (xc (nth_xinfo kx (p_idx p))) = false)) ->
    XLocalFlags nx kx.
  Proof.
    intros LF F s p Hp Hpf. destruct (is_fixed s) eqn:Efx; [apply (F s p Efx Hp Hpf)|].
    destruct (SL s Efx) as [Epl _]. rewrite Epl in Hp. rewrite Hinfo.
    destruct (LF s p Hp Hpf) as [H1 H2]. rewrite nth_info_xc in H1, H2. split; assumption.
  Qed.
End Transfer.

(* ------------------------------------------------------------------------------------------ *)
(* nodes of Geometry.v used as they are                                                         *)
(* ------------------------------------------------------------------------------------------ *)
Lemma sized_only_like nd flow : SizedLike (sized_only nd) nd (sized_xinfo (n_info nd) flow).
Proof.
  intros s Efx. unfold sized_only, sized_xinfo, xw, xh. cbn [n_place n_cursor n_route n_move n_fits xc x_pack].
  rewrite Efx. cbn [negb andb]. repeat split; auto.
Qed.

Lemma sized_only_fixed_unfit nd s : is_fixed s = true -> n_fits (sized_only nd) s = true -> False.
Proof. intros E H. unfold sized_only in H. cbn [n_fits] in H. rewrite E in H. discriminate H. Qed.

Section SizedOnly.
  Variable nd : node.
  Variable flow : bool.
  Variable kx : list xinfo.
  Hypothesis KK : KeepsKind (sized_only nd) nd.

  Lemma so_within : LocalWithin nd (map xc kx) -> XLocalWithin (sized_only nd) (sized_xinfo (n_info nd) flow) kx.
  Proof.
    intro L. apply (tr_within _ nd _ kx (sized_only_like nd flow) KK L).
    intros s p E Hf. exfalso. exact (sized_only_fixed_unfit nd s E Hf).
  Qed.
  Lemma so_mouse : LocalMouse nd (map xc kx) -> XLocalMouse (sized_only nd) kx.
  Proof.
    intro L. apply (tr_mouse _ nd (sized_xinfo (n_info nd) flow) kx (sized_only_like nd flow) KK L).
    intros s p col row focus E Hf. exfalso. exact (sized_only_fixed_unfit nd s E Hf).
  Qed.
  Lemma so_move : LocalMove nd (map xc kx) -> XLocalMove (sized_only nd) kx.
  Proof.
    intro L. apply (tr_move _ nd (sized_xinfo (n_info nd) flow) kx (sized_only_like nd flow) KK eq_refl L).
    intros s p col row E Hf. exfalso. exact (sized_only_fixed_unfit nd s E Hf).
  Qed.
  Lemma so_cursor : LocalCursor nd (map xc kx) -> XLocalCursor (sized_only nd) kx.
  Proof.
    intro L. apply (tr_cursor _ nd (sized_xinfo (n_info nd) flow) kx (sized_only_like nd flow) KK L).
    intros s E Hf. exfalso. exact (sized_only_fixed_unfit nd s E Hf).
  Qed.
End SizedOnly.

(* flags never depend on the size *)
Lemma flags_any nd kx : LocalFlags nd (map xc kx) -> XLocalFlags nd kx.
Proof. intros LF s p Hp Hpf. destruct (LF s p Hp Hpf) as [H1 H2]. rewrite nth_info_xc in H1, H2. split; assumption. Qed.

(* ---- AttrMap: every method passes the size on, whatever it is ---- *)
Section XAttrMap.
  Variable kx : list xinfo.
  Let nd := Node (attrmap_info (xc (nth_xinfo kx 0))) attrmap_place attrmap_cursor attrmap_route attrmap_move attrmap_fits.

  Lemma xattrmap_within : XLocalWithin nd (nth_xinfo kx 0) kx.
  Proof. unfold nd. intros s p _ _ Hp _. cbn in Hp. one_placed Hp. lia. Qed.
  Lemma xattrmap_mouse : XLocalMouse nd kx.
  Proof. unfold nd. intros s p col row focus _ _ Hp _ _ _. cbn in Hp. one_placed Hp. cbn [n_route]. unfold attrmap_route. routed_eq. Qed.
  Lemma xattrmap_cursor : XLocalCursor nd kx.
  Proof.
    unfold nd. intros s _ _. exists (Placed 0 0 0 s true false). cbn [n_place n_cursor]. unfold attrmap_place, attrmap_cursor.
    split; [left; reflexivity|]. split; [reflexivity|]. split.
    - intros q [<-|[]] _. reflexivity.
    - cbn. repeat split; reflexivity.
  Qed.
  Lemma xattrmap_flags : XLocalFlags nd kx.
  Proof. unfold nd. intros s p Hp _. cbn in Hp. one_placed Hp. cbn [n_info]. unfold attrmap_info. split; auto. Qed.
  Lemma xattrmap_move : XLocalMove nd kx.
  Proof. unfold nd. intros s p col row _ _ Hp _ _ _ _ _ _. cbn in Hp. one_placed Hp. cbn [n_move]. unfold attrmap_move. eexists. f_equal; lia. Qed.
End XAttrMap.

(* ---- about the translated code: a given width with exactly its fixed margins around it keeps those margins ---- *)
Lemma int_scale_one v : int_scale v 101 1 = 0.
Proof. unfold int_scale. replace (v * (1 - 1) * 2 + (101 - 1)) with 100 by lia. reflexivity. Qed.

Lemma clrp_exact w at_ aamt minw l0 r0 :
  0 <= l0 -> 0 <= r0 ->
  calculate_left_right_padding (w + l0 + r0) at_ aamt GGiven w minw l0 r0 = (l0, r0).
Proof.
  intros Hl Hr. unfold calculate_left_right_padding.
  replace (w + l0 + r0 - w - l0 - r0 + 1) with 1 by lia. rewrite int_scale_one.
  replace (r0 + 0) with r0 by lia. replace (w + l0 + r0 - w - r0) with l0 by lia.
  assert (E1 : (r0 <? 0) && (0 <? l0) = false) by lia. rewrite E1.
  assert (E2 : (l0 <? 0) && (0 <? r0) = false) by lia. rewrite E2.
  assert (E3 : (l0 <? 0) || (r0 <? 0) = false) by lia. rewrite E3. reflexivity.
Qed.

(* ---- Padding, also rendered fixed (width 'pack' around a fixed widget) ---- *)
Section XPadding.
  Variable kx : list xinfo.
  Variable o : padopts.
  Let xi := nth_xinfo kx 0.
  Let nd := Node (padding_info o (xc xi)) (padding_place o) (padding_cursor o (xc xi)) (padding_route o)
                 (padding_move o (xc xi)) (padding_fits o).
  Let nx := xpadding_node o xi.
  Let self := xpadding_info o xi.

  Lemma nd_is_old : nd = Node (padding_info o (nth_info (map xc kx) 0)) (padding_place o) (padding_cursor o (nth_info (map xc kx) 0))
                              (padding_route o) (padding_move o (nth_info (map xc kx) 0)) (padding_fits o).
  Proof. unfold nd, xi. rewrite nth_info_xc. reflexivity. Qed.

  Lemma xpadding_like : SizedLike nx nd self.
  Proof.
    intros s Efx. unfold nx, xpadding_node, self, xpadding_info, xw, xh. cbn [n_place n_cursor n_route n_move n_fits xc x_pack].
    rewrite Efx. fold nd. repeat split; auto.
    intro H. apply andb_true_iff in H as [H _]. exact H.
  Qed.

  Lemma xpadding_keeps : KeepsKind nx nd.
  Proof.
    intros s p Hf Hpos Hp _. unfold nx, xpadding_node in Hf. cbn [n_fits] in Hf. rewrite (pos_not_fixed s Hpos) in Hf.
    apply andb_true_iff in Hf as [_ Hf]. unfold nd in Hp. cbn [n_place] in Hp. unfold padding_place in Hp.
    destruct (padding_values o (fst s)) as [l r]. one_placed Hp. unfold is_fixed. cbn [fst]. lia.
  Qed.

  (* what fitting means when the Padding is rendered fixed: width 'pack' around a fixed widget, or a given width
     around a flow widget that gets (width,) *)
  Lemma xpadding_fixed_inv s :
    is_fixed s = true -> n_fits nx s = true ->
    xpadding_values_fixed o xi = (pa_left o, pa_right o) /\ 0 <= pa_left o /\ 0 <= pa_right o /\
    xw xi (xpadding_csize_fixed o) + pa_left o + pa_right o <= fst (xpadding_pack o xi) /\
    xh xi (xpadding_csize_fixed o) = snd (xpadding_pack o xi) /\
    ((is_given (pa_wt o) = false /\ xpadding_csize_fixed o = fixed_size /\ x_fixed xi = true) \/
     (is_given (pa_wt o) = true /\ xpadding_csize_fixed o = (pa_wamt o, None) /\ 1 <= pa_wamt o)).
  Proof.
    intros E Hf. unfold nx, xpadding_node in Hf. cbn [n_fits] in Hf. rewrite E in Hf.
    destruct (xpadding_values_fixed o xi) as [l r] eqn:Ev.
    apply andb_true_iff in Hf as [Hf H5]. apply andb_true_iff in Hf as [Hf H4]. apply andb_true_iff in Hf as [Hf H3].
    apply andb_true_iff in Hf as [H1 H2].
    unfold xpadding_csize_fixed, xpadding_pack, xpadding_values_fixed in *.
    destruct (is_given (pa_wt o)) eqn:Eg.
    - assert (Ep : is_pack (pa_wt o) = false) by (destruct (pa_wt o); try discriminate; reflexivity).
      assert (Egt : pa_wt o = GGiven) by (destruct (pa_wt o); try discriminate; reflexivity).
      rewrite Ep, Egt in Ev. rewrite clrp_exact in Ev by lia.
      unfold xw, xh, crows, is_fixed. cbn [fst snd]. assert (E1 : pa_wamt o <? 0 = false) by lia. rewrite E1.
      split; [symmetry; exact Ev|]. split; [lia|]. split; [lia|]. split; [lia|]. split; [reflexivity|].
      right. repeat split; try reflexivity; lia.
    - apply andb_true_iff in H5 as [H5 H7]. apply andb_true_iff in H5 as [H5 H6].
      rewrite H5 in Ev. rewrite clrp_exact in Ev by lia.
      unfold xw, xh. rewrite is_fixed_fixed. cbn [fst snd].
      split; [symmetry; exact Ev|]. split; [lia|]. split; [lia|]. split; [lia|]. split; [reflexivity|].
      left. repeat split; try reflexivity; assumption.
  Qed.

  Lemma xpadding_within : XLocalWithin nx self kx.
  Proof.
    apply (tr_within nx nd self kx xpadding_like xpadding_keeps).
    - rewrite nd_is_old. apply padding_within.
    - intros s p E Hf Hp _. destruct (xpadding_fixed_inv s E Hf) as [Ev [Hl [Hr [Ew [Eh _]]]]].
      unfold nx, xpadding_node in Hp. cbn [n_place] in Hp. rewrite E, Ev in Hp. one_placed Hp.
      unfold self. unfold xw at 2. unfold xh at 2. cbn [x_pack xpadding_info]. rewrite E. fold xi. lia.
  Qed.

  Lemma xpadding_mouse : XLocalMouse nx kx.
  Proof.
    apply (tr_mouse nx nd self kx xpadding_like xpadding_keeps).
    - rewrite nd_is_old. apply padding_mouse.
    - intros s p col row focus E Hf Hp _ _ Hin. destruct (xpadding_fixed_inv s E Hf) as [Ev [Hl [Hr [Ew _]]]].
      unfold nx, xpadding_node in *. cbn [n_place n_route] in *. rewrite E, Ev in *. one_placed Hp.
      unfold in_rect in Hin. fold xi in Hin.
      destruct (col <? pa_left o) eqn:E1; [lia|].
      destruct (fst (xpadding_pack o xi) - pa_right o <=? col) eqn:E2; [lia|]. cbn [orb].
      eexists. f_equal. f_equal; lia.
  Qed.

  Lemma xpadding_move : XLocalMove nx kx.
  Proof.
    apply (tr_move nx nd self kx xpadding_like xpadding_keeps eq_refl).
    - rewrite nd_is_old. apply padding_move_ok.
    - intros s p col row E Hf Hp _ _ Hin _ _ Hm. destruct (xpadding_fixed_inv s E Hf) as [Ev [Hl [Hr [Ew _]]]].
      unfold nx, xpadding_node in *. cbn [n_place n_move] in *. rewrite E, Ev in *. one_placed Hp.
      fold xi in Hm. rewrite Hm. cbn [negb].
      unfold in_rect in Hin. fold xi in Hin.
      destruct (col <? pa_left o) eqn:E1; [lia|].
      destruct (fst (xpadding_pack o xi) - pa_right o <=? col) eqn:E2; [lia|].
      eexists. f_equal; lia.
  Qed.

  Lemma xpadding_cursor : XLocalCursor nx kx.
  Proof.
    apply (tr_cursor nx nd self kx xpadding_like xpadding_keeps).
    - rewrite nd_is_old. apply padding_cursor_ok.
    - intros s E Hf. destruct (xpadding_fixed_inv s E Hf) as [Ev [Hl [Hr _]]].
      unfold nx, xpadding_node. cbn [n_place n_cursor]. rewrite E, Ev.
      exists (Placed 0 (pa_left o) 0 (xpadding_csize_fixed o) true false).
      split; [left; reflexivity|]. split; [reflexivity|]. split.
      + intros q [<-|[]] _. reflexivity.
      + cbn [p_idx p_size p_x p_y]. fold xi. destruct (i_hascur (xc xi)) eqn:Eh; cbn [negb].
        * repeat split; reflexivity.
        * right; left; reflexivity.
  Qed.

  Lemma xpadding_flags : XLocalFlags nx kx.
  Proof.
    apply (tr_flags nx nd self kx xpadding_like eq_refl).
    - rewrite nd_is_old. apply padding_flags.
    - intros s p E Hp _. unfold nx, xpadding_node in *. cbn [n_place n_info] in *. rewrite E in Hp.
      destruct (xpadding_values_fixed o xi) as [l r]. one_placed Hp.
      unfold padding_info. cbn [i_sel i_hascur]. fold xi. split; [auto|discriminate].
  Qed.
End XPadding.

(* ---- about the translated code: with width type 'clip' nothing is clamped: left + width + right = maxcol ---- *)
Lemma clrp_clip_sum maxcol at_ aamt w l0 r0 :
  let lr := calculate_left_right_padding maxcol at_ aamt GClip w None l0 r0 in
  fst lr + w + snd lr = maxcol.
Proof. exact (clrp_clip_sum_c19 maxcol at_ aamt w None l0 r0). Qed.

(* ---- Overlay, also with width 'pack' (fixed top widget) ---- *)
Section XOverlay.
  Variable kx : list xinfo.
  Variable o : ovopts.
  Let ti := nth_xinfo kx 0.
  Let nd := Node (overlay_info (xc ti)) (overlay_place o (xc ti)) (overlay_cursor o (xc ti))
                 (overlay_route o (xc ti)) (fun _ _ _ => MPFalse) (overlay_fits o (xc ti)).
  Let nx := xoverlay_node o ti.
  Let self := XInfo (n_info nx) false false (0, 0) (fun s : size => fst s).

  Lemma ov_nd_is_old :
    nd = Node (overlay_info (nth_info (map xc kx) 0)) (overlay_place o (nth_info (map xc kx) 0)) (overlay_cursor o (nth_info (map xc kx) 0))
              (overlay_route o (nth_info (map xc kx) 0)) (fun _ _ _ => MPFalse) (overlay_fits o (nth_info (map xc kx) 0)).
  Proof. unfold nd, ti. rewrite nth_info_xc. reflexivity. Qed.

  Lemma xoverlay_fits_inv s :
    n_fits nx s = true ->
    exists maxrow l r t b, is_fixed s = false /\ snd s = Some maxrow /\ xoverlay_lrtb o ti (fst s) maxrow = (l, r, t, b) /\
      0 <= l /\ 0 <= r /\ 0 <= t /\ 0 <= b /\ 0 <= fst s - l - r /\ 0 <= maxrow - t - b /\
      (if is_pack (pa_wt (ov_pad o)) then x_fixed ti = true /\ t + snd (x_pack ti) <= maxrow
       else if is_pack (fi_ht (ov_fill o)) then t + i_rows (xc ti) (fst s - l - r) <= maxrow else True).
  Proof.
    unfold nx, xoverlay_node. cbn [n_fits]. destruct (snd s) as [maxrow|]; [|discriminate].
    destruct (xoverlay_lrtb o ti (fst s) maxrow) as [[[l r] t] b] eqn:E. intro H.
    exists maxrow, l, r, t, b.
    apply andb_true_iff in H as [H H8]. apply andb_true_iff in H as [H H7]. apply andb_true_iff in H as [H H6].
    apply andb_true_iff in H as [H H5]. apply andb_true_iff in H as [H H4]. apply andb_true_iff in H as [H H3].
    apply andb_true_iff in H as [H1 H2].
    split; [destruct (is_fixed s); [discriminate|reflexivity]|]. split; [reflexivity|]. split; [exact E|].
    repeat (split; [lia|]).
    destruct (is_pack (pa_wt (ov_pad o))).
    - apply andb_true_iff in H8 as [H8 H9]. split; [exact H8|lia].
    - destruct (is_pack (fi_ht (ov_fill o))); [lia|exact I].
  Qed.

  (* width given / relative: exactly the node of Geometry.v *)
  Section NotPack.
    Hypothesis Hnp : is_pack (pa_wt (ov_pad o)) = false.

    Lemma xoverlay_like : SizedLike nx nd self.
    Proof.
      intros s Efx. unfold nx, xoverlay_node, nd, self, xw, xh, xoverlay_lrtb, xoverlay_top_size, overlay_place, overlay_cursor,
        overlay_route, overlay_fits. cbn [n_place n_cursor n_route n_move n_fits n_info xc x_pack]. rewrite Efx, Hnp.
      repeat split; auto.
      destruct (snd s) as [maxrow|]; [|discriminate].
      destruct (overlay_lrtb o (xc ti) (fst s) maxrow) as [[[l r] t] b]. intro H.
      cbn [negb andb] in H.
      apply andb_true_iff in H as [H H8]. apply andb_true_iff in H as [H _]. apply andb_true_iff in H as [H _].
      rewrite H, H8. reflexivity.
    Qed.

    Lemma xoverlay_keeps : KeepsKind nx nd.
    Proof.
      intros s p Hf Hpos Hp _. destruct (xoverlay_fits_inv s Hf) as [maxrow [l [r [t [b [_ [Es [E [? [? [? [? [Hw _]]]]]]]]]]]]].
      unfold xoverlay_lrtb in E. rewrite Hnp in E.
      unfold nd in Hp. cbn [n_place] in Hp. unfold overlay_place in Hp. rewrite Es, E in Hp.
      destruct Hpos as [Hc _].
      destruct Hp as [<-|Hp]; [unfold is_fixed; cbn [p_size fst]; lia|one_placed Hp].
      unfold overlay_top_size, is_fixed. destruct (is_pack (fi_ht (ov_fill o))); cbn [fst]; lia.
    Qed.

    Lemma xov_np_within : XLocalWithin nx self kx.
    Proof.
      apply (tr_within nx nd self kx xoverlay_like xoverlay_keeps).
      - rewrite ov_nd_is_old. apply overlay_within.
      - intros s p E Hf. destruct (xoverlay_fits_inv s Hf) as [? [? [? [? [? [E2 _]]]]]]. congruence.
    Qed.
    Lemma xov_np_mouse : XLocalMouse nx kx.
    Proof.
      apply (tr_mouse nx nd self kx xoverlay_like xoverlay_keeps).
      - rewrite ov_nd_is_old. apply overlay_mouse.
      - intros s p col row focus E Hf. destruct (xoverlay_fits_inv s Hf) as [? [? [? [? [? [E2 _]]]]]]. congruence.
    Qed.
    Lemma xov_np_cursor : XLocalCursor nx kx.
    Proof.
      apply (tr_cursor nx nd self kx xoverlay_like xoverlay_keeps).
      - rewrite ov_nd_is_old. apply overlay_cursor_ok.
      - intros s E Hf. destruct (xoverlay_fits_inv s Hf) as [? [? [? [? [? [E2 _]]]]]]. congruence.
    Qed.
  End NotPack.

  Lemma xoverlay_flags : XLocalFlags nx kx.
  Proof.
    unfold nx, xoverlay_node. intros s p Hp Hfoc. cbn [n_place n_info] in *.
    destruct (snd s) as [maxrow|]; [|contradiction].
    destruct (xoverlay_lrtb o ti (fst s) maxrow) as [[[l r] t] b].
    destruct Hp as [<-|Hp]; [discriminate Hfoc|one_placed Hp].
    unfold overlay_info. cbn [i_sel i_hascur]. fold ti. split; [auto|discriminate].
  Qed.
  Lemma xoverlay_move : XLocalMove nx kx.
  Proof. intros s p col row _ _ _ _ _ _ H. unfold nx, xoverlay_node in H. cbn [n_info overlay_info i_hasmove] in H. discriminate. Qed.

  (* width 'pack': the top widget is rendered fixed *)
  Section Pack.
    Hypothesis Hp : is_pack (pa_wt (ov_pad o)) = true.

    Lemma xov_pack_geom s maxrow l r t b :
      n_fits nx s = true -> snd s = Some maxrow -> xoverlay_lrtb o ti (fst s) maxrow = (l, r, t, b) ->
      0 <= l /\ 0 <= r /\ 0 <= t /\ 0 <= b /\
      l + fst (x_pack ti) + r = fst s /\ t + snd (x_pack ti) <= maxrow - b /\
      xoverlay_top_size o (fst s) maxrow l r t b = fixed_size.
    Proof.
      intros Hf Es E. destruct (xoverlay_fits_inv s Hf) as [m [l' [r' [t' [b' [_ [Es' [E' [? [? [? [? [_ [_ Hc]]]]]]]]]]]]]].
      rewrite Es in Es'. inversion Es'; subst m. rewrite E in E'. inversion E'; subst l' r' t' b'. clear Es' E'.
      rewrite Hp in Hc. destruct Hc as [_ Hrows].
      unfold xoverlay_top_size. rewrite Hp.
      unfold xoverlay_lrtb in E. rewrite Hp in E. destruct (x_pack ti) as [w h] eqn:Epk. cbn [fst snd] in *.
      pose proof (clrp_clip_sum (fst s) (pa_at (ov_pad o)) (pa_aamt (ov_pad o)) w (pa_left (ov_pad o)) (pa_right (ov_pad o))) as Gs.
      cbv zeta in Gs.
      destruct (calculate_left_right_padding (fst s) (pa_at (ov_pad o)) (pa_aamt (ov_pad o)) GClip w None
                  (pa_left (ov_pad o)) (pa_right (ov_pad o))) as [l1 r1]. cbn [fst snd] in Gs.
      pose proof (ctbf_given_exact maxrow (fi_vt (ov_fill o)) (fi_vamt (ov_fill o)) h (fi_top (ov_fill o)) (fi_bottom (ov_fill o))) as Gt.
      cbv zeta in Gt.
      destruct (calculate_top_bottom_filler maxrow (fi_vt (ov_fill o)) (fi_vamt (ov_fill o)) GGiven h None
                  (fi_top (ov_fill o)) (fi_bottom (ov_fill o))) as [t1 b1]. cbn [fst snd] in Gt.
      inversion E; subst l1 r1 t1. clear E.
      destruct (maxrow - t - b1 <? h) eqn:Eb; subst b; repeat split; try lia; reflexivity.
    Qed.

    Lemma xov_pack_place s maxrow l r t b :
      snd s = Some maxrow -> xoverlay_lrtb o ti (fst s) maxrow = (l, r, t, b) ->
      n_place nx s = [Placed 1 0 0 (fst s, Some maxrow) false true;
                      Placed 0 (Z.max l 0) t (xoverlay_top_size o (fst s) maxrow l r t b) true false].
    Proof. intros Es E. unfold nx, xoverlay_node. cbn [n_place]. rewrite Es, E. reflexivity. Qed.

    Lemma xov_p_within : XLocalWithin nx self kx.
    Proof.
      intros s p Hf Hok Hin _. destruct (xoverlay_fits_inv s Hf) as [maxrow [l [r [t [b [Efx [Es [E _]]]]]]]].
      destruct (xov_pack_geom s maxrow l r t b Hf Es E) as [? [? [? [? [Hw [Hh Ets]]]]]].
      rewrite (xov_pack_place s maxrow l r t b Es E), Ets in Hin.
      assert (Exw : xw self s = fst s) by (unfold xw; rewrite Efx; reflexivity).
      assert (Exh : xh self s = maxrow) by (unfold xh, crows; rewrite Efx; cbn [self xc]; unfold nx, xoverlay_node; cbn [n_info]; rewrite Es; reflexivity).
      rewrite Exw, Exh.
      destruct Hin as [<-|Hin]; [|one_placed Hin].
      - cbn [p_x p_y p_size p_idx]. unfold xw, xh, crows, is_fixed. cbn [fst snd].
        destruct (not_fixed_pos s Hok Efx) as [Hc _]. assert (E1 : fst s <? 0 = false) by lia. rewrite E1. lia.
      - unfold xw, xh. rewrite is_fixed_fixed. fold ti. lia.
    Qed.

    Lemma xov_p_mouse : XLocalMouse nx kx.
    Proof.
      intros s p col row focus Hf Hok Hin Hbg _ Hr. destruct (xoverlay_fits_inv s Hf) as [maxrow [l [r [t [b [Efx [Es [E _]]]]]]]].
      destruct (xov_pack_geom s maxrow l r t b Hf Es E) as [? [? [? [? [Hw [Hh Ets]]]]]].
      rewrite (xov_pack_place s maxrow l r t b Es E), Ets in Hin.
      destruct Hin as [<-|Hin]; [discriminate Hbg|one_placed Hin].
      unfold in_rect, xw, xh in Hr. rewrite is_fixed_fixed in Hr. fold ti in Hr.
      unfold nx, xoverlay_node. cbn [n_route]. rewrite Es, E, Ets.
      destruct ((col <? l) || (fst s - r <=? col) || (row <? t) || (maxrow - b <=? row)) eqn:Eb; [lia|].
      eexists. f_equal. f_equal; lia.
    Qed.

    Lemma xov_p_cursor : XLocalCursor nx kx.
    Proof.
      intros s Hf Hok. destruct (xoverlay_fits_inv s Hf) as [maxrow [l [r [t [b [Efx [Es [E _]]]]]]]].
      destruct (xov_pack_geom s maxrow l r t b Hf Es E) as [? [? [? [? [Hw [Hh Ets]]]]]].
      rewrite (xov_pack_place s maxrow l r t b Es E), Ets.
      exists (Placed 0 (Z.max l 0) t fixed_size true false).
      split; [right; left; reflexivity|]. split; [reflexivity|]. split.
      - intros q [<-|[<-|[]]] Hq; [discriminate Hq|reflexivity].
      - unfold nx, xoverlay_node. cbn [n_cursor p_idx p_size p_x p_y]. fold ti. rewrite Es, E, Ets.
        destruct (i_hascur (xc ti)) eqn:Eh; cbn [negb].
        + repeat split; try reflexivity; try lia. unfold xh. rewrite is_fixed_fixed. fold ti. lia.
        + right; left; reflexivity.
    Qed.
  End Pack.

  Lemma xoverlay_within : XLocalWithin nx self kx.
  Proof. destruct (is_pack (pa_wt (ov_pad o))) eqn:E; [apply xov_p_within|apply xov_np_within]; exact E. Qed.
  Lemma xoverlay_mouse : XLocalMouse nx kx.
  Proof. destruct (is_pack (pa_wt (ov_pad o))) eqn:E; [apply xov_p_mouse|apply xov_np_mouse]; exact E. Qed.
  Lemma xoverlay_cursor : XLocalCursor nx kx.
  Proof. destruct (is_pack (pa_wt (ov_pad o))) eqn:E; [apply xov_p_cursor|apply xov_np_cursor]; exact E. Qed.
End XOverlay.

(* ---- Pile, with 'pack' items rendered fixed and the Pile itself rendered fixed ---- *)
Section XPile.
  Variable its : xp_items.
  Variable fp : Z.
  Variable kidcols : list (size -> Z).
  Let kx := map snd its.
  Let nx := xpile_node its fp.
  Let self := xpile_info its kidcols.

  Lemma xself_pack : x_pack self = (xpile_max_width its, zsum (map fst (xpile_rows_sizes its fixed_size))).
  Proof. unfold self, xpile_info. destruct (xpile_sizing its) as [[b f] x]. reflexivity. Qed.
  Lemma xself_xc : xc self = xpile_cinfo its.
  Proof. unfold self, xpile_info. destruct (xpile_sizing its) as [[b f] x]. reflexivity. Qed.

  Lemma xrs_fixed_indep s : is_fixed s = true -> xpile_rows_sizes its s = xpile_rows_sizes its fixed_size.
  Proof. intro E. unfold xpile_rows_sizes. rewrite E, is_fixed_fixed. reflexivity. Qed.

  Lemma xpile_flow_heights c : is_fixed (c, None) = false ->
    map fst (xpile_rows_sizes its (c, None)) = xpile_item_rows its (c, None).
  Proof.
    intro E. unfold xpile_rows_sizes, xpile_item_rows. rewrite E. cbn [snd fst].
    induction its as [|[o xi] l IH]; [reflexivity|]. cbn [map combine fst snd]. rewrite IH.
    destruct o; reflexivity.
  Qed.

  Lemma xpile_rows_sizes_len s : is_fixed s = false -> length (xpile_rows_sizes its s) = length its.
  Proof.
    intro E. unfold xpile_rows_sizes. rewrite E. rewrite map_length, combine_length.
    assert (L : length (xpile_item_rows its s) = length its).
    { unfold xpile_item_rows. destruct (snd s).
      - assert (P1 : forall l c, length (fst (fst (xpile_pass1 l c))) = length l).
        { induction l as [|[o xi] l IHl]; intro c; [reflexivity|]. cbn [xpile_pass1]. specialize (IHl c).
          destruct (xpile_pass1 l c) as [[l0 used] wt]. cbn [fst] in *.
          destruct o; cbn [fst length]; try (destruct (n =? 0)); cbn [fst length]; lia. }
        assert (P2 : forall l l0 rem wt, length l0 = length l -> length (xpile_pass2 l l0 rem wt) = length l).
        { induction l as [|[o xi] l IHl]; intros l0 rem wt H; [destruct l0; reflexivity|].
          destruct l0 as [|x l0]; [discriminate|]. cbn [xpile_pass2]. destruct x; cbn [length]; rewrite IHl; cbn in H; lia. }
        specialize (P1 its (fst s)). destruct (xpile_pass1 its (fst s)) as [[l0 used] wt]. cbn [fst] in P1. apply P2. exact P1.
      - apply map_length. }
    lia.
  Qed.

  (* an entry of get_rows_sizes: its height is the height of the child's area at the size it gets; the child is not
     wider than the Pile *)
  Lemma xpile_rows_sizes_nth s i h cs :
    xpile_fits its fp s = true -> xsize_ok s ->
    nthz (xpile_rows_sizes its s) i = Some (h, cs) ->
    exists o xi, nthz its i = Some (o, xi) /\ nth_xinfo kx i = xi /\ (xsize_ok cs -> xh xi cs = h) /\
                 (xsize_ok cs -> xw xi cs <= xw self s).
  Proof.
    intros Hf Hok Hn. unfold xpile_fits in Hf. apply andb_true_iff in Hf as [Hf Hwid].
    unfold xpile_rows_sizes in Hn. unfold xw at 2. rewrite xself_pack. cbn [fst].
    destruct (is_fixed s) eqn:Efx.
    - (* the Pile is rendered fixed *)
      destruct (xpile_fixed_supported its) eqn:Es; [|rewrite nthz_nil in Hn; discriminate].
      rewrite nthz_map in Hn. destruct (nthz its i) as [[o xi]|] eqn:Ei; [|discriminate].
      exists o, xi. split; [reflexivity|]. split; [unfold kx, nth_xinfo; rewrite nthz_map, Ei; reflexivity|].
      cbn [option_map snd] in Hn.
      assert (Hit : is_ppack o && (x_fixed xi || x_flow xi) = true).
      { unfold xpile_fixed_supported in Es. apply andb_true_iff in Es as [Es _]. rewrite forallb_forall in Es.
        apply (Es (o, xi)). eapply nthz_In; eauto. }
      destruct (x_flow xi) eqn:Efl; inversion Hn; subst h cs; clear Hn.
      + split; intros [Hk|[Hk _]].
        * unfold xh. rewrite Hk. unfold is_fixed in Hk. cbn [fst] in Hk. lia.
        * unfold xh, crows, is_fixed. cbn [fst snd]. assert (E1 : xpile_max_width its <? 0 = false) by lia. rewrite E1. reflexivity.
        * unfold is_fixed in Hk. cbn [fst] in Hk. lia.
        * unfold xw, is_fixed. cbn [fst]. assert (E1 : xpile_max_width its <? 0 = false) by lia. rewrite E1. lia.
      + split; intros _; unfold xh, xw; rewrite is_fixed_fixed; [reflexivity|].
        apply andb_true_iff in Hit as [_ Hit]. rewrite ?Efl in Hit. rewrite orb_false_r in Hit.
        unfold xpile_max_width. apply zmaxl_ge. apply in_flat_map. exists (o, xi). split; [eapply nthz_In; eauto|].
        cbn [snd]. rewrite Hit. left; reflexivity.
    - rewrite nthz_map in Hn.
      destruct (nthz (combine its (xpile_item_rows its s)) i) as [[[o xi] ir]|] eqn:E; [|discriminate].
      apply nthz_combine_inv in E as [Ei _]. exists o, xi. split; [exact Ei|].
      split; [unfold kx, nth_xinfo; rewrite nthz_map, Ei; reflexivity|].
      cbn [option_map] in Hn.
      assert (Hwi : x_flow xi || negb (x_fixed xi && is_ppack o) || (fst (x_pack xi) <=? fst s) = true).
      { rewrite forallb_forall in Hwid. apply (Hwid (o, xi)). eapply nthz_In; eauto. }
      pose proof (not_fixed_pos s Hok Efx) as [Hc _].
      assert (Ews : forall r, xw xi (fst s, r) = fst s).
      { intro r. unfold xw, is_fixed. cbn [fst]. assert (E1 : fst s <? 0 = false) by lia. rewrite E1. reflexivity. }
      assert (Ehs : forall r, xh xi (fst s, r) = crows (xc xi) (fst s, r)).
      { intro r. unfold xh, is_fixed. cbn [fst]. assert (E1 : fst s <? 0 = false) by lia. rewrite E1. reflexivity. }
      assert (Gen : forall o', (xitem_height o' xi (fst s), xitem_size o' xi (fst s)) = (h, cs) ->
                 (xsize_ok cs -> xh xi cs = h) /\ (xsize_ok cs -> xw xi cs <= fst s) \/ False \/
                 ((xsize_ok cs -> xh xi cs = h) /\ x_fixed xi && is_ppack o' = true /\ x_flow xi = false /\ cs = fixed_size)).
      { intros o' Hx. unfold xitem_height, xitem_size in Hx. destruct (x_flow xi) eqn:Efl.
        - inversion Hx; subst. left. split; intros _; [rewrite Ehs; reflexivity|rewrite Ews; lia].
        - destruct (x_fixed xi && is_ppack o') eqn:Efx2; inversion Hx; subst.
          + right; right. split; [intros _; unfold xh; rewrite is_fixed_fixed; reflexivity|auto].
          + left. split; intros _; [rewrite Ehs; reflexivity|rewrite Ews; lia]. }
      destruct o as [|n|n].
      + injection Hn as Hn1 Hn2. destruct (Gen PPack (f_equal2 pair Hn1 Hn2)) as [G|[[]|[G1 [G2 [G3 ->]]]]]; [exact G|].
        split; [exact G1|]. intros _. unfold xw. rewrite is_fixed_fixed.
        rewrite G3 in Hwi. cbn [orb] in Hwi. rewrite G2 in Hwi. cbn [negb orb] in Hwi. lia.
      + inversion Hn; subst. split; intros _; [rewrite Ehs; reflexivity|rewrite Ews; lia].
      + destruct (snd s) eqn:Ess.
        * inversion Hn; subst. split; intros _; [rewrite Ehs; reflexivity|rewrite Ews; lia].
        * injection Hn as Hn1 Hn2. destruct (Gen (PWeight n) (f_equal2 pair Hn1 Hn2)) as [G|[[]|[G1 [G2 _]]]]; [exact G|].
          apply andb_true_iff in G2 as [_ G2]. discriminate G2.
  Qed.

  Lemma xpile_fits_inv s :
    xpile_fits its fp s = true -> xsize_ok s ->
    0 <= fp < zlen its /\ zlen (xpile_rows_sizes its s) = zlen its /\
    Forall (fun q : Z * size => 1 <= fst q) (xpile_rows_sizes its s) /\
    zsum (map fst (xpile_rows_sizes its s)) <= xh self s.
  Proof.
    intros Hf Hok. pose proof Hf as Hf0. unfold xpile_fits in Hf. apply andb_true_iff in Hf as [Hf _].
    apply andb_true_iff in Hf as [Hf H5]. apply andb_true_iff in Hf as [Hf H4].
    apply andb_true_iff in Hf as [Hf H3]. apply andb_true_iff in Hf as [Hf H2'].
    apply andb_true_iff in Hf as [H1 H2].
    split; [lia|]. split; [lia|]. split.
    - apply Forall_forall. intros q Hq. rewrite forallb_forall in H4. specialize (H4 q Hq). lia.
    - unfold xh. destruct (is_fixed s) eqn:Efx.
      + rewrite xself_pack. cbn [snd]. rewrite (xrs_fixed_indep s Efx). lia.
      + rewrite xself_xc. unfold crows. destruct s as [c [r|]]; cbn [snd fst] in *.
        * apply andb_true_iff in H5 as [H5 _]. lia.
        * unfold xpile_cinfo. destruct (xpile_sizing its) as [[b f] x]. cbn [i_rows].
          rewrite (xpile_flow_heights c Efx). lia.
  Qed.

  Lemma xpile_placed_inv s p :
    xpile_fits its fp s = true -> xsize_ok s -> In p (n_place nx s) ->
    exists pre x post o xi,
      xpile_rows_sizes its s = pre ++ x :: post /\
      p = Placed (zlen pre) 0 (zsum (map fst pre)) (snd x) (fp =? zlen pre) false /\
      nthz its (zlen pre) = Some (o, xi) /\ nth_xinfo kx (zlen pre) = xi /\
      (xsize_ok (snd x) -> xh xi (snd x) = fst x) /\ (xsize_ok (snd x) -> xw xi (snd x) <= xw self s) /\
      Forall (fun q : Z * size => 1 <= fst q) pre /\ 1 <= fst x /\ 0 <= zsum (map fst post).
  Proof.
    intros Hf Hok Hp. destruct (xpile_fits_inv s Hf Hok) as [Hfp [Hlen [Hall Htot]]].
    unfold nx, xpile_node in Hp. cbn [n_place] in Hp.
    destruct (pile_place_from_inv fp _ 0 0 p Hall Hp) as [pre [x [post [E ->]]]].
    pose proof (nthz_app_mid pre x post) as Hn. rewrite <- E in Hn. destruct x as [h cs].
    destruct (xpile_rows_sizes_nth s _ _ _ Hf Hok Hn) as [o [xi [Hi [Hk [Hh Hw]]]]].
    exists pre, (h, cs), post, o, xi. rewrite E in Hall.
    apply Forall_app in Hall as [Hpre Hrest]. pose proof (Forall_inv Hrest) as Hx. pose proof (Forall_inv_tail Hrest) as Hpost.
    cbn beta in Hx. cbn [fst snd] in *.
    repeat split; auto.
    apply zsum_nonneg. exact Hpost.
  Qed.

  Lemma xpile_within : XLocalWithin nx self kx.
  Proof.
    intros s p Hf Hok Hp Hps. unfold nx, xpile_node in Hf. cbn [n_fits] in Hf.
    destruct (xpile_placed_inv s p Hf Hok Hp) as [pre [x [post [o [xi [E [-> [Hi [Hki [Hh [Hw [Hpre [Hx Hpost]]]]]]]]]]]]].
    destruct (xpile_fits_inv s Hf Hok) as [_ [_ [_ Htot]]]. rewrite E in Htot.
    rewrite map_app, zsum_app in Htot. cbn [map zsum] in Htot.
    cbn [p_x p_y p_size p_idx] in *. rewrite Hki, (Hh Hps). specialize (Hw Hps). pose proof (zsum_nonneg pre Hpre). lia.
  Qed.

  Lemma xpile_mouse : XLocalMouse nx kx.
  Proof.
    intros s p col row focus Hf Hok Hp _ Hps Hin. unfold nx, xpile_node in Hf. cbn [n_fits] in Hf.
    destruct (xpile_placed_inv s p Hf Hok Hp) as [pre [x [post [o [xi [E [-> [Hi [Hki [Hh [Hw [Hpre [Hx Hpost]]]]]]]]]]]]].
    cbn [p_x p_y p_size p_idx] in *. rewrite Hki, (Hh Hps) in Hin. unfold in_rect in Hin.
    unfold nx, xpile_node. cbn [n_route]. unfold xpile_route. rewrite E.
    rewrite (pile_find_split pre x post 0 0 row Hpre) by lia.
    eexists. f_equal. f_equal; lia.
  Qed.

  Lemma xpile_move_ok : XLocalMove nx kx.
  Proof.
    intros s p col row Hf Hok Hp _ Hps Hin _ Hsel Hmv. unfold nx, xpile_node in Hf. cbn [n_fits] in Hf.
    destruct (xpile_placed_inv s p Hf Hok Hp) as [pre [x [post [o [xi [E [-> [Hi [Hki [Hh [Hw [Hpre [Hx Hpost]]]]]]]]]]]]].
    cbn [p_x p_y p_size p_idx] in *. rewrite Hki in *. rewrite (Hh Hps) in Hin. unfold in_rect in Hin.
    unfold nx, xpile_node. cbn [n_move]. unfold xpile_move. rewrite E.
    rewrite (pile_find_split pre x post 0 0 row Hpre) by lia.
    replace (0 + zlen pre) with (zlen pre) by lia. fold kx. rewrite Hki, Hsel, Hmv. cbn [negb].
    eexists. f_equal; lia.
  Qed.

  Lemma xpile_flags : XLocalFlags nx kx.
  Proof.
    intros s p Hp _. unfold nx, xpile_node in *. cbn [n_place n_info] in *.
    unfold xpile_cinfo. destruct (xpile_sizing its) as [[b f] x]. cbn [i_sel i_hascur].
    split; [|discriminate]. intro Hs.
    assert (G : forall rs i0 y0, In p (pile_place_from rs i0 y0 fp) -> i0 <= p_idx p < i0 + zlen rs).
    { induction rs as [|[h cs] rs IH]; intros i0 y0 H; [contradiction|]. cbn [pile_place_from] in H.
      rewrite zlen_cons. destruct (0 <? h).
      - destruct H as [<-|H]; [cbn [p_idx]; pose proof (zlen_nonneg rs); lia|]. specialize (IH _ _ H). lia.
      - specialize (IH _ _ H). lia. }
    specialize (G _ _ _ Hp).
    assert (L : zlen (xpile_rows_sizes its s) <= zlen its).
    { unfold xpile_rows_sizes, zlen. destruct (is_fixed s).
      - destruct (xpile_fixed_supported its); [rewrite map_length; lia|cbn; lia].
      - rewrite map_length, combine_length. lia. }
    destruct (nthz_some its (p_idx p)) as [[o xi] Hi]; [lia|].
    assert (Ek : nth_xinfo kx (p_idx p) = xi) by (unfold kx, nth_xinfo; rewrite nthz_map, Hi; reflexivity).
    rewrite Ek.
    apply (existsb_false_In (fun it : popt * xinfo => i_sel (xc (snd it))) its (o, xi) Hs). eapply nthz_In; eauto.
  Qed.

  Lemma xpile_cursor_ok : XLocalCursor nx kx.
  Proof.
    intros s Hf Hok. unfold nx, xpile_node in Hf. cbn [n_fits] in Hf.
    destruct (xpile_fits_inv s Hf Hok) as [Hfp [Hlen [Hall Htot]]].
    destruct (nthz_some (xpile_rows_sizes its s) fp) as [[h cs] Hn]; [lia|].
    destruct (nthz_split _ _ _ Hn) as [pre [post [E [Hl Hpre]]]].
    destruct (xpile_rows_sizes_nth s _ _ _ Hf Hok Hn) as [o [xi [Hi [Hk [Hh Hw]]]]].
    pose proof Hall as Hall'. rewrite E in Hall'. apply Forall_app in Hall' as [Hpre' Hrest].
    pose proof (Forall_inv Hrest) as Hx. cbn beta in Hx. cbn [fst] in Hx.
    exists (Placed fp 0 (zsum (map fst pre)) cs true false). split; [|split; [reflexivity|split]].
    - unfold nx, xpile_node. cbn [n_place]. rewrite E.
      pose proof (pile_place_from_in fp pre (h, cs) post 0 0 Hpre') as G. cbn [fst snd] in G.
      replace (0 + zlen pre) with fp in G by lia. replace (0 + zsum (map fst pre)) with (zsum (map fst pre)) in G by lia.
      assert (Efp : fp =? fp = true) by lia. rewrite Efp in G. apply G. lia.
    - intros q Hq Hqf. unfold nx, xpile_node in Hq. cbn [n_place] in Hq.
      destruct (pile_place_from_inv fp _ 0 0 q Hall Hq) as [pre2 [x2 [post2 [E2 ->]]]].
      cbn [p_isfocus] in Hqf. assert (zlen pre2 = zlen pre) by lia.
      rewrite E in E2. destruct (app_mid_eq pre pre2 (h, cs) x2 post post2 E2) as [<- [<- <-]].
      { unfold zlen in *. lia. }
      cbn [snd]. f_equal; lia.
    - cbn [p_idx p_size p_x p_y]. unfold nx, xpile_node. cbn [n_cursor]. unfold xpile_cursor. rewrite Hk.
      destruct (existsb (fun it : popt * xinfo => i_sel (xc (snd it))) its) eqn:Es; cbn [negb].
      + rewrite Hi.
        destruct (i_hascur (xc xi)) eqn:Eh; cbn [negb]; [|right; left; reflexivity].
        rewrite Hn. rewrite <- Hpre. repeat split; reflexivity.
      + left. apply (existsb_false_In (fun it : popt * xinfo => i_sel (xc (snd it))) its (o, xi) Es). eapply nthz_In; eauto.
  Qed.
End XPile.

(* ---- Columns, with 'pack' columns, columns rendered fixed and the Columns itself rendered fixed ---- *)
Section XColumns.
  Variable its : xc_items.
  Variable fp dc mw : Z.
  Let kx := map snd its.
  Let nx := xcolumns_node its fp dc mw.
  Let self := xcolumns_info its fp dc mw.

  Lemma xcself_pack :
    x_pack self = (let cs := xcolumns_sizes its fp dc mw fixed_size in
                   (zsum (map (fun t => fst (fst t)) cs) + dc * Z.max (zlen cs - 1) 0, zmaxl (map (fun t => snd (fst t)) cs))).
  Proof. unfold self, xcolumns_info. destruct (xcolumns_sizing its) as [[b f] x]. reflexivity. Qed.
  Lemma xcself_xc : xc self = xcolumns_cinfo its fp dc mw.
  Proof. unfold self, xcolumns_info. destruct (xcolumns_sizing its) as [[b f] x]. reflexivity. Qed.

  Lemma xcs_fixed_indep s : is_fixed s = true -> xcolumns_sizes its fp dc mw s = xcolumns_sizes its fp dc mw fixed_size.
  Proof. intro E. unfold xcolumns_sizes. rewrite E, is_fixed_fixed. reflexivity. Qed.

  (* the shape of one entry of get_column_sizes *)
  Definition col_shape (e : Z * Z * size) (xi : xinfo) : Prop :=
    let '(w, h, csz) := e in
    csz = fixed_size \/ csz = (w, Some h) \/ (csz = (w, None) /\ (1 <= w -> h = i_rows (xc xi) w)).

  Lemma xcolumns_sizes_shape s i e :
    nthz (xcolumns_sizes its fp dc mw s) i = Some e ->
    exists o b xi, nthz its i = Some (o, b, xi) /\ col_shape e xi.
  Proof.
    unfold xcolumns_sizes. destruct (is_fixed s).
    - destruct (xcolumns_fixed_supported its); [|rewrite nthz_nil; discriminate].
      rewrite nthz_map. destruct (nthz its i) as [[[o b] xi]|] eqn:Ei; [|discriminate].
      cbn [option_map]. intro H. exists o, b, xi. split; [reflexivity|].
      destruct o; [destruct b|..]; inversion H; subst; unfold col_shape; auto.
    - destruct (snd s) as [maxrow|].
      + rewrite nthz_map. destruct (nthz (combine _ its) i) as [[w0 [[o b] xi]]|] eqn:E; [|discriminate].
        apply nthz_combine_inv in E as [_ Ei]. cbn [option_map]. intro H. exists o, b, xi. split; [exact Ei|].
        destruct (i_box (xc xi) || b); [inversion H; subst; unfold col_shape; auto|].
        destruct (x_flow xi).
        * inversion H; subst. unfold col_shape. right; right. split; [reflexivity|]. intro Hw.
          assert (E0 : 0 <? w0 = true) by lia. rewrite E0. reflexivity.
        * destruct (is_cpack o); inversion H; subst; unfold col_shape; auto.
      + rewrite nthz_map. destruct (nthz (combine _ its) i) as [[w0 [[o b] xi]]|] eqn:E; [|discriminate].
        apply nthz_combine_inv in E as [_ Ei]. cbn [option_map]. intro H. exists o, b, xi. split; [exact Ei|].
        destruct b; [inversion H; subst; unfold col_shape; auto|].
        destruct (x_flow xi).
        * inversion H; subst. unfold col_shape. right; right. split; [reflexivity|]. intro Hw.
          assert (E0 : 0 <? w0 = true) by lia. rewrite E0. reflexivity.
        * destruct (is_cpack o); inversion H; subst; unfold col_shape; auto.
  Qed.

  Lemma xcolumns_fits_inv s :
    xcolumns_fits its fp dc mw s = true ->
    let cs := xcolumns_sizes its fp dc mw s in
    0 <= fp < zlen its /\ 0 <= dc /\ zlen cs = zlen its /\
    Forall (fun t => 1 <= cw t) cs /\ Forall (fun t => 1 <= chh t /\ forall r, snd s = Some r -> chh t <= r) cs /\
    Forall (fun p : (Z * Z * size) * (copt * bool * xinfo) =>
              is_fixed (snd (fst p)) = true -> fst (x_pack (snd (snd p))) <= cw (fst p) /\ snd (x_pack (snd (snd p))) <= chh (fst p))
           (combine cs its) /\
    (is_fixed s = false -> zsum (map cw cs) + dc * (zlen its - 1) <= fst s).
  Proof.
    unfold xcolumns_fits. intro H. cbv zeta.
    apply andb_true_iff in H as [H H8]. apply andb_true_iff in H as [H H7]. apply andb_true_iff in H as [H H6].
    apply andb_true_iff in H as [H H5]. apply andb_true_iff in H as [H H4]. apply andb_true_iff in H as [H H3].
    apply andb_true_iff in H as [H1 H2].
    rewrite forallb_forall in H6, H7.
    split; [lia|]. split; [lia|]. split; [lia|]. split; [|split; [|split]].
    - apply Forall_forall. intros t Ht. specialize (H6 t Ht). unfold cw. apply andb_true_iff in H6 as [H6 _]. lia.
    - apply Forall_forall. intros t Ht. specialize (H6 t Ht). unfold chh.
      apply andb_true_iff in H6 as [H6 H9]. split; [lia|]. intros r Er. rewrite Er in H9. lia.
    - apply Forall_forall. intros p Hp Hfx. specialize (H7 p Hp). rewrite Hfx in H7. cbn [negb orb] in H7. unfold cw, chh. lia.
    - intro Efx. rewrite Efx in H8. cbn [orb] in H8. apply andb_true_iff in H8 as [H8 _]. apply andb_true_iff in H8 as [H8 _].
      unfold cw. lia.
  Qed.

  (* an entry: the child's area is not wider than the column and not higher than the entry says *)
  Lemma xcolumns_sizes_nth s i w h csz :
    xcolumns_fits its fp dc mw s = true ->
    nthz (xcolumns_sizes its fp dc mw s) i = Some (w, h, csz) ->
    exists o b xi, nthz its i = Some (o, b, xi) /\ nth_xinfo kx i = xi /\ 1 <= w /\
      (xsize_ok csz -> xw xi csz <= w /\ xh xi csz <= h).
  Proof.
    intros Hf Hn. destruct (xcolumns_fits_inv s Hf) as [_ [_ [_ [Hw [_ [Hfx _]]]]]].
    destruct (xcolumns_sizes_shape s i _ Hn) as [o [b [xi [Hi Hsh]]]].
    exists o, b, xi. split; [exact Hi|]. split; [unfold kx, nth_xinfo; rewrite nthz_map, Hi; reflexivity|].
    assert (Hw1 : 1 <= w).
    { rewrite Forall_forall in Hw. apply (Hw (w, h, csz)). eapply nthz_In; eauto. }
    split; [exact Hw1|]. intro Hok.
    assert (Hpair : In ((w, h, csz), (o, b, xi)) (combine (xcolumns_sizes its fp dc mw s) its)).
    { eapply nthz_In. apply nthz_combine; eauto. }
    rewrite Forall_forall in Hfx. specialize (Hfx _ Hpair). cbn [fst snd cw chh] in Hfx.
    unfold col_shape in Hsh. destruct Hsh as [->|[->|[-> Hr]]].
    - unfold xw, xh. rewrite is_fixed_fixed. apply Hfx. reflexivity.
    - unfold xw, xh, crows, is_fixed. cbn [fst snd]. assert (E1 : w <? 0 = false) by lia. rewrite E1. lia.
    - unfold xw, xh, crows, is_fixed. cbn [fst snd]. assert (E1 : w <? 0 = false) by lia. rewrite E1. rewrite (Hr Hw1). lia.
  Qed.

  Lemma xc_zsum_cw_nonneg (l : list (Z * Z * size)) : Forall (fun t => 1 <= cw t) l -> 0 <= zsum (map cw l).
  Proof. induction 1; cbn [map zsum]; lia. Qed.

  (* the whole Columns is as wide as its columns and dividers, and as high as its highest column *)
  Lemma xcolumns_extent s pre x post :
    xcolumns_fits its fp dc mw s = true -> xsize_ok s ->
    xcolumns_sizes its fp dc mw s = pre ++ x :: post ->
    xoff dc pre + cw x <= xw self s /\ chh x <= xh self s.
  Proof.
    intros Hf Hok E. destruct (xcolumns_fits_inv s Hf) as [Hfp [Hdc [Hlen [Hw [Hh [_ Hsum]]]]]].
    rewrite E in Hw, Hh, Hlen. apply Forall_app in Hw as [Hpre Hrest]. pose proof (Forall_inv Hrest) as Hx.
    pose proof (Forall_inv_tail Hrest) as Hpost. cbn beta in Hx.
    rewrite zlen_app, zlen_cons in Hlen. pose proof (zlen_nonneg pre). pose proof (zlen_nonneg post).
    pose proof (xc_zsum_cw_nonneg post Hpost).
    assert (Hin : In (chh x) (map (fun t : Z * Z * size => snd (fst t)) (pre ++ x :: post))).
    { apply in_map_iff. exists x. split; [reflexivity|]. apply in_or_app. right. left. reflexivity. }
    unfold xw, xh. destruct (is_fixed s) eqn:Efx.
    - rewrite xcself_pack. cbv zeta. rewrite <- (xcs_fixed_indep s Efx), E. cbn [fst snd].
      rewrite map_app, zsum_app. cbn [map zsum]. rewrite zlen_app, zlen_cons. rewrite xoff_sum. fold (cw x).
      split; [|apply zmaxl_ge; exact Hin].
      change (fun t : Z * Z * size => fst (fst t)) with cw. nia.
    - specialize (Hsum eq_refl). rewrite E in Hsum. rewrite map_app, zsum_app in Hsum. cbn [map zsum] in Hsum.
      rewrite xoff_sum. split; [nia|].
      rewrite xcself_xc. unfold crows. destruct s as [c [r|]]; cbn [snd fst] in *.
      + apply Forall_app in Hh as [_ Hh]. apply Forall_inv in Hh. destruct Hh as [_ Hh]. apply Hh. reflexivity.
      + unfold xcolumns_cinfo. destruct (xcolumns_sizing its) as [[b f] x0]. cbn [i_rows]. rewrite E.
        pose proof (zmaxl_ge _ _ Hin). lia.
  Qed.

  Lemma xcolumns_placed_inv s p :
    xcolumns_fits its fp dc mw s = true -> In p (n_place nx s) ->
    exists pre x post o b xi,
      xcolumns_sizes its fp dc mw s = pre ++ x :: post /\
      p = Placed (zlen pre) (xoff dc pre) 0 (snd x) (fp =? zlen pre) false /\
      nthz its (zlen pre) = Some (o, b, xi) /\ nth_xinfo kx (zlen pre) = xi /\
      (xsize_ok (snd x) -> xw xi (snd x) <= cw x /\ xh xi (snd x) <= chh x) /\
      Forall (fun t => 1 <= cw t) pre /\ 1 <= cw x.
  Proof.
    intros Hf Hp. destruct (xcolumns_fits_inv s Hf) as [Hfp [Hdc [Hlen [Hw _]]]].
    unfold nx, xcolumns_node in Hp. cbn [n_place] in Hp.
    destruct (columns_place_from_inv fp dc _ 0 0 _ p eq_refl Hw Hp) as [pre [x [post [E ->]]]].
    pose proof (nthz_app_mid pre x post) as Hn. rewrite <- E in Hn. destruct x as [[w h] csz].
    destruct (xcolumns_sizes_nth s _ _ _ _ Hf Hn) as [o [b [xi [Hi [Hk [Hw1 Hext]]]]]].
    exists pre, (w, h, csz), post, o, b, xi. rewrite E in Hw. apply Forall_app in Hw as [Hpre _].
    cbn [snd cw chh fst] in *. repeat split; auto; try (apply Hext; assumption).
  Qed.

  Lemma xcolumns_within : XLocalWithin nx self kx.
  Proof.
    intros s p Hf Hok Hp Hps. unfold nx, xcolumns_node in Hf. cbn [n_fits] in Hf.
    destruct (xcolumns_placed_inv s p Hf Hp) as [pre [x [post [o [b [xi [E [-> [Hi [Hki [Hext [Hpre Hx]]]]]]]]]]]].
    destruct (xcolumns_fits_inv s Hf) as [_ [Hdc _]].
    destruct (xcolumns_extent s pre x post Hf Hok E) as [Hwd Hht].
    cbn [p_x p_y p_size p_idx] in *. rewrite Hki. destruct (Hext Hps) as [H1 H2].
    pose proof (xoff_nonneg dc pre Hdc Hpre). lia.
  Qed.

  Lemma xcolumns_mouse : XLocalMouse nx kx.
  Proof.
    intros s p col row focus Hf Hok Hp _ Hps Hin. unfold nx, xcolumns_node in Hf. cbn [n_fits] in Hf.
    destruct (xcolumns_placed_inv s p Hf Hp) as [pre [x [post [o [b [xi [E [-> [Hi [Hki [Hext [Hpre Hx]]]]]]]]]]]].
    destruct (xcolumns_fits_inv s Hf) as [_ [Hdc _]].
    cbn [p_x p_y p_size p_idx] in *. rewrite Hki in Hin. destruct (Hext Hps) as [H1 _]. unfold in_rect in Hin.
    unfold nx, xcolumns_node. cbn [n_route]. rewrite E.
    rewrite (columns_route_from_split fp dc pre x post 0 0 col row focus Hdc Hpre) by lia.
    eexists. f_equal. f_equal; lia.
  Qed.

  Lemma xsels_split (pre : list (Z * Z * size)) (x : Z * Z * size) (post : list (Z * Z * size)) o b xi :
    nthz its (zlen pre) = Some (o, b, xi) ->
    exists spre spost, map (fun it : copt * bool * xinfo => i_sel (xc (snd it))) its = spre ++ i_sel (xc xi) :: spost /\ length spre = length pre.
  Proof.
    intro Hn. destruct (nthz_split _ _ _ Hn) as [ipre [ipost [El [Hl _]]]].
    exists (map (fun it : copt * bool * xinfo => i_sel (xc (snd it))) ipre), (map (fun it : copt * bool * xinfo => i_sel (xc (snd it))) ipost).
    rewrite El, map_app. cbn [map snd]. split; [reflexivity|]. rewrite map_length. unfold zlen in Hl. lia.
  Qed.

  Lemma xcolumns_move_ok : XLocalMove nx kx.
  Proof.
    intros s p col row Hf Hok Hp _ Hps Hin _ Hsel Hmv. unfold nx, xcolumns_node in Hf. cbn [n_fits] in Hf.
    destruct (xcolumns_placed_inv s p Hf Hp) as [pre [x [post [o [b [xi [E [-> [Hi [Hki [Hext [Hpre Hx]]]]]]]]]]]].
    destruct (xcolumns_fits_inv s Hf) as [_ [Hdc _]].
    cbn [p_x p_y p_size p_idx] in *. rewrite Hki in *. destruct (Hext Hps) as [H1 _]. unfold in_rect in Hin.
    unfold nx, xcolumns_node. cbn [n_move]. unfold xcolumns_move. rewrite E.
    destruct (xsels_split pre x post o b xi Hi) as [spre [spost [Es Hl]]].
    rewrite Es, Hsel.
    rewrite (columns_best_split dc pre x post spre spost 0 0 col None Hdc Hpre Hl) by lia.
    replace (0 + zlen pre) with (zlen pre) by lia. fold kx. rewrite Hki, Hmv.
    eexists. f_equal; lia.
  Qed.

  Lemma xcolumns_flags : XLocalFlags nx kx.
  Proof.
    intros s p Hp _. unfold nx, xcolumns_node in *. cbn [n_place n_info] in *.
    unfold xcolumns_cinfo. destruct (xcolumns_sizing its) as [[b f] x]. cbn [i_sel i_hascur].
    split; [|discriminate]. intro Hs.
    assert (G : forall cs i0 x0 n, In p (columns_place_from cs i0 x0 n fp dc) -> i0 <= p_idx p < i0 + zlen cs).
    { induction cs as [|[[w h] c] cs IH]; intros i0 x0 n H; [contradiction|]. cbn [columns_place_from] in H.
      rewrite zlen_cons. destruct (w <=? 0).
      - specialize (IH _ _ _ H). lia.
      - destruct H as [<-|H]; [cbn [p_idx]; pose proof (zlen_nonneg cs); lia|]. specialize (IH _ _ _ H). lia. }
    specialize (G _ _ _ _ Hp).
    assert (L : zlen (xcolumns_sizes its fp dc mw s) <= zlen its).
    { unfold xcolumns_sizes, zlen. destruct (is_fixed s).
      - destruct (xcolumns_fixed_supported its); [rewrite map_length; lia|cbn; lia].
      - destruct (snd s); rewrite map_length, combine_length; lia. }
    destruct (nthz_some its (p_idx p)) as [[[o b0] xi] Hi]; [lia|].
    assert (Ek : nth_xinfo kx (p_idx p) = xi) by (unfold kx, nth_xinfo; rewrite nthz_map, Hi; reflexivity).
    rewrite Ek.
    apply (existsb_false_In (fun it : copt * bool * xinfo => i_sel (xc (snd it))) its (o, b0, xi) Hs). eapply nthz_In; eauto.
  Qed.

  Lemma xcursor_dx_eq pre : Forall (fun t => 1 <= cw t) pre ->
    zsum (map (fun t : Z * Z * size => if 0 <? fst (fst t) then dc + fst (fst t) else 0) pre) = xoff dc pre.
  Proof.
    unfold xoff. induction 1 as [|t l Ht _ IH]; [reflexivity|]. cbn [map zsum]. rewrite IH. unfold cw in *.
    assert (E : 0 <? fst (fst t) = true) by lia. rewrite E. lia.
  Qed.

  Lemma xcolumns_cursor_ok : XLocalCursor nx kx.
  Proof.
    intros s Hf Hok. unfold nx, xcolumns_node in Hf. cbn [n_fits] in Hf.
    destruct (xcolumns_fits_inv s Hf) as [Hfp [Hdc [Hlen [Hw _]]]].
    destruct (nthz_some (xcolumns_sizes its fp dc mw s) fp) as [[[w h] csz] Hn]; [lia|].
    destruct (nthz_split _ _ _ Hn) as [pre [post [E [Hl Hpre]]]].
    destruct (xcolumns_sizes_nth s _ _ _ _ Hf Hn) as [o [b [xi [Hi [Hk [Hw1 Hext]]]]]].
    pose proof Hw as Hw'. rewrite E in Hw'. apply Forall_app in Hw' as [Hpre' _].
    exists (Placed fp (xoff dc pre) 0 csz true false). split; [|split; [reflexivity|split]].
    - unfold nx, xcolumns_node. cbn [n_place]. rewrite E.
      pose proof (columns_place_from_in fp dc pre (w, h, csz) post 0 0 _ eq_refl Hpre') as G. cbn [snd] in G.
      replace (0 + zlen pre) with fp in G by lia. replace (0 + xoff dc pre) with (xoff dc pre) in G by lia.
      assert (Efp : fp =? fp = true) by lia. rewrite Efp in G. apply G. unfold cw. cbn [fst]. lia.
    - intros q Hq Hqf. unfold nx, xcolumns_node in Hq. cbn [n_place] in Hq.
      destruct (columns_place_from_inv fp dc _ 0 0 _ q eq_refl Hw Hq) as [pre2 [x2 [post2 [E2 ->]]]].
      cbn [p_isfocus] in Hqf. assert (zlen pre2 = zlen pre) by lia.
      rewrite E in E2. destruct (app_mid_eq pre pre2 (w, h, csz) x2 post post2 E2) as [<- [<- <-]].
      { unfold zlen in *. lia. }
      cbn [snd]. f_equal; lia.
    - cbn [p_idx p_size p_x p_y]. unfold nx, xcolumns_node. cbn [n_cursor]. unfold xcolumns_cursor.
      assert (Enn : forall (A : Type) (a c : A), match its with [] => a | _ :: _ => c end = c).
      { intros A a0 c0. clear - Hi. destruct its; [rewrite nthz_nil in Hi; discriminate|reflexivity]. }
      rewrite Enn. rewrite Hi. rewrite Hk.
      destruct (i_sel (xc xi)) eqn:Es; cbn [negb]; [|left; reflexivity].
      destruct (i_hascur (xc xi)) eqn:Eh; cbn [negb]; [|right; left; reflexivity].
      rewrite Hn. rewrite <- Hpre. rewrite (xcursor_dx_eq pre Hpre'). repeat split; reflexivity.
  Qed.
End XColumns.

(* ------------------------------------------------------------------------------------------ *)
(* leaves and trees without fixed parts                                                         *)
(* ------------------------------------------------------------------------------------------ *)
Lemma xleaf_good l : XGood (xleaf_view l, xleaf_info l) /\ MouseDeep (xleaf_view l) /\ CursorDeep (xleaf_view l).
Proof.
  unfold xleaf_view. destruct (0 <? lfw l) eqn:Efw.
  - split; [|split].
    + split; [reflexivity|]. split.
      { intros s H. cbn [fst v_fits] in H. apply andb_true_iff in H as [H _]. left; exact H. }
      split.
      { intros s f r Hf [<-|[]]. cbn [fst snd v_fits] in *. apply andb_true_iff in Hf as [Hf Hh].
        unfold xw, xh, xleaf_info. cbn [rc_x rc_y rc_cols rc_rows x_pack fst snd]. rewrite Hf. lia. }
      split; [intros s; reflexivity|]. split; [intros s f _ _; reflexivity|]. intros s f x y _ H; discriminate H.
    + intros s f1 f2 r col row _ [<-|[]] _ _. cbn [v_mouse rc_x rc_y rc_id rc_size]. exists f2. f_equal. f_equal; lia.
    + intros s _. reflexivity.
  - assert (Hfit : forall s, v_fits (View (v_info (leaf_view l)) (v_place (leaf_view l)) (v_rects (leaf_view l)) (v_rcursor (leaf_view l))
                          (v_cursor (leaf_view l)) (v_mouse (leaf_view l)) (v_move (leaf_view l))
                          (fun s => negb (is_fixed s) && v_fits (leaf_view l) s)) s = true ->
                        is_fixed s = false /\ v_fits (leaf_view l) s = true).
    { intros s H. cbn [v_fits] in H. apply andb_true_iff in H as [H1 H2]. split; [destruct (is_fixed s); [discriminate|reflexivity]|exact H2]. }
    split; [|split].
    + split; [reflexivity|]. split.
      { intros s H. destruct (Hfit s H) as [_ H2]. right. apply (leaf_fitspos l s H2). }
      split.
      { intros s f r H Hr. destruct (Hfit s H) as [E H2]. pose proof (leaf_rects_within l s f r H2 Hr) as R.
        unfold xw, xh, xleaf_info. cbn [fst snd xc]. rewrite E. exact R. }
      split; [apply leaf_nofocus|]. split.
      { intros s f H Hfl. destruct (Hfit s H) as [_ H2]. apply (leaf_flags l s f H2 Hfl). }
      intros s f x y H Hc. destruct (Hfit s H) as [E H2]. pose proof (leaf_inrows l s f x y H2 Hc) as R.
      unfold xh, xleaf_info. cbn [fst snd xc]. rewrite E. exact R.
    + intros s f1 f2 r col row H. destruct (Hfit s H) as [_ H2]. apply (leaf_mouse_deep l s f1 f2 r col row H2).
    + intros s H. destruct (Hfit s H) as [_ H2]. apply (leaf_cursor_deep l s H2).
Qed.

(* a tree without fixed parts: from the theorems about the view of Geometry.v *)
Lemma xsized_good w fl fx pk cc :
  XGood (view w, XInfo (v_info (view w)) fl fx pk cc) /\ MouseDeep (view w) /\ CursorDeep (view w).
Proof.
  destruct (view_good w) as [FP [RW [NF [FL IR]]]].
  split; [|split; [apply mouse_deep_all|apply cursor_deep_all]].
  split; [reflexivity|]. split; [intros s H; right; apply (FP s H)|]. split.
  - intros s f r H Hr. cbn [fst snd] in *. pose proof (RW s f r H Hr) as R.
    unfold xw, xh. cbn [xc]. rewrite (pos_not_fixed s (FP s H)). exact R.
  - split; [exact NF|]. split; [exact FL|].
    intros s f x y H Hc. cbn [fst snd] in *. pose proof (IR s f x y H Hc) as R.
    unfold xh. cbn [xc]. rewrite (pos_not_fixed s (FP s H)). exact R.
Qed.

(* ------------------------------------------------------------------------------------------ *)
(* the structural induction over the extended view                                              *)
(* ------------------------------------------------------------------------------------------ *)
Definition xkids (w : widget) : list kid :=
  match w with
  | Leaf _ => []
  | Pile items _ => map (fun it => xview (snd it)) items
  | Columns items _ _ _ => map (fun it => xview (snd it)) items
  | Padding c _ _ _ _ _ _ _ => [xview c]
  | Filler c _ _ _ _ _ _ _ => [xview c]
  | Frame body hdr ftr _ =>
      [xview body;
       match hdr with Some h => xview h | None => (dummy_view w, dummy_xinfo) end;
       match ftr with Some f => xview f | None => (dummy_view w, dummy_xinfo) end]
  | BoxAdapter c _ => [xview c]
  | AttrMap c => [xview c]
  | Overlay t b _ _ _ _ _ _ _ _ _ _ _ _ _ _ => [xview t; xview b]
  end.

Lemma xview_eq w :
  xview w =
  if sized_tree w then (view w, XInfo (v_info (view w)) (x_flow (snd (xview w))) (x_fixed (snd (xview w)))
                                     (x_pack (snd (xview w))) (x_ccols (snd (xview w))))
  else match w with
       | Leaf l => (xleaf_view l, xleaf_info l)
       | _ => let '(nd, xi) := xnode_of w (map snd (xkids w)) in (xinterp w nd (map fst (xkids w)), xi)
       end.
Proof.
  destruct w; cbn [xview xkids]; repeat match goal with |- context [let '(_, _) := ?x in _] => destruct x end;
    match goal with |- context [if ?b then _ else _] => destruct b end; reflexivity.
Qed.

Definition XAll (k : kid) : Prop := XGood k /\ MouseDeep (fst k) /\ CursorDeep (fst k).

Lemma xall_dummy d : XAll (dummy_view d, dummy_xinfo).
Proof. split; [apply xgood_dummy|]. split; [apply dummy_mouse_deep|apply dummy_cursor_deep]. Qed.

Lemma forall_xall kids : Forall XAll kids ->
  Forall XGood kids /\ Forall (fun k : kid => MouseDeep (fst k)) kids /\ Forall (fun k : kid => CursorDeep (fst k)) kids.
Proof.
  intro H. repeat split; eapply Forall_impl; try exact H; intros k Hk; apply Hk.
Qed.

(* assembling one node from the five local lemmas *)
Lemma xall_node d nd self kids :
  n_info nd = xc self -> Forall XAll kids ->
  XLocalWithin nd self (map snd kids) -> XLocalFlags nd (map snd kids) ->
  XLocalMouse nd (map snd kids) -> XLocalCursor nd (map snd kids) ->
  XAll (xinterp d nd (map fst kids), self).
Proof.
  intros Hs HK LW LF LM LC. destruct (forall_xall kids HK) as [HG [HM HD]].
  split; [apply x_good; assumption|]. split.
  - apply (x_mouse_deep d nd self kids HG LW LM HM).
  - apply (x_cursor_deep d nd kids HG LC HD).
Qed.

Lemma keeps_same_width nd :
  (forall s p, In p (n_place nd s) -> fst (p_size p) = fst s) -> KeepsKind (sized_only nd) nd.
Proof. intros H s p _ [Hc _] Hp _. unfold is_fixed. rewrite (H s p Hp). lia. Qed.

(* the sized-only classes: BoxAdapter, Filler, Frame *)
Lemma xall_sized_only d nd flow kids :
  Forall XAll kids -> (forall s p, In p (n_place nd s) -> fst (p_size p) = fst s) ->
  LocalWithin nd (map xc (map snd kids)) -> LocalFlags nd (map xc (map snd kids)) ->
  LocalMouse nd (map xc (map snd kids)) -> LocalCursor nd (map xc (map snd kids)) ->
  XAll (xinterp d (sized_only nd) (map fst kids), sized_xinfo (n_info (sized_only nd)) flow).
Proof.
  intros HK Hw LW LF LM LC. pose proof (keeps_same_width nd Hw) as KK.
  apply xall_node; [reflexivity|exact HK| | | | ].
  - apply (so_within nd flow _ KK LW).
  - apply (flags_any nd _ LF).
  - apply (so_mouse nd flow _ KK LM).
  - apply (so_cursor nd flow _ KK LC).
Qed.

Lemma xkids_len_pile (items : list (popt * widget)) :
  length (map fst items) = length (map snd (map (fun it : popt * widget => xview (snd it)) items)).
Proof. rewrite !map_length. reflexivity. Qed.
Lemma xkids_len_cols (items : list (copt * bool * widget)) :
  length (map fst items) = length (map snd (map (fun it : copt * bool * widget => xview (snd it)) items)).
Proof. rewrite !map_length. reflexivity. Qed.

Theorem xall_all : forall w, XAll (xview w).
Proof.
  induction w using widget_ind2; rewrite xview_eq;
    match goal with |- context [if sized_tree ?t then _ else _] => destruct (sized_tree t) end;
    try apply xsized_good.
  - (* leaf *) apply xleaf_good.
  - (* Pile *)
    cbn [xkids xnode_of].
    set (kids := map (fun it : popt * widget => xview (snd it)) items).
    set (its := combine (map fst items) (map snd kids)).
    assert (Eki : map snd its = map snd kids) by (apply map_snd_combine; apply xkids_len_pile).
    apply xall_node.
    + symmetry. apply xself_xc.
    + unfold kids. apply Forall_map. exact H.
    + rewrite <- Eki. apply xpile_within.
    + rewrite <- Eki. apply (xpile_flags its fp).
    + rewrite <- Eki. apply (xpile_mouse its fp (map x_ccols (map snd kids))).
    + rewrite <- Eki. apply (xpile_cursor_ok its fp (map x_ccols (map snd kids))).
  - (* Columns *)
    cbn [xkids xnode_of].
    set (kids := map (fun it : copt * bool * widget => xview (snd it)) items).
    set (its := combine (map fst items) (map snd kids)).
    assert (Eki : map snd its = map snd kids) by (apply map_snd_combine; apply xkids_len_cols).
    apply xall_node.
    + symmetry. apply xcself_xc.
    + unfold kids. apply Forall_map. exact H.
    + rewrite <- Eki. apply xcolumns_within.
    + rewrite <- Eki. apply xcolumns_flags.
    + rewrite <- Eki. apply xcolumns_mouse.
    + rewrite <- Eki. apply xcolumns_cursor_ok.
  - (* Padding *)
    cbn [xkids xnode_of]. apply (xall_node _ _ _ [xview w]).
    + reflexivity.
    + fa. exact IHw.
    + apply xpadding_within.
    + apply xpadding_flags.
    + apply xpadding_mouse.
    + apply xpadding_cursor.
  - (* Filler *)
    cbn [xkids xnode_of]. apply (xall_sized_only _ _ _ [xview w]).
    + fa. exact IHw.
    + intros s p Hp. cbn [node_of n_place] in Hp. unfold filler_place in Hp.
      destruct (filler_values _ _ s) as [t bt]. one_placed Hp. unfold filler_csize.
      destruct (filler_values _ _ s). destruct (is_pack _); reflexivity.
    + apply filler_within.
    + apply filler_flags.
    + apply filler_mouse.
    + apply filler_cursor_ok.
  - (* Frame *)
    cbn [xkids xnode_of].
    match goal with |- XAll (xinterp _ _ (map fst ?k), _) => apply (xall_sized_only _ _ _ k) end.
    + fa; [exact IHw| |].
      * destruct hdr; [apply H; reflexivity|apply xall_dummy].
      * destruct ftr; [apply H0; reflexivity|apply xall_dummy].
    + intros s p Hp. rewrite frame_node_eq in Hp. cbn [n_place] in Hp. unfold frame_place in Hp.
      destruct (snd s); [|contradiction]. destruct (frame_top_bottom _ _ _ _ _) as [[ht ft] _].
      repeat (apply in_app_or in Hp as [Hp|Hp]);
        repeat match type of Hp with In _ (if ?c then _ else _) => destruct c end;
        try contradiction; one_placed Hp; reflexivity.
    + rewrite frame_node_eq. apply frame_within.
    + rewrite frame_node_eq. apply frame_flags.
    + rewrite frame_node_eq. apply frame_mouse.
    + rewrite frame_node_eq. apply frame_cursor_ok.
  - (* BoxAdapter *)
    cbn [xkids xnode_of]. apply (xall_sized_only _ _ _ [xview w]).
    + fa. exact IHw.
    + intros s p Hp. cbn [node_of n_place] in Hp. unfold boxadapter_place in Hp.
      destruct (snd s); [contradiction|]. one_placed Hp. reflexivity.
    + apply boxadapter_within.
    + apply boxadapter_flags.
    + apply boxadapter_mouse.
    + apply boxadapter_cursor_ok.
  - (* AttrMap *)
    cbn [xkids xnode_of]. apply (xall_node _ _ _ [xview w]).
    + reflexivity.
    + fa. exact IHw.
    + apply (xattrmap_within [snd (xview w)]).
    + apply (xattrmap_flags [snd (xview w)]).
    + apply (xattrmap_mouse [snd (xview w)]).
    + apply (xattrmap_cursor [snd (xview w)]).
  - (* Overlay *)
    cbn [xkids xnode_of]. apply (xall_node _ _ _ [xview w1; xview w2]).
    + reflexivity.
    + fa; assumption.
    + apply xoverlay_within.
    + apply xoverlay_flags.
    + apply xoverlay_mouse.
    + apply xoverlay_cursor.
Qed.

(* ------------------------------------------------------------------------------------------ *)
(* one level: a widget with fixed parts and its direct children                                  *)
(* ------------------------------------------------------------------------------------------ *)
Definition xnodeof (w : widget) : node := fst (xnode_of w (map snd (xkids w))).
Definition xselfof (w : widget) : xinfo := snd (xnode_of w (map snd (xkids w))).
Definition xkid_info (w : widget) (i : Z) : xinfo := nth_xinfo (map snd (xkids w)) i.

Lemma xkids_all w : Forall XAll (xkids w).
Proof.
  destruct w; cbn [xkids]; try (apply Forall_map; apply Forall_forall; intros; apply xall_all); fa; try apply xall_all.
  - destruct header; [apply xall_all|apply xall_dummy].
  - destruct footer; [apply xall_all|apply xall_dummy].
Qed.

Lemma xnode_mouse_move w : XLocalMouse (xnodeof w) (map snd (xkids w)) /\ XLocalMove (xnodeof w) (map snd (xkids w)).
Proof.
  destruct w; unfold xnodeof; cbn [xkids xnode_of fst].
  - split; [intros s p col row focus _ _ Hp; contradiction|intros s p col row _ _ Hp; contradiction].
  - set (kids := map (fun it : popt * widget => xview (snd it)) items).
    rewrite <- (map_snd_combine (map fst items) (map snd kids) (xkids_len_pile items)) at 2 4.
    split; [apply (xpile_mouse _ fp (map x_ccols (map snd kids)))|apply (xpile_move_ok _ fp (map x_ccols (map snd kids)))].
  - set (kids := map (fun it : copt * bool * widget => xview (snd it)) items).
    rewrite <- (map_snd_combine (map fst items) (map snd kids) (xkids_len_cols items)) at 2 4.
    split; [apply xcolumns_mouse|apply xcolumns_move_ok].
  - split; [apply xpadding_mouse|apply xpadding_move].
  - pose proof (keeps_same_width (node_of (Filler w vt vamt ht hamt minh top bottom) (map xc [snd (xview w)]))) as KK.
    assert (Hw : forall s p, In p (n_place (node_of (Filler w vt vamt ht hamt minh top bottom) (map xc [snd (xview w)])) s) -> fst (p_size p) = fst s).
    { intros s p Hp. cbn [node_of n_place] in Hp. unfold filler_place in Hp.
      destruct (filler_values _ _ s) as [t bt]. one_placed Hp. unfold filler_csize.
      destruct (filler_values _ _ s). destruct (is_pack _); reflexivity. }
    split; [apply (so_mouse _ true _ (KK Hw)); apply filler_mouse|apply (so_move _ true _ (KK Hw)); apply filler_move_ok].
  - split; [|intros s p col row _ _ _ _ _ _ Hm; rewrite frame_node_eq in Hm; discriminate Hm].
    apply (so_mouse _ false).
    + apply keeps_same_width. intros s p Hp. rewrite frame_node_eq in Hp. cbn [n_place] in Hp. unfold frame_place in Hp.
      destruct (snd s); [|contradiction]. destruct (frame_top_bottom _ _ _ _ _) as [[ht ft] _].
      repeat (apply in_app_or in Hp as [Hp|Hp]);
        repeat match type of Hp with In _ (if ?c then _ else _) => destruct c end;
        try contradiction; one_placed Hp; reflexivity.
    + rewrite frame_node_eq. apply frame_mouse.
  - assert (KK : KeepsKind (sized_only (node_of (BoxAdapter w h) (map xc [snd (xview w)]))) (node_of (BoxAdapter w h) (map xc [snd (xview w)]))).
    { apply keeps_same_width. intros s p Hp. cbn [node_of n_place] in Hp. unfold boxadapter_place in Hp.
      destruct (snd s); [contradiction|]. one_placed Hp. reflexivity. }
    split; [apply (so_mouse _ true _ KK); apply boxadapter_mouse|apply (so_move _ true _ KK); apply boxadapter_move_ok].
  - split; [apply (xattrmap_mouse [snd (xview w)])|apply (xattrmap_move [snd (xview w)])].
  - split; [apply xoverlay_mouse|apply xoverlay_move].
Qed.

Lemma xview_unsized w :
  sized_tree w = false ->
  match w with
  | Leaf _ => True
  | _ => fst (xview w) = xinterp w (xnodeof w) (map fst (xkids w)) /\ snd (xview w) = xselfof w
  end.
Proof.
  intro H. rewrite xview_eq, H. destruct w; [exact I|..]; unfold xnodeof, xselfof;
    destruct (xnode_of _ _); split; reflexivity.
Qed.

Lemma xkid_size_ok w s :
  match w with Leaf _ => False | _ => True end ->
  v_fits (xinterp w (xnodeof w) (map fst (xkids w))) s = true ->
  xsize_ok s /\ n_fits (xnodeof w) s = true /\
  forall p, In p (n_place (xnodeof w) s) -> xsize_ok (p_size p).
Proof.
  intros _ Hf. destruct (xinterp_fits_inv _ _ _ _ Hf) as [Hok [Hn Hk]].
  split; [exact Hok|]. split; [exact Hn|]. intros p Hp. specialize (Hk p Hp).
  pose proof (nth_kid_prop XAll w (xkids w) (p_idx p) (xkids_all w) (xall_dummy w)) as [[_ [F _]] _].
  apply (F _ Hk).
Qed.

Theorem xmouse_route_hits_child : forall w s p col row focus,
  sized_tree w = false ->
  v_fits (fst (xview w)) s = true -> In p (v_place (fst (xview w)) s) -> p_bg p = false ->
  in_rect (p_x p) (p_y p) (xw (xkid_info w (p_idx p)) (p_size p)) (xh (xkid_info w (p_idx p)) (p_size p)) col row ->
  exists f, n_route (xnodeof w) s col row focus = Some (Routed (p_idx p) (p_size p) (col - p_x p) (row - p_y p) f).
Proof.
  intros w s p col row focus Hs Hf Hp Hbg Hin. pose proof (xview_unsized w Hs) as E.
  assert (L : match w with Leaf _ => False | _ => True end).
  { destruct w; try exact I. rewrite xview_eq, Hs in Hp. unfold xleaf_view in Hp. destruct (0 <? lfw l); contradiction. }
  assert (E1 : fst (xview w) = xinterp w (xnodeof w) (map fst (xkids w))) by (destruct w; [contradiction|..]; apply E).
  rewrite E1 in Hf, Hp. destruct (xkid_size_ok w s L Hf) as [Hok [Hn Hk]].
  unfold xinterp in Hp. cbn [interp v_place] in Hp.
  destruct (xnode_mouse_move w) as [LM _].
  apply (LM s p col row focus Hn Hok Hp Hbg (Hk p Hp) Hin).
Qed.

Theorem xmove_iff_child : forall w s p col row,
  sized_tree w = false ->
  v_fits (fst (xview w)) s = true -> In p (v_place (fst (xview w)) s) -> p_bg p = false ->
  in_rect (p_x p) (p_y p) (xw (xkid_info w (p_idx p)) (p_size p)) (xh (xkid_info w (p_idx p)) (p_size p)) col row ->
  i_hasmove (v_info (fst (xview w))) = true ->
  i_sel (xc (xkid_info w (p_idx p))) = true -> i_hasmove (xc (xkid_info w (p_idx p))) = true ->
  m_ok (v_move (fst (xview w)) s col row)
  = m_ok (v_move (nth_view w (map fst (xkids w)) (p_idx p)) (p_size p) (col - p_x p) (row - p_y p)) /\
  m_asked (v_move (fst (xview w)) s col row)
  = m_asked (v_move (nth_view w (map fst (xkids w)) (p_idx p)) (p_size p) (col - p_x p) (row - p_y p)).
Proof.
  intros w s p col row Hs Hf Hp Hbg Hin Hm Hsel Hcm. pose proof (xview_unsized w Hs) as E.
  assert (L : match w with Leaf _ => False | _ => True end).
  { destruct w; try exact I. rewrite xview_eq, Hs in Hp. unfold xleaf_view in Hp. destruct (0 <? lfw l); contradiction. }
  assert (E1 : fst (xview w) = xinterp w (xnodeof w) (map fst (xkids w))) by (destruct w; [contradiction|..]; apply E).
  rewrite E1 in *. destruct (xkid_size_ok w s L Hf) as [Hok [Hn Hk]].
  unfold xinterp in *. cbn [interp v_place v_move v_info] in *.
  destruct (xnode_mouse_move w) as [_ LM].
  destruct (LM s p col row Hn Hok Hp Hbg (Hk p Hp) Hin Hm Hsel Hcm) as [nf Em].
  unfold interp_move. rewrite Em. destruct (m_ok (v_move _ _ _ _)); split; reflexivity.
Qed.

Theorem xmouse_route_unique : forall w s p q col row,
  sized_tree w = false ->
  v_fits (fst (xview w)) s = true ->
  In p (v_place (fst (xview w)) s) -> p_bg p = false -> In q (v_place (fst (xview w)) s) -> p_bg q = false ->
  in_rect (p_x p) (p_y p) (xw (xkid_info w (p_idx p)) (p_size p)) (xh (xkid_info w (p_idx p)) (p_size p)) col row ->
  in_rect (p_x q) (p_y q) (xw (xkid_info w (p_idx q)) (p_size q)) (xh (xkid_info w (p_idx q)) (p_size q)) col row ->
  p_idx p = p_idx q /\ p_size p = p_size q /\ p_x p = p_x q /\ p_y p = p_y q.
Proof.
  intros w s p q col row Hs Hf Hp Hpb Hq Hqb Hip Hiq.
  destruct (xmouse_route_hits_child w s p col row true Hs Hf Hp Hpb Hip) as [f1 E1].
  destruct (xmouse_route_hits_child w s q col row true Hs Hf Hq Hqb Hiq) as [f2 E2].
  rewrite E1 in E2. inversion E2. repeat split; auto; lia.
Qed.

(* the whole-tree statements, read off xall_all *)
Theorem xcursor_agree : forall w s,
  v_fits (fst (xview w)) s = true ->
  v_cursor (fst (xview w)) s = of_oxy (v_rcursor (fst (xview w)) s true).
Proof.
  intros w s Hf. destruct (xall_all w) as [_ [_ CD]]. exact (CD s Hf).
Qed.

Theorem xmouse_reaches_drawn_leaf : forall w s f1 f2 r col row,
  v_fits (fst (xview w)) s = true ->
  In r (v_rects (fst (xview w)) s f1) -> rc_bg r = false ->
  in_rect (rc_x r) (rc_y r) (rc_cols r) (rc_rows r) col row ->
  exists f, v_mouse (fst (xview w)) s col row f2 = Some (Hit (rc_id r) (col - rc_x r) (row - rc_y r) f (rc_size r)).
Proof.
  intros w s f1 f2 r col row Hf. destruct (xall_all w) as [_ [MD _]]. exact (MD s f1 f2 r col row Hf).
Qed.

Theorem xleaf_rects_inside : forall w s f r,
  v_fits (fst (xview w)) s = true -> In r (v_rects (fst (xview w)) s f) ->
  0 <= rc_x r /\ rc_x r + rc_cols r <= xw (snd (xview w)) s /\ 0 <= rc_y r /\ rc_y r + rc_rows r <= xh (snd (xview w)) s.
Proof.
  intros w s f r Hf Hr. destruct (xall_all w) as [[_ [_ [RW _]]] _]. exact (RW s f r Hf Hr).
Qed.

Theorem xfits_size_ok : forall w s, v_fits (fst (xview w)) s = true -> xsize_ok s.
Proof. intros w s Hf. destruct (xall_all w) as [[_ [F _]] _]. exact (F s Hf). Qed.
