(* C17 part 4a: the SGR parameters produced by _attrspec_to_escape, read back by a terminal. *)
From Coq Require Import ZArith List Bool Lia ZifyBool.
Import ListNotations.
From Urwid Require Import PyBase PyList AttrFlow.
Open Scope Z_scope.

Arguments Z.add : simpl never.
Arguments Z.sub : simpl never.
Arguments Z.mul : simpl never.
Arguments Z.div : simpl never.
Arguments Z.modulo : simpl never.
Arguments Z.ltb : simpl never.
Arguments Z.leb : simpl never.
Arguments Z.eqb : simpl never.

(* which AttrSpec values the constructor can produce (colour numbers in range for their kind) *)
Definition valid_spec (a : aspec) : Prop :=
  (fg_true a = true -> 0 <= fg_num a < 16777216) /\
  (fg_true a = false -> fg_high a = true -> 0 <= fg_num a <= 255) /\
  (fg_true a = false -> fg_high a = false -> fg_basic a = true -> 0 <= fg_num a <= 15) /\
  (bg_true a = true -> 0 <= bg_num a < 16777216) /\
  (bg_true a = false -> bg_high a = true -> 0 <= bg_num a <= 255) /\
  (bg_true a = false -> bg_high a = false -> bg_basic a = true -> 0 <= bg_num a <= 15).

(* what the palette entry specifies, in the terminal's terms.  On a bright-is-bold terminal a
   bright basic foreground (8-15) is the pair "bold + colour-8"; on a bright-is-blink
   terminal a bright basic background is "blink + colour-8". *)
Definition fg_is_bright_basic (a : aspec) : bool :=
  negb (fg_true a) && negb (fg_high a) && fg_basic a && (7 <? fg_num a).
Definition bg_is_bright_basic (a : aspec) : bool :=
  negb (bg_true a) && negb (bg_high a) && bg_basic a && (7 <? bg_num a).

Definition spec_colour (is_true is_high is_basic : bool) (n : Z) (via_flag : bool) : colour :=
  if is_true then CRgb (n / 65536) ((n / 256) mod 256) (n mod 256)
  else if is_high then CIdx n
  else if is_basic then (if (7 <? n) && via_flag then CIdx (n - 8) else CIdx n)
  else CDefault.

Definition visual (bib bbb : bool) (a : aspec) : tstate :=
  TS (spec_colour (fg_true a) (fg_high a) (fg_basic a) (fg_num a) bib)
     (spec_colour (bg_true a) (bg_high a) (bg_basic a) (bg_num a) bbb)
     (a_bold a || (bib && fg_is_bright_basic a))
     (a_italics a) (a_underline a)
     (a_blink a || (bbb && bg_is_bright_basic a))
     (a_standout a) (a_strike a).

(* ---- decoder steps ---- *)
Lemma decode_simple s p rest : p <> 38 -> p <> 48 ->
  decode_from s (p :: rest) = decode_from (sgr_simple s p) rest.
Proof.
  intros H1 H2. cbn [decode_from].
  destruct (p =? 38) eqn:E1; [lia|]. destruct (p =? 48) eqn:E2; [lia|]. reflexivity.
Qed.

Lemma decode_fg_idx s n rest : 0 <= n <= 255 ->
  decode_from s (38 :: 5 :: n :: rest) = decode_from (set_fg s (CIdx n)) rest.
Proof.
  intro H. cbn [decode_from]. change (38 =? 38) with true. cbn [orb]. change (5 =? 5) with true. cbv iota.
  unfold byte_ok. destruct (0 <=? n) eqn:E1; [|lia]. destruct (n <=? 255) eqn:E2; [|lia]. reflexivity.
Qed.

Lemma decode_bg_idx s n rest : 0 <= n <= 255 ->
  decode_from s (48 :: 5 :: n :: rest) = decode_from (set_bg s (CIdx n)) rest.
Proof.
  intro H. cbn [decode_from]. change (48 =? 38) with false. change (48 =? 48) with true. cbn [orb].
  change (5 =? 5) with true. cbv iota.
  unfold byte_ok. destruct (0 <=? n) eqn:E1; [|lia]. destruct (n <=? 255) eqn:E2; [|lia]. reflexivity.
Qed.

Lemma byte_ok_true v : 0 <= v <= 255 -> byte_ok v = true.
Proof. unfold byte_ok. lia. Qed.

Lemma decode_fg_rgb s r g b rest : 0 <= r <= 255 -> 0 <= g <= 255 -> 0 <= b <= 255 ->
  decode_from s (38 :: 2 :: r :: g :: b :: rest) = decode_from (set_fg s (CRgb r g b)) rest.
Proof.
  intros Hr Hg Hb. cbn [decode_from]. change (38 =? 38) with true. cbn [orb].
  change (2 =? 5) with false. change (2 =? 2) with true. cbv iota.
  now rewrite !byte_ok_true by assumption.
Qed.

Lemma decode_bg_rgb s r g b rest : 0 <= r <= 255 -> 0 <= g <= 255 -> 0 <= b <= 255 ->
  decode_from s (48 :: 2 :: r :: g :: b :: rest) = decode_from (set_bg s (CRgb r g b)) rest.
Proof.
  intros Hr Hg Hb. cbn [decode_from]. change (48 =? 38) with false. change (48 =? 48) with true. cbn [orb].
  change (2 =? 5) with false. change (2 =? 2) with true. cbv iota.
  now rewrite !byte_ok_true by assumption.
Qed.

Lemma rgb_range n : 0 <= n < 16777216 ->
  0 <= n / 65536 <= 255 /\ 0 <= (n / 256) mod 256 <= 255 /\ 0 <= n mod 256 <= 255.
Proof.
  intro H. split; [|split].
  - split; [apply Z.div_pos; lia|]. assert (n / 65536 < 256) by (apply Z.div_lt_upper_bound; lia). lia.
  - pose proof (Z.mod_pos_bound (n / 256) 256). lia.
  - pose proof (Z.mod_pos_bound n 256). lia.
Qed.

(* the three components are the number again *)
Lemma rgb_number n : 0 <= n < 16777216 ->
  (n / 65536) * 65536 + ((n / 256) mod 256) * 256 + n mod 256 = n.
Proof.
  intro H.
  pose proof (Z.div_mod n 256 ltac:(lia)) as E1.
  pose proof (Z.div_mod (n / 256) 256 ltac:(lia)) as E2.
  assert (E3 : n / 256 / 256 = n / 65536) by (rewrite Z.div_div by lia; reflexivity).
  lia.
Qed.

Ltac eqb_false :=
  repeat match goal with
         | |- context [?x =? ?y] =>
             let E := fresh "E" in destruct (x =? y) eqn:E; [exfalso; lia|]; clear E
         end.

Lemma simple_fg_low s n : 0 <= n <= 7 -> sgr_simple s (n + 30) = set_fg s (CIdx n).
Proof.
  intro H. unfold sgr_simple. eqb_false. cbn [orb].
  destruct ((30 <=? n + 30) && (n + 30 <=? 37)) eqn:E; [|lia].
  f_equal. f_equal. lia.
Qed.

Lemma simple_bg_low s n : 0 <= n <= 7 -> sgr_simple s (n + 40) = set_bg s (CIdx n).
Proof.
  intro H. unfold sgr_simple. eqb_false. cbn [orb].
  destruct ((30 <=? n + 40) && (n + 40 <=? 37)) eqn:E0; [lia|].
  destruct ((40 <=? n + 40) && (n + 40 <=? 47)) eqn:E; [|lia].
  f_equal. f_equal. lia.
Qed.

Lemma simple_fg_bright s n : 8 <= n <= 15 -> sgr_simple s (n - 8 + 90) = set_fg s (CIdx n).
Proof.
  intro H. unfold sgr_simple. eqb_false. cbn [orb].
  destruct ((30 <=? n - 8 + 90) && (n - 8 + 90 <=? 37)) eqn:E0; [lia|].
  destruct ((40 <=? n - 8 + 90) && (n - 8 + 90 <=? 47)) eqn:E1; [lia|].
  destruct ((90 <=? n - 8 + 90) && (n - 8 + 90 <=? 97)) eqn:E; [|lia].
  f_equal. f_equal. lia.
Qed.

Lemma simple_bg_bright s n : 8 <= n <= 15 -> sgr_simple s (n - 8 + 100) = set_bg s (CIdx n).
Proof.
  intro H. unfold sgr_simple. eqb_false. cbn [orb].
  destruct ((30 <=? n - 8 + 100) && (n - 8 + 100 <=? 37)) eqn:E0; [lia|].
  destruct ((40 <=? n - 8 + 100) && (n - 8 + 100 <=? 47)) eqn:E1; [lia|].
  destruct ((90 <=? n - 8 + 100) && (n - 8 + 100 <=? 97)) eqn:E2; [lia|].
  destruct ((100 <=? n - 8 + 100) && (n - 8 + 100 <=? 107)) eqn:E; [|lia].
  f_equal. f_equal. lia.
Qed.

Lemma simple_fg_low8 s n : 8 <= n <= 15 -> sgr_simple s (n - 8 + 30) = set_fg s (CIdx (n - 8)).
Proof. intro H. replace (n - 8 + 30) with ((n - 8) + 30) by lia. apply simple_fg_low. lia. Qed.

Lemma simple_bg_low8 s n : 8 <= n <= 15 -> sgr_simple s (n - 8 + 40) = set_bg s (CIdx (n - 8)).
Proof. intro H. replace (n - 8 + 40) with ((n - 8) + 40) by lia. apply simple_bg_low. lia. Qed.

Definition set_bold (s : tstate) : tstate :=
  TS (t_fg s) (t_bg s) true (t_italic s) (t_underline s) (t_blink s) (t_reverse s) (t_strike s).
Definition set_blink (s : tstate) : tstate :=
  TS (t_fg s) (t_bg s) (t_bold s) (t_italic s) (t_underline s) true (t_reverse s) (t_strike s).

(* ---- the three blocks of the escape sequence ---- *)
Definition fg_part (bib : bool) (a : aspec) : list Z :=
  if fg_true a then 38 :: 2 :: rgb_of (fg_num a)
  else if fg_high a then [38; 5; fg_num a]
  else if fg_basic a then
    (if 7 <? fg_num a then (if bib then [1; fg_num a - 8 + 30] else [fg_num a - 8 + 90])
     else [fg_num a + 30])
  else [39].
Definition st_part (a : aspec) : list Z :=
  flag (a_bold a) 1 ++ flag (a_italics a) 3 ++ flag (a_underline a) 4
  ++ flag (a_blink a) 5 ++ flag (a_standout a) 7 ++ flag (a_strike a) 9.
Definition bg_part (bbb : bool) (a : aspec) : list Z :=
  if bg_true a then 48 :: 2 :: rgb_of (bg_num a)
  else if bg_high a then [48; 5; bg_num a]
  else if bg_basic a then
    (if 7 <? bg_num a then (if bbb then [5; bg_num a - 8 + 40] else [bg_num a - 8 + 100])
     else [bg_num a + 40])
  else [49].

Lemma escape_parts bib bbb a : attrspec_to_escape bib bbb a = 0 :: fg_part bib a ++ st_part a ++ bg_part bbb a.
Proof. reflexivity. Qed.

Definition fg_effect (bib : bool) (a : aspec) (s : tstate) : tstate :=
  let s1 := if bib && fg_is_bright_basic a then set_bold s else s in
  set_fg s1 (spec_colour (fg_true a) (fg_high a) (fg_basic a) (fg_num a) bib).

Lemma decode_fg_part bib a s rest : valid_spec a ->
  decode_from s (fg_part bib a ++ rest) = decode_from (fg_effect bib a s) rest.
Proof.
  intros (V1 & V2 & V3 & _). unfold fg_part, fg_effect, fg_is_bright_basic, spec_colour.
  destruct (fg_true a) eqn:Et.
  - specialize (V1 eq_refl). destruct (rgb_range _ V1) as (R & G & B).
    cbn [negb andb]. rewrite andb_false_r. unfold rgb_of. cbn [app].
    now rewrite decode_fg_rgb by assumption.
  - destruct (fg_high a) eqn:Eh.
    + specialize (V2 eq_refl eq_refl). cbn [negb andb]. rewrite andb_false_r. cbn [app].
      now rewrite decode_fg_idx by assumption.
    + destruct (fg_basic a) eqn:Eb.
      * specialize (V3 eq_refl eq_refl eq_refl). cbn [negb andb].
        destruct (7 <? fg_num a) eqn:E7.
        -- destruct bib; cbn [andb app].
           ++ rewrite decode_simple by lia. rewrite decode_simple by lia.
              rewrite simple_fg_low8 by lia. reflexivity.
           ++ rewrite decode_simple by lia. rewrite simple_fg_bright by lia. reflexivity.
        -- rewrite andb_false_r. cbn [andb app]. rewrite decode_simple by lia.
           rewrite simple_fg_low by lia. reflexivity.
      * cbn [negb andb]. rewrite andb_false_r. cbn [app]. rewrite decode_simple by lia. reflexivity.
Qed.

Definition bg_effect (bbb : bool) (a : aspec) (s : tstate) : tstate :=
  let s1 := if bbb && bg_is_bright_basic a then set_blink s else s in
  set_bg s1 (spec_colour (bg_true a) (bg_high a) (bg_basic a) (bg_num a) bbb).

Lemma decode_bg_part bbb a s : valid_spec a ->
  decode_from s (bg_part bbb a) = bg_effect bbb a s.
Proof.
  intros (_ & _ & _ & V1 & V2 & V3). unfold bg_part, bg_effect, bg_is_bright_basic, spec_colour.
  destruct (bg_true a) eqn:Et.
  - specialize (V1 eq_refl). destruct (rgb_range _ V1) as (R & G & B).
    cbn [negb andb]. rewrite andb_false_r. unfold rgb_of.
    now rewrite decode_bg_rgb by assumption.
  - destruct (bg_high a) eqn:Eh.
    + specialize (V2 eq_refl eq_refl). cbn [negb andb]. rewrite andb_false_r.
      now rewrite decode_bg_idx by assumption.
    + destruct (bg_basic a) eqn:Eb.
      * specialize (V3 eq_refl eq_refl eq_refl). cbn [negb andb].
        destruct (7 <? bg_num a) eqn:E7.
        -- destruct bbb; cbn [andb].
           ++ rewrite decode_simple by lia. rewrite decode_simple by lia.
              rewrite simple_bg_low8 by lia. reflexivity.
           ++ rewrite decode_simple by lia. rewrite simple_bg_bright by lia. reflexivity.
        -- rewrite andb_false_r. cbn [andb]. rewrite decode_simple by lia.
           rewrite simple_bg_low by lia. reflexivity.
      * cbn [negb andb]. rewrite andb_false_r. rewrite decode_simple by lia. reflexivity.
Qed.

Definition st_effect (a : aspec) (s : tstate) : tstate :=
  TS (t_fg s) (t_bg s) (t_bold s || a_bold a) (t_italic s || a_italics a) (t_underline s || a_underline a)
     (t_blink s || a_blink a) (t_reverse s || a_standout a) (t_strike s || a_strike a).

Lemma decode_st_part a s rest : (forall p, In p rest -> True) ->
  decode_from s (st_part a ++ rest) = decode_from (st_effect a s) rest.
Proof.
  intros _. unfold st_part, st_effect, flag.
  destruct s as [f b bo it un bl rv sk]. cbn [t_fg t_bg t_bold t_italic t_underline t_blink t_reverse t_strike].
  destruct (a_bold a), (a_italics a), (a_underline a), (a_blink a), (a_standout a), (a_strike a);
    cbn [app]; repeat (rewrite decode_simple by lia); cbn;
    rewrite ?orb_true_r, ?orb_false_r; reflexivity.
Qed.

(* the round trip *)
Lemma sgr_roundtrip_lemma bib bbb a : valid_spec a ->
  decode_sgr (attrspec_to_escape bib bbb a) = visual bib bbb a.
Proof.
  intro V. unfold decode_sgr. rewrite escape_parts.
  rewrite decode_simple by lia. change (sgr_simple t_reset 0) with t_reset.
  rewrite decode_fg_part by assumption.
  rewrite decode_st_part by auto.
  rewrite decode_bg_part by assumption.
  unfold visual, bg_effect, st_effect, fg_effect, set_fg, set_bg, set_bold, set_blink, t_reset.
  destruct (bib && fg_is_bright_basic a), (bbb && bg_is_bright_basic a);
    cbn [t_fg t_bg t_bold t_italic t_underline t_blink t_reverse t_strike orb];
    rewrite ?orb_true_r, ?orb_false_r; reflexivity.
Qed.

(* with neither terminal quirk the terminal state is exactly what the entry says *)
Definition exact_state (a : aspec) : tstate :=
  TS (spec_colour (fg_true a) (fg_high a) (fg_basic a) (fg_num a) false)
     (spec_colour (bg_true a) (bg_high a) (bg_basic a) (bg_num a) false)
     (a_bold a) (a_italics a) (a_underline a) (a_blink a) (a_standout a) (a_strike a).

Lemma visual_plain a : visual false false a = exact_state a.
Proof. unfold visual, exact_state. cbn [andb]. now rewrite !orb_false_r. Qed.

(* what a bright-is-bold / bright-is-blink terminal shows for a pen *)
Definition perceived_colour (c : colour) (flag_on quirk : bool) : colour :=
  match c with
  | CIdx n => if quirk && flag_on && (0 <=? n) && (n <? 8) then CIdx (n + 8) else CIdx n
  | _ => c
  end.

Lemma spec_colour_plain_basic n : 0 <= n <= 15 -> spec_colour false false true n false = CIdx n.
Proof. intro H. unfold spec_colour. now rewrite andb_false_r. Qed.

(* the colour seen equals the colour specified, except for the combination the terminal
   itself cannot tell apart: bold + dark basic colour on a bright-is-bold terminal *)
Lemma perceived_fg_lemma bib bbb a : valid_spec a ->
  (bib && a_bold a && negb (fg_true a) && (fg_high a || fg_basic a) && (fg_num a <? 8) = false) ->
  perceived_colour (t_fg (visual bib bbb a)) (t_bold (visual bib bbb a)) bib = t_fg (exact_state a).
Proof.
  intros (V1 & V2 & V3 & _) Hamb.
  unfold visual, exact_state, perceived_colour, spec_colour, fg_is_bright_basic.
  cbn [t_fg t_bold].
  destruct (fg_true a) eqn:Et; [reflexivity|].
  destruct (fg_high a) eqn:Eh.
  - specialize (V2 eq_refl eq_refl). cbn [negb andb orb] in *.
    rewrite ?andb_false_r, ?orb_false_r in *.
    destruct bib; cbn [andb] in *; [|reflexivity].
    destruct (a_bold a); cbn [andb] in *; [|reflexivity].
    destruct (fg_num a <? 8) eqn:E8; [discriminate|]. now rewrite andb_false_r.
  - destruct (fg_basic a) eqn:Eb; [|reflexivity].
    specialize (V3 eq_refl eq_refl eq_refl). cbn [negb andb orb] in *.
    destruct (7 <? fg_num a) eqn:E7; destruct bib; cbn [andb orb] in *.
    + rewrite orb_true_r. cbn [andb].
      destruct (0 <=? fg_num a - 8) eqn:E0; [|lia]. destruct (fg_num a - 8 <? 8) eqn:E8; [|lia].
      cbn [andb]. f_equal. lia.
    + reflexivity.
    + rewrite orb_false_r. destruct (a_bold a); cbn [andb] in *; [|reflexivity].
      destruct (fg_num a <? 8) eqn:E8; [discriminate|lia].
    + reflexivity.
Qed.
