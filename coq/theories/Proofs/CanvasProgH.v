(* C02: per-operation lemmas for the horizontal operations, on composite canvases:
   pad_trim_left_right, CanvasJoin. *)
From Coq Require Import ZArith List Bool Lia ZifyBool.
From Urwid Require Import PyBase Canvas CanvasGrid CanvasFacts CanvasAbs CanvasVert CanvasHoriz CanvasJoin CanvasSides CanvasProg.
Import ListNotations.
Open Scope Z_scope.
Arguments Z.add : simpl never.
Arguments Z.sub : simpl never.
Arguments Z.mul : simpl never.
Arguments Z.ltb : simpl never.
Arguments Z.leb : simpl never.
Arguments Z.eqb : simpl never.
Arguments Z.min : simpl never.
Arguments Z.max : simpl never.
Arguments Z.to_nat : simpl never.
Arguments Z.of_nat : simpl never.

(* ------------------------------------------------------------------ pad_trim_left_right, padding *)
Lemma row_clean_blank w : row_cleanb (blank_row w) = true.
Proof.
  unfold blank_row, repeatz. destruct (Z.to_nat w) as [|n]; [reflexivity|]. cbn [repeat].
  unfold row_cleanb. cbn [first_okb space ck andb]. induction n; [reflexivity|]. cbn [repeat last_okb] in *. exact IHn.
Qed.

Definition pad_side (l : Z) : list (Z * row) := if 0 <? l then [(l, blank_row l)] else [].
Definition pad_cv (l h : Z) : list cview := if 0 <? l then [CV 0 0 l h None blank_canvas] else [].

Lemma pad_side_ok l : Forall side_ok (pad_side l).
Proof.
  unfold pad_side. destruct (0 <? l) eqn:E; [|constructor]. constructor; [|constructor].
  split; [cbn [fst]; lia|]. split; [cbn [fst snd]; unfold blank_row; rewrite zlen_repeatz; lia|apply row_clean_blank].
Qed.
Lemma pad_side_width l : 0 <= l -> sides_width (pad_side l) = l.
Proof. intros. unfold pad_side. destruct (0 <? l) eqn:E; cbn [sides_width fold_right fst]; lia. Qed.
Lemma pad_side_prow l : 0 <= l -> prow (pad_side l) = blank_row l.
Proof.
  intros. unfold pad_side. destruct (0 <? l) eqn:E; cbn [prow flat_map snd]; [now rewrite app_nil_r|].
  assert (l = 0) as -> by lia. reflexivity.
Qed.
Lemma pad_cv_abs l h : map abs_cv (pad_cv l h) = map (fun s => cside s h) (pad_side l).
Proof. unfold pad_cv, pad_side. destruct (0 <? l); reflexivity. Qed.
Lemma pad_cv_ok l h : 0 < h -> Forall cview_ok (pad_cv l h).
Proof.
  intros. unfold pad_cv. destruct (0 <? l) eqn:E; [|constructor]. constructor; [|constructor].
  unfold cview_ok, cview_okb. cbn [ccols crows ccanv blank_canvas cknd]. lia.
Qed.

Lemma pad_shards n cvs s' g l r :
  WF ((n, cvs) :: s') -> content ((n, cvs) :: s') = Ok g -> 0 <= l -> 0 <= r ->
  let h := shards_rows ((n, cvs) :: s') in
  let s2 := (n, pad_cv l h ++ cvs ++ pad_cv r h) :: s' in
  WF s2 /\ content s2 = Ok (map (fun R : row => blank_row l ++ R ++ blank_row r) g) /\
  shards_cols s2 = shards_cols ((n, cvs) :: s') + l + r.
Proof.
  intros W C Hl Hr h s2. destruct (WF_elim _ W) as (Hc & S & A & C'). pose proof (WF_rows_pos _ W) as Hh.
  rewrite C' in C. injection C as <-.
  assert (AWF (shards_cols ((n, cvs) :: s')) ((n, map abs_cv cvs) :: map abs_sh s') []) as A1 by exact A.
  destruct (frame_correct _ (pad_side l) (pad_side r) n (map abs_cv cvs) (map abs_sh s') (pad_side_ok l) (pad_side_ok r) A1) as [A2 C2].
  cbn zeta in A2, C2.
  change (ashards_rows ((n, map abs_cv cvs) :: map abs_sh s')) with (ashards_rows (map abs_sh ((n, cvs) :: s'))) in A2, C2.
  rewrite shards_rows_abs in A2, C2. fold h in A2, C2.
  change ((n, map abs_cv cvs) :: map abs_sh s') with (map abs_sh ((n, cvs) :: s')) in C2.
  assert (map abs_sh s2 = (n, map (fun s => cside s h) (pad_side l) ++ map abs_cv cvs ++ map (fun s => cside s h) (pad_side r)) :: map abs_sh s') as E2.
  { subst s2. rewrite abs_sh_cons. now rewrite !map_app, !pad_cv_abs. }
  rewrite <- E2 in A2, C2. rewrite !pad_side_width in A2 by assumption. rewrite !pad_side_prow in C2 by assumption.
  inversion S; subst. cbn [snd] in *.
  destruct (WF_intro (l + shards_cols ((n, cvs) :: s') + r) s2) as [W2 Ec2]; [lia|discriminate| |assumption|].
  - subst s2. constructor; [|assumption]. cbn [snd]. apply Forall_app; split; [now apply pad_cv_ok|].
    apply Forall_app; split; [assumption|now apply pad_cv_ok].
  - split; [assumption|]. split; [|lia]. destruct (WF_elim _ W2) as (_ & _ & _ & C''). rewrite C''. f_equal. exact C2.
Qed.

Lemma comp_pad_lr_nonneg_rel c gv l r :
  vrel (VComp c) gv -> gfin gv = false -> 0 <= l -> 0 <= r ->
  exists c', comp_pad_trim_left_right c l r = Ok c' /\
             vrel (VComp c') (GV (g_pad_trim_lr (gg gv) l r) (translate_coords (gco gv) l 0) false false).
Proof.
  intros (Hlf & W & C & Eco & Ef) Hf Hl Hr. cbn [cshards ccoords cfin] in *.
  destruct (WF_content_grid _ _ W C) as (G & Eh & Ec).
  unfold comp_pad_trim_left_right. rewrite Ef, Hf.
  destruct ((l <? 0) || (r <? 0)) eqn:E1; [lia|].
  assert (g_pad_trim_lr (gg gv) l r = map (fun R : row => blank_row l ++ R ++ blank_row r) (gg gv)) as Eg.
  { unfold g_pad_trim_lr. apply map_ext_in. intros R HR. replace (Z.max 0 l) with l by lia. replace (Z.max 0 r) with r by lia.
    replace (Z.max 0 (- l)) with 0 by lia. replace (Z.max 0 (- r)) with 0 by lia. rewrite Z.sub_0_r.
    destruct G as (_ & _ & Fw). rewrite Forall_forall in Fw. pose proof (content_clean _ _ W C) as Fc. rewrite Forall_forall in Fc.
    unfold g_window. rewrite <- (Fw _ HR). rewrite trim_cells_all by auto. reflexivity. }
  destruct (cshards c) as [|[n cvs] s'] eqn:Es; [destruct (WF_elim _ W) as (Hc & _); cbn in Hc; lia|].
  destruct (pad_shards _ _ _ _ l r W C Hl Hr) as (W2 & C2 & Ec2). cbn zeta in W2, C2, Ec2.
  assert (forall h, (if 0 <? r then (if 0 <? l then CV 0 0 l h None blank_canvas :: cvs else cvs) ++ [CV 0 0 r h None blank_canvas]
                     else (if 0 <? l then CV 0 0 l h None blank_canvas :: cvs else cvs)) = pad_cv l h ++ cvs ++ pad_cv r h) as Ecv.
  { intros h. unfold pad_cv. destruct (0 <? l), (0 <? r); cbn [app]; rewrite ?app_nil_r; reflexivity. }
  destruct ((0 <? l) || (0 <? r)) eqn:E2.
  - eexists; split; [reflexivity|]. cbn [vrel cshards ccoords cfin gleaf gg gco gfin]. rewrite Ecv, Eg, Eco. auto.
  - assert (l = 0) by lia. assert (r = 0) by lia. subst l r.
    eexists; split; [reflexivity|]. cbn [vrel cshards ccoords cfin gleaf gg gco gfin]. rewrite Eg, Eco.
    split; [reflexivity|]. split; [assumption|]. split; [|auto]. rewrite C. f_equal.
    rewrite <- (map_id (gg gv)) at 1. apply map_ext. intros R. change (blank_row 0) with (@nil cell). now rewrite app_nil_r.
Qed.

(* ------------------------------------------------------------------ CanvasJoin *)
Definition jrel (maxrow : Z) (t : value * Z * Z) (gc : gval * Z) : Prop :=
  vrel (fst (fst t)) (fst gc) /\ snd (fst t) = snd gc - gwidth (gg (fst gc)) /\ snd t = gheight (gg (fst gc)) /\
  gwidth (gg (fst gc)) <= snd gc /\ gheight (gg (fst gc)) <= maxrow.

Lemma join_measure_rel : forall lv lg m,
  0 <= m -> Forall2 (fun a b => vrel (fst a) (fst b) /\ snd a = snd b) lv lg ->
  exists l2, join_measure lv m = Ok (l2, Z.max m (fold_right (fun gc acc => Z.max (gheight (gg (fst gc))) acc) 0 lg)) /\
             Forall2 (fun t gc => vrel (fst (fst t)) (fst gc) /\ snd (fst t) = snd gc - gwidth (gg (fst gc)) /\ snd t = gheight (gg (fst gc))) l2 lg.
Proof.
  induction lv as [|[v c] lv IH]; intros lg m Hm F; inversion F as [|a [gv c'] lv' lg' [Rv Ec] F']; subst; cbn [join_measure fold_right fst snd] in *.
  - exists []. split; [do 2 f_equal; lia|constructor].
  - subst c'. destruct (vrel_dims _ _ Rv) as (Ecols & Erows & G). rewrite Erows, Ecols.
    destruct (IH _ (Z.max m (gheight (gg gv))) ltac:(lia) F') as (l2 & -> & F2). eexists; split; [do 2 f_equal; lia|].
    constructor; [cbn [fst snd]; auto|assumption].
Qed.

Lemma g_padtb_coords_pad g b co : 0 <= b -> g_padtb_coords g 0 b co = co.
Proof.
  intros. unfold g_padtb_coords. replace (0 <? 0) with false by lia. replace (b <? 0) with false by lia. reflexivity.
Qed.

Lemma g_pad_to_rel c gv cols maxrow :
  vrel (VComp c) gv -> gfin gv = false -> gwidth (gg gv) <= cols -> gheight (gg gv) <= maxrow ->
  exists c2,
    (match (if cols - gwidth (gg gv) =? 0 then Ok c else comp_pad_trim_left_right c 0 (cols - gwidth (gg gv))) with
     | Err e => Err e
     | Ok c1 => if gheight (gg gv) <? maxrow then comp_pad_trim_top_bottom c1 0 (maxrow - gheight (gg gv)) else Ok c1
     end) = Ok c2 /\
    vrel (VComp c2) (GV (g_pad_to (gg gv) cols maxrow) (gco gv) false false) /\
    shards_cols (cshards c2) = cols /\ shards_rows (cshards c2) = maxrow.
Proof.
  intros R Hf Hc Hm. pose proof R as (Hlf & W & C & Eco & Ef). cbn [cshards ccoords cfin] in *.
  destruct (WF_content_grid _ _ W C) as (G & Eh & Ec). pose proof G as (Gh & Gw & Fw).
  set (g1 := map (fun R : row => R ++ blank_row (cols - gwidth (gg gv))) (gg gv)).
  assert (exists c1, (if cols - gwidth (gg gv) =? 0 then Ok c else comp_pad_trim_left_right c 0 (cols - gwidth (gg gv))) = Ok c1 /\
                     vrel (VComp c1) (GV g1 (gco gv) false false)) as (c1 & -> & R1).
  { destruct (cols - gwidth (gg gv) =? 0) eqn:E.
    - exists c. split; [reflexivity|]. cbn [vrel gleaf gg gco gfin]. subst g1. replace (cols - gwidth (gg gv)) with 0 by lia.
      change (blank_row 0) with (@nil cell). rewrite map_ext with (g := fun R => R) by (intros; apply app_nil_r). rewrite map_id.
      rewrite Ef, Hf. auto.
    - destruct (comp_pad_lr_nonneg_rel c gv 0 (cols - gwidth (gg gv)) R Hf) as (c1 & E1 & R1); [lia|lia|].
      exists c1. split; [exact E1|]. rewrite translate_coords_0 in R1.
      replace g1 with (g_pad_trim_lr (gg gv) 0 (cols - gwidth (gg gv))); [exact R1|].
      subst g1. unfold g_pad_trim_lr. apply map_ext_in. intros R0 HR0.
      replace (Z.max 0 0) with 0 by lia. replace (Z.max 0 (- 0)) with 0 by lia.
      replace (Z.max 0 (cols - gwidth (gg gv))) with (cols - gwidth (gg gv)) by lia.
      replace (Z.max 0 (- (cols - gwidth (gg gv)))) with 0 by lia. rewrite Z.sub_0_r. change (blank_row 0) with (@nil cell). cbn [app].
      rewrite Forall_forall in Fw. pose proof (content_clean _ _ W C) as Fc. rewrite Forall_forall in Fc.
      unfold g_window. rewrite <- (Fw _ HR0). rewrite trim_cells_all by auto. reflexivity. }
  assert (gheight g1 = gheight (gg gv)) as Eh1 by (subst g1; unfold gheight; now rewrite zlen_map).
  assert (gwidth g1 = cols) as Ew1.
  { subst g1. apply gwidth_of_rows; [rewrite zlen_map; unfold gheight in Gh; lia|].
    apply Forall_forall. intros R0 HR0. apply in_map_iff in HR0 as (R1' & <- & HR1). rewrite zlen_app. unfold blank_row. rewrite zlen_repeatz.
    rewrite Forall_forall in Fw. rewrite (Fw _ HR1). lia. }
  destruct (gheight (gg gv) <? maxrow) eqn:E.
  - destruct (comp_pad_trim_top_bottom_rel c1 _ 0 (maxrow - gheight (gg gv)) R1 eq_refl) as (c2 & E2 & R2); [cbn [gg]; lia|].
    exists c2. split; [exact E2|]. cbn [gg gco] in R2. rewrite g_padtb_coords_pad in R2 by lia.
    assert (g_pad_trim_tb g1 0 (maxrow - gheight (gg gv)) = g_pad_to (gg gv) cols maxrow) as Eg.
    { unfold g_pad_trim_tb, g_pad_to. rewrite Ew1, Eh1. replace (Z.max 0 0) with 0 by lia. replace (Z.max 0 (- 0)) with 0 by lia.
      replace (Z.max 0 (- (maxrow - gheight (gg gv)))) with 0 by lia. replace (Z.max 0 (maxrow - gheight (gg gv))) with (maxrow - gheight (gg gv)) by lia.
      change (blank_grid cols 0) with (@nil row). cbn [app]. rewrite dropz_le0 by lia. rewrite !Z.sub_0_r.
      rewrite takez_all by (unfold gheight in *; lia). reflexivity. }
    rewrite Eg in R2. split; [exact R2|]. destruct R2 as (_ & W2 & C2 & _). cbn [cshards gg] in *.
    destruct (WF_content_grid _ _ W2 C2) as (G2 & Eh2 & Ec2).
    split.
    + rewrite <- Ec2. rewrite <- Eg. unfold g_pad_trim_tb. apply gwidth_of_rows.
      * destruct G2 as (G2h & _). rewrite <- Eg in G2h. exact G2h.
      * rewrite Ew1. replace (Z.max 0 0) with 0 by lia. change (blank_grid cols 0) with (@nil row). cbn [app].
        apply Forall_app; split.
        -- apply Forall_takez, Forall_dropz. subst g1. apply Forall_forall. intros R0 HR0. apply in_map_iff in HR0 as (R1' & <- & HR1).
           rewrite zlen_app. unfold blank_row. rewrite zlen_repeatz. rewrite Forall_forall in Fw. rewrite (Fw _ HR1). lia.
        -- unfold blank_grid. apply Forall_repeatz. unfold blank_row. rewrite zlen_repeatz. lia.
    + rewrite <- Eh2. unfold g_pad_to, gheight. rewrite zlen_app, zlen_map. unfold blank_grid. rewrite zlen_repeatz. unfold gheight in *. lia.
  - exists c1. split; [reflexivity|].
    assert (g_pad_to (gg gv) cols maxrow = g1) as Eg.
    { unfold g_pad_to. fold g1. replace (maxrow - gheight (gg gv)) with 0 by lia. change (blank_grid cols 0) with (@nil row). apply app_nil_r. }
    rewrite Eg. split; [exact R1|]. destruct R1 as (_ & W1 & C1 & _). cbn [cshards gg] in *.
    destruct (WF_content_grid _ _ W1 C1) as (_ & Eh1' & Ec1'). split; lia.
Qed.

Lemma join_go_rel maxrow : forall l2 lg col co sls0,
  Forall2 (jrel maxrow) l2 lg ->
  exists sls', join_go l2 maxrow col co sls0 = Ok (g_join_coords lg col co, sls0 ++ sls') /\
               Forall2 (fun s gc => (WF s /\ content s = Ok (g_pad_to (gg (fst gc)) (snd gc) maxrow)) /\
                                    shards_cols s = snd gc /\ shards_rows s = maxrow) sls' lg.
Proof.
  induction l2 as [|[[v pr] rows] l2 IH]; intros lg col co sls0 F; inversion F as [|t [gv cols] l2' lg' (Rv & Epr & Erows & Hc & Hm) F']; subst; cbn [fst snd] in *.
  - exists []. cbn [join_go g_join_coords]. rewrite app_nil_r. split; [reflexivity|constructor].
  - cbn [join_go g_join_coords]. destruct (wrap_rel _ _ Rv) as (c0 & -> & R0). subst pr rows.
    destruct (g_pad_to_rel c0 _ cols maxrow R0 eq_refl Hc Hm) as (c2 & E2 & R2 & Ec2 & Er2). cbn [gg gco] in *.
    destruct (if cols - gwidth (gg gv) =? 0 then Ok c0 else comp_pad_trim_left_right c0 0 (cols - gwidth (gg gv))) as [c1|e]; [|discriminate].
    rewrite E2. destruct R2 as (_ & W2 & C2 & Eco2 & _). cbn [cshards ccoords gg gco] in *.
    destruct (IH lg' (col + shards_cols (cshards c2)) (coords_update co (translate_coords (ccoords c2) col 0)) (sls0 ++ [cshards c2]) F') as (sls' & E & Fs).
    exists (cshards c2 :: sls'). rewrite E, Ec2, Eco2, <- app_assoc. split; [reflexivity|]. constructor; [cbn [fst snd]; auto|assumption].
Qed.

Lemma maxrow_map (l : list (gval * Z)) :
  fold_right (fun (gc : grid * Z) (acc : Z) => Z.max (gheight (fst gc)) acc) 0 (map (fun gc : gval * Z => (gg (fst gc), snd gc)) l)
  = Z.max 0 (fold_right (fun (gc : gval * Z) (acc : Z) => Z.max (gheight (gg (fst gc))) acc) 0 l).
Proof.
  induction l as [|x l IH]; cbn [map fold_right fst]; [lia|]. rewrite IH.
  assert (0 <= fold_right (fun (gc : gval * Z) (acc : Z) => Z.max (gheight (gg (fst gc))) acc) 0 l) as Hnn2.
  { clear. induction l; cbn [fold_right]; lia. }
  lia.
Qed.

Lemma canvas_join_rel vs gvs cols :
  Forall2 vrel vs gvs -> zlen cols = zlen gvs -> 0 < zlen cols ->
  forallb (fun vc : gval * Z => gwidth (gg (fst vc)) <=? snd vc) (combine gvs cols) = true ->
  exists c, canvas_join (combine vs cols) = Ok c /\
            vrel (VComp c) (GV (g_join (combine (map gg gvs) cols)) (g_join_coords (combine gvs cols) 0 no_coords) false false).
Proof.
  intros F Hlen Hpos Hw.
  assert (Forall2 (fun a b => vrel (fst a) (fst b) /\ snd a = snd b) (combine vs cols) (combine gvs cols)) as Fc.
  { clear - F. revert cols. induction F; intros [|c cols]; cbn [combine]; constructor; cbn [fst snd]; auto. }
  unfold canvas_join. destruct (join_measure_rel _ _ 0 ltac:(lia) Fc) as (l2 & -> & F2).
  set (maxrow := Z.max 0 (fold_right (fun gc acc => Z.max (gheight (gg (fst gc))) acc) 0 (combine gvs cols))).
  assert (Forall2 (jrel maxrow) l2 (combine gvs cols)) as Fj.
  { assert (forall gc, In gc (combine gvs cols) -> gwidth (gg (fst gc)) <= snd gc /\ gheight (gg (fst gc)) <= maxrow) as Hin.
    { intros gc Hgc. rewrite forallb_forall in Hw. specialize (Hw _ Hgc). split; [lia|]. subst maxrow.
      clear - Hgc. induction (combine gvs cols) as [|x l IH]; [destruct Hgc|]. cbn [fold_right]. destruct Hgc as [<-|Hgc]; [lia|specialize (IH Hgc); lia]. }
    clearbody maxrow. clear - F2 Hin. induction F2 as [|t gc l2 lg (A & B & C) _ IH]; constructor.
    - destruct (Hin gc (or_introl eq_refl)). unfold jrel. auto.
    - apply IH. intros gc' Hgc'. apply Hin. now right. }
  destruct (join_go_rel maxrow l2 _ 0 no_coords [] Fj) as (sls & -> & Fs). cbn [app].
  assert (combine gvs cols <> []) as Hne.
  { destruct gvs, cols; cbn [combine]; try discriminate; rewrite ?zlen_nil, ?zlen_cons in *; pose proof (zlen_nonneg cols); pose proof (zlen_nonneg gvs); lia. }
  assert (sls <> []) as Hsne by (destruct sls; [inversion Fs; subst; congruence|discriminate]).
  assert (Forall2 (fun s g => WF s /\ content s = Ok g) sls (map (fun gc : gval * Z => g_pad_to (gg (fst gc)) (snd gc) maxrow) (combine gvs cols))) as Fsg.
  { clearbody maxrow. clear - Fs. induction Fs as [|s gc sls lg (A & _) _ IH]; cbn [map]; constructor; assumption. }
  assert (Forall (fun s => shards_rows s = maxrow) sls) as Fsr.
  { clearbody maxrow. clear - Fs. induction Fs as [|s gc sls lg (_ & _ & A) _ IH]; constructor; assumption. }
  destruct (join_shards sls _ maxrow Hsne Fsg Fsr) as (s & -> & W & C & _).
  - eexists; split; [reflexivity|]. cbn [vrel cshards ccoords cfin gleaf gg gco gfin]. split; [reflexivity|]. split; [assumption|].
    split; [|auto]. rewrite C. f_equal. unfold g_join.
    assert (combine (map gg gvs) cols = map (fun gc : gval * Z => (gg (fst gc), snd gc)) (combine gvs cols)) as Ecomb.
    { clear. revert cols. induction gvs as [|g gvs IH]; intros [|c cols]; cbn [map combine fst snd]; [reflexivity..|]. now rewrite IH. }
    rewrite Ecomb. rewrite map_map. cbn [fst snd].
    rewrite maxrow_map. reflexivity.
Qed.

(* ------------------------------------------------------------------ pad_trim_left_right, general *)
(* the padding half of pad_trim_left_right, on any well-formed shard list *)
Lemma pad_part s1 g1 l r h :
  WF s1 -> content s1 = Ok g1 -> 0 <= l -> 0 <= r -> h = shards_rows s1 ->
  exists s2,
    (if (0 <? l) || (0 <? r) then
       match s1 with
       | [] => Err IndexError
       | (top_rows, top_cviews) :: s' =>
           let cvs1 := if 0 <? l then CV 0 0 l h None blank_canvas :: top_cviews else top_cviews in
           let cvs2 := if 0 <? r then cvs1 ++ [CV 0 0 r h None blank_canvas] else cvs1 in
           Ok ((top_rows, cvs2) :: s')
       end
     else Ok s1) = Ok s2 /\
    WF s2 /\ content s2 = Ok (map (fun R : row => blank_row l ++ R ++ blank_row r) g1).
Proof.
  intros W C Hl Hr ->. destruct s1 as [|[n cvs] s'] eqn:Es; [destruct (WF_elim _ W) as (Hc & _); cbn in Hc; lia|].
  destruct (pad_shards _ _ _ _ l r W C Hl Hr) as (W2 & C2 & _). cbn zeta in W2, C2.
  assert (forall h, (if 0 <? r then (if 0 <? l then CV 0 0 l h None blank_canvas :: cvs else cvs) ++ [CV 0 0 r h None blank_canvas]
                     else (if 0 <? l then CV 0 0 l h None blank_canvas :: cvs else cvs)) = pad_cv l h ++ cvs ++ pad_cv r h) as Ecv.
  { intros h. unfold pad_cv. destruct (0 <? l), (0 <? r); cbn [app]; rewrite ?app_nil_r; reflexivity. }
  destruct ((0 <? l) || (0 <? r)) eqn:E2.
  - eexists; split; [reflexivity|]. rewrite Ecv. auto.
  - assert (l = 0) by lia. assert (r = 0) by lia. subst l r.
    eexists; split; [reflexivity|]. split; [assumption|]. rewrite C. f_equal.
    rewrite <- (map_id g1) at 1. apply map_ext. intros R. change (blank_row 0) with (@nil cell). now rewrite app_nil_r.
Qed.

Lemma pad_part' s1 g1 l r h :
  WF s1 -> content s1 = Ok g1 -> h = shards_rows s1 ->
  exists s2,
    (if (0 <? l) || (0 <? r) then
       match s1 with
       | [] => Err IndexError
       | (top_rows, top_cviews) :: s' =>
           let cvs1 := if 0 <? l then CV 0 0 l h None blank_canvas :: top_cviews else top_cviews in
           let cvs2 := if 0 <? r then cvs1 ++ [CV 0 0 r h None blank_canvas] else cvs1 in
           Ok ((top_rows, cvs2) :: s')
       end
     else Ok s1) = Ok s2 /\
    WF s2 /\ content s2 = Ok (map (fun R : row => blank_row (Z.max 0 l) ++ R ++ blank_row (Z.max 0 r)) g1).
Proof.
  intros W C Eh.
  destruct (0 <? l) eqn:El; destruct (0 <? r) eqn:Er.
  - replace (Z.max 0 l) with l by lia. replace (Z.max 0 r) with r by lia.
    destruct (pad_part s1 g1 l r h W C ltac:(lia) ltac:(lia) Eh) as (s2 & E & R). rewrite El, Er in E. eauto.
  - replace (Z.max 0 l) with l by lia. replace (Z.max 0 r) with 0 by lia.
    destruct (pad_part s1 g1 l 0 h W C ltac:(lia) ltac:(lia) Eh) as (s2 & E & R). rewrite El in E. replace (0 <? 0) with false in E by lia. eauto.
  - replace (Z.max 0 l) with 0 by lia. replace (Z.max 0 r) with r by lia.
    destruct (pad_part s1 g1 0 r h W C ltac:(lia) ltac:(lia) Eh) as (s2 & E & R). rewrite Er in E. replace (0 <? 0) with false in E by lia. eauto.
  - replace (Z.max 0 l) with 0 by lia. replace (Z.max 0 r) with 0 by lia.
    destruct (pad_part s1 g1 0 0 h W C ltac:(lia) ltac:(lia) Eh) as (s2 & E & R). replace (0 <? 0) with false in E by lia. eauto.
Qed.

Lemma comp_pad_trim_left_right_rel c gv l r :
  vrel (VComp c) gv -> gfin gv = false -> 0 < gwidth (gg gv) + Z.min l 0 + Z.min r 0 ->
  exists c', comp_pad_trim_left_right c l r = Ok c' /\
             vrel (VComp c') (GV (g_pad_trim_lr (gg gv) l r)
                                 (if (l <? 0) || (r <? 0)
                                  then g_drop_cursor (g_pad_trim_lr (gg gv) l r) (translate_coords (gco gv) l 0)
                                  else translate_coords (gco gv) l 0) false false).
Proof.
  intros (Hlf & W & C & Eco & Ef) Hf Hd. cbn [cshards ccoords cfin] in *.
  destruct (WF_content_grid _ _ W C) as (G & Eh & Ec). pose proof G as (Gh & Gw & Fw).
  unfold comp_pad_trim_left_right. rewrite Ef, Hf.
  set (tl0 := Z.max 0 (- l)). set (tr0 := Z.max 0 (- r)).
  assert (exists s1, (if (l <? 0) || (r <? 0) then shards_trim_sides (cshards c) tl0 (shards_cols (cshards c) - tl0 - tr0) else Ok (cshards c)) = Ok s1 /\
                     WF s1 /\ content s1 = Ok (map (fun R : row => g_window R tl0 (gwidth (gg gv) - tr0)) (gg gv))) as (s1 & -> & W1 & C1).
  { destruct ((l <? 0) || (r <? 0)) eqn:E.
    - destruct (trim_sides_shards _ tl0 (shards_cols (cshards c) - tl0 - tr0) _ W C) as (s1 & E1 & W1 & C1 & _); [lia|lia|lia|].
      exists s1. split; [exact E1|]. split; [assumption|]. rewrite C1. f_equal. apply map_ext. intros R. unfold g_window. f_equal. lia.
    - exists (cshards c). split; [reflexivity|]. split; [assumption|]. rewrite C. f_equal.
      assert (tl0 = 0) by lia. assert (tr0 = 0) by lia. rewrite H, H0, Z.sub_0_r.
      rewrite <- (map_id (gg gv)) at 1. apply map_ext_in. intros R HR.
      rewrite Forall_forall in Fw. pose proof (content_clean _ _ W C) as Fc. rewrite Forall_forall in Fc.
      unfold g_window. rewrite <- (Fw _ HR). rewrite trim_cells_all by auto. reflexivity. }
  assert (shards_rows s1 = shards_rows (cshards c)) as Er1.
  { destruct (content_size _ _ W1 C1) as [L1 _]. destruct (content_size _ _ W C) as [L0 _]. rewrite zlen_map in L1. lia. }
  destruct (pad_part' s1 _ l r (shards_rows (cshards c)) W1 C1 ltac:(lia)) as (s2 & E2 & W2 & C2).
  cbn zeta. cbn zeta in E2. rewrite E2. eexists; split; [reflexivity|]. cbn [vrel cshards ccoords cfin gleaf gg gco gfin].
  assert (content s2 = Ok (g_pad_trim_lr (gg gv) l r)) as C3.
  { rewrite C2. f_equal. unfold g_pad_trim_lr. rewrite map_map. reflexivity. }
  split; [reflexivity|]. split; [assumption|]. split; [exact C3|]. rewrite Eco, (drop_rel _ _ _ W2 C3). auto.
Qed.

(* ------------------------------------------------------------------ overlay *)
Lemma hcat2_map_l {A} (fL : A -> row) (M : list A) (T : grid) :
  length M = length T -> hcat2 (map fL M) T = map (fun p : A * row => fL (fst p) ++ snd p) (combine M T).
Proof.
  revert T; induction M as [|m M IH]; intros [|t T] H; cbn [length] in H; try discriminate; [reflexivity|].
  unfold hcat2 in *. cbn [map combine fst snd]. f_equal. apply IH. lia.
Qed.
Lemma hcat2_map_r {A} (fR : A -> row) (M : list A) (T : grid) :
  length M = length T -> hcat2 T (map fR M) = map (fun p : A * row => snd p ++ fR (fst p)) (combine M T).
Proof.
  revert T; induction M as [|m M IH]; intros [|t T] H; cbn [length] in H; try discriminate; [reflexivity|].
  unfold hcat2 in *. cbn [map combine fst snd]. f_equal. apply IH. lia.
Qed.
Lemma hcat2_map_lr {A} (fL fR : A -> row) (M : list A) (T : grid) :
  length M = length T ->
  hcat2 (map fL M) (hcat2 T (map fR M)) = map (fun p : A * row => fL (fst p) ++ snd p ++ fR (fst p)) (combine M T).
Proof.
  revert T; induction M as [|m M IH]; intros [|t T] H; cbn [length] in H; try discriminate; [reflexivity|].
  unfold hcat2 in *. cbn [map combine fst snd]. f_equal. apply IH. lia.
Qed.
Lemma combine_snd_id {A} (M : list A) (T : grid) : length M = length T -> T = map (fun p : A * row => snd p) (combine M T).
Proof.
  revert T; induction M as [|m M IH]; intros [|t T] H; cbn [length] in H; try discriminate; [reflexivity|].
  cbn [combine map snd]. f_equal. apply IH. lia.
Qed.

Lemma trim_cells_empty R a : trim_cells R a a = [].
Proof. unfold trim_cells. rewrite takez_le0 by lia. reflexivity. Qed.

(* an optional block stacked on top of / below a well-formed canvas *)
Definition opt_block (w : Z) (s : shards) (g : grid) : Prop :=
  (s = [] /\ g = []) \/ (WF s /\ shards_cols s = w /\ content s = Ok g).

Lemma vcat_opt_top w sa ga sm gm :
  opt_block w sa ga -> WF sm -> shards_cols sm = w -> content sm = Ok gm ->
  WF (sa ++ sm) /\ shards_cols (sa ++ sm) = w /\ content (sa ++ sm) = Ok (ga ++ gm).
Proof.
  intros [[-> ->]|(Wa & Ea & Ca)] Wm Em Cm; [cbn [app]; auto|].
  destruct (combine_shards _ _ _ _ Wa Wm ltac:(lia) Ca Cm) as (A & B & D & _). repeat split; try assumption. lia.
Qed.
Lemma vcat_opt_bottom w sm gm sb gb :
  WF sm -> shards_cols sm = w -> content sm = Ok gm -> opt_block w sb gb ->
  WF (sm ++ sb) /\ shards_cols (sm ++ sb) = w /\ content (sm ++ sb) = Ok (gm ++ gb).
Proof.
  intros Wm Em Cm [[-> ->]|(Wb & Eb & Cb)]; [rewrite !app_nil_r; auto|].
  destruct (combine_shards _ _ _ _ Wm Wb ltac:(lia) Cm Cb) as (A & B & D & _). repeat split; try assumption. lia.
Qed.

Lemma comp_overlay_rel c o gvb gvt left top :
  vrel (VComp c) gvb -> gfin gvb = false -> vrel (VComp o) gvt ->
  0 <= left -> 0 <= top -> left + gwidth (gg gvt) <= gwidth (gg gvb) -> top + gheight (gg gvt) <= gheight (gg gvb) ->
  exists c', comp_overlay c o left top = Ok c' /\
             vrel (VComp c') (GV (g_overlay (gg gvb) (gg gvt) left top)
                                 (coords_update (gco gvb) (translate_coords (gco gvt) left top)) false false).
Proof.
  intros (_ & W & C & Eco & Ef) Hf (_ & Wt & Ct & Ecot & _) Hl Ht Hw Hh. cbn [cshards ccoords cfin] in *.
  destruct (WF_content_grid _ _ W C) as (G & EH & EW). destruct (WF_content_grid _ _ Wt Ct) as (Gt & Eh & Ew).
  pose proof G as (GH & GW & FW). pose proof Gt as (Gth & Gtw & Ftw).
  set (GG := gg gvb) in *. set (TT := gg gvt) in *.
  set (WW := gwidth GG) in *. set (HH := gheight GG) in *. set (ww := gwidth TT) in *. set (hh := gheight TT) in *.
  unfold comp_overlay. rewrite Ef, Hf. rewrite <- Ew, <- Eh, <- EW, <- EH.
  set (right := WW - left - ww). set (bottom := HH - top - hh).
  destruct (right <? 0) eqn:Er; [lia|]. destruct (bottom <? 0) eqn:Eb; [lia|].
  unfold gheight in *.
  (* top split *)
  assert (exists side1 tops, (if top =? 0 then Ok (cshards c, [])
           else match shards_trim_top (cshards c) top with
                | Err e => Err e
                | Ok side => match shards_trim_rows (cshards c) top with Err e => Err e | Ok tp => Ok (side, tp) end
                end) = Ok (side1, tops) /\
          WF side1 /\ shards_cols side1 = WW /\ content side1 = Ok (dropz top GG) /\ opt_block WW tops (takez top GG))
    as (side1 & tops & -> & W1 & Ec1 & C1 & Otop).
  { destruct (top =? 0) eqn:E.
    - exists (cshards c), []. split; [reflexivity|]. rewrite dropz_le0 by lia. rewrite takez_le0 by lia.
      repeat split; try assumption; try lia. left; auto.
    - destruct (trim_top_shards _ top _ W ltac:(lia) C) as (sd & -> & Wsd & Csd & Ecsd).
      destruct (trim_rows_shards _ top _ W ltac:(lia) C) as (tp & -> & Wtp & Ctp & Ectp).
      exists sd, tp. split; [reflexivity|]. repeat split; try assumption; try lia. right. repeat split; try assumption. lia. }
  assert (zlen (dropz top GG) = HH - top) as L1 by (rewrite zlen_dropz by lia; lia).
  destruct (content_size _ _ W1 C1) as [R1 _].
  (* bottom split *)
  assert (exists side2 bots, (if bottom =? 0 then Ok (side1, [])
           else match shards_trim_top side1 hh with
                | Err e => Err e
                | Ok bt => match shards_trim_rows side1 hh with Err e => Err e | Ok sd => Ok (sd, bt) end
                end) = Ok (side2, bots) /\
          WF side2 /\ shards_cols side2 = WW /\ content side2 = Ok (takez hh (dropz top GG)) /\
          opt_block WW bots (dropz (top + hh) GG))
    as (side2 & bots & -> & W2 & Ec2 & C2 & Obot).
  { destruct (bottom =? 0) eqn:E.
    - exists side1, []. split; [reflexivity|]. rewrite (takez_all hh) by lia. rewrite (dropz_all (top + hh)) by lia.
      repeat split; try assumption. left; auto.
    - destruct (trim_top_shards _ hh _ W1 ltac:(lia) C1) as (bt & -> & Wbt & Cbt & Ecbt).
      destruct (trim_rows_shards _ hh _ W1 ltac:(lia) C1) as (sd & -> & Wsd & Csd & Ecsd).
      exists sd, bt. split; [reflexivity|]. repeat split; try assumption; try lia. right. repeat split; try assumption; [lia|].
      rewrite Cbt. f_equal. rewrite dropz_dropz by lia. f_equal. lia. }
  set (MM := takez hh (dropz top GG)) in *.
  assert (zlen MM = hh) as LM by (subst MM; rewrite zlen_takez by lia; lia).
  assert (Forall (fun r : row => zlen r = WW) MM) as FM by (subst MM; apply Forall_takez, Forall_dropz, FW).
  assert (length MM = length TT) as Llen by (unfold zlen in *; lia).
  (* the side parts *)
  assert (exists ls, (if 0 <? left then match shards_trim_sides side2 0 left with Err e => Err e | Ok l => Ok [l] end else Ok []) = Ok ls /\
                     ((left = 0 /\ ls = []) \/
                      (0 < left /\ exists sl0, ls = [sl0] /\ WF sl0 /\ content sl0 = Ok (map (fun R : row => g_window R 0 left) MM) /\ shards_cols sl0 = left)))
    as (ls & -> & Hls).
  { destruct (0 <? left) eqn:E; [|exists []; split; [reflexivity|left; split; [lia|reflexivity]]].
    destruct (trim_sides_shards _ 0 left _ W2 C2) as (sl0 & -> & Wl & Cl & Ecl); [lia|lia|lia|].
    eexists; split; [reflexivity|]. right. split; [lia|]. exists sl0. repeat split; try assumption. }
  assert (exists rs, (if 0 <? right then match shards_trim_sides side2 (Z.max 0 (left + ww)) right with Err e => Err e | Ok l => Ok [l] end else Ok []) = Ok rs /\
                     ((right = 0 /\ rs = []) \/
                      (0 < right /\ exists sr0, rs = [sr0] /\ WF sr0 /\ content sr0 = Ok (map (fun R : row => g_window R (left + ww) WW) MM) /\ shards_cols sr0 = right)))
    as (rs & -> & Hrs).
  { destruct (0 <? right) eqn:E; [|exists []; split; [reflexivity|left; split; [lia|reflexivity]]].
    replace (Z.max 0 (left + ww)) with (left + ww) by lia.
    destruct (trim_sides_shards _ (left + ww) right _ W2 C2) as (sr0 & -> & Wr & Cr & Ecr); [lia|lia|subst right; lia|].
    eexists; split; [reflexivity|]. right. split; [lia|]. exists sr0. repeat split; try assumption.
    rewrite Cr. f_equal. apply map_ext. intros R. unfold g_window. f_equal. subst right. lia. }
  destruct (HH =? 0) eqn:E0; [lia|].
  set (mid := map (fun p : row * row => g_window (fst p) 0 left ++ snd p ++ g_window (fst p) (left + ww) WW) (combine MM TT)).
  destruct (content_size _ _ Wt Ct) as [Rt _].
  destruct (content_size _ _ W2 C2) as [R2 _].
  assert (exists middle, (if negb (left =? 0) || negb (right =? 0) then shards_join (ls ++ [cshards o] ++ rs) else Ok (cshards o)) = Ok middle /\
                         WF middle /\ shards_cols middle = WW /\ content middle = Ok mid) as (middle & Em & Wm & Ecm & Cm).
  { destruct Hls as [[El ->]|(Hlp & sl0 & -> & Wl & Cl & Ecl)]; destruct Hrs as [[Er0 ->]|(Hrp & sr0 & -> & Wr & Cr & Ecr)].
    - (* the overlay spans the whole width *)
      replace (negb (left =? 0) || negb (right =? 0)) with false by lia. exists (cshards o). split; [reflexivity|].
      split; [assumption|]. split; [subst right; lia|]. rewrite Ct. f_equal. subst mid.
      rewrite (combine_snd_id MM TT Llen) at 1. apply map_ext. intros p. subst left. unfold g_window.
      replace (0 + ww) with WW by (subst right; lia). rewrite !trim_cells_empty, app_nil_r. reflexivity.
    - replace (negb (left =? 0) || negb (right =? 0)) with true by lia. cbn [app].
      destruct (join_shards [cshards o; sr0] [TT; map (fun R : row => g_window R (left + ww) WW) MM] hh) as (s & -> & Ws & Cs & Ecs).
      + discriminate.
      + repeat constructor; assumption.
      + repeat constructor; [lia|]. destruct (content_size _ _ Wr Cr) as [Rr _]. rewrite zlen_map in Rr. lia.
      + exists s. split; [reflexivity|]. split; [assumption|]. split; [rewrite Ecs; cbn [map sumz fold_right]; subst right; lia|].
        rewrite Cs. f_equal. cbn [g_hcat]. subst mid. rewrite hcat2_map_r by assumption. apply map_ext. intros p.
        subst left. unfold g_window at 1. now rewrite trim_cells_empty.
    - replace (negb (left =? 0) || negb (right =? 0)) with true by lia. cbn [app].
      destruct (join_shards [sl0; cshards o] [map (fun R : row => g_window R 0 left) MM; TT] hh) as (s & -> & Ws & Cs & Ecs).
      + discriminate.
      + repeat constructor; assumption.
      + repeat constructor; [|lia]. destruct (content_size _ _ Wl Cl) as [Rl _]. rewrite zlen_map in Rl. lia.
      + exists s. split; [reflexivity|]. split; [assumption|]. split; [rewrite Ecs; cbn [map sumz fold_right]; subst right; lia|].
        rewrite Cs. f_equal. cbn [g_hcat]. subst mid. rewrite hcat2_map_l by assumption. apply map_ext. intros p.
        replace (left + ww) with WW by (subst right; lia). unfold g_window at 3. now rewrite trim_cells_empty, app_nil_r.
    - replace (negb (left =? 0) || negb (right =? 0)) with true by lia. cbn [app].
      destruct (join_shards [sl0; cshards o; sr0] [map (fun R : row => g_window R 0 left) MM; TT; map (fun R : row => g_window R (left + ww) WW) MM] hh) as (s & -> & Ws & Cs & Ecs).
      + discriminate.
      + repeat constructor; assumption.
      + repeat constructor; [|lia|].
        * destruct (content_size _ _ Wl Cl) as [Rl _]. rewrite zlen_map in Rl. lia.
        * destruct (content_size _ _ Wr Cr) as [Rr _]. rewrite zlen_map in Rr. lia.
      + exists s. split; [reflexivity|]. split; [assumption|]. split; [rewrite Ecs; cbn [map sumz fold_right]; subst right; lia|].
        rewrite Cs. f_equal. cbn [g_hcat]. subst mid. now rewrite hcat2_map_lr by assumption. }
  match goal with |- context [match ?X with Ok _ => _ | Err _ => _ end] => replace X with (@Ok shards middle) by (symmetry; exact Em) end.
  destruct (vcat_opt_bottom WW _ _ _ _ Wm Ecm Cm Obot) as (Wmb & Ecmb & Cmb).
  destruct (vcat_opt_top WW _ _ _ _ Otop Wmb Ecmb Cmb) as (Wall & _ & Call).
  eexists; split; [reflexivity|]. cbn [vrel cshards ccoords cfin gleaf gg gco gfin].
  split; [reflexivity|]. split; [assumption|]. split; [|rewrite Eco, Ecot; auto].
  rewrite Call. f_equal.
Qed.

Lemma canvas_overlay_rel vt vb gvt gvb left top :
  vrel vt gvt -> vrel vb gvb -> gleaf gvt = false ->
  0 <= left -> 0 <= top -> left + gwidth (gg gvt) <= gwidth (gg gvb) -> top + gheight (gg gvt) <= gheight (gg gvb) ->
  exists c, canvas_overlay vt vb left top = Ok c /\
            vrel (VComp c) (GV (g_overlay (gg gvb) (gg gvt) left top)
                               (coords_update (gco gvb) (translate_coords (gco gvt) left top)) false false).
Proof.
  intros Rt Rb Hlf Hl Ht Hw Hh. unfold canvas_overlay. destruct (wrap_rel _ _ Rb) as (b & -> & Rb').
  destruct vt as [ct cu|t]; [destruct Rt as (Hl' & _); congruence|].
  destruct (comp_overlay_rel b t _ gvt left top Rb' eq_refl Rt Hl Ht) as (c & E & Rc); cbn [gg gco]; try assumption.
  exists c. split; [exact E|exact Rc].
Qed.
