(* C10 - the reference editor the Edit model is compared with (definitions only).

   A state of the reference editor is a text, a cursor offset, a remembered preferred column, and
   the two flags that say which view of the text is on screen.  Every editing operation is ONE
   direct state update:
     insert at the cursor / delete the character before or after / move by one character /
     go to a column of a display row (start, end, preferred column of the row above or below,
     clicked cell).
   The display-row operations use the layout through its row/column maps only
   ([calc_coords] : offset -> cell, [calc_pos] : cell -> offset, [move_cursor_to_coords] =
   "put the cursor at column x of display row y of the view"); what those maps compute on
   well-formed layout data is the subject of cursor_cell / click_cell (EditLayoutProofs.v). *)
From Coq Require Import ZArith List Bool Lia.
From Urwid Require Import PyBase Edit.
Import ListNotations.
Open Scope Z_scope.

(* new text and offset; the preferred column is forgotten and cached canvases are stale *)
Definition put (s : st) (t : list Z) (p : Z) : st :=
  St (caption s) t p None (shiftv s) None (multiline s) (allow_tab s) (mask s) (var s).

Definition ins_at (t : list Z) (p : Z) (cs : list Z) : list Z := takez p t ++ cs ++ dropz p t.
Definition del_at (t : list Z) (p : Z) : list Z := takez p t ++ dropz (p + 1) t.

(* number of leading '0' among the first n characters *)
Fixpoint lead0 (n : nat) (t : list Z) : nat :=
  match n, t with
  | S k, 48 :: r => S (lead0 k r)
  | _, _ => O
  end.

(* numeric variants: leading zeros in front of the cursor disappear *)
Definition r_trim (s : st) : st :=
  match lead0 (Z.to_nat (pos s)) (text s) with
  | O => s
  | k => put s (skipn k (text s)) (pos s - Z.of_nat k)
  end.

Definition trims (s : st) : bool :=
  match var s with VEdit => false | VInt => true | VNum _ tr _ => tr end.

Section Spec.
Variable cw : Z -> Z.
Variable upper : Z -> list Z.
Variable lower : list Z -> list Z.

(* the view with the cursor visible *)
Definition look (s : st) : st := with_shiftv s true.

Definition cursor_cell_of (s : st) (w : Z) (lay : layout) : Z * Z :=
  position_coords cw (look s) w lay (pos s).

(* the column a vertical move aims at: the remembered one if it was taken at this width,
   else the cursor's column *)
Definition aim_col (s : st) (w : Z) (lay : layout) : prefcol :=
  match pref s with
  | Some (c, w') => if w' =? w then c else PInt (fst (cursor_cell_of s w lay))
  | None => PInt (fst (cursor_cell_of s w lay))
  end.

Definition goto (s : st) (w : Z) (lay : layout) (x : prefcol) (y : Z) : st * result bool :=
  move_cursor_to_coords cw s w lay x y.

Definition ref_key (s : st) (k : key) (w : Z) (lay : layout) : st * result ret :=
  let t := text s in
  let p := pos s in
  let ins cs := (put s (ins_at t p cs) (p + zlen cs), Ok RHandled) in
  match k with
  | KText cs =>
      match valid_char cw upper lower s cs with
      | Ok true => ins cs
      | Ok false => (s, Ok RUnhandled)
      | Err e => (s, Err e)
      end
  | KTab => if allow_tab s then ins (spaces (8 - p mod 8)) else (s, Ok RUnhandled)
  | KEnter => if multiline s then ins [10] else (s, Ok RUnhandled)
  | KLeft => if p =? 0 then (s, Ok RUnhandled) else (put s t (p - 1), Ok RHandled)
  | KRight => if p >=? zlen t then (s, Ok RUnhandled) else (put s t (p + 1), Ok RHandled)
  | KBackspace =>
      if p =? 0 then (with_pref s None, Ok RUnhandled) else (put s (del_at t (p - 1)) (p - 1), Ok RHandled)
  | KDelete =>
      if p >=? zlen t then (with_pref s None, Ok RUnhandled) else (put s (del_at t p) p, Ok RHandled)
  | KHome | KEnd =>
      let v := look (with_pref s None) in
      match goto v w lay (match k with KHome => PLeft | _ => PRight end) (snd (cursor_cell_of v w lay)) with
      | (s', Ok _) => (s', Ok RHandled)
      | (s', Err e) => (s', Err e)
      end
  | KUp | KDown =>
      let v := look s in
      let y := snd (cursor_cell_of v w lay) in
      match goto v w lay (aim_col v w lay) (match k with KUp => y - 1 | _ => y + 1 end) with
      | (s', Ok true) => (s', Ok RHandled)
      | (s', Ok false) => (s', Ok RUnhandled)
      | (s', Err e) => (s', Err e)
      end
  end.

Definition ref_step (s : st) (e : event) : st * result ret :=
  match e with
  | EKey k w lay =>
      match ref_key s k w lay with
      | (s', Ok RHandled) => (if trims s then r_trim s' else s', Ok RHandled)
      | o => o
      end
  | EClick button col row w lay =>
      if button =? 1 then
        match goto s w lay (PInt col) row with
        | (s', Ok b) => (s', Ok (RBool b))
        | (s', Err e) => (s', Err e)
        end
      else (s, Ok (RBool false))
  | ERender focus w lay =>
      let hit := match rcache s with Some (w', f') => (w' =? w) && Bool.eqb f' focus | None => false end in
      let v := with_shiftv s focus in
      let rows := zlen (get_line_translation cw v w lay) in
      let s' := if hit then s else with_rcache (if focus then look v else v) (Some (w, focus)) in
      if focus then
        let '(x, y) := cursor_cell_of v w lay in (s', Ok (RCoords x y rows))
      else (s', Ok (RRows rows))
  | EPrefCol w lay =>
      (match pref s with
       | Some (c, w') => if w' =? w then s else look s
       | None => look s
       end, Ok (RPref (aim_col s w lay)))
  | ESetPos p => (put s (text s) (clampz p 0 (zlen (text s))), Ok RUnit)
  end.

Fixpoint ref_run (s : st) (es : list event) : list (st * result ret) :=
  match es with
  | [] => []
  | e :: r => let '(s', rt) := ref_step s e in (s', rt) :: ref_run s' r
  end.

End Spec.

(* ---------- statements' vocabulary ---------- *)

(* pos_inv *)
Definition Inv (s : st) : Prop := 0 <= pos s <= zlen (text s).

(* signals_order: sg announces exactly the chain of texts t0 -> ... -> t1:
   change(new) while the text is still the old one, then postchange(old) while it is the new one *)
Fixpoint chain (t0 : list Z) (sg : list sig) (t1 : list Z) : Prop :=
  match sg with
  | [] => t0 = t1
  | SChange new cur _ :: SPost old cur' _ :: r => cur = t0 /\ old = t0 /\ cur' = new /\ chain new r t1
  | _ => False
  end.

(* numeric_alphabet_inv: every character is in the alphabet, apart from one leading '-' when
   negatives are allowed *)
Definition num_ok (alpha : Z -> bool) (neg : bool) (t : list Z) : bool :=
  match t with
  | [] => true
  | c :: r => (alpha c || (neg && (c =? 45))) && forallb alpha r
  end.

(* ASCII upper-casing and the alphabet of a NumEdit: the characters of the [allowed] string and the
   characters whose ASCII upper case is in it *)
Definition ascii_upper (c : Z) : Z := if (97 <=? c) && (c <=? 122) then c - 32 else c.
Definition num_alpha (allowed : list Z) (c : Z) : bool := memz c allowed || memz (ascii_upper c) allowed.
Definition int_alpha (c : Z) : bool := (48 <=? c) && (c <=? 57).
