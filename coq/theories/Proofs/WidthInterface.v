(* C11 - INTERFACE for sibling properties (C02/C03/C10 ...): the facts about urwid's width arithmetic, one
   block per encoding mode, under stable names [wi_<mode>_<fact>].  Import this file read-only.

   str      : text = list of code points, offsets = character indices
   utf8     : text = [encs s] for [scalars s], character k starts at byte [boff s k]
   wide     : text = [dbflat cs] for [dbwf cs] (boolean [dbwfb]), character k starts at byte [dboff cs k]
   narrow   : text = any bytes, one column and one character per byte
   Width function: any [wcw] with [wcw c <= 2]; [wcwidth_tab] (the dumped table) satisfies it
   ([wi_table_bounded]). *)
From Coq Require Import ZArith List Bool Lia ZifyBool.
Import ListNotations.
From Urwid Require Import PyBase PyList Utf8 wcwidth_table_gen str_util_gen Width WidthFacts WidthProofs
     Utf8Proofs WideProofs WideExact RleProofs WidthTableProofs WidthTop.
Open Scope Z_scope.
Arguments Z.add : simpl never.
Arguments Z.sub : simpl never.
Arguments Z.mul : simpl never.
Arguments Z.ltb : simpl never.
Arguments Z.leb : simpl never.
Arguments Z.eqb : simpl never.
Arguments Z.of_nat : simpl never.
Arguments Z.to_nat : simpl never.

(* ================= well-formed double-byte text, by character index ================= *)
Definition dbchar_okb (c : dbchar) : bool :=
  match c with
  | DSingle b => (0 <=? b) && (b <? 128)
  | DDouble l t => (129 <=? l) && (l <=? 255) && (((64 <=? t) && (t <=? 126)) || ((128 <=? t) && (t <=? 255)))
  end.
Definition dbwfb (cs : list dbchar) : bool := forallb dbchar_okb cs.
Definition dbwf (cs : list dbchar) : Prop := Forall dbchar_ok cs.
Definition dboff (cs : list dbchar) (k : Z) : Z := zlen (dbflat (takez k cs)).

Lemma dbchar_okb_ok c : dbchar_okb c = true <-> dbchar_ok c.
Proof. destruct c; cbn [dbchar_okb dbchar_ok]; lia. Qed.

Lemma wi_wide_dbwfb cs : dbwfb cs = true <-> dbwf cs.
Proof.
  unfold dbwfb, dbwf. rewrite forallb_forall, Forall_forall. split; intros H x Hx; apply dbchar_okb_ok, H, Hx.
Qed.

Lemma split_at_gen {A} (s : list A) a : 0 <= a < zlen s ->
  exists c, s = takez a s ++ c :: dropz (a + 1) s /\ nthz s a = Some c.
Proof.
  intros H. pose proof (takez_dropz_split s a (a + 1) ltac:(lia) ltac:(lia)) as S.
  replace (a + 1 - a) with 1 in S by lia.
  assert (L : zlen (takez 1 (dropz a s)) = 1) by (rewrite zlen_takez, zlen_dropz by lia; lia).
  destruct (takez 1 (dropz a s)) as [|c [|c2 t]] eqn:Et.
  - change (zlen (@nil A)) with 0 in L. lia.
  - exists c. split; [exact S|]. rewrite S at 1.
    replace a with (zlen (takez a s)) at 3 by (apply zlen_takez_in; lia). apply nthz_app_mid.
  - rewrite !zlen_cons in L. pose proof (zlen_nonneg t). lia.
Qed.

Lemma wi_wide_dboff_0 cs : dboff cs 0 = 0.
Proof. reflexivity. Qed.

Lemma wi_wide_dboff_full cs : dboff cs (zlen cs) = zlen (dbflat cs).
Proof. unfold dboff, takez. rewrite to_nat_zlen, firstn_all. reflexivity. Qed.

Lemma dboff_split cs a b : 0 <= a <= b -> b <= zlen cs ->
  dboff cs b = dboff cs a + zlen (dbflat (takez (b - a) (dropz a cs))).
Proof.
  intros H1 H2. unfold dboff. rewrite <- zlen_app, <- dbflat_app. f_equal. f_equal.
  pose proof (slice_split cs 0 a b ltac:(lia) ltac:(lia) H2) as S.
  replace (a - 0) with a in S by lia. replace (b - 0) with b in S by lia. exact S.
Qed.

Lemma wi_wide_dboff_succ cs k c : 0 <= k < zlen cs -> nthz cs k = Some c ->
  dboff cs (k + 1) = dboff cs k + zlen (dbbytes c).
Proof.
  intros H Hn. rewrite (dboff_split cs k (k + 1)) by lia. f_equal. replace (k + 1 - k) with 1 by lia.
  destruct (split_at_gen cs k H) as (c' & Es & Hn'). rewrite Hn in Hn'. inversion Hn'. subst c'.
  assert (E : takez 1 (dropz k cs) = [c]).
  { rewrite Es at 1. replace k with (zlen (takez k cs)) at 1 by (apply zlen_takez_in; lia).
    rewrite dropz_app_exact. reflexivity. }
  rewrite E. cbn [dbflat flat_map]. now rewrite app_nil_r.
Qed.

Lemma wi_wide_dboff_mono cs a b : 0 <= a <= b -> b <= zlen cs -> dboff cs a <= dboff cs b.
Proof. intros. rewrite (dboff_split cs a b) by lia. pose proof (zlen_nonneg (dbflat (takez (b - a) (dropz a cs)))). lia. Qed.

Lemma wi_wide_dboff_strict cs a b : 0 <= a < b -> b <= zlen cs -> dboff cs a < dboff cs b.
Proof.
  intros H1 H2. destruct (split_at_gen cs a ltac:(lia)) as (c & _ & Hn).
  pose proof (wi_wide_dboff_succ cs a c ltac:(lia) Hn). pose proof (zlen_dbbytes c).
  pose proof (wi_wide_dboff_mono cs (a + 1) b ltac:(lia) H2). lia.
Qed.

(* cs = takez a cs ++ (characters a .. k-1) ++ c :: rest *)
Lemma db_decompose cs a k c : 0 <= a <= k -> k < zlen cs -> nthz cs k = Some c ->
  cs = takez a cs ++ (takez (k - a) (dropz a cs) ++ c :: dropz (k + 1) cs) /\
  dboff cs k = zlen (dbflat (takez a cs)) + zlen (dbflat (takez (k - a) (dropz a cs))).
Proof.
  intros H1 H2 Hn. destruct (split_at_gen cs k ltac:(lia)) as (c' & Es & Hn'). rewrite Hn in Hn'. inversion Hn'. subst c'.
  split.
  - rewrite app_assoc. rewrite Es at 1. f_equal.
    pose proof (slice_split cs 0 a k ltac:(lia) ltac:(lia) ltac:(lia)) as S.
    replace (a - 0) with a in S by lia. replace (k - 0) with k in S by lia. exact S.
  - apply (dboff_split cs a k); lia.
Qed.

(* ---- classification: exactly 0 / 1 / 2 per the lead/trail structure, from any earlier boundary ---- *)
Theorem wi_wide_within_double_byte cs a k c :
  dbwf cs -> 0 <= a <= k -> k < zlen cs -> nthz cs k = Some c ->
  match c with
  | DSingle _ => within_double_byte (dbflat cs) (dboff cs a) (dboff cs k) = Ok 0
  | DDouble _ _ => within_double_byte (dbflat cs) (dboff cs a) (dboff cs k) = Ok 1 /\
                   within_double_byte (dbflat cs) (dboff cs a) (dboff cs k + 1) = Ok 2
  end.
Proof.
  intros Hwf H1 H2 Hn. destruct (db_decompose cs a k c H1 H2 Hn) as [Es Ek].
  assert (Hwf2 : Forall dbchar_ok (takez (k - a) (dropz a cs) ++ c :: dropz (k + 1) cs)).
  { unfold dbwf in Hwf. rewrite Es in Hwf. apply Forall_app in Hwf. tauto. }
  pose proof (wdb_exact (dbflat (takez a cs)) (takez (k - a) (dropz a cs)) c (dropz (k + 1) cs) [] Hwf2) as X.
  cbn zeta in X. rewrite app_nil_r in X. rewrite <- dbflat_app, <- Es in X. rewrite <- Ek in X. exact X.
Qed.

(* every byte position is a first byte or the second byte of a double character *)
Lemma wi_wide_locate cs P : 0 <= P < zlen (dbflat cs) ->
  exists k c, 0 <= k < zlen cs /\ nthz cs k = Some c /\
    (P = dboff cs k \/ (P = dboff cs k + 1 /\ exists l t, c = DDouble l t)).
Proof.
  intros HP. destruct (classify cs P HP) as (m1 & c & m2 & E & Hcl).
  exists (zlen m1), c. pose proof (zlen_nonneg m1). pose proof (zlen_nonneg m2).
  split; [rewrite E, zlen_app, zlen_cons; lia|]. split; [rewrite E; apply nthz_app_mid|].
  unfold dboff. rewrite E, takez_app_exact. exact Hcl.
Qed.

Theorem wi_wide_move_next_char cs k c e :
  dbwf cs -> 0 <= k < zlen cs -> nthz cs k = Some c -> dboff cs k < e ->
  move_next_char MWide (dbflat cs) (dboff cs k) e = Ok (dboff cs (k + 1)).
Proof.
  intros Hwf Hk Hn He. rewrite (wi_wide_dboff_succ cs k c Hk Hn).
  pose proof (wi_wide_within_double_byte cs k k c Hwf ltac:(lia) ltac:(lia) Hn) as X.
  unfold move_next_char. destruct (e <=? dboff cs k) eqn:E; [lia|].
  destruct c as [b|l t].
  - rewrite X. cbn [dbbytes]. change (zlen [b]) with 1. reflexivity.
  - destruct X as [X _]. rewrite X. cbn [dbbytes]. change (zlen [l; t]) with 2. reflexivity.
Qed.

Theorem wi_wide_move_prev_char cs a k :
  dbwf cs -> 0 <= a < k -> k <= zlen cs ->
  move_prev_char MWide (dbflat cs) (dboff cs a) (dboff cs k) = Ok (dboff cs (k - 1)).
Proof.
  intros Hwf H1 H2. destruct (split_at_gen cs (k - 1) ltac:(lia)) as (c & _ & Hn).
  pose proof (wi_wide_dboff_succ cs (k - 1) c ltac:(lia) Hn) as S. replace (k - 1 + 1) with k in S by lia.
  pose proof (wi_wide_within_double_byte cs a (k - 1) c Hwf ltac:(lia) ltac:(lia) Hn) as X.
  pose proof (wi_wide_dboff_mono cs a (k - 1) ltac:(lia) ltac:(lia)).
  pose proof (zlen_dbbytes c).
  unfold move_prev_char. destruct (dboff cs k <=? dboff cs a) eqn:E; [lia|].
  destruct c as [b|l t]; cbn [dbbytes] in S.
  - change (zlen [b]) with 1 in S. replace (dboff cs k - 1) with (dboff cs (k - 1)) by lia. rewrite X.
    destruct (0 =? 2) eqn:Q; [lia|]. f_equal.
  - change (zlen [l; t]) with 2 in S. replace (dboff cs k - 1) with (dboff cs (k - 1) + 1) by lia.
    destruct X as [_ X]. rewrite X. destruct (2 =? 2) eqn:Q; [|lia]. f_equal. lia.
Qed.

Theorem wi_wide_move_next_prev_inverse cs k c e :
  dbwf cs -> 0 <= k < zlen cs -> nthz cs k = Some c -> dboff cs k < e ->
  exists n, move_next_char MWide (dbflat cs) (dboff cs k) e = Ok n /\ n = dboff cs (k + 1) /\
            move_prev_char MWide (dbflat cs) (dboff cs k) n = Ok (dboff cs k).
Proof.
  intros Hwf Hk Hn He. exists (dboff cs (k + 1)). split; [eapply wi_wide_move_next_char; eassumption|].
  split; [reflexivity|]. rewrite (wi_wide_move_prev_char cs k (k + 1)) by (assumption || lia). f_equal. f_equal. lia.
Qed.

Theorem wi_wide_move_next_prev_boundaries cs : dbwf cs ->
  (forall k c e, 0 <= k < zlen cs -> nthz cs k = Some c -> dboff cs k < e ->
     move_next_char MWide (dbflat cs) (dboff cs k) e = Ok (dboff cs (k + 1))) /\
  (forall a k, 0 <= a < k -> k <= zlen cs ->
     move_prev_char MWide (dbflat cs) (dboff cs a) (dboff cs k) = Ok (dboff cs (k - 1))).
Proof.
  intros Hwf. split; [intros k c e; exact (wi_wide_move_next_char cs k c e Hwf)|intros a k; exact (wi_wide_move_prev_char cs a k Hwf)].
Qed.

Section Modes.
Variable wcw : Z -> Z.

Theorem wi_wide_calc_width cs a b :
  0 <= a <= b -> b <= zlen cs ->
  calc_width wcw MWide (dbflat cs) (dboff cs a) (dboff cs b) = Ok (dboff cs b - dboff cs a).
Proof. intros. apply calc_width_bytes_count; [now left|apply wi_wide_dboff_mono; lia]. Qed.

Theorem wi_wide_calc_width_app cs a b c :
  0 <= a <= b -> b <= c -> c <= zlen cs ->
  exists w1 w2, calc_width wcw MWide (dbflat cs) (dboff cs a) (dboff cs b) = Ok w1 /\
                calc_width wcw MWide (dbflat cs) (dboff cs b) (dboff cs c) = Ok w2 /\
                calc_width wcw MWide (dbflat cs) (dboff cs a) (dboff cs c) = Ok (w1 + w2).
Proof.
  intros. exists (dboff cs b - dboff cs a), (dboff cs c - dboff cs b).
  rewrite !wi_wide_calc_width by lia. repeat split. f_equal. lia.
Qed.

Theorem wi_wide_is_wide_char cs k c :
  dbwf cs -> 0 <= k < zlen cs -> nthz cs k = Some c ->
  is_wide_char wcw MWide (dbflat cs) (dboff cs k) = Ok (match c with DSingle _ => false | DDouble _ _ => true end).
Proof.
  intros Hwf Hk Hn. pose proof (wi_wide_within_double_byte cs k k c Hwf ltac:(lia) ltac:(lia) Hn) as X.
  unfold is_wide_char. destruct c; [rewrite X|destruct X as [X _]; rewrite X]; reflexivity.
Qed.

(* the offset found is a character boundary, its column is the byte count, not beyond the request, maximal *)
Theorem wi_wide_calc_text_pos cs a b col :
  dbwf cs -> 0 <= a <= b -> b <= zlen cs -> 0 <= col ->
  exists p c, calc_text_pos wcw MWide (dbflat cs) (dboff cs a) (dboff cs b) col = Ok (dboff cs p, c) /\
    a <= p <= b /\ c = dboff cs p - dboff cs a /\ c <= col /\
    (p = b \/ exists ch, nthz cs p = Some ch /\ col < c + zlen (dbbytes ch)).
Proof.
  intros Hwf H1 H2 Hc.
  pose proof (wi_wide_dboff_mono cs a b H1 H2) as Mab.
  pose proof (wi_wide_dboff_mono cs b (zlen cs) ltac:(lia) ltac:(lia)) as Mb. rewrite wi_wide_dboff_full in Mb.
  pose proof (wi_wide_dboff_mono cs 0 a ltac:(lia) ltac:(lia)) as Ma. rewrite wi_wide_dboff_0 in Ma.
  destruct (calc_text_pos_wide_spec wcw (dbflat cs) (dboff cs a) (dboff cs b) col ltac:(lia) Mb Hc)
    as (P & c & E & HP & Hcc & Hle & Hmax & Hn2 & H1st).
  destruct (Z.eq_dec P (dboff cs b)) as [->|HPb].
  - exists b, c. split; [exact E|]. split; [lia|]. split; [exact Hcc|]. split; [exact Hle|now left].
  - assert (HPlt : P < dboff cs b) by lia.
    destruct (wi_wide_locate cs P ltac:(lia)) as (k & ch & Hk & Hnk & Hloc).
    (* a <= k < b *)
    pose proof (wi_wide_dboff_succ cs k ch Hk Hnk) as Sk. pose proof (zlen_dbbytes ch) as Lk.
    assert (Hak : a <= k).
    { destruct (Z_lt_le_dec k a) as [Hlt|]; [|lia].
      pose proof (wi_wide_dboff_mono cs (k + 1) a ltac:(lia) ltac:(lia)).
      destruct Hloc as [->|[-> (l & t & ->)]]; [lia|]. cbn [dbbytes] in Sk. change (zlen [l; t]) with 2 in Sk. lia. }
    assert (Hkb : k < b).
    { destruct (Z_lt_le_dec k b) as [|Hge]; [assumption|].
      pose proof (wi_wide_dboff_mono cs b k ltac:(lia) ltac:(lia)). destruct Hloc as [->|[-> _]]; lia. }
    pose proof (wi_wide_within_double_byte cs a k ch Hwf ltac:(lia) ltac:(lia) Hnk) as X.
    destruct Hloc as [->|[-> (l & t & ->)]].
    + exists k, c. split; [exact E|]. split; [lia|]. split; [exact Hcc|]. split; [exact Hle|]. right.
      exists ch. split; [exact Hnk|].
      destruct Hmax as [Hmax|Hmax]; [lia|].
      destruct (Z.eq_dec c col) as [->|Hne]; [lia|]. assert (Hc1 : c = col - 1) by lia.
      specialize (H1st HPlt Hc1). destruct ch as [bb|l t]; [rewrite X in H1st; discriminate|].
      cbn [dbbytes]. change (zlen [l; t]) with 2. lia.
    + exfalso. destruct X as [_ X]. destruct (Hn2 HPlt) as (r & Er & Hr). rewrite X in Er. inversion Er. lia.
Qed.

(* ================= narrow ================= *)
Theorem wi_narrow_calc_width text a b : a <= b -> calc_width wcw MNarrow text a b = Ok (b - a).
Proof. intros. apply calc_width_bytes_count; [now right|assumption]. Qed.

Theorem wi_narrow_calc_text_pos text a b col :
  0 <= a <= b -> 0 <= col ->
  calc_text_pos wcw MNarrow text a b col = Ok (Z.min b (a + col), Z.min b (a + col) - a).
Proof. apply calc_text_pos_narrow_spec. Qed.

Theorem wi_narrow_calc_trim_text text a b sc ec :
  0 <= a <= b -> 0 <= sc < ec -> ec <= b - a -> calc_trim_text wcw MNarrow text a b sc ec = Ok (a + sc, a + ec, 0, 0).
Proof. apply calc_trim_text_narrow_spec. Qed.

Theorem wi_narrow_is_wide_char text a : is_wide_char wcw MNarrow text a = Ok false.
Proof. reflexivity. Qed.

(* ================= utf8 ================= *)
Theorem wi_utf8_calc_width s a b :
  scalars s -> 0 <= a <= b -> b <= zlen s ->
  calc_width wcw MUtf8 (encs s) (boff s a) (boff s b) = calc_width wcw MStr s a b.
Proof. intros. apply calc_width_utf8_agrees; assumption. Qed.

Theorem wi_utf8_calc_width_app s a b c :
  scalars s -> 0 <= a <= b -> b <= c -> c <= zlen s ->
  exists w1 w2, calc_width wcw MUtf8 (encs s) (boff s a) (boff s b) = Ok w1 /\
                calc_width wcw MUtf8 (encs s) (boff s b) (boff s c) = Ok w2 /\
                calc_width wcw MUtf8 (encs s) (boff s a) (boff s c) = Ok (w1 + w2).
Proof.
  intros Hs H1 H2 H3. rewrite !wi_utf8_calc_width by (assumption || lia).
  apply calc_width_app_str; lia.
Qed.

Theorem wi_utf8_calc_text_pos s a b col :
  scalars s -> 0 <= a <= b -> b <= zlen s -> 0 <= col ->
  exists p c, calc_text_pos wcw MUtf8 (encs s) (boff s a) (boff s b) col = Ok (boff s p, c) /\
    a <= p <= b /\ calc_width wcw MUtf8 (encs s) (boff s a) (boff s p) = Ok c /\ c <= col /\
    (p = b \/ exists ch, nthz s p = Some ch /\ col < c + cw wcw ch).
Proof.
  intros Hs H1 H2 Hc.
  destruct (top_bytes_agree wcw s a b col Hs H1 H2) as [_ (p & c & E1 & Hp & E2)].
  destruct (top_calc_text_pos_spec wcw s a b col H1 H2 Hc) as (p' & c' & E1' & _ & Hw & Hle & Hmax & _).
  rewrite E1 in E1'. inversion E1'. subst p' c'.
  exists p, c. split; [exact E2|]. split; [exact Hp|]. split; [rewrite wi_utf8_calc_width by (assumption || lia); exact Hw|].
  split; [exact Hle|exact Hmax].
Qed.

End Modes.

Theorem wi_narrow_move_next_char text a b : a < b -> move_next_char MNarrow text a b = Ok (a + 1).
Proof. intros. unfold move_next_char. destruct (b <=? a) eqn:E; [lia|reflexivity]. Qed.

Theorem wi_narrow_move_prev_char text a b : a < b -> move_prev_char MNarrow text a b = Ok (b - 1).
Proof. intros. unfold move_prev_char. destruct (b <=? a) eqn:E; [lia|reflexivity]. Qed.

Theorem wi_utf8_move_next_char s a b :
  scalars s -> 0 <= a < b -> b <= zlen s -> move_next_char MUtf8 (encs s) (boff s a) (boff s b) = Ok (boff s (a + 1)).
Proof. intros Hs. apply move_next_char_utf8. apply scalars_cp, Hs. Qed.

Theorem wi_utf8_move_prev_char s a b :
  scalars s -> 0 <= a < b -> b <= zlen s -> move_prev_char MUtf8 (encs s) (boff s a) (boff s b) = Ok (boff s (b - 1)).
Proof. apply top_prev_utf8. Qed.

Theorem wi_utf8_boff_mono s a b : 0 <= a <= b -> b <= zlen s -> boff s a <= boff s b.
Proof. apply boff_mono. Qed.

(* str: re-exports *)
Definition wi_str_calc_width_app := calc_width_app_str.
Definition wi_str_calc_text_pos := top_calc_text_pos_spec.
Definition wi_str_calc_trim_text := top_trim_str.
Definition wi_utf8_calc_trim_text := top_trim_utf8.
Definition wi_wide_calc_trim_text := calc_trim_text_wide.
Definition wi_utf8_decode_one := top_utf8_roundtrip.
Definition wi_table_bounded := wcwidth_tab_le_2.
Definition wi_cw_range := cw_range.

(* non-vacuity: EUC-JP "あaい" *)
Example wi_wide_example :
  dbwfb [DDouble 164 162; DSingle 97; DDouble 164 164] = true /\
  dboff [DDouble 164 162; DSingle 97; DDouble 164 164] 2 = 3 /\
  calc_text_pos wcwidth_tab MWide (dbflat [DDouble 164 162; DSingle 97; DDouble 164 164]) 0 5 4 = Ok (3, 3).
Proof. vm_compute. repeat split. Qed.
