(* C07 - proofs, part 8: every state a list box operation returns is reached from the state it was
   given by a chain of atomic transitions: the two writers, walker set_focus calls on existing
   positions, updates of the pending flags and cursor moves inside the focus widget.  Invariants of
   the atomic transitions are therefore invariants of every operation and of every history. *)
From Coq Require Import ZArith List Bool Lia ZifyBool.
Import ListNotations.
From Urwid Require Import PyBase ListBoxView ListBoxViewProofs ListBoxWindowProofs ListBoxHistoryProofs
  ListBoxMouseProofs ListBoxPendingProofs ListBoxPageProofs.
Open Scope Z_scope.

Inductive Atom : lb -> lb -> Prop :=
  | A_pend s p : Atom s (set_pend s p)
  | A_vpend s v : Atom s (set_vpend s v)
  | A_body s p w : nthz (items s) p = Some w -> Atom s (set_body_focus s p)
  | A_shift s m oi s' : shift_focus s m oi = Ok s' -> Atom s s'
  | A_change s m p oi cf sr s' : change_focus_sr s m p oi cf sr = Ok s' -> Atom s s'
  | A_cursor s w' : Atom s (set_items s (replace_nth (Z.to_nat (focus s)) (items s) w') (focus s)).

Inductive Reach : lb -> lb -> Prop :=
  | R_refl s : Reach s s
  | R_step s s1 s2 : Reach s s1 -> Atom s1 s2 -> Reach s s2.

Lemma reach_trans s s1 s2 : Reach s s1 -> Reach s1 s2 -> Reach s s2.
Proof. intros H1 H2. induction H2; [assumption|]. eapply R_step; [apply IHReach; assumption | eassumption]. Qed.

Lemma reach_atom s s' : Atom s s' -> Reach s s'.
Proof. intros H. eapply R_step; [apply R_refl | exact H]. Qed.

Ltac rstep := eapply R_step; [eassumption|].

(* ---------- the widgets reported by calculate_visible are widgets of the list ---------- *)
Lemma fill_up2_incl : forall above fl o trt acc,
  incl (fst (fst (fst (fill_up2 above fl o trt acc)))) (acc ++ above) /\
  incl (snd (fst (fst (fill_up2 above fl o trt acc)))) above.
Proof.
  induction above as [|[pos p] rest IH]; intros fl o trt acc; cbn [fill_up2].
  - destruct (fl <=? 0); cbn [fst snd]; split; intros x Hx; auto; rewrite app_nil_r; assumption.
  - destruct (fl <=? 0); cbn [fst snd]; [split; intros x Hx; [apply in_or_app; now left | assumption]|].
    destruct (fl <? p); cbn [fst snd].
    + split; [|intros x Hx; now right]. intros x Hx. destruct (p =? 0); [apply in_or_app; now left|].
      apply in_app_or in Hx. apply in_or_app. destruct Hx as [Hx|[<-|[]]]; [now left | right; now left].
    + destruct (IH (fl - p) o trt (if p =? 0 then acc else acc ++ [(pos, p)])) as [H1 H2].
      split; [|intros x Hx; right; now apply H2]. intros x Hx. specialize (H1 x Hx).
      apply in_app_or in H1. apply in_or_app. destruct H1 as [H1|H1]; [|right; now right].
      destruct (p =? 0); [now left|]. apply in_app_or in H1. destruct H1 as [H1|[<-|[]]]; [now left | right; now left].
Qed.

Lemma fill_down_incl : forall below fl trb acc, incl (fst (fst (fill_down below fl trb acc))) (acc ++ below).
Proof.
  induction below as [|[pos p] rest IH]; intros fl trb acc; cbn [fill_down].
  - destruct (fl <=? 0); cbn [fst]; intros x Hx; rewrite app_nil_r; assumption.
  - destruct (fl <=? 0); cbn [fst]; [intros x Hx; apply in_or_app; now left|].
    destruct (fl <? p); cbn [fst].
    + intros x Hx. destruct (p =? 0); [apply in_or_app; now left|].
      apply in_app_or in Hx. apply in_or_app. destruct Hx as [Hx|[<-|[]]]; [now left | right; now left].
    + intros x Hx. specialize (IH (fl - p) trb (if p =? 0 then acc else acc ++ [(pos, p)]) x Hx).
      apply in_app_or in IH. apply in_or_app. destruct IH as [H1|H1]; [|right; now right].
      destruct (p =? 0); [now left|]. apply in_app_or in H1. destruct H1 as [H1|[<-|[]]]; [now left | right; now left].
Qed.

Lemma fill_up4_incl : forall above fl o trt acc, incl (fst (fst (fill_up4 above fl o trt acc))) (acc ++ above).
Proof.
  induction above as [|[pos p] rest IH]; intros fl o trt acc; cbn [fill_up4].
  - destruct (fl <=? 0); cbn [fst]; intros x Hx; rewrite app_nil_r; assumption.
  - destruct (fl <=? 0); cbn [fst]; [intros x Hx; apply in_or_app; now left|].
    destruct (fl <? p); cbn [fst].
    + intros x Hx. apply in_app_or in Hx. apply in_or_app. destruct Hx as [Hx|[<-|[]]]; [now left | right; now left].
    + intros x Hx. specialize (IH (fl - p) (o + p) trt (acc ++ [(pos, p)]) x Hx).
      apply in_app_or in IH. apply in_or_app. destruct IH as [H1|H1]; [|right; now right].
      apply in_app_or in H1. destruct H1 as [H1|[<-|[]]]; [now left | right; now left].
Qed.

Lemma calc_vis_incl : forall above below fpos h o n d m cur v,
  calc_vis above below fpos h o n d m cur = Ok v ->
  incl (v_above v) above /\ incl (v_below v) below /\ v_fpos v = fpos.
Proof.
  intros above below fpos h o n d m cur v. unfold calc_vis.
  destruct (focus_offset_inset h o n d) as [[o0 i0]|]; [|discriminate].
  destruct (cursor_adjust m (clamp_offset m o0) i0 cur) as [o1 i1].
  pose proof (fill_up2_incl above o1 o1 i1 []) as [H2a H2b].
  destruct (fill_up2 above o1 o1 i1 []) as [[[fa ra] o2] t2]. cbn [fst snd app] in H2a, H2b.
  match goal with |- context [fill_down below ?fl ?tb []] =>
    pose proof (fill_down_incl below fl tb []) as H3; destruct (fill_down below fl tb []) as [[fb fl3] tb3] end.
  cbn [fst app] in H3.
  destruct (refill_top (Z.max 0 fl3) o2 t2) as [[fl4 o4] t4].
  pose proof (fill_up4_incl ra fl4 o4 t4 fa) as H4.
  destruct (fill_up4 ra fl4 o4 t4 fa) as [[fa4 o5] t5]. cbn [fst] in H4.
  intros [= <-]. cbn [v_above v_below v_fpos]. split; [|split; [assumption | reflexivity]].
  intros x Hx. specialize (H4 x Hx). apply in_app_or in H4. destruct H4 as [H|H]; [now apply H2a | now apply H2b].
Qed.

Lemma number_valid : forall l s p rw, In (p, rw) (number s l) -> exists w, nthz l (p - s) = Some w.
Proof. intros l s p rw H. destruct (number_In _ _ _ _ H) as (w & Hw & _). now exists w. Qed.

Lemma visible_positions : forall its f o n d m ff v,
  visible its f o n d m ff = Ok (Some v) ->
  v_fpos v = f /\ (exists w, nthz its f = Some w) /\
  forall p rw, In (p, rw) (v_above v) \/ In (p, rw) (v_below v) -> exists w, nthz its p = Some w.
Proof.
  intros its f o n d m ff v. unfold visible. destruct (nthz its f) as [w|] eqn:Hw; [|discriminate].
  destruct (calc_vis _ _ _ _ _ _ _ _ _) as [v'|] eqn:Ec; [|discriminate]. intros [= <-].
  destruct (calc_vis_incl _ _ _ _ _ _ _ _ _ _ Ec) as (Ha & Hb & Hf).
  pose proof (nthz_lt _ _ _ Hw) as Hlt.
  split; [assumption|]. split; [now exists w|]. intros p rw [H|H].
  - apply Ha in H. unfold above_of in H. apply in_rev in H. apply In_number_takez in H.
    destruct (number_valid _ _ _ _ H) as (w' & Hw'). replace (p - 0) with p in Hw' by lia. now exists w'.
  - apply Hb in H. unfold below_of in H. apply In_number_dropz in H; [|lia].
    destruct (number_valid _ _ _ _ H) as (w' & Hw'). replace (p - 0) with p in Hw' by lia. now exists w'.
Qed.

Lemma In_removelast {A} (l : list A) x : In x (removelast l) -> In x l.
Proof.
  induction l as [|a l IH]; cbn [removelast]; [intros []|]. destruct l as [|b l]; [intros []|].
  intros [<-|H]; [now left | right; now apply IH].
Qed.

Lemma first_sel_scan_In : forall its fb off pos nro, first_sel_scan its fb off = Some (pos, nro) -> exists rw, In (pos, rw) fb.
Proof.
  induction fb as [|[p rows] fb IH]; intros off pos nro H; cbn [first_sel_scan] in H; [discriminate|].
  destruct (sel_at its p); [inversion H; subst; exists rows; now left|].
  destruct (IH _ _ _ H) as (rw & Hrw). exists rw. now right.
Qed.

(* ---------- the operations ---------- *)
Lemma reach_shift s0 s m oi s' : Reach s0 s -> shift_focus s m oi = Ok s' -> Reach s0 s'.
Proof. intros H E. rstep. eapply A_shift; exact E. Qed.
Lemma reach_change_sr s0 s m p oi cf sr s' : Reach s0 s -> change_focus_sr s m p oi cf sr = Ok s' -> Reach s0 s'.
Proof. intros H E. rstep. eapply A_change; exact E. Qed.
Lemma reach_change s0 s m p oi cf s' : Reach s0 s -> change_focus s m p oi cf = Ok s' -> Reach s0 s'.
Proof. unfold change_focus. apply reach_change_sr. Qed.
Lemma reach_clear s0 s : Reach s0 s -> Reach s0 (clear_pending s).
Proof. intros H. unfold clear_pending. eapply R_step; [eapply R_step; [exact H | apply A_pend] | apply A_vpend]. Qed.

Lemma reach_mcv s0 s m s' : Reach s0 s -> make_cursor_visible s m = Ok s' -> Reach s0 s'.
Proof.
  intros Hs. unfold make_cursor_visible.
  destruct (nthz (items s) (focus s)) as [w|]; [|now intros [= <-]].
  destruct (negb (i_sel w)); [now intros [= <-]|].
  destruct (i_cy w) as [cy|]; [|now intros [= <-]].
  destruct (focus_offset_inset _ _ _ _) as [[o i]|]; [|discriminate].
  destruct (cy <? i); [now apply reach_shift|].
  destruct (m <=? o - i + cy); [now apply reach_shift|]. now intros [= <-].
Qed.

Lemma reach_first_selectable s0 s m ff s' : Reach s0 s -> set_focus_first_selectable s m ff = Ok s' -> Reach s0 s'.
Proof.
  intros Hs. unfold set_focus_first_selectable. pose proof (reach_clear _ _ Hs) as Hc.
  destruct (visible _ _ _ _ _ _ _) as [[v|]|] eqn:Ev; [| |discriminate].
  - destruct (sel_at _ _); [now intros [= <-]|].
    destruct (first_sel_scan _ _ _) as [[pos nro]|] eqn:Es; [|now intros [= <-]].
    destruct (first_sel_scan_In _ _ _ _ _ Es) as (rw & Hin).
    assert (Hin' : In (pos, rw) (v_below v)) by (destruct (negb (v_trim_bottom v =? 0)); [now apply In_removelast|assumption]).
    destruct (visible_positions _ _ _ _ _ _ _ _ Ev) as (_ & _ & Hp).
    destruct (Hp pos rw (or_intror Hin')) as (w & Hw).
    apply reach_shift. rstep. eapply A_body. exact Hw.
  - now intros [= <-].
Qed.

Lemma reach_valign_complete s0 s m ff va s' : Reach s0 s -> set_focus_valign_complete s m ff va = Ok s' -> Reach s0 s'.
Proof.
  intros Hs. unfold set_focus_valign_complete. pose proof (reach_clear _ _ Hs) as Hc.
  destruct (nthz _ _); [now apply reach_shift | now intros [= <-]].
Qed.

Lemma reach_pending_complete s0 s m ff s' : Reach s0 s -> set_focus_pending_complete s m ff = Ok s' -> Reach s0 s'.
Proof.
  intros Hs. unfold set_focus_pending_complete.
  destruct (pend s) as [| |cf old]; [now intros [= <-] | now intros [= <-] |].
  assert (H1 : Reach s0 (set_pend s PNone)) by (rstep; apply A_pend).
  cbn [items focus set_pend].
  destruct (nthz (items s) (focus s)) as [neww|] eqn:Hn; [|now intros [= <-]].
  destruct (old =? focus s); [now intros [= <-]|].
  destruct (nthz (items s) old) as [oldw|] eqn:Ho; [|now intros [= <-]].
  assert (H2 : Reach s0 (set_body_focus (set_pend s PNone) old)) by (rstep; eapply A_body; exact Ho).
  destruct (visible _ _ _ _ _ _ _) as [[v|]|]; [| discriminate | discriminate].
  destruct (find_above _ _ _); [now apply reach_change|].
  destruct (find_below _ _ _); [now apply reach_change|].
  apply reach_shift. rstep. eapply A_body. exact Hn.
Qed.

Lemma reach_complete s0 s m ff s' : Reach s0 s -> set_focus_complete s m ff = Ok s' -> Reach s0 s'.
Proof.
  intros Hs. unfold set_focus_complete.
  destruct (pend s) as [| |cf old]; try (now apply reach_first_selectable);
    (destruct (vpend s) as [va|]; [now apply reach_valign_complete | now apply reach_pending_complete]).
Qed.

Lemma reach_calculate_visible s0 s m ff s' ov : Reach s0 s -> calculate_visible s m ff = Ok (s', ov) -> Reach s0 s'.
Proof.
  intros Hs. unfold calculate_visible.
  destruct (set_focus_complete s m ff) as [s1|] eqn:E; [|discriminate].
  destruct (visible _ _ _ _ _ _ _); [|discriminate]. intros [= <- _]. eapply reach_complete; eassumption.
Qed.

Lemma reach_render s0 s m ff s' out : Reach s0 s -> render s m ff = Ok (s', out) -> Reach s0 s'.
Proof.
  intros Hs. unfold render.
  destruct (calculate_visible s m ff) as [[s1 [v|]]|] eqn:E; [| |discriminate].
  - destruct (render_vis _ _ _); [|discriminate]. intros [= <- _]. eapply reach_calculate_visible; eassumption.
  - intros [= <- _]. eapply reach_calculate_visible; eassumption.
Qed.

Definition kres_reach (s0 : lb) (r : kres) : Prop := match r with KDone s' => Reach s0 s' | _ => True end.

Lemma reach_up_for s0 s m : Reach s0 s -> forall fa l r, up_for s m fa l = Ok r -> kres_reach s0 r.
Proof.
  intros Hs. induction fa as [|[pos rows] fa IH]; intros l r; cbn [up_for]; [now intros [= <-]|].
  destruct (negb (rows =? 0) && sel_at (items s) pos); [|apply IH].
  destruct (change_focus _ _ _ _ _) eqn:E; [|discriminate]. intros [= <-]. cbn. eapply reach_change; eassumption.
Qed.
Lemma reach_up_while s0 s m : Reach s0 s -> forall pv l r, up_while s m pv l = Ok r -> kres_reach s0 r.
Proof.
  intros Hs. induction pv as [|[pos rows] pv IH]; intros l r; cbn [up_while].
  - destruct (l_ro l <=? 0); now intros [= <-].
  - destruct (l_ro l <=? 0); [now intros [= <-]|].
    destruct (negb (rows =? 0) && sel_at (items s) pos); [|apply IH].
    destruct (change_focus _ _ _ _ _) eqn:E; [|discriminate]. intros [= <-]. cbn. eapply reach_change; eassumption.
Qed.
Lemma reach_down_for s0 s m : Reach s0 s -> forall fb l r, down_for s m fb l = Ok r -> kres_reach s0 r.
Proof.
  intros Hs. induction fb as [|[pos rows] fb IH]; intros l r; cbn [down_for]; [now intros [= <-]|].
  destruct (negb (rows =? 0) && sel_at (items s) pos); [|apply IH].
  destruct (change_focus _ _ _ _ _) eqn:E; [|discriminate]. intros [= <-]. cbn. eapply reach_change; eassumption.
Qed.
Lemma reach_down_while s0 s m : Reach s0 s -> forall nx l r, down_while s m nx l = Ok r -> kres_reach s0 r.
Proof.
  intros Hs. induction nx as [|[pos rows] nx IH]; intros l r; cbn [down_while].
  - destruct (m <=? l_ro l); now intros [= <-].
  - destruct (m <=? l_ro l); [now intros [= <-]|].
    destruct (negb (rows =? 0) && sel_at (items s) pos); [|apply IH].
    destruct (change_focus _ _ _ _ _) eqn:E; [|discriminate]. intros [= <-]. cbn. eapply reach_change; eassumption.
Qed.

Lemma reach_lift_k s0 r s' b : lift_k r = Ok (s', b) -> (forall s1, r = Ok s1 -> Reach s0 s1) -> Reach s0 s'.
Proof. unfold lift_k. destruct r; [|discriminate]. intros [= <- _] H. now apply H. Qed.

Lemma reach_keypress_up s0 s m s' b : Reach s0 s -> keypress_up s m = Ok (s', b) -> Reach s0 s'.
Proof.
  intros Hs. unfold keypress_up.
  destruct (visible _ _ _ _ _ _ _) as [[v|]|]; [| now intros [= <- _] | discriminate].
  destruct (up_for _ _ _ _) as [[s1| |l1]|] eqn:E1; [| | |discriminate].
  - intros [= <- _]. apply (reach_up_for _ _ _ Hs _ _ _ E1).
  - now intros [= <- _].
  - destruct (up_while _ _ _ _) as [[s2| |l2]|] eqn:E2; [| | |discriminate].
    + intros [= <- _]. apply (reach_up_while _ _ _ Hs _ _ _ E2).
    + now intros [= <- _].
    + destruct (negb (sel_at (items s) (v_fpos v)) || (m <=? v_off_inset v + 1)).
      * destruct (l_wnone l2); intros H; apply (reach_lift_k _ _ _ _ H); intros sx; [now apply reach_shift | now apply reach_change].
      * destruct (v_cursor v) as [y|].
        -- destruct (m <=? y + v_off_inset v + 1).
           ++ match goal with |- context [match ?ol with Some _ => _ | None => _ end] => destruct ol as [l3|] end.
              ** intros H; apply (reach_lift_k _ _ _ _ H); intros sx; now apply reach_change.
              ** now intros [= <- _].
           ++ intros H; apply (reach_lift_k _ _ _ _ H); intros sx; now apply reach_shift.
        -- intros H; apply (reach_lift_k _ _ _ _ H); intros sx; now apply reach_shift.
Qed.

Lemma reach_keypress_down s0 s m s' b : Reach s0 s -> keypress_down s m = Ok (s', b) -> Reach s0 s'.
Proof.
  intros Hs. unfold keypress_down.
  destruct (visible _ _ _ _ _ _ _) as [[v|]|]; [| now intros [= <- _] | discriminate].
  destruct (down_for _ _ _ _) as [[s1| |l1]|] eqn:E1; [| | |discriminate].
  - intros [= <- _]. apply (reach_down_for _ _ _ Hs _ _ _ E1).
  - now intros [= <- _].
  - destruct (down_while _ _ _ _) as [[s2| |l2]|] eqn:E2; [| | |discriminate].
    + intros [= <- _]. apply (reach_down_while _ _ _ Hs _ _ _ E2).
    + now intros [= <- _].
    + destruct (negb (sel_at (items s) (v_fpos v)) || (v_off_inset v + v_frows v - 1 <=? 0)).
      * destruct (l_wnone l2); intros H; apply (reach_lift_k _ _ _ _ H); intros sx; [now apply reach_shift | now apply reach_change].
      * destruct (v_cursor v) as [y|].
        -- destruct (y + v_off_inset v - 1 <? 0).
           ++ match goal with |- context [match ?ol with Some _ => _ | None => _ end] => destruct ol as [l3|] end.
              ** intros H; apply (reach_lift_k _ _ _ _ H); intros sx; now apply reach_change.
              ** now intros [= <- _].
           ++ intros H; apply (reach_lift_k _ _ _ _ H); intros sx; now apply reach_shift.
        -- intros H; apply (reach_lift_k _ _ _ _ H); intros sx; now apply reach_shift.
Qed.

Definition pres_reach (s0 : lb) (r : pres) : Prop :=
  match r with PDone s' => Reach s0 s' | PCont st => Reach s0 (p_s st) end.

Lemma reach_pd_loop1 s0 m sr t : forall order st r, Reach s0 (p_s st) -> pd_loop1 m sr t order st = Ok r -> pres_reach s0 r.
Proof.
  induction order as [|i rest IH]; intros st r Hs; cbn [pd_loop1]; [now intros [= <-]|].
  destruct (nthz t i) as [[[ro pos] rows]|]; [|discriminate]. cbn [p_s].
  destruct (negb (sel_at (items (p_s st)) pos)); [apply IH; assumption|].
  destruct (rows =? 0); [apply IH; assumption|].
  destruct (ro + rows <=? 0); [apply IH; assumption|].
  match goal with |- context [match ?c with Ok _ => _ | Err _ => _ end] => destruct c as [s'|] eqn:Ec end; [|discriminate].
  assert (Hs' : Reach s0 s') by (destruct (m <=? ro); eapply reach_change_sr; eassumption).
  destruct (visible _ _ _ _ _ _ _) as [[v|]|]; [| discriminate | discriminate].
  destruct (v_off_inset v <? ro - sr); [apply IH; assumption|].
  destruct (ro <? v_off_inset v); [apply IH; assumption|].
  destruct (m <? v_off_inset v + rows); [apply IH; assumption|].
  now intros [= <-].
Qed.

Lemma reach_pu_loop1 s0 m sr t : forall order st r, Reach s0 (p_s st) -> pu_loop1 m sr t order st = Ok r -> pres_reach s0 r.
Proof.
  induction order as [|i rest IH]; intros st r Hs; cbn [pu_loop1]; [now intros [= <-]|].
  destruct (nthz t i) as [[[ro pos] rows]|]; [|discriminate]. cbn [p_s].
  destruct (negb (sel_at (items (p_s st)) pos)); [apply IH; assumption|].
  destruct (rows =? 0); [apply IH; assumption|].
  match goal with |- context [match ?c with Ok _ => _ | Err _ => _ end] => destruct c as [s'|] eqn:Ec end; [|discriminate].
  assert (Hs' : Reach s0 s') by (destruct (rows + ro <=? 0); eapply reach_change_sr; eassumption).
  destruct (visible _ _ _ _ _ _ _) as [[v|]|]; [| discriminate | discriminate].
  destruct (ro + sr <? v_off_inset v); [apply IH; assumption|].
  destruct (v_off_inset v <? ro); [apply IH; assumption|].
  destruct (v_off_inset v <? 0); [apply IH; assumption|].
  now intros [= <-].
Qed.

Lemma reach_pd_loop2 s0 s m sr fpos t : Reach s0 s ->
  forall order ro s' ro', pd_loop2 s m sr fpos t order ro = Ok (Some s', ro') -> Reach s0 s'.
Proof.
  intros Hs. induction order as [|i rest IH]; intros ro s' ro'; cbn [pd_loop2]; [discriminate|].
  destruct (nthz t i) as [[[ro0 pos] rows]|]; [|discriminate].
  destruct (pos =? fpos); [apply IH|]. destruct (rows =? 0); [apply IH|].
  destruct (ro0 + rows <=? 0); [apply IH|].
  destruct (m <=? ro0);
    (destruct (change_focus_sr _ _ _ _ _ _) as [s1|] eqn:Ec; [|discriminate]; intros [= <- _]; eapply reach_change_sr; eassumption).
Qed.

Lemma reach_pu_loop2 s0 s m sr fpos t : Reach s0 s ->
  forall order ro s' ro', pu_loop2 s m sr fpos t order ro = Ok (Some s', ro') -> Reach s0 s'.
Proof.
  intros Hs. induction order as [|i rest IH]; intros ro s' ro'; cbn [pu_loop2]; [discriminate|].
  destruct (nthz t i) as [[[ro0 pos] rows]|]; [|discriminate].
  destruct (pos =? fpos); [apply IH|]. destruct (rows =? 0); [apply IH|].
  destruct (rows + ro0 <=? 0);
    (destruct (change_focus_sr _ _ _ _ _ _) as [s1|] eqn:Ec; [|discriminate]; intros [= <- _]; eapply reach_change_sr; eassumption).
Qed.

Lemma reach_page_down s0 s m s' b : Reach s0 s -> keypress_page_down s m = Ok (s', b) -> Reach s0 s'.
Proof.
  intros Hs. unfold keypress_page_down.
  destruct (visible _ _ _ _ _ _ _) as [[v|]|]; [| now intros [= <- _] | discriminate].
  destruct (pd_gather s m v) as [[sr t0] srs]. destruct t0 as [|x0 tl]; [discriminate|].
  set (t := pd_candidates s m v).
  destruct (pd_loop1 _ _ _ _ _) as [[s1|st]|] eqn:E1; [| |discriminate].
  - intros [= <- _]. change (pres_reach s0 (PDone s1)). eapply reach_pd_loop1; [|exact E1]. exact Hs.
  - assert (Hst : pres_reach s0 (PCont st)) by (eapply reach_pd_loop1; [|exact E1]; exact Hs). cbn in Hst.
    destruct (p_cut st); [now intros [= <- _]|].
    destruct (pd_loop2 _ _ _ _ _ _ _) as [[[s2|] ro2]|] eqn:E2; [| |discriminate].
    + intros [= <- _]. eapply reach_pd_loop2; eassumption.
    + destruct (shift_focus _ _ _) as [s3|] eqn:E3; [|discriminate].
      pose proof (reach_shift _ _ _ _ _ Hst E3) as Hs3.
      destruct (visible _ _ _ _ _ _ _) as [[v2|]|]; [| discriminate | discriminate].
      destruct (v_off_inset v2 <=? ro2); [now intros [= <- _]|].
      destruct (rev t) as [|xl rt]; [now intros [= <- _]|].
      destruct (nthz (items s3) (t_pos xl + 1)); [|now intros [= <- _]].
      intros H. apply (reach_lift_k _ _ _ _ H). intros sx. now apply reach_change_sr.
Qed.

Lemma reach_page_up s0 s m s' b : Reach s0 s -> keypress_page_up s m = Ok (s', b) -> Reach s0 s'.
Proof.
  intros Hs. unfold keypress_page_up.
  destruct (visible _ _ _ _ _ _ _) as [[v|]|]; [| now intros [= <- _] | discriminate].
  destruct (pu_gather s m v) as [[sr t0] srs]. destruct t0 as [|x0 tl]; [discriminate|].
  set (t := pu_candidates s m v).
  destruct (pu_loop1 _ _ _ _ _) as [[s1|st]|] eqn:E1; [| |discriminate].
  - intros [= <- _]. change (pres_reach s0 (PDone s1)). eapply reach_pu_loop1; [|exact E1]. exact Hs.
  - assert (Hst : pres_reach s0 (PCont st)) by (eapply reach_pu_loop1; [|exact E1]; exact Hs). cbn in Hst.
    destruct (p_cut st); [now intros [= <- _]|].
    destruct (pu_loop2 _ _ _ _ _ _ _) as [[[s2|] ro2]|] eqn:E2; [| |discriminate].
    + intros [= <- _]. eapply reach_pu_loop2; eassumption.
    + destruct (shift_focus _ _ _) as [s3|] eqn:E3; [|discriminate].
      pose proof (reach_shift _ _ _ _ _ Hst E3) as Hs3.
      destruct (visible _ _ _ _ _ _ _) as [[v2|]|]; [| discriminate | discriminate].
      destruct (ro2 <=? v_off_inset v2); [now intros [= <- _]|].
      destruct (rev t) as [|xl rt]; [now intros [= <- _]|].
      destruct (nthz (items s3) (t_pos xl - 1)); [|now intros [= <- _]].
      intros H. apply (reach_lift_k _ _ _ _ H). intros sx. now apply reach_change_sr.
Qed.

Lemma reach_set_focus s0 s position cf s' : Reach s0 s -> set_focus s position cf = Ok s' -> Reach s0 s'.
Proof.
  intros Hs. unfold set_focus. destruct (nthz (items s) (focus s)); [|discriminate].
  cbn [items set_pend]. destruct (nthz (items s) position) as [w|] eqn:Hw; [|discriminate]. intros [= <-].
  eapply R_step; [eapply R_step; [exact Hs | apply A_pend]|]. eapply A_body. cbn. exact Hw.
Qed.

Lemma reach_keypress s0 s m k s' b : Reach s0 s -> keypress s m k = Ok (s', b) -> Reach s0 s'.
Proof.
  intros Hs. unfold keypress.
  destruct (set_focus_complete s m true) as [s1|] eqn:E; [|discriminate].
  pose proof (reach_complete _ _ _ _ _ Hs E) as Hs1.
  destruct (nthz (items s1) (focus s1)) as [w|]; [|now intros [= <- _]].
  destruct k as [| |dir| | | | |].
  - now apply reach_keypress_up.
  - now apply reach_keypress_down.
  - destruct (item_key w dir) as [w'|]; [|now intros [= <- _]].
    destruct (make_cursor_visible _ _) as [s2|] eqn:E2; [|discriminate]. intros [= <- _].
    eapply reach_mcv; [|eassumption]. rstep. apply A_cursor.
  - destruct (set_focus s1 0 CNone) as [s2|] eqn:E2; [|discriminate]. intros [= <- _].
    unfold set_focus_valign. eapply R_step; [eapply reach_set_focus; eassumption | apply A_vpend].
  - destruct (set_focus s1 _ CNone) as [s2|] eqn:E2; [|discriminate]. intros [= <- _].
    unfold set_focus_valign. eapply R_step; [eapply reach_set_focus; eassumption | apply A_vpend].
  - now apply reach_page_up.
  - now apply reach_page_down.
  - now intros [= <- _].
Qed.

Lemma reach_mouse s0 s m button row s' b : Reach s0 s -> mouse_press s m button row = Ok (s', b) -> Reach s0 s'.
Proof.
  intros Hs. unfold mouse_press.
  destruct (calculate_visible s m true) as [[s1 [v|]]|] eqn:E; [| |discriminate].
  2: { intros [= <- _]. eapply reach_calculate_visible; eassumption. }
  pose proof (reach_calculate_visible _ _ _ _ _ _ Hs E) as Hs1.
  destruct (find_row _ _ _) as [[w_pos wrow]|]; [|now intros [= <- _]].
  match goal with |- context [match ?r1 with Ok _ => _ | Err _ => _ end] => destruct r1 as [s2|] eqn:E2 end; [|discriminate].
  assert (Hs2 : Reach s0 s2).
  { destruct ((button =? 1) && sel_at (items s1) w_pos); [eapply reach_change; eassumption|]. now inversion E2; subst. }
  destruct (button =? 4).
  - destruct (keypress_up s2 m) as [[s3 u]|] eqn:E3; [|discriminate]. intros [= <- _]. eapply reach_keypress_up; eassumption.
  - destruct (button =? 5).
    + destruct (keypress_down s2 m) as [[s3 u]|] eqn:E3; [|discriminate]. intros [= <- _]. eapply reach_keypress_down; eassumption.
    + now intros [= <- _].
Qed.

(* operations of the list box itself (OSync and OItems bring foreign data) *)
Definition own_op (o : op) : bool := match o with OSync _ _ _ _ _ _ | OItems _ _ => false | _ => true end.

Lemma reach_step s o s' out : own_op o = true -> step s o = Ok (s', out) -> Reach s s'.
Proof.
  intros Ho. pose proof (R_refl s) as Hs. destruct o; cbn [step]; try discriminate.
  - destruct (render s maxrow fflag) as [[s1 [rows cur]]|] eqn:E; [|discriminate]. intros [= <- _]. eapply reach_render; eassumption.
  - destruct (keypress s maxrow k) as [[s1 b]|] eqn:E; [|discriminate]. intros [= <- _]. eapply reach_keypress; eassumption.
  - destruct (mouse_press s maxrow button row) as [[s1 b]|] eqn:E; [|discriminate]. intros [= <- _]. eapply reach_mouse; eassumption.
  - destruct (set_focus s position cf) as [s1|] eqn:E; [|discriminate]. intros [= <- _]. eapply reach_set_focus; eassumption.
  - intros [= <- _]. unfold set_focus_valign. rstep. apply A_vpend.
  - destruct (shift_focus s maxrow oi) as [s1|] eqn:E; [|discriminate]. intros [= <- _]. eapply reach_shift; eassumption.
  - destruct (change_focus s maxrow position oi cf) as [s1|] eqn:E; [|discriminate]. intros [= <- _]. eapply reach_change; eassumption.
  - destruct (make_cursor_visible s maxrow) as [s1|] eqn:E; [|discriminate]. intros [= <- _]. eapply reach_mcv; eassumption.
Qed.

(* ---------- the focus position stays inside the list ---------- *)
Definition FocR (s : lb) : Prop := items s = [] \/ 0 <= focus s < zlen (items s).

Lemma replace_nth_length {A} : forall n (l : list A) x, length (replace_nth n l x) = length l.
Proof. induction n; intros [|y l] x; cbn; auto. Qed.

Lemma atom_keeps s s' : Atom s s' -> zlen (items s') = zlen (items s) /\ (FocR s -> FocR s').
Proof.
  intros H. destruct H as [s p|s v|s p w Hw|s m oi s' E|s m p oi cf sr s' E|s w'].
  - split; [reflexivity | auto].
  - split; [reflexivity | auto].
  - split; [reflexivity|]. intros _. right. cbn. apply (nthz_lt _ _ _ Hw).
  - destruct (shift_focus_writes _ _ _ _ E) as (_ & Hi & Hf & _). rewrite Hi. split; [reflexivity|].
    unfold FocR. now rewrite Hi, Hf.
  - destruct (change_focus_sr_writes _ _ _ _ _ _ _ E) as (_ & Hi & Hf & _ & (w & Hw) & _). rewrite Hi. split; [reflexivity|].
    intros _. right. rewrite Hi, Hf. apply (nthz_lt _ _ _ Hw).
  - assert (El : zlen (items (set_items s (replace_nth (Z.to_nat (focus s)) (items s) w') (focus s))) = zlen (items s))
      by (cbn; unfold zlen; now rewrite replace_nth_length).
    split; [exact El|]. unfold FocR. intros [H|H].
    + left. apply zlen_zero_nil. rewrite El, H. reflexivity.
    + right. rewrite El. cbn. exact H.
Qed.

Lemma reach_keeps s s' : Reach s s' -> zlen (items s') = zlen (items s) /\ (FocR s -> FocR s').
Proof.
  induction 1 as [|s s1 s2 H1 [IH1 IH2] H2]; [split; auto|].
  destruct (atom_keeps _ _ H2) as [A B]. split; [congruence | auto].
Qed.
