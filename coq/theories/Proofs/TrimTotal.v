(* C11 - trim_text_attr_cs for arbitrary text in every mode: whenever it returns, the trimmed text, the
   attribute runs and the charset runs have one length. *)
From Coq Require Import ZArith List Bool Lia ZifyBool.
Import ListNotations.
From Urwid Require Import PyBase PyList Utf8 wcwidth_table_gen str_util_gen Width WidthFacts WidthProofs
     Utf8Proofs WideProofs RleProofs.
Open Scope Z_scope.
Arguments Z.add : simpl never.
Arguments Z.sub : simpl never.
Arguments Z.mul : simpl never.
Arguments Z.ltb : simpl never.
Arguments Z.leb : simpl never.
Arguments Z.eqb : simpl never.
Arguments Z.land : simpl never.
Arguments Z.lor : simpl never.
Arguments Z.shiftl : simpl never.
Arguments Z.of_nat : simpl never.
Arguments Z.to_nat : simpl never.

(* decode_one consumes 1..4 items and never reads past the end of the text (any integers) *)
Lemma arith_next b1 b2 b3 b4 lt pos :
  pos + 1 <= snd (decode_one_arith_gen b1 b2 b3 b4 lt pos) <= pos + 4 /\
  (snd (decode_one_arith_gen b1 b2 b3 b4 lt pos) = pos + 1 \/ snd (decode_one_arith_gen b1 b2 b3 b4 lt pos) <= pos + lt).
Proof.
  unfold decode_one_arith_gen.
  repeat match goal with
  | |- context [if ?b then _ else _] => let E := fresh "E" in destruct b eqn:E
  end; cbn [fst snd]; lia.
Qed.

Lemma decode_one_next text i o n :
  decode_one text i = Ok (o, n) -> 0 <= i < zlen text -> i + 1 <= n <= zlen text /\ n <= i + 4.
Proof.
  unfold decode_one. intros H Hi.
  destruct (get_index text i) as [b1|]; [|discriminate].
  destruct (if 1 <? zlen text - i then get_index text (i + 1) else Ok 0) as [b2|]; [|discriminate].
  destruct (if 2 <? zlen text - i then get_index text (i + 2) else Ok 0) as [b3|]; [|discriminate].
  destruct (if 3 <? zlen text - i then get_index text (i + 3) else Ok 0) as [b4|]; [|discriminate].
  inversion H as [H0]. pose proof (arith_next b1 b2 b3 b4 (zlen text - i) i) as A.
  rewrite H0 in A. cbn [snd] in A. lia.
Qed.

Section Bounds.
Variable wcw : Z -> Z.

Lemma ctp_utf8_bounds text pref fuel : forall i sc p c,
  0 <= i <= zlen text -> ctp_utf8_loop wcw text fuel i sc (zlen text) pref = Ok (p, c) -> i <= p <= zlen text.
Proof.
  induction fuel as [|k IH]; intros i sc p c Hi; cbn [ctp_utf8_loop]; destruct (i <? zlen text) eqn:E;
    try (intros H; inversion H; lia); try discriminate.
  destruct (decode_one text i) as [[o n]|] eqn:Ed; [|discriminate].
  destruct (get_width wcw o) as [w|]; [|discriminate].
  destruct (pref <? w + sc); [intros H; inversion H; lia|].
  intros H. pose proof (decode_one_next text i o n Ed ltac:(lia)). apply IH in H; lia.
Qed.

Lemma ctp_bounds m text x col p c :
  0 <= x <= zlen text -> 0 <= col ->
  calc_text_pos wcw m text x (zlen text) col = Ok (p, c) -> x <= p <= zlen text.
Proof.
  intros Hx Hc. destruct m.
  - rewrite calc_text_pos_str_eq by lia. intros H. inversion H.
    pose proof (tpos_spec wcw (takez (zlen text - x) (dropz x text)) col 0) as S.
    destruct (tpos wcw (takez (zlen text - x) (dropz x text)) col 0) as [k c']. destruct S as (Hk & _).
    rewrite zlen_slice_in in Hk by lia. cbn [fst]. lia.
  - unfold calc_text_pos. destruct (zlen text <? x) eqn:E; [lia|]. apply ctp_utf8_bounds. lia.
  - unfold calc_text_pos. destruct (zlen text <? x) eqn:E; [lia|].
    destruct (zlen text <=? x + col) eqn:E2; [intros H; inversion H; lia|].
    destruct (within_double_byte text x (x + col)) as [r|] eqn:Ew; [|discriminate].
    destruct (r =? 2) eqn:E3; intros H; inversion H; [|lia].
    assert (r = 2) by lia. subst r.
    destruct (wdb_2_prev_1 text x (x + col) ltac:(lia) ltac:(lia) Ew). lia.
  - unfold calc_text_pos. destruct (zlen text <? x) eqn:E; [lia|].
    destruct (zlen text <=? x + col) eqn:E2; intros H; inversion H; lia.
Qed.

(* the translated calc_trim_text returns an in-range slice and 0/1 flags for any position function
   that stays inside [x, e] *)
Lemma trim_bounds (T : Type) (ctp : T -> Z -> Z -> Z -> result (Z * Z)) (text : T) (e : Z) :
  (forall x col p c, 0 <= x <= e -> 0 <= col -> ctp text x e col = Ok (p, c) -> x <= p <= e) ->
  forall sc ec sp ep pl pr, 0 <= e -> 0 <= sc < ec ->
  calc_trim_text_gen T ctp text 0 e sc ec = Ok (sp, ep, pl, pr) ->
  0 <= sp <= ep /\ ep <= e /\ (pl = 0 \/ pl = 1) /\ (pr = 0 \/ pr = 1).
Proof.
  intros H sc ec sp ep pl pr He Hc. unfold calc_trim_text_gen.
  destruct (0 <? sc) eqn:E0.
  - destruct (ctp text 0 e sc) as [[p1 c1]|] eqn:E1; [|discriminate].
    pose proof (H 0 sc p1 c1 ltac:(lia) ltac:(lia) E1) as B1.
    destruct (c1 <? sc) eqn:E2.
    + destruct (ctp text 0 e (sc + 1)) as [[p2 c2]|] eqn:E3; [|discriminate].
      pose proof (H 0 (sc + 1) p2 c2 ltac:(lia) ltac:(lia) E3) as B2.
      destruct (ctp text p2 e (ec - sc - 1)) as [[p3 c3]|] eqn:E4; [|discriminate].
      pose proof (H p2 (ec - sc - 1) p3 c3 ltac:(lia) ltac:(lia) E4) as B3.
      destruct (c3 <? ec - sc - 1); intros X; inversion X; subst; lia.
    + destruct (ctp text p1 e (ec - sc - 0)) as [[p3 c3]|] eqn:E4; [|discriminate].
      pose proof (H p1 (ec - sc - 0) p3 c3 ltac:(lia) ltac:(lia) E4) as B3.
      destruct (c3 <? ec - sc - 0); intros X; inversion X; subst; lia.
  - destruct (ctp text 0 e (ec - sc - 0)) as [[p3 c3]|] eqn:E4; [|discriminate].
    pose proof (H 0 (ec - sc - 0) p3 c3 ltac:(lia) ltac:(lia) E4) as B3.
    destruct (c3 <? ec - sc - 0); intros X; inversion X; subst; lia.
Qed.

Theorem trim_text_attr_cs_lengths m text (attr cs : rle) sc ec t a c :
  nn attr -> nn cs -> rle_len attr = zlen text -> rle_len cs = zlen text -> 0 <= sc < ec ->
  trim_text_attr_cs wcw m text attr cs sc ec = Ok (t, a, c) ->
  rle_len a = zlen t /\ rle_len c = zlen t.
Proof.
  intros Na Nc La Lc Hc H.
  destruct (calc_trim_text wcw m text 0 (zlen text) sc ec) as [[[[sp ep] pl] pr]|] eqn:E.
  - pose proof (trim_bounds (list Z) (calc_text_pos wcw m) text (zlen text)
                  (fun x col p c0 => ctp_bounds m text x col p c0) sc ec sp ep pl pr (zlen_nonneg text) Hc E)
      as (B1 & B2 & Bl & Br).
    destruct (trim_text_attr_cs_lens wcw m text attr cs sc ec sp ep pl pr E B1 B2 Bl Br Na Nc La Lc)
      as (t' & a' & c' & Et & _ & Ha & Hcc).
    rewrite Et in H. inversion H. subst. split; assumption.
  - unfold trim_text_attr_cs in H. rewrite E in H. discriminate.
Qed.

End Bounds.
