(* C08 - proofs, part 4: the focus path read from a container can be written back later *)
From Coq Require Import ZArith List Bool Lia ZifyBool.
Import ListNotations.
From Urwid Require Import PyBase PyList c08_container_gen Containers ContainersBase ContainersProofs ContainersRouting.
From Urwid Require MonitoredList PyListFacts MonitoredListProofs.
Open Scope Z_scope.
Arguments Z.add : simpl never. Arguments Z.sub : simpl never. Arguments Z.mul : simpl never.
Arguments Z.ltb : simpl never. Arguments Z.leb : simpl never. Arguments Z.eqb : simpl never.

Definition shape_same_node (n m : node) : Prop :=
  nk m = nk n /\ items m = items n /\ n_a m = n_a n /\ n_b m = n_b n /\ n_d m = n_d n.
(* same widgets, same contents lists, same Frame/Overlay parts; focus, pref_col, pending may differ *)
Definition ShapeSame (h h2 : heap) : Prop :=
  zlen h2 = zlen h /\ forall id n, getn h id = Some n -> exists m, getn h2 id = Some m /\ shape_same_node n m.

Lemma shape_same_node_refl n : shape_same_node n n.
Proof. repeat split. Qed.
Lemma shape_same_node_trans a b c : shape_same_node a b -> shape_same_node b c -> shape_same_node a c.
Proof. intros (A1 & A2 & A3 & A4 & A5) (B1 & B2 & B3 & B4 & B5). repeat split; congruence. Qed.

Lemma getn_none_iff h id : getn h id = None <-> ~ (0 <= id < zlen h).
Proof.
  unfold getn, nthz. destruct (id <? 0) eqn:E; [split; [lia|reflexivity]|].
  rewrite nth_error_None. unfold zlen. lia.
Qed.

(* the nodes visited by get_focus_path *)
Fixpoint path_nodes (fuel : nat) (h : heap) (id : Z) : list Z :=
  match fuel with
  | O => []
  | S f => id :: match get_pos h id with
                 | RErr _ => []
                 | ROk _ => match focus_child h id with Some c => path_nodes f h c | None => [] end
                 end
  end.

Lemma setfocus_step s j :
  MonitoredList.items s <> [] -> 0 <= j < zlen (MonitoredList.items s) ->
  fst (MonitoredList.step s (MonitoredList.SetFocus j)) = MonitoredList.St (MonitoredList.items s) j /\
  MonitoredList.o_err (snd (MonitoredList.step s (MonitoredList.SetFocus j))) = None.
Proof.
  intros Hne Hr. destruct s as [its fr]. cbn [MonitoredList.items] in *. cbn [MonitoredList.step MonitoredList.items MonitoredList.focus_raw].
  unfold MonitoredList.set_focus. destruct its as [|x r]; [contradiction|].
  assert (E : (j <? 0) || (zlen (x :: r) <=? j) = false) by lia. rewrite E.
  destruct (negb (j =? fr)); split; reflexivity.
Qed.

Lemma w_listfocus_ok h id m j :
  getn h id = Some m -> items m <> [] -> 0 <= j < nlen m ->
  w_listfocus id j h = (setn h id (set_c m (MonitoredList.St (items m) j)), ROk tt).
Proof.
  intros G Hne Hr. unfold w_listfocus, mbind, rd. rewrite G.
  destruct (setfocus_step (n_c m) j Hne Hr) as [H1 H2].
  destruct (MonitoredList.step (n_c m) (MonitoredList.SetFocus j)) as [s' o]. cbn [fst snd] in *. subst s'. rewrite H2.
  unfold w_contents, w_node. rewrite G. reflexivity.
Qed.

(* a successful assignment: where it writes, what can be read back *)
Lemma set_pos_ok h id m pos :
  getn h id = Some m -> node_ok true m -> nlen m < 100 ->
  match nk m with
  | KLeaf => False
  | KPile | KCols | KGrid | KLBox => 0 <= pos < nlen m
  | KFrame => (pos = 100 \/ pos = 101 \/ pos = 102) /\ parts_ok (n_b m) (n_d m) pos
  | KOvl => pos = 1
  end ->
  exists h' m', set_pos id pos h = (h', ROk tt) /\ getn h' id = Some m' /\ shape_same_node m m' /\ node_ok true m' /\
    zlen h' = zlen h /\ (forall x, x <> id -> getn h' x = getn h x) /\ get_pos h' id = ROk pos /\
    focus_child h' id = (match nk m with
                         | KFrame => if pos =? 100 then Some (n_a m) else if pos =? 101 then n_b m else n_d m
                         | KOvl => Some (n_a m)
                         | _ => nthz (items m) pos end).
Proof.
  intros G Hok Hsmall Hpos. pose proof (getn_some_bounds _ _ _ G) as Hb.
  unfold set_pos, mbind, rd. rewrite G.
  assert (Hne : 0 <= pos < nlen m -> items m <> []).
  { intros Hr Hi. unfold nlen in Hr. rewrite Hi in Hr. cbn in Hr. lia. }
  assert (Hlist : forall hh mm, getn hh id = Some mm -> items mm = items m -> nk mm = nk m -> is_list_kind_b (nk m) = true ->
             0 <= pos < nlen m -> zlen hh = zlen h -> (forall x, x <> id -> getn hh x = getn h x) ->
             shape_same_node m mm -> node_ok true mm ->
             let h' := setn hh id (set_c mm (MonitoredList.St (items mm) pos)) in
             exists m', getn h' id = Some m' /\ shape_same_node m m' /\ node_ok true m' /\ zlen h' = zlen h /\
               (forall x, x <> id -> getn h' x = getn h x) /\ get_pos h' id = ROk pos /\ focus_child h' id = nthz (items m) pos).
  { intros hh mm Gm Hi Hk Hlk Hr Hz Hoth Hss [Hv Hfr] h'.
    pose proof (getn_some_bounds _ _ _ Gm) as Hbm.
    exists (set_c mm (MonitoredList.St (items mm) pos)).
    assert (Gs : getn h' id = Some (set_c mm (MonitoredList.St (items mm) pos))) by (apply getn_setn_same; exact Hbm).
    assert (Hne' : items m <> []) by (apply Hne; exact Hr).
    split; [exact Gs|]. split.
    { destruct Hss as (S1 & S2 & S3 & S4 & S5). repeat split; cbn; try assumption. }
    split.
    { split; [|cbn; exact Hfr]. cbn [n_c set_c]. right. cbn [MonitoredList.items MonitoredList.focus_raw]. rewrite Hi. exact Hr. }
    split; [unfold h'; rewrite zlen_setn; exact Hz|].
    split; [intros x Hx; unfold h'; rewrite getn_setn_other by exact Hx; apply Hoth; exact Hx|].
    unfold get_pos, focus_child. rewrite Gs. cbn [nk set_c]. rewrite Hk.
    assert (Hi2 : items (set_c mm (MonitoredList.St (items mm) pos)) = items m) by exact Hi.
    assert (Hf2 : nfocus (set_c mm (MonitoredList.St (items mm) pos)) = pos) by reflexivity.
    unfold is_empty. rewrite Hi2, Hf2.
    destruct (nk m); try discriminate; destruct (items m) eqn:Ei; try contradiction; split; reflexivity. }
  destruct (nk m) eqn:K; try contradiction.
  - (* pile *)
    unfold w_focus, mbind, rd. rewrite G, K.
    assert (E : pos_invalid KPile pos (nlen m) = false) by (apply pos_invalid_spec; auto). rewrite E.
    rewrite (w_listfocus_ok h id m pos G (Hne Hpos) Hpos).
    destruct (Hlist h m G eq_refl K eq_refl Hpos eq_refl (fun _ _ => eq_refl) (shape_same_node_refl m) Hok) as (m' & H).
    eexists _, m'. split; [reflexivity|exact H].
  - unfold w_focus, mbind, rd. rewrite G, K.
    assert (E : pos_invalid KCols pos (nlen m) = false) by (apply pos_invalid_spec; auto). rewrite E.
    rewrite (w_listfocus_ok h id m pos G (Hne Hpos) Hpos).
    destruct (Hlist h m G eq_refl K eq_refl Hpos eq_refl (fun _ _ => eq_refl) (shape_same_node_refl m) Hok) as (m' & H).
    eexists _, m'. split; [reflexivity|exact H].
  - unfold w_focus, mbind, rd. rewrite G, K.
    assert (E : pos_invalid KGrid pos (nlen m) = false) by (apply pos_invalid_spec; auto). rewrite E.
    rewrite (w_listfocus_ok h id m pos G (Hne Hpos) Hpos).
    destruct (Hlist h m G eq_refl K eq_refl Hpos eq_refl (fun _ _ => eq_refl) (shape_same_node_refl m) Hok) as (m' & H).
    eexists _, m'. split; [reflexivity|exact H].
  - (* frame *)
    destruct Hpos as [Hp Hparts].
    assert (E1 : negb ((pos =? 100) || (pos =? 101) || (pos =? 102)) = false) by lia. rewrite E1.
    match goal with |- context [if ?c then raise EIndex else _] => assert (E2 : c = false) end.
    { destruct Hparts as [H|[[H1 H2]|[H1 H2]]].
      - assert (Q1 : pos =? 101 = false) by lia. assert (Q2 : pos =? 102 = false) by lia. rewrite Q1, Q2. reflexivity.
      - destruct (n_b m); [|contradiction]. assert (Q2 : pos =? 102 = false) by lia. rewrite Q2. rewrite andb_false_r. reflexivity.
      - destruct (n_d m); [|contradiction]. assert (Q1 : pos =? 101 = false) by lia. rewrite Q1. rewrite andb_false_r. reflexivity. }
    rewrite E2. unfold w_parts, w_node. rewrite G.
    set (m' := set_parts m (n_a m) (n_b m) (n_d m) pos).
    assert (Gs : getn (setn h id m') id = Some m') by (apply getn_setn_same; exact Hb).
    exists (setn h id m'), m'. split; [reflexivity|]. split; [exact Gs|].
    split; [repeat split|]. split; [split; [apply Hok|intros _ _; exact Hparts]|].
    split; [apply zlen_setn|]. split; [intros x Hx; apply getn_setn_other; exact Hx|].
    unfold get_pos, focus_child. rewrite Gs. cbn. rewrite K. split; reflexivity.
  - (* overlay *)
    subst pos. assert (E : overlay_pos_invalid_gen 1 = false) by (apply overlay_pos_invalid_spec; reflexivity). rewrite E.
    exists h, m. split; [reflexivity|]. split; [exact G|]. split; [apply shape_same_node_refl|]. split; [exact Hok|].
    split; [reflexivity|]. split; [reflexivity|]. unfold get_pos, focus_child. rewrite G, K. split; reflexivity.
  - (* list box *)
    unfold lb_set_focus, mbind, rd. rewrite G.
    assert (Hne' : items m <> []) by (apply Hne; exact Hpos).
    assert (Ee : is_empty m = false) by (unfold is_empty; destruct (items m); [contradiction|reflexivity]). rewrite Ee.
    unfold w_pend, w_node at 1. rewrite G.
    assert (E100 : 100 <=? pos = false) by lia. rewrite E100.
    set (m1 := set_pend m (PendSet (nfocus m)) (n_vpend m)). set (h1 := setn h id m1).
    assert (G1 : getn h1 id = Some m1) by (apply getn_setn_same; exact Hb).
    rewrite (w_listfocus_ok h1 id m1 pos G1 Hne' Hpos).
    destruct (Hlist h1 m1 G1 eq_refl K eq_refl Hpos (zlen_setn h id m1)
                (fun x Hx => getn_setn_other h id m1 x Hx) ltac:(repeat split) Hok) as (m' & H).
    eexists _, m'. split; [reflexivity|exact H].
Qed.

Lemma get_pos_getn h h' id : getn h' id = getn h id -> get_pos h' id = get_pos h id /\ focus_child h' id = focus_child h id.
Proof. intros E. unfold get_pos, focus_child. rewrite E. split; reflexivity. Qed.

Definition SmallLists (h : heap) : Prop := forall id n, getn h id = Some n -> nlen n < 100.

Theorem focus_path_roundtrip_strong f : forall h r p h2,
  Inv (node_ok true) h -> Inv (node_ok true) h2 -> SmallLists h ->
  gfp f h r = ROk p -> ShapeSame h h2 -> NoDup (path_nodes f h r) ->
  exists h3, sfp p r h2 = (h3, ROk tt) /\ gfp f h3 r = ROk p /\
             (forall x, ~ In x (path_nodes f h r) -> getn h3 x = getn h2 x) /\ ShapeSame h h3 /\ Inv (node_ok true) h3.
Proof.
  induction f as [|f IH]; intros h r p h2 HI HI2 Hsm Hg Hss Hnd; cbn [gfp] in Hg; [discriminate|].
  cbn [path_nodes] in Hnd.
  destruct (get_pos h r) as [pos|e] eqn:Hgp.
  2:{ (* the walk stops here: a leaf, an empty container (or no such widget) *)
    injection Hg as <-. exists h2. cbn [sfp]. split; [reflexivity|]. split.
    - cbn [gfp]. assert (Hgp2 : exists e2, get_pos h2 r = RErr e2).
      { unfold get_pos in *. destruct (getn h r) as [n|] eqn:G.
        - destruct (proj2 Hss r n G) as (m & Gm & (S1 & S2 & _)). rewrite Gm, S1.
          unfold is_empty in *. rewrite S2. destruct (nk n); try discriminate; try (eexists; reflexivity);
            destruct (items n); try discriminate; eexists; reflexivity.
        - apply getn_none_iff in G. rewrite <- (proj1 Hss) in G. apply getn_none_iff in G. rewrite G. eexists; reflexivity. }
      destruct Hgp2 as (e2 & ->). reflexivity.
    - split; [reflexivity|]. split; assumption. }
  destruct (focus_child h r) as [c|] eqn:Hfc; [|discriminate].
  destruct (gfp f h c) as [l|] eqn:Hgc; [|discriminate]. injection Hg as <-.
  inversion Hnd as [|? ? Hnotin Hnd']. subst.
  (* the node in both heaps *)
  assert (Gn : exists n, getn h r = Some n) by (unfold get_pos in Hgp; destruct (getn h r); [eexists; reflexivity|discriminate]).
  destruct Gn as (n & G). destruct (proj2 Hss r n G) as (m & Gm & Hsn). destruct Hsn as (S1 & S2 & S3 & S4 & S5).
  destruct (HI r n G) as [Hv Hfr]. pose proof (HI2 r m Gm) as Hokm.
  (* after the (possible) assignment *)
  assert (Hset : exists h2' m', (h <- get_heap ;; match get_pos h r with RErr e => raise e | ROk cur =>
                      (if negb (pos =? cur) then set_pos r pos else ret tt) ;;; ret tt end) h2 = (h2', ROk tt) /\
                   getn h2' r = Some m' /\ shape_same_node m m' /\ node_ok true m' /\ zlen h2' = zlen h2 /\
                   (forall x, x <> r -> getn h2' x = getn h2 x) /\ get_pos h2' r = ROk pos /\ focus_child h2' r = Some c).
  { assert (Hvalid : match nk m with
                     | KLeaf => False
                     | KPile | KCols | KGrid | KLBox => 0 <= pos < nlen m
                     | KFrame => (pos = 100 \/ pos = 101 \/ pos = 102) /\ parts_ok (n_b m) (n_d m) pos
                     | KOvl => pos = 1 end /\
                     Some c = (match nk m with
                         | KFrame => if pos =? 100 then Some (n_a m) else if pos =? 101 then n_b m else n_d m
                         | KOvl => Some (n_a m)
                         | _ => nthz (items m) pos end) /\ exists cur, get_pos h2 r = ROk cur).
    { unfold get_pos in Hgp |- *. unfold focus_child in Hfc. rewrite G in Hgp, Hfc. rewrite Gm. rewrite S1, S3, S4, S5. unfold nlen, is_empty in *. rewrite S2.
      destruct (nk n) eqn:K; try discriminate.
      1-3,6: destruct (items n) as [|x0 r0] eqn:Ei; try discriminate; injection Hgp as <-;
             (split; [|split; [symmetry; exact Hfc|eexists; reflexivity]]);
             destruct Hv as [[He _]|Hr]; [unfold items in Ei; rewrite He in Ei; discriminate|];
             fold (items n) in Hr; fold (nfocus n) in Hr; rewrite Ei in Hr; exact Hr.
      - injection Hgp as <-. specialize (Hfr eq_refl eq_refl).
        split; [split; [destruct Hfr as [H|[[H _]|[H _]]]; lia|exact Hfr]|]. split; [symmetry; exact Hfc|eexists; reflexivity].
      - injection Hgp as <-. split; [reflexivity|]. split; [symmetry; exact Hfc|eexists; reflexivity]. }
    destruct Hvalid as (Hval & Hc & cur & Hcur).
    unfold mbind at 1, get_heap. rewrite Hcur.
    destruct (negb (pos =? cur)) eqn:Ene.
    - assert (Hsmall : nlen m < 100) by (unfold nlen; rewrite S2; exact (Hsm r n G)).
      destruct (set_pos_ok h2 r m pos Gm Hokm Hsmall Hval) as (h2' & m' & Hs & G' & Hss' & Hok' & Hz & Hoth & Hp & Hf).
      exists h2', m'. unfold mbind. rewrite Hs. split; [reflexivity|]. split; [exact G'|]. split; [exact Hss'|]. split; [exact Hok'|].
      split; [exact Hz|]. split; [exact Hoth|]. split; [exact Hp|]. rewrite Hf. symmetry. exact Hc.
    - exists h2, m. unfold mbind, ret. split; [reflexivity|]. split; [exact Gm|]. split; [apply shape_same_node_refl|].
      split; [exact Hokm|]. split; [reflexivity|]. split; [reflexivity|]. assert (pos = cur) by lia. subst cur. split; [exact Hcur|].
      unfold focus_child. unfold get_pos in Hcur. rewrite Gm in *. rewrite Hc.
      destruct (nk m) eqn:K; try discriminate; try reflexivity.
      all: try (unfold is_empty in Hcur; destruct (items m); [discriminate|]; injection Hcur as <-; reflexivity).
      injection Hcur as <-. reflexivity. }
  destruct Hset as (h2' & m' & Hrun & G' & Hss' & Hok' & Hz & Hoth & Hp' & Hf').
  assert (HI2' : Inv (node_ok true) h2').
  { intros x k Gx. destruct (Z.eq_dec x r) as [->|Hx]; [rewrite G' in Gx; injection Gx as <-; exact Hok'|].
    rewrite Hoth in Gx by exact Hx. exact (HI2 x k Gx). }
  assert (Hss2 : ShapeSame h h2').
  { split; [rewrite Hz; apply Hss|]. intros x k Gx. destruct (Z.eq_dec x r) as [->|Hx].
    - rewrite G in Gx. injection Gx as <-. exists m'. split; [exact G'|]. eapply shape_same_node_trans; [|exact Hss']. repeat split; assumption.
    - destruct (proj2 Hss x k Gx) as (k2 & Gk & Hk). exists k2. split; [rewrite Hoth by exact Hx; exact Gk|exact Hk]. }
  destruct (IH h c l h2' HI HI2' Hsm Hgc Hss2 Hnd') as (h3 & Hsfp & Hg3 & Hframe & Hss3 & HI3).
  exists h3. split.
  { cbn [sfp]. unfold mbind at 1, get_heap.
    unfold mbind at 1, get_heap in Hrun.
    destruct (get_pos h2 r) as [cur|e2]; [|unfold raise in Hrun; discriminate].
    unfold mbind at 1. unfold mbind at 1 in Hrun.
    destruct ((if negb (pos =? cur) then set_pos r pos else ret tt) h2) as [hx [u|e3]]; [|discriminate].
    unfold ret in Hrun. injection Hrun as ->.
    unfold mbind at 1, get_heap. rewrite Hf'. exact Hsfp. }
  assert (Gr3 : getn h3 r = getn h2' r) by (apply Hframe; exact Hnotin).
  destruct (get_pos_getn h2' h3 r Gr3) as [Hp3 Hf3].
  split.
  { cbn [gfp]. rewrite Hp3, Hp', Hf3, Hf', Hg3. reflexivity. }
  split.
  { intros x Hx. cbn [path_nodes] in Hx. rewrite Hgp, Hfc in Hx.
    assert (x <> r) by (intros ->; apply Hx; left; reflexivity).
    rewrite Hframe by (intros Hin; apply Hx; right; exact Hin). apply Hoth. assumption. }
  split; assumption.
Qed.
