(* C01 - the structural induction over widget trees that assembles the per-constructor lemmas. *)
From Coq Require Import ZArith List Bool Lia ZifyBool.
Import ListNotations.
From Urwid Require Import WidgetDims WidgetDimsProofs WidgetDimsFrame WidgetDimsOverlay WidgetDimsColsArith WidgetDimsCols.
Open Scope Z_scope.

(* ------------------------------------------------------------------ trees: structural induction *)
(* every leaf of the tree satisfies the contract on its own (the hypothesis discharged by testing) *)
Fixpoint leaves_ok (w : widget) : Prop :=
  match w with
  | WLeaf d => Good (leaf_sem d) /\ fpack_ok (leaf_sem d)
  | WAttr w => leaves_ok w
  | WBoxAdapter w _ => leaves_ok w
  | WPadding w _ _ _ _ _ => leaves_ok w
  | WFiller w _ _ _ _ _ => leaves_ok w
  | WPile items _ => leaves_ok_p items
  | WColumns items _ _ _ => leaves_ok_c items
  | WFrame body hd ft _ => leaves_ok body /\ leaves_ok_o hd /\ leaves_ok_o ft
  | WOverlay t b _ => leaves_ok t /\ leaves_ok b
  end
with leaves_ok_p (l : pitems) : Prop :=
  match l with PNil => True | PCons w _ _ r => leaves_ok w /\ leaves_ok_p r end
with leaves_ok_c (l : citems) : Prop :=
  match l with CNil => True | CCons w _ _ _ r => leaves_ok w /\ leaves_ok_c r end
with leaves_ok_o (o : owidget) : Prop :=
  match o with ONone => True | OSome w => leaves_ok w end.

(* a leaf, possibly under AttrMaps: the only 'pack' Columns children that may claim FIXED sizing
   (the title Text of a LineBox is one) - nothing is proved yet about pack(()) of containers *)
Fixpoint leafish (w : widget) : bool :=
  match w with WLeaf _ => true | WAttr w => leafish w | _ => false end.

(* the constructors and options covered by the proof so far *)
Fixpoint proved_fragment (w : widget) : bool :=
  match w with
  | WLeaf _ => true
  | WAttr w => proved_fragment w
  | WBoxAdapter w _ => proved_fragment w
  | WPadding w _ wt _ _ _ => proved_fragment w && (match wt with WClip => false | _ => true end)
  | WFiller w _ _ _ _ _ => proved_fragment w
  | WPile items _ => proved_fragment_p items && (match items with PNil => false | _ => true end)
  | WColumns items d mw fp =>
      proved_fragment_c items (cols_sizing (denote_c items)) && (fp <? zlength (denote_c items))
  | WFrame body hd ft _ => proved_fragment body && proved_fragment_o hd && proved_fragment_o ft
  | WOverlay t b p =>
      proved_fragment t && proved_fragment b
      && (match ov_wt p with WGiven _ | WRelative _ => true | _ => false end)      (* not a fixed top widget *)
      && (match ov_ht p with
          | HRelative pct => (pct <=? 100) && (match ov_minh p with Some m => 0 <=? m | None => true end)
          | _ => true
          end)
  end
with proved_fragment_p (l : pitems) : bool :=
  match l with PNil => true | PCons w _ _ r => proved_fragment w && proved_fragment_p r end
with proved_fragment_c (l : citems) (cs : sizing) : bool :=
  match l with
  | CNil => true
  | CCons w k n b r =>
      let ws := m_sizing (denote w) in
      proved_fragment w
      && (match k with KPack => s_flow ws && (negb (s_fixed ws) || leafish w) | _ => true end)
      && (if b then s_box ws else negb (s_flow cs) || s_flow ws)     (* box columns hold box widgets, the others flow widgets *)
      && proved_fragment_c r cs
  end
with proved_fragment_o (o : owidget) : bool :=
  match o with ONone => true | OSome w => proved_fragment w end.

Scheme widget_mut := Induction for widget Sort Prop
  with pitems_mut := Induction for pitems Sort Prop
  with citems_mut := Induction for citems Sort Prop
  with owidget_mut := Induction for owidget Sort Prop.

Lemma denote_p_nonempty items : (match items with PNil => false | _ => true end) = true -> denote_p items <> [].
Proof. destruct items; cbn; [discriminate|]. intros _ H. discriminate. Qed.

Lemma leafish_fpack : forall w, leafish w = true -> leaves_ok w -> fpack_ok (denote w).
Proof.
  fix IH 1. intros w. destruct w; cbn [leafish leaves_ok denote]; intros H L; try discriminate.
  - exact (proj2 L).
  - specialize (IH w H L). unfold fpack_ok in *. cbn [attr_sem m_sizing m_pack]. exact IH.
Qed.

(* a plain condition on what a leaf reports that implies both leaf hypotheses *)
Definition leaf_fixed_ok (d : leafdata) : Prop :=
  s_fixed (l_sizing d) = true ->
  forall f, match l_fixed_pack d f with Ok (w, _) => 0 <= w | Err e => soft e end.

Lemma leaf_hyps d : leaf_contract d -> leaf_fixed_ok d -> Good (leaf_sem d) /\ fpack_ok (leaf_sem d).
Proof.
  intros C F. split; [apply leaf_good; exact C|]. unfold fpack_ok. cbn [leaf_sem m_sizing m_pack]. exact F.
Qed.

Lemma overlay_given_of_bools ts p :
  overlay_top_ok ts p = true ->
  (0 <=? ov_left p) = true -> (0 <=? ov_right p) = true -> (0 <=? ov_top p) = true -> (0 <=? ov_bottom p) = true ->
  (match ov_wt p with WGiven _ | WRelative _ => true | _ => false end) = true ->
  (match ov_ht p with
   | HRelative pct => (pct <=? 100) && (match ov_minh p with Some m => 0 <=? m | None => true end)
   | _ => true end) = true ->
  overlay_given p.
Proof.
  intros H1 H2 H3 H4 H5 H6 H7. unfold overlay_given, overlay_top_ok in *.
  destruct (ov_wt p) eqn:EW; try discriminate;
    (split; [cbn in *; lia|]); repeat (split; [lia|]);
    destruct (ov_ht p); auto; destruct (ov_minh p); lia.
Qed.

Theorem contract_by_structural_induction :
  forall w, wf_b w = true -> proved_fragment w = true -> leaves_ok w -> Good (denote w).
Proof.
  apply (widget_mut
    (fun w => wf_b w = true -> proved_fragment w = true -> leaves_ok w -> Good (denote w))
    (fun l => forall ps, wf_p l ps = true -> proved_fragment_p l = true -> leaves_ok_p l ->
              Forall pgood (denote_p l) /\ Forall (pile_ok ps) (denote_p l))
    (fun l => forall cs, wf_c l cs = true -> proved_fragment_c l cs = true -> leaves_ok_c l ->
              Forall cgood (denote_c l) /\ Forall (cols_item_ok cs) (denote_c l))
    (fun o => wf_o o = true -> proved_fragment_o o = true -> leaves_ok_o o -> opt_flow_good (denote_o o)));
    cbn [wf_b proved_fragment leaves_ok denote]; auto.
  - (* leaf *) intros d _ _ [L _]. exact L.
  - (* attr *) intros w IH Hw Hf Hl. apply attr_good; auto.
  - (* boxadapter *) intros w IH h Hw Hf Hl. apply (boxadapter_good 1 1); try lia. apply IH; auto; lia.
  - (* padding *) intros w IH a wt mw l r Hw Hf Hl.
    apply padding_good; try lia.
    + apply IH; auto; lia.
    + destruct wt; try discriminate; lia.
  - (* filler *) intros w IH va ht mh t b Hw Hf Hl.
    apply filler_good; try lia. apply IH; auto; lia.
  - (* pile *) intros items IH fp Hw Hf Hl.
    destruct (IH (pile_sizing (denote_p items)) ltac:(lia) ltac:(lia) Hl) as [A B].
    apply pile_good; auto; try lia. intros _. apply denote_p_nonempty. lia.
  - (* columns *) intros items IH d mw fp Hw Hf Hl.
    destruct (IH (cols_sizing (denote_c items)) ltac:(lia) ltac:(lia) Hl) as [A B].
    apply (cols_good 1); auto; lia.
  - (* frame *) intros body IHb hd IHh ft IHf fpart Hw Hf Hl. destruct Hl as [L1 [L2 L3]].
    apply (frame_good 1 1); try lia.
    + apply IHb; auto; lia.
    + apply IHh; auto; lia.
    + apply IHf; auto; lia.
  - (* overlay *) intros t IHt b IHb p Hw Hf Hl. destruct Hl as [L1 L2].
    repeat match type of Hw with (_ && _) = true => apply andb_prop in Hw; let H := fresh "W" in destruct Hw as [Hw H] end.
    repeat match type of Hf with (_ && _) = true => apply andb_prop in Hf; let H := fresh "P" in destruct Hf as [Hf H] end.
    apply overlay_good1; auto.
    + exists 1. auto.
    + eapply overlay_given_of_bools; eauto.
  - (* PNil *) intros ps _ _ _. split; constructor.
  - (* PCons *) intros w IHw k n r IHr ps Hw Hf Hl. cbn [wf_p proved_fragment_p leaves_ok_p denote_p] in *.
    destruct Hl as [Hl1 Hl2].
    destruct (IHr ps ltac:(lia) ltac:(lia) Hl2) as [A B].
    split; constructor; auto.
    + unfold pgood. cbn. apply IHw; auto; lia.
    + unfold pile_ok. cbn. lia.
  - (* CNil *) intros cs _ _ _. split; constructor.
  - (* CCons *) intros w IHw k n b r IHr cs Hw Hf Hl.
    cbn [wf_c proved_fragment_c leaves_ok_c denote_c] in *. destruct Hl as [Hl1 Hl2].
    apply andb_prop in Hw. destruct Hw as [Hw Hw3]. apply andb_prop in Hw. destruct Hw as [Hw1 Hw2].
    apply andb_prop in Hf. destruct Hf as [Hf Hf4]. apply andb_prop in Hf. destruct Hf as [Hf Hf3].
    apply andb_prop in Hf. destruct Hf as [Hf1 Hf2].
    destruct (IHr cs Hw3 Hf4 Hl2) as [A B].
    assert (G : Good (denote w)) by (apply IHw; auto).
    split; constructor; auto.
    + unfold cgood. cbn [ci_sem ci_kind]. split; [exact G|]. intros ->.
      destruct (s_fixed (m_sizing (denote w))) eqn:EF.
      * apply leafish_fpack; auto. lia.
      * unfold fpack_ok. rewrite EF. discriminate.
    + unfold cols_item_ok. cbn [ci_sem ci_kind ci_amount ci_box].
      unfold cols_child_ok in Hw2.
      apply andb_prop in Hw2. destruct Hw2 as [Hw2 _]. apply andb_prop in Hw2. destruct Hw2 as [Hw2 _].
      apply andb_prop in Hw2. destruct Hw2 as [Ka Kb].
      repeat split.
      * destruct k; lia.
      * destruct b; [exact Hf3|]. intros Hcs. rewrite Hcs in Hf3. cbn in Hf3. exact Hf3.
      * intros Hcs. rewrite Hcs in Kb. cbn in Kb. exact Kb.
  - (* OSome *) intros w IH Hw Hf Hl. cbn [wf_o proved_fragment_o leaves_ok_o denote_o opt_flow_good] in *.
    split; [apply IH; auto; lia|lia].
Qed.

