(* C01 - the structural induction over widget trees that assembles the per-constructor lemmas. *)
From Coq Require Import ZArith List Bool Lia ZifyBool.
Import ListNotations.
From Urwid Require Import WidgetDims WidgetDimsProofs WidgetDimsFrame WidgetDimsOverlay.
Open Scope Z_scope.

(* ------------------------------------------------------------------ trees: structural induction *)
(* every leaf of the tree satisfies the contract on its own (the hypothesis discharged by testing) *)
Fixpoint leaves_ok (w : widget) : Prop :=
  match w with
  | WLeaf d => Good (leaf_sem d)
  | WAttr w => leaves_ok w
  | WBoxAdapter w _ => leaves_ok w
  | WPadding w _ _ _ _ _ => leaves_ok w
  | WFiller w _ _ _ _ _ => leaves_ok w
  | WPile items _ => leaves_ok_p items
  | WColumns items _ _ _ => leaves_ok_c items
  | WFrame body hd ft _ => leaves_ok body /\ leaves_ok_o hd /\ leaves_ok_o ft
  | WOverlay t b _ => leaves_ok t /\ leaves_ok b
  end
with leaves_ok_p (l : pitems) : Prop :=
  match l with PNil => True | PCons w _ _ r => leaves_ok w /\ leaves_ok_p r end
with leaves_ok_c (l : citems) : Prop :=
  match l with CNil => True | CCons w _ _ _ r => leaves_ok w /\ leaves_ok_c r end
with leaves_ok_o (o : owidget) : Prop :=
  match o with ONone => True | OSome w => leaves_ok w end.

(* the constructors and options covered by the proof so far *)
Fixpoint proved_fragment (w : widget) : bool :=
  match w with
  | WLeaf _ => true
  | WAttr w => proved_fragment w
  | WBoxAdapter w _ => proved_fragment w
  | WPadding w _ wt _ _ _ => proved_fragment w && (match wt with WClip => false | _ => true end)
  | WFiller w _ _ _ _ _ => proved_fragment w
  | WPile items _ => proved_fragment_p items && (match items with PNil => false | _ => true end)
  | WColumns _ _ _ _ => false
  | WFrame body hd ft _ => proved_fragment body && proved_fragment_o hd && proved_fragment_o ft
  | WOverlay t b p =>
      proved_fragment t && proved_fragment b
      && (match ov_wt p with WGiven _ | WRelative _ => true | _ => false end)      (* not a fixed top widget *)
      && (match ov_ht p with
          | HRelative pct => (pct <=? 100) && (match ov_minh p with Some m => 0 <=? m | None => true end)
          | _ => true
          end)
  end
with proved_fragment_p (l : pitems) : bool :=
  match l with PNil => true | PCons w _ _ r => proved_fragment w && proved_fragment_p r end
with proved_fragment_o (o : owidget) : bool :=
  match o with ONone => true | OSome w => proved_fragment w end.

Scheme widget_mut := Induction for widget Sort Prop
  with pitems_mut := Induction for pitems Sort Prop
  with citems_mut := Induction for citems Sort Prop
  with owidget_mut := Induction for owidget Sort Prop.

Lemma denote_p_nonempty items : (match items with PNil => false | _ => true end) = true -> denote_p items <> [].
Proof. destruct items; cbn; [discriminate|]. intros _ H. discriminate. Qed.

Theorem contract_by_structural_induction :
  forall w, wf_b w = true -> proved_fragment w = true -> leaves_ok w -> Good (denote w).
Proof.
  apply (widget_mut
    (fun w => wf_b w = true -> proved_fragment w = true -> leaves_ok w -> Good (denote w))
    (fun l => forall ps, wf_p l ps = true -> proved_fragment_p l = true -> leaves_ok_p l ->
              Forall pgood (denote_p l) /\ Forall (pile_ok ps) (denote_p l))
    (fun _ => True)
    (fun o => wf_o o = true -> proved_fragment_o o = true -> leaves_ok_o o -> opt_flow_good (denote_o o)));
    cbn [wf_b proved_fragment leaves_ok denote]; auto.
  - (* attr *) intros w IH Hw Hf Hl. apply attr_good; auto.
  - (* boxadapter *) intros w IH h Hw Hf Hl. apply boxadapter_good; try lia. apply IH; auto; lia.
  - (* padding *) intros w IH a wt mw l r Hw Hf Hl.
    apply padding_good; try lia.
    + apply IH; auto; lia.
    + destruct wt; try discriminate; lia.
  - (* filler *) intros w IH va ht mh t b Hw Hf Hl.
    apply filler_good; try lia. apply IH; auto; lia.
  - (* pile *) intros items IH fp Hw Hf Hl.
    destruct (IH (pile_sizing (denote_p items)) ltac:(lia) ltac:(lia) Hl) as [A B].
    apply pile_good; auto. apply denote_p_nonempty. lia.
  - (* columns: outside the fragment *) intros; discriminate.
  - (* frame *) intros body IHb hd IHh ft IHf fpart Hw Hf Hl. destruct Hl as [L1 [L2 L3]].
    apply frame_good; try lia.
    + apply IHb; auto; lia.
    + apply IHh; auto; lia.
    + apply IHf; auto; lia.
  - (* overlay *) intros t IHt b IHb p Hw Hf Hl. destruct Hl as [L1 L2].
    apply overlay_good; try lia.
    + apply IHt; auto; lia.
    + apply IHb; auto; lia.
    + unfold overlay_given. unfold overlay_top_ok in Hw.
      destruct (ov_wt p) eqn:EW; try (exfalso; lia);
        (split; [cbn in *; lia|]); repeat (split; [lia|]);
        destruct (ov_ht p); auto; destruct (ov_minh p); lia.
  - (* PNil *) intros ps _ _ _. split; constructor.
  - (* PCons *) intros w IHw k n r IHr ps Hw Hf Hl. cbn [wf_p proved_fragment_p leaves_ok_p denote_p] in *.
    destruct Hl as [Hl1 Hl2].
    destruct (IHr ps ltac:(lia) ltac:(lia) Hl2) as [A B].
    split; constructor; auto.
    + unfold pgood. cbn. apply IHw; auto; lia.
    + unfold pile_ok. cbn. lia.
  - (* OSome *) intros w IH Hw Hf Hl. cbn [wf_o proved_fragment_o leaves_ok_o denote_o opt_flow_good] in *.
    split; [apply IH; auto; lia|lia].
Qed.

