(* C11 - decode_one on ANY bytes consumes a lead byte followed by continuation bytes only: a byte that
   is not a continuation byte (an ASCII byte or the lead byte of the next character) is never swallowed. *)
From Coq Require Import ZArith List Bool Lia ZifyBool.
Import ListNotations.
From Urwid Require Import PyBase PyList Utf8 wcwidth_table_gen str_util_gen Width WidthFacts Utf8Proofs Utf8Total TrimTotal.
Open Scope Z_scope.
Arguments Z.add : simpl never.
Arguments Z.sub : simpl never.
Arguments Z.mul : simpl never.
Arguments Z.ltb : simpl never.
Arguments Z.leb : simpl never.
Arguments Z.eqb : simpl never.
Arguments Z.land : simpl never.
Arguments Z.lor : simpl never.
Arguments Z.shiftl : simpl never.
Arguments Z.of_nat : simpl never.
Arguments Z.to_nat : simpl never.

Lemma arith_cont b1 b2 b3 b4 lt pos :
  byte b1 -> byte b2 -> byte b3 -> byte b4 ->
  let n := snd (decode_one_arith_gen b1 b2 b3 b4 lt pos) in
  (pos + 2 <= n -> 192 <= b1 /\ is_cont b2 = true) /\
  (pos + 3 <= n -> is_cont b3 = true) /\
  (pos + 4 <= n -> is_cont b4 = true).
Proof.
  unfold byte, is_cont. intros H1 H2 H3 H4. unfold decode_one_arith_gen.
  destruct (masks b1 H1) as (A1 & _ & A3 & A4 & A5 & _).
  destruct (masks b2 H2) as (_ & B2 & _).
  destruct (masks b3 H3) as (_ & C2 & _).
  destruct (masks b4 H4) as (_ & D2 & _).
  rewrite A1, A3, A4, A5, B2, C2, D2.
  repeat match goal with
  | |- context [if ?b then _ else _] => let E := fresh "E" in destruct b eqn:E
  end; cbn [fst snd]; repeat split; intros; try lia.
Qed.

Lemma nthz_dropz (text : list Z) i k :
  0 <= i -> 0 <= k < zlen (dropz i text) -> nthz text (i + k) = Some (nth (Z.to_nat k) (dropz i text) 0).
Proof.
  intros Hi Hk. unfold nthz. destruct (i + k <? 0) eqn:E; [lia|].
  unfold dropz in *. replace (Z.to_nat (i + k)) with (Z.to_nat i + Z.to_nat k)%nat by lia.
  rewrite <- nth_error_skipn'. apply nth_error_nth'. unfold zlen in Hk. lia.
Qed.

Theorem decode_one_shape text i o n :
  bytes text -> 0 <= i < zlen text -> decode_one text i = Ok (o, n) ->
  (forall t, i < t < n -> exists v, nthz text t = Some v /\ is_cont v = true) /\
  (i + 1 < n -> exists v, nthz text i = Some v /\ 192 <= v).
Proof.
  intros Hb Hi Hd.
  assert (Hr : bytes (dropz i text)) by (apply Forall_dropz; exact Hb).
  assert (Hp : zlen (takez i text) = i) by (apply zlen_takez_in; lia).
  assert (Hl : zlen (dropz i text) = zlen text - i) by (rewrite zlen_dropz by lia; lia).
  assert (Es : text = takez i text ++ dropz i text) by (unfold takez, dropz; now rewrite firstn_skipn).
  assert (Hd2 := Hd).
  replace (decode_one text i) with (decode_one (takez i text ++ dropz i text) (zlen (takez i text))) in Hd2
    by (rewrite <- Es, Hp; reflexivity).
  rewrite decode_one_at in Hd2 by lia. rewrite Hp in Hd2.
  set (rest := dropz i text) in *.
  set (b1 := nth 0 rest 0) in *.
  set (b2 := if 1 <? zlen rest then nth 1 rest 0 else 0) in *.
  set (b3 := if 2 <? zlen rest then nth 2 rest 0 else 0) in *.
  set (b4 := if 3 <? zlen rest then nth 3 rest 0 else 0) in *.
  assert (B1 : byte b1) by (apply nth_byte, Hr).
  assert (B2 : byte b2) by (unfold b2; destruct (1 <? zlen rest); [apply nth_byte, Hr|unfold byte; lia]).
  assert (B3 : byte b3) by (unfold b3; destruct (2 <? zlen rest); [apply nth_byte, Hr|unfold byte; lia]).
  assert (B4 : byte b4) by (unfold b4; destruct (3 <? zlen rest); [apply nth_byte, Hr|unfold byte; lia]).
  pose proof (arith_cont b1 b2 b3 b4 (zlen rest) i B1 B2 B3 B4) as C.
  pose proof (arith_next b1 b2 b3 b4 (zlen rest) i) as N.
  inversion Hd2 as [Hd3]. rewrite Hd3 in C, N. cbn [snd] in C, N. destruct C as (C2 & C3 & C4).
  pose proof (nthz_dropz text i 0 ltac:(lia) ltac:(fold rest; lia)) as N0.
  replace (i + 0) with i in N0 by lia. change (Z.to_nat 0) with 0%nat in N0. fold rest in N0. fold b1 in N0.
  split.
  - intros t Ht.
    assert (Hlt : t - i < zlen rest) by lia.
    destruct (Z.eq_dec t (i + 1)) as [->|]; [|destruct (Z.eq_dec t (i + 2)) as [->|]; [|assert (t = i + 3) by lia; subst t]].
    + exists b2. split; [|apply C2; lia]. unfold b2. destruct (1 <? zlen rest) eqn:E; [|lia].
      rewrite (nthz_dropz text i 1) by (fold rest; lia). reflexivity.
    + exists b3. split; [|apply C3; lia]. unfold b3. destruct (2 <? zlen rest) eqn:E; [|lia].
      rewrite (nthz_dropz text i 2) by (fold rest; lia). reflexivity.
    + exists b4. split; [|apply C4; lia]. unfold b4. destruct (3 <? zlen rest) eqn:E; [|lia].
      rewrite (nthz_dropz text i 3) by (fold rest; lia). reflexivity.
  - intros Hn. exists b1. split; [exact N0|]. apply C2. lia.
Qed.
