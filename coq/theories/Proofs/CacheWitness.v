(* A concrete history on which the cache is visible when one widget renders uncacheable canvases.
   Everything here is closed computation ([vm_compute]) on the model of Model/Cache.v. *)
From Coq Require Import ZArith List Bool Lia.
Import ListNotations.
From Urwid Require Import PyBase Cache CacheFacts CacheProofs.
Open Scope Z_scope.

Definition body_w (w v k : Z) : prog (list Z) :=
  match w with
  | 0 => Ret [0; v]
  | 1 => Ret [1; v]
  | 2 => if k <? 14 then Ask 0 k (fun a => Ret a) else Ask 0 k (fun a => Ask 1 k (fun b => Ret (a ++ b)))
  | 3 => Ask 2 k (fun c => Ret c)
  | _ => Ret []
  end.
Definition rank_w (w : Z) : nat := Z.to_nat w.
Definition cacheable_w (w : Z) : bool := negb (w =? 1).
Definition rbody_w (w v k : Z) : rprog := RRet 1.
Definition rows_w (c : list Z) : Z := 1.
Definition ops_w : list op := [Render 2 12; Render 3 16; Mutate 1 1].
Definition run_w (cacheable : Z -> bool) :=
  run (list Z) body_w rbody_w rows_w cacheable (fun _ => true) 5 init ops_w.

Lemma ranked_w : forall w v k, prog_ranked (rank_w w) rank_w (body_w w v k).
Proof.
  intros w v k. destruct w as [|p|p]; cbn; auto.
  destruct p as [[p|p|]|[p|p|]|]; cbn; auto.
  destruct (k <? 14); cbn.
  - split; [unfold rank_w; cbn; lia|]. intros y. cbn. auto.
  - split; [unfold rank_w; cbn; lia|]. intros y. cbn. split; [unfold rank_w; cbn; lia|]. intros z. cbn. auto.
Qed.

(* with the uncacheable widget: the cached render of widget 3 still shows version 0 of widget 1 *)
Lemma stale_w :
  option_map (fun r => c_content (fst r)) (crender (list Z) body_w cacheable_w 5 (run_w cacheable_w) 3 16) = Some [0; 0; 1; 0]
  /\ fresh (list Z) body_w (ver (run_w cacheable_w)) 5 3 16 = Some [0; 0; 1; 1].
Proof. vm_compute. split; reflexivity. Qed.

(* the same history when every widget is cacheable: nothing stale *)
Lemma not_stale_when_cacheable :
  option_map (fun r => c_content (fst r)) (crender (list Z) body_w (fun _ => true) 5 (run_w (fun _ => true)) 3 16) = Some [0; 0; 1; 1].
Proof. vm_compute. reflexivity. Qed.

Lemma refutation_w :
  ~ (forall (C : Type) body rbody rows_of cacheable rcache rank,
      (forall w v k, prog_ranked (rank w) rank (body w v k)) ->
      forall n m1 m2 ops w k cv st1 cv' st2,
      let st := run C body rbody rows_of cacheable rcache n init ops in
      crender C body cacheable m1 st w k = Some (cv, st1) ->
      crender C body cacheable m2 (State empty_cache (heap st) (next st) (ver st)) w k = Some (cv', st2) ->
      c_content cv = c_content cv').
Proof.
  intros H.
  pose proof (H (list Z) body_w rbody_w rows_w cacheable_w (fun _ => true) rank_w ranked_w 5%nat 5%nat 5%nat ops_w 3 16) as H1.
  cbn zeta in H1.
  destruct (crender (list Z) body_w cacheable_w 5
              (run (list Z) body_w rbody_w rows_w cacheable_w (fun _ => true) 5 init ops_w) 3 16) as [[cv st1]|] eqn:E1;
    [|vm_compute in E1; discriminate].
  destruct (crender (list Z) body_w cacheable_w 5
              (State empty_cache
                 (heap (run (list Z) body_w rbody_w rows_w cacheable_w (fun _ => true) 5 init ops_w))
                 (next (run (list Z) body_w rbody_w rows_w cacheable_w (fun _ => true) 5 init ops_w))
                 (ver (run (list Z) body_w rbody_w rows_w cacheable_w (fun _ => true) 5 init ops_w))) 3 16) as [[cv' st2]|] eqn:E2;
    [|vm_compute in E2; discriminate].
  specialize (H1 _ _ _ _ eq_refl eq_refl).
  vm_compute in E1. vm_compute in E2. inversion E1. inversion E2. subst. cbn in H1. discriminate.
Qed.

(* the model computes a non-trivial reachable state of a non-trivial widget graph *)
Lemma state_w_nontrivial :
  let st := run (list Z) body_w rbody_w rows_w (fun _ => true) (fun _ => true) 5 init [Render 2 12; Render 3 16] in
  (map (fun e => (fst e, map fst (snd e))) (widgets (cc st)), deps (cc st), length (heap st))
  = ([(3, [16]); (2, [16; 12]); (1, [16]); (0, [16; 12])], [(2, [3]); (1, [2]); (0, [2; 2])], 6%nat).
Proof. vm_compute. reflexivity. Qed.

(* the collector frees a canvas that a cached canvas still displays (canvas 2 of widget 2, child of canvas 3 of
   widget 3): cleanup invalidates the dependant, nothing stale afterwards *)
Definition ops_gc : list op := [Render 3 16; Collect 2; Mutate 1 1].
Lemma collect_displayed_child :
  let st := run (list Z) body_w rbody_w rows_w (fun _ => true) (fun _ => true) 5 init ops_gc in
  (length (heap st), map fst (widgets (cc st)),
   option_map (fun r => c_content (fst r)) (crender (list Z) body_w (fun _ => true) 5 st 3 16),
   fresh (list Z) body_w (ver st) 5 3 16)
  = (3%nat, [0], Some [0; 0; 1; 1], Some [0; 0; 1; 1]).
Proof. vm_compute. reflexivity. Qed.
