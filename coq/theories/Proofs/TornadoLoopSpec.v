(* C13, adapters - the contract of the TornadoEventLoop wrapper model (Model/TornadoLoop.v) relative to the
   host specification [host_ok] of AdapterLoopSpec.v.  It is [aev_ok] except for remove_alarm:
   TornadoEventLoop keeps its own table of pending alarms, so remove_alarm reports True exactly for an
   alarm that is still pending (set, not run, not removed) - like SelectEventLoop.  Definitions only. *)
From Coq Require Import ZArith List Bool.
Import ListNotations.
From Urwid Require Import PyBase SelectLoop AdapterLoop SelectLoopSpec AdapterLoopSpec.
Open Scope Z_scope.

Definition taev_ok (e : event) (older : list event) : Prop :=
  match e with
  | ERmAlarm k ok => ok = true <-> exists d i, pending k d i older
  | _ => aev_ok e older
  end.
