(* C15 - simulation, continued (see Proofs/VTermSim.v).
   C15 - simulation of the reference VT100 (Model/VT100Ref.v) by the emulator model (Model/VTerm.v) fed with
   the byte encoding of the reference's commands: the relation R, one lemma per command, composition. *)
From Coq Require Import ZArith List Bool Lia ZifyBool.
Import ListNotations.
From Urwid Require Import PyBase PyList vterm_csi_gen VTerm VT100Ref VTermRefine VTermListFacts VTermProofs VTermParse VTermSim VTermSimB VTermSimC.
Open Scope Z_scope.

Arguments Z.mul : simpl never.
Arguments Z.add : simpl never.
Arguments Z.sub : simpl never.
Arguments Z.div : simpl never.
Arguments Z.modulo : simpl never.
Arguments Z.ltb : simpl never.
Arguments Z.leb : simpl never.
Arguments Z.eqb : simpl never.
Arguments Z.min : simpl never.
Arguments Z.max : simpl never.
Arguments Z.pow : simpl never.
Arguments Z.to_nat : simpl never.
Arguments Z.of_nat : simpl never.


(* ---------- insert / delete characters ---------- *)
Lemma iter_succ_r {A} (f : A -> A) k x : Nat.iter k f (f x) = Nat.iter (S k) f x.
Proof. induction k; [reflexivity|]. change (Nat.iter (S k) f (f x)) with (f (Nat.iter k f (f x))). rewrite IHk. reflexivity. Qed.

Lemma ich_iter (e : cell) k : forall (A C : list row) (p s : row), 0 < zlen s ->
  iter_res k (fun t => do r <- get_index t (zlen A); do q <- pop (insert r (zlen p) e) (-1); set_index t (zlen A) (snd q))
           (A ++ (p ++ s) :: C)
  = Ok (A ++ (p ++ Nat.iter k (shr e) s) :: C).
Proof.
  induction k; intros A C p s Hs; [reflexivity|].
  cbn [iter_res]. rewrite get_mid. cbn [bind].
  destruct (ich_step p s e Hs) as (x0 & E). unfold row, cell in *. rewrite E. cbn [bind snd]. rewrite set_mid. cbn [bind].
  rewrite IHk by (rewrite zlen_shr; assumption). rewrite iter_succ_r. reflexivity.
Qed.

Lemma dch_iter (e : cell) k : forall (A C : list row) (p s : row), 0 < zlen s ->
  iter_res k (fun t => do r <- get_index t (zlen A); do q <- pop r (zlen p); set_index t (zlen A) (snd q ++ [e]))
           (A ++ (p ++ s) :: C)
  = Ok (A ++ (p ++ Nat.iter k (shl e) s) :: C).
Proof.
  induction k; intros A C p s Hs; [reflexivity|].
  cbn [iter_res]. rewrite get_mid. cbn [bind].
  destruct (dch_step p s Hs) as (x0 & E). unfold row, cell in *. rewrite E. cbn [bind snd]. rewrite set_mid. cbn [bind].
  rewrite <- app_assoc. change (dropz 1 s ++ [e]) with (shl e s).
  rewrite IHk by (rewrite zlen_shl; assumption). rewrite iter_succ_r. reflexivity.
Qed.

Lemma ich_iter' (e : cell) k (A C : list row) (p s : row) x y : x = zlen p -> y = zlen A -> 0 < zlen s ->
  iter_res k (fun t => do r <- get_index t y; do q <- pop (insert r x e) (-1); set_index t y (snd q)) (A ++ (p ++ s) :: C)
  = Ok (A ++ (p ++ Nat.iter k (shr e) s) :: C).
Proof. intros -> ->. apply ich_iter. Qed.

Lemma dch_iter' (e : cell) k (A C : list row) (p s : row) x y : x = zlen p -> y = zlen A -> 0 < zlen s ->
  iter_res k (fun t => do r <- get_index t y; do q <- pop r x; set_index t y (snd q ++ [e])) (A ++ (p ++ s) :: C)
  = Ok (A ++ (p ++ Nat.iter k (shl e) s) :: C).
Proof. intros -> ->. apply dch_iter. Qed.

(* the cursor row split at the cursor *)
Lemma cursor_split t v :
  Rg t v ->
  let T := term t in let r := rowz T (v_y v) in
  T = takez (v_y v) T ++ (takez (v_x v) r ++ dropz (v_x v) r) :: dropz (v_y v + 1) T /\
  zlen (takez (v_y v) T) = v_y v /\ zlen (takez (v_x v) r) = v_x v /\ zlen (dropz (v_x v) r) = v_w v - v_x v /\
  Forall2 cell_rel r (nth_row (v_g v) (v_y v)).
Proof.
  intros H. cbv zeta. pose proof (Rg_bounds t v H) as B. pose proof H as [].
  assert (0 <= v_y v < zlen (term t)) as Hy by (rewrite (i_rows t g_inv), g_h; lia).
  destruct (rowz_rel (term t) (v_g v) (v_y v) g_grid Hy) as (N1 & _ & Rr).
  pose proof (rowz_len t (v_y v) g_inv ltac:(lia)) as Lr.
  rewrite takez_dropz. split; [apply split_at; exact N1|].
  rewrite !zlen_takez, zlen_dropz by lia. repeat split; try lia. exact Rr.
Qed.

Lemma cd_chars X args q c :
  csi_dispatch X c args q =
  (if c =? 64 then insert_chars X (cur X) (arg args 0) None
   else if c =? 80 then remove_chars X (cur X) (arg args 0)
   else if c =? 76 then insert_lines X (arg args 0)
   else if c =? 77 then remove_lines X (arg args 0)
   else csi_dispatch X c args q).
Proof.
  destruct (c =? 64) eqn:E1; [apply Z.eqb_eq in E1; subst; unfold csi_dispatch; destruct (cur X); reflexivity|].
  destruct (c =? 80) eqn:E2; [apply Z.eqb_eq in E2; subst; unfold csi_dispatch; destruct (cur X); reflexivity|].
  destruct (c =? 76) eqn:E3; [apply Z.eqb_eq in E3; subst; unfold csi_dispatch; destruct (cur X); reflexivity|].
  destruct (c =? 77) eqn:E4; [apply Z.eqb_eq in E4; subst; unfold csi_dispatch; destruct (cur X); reflexivity|].
  reflexivity.
Qed.

Lemma sim_ich s v n : R s v -> small n ->
  exists s', addbytes s (enc_cmd (CIch n)) = Ok s' /\ R s' (exec v (CIch n)).
Proof.
  intros HR Hs. cbn [enc_cmd].
  eapply (sim_csi s v [n] 64 1 1 64); [assumption|repeat constructor; assumption|reflexivity|unfold plain_byte; lia|].
  intros X HX. rewrite cd_chars. replace (64 =? 64) with true by reflexivity.
  rewrite csi_args_1. cbn [arg nth]. rewrite dflt_one.
  pose proof (R0_bounds X v HX) as B. pose proof (R0_Rg X v HX) as G. pose proof HX as [].
  assert (1 <= one n) as O1 by (unfold one; split_ifs; lia). set (a0 := one n) in *. rewrite r_cur.
  pose proof (insert_chars_Keeps X (cur X) a0 None r_inv) as Kp.
  rewrite r_cur in Kp. cbn [snd] in Kp. rewrite r_h in Kp. specialize (Kp ltac:(lia)).
  destruct (cursor_split X v G) as (ET & LA & Lp & Ls & Rr). cbv zeta in ET, LA, Lp, Ls, Rr.
  set (A := takez (v_y v) (term X)) in *. set (C := dropz (v_y v + 1) (term X)) in *.
  set (r := rowz (term X) (v_y v)) in *. set (p := takez (v_x v) r) in *. set (sg := dropz (v_x v) r) in *.
  assert (insert_chars X (v_x v, v_y v) a0 None
          = Ok (with_term X (A ++ (p ++ Nat.iter (Z.to_nat (Z.min a0 (v_w v))) (shr (empty_char X [32])) sg) :: C))) as E.
  { unfold insert_chars. replace (a0 =? 0) with false by lia. rewrite r_w. rewrite ET.
    rewrite (ich_iter' _ _ A C p sg (v_x v) (v_y v)) by (auto; lia). reflexivity. }
  rewrite E in Kp |- *. apply K_Inv in Kp.
  eexists. split; [reflexivity|]. cbn [exec].
  apply (R0_grid X v _ _ HX); try reflexivity.
  apply Rg_with_term; [exact G|exact Kp|].
  subst A C. apply grid_set_row; [exact r_grid|].
  rewrite shr_iter by lia. rewrite Ls.
  set (kk := Z.min a0 (v_w v - v_x v)).
  replace (Nat.min (Z.to_nat (Z.min a0 (v_w v))) (Z.to_nat (v_w v - v_x v))) with (Z.to_nat kk) by lia.
  subst p sg. apply Forall2_app; [apply Forall2_takez; exact Rr|].
  apply Forall2_app.
  - unfold blanks. apply Forall2_repeat'. split; [reflexivity|exact Logic.I].
  - unfold sub. replace (v_w v - v_x v - Z.of_nat (Z.to_nat kk)) with (v_w v - kk - v_x v) by lia.
    apply Forall2_takez. apply Forall2_dropz. exact Rr.
Qed.

Lemma sim_dch s v n : R s v -> small n ->
  exists s', addbytes s (enc_cmd (CDch n)) = Ok s' /\ R s' (exec v (CDch n)).
Proof.
  intros HR Hs. cbn [enc_cmd].
  eapply (sim_csi s v [n] 80 1 1 80); [assumption|repeat constructor; assumption|reflexivity|unfold plain_byte; lia|].
  intros X HX. rewrite cd_chars. replace (80 =? 64) with false by reflexivity. replace (80 =? 80) with true by reflexivity.
  rewrite csi_args_1. cbn [arg nth]. rewrite dflt_one.
  pose proof (R0_bounds X v HX) as B. pose proof (R0_Rg X v HX) as G. pose proof HX as [].
  assert (1 <= one n) as O1 by (unfold one; split_ifs; lia). set (a0 := one n) in *. rewrite r_cur.
  pose proof (remove_chars_Keeps X (cur X) a0 r_inv) as Kp.
  rewrite r_cur in Kp. cbn [fst snd] in Kp. rewrite r_h, r_w in Kp. specialize (Kp ltac:(lia) ltac:(lia)).
  destruct (cursor_split X v G) as (ET & LA & Lp & Ls & Rr). cbv zeta in ET, LA, Lp, Ls, Rr.
  set (A := takez (v_y v) (term X)) in *. set (C := dropz (v_y v + 1) (term X)) in *.
  set (r := rowz (term X) (v_y v)) in *. set (p := takez (v_x v) r) in *. set (sg := dropz (v_x v) r) in *.
  assert (remove_chars X (v_x v, v_y v) a0
          = Ok (with_term X (A ++ (p ++ Nat.iter (Z.to_nat (Z.min a0 (v_w v))) (shl (empty_char X [32])) sg) :: C))) as E.
  { unfold remove_chars. replace (a0 =? 0) with false by lia. rewrite r_w. rewrite ET.
    rewrite (dch_iter' _ _ A C p sg (v_x v) (v_y v)) by (auto; lia). reflexivity. }
  rewrite E in Kp |- *. apply K_Inv in Kp.
  eexists. split; [reflexivity|]. cbn [exec].
  apply (R0_grid X v _ _ HX); try reflexivity.
  apply Rg_with_term; [exact G|exact Kp|].
  subst A C. apply grid_set_row; [exact r_grid|].
  rewrite shl_iter by lia. rewrite Ls.
  set (kk := Z.min a0 (v_w v - v_x v)).
  replace (Nat.min (Z.to_nat (Z.min a0 (v_w v))) (Z.to_nat (v_w v - v_x v))) with (Z.to_nat kk) by lia.
  subst p sg. apply Forall2_app; [apply Forall2_takez; exact Rr|].
  apply Forall2_app.
  - rewrite dropz_dropz' by lia. replace (Z.of_nat (Z.to_nat kk) + v_x v) with (v_x v + kk) by lia.
    apply Forall2_dropz. exact Rr.
  - unfold blanks. apply Forall2_repeat'. split; [reflexivity|exact Logic.I].
Qed.

(* ---------- insert / delete lines ---------- *)
Lemma il_iter (e : row) k (A C : list row) bot : forall (s : list row), 0 < zlen s -> bot = zlen A + zlen s - 1 ->
  iter_res k (fun t => do q <- pop t bot; Ok (insert (snd q) (zlen A) e)) (A ++ s ++ C)
  = Ok (A ++ Nat.iter k (shr e) s ++ C).
Proof.
  induction k; intros s Hs Hb; [reflexivity|].
  cbn [iter_res]. destruct (il_step A s C e Hs) as (x0 & E1 & E2). rewrite <- Hb in E1.
  unfold row, cell in *. rewrite E1. cbn [bind snd]. rewrite E2.
  rewrite IHk by (rewrite ?zlen_shr; auto; lia). rewrite iter_succ_r. reflexivity.
Qed.

Lemma dl_iter (e : row) k (A C : list row) bot : forall (s : list row), 0 < zlen s -> bot = zlen A + zlen s - 1 ->
  iter_res k (fun t => do q <- pop t (zlen A); Ok (insert (snd q) bot e)) (A ++ s ++ C)
  = Ok (A ++ Nat.iter k (shl e) s ++ C).
Proof.
  induction k; intros s Hs Hb; [reflexivity|].
  cbn [iter_res]. destruct (dl_step A s C e Hs) as (x0 & E1 & E2). rewrite <- Hb in E2.
  unfold row, cell in *. rewrite E1. cbn [bind snd]. rewrite E2.
  rewrite IHk by (rewrite ?zlen_shl; auto; lia). rewrite iter_succ_r. reflexivity.
Qed.

Lemma il_iter' (e : row) k (A C : list row) bot y (s : list row) : y = zlen A -> 0 < zlen s -> bot = zlen A + zlen s - 1 ->
  iter_res k (fun t => do q <- pop t bot; Ok (insert (snd q) y e)) (A ++ s ++ C) = Ok (A ++ Nat.iter k (shr e) s ++ C).
Proof. intros ->. apply il_iter. Qed.

Lemma dl_iter' (e : row) k (A C : list row) bot y (s : list row) : y = zlen A -> 0 < zlen s -> bot = zlen A + zlen s - 1 ->
  iter_res k (fun t => do q <- pop t y; Ok (insert (snd q) bot e)) (A ++ s ++ C) = Ok (A ++ Nat.iter k (shl e) s ++ C).
Proof. intros ->. apply dl_iter. Qed.

(* the grid split around the lines from the cursor row to the bottom margin *)
Lemma region_split (T : list row) y bot : 0 <= y <= bot -> bot < zlen T ->
  T = takez y T ++ takez (bot - y + 1) (dropz y T) ++ dropz (bot + 1) T /\
  zlen (takez y T) = y /\ zlen (takez (bot - y + 1) (dropz y T)) = bot - y + 1.
Proof.
  intros H1 H2. split; [|rewrite !zlen_takez, zlen_dropz by lia; lia].
  rewrite <- (takez_dropz T y) at 1. f_equal.
  rewrite <- (takez_dropz (dropz y T) (bot - y + 1)) at 1. f_equal.
  rewrite dropz_dropz' by lia. f_equal. lia.
Qed.

Definition il_ref (v : vt) (n : Z) : vt :=
  if (v_top v <=? v_y v) && (v_y v <=? v_bot v) then
    let k := Z.min (one n) (v_bot v - v_y v + 1) in
    let g := v_g v in
    with_g v (takez (v_y v) g ++ blank_rows (v_w v) k ++ sub g (v_y v) (v_bot v + 1 - k) ++ dropz (v_bot v + 1) g)
  else v.
Definition dl_ref (v : vt) (n : Z) : vt :=
  if (v_top v <=? v_y v) && (v_y v <=? v_bot v) then
    let k := Z.min (one n) (v_bot v - v_y v + 1) in
    let g := v_g v in
    with_g v (takez (v_y v) g ++ sub g (v_y v + k) (v_bot v + 1) ++ blank_rows (v_w v) k ++ dropz (v_bot v + 1) g)
  else v.

Lemma exec_il v n : exec v (CIl n) = with_xy (il_ref v n) 0 (v_y v) false.
Proof. cbn [exec]. unfold il_ref. destruct ((v_top v <=? v_y v) && (v_y v <=? v_bot v)); reflexivity. Qed.
Lemma exec_dl v n : exec v (CDl n) = with_xy (dl_ref v n) 0 (v_y v) false.
Proof. cbn [exec]. unfold dl_ref. destruct ((v_top v <=? v_y v) && (v_y v <=? v_bot v)); reflexivity. Qed.

Lemma blank_rows_rel' X v k : Rg X v -> Forall2 (Forall2 cell_rel) (repeat (empty_line X [32]) (Z.to_nat k)) (blank_rows (v_w v) k).
Proof. intros G. unfold blank_rows. apply Forall2_repeat'. apply (blank_line_rel X v G). Qed.

Lemma insert_lines_R0 X v n :
  R0 X v -> exists s', insert_lines X (one n) = Ok s' /\ R0 s' (il_ref v n).
Proof.
  intros HX. pose proof (R0_bounds X v HX) as B. pose proof (R0_Rg X v HX) as G. pose proof HX as [].
  assert (1 <= one n) as O1 by (unfold one; split_ifs; lia). set (a0 := one n) in *.
  pose proof (insert_lines_Keeps X a0 r_inv) as Kp.
  unfold insert_lines, il_ref in *. rewrite r_cur in *. cbn [snd] in *. rewrite r_top, r_bot, r_h in *.
  destruct ((v_top v <=? v_y v) && (v_y v <=? v_bot v)) eqn:C0; cbn [negb] in *.
  2:{ eexists. split; [reflexivity|exact HX]. }
  replace (a0 =? 0) with false in * by lia. cbv zeta in *.
  pose proof (i_rows X r_inv) as Lt. rewrite r_h in Lt.
  destruct (region_split (term X) (v_y v) (v_bot v)) as (ET & LA & Ls); [lia|lia|].
  set (A := takez (v_y v) (term X)) in *. set (C := dropz (v_bot v + 1) (term X)) in *.
  set (sg := takez (v_bot v - v_y v + 1) (dropz (v_y v) (term X))) in *.
  assert (iter_res (Z.to_nat (Z.min a0 (v_h v)))
            (fun t => do p <- pop t (v_bot v); Ok (insert (snd p) (v_y v) (empty_line X [32]))) (term X)
          = Ok (A ++ Nat.iter (Z.to_nat (Z.min a0 (v_h v))) (shr (empty_line X [32])) sg ++ C)) as E.
  { rewrite ET. apply il_iter'; lia. }
  unfold row, cell in *. rewrite E in Kp |- *. cbn [bind] in *. apply K_Inv in Kp.
  eexists. split; [reflexivity|].
  apply (R0_grid X v _ _ HX); try reflexivity.
  apply Rg_with_term; [exact G|exact Kp|].
  rewrite shr_iter by lia. rewrite Ls.
  set (kk := Z.min a0 (v_bot v - v_y v + 1)).
  replace (Nat.min (Z.to_nat (Z.min a0 (v_h v))) (Z.to_nat (v_bot v - v_y v + 1))) with (Z.to_nat kk) by lia.
  subst A C sg. unfold grid_rel.
  apply Forall2_app; [apply Forall2_takez; exact r_grid|].
  rewrite <- app_assoc.
  apply Forall2_app; [apply (blank_rows_rel' X v kk G)|].
  apply Forall2_app; [|apply Forall2_dropz; exact r_grid].
  unfold sub. rewrite takez_takez by lia.
  replace (v_bot v - v_y v + 1 - Z.of_nat (Z.to_nat kk)) with (v_bot v + 1 - kk - v_y v) by lia.
  apply Forall2_takez. apply Forall2_dropz. exact r_grid.
Qed.

Lemma remove_lines_R0 X v n :
  R0 X v -> exists s', remove_lines X (one n) = Ok s' /\ R0 s' (dl_ref v n).
Proof.
  intros HX. pose proof (R0_bounds X v HX) as B. pose proof (R0_Rg X v HX) as G. pose proof HX as [].
  assert (1 <= one n) as O1 by (unfold one; split_ifs; lia). set (a0 := one n) in *.
  pose proof (remove_lines_Keeps X a0 r_inv) as Kp.
  unfold remove_lines, dl_ref in *. rewrite r_cur in *. cbn [snd] in *. rewrite r_top, r_bot, r_h in *.
  destruct ((v_top v <=? v_y v) && (v_y v <=? v_bot v)) eqn:C0; cbn [negb] in *.
  2:{ eexists. split; [reflexivity|exact HX]. }
  replace (a0 =? 0) with false in * by lia. cbv zeta in *.
  pose proof (i_rows X r_inv) as Lt. rewrite r_h in Lt.
  destruct (region_split (term X) (v_y v) (v_bot v)) as (ET & LA & Ls); [lia|lia|].
  set (A := takez (v_y v) (term X)) in *. set (C := dropz (v_bot v + 1) (term X)) in *.
  set (sg := takez (v_bot v - v_y v + 1) (dropz (v_y v) (term X))) in *.
  assert (iter_res (Z.to_nat (Z.min a0 (v_h v)))
            (fun t => do p <- pop t (v_y v); Ok (insert (snd p) (v_bot v) (empty_line X [32]))) (term X)
          = Ok (A ++ Nat.iter (Z.to_nat (Z.min a0 (v_h v))) (shl (empty_line X [32])) sg ++ C)) as E.
  { rewrite ET. apply dl_iter'; lia. }
  unfold row, cell in *. rewrite E in Kp |- *. cbn [bind] in *. apply K_Inv in Kp.
  eexists. split; [reflexivity|].
  apply (R0_grid X v _ _ HX); try reflexivity.
  apply Rg_with_term; [exact G|exact Kp|].
  rewrite shl_iter by lia. rewrite Ls.
  set (kk := Z.min a0 (v_bot v - v_y v + 1)).
  replace (Nat.min (Z.to_nat (Z.min a0 (v_h v))) (Z.to_nat (v_bot v - v_y v + 1))) with (Z.to_nat kk) by lia.
  subst A C sg. unfold grid_rel.
  apply Forall2_app; [apply Forall2_takez; exact r_grid|].
  rewrite <- app_assoc.
  apply Forall2_app.
  - unfold sub. rewrite dropz_takez by lia. rewrite dropz_dropz' by lia.
    replace (v_bot v - v_y v + 1 - Z.of_nat (Z.to_nat kk)) with (v_bot v + 1 - (v_y v + kk)) by lia.
    replace (Z.of_nat (Z.to_nat kk) + v_y v) with (v_y v + kk) by lia.
    apply Forall2_takez. apply Forall2_dropz. exact r_grid.
  - apply Forall2_app; [apply (blank_rows_rel' X v kk G)|apply Forall2_dropz; exact r_grid].
Qed.

Lemma sim_then_cr s bytes v1 :
  (exists s1, addbytes s bytes = Ok s1 /\ R s1 v1) ->
  exists s', addbytes s (bytes ++ [13]) = Ok s' /\ R s' (with_xy v1 0 (v_y v1) false).
Proof.
  intros (s1 & E1 & R1). rewrite addbytes_app, E1. cbn [bind]. apply (sim_cr s1 v1 R1).
Qed.

Lemma sim_il s v n : R s v -> small n ->
  exists s', addbytes s (enc_cmd (CIl n)) = Ok s' /\ R s' (exec v (CIl n)).
Proof.
  intros HR Hs. rewrite exec_il. cbn [enc_cmd].
  replace (v_y v) with (v_y (il_ref v n)) by (unfold il_ref; split_ifs; reflexivity).
  apply sim_then_cr.
  eapply (sim_csi s v [n] 76 1 1 76); [assumption|repeat constructor; assumption|reflexivity|unfold plain_byte; lia|].
  intros X HX. rewrite cd_chars. replace (76 =? 64) with false by reflexivity. replace (76 =? 80) with false by reflexivity.
  replace (76 =? 76) with true by reflexivity. rewrite csi_args_1. cbn [arg nth]. rewrite dflt_one.
  apply insert_lines_R0. assumption.
Qed.

Lemma sim_dl s v n : R s v -> small n ->
  exists s', addbytes s (enc_cmd (CDl n)) = Ok s' /\ R s' (exec v (CDl n)).
Proof.
  intros HR Hs. rewrite exec_dl. cbn [enc_cmd].
  replace (v_y v) with (v_y (dl_ref v n)) by (unfold dl_ref; split_ifs; reflexivity).
  apply sim_then_cr.
  eapply (sim_csi s v [n] 77 1 1 77); [assumption|repeat constructor; assumption|reflexivity|unfold plain_byte; lia|].
  intros X HX. rewrite cd_chars. replace (77 =? 64) with false by reflexivity. replace (77 =? 80) with false by reflexivity.
  replace (77 =? 76) with false by reflexivity. replace (77 =? 77) with true by reflexivity.
  rewrite csi_args_1. cbn [arg nth]. rewrite dflt_one.
  apply remove_lines_R0. assumption.
Qed.

