(* More proofs about Model/Signals.v (property C14): registration through the MetaSignals
   metaclass, weak-argument death at any point of any history (a property of the flattened
   trace), and the widget methods that use the machinery (Button, CheckBox, Edit). *)
From Coq Require Import ZArith List Bool Lia Sorted.
Import ListNotations.
From Urwid Require Import PyBase Signals SignalsProofs.
Open Scope Z_scope.

Arguments Z.add : simpl never.
Arguments Z.sub : simpl never.
Arguments Z.ltb : simpl never.
Arguments Z.leb : simpl never.
Arguments Z.eqb : simpl never.

(* ================= A. registration ================= *)
Lemma run_op_connect fuel env s n cb ua ws us st :
  run_op fuel env (OConnect s n cb ua ws us) st = connect env s n cb ua ws us st.
Proof. destruct fuel; reflexivity. Qed.

Lemma connect_accepted_iff_proof fuel env s n cb ua ws us st :
  (forall w, In w ws -> In w (st_reg st)) ->
  (snd (run_op fuel env (OConnect s n cb ua ws us) st) = Done
   <-> In n (sup_lookup (st_sup st) (sender_class env s))).
Proof.
  intros Hr. split.
  - intros Hd. destruct (memz n (sup_lookup (st_sup st) (sender_class env s))) eqn:E.
    + apply memz_In; auto.
    + apply memz_false in E. rewrite (unregistered_proof fuel env s n cb ua ws us st Hr E) in Hd.
      discriminate.
  - intros Hi. destruct (connect_registered_proof fuel env s n cb ua ws us st Hr Hi) as [st' [He _]].
    rewrite He. reflexivity.
Qed.

Lemma dedupe_In x l : In x (dedupe l) <-> In x l.
Proof.
  induction l as [|y l IH]; cbn [dedupe]; [tauto|].
  split.
  - intros [->|Hx]; [left; auto|]. apply filter_In in Hx. right. apply IH. tauto.
  - intros [->|Hx]; [left; auto|].
    destruct (Z.eq_dec x y) as [->|Hne]; [left; auto|].
    right. apply filter_In. split; [apply IH; auto|]. apply negb_true_iff. apply Z.eqb_neq. auto.
Qed.

Lemma NoDup_filter {A} (p : A -> bool) l : NoDup l -> NoDup (filter p l).
Proof.
  induction 1; cbn; [constructor|]. destruct (p x); auto. constructor; auto.
  intro Hx. apply filter_In in Hx. tauto.
Qed.

Lemma dedupe_NoDup l : NoDup (dedupe l).
Proof.
  induction l as [|y l IH]; cbn [dedupe]; constructor.
  - intro Hx. apply filter_In in Hx. destruct Hx as [_ Hx]. apply negb_true_iff in Hx.
    apply Z.eqb_neq in Hx. auto.
  - apply NoDup_filter; auto.
Qed.

(* is the metaclass of this class statement MetaSignals? *)
Definition meta_stmt (cs : cstate) (d : clsdef) : bool :=
  c_meta d || existsb (fun b => memz b (cs_metas cs)) (c_bases d).

Definition own_sig (d : clsdef) : list Z := match c_sig d with Some l => l | None => [] end.

(* what MetaSignals.__init__ hands to register_signal *)
Definition meta_names (defs : list clsdef) (cs : cstate) (d : clsdef) : list Z :=
  dedupe (own_sig d ++ flat_map (class_attr defs (cs_dicts cs)) (c_bases d)).

Lemma create_class_sup defs cs i d j :
  sup_lookup (cs_sup (fst (create_class defs cs i d))) j
  = if meta_stmt cs d && (i =? j) then meta_names defs cs d else sup_lookup (cs_sup cs) j.
Proof.
  unfold create_class, meta_stmt, meta_names, own_sig.
  destruct (c_meta d || existsb (fun b => memz b (cs_metas cs)) (c_bases d)); cbn [fst cs_sup andb]; auto.
  rewrite sup_lookup_update. reflexivity.
Qed.

Lemma create_classes_sup_before defs : forall todo cs i j,
  j < i -> sup_lookup (cs_sup (fst (create_classes defs cs i todo))) j = sup_lookup (cs_sup cs) j.
Proof.
  induction todo as [|d r IH]; intros cs i j Hj; cbn [create_classes fst]; auto.
  destruct (create_class defs cs i d) as [cs1 e1] eqn:E1.
  destruct (create_classes defs cs1 (i + 1) r) as [cs2 e2] eqn:E2. cbn [fst].
  replace cs2 with (fst (create_classes defs cs1 (i + 1) r)) by (rewrite E2; auto).
  rewrite IH by lia.
  replace cs1 with (fst (create_class defs cs i d)) by (rewrite E1; auto).
  rewrite create_class_sup.
  replace (i =? j) with false by (symmetry; apply Z.eqb_neq; lia). rewrite andb_false_r. reflexivity.
Qed.

Lemma create_classes_app defs : forall a b cs i,
  fst (create_classes defs cs i (a ++ b))
  = fst (create_classes defs (fst (create_classes defs cs i a)) (i + zlen a) b).
Proof.
  induction a as [|d a IH]; intros b cs i; cbn [app create_classes fst].
  - rewrite zlen_nil. replace (i + 0) with i by lia. reflexivity.
  - destruct (create_class defs cs i d) as [cs1 e1].
    specialize (IH b cs1 (i + 1)).
    destruct (create_classes defs cs1 (i + 1) (a ++ b)) as [cs2 e2].
    destruct (create_classes defs cs1 (i + 1) a) as [cs3 e3]. cbn [fst] in *.
    rewrite zlen_cons. replace (i + (1 + zlen a)) with (i + 1 + zlen a) by lia. exact IH.
Qed.

(* the class created at position [zlen pre] of a module keeps exactly what its own creation
   registered, however many classes (subclasses included) are created after it *)
Lemma metaclass_registration_proof defs pre d post :
  let cs_pre := fst (create_classes defs (MkCState [] [] []) 0 pre) in
  sup_lookup (cs_sup (fst (create_classes defs (MkCState [] [] []) 0 (pre ++ d :: post)))) (zlen pre)
  = if meta_stmt cs_pre d then meta_names defs cs_pre d else [].
Proof.
  intros cs_pre. rewrite create_classes_app. fold cs_pre. cbn [create_classes].
  replace (0 + zlen pre) with (zlen pre) by lia.
  destruct (create_class defs cs_pre (zlen pre) d) as [cs1 e1] eqn:E1.
  destruct (create_classes defs cs1 (zlen pre + 1) post) as [cs2 e2] eqn:E2. cbn [fst].
  replace cs2 with (fst (create_classes defs cs1 (zlen pre + 1) post)) by (rewrite E2; auto).
  rewrite create_classes_sup_before by lia.
  replace cs1 with (fst (create_class defs cs_pre (zlen pre) d)) by (rewrite E1; auto).
  rewrite create_class_sup, Z.eqb_refl, andb_true_r.
  destruct (meta_stmt cs_pre d); auto.
  (* nothing registered before for this index *)
  assert (Hnone : forall todo cs i j, i + zlen todo <= j -> sup_lookup (cs_sup cs) j = [] ->
                    sup_lookup (cs_sup (fst (create_classes defs cs i todo))) j = []).
  { induction todo as [|d0 r IH]; intros cs i j Hj H0; cbn [create_classes fst]; auto.
    rewrite zlen_cons in Hj. pose proof (zlen_nonneg r).
    destruct (create_class defs cs i d0) as [csa ea] eqn:Ea.
    destruct (create_classes defs csa (i + 1) r) as [csb eb] eqn:Eb. cbn [fst].
    replace csb with (fst (create_classes defs csa (i + 1) r)) by (rewrite Eb; auto).
    apply IH; [lia|].
    replace csa with (fst (create_class defs cs i d0)) by (rewrite Ea; auto).
    rewrite create_class_sup. replace (i =? j) with false by (symmetry; apply Z.eqb_neq; lia).
    rewrite andb_false_r. auto. }
  unfold cs_pre. apply Hnone; [lia | reflexivity].
Qed.

Lemma own_signals_registered_proof defs cs d n :
  In n (own_sig d) -> In n (meta_names defs cs d).
Proof. intros Hn. unfold meta_names. apply dedupe_In. apply in_or_app. left; auto. Qed.

Lemma base_attribute_registered_proof defs cs d b n :
  In b (c_bases d) -> In n (class_attr defs (cs_dicts cs) b) -> In n (meta_names defs cs d).
Proof.
  intros Hb Hn. unfold meta_names. apply dedupe_In. apply in_or_app. right.
  apply in_flat_map. exists b. auto.
Qed.

Lemma registered_names_come_from_proof defs cs d n :
  In n (meta_names defs cs d) ->
  In n (own_sig d) \/ exists b, In b (c_bases d) /\ In n (class_attr defs (cs_dicts cs) b).
Proof.
  unfold meta_names. intros Hn. apply (proj1 (dedupe_In _ _)) in Hn. apply in_app_or in Hn.
  destruct Hn as [Hn|Hn]; [left; auto|]. right. apply in_flat_map in Hn. exact Hn.
Qed.

(* ================= B. weak-argument death at any point ================= *)
Inductive atom := ACall (argv : list val) | ADied (o : Z).

(* the calls and deaths of an event tree, in the order they happen *)
Fixpoint flat (e : event) : list atom :=
  match e with
  | EvEmit _ _ _ ch _ =>
      (fix go (l : list event) : list atom := match l with [] => [] | x :: r => flat x ++ go r end) ch
  | EvCall _ _ argv body _ =>
      ACall argv :: (fix go (l : list event) : list atom := match l with [] => [] | x :: r => flat x ++ go r end) body
  | EvWOp _ _ _ emits _ =>
      (fix go (l : list event) : list atom := match l with [] => [] | x :: r => flat x ++ go r end) emits
  | EvDied o => [ADied o]
  | _ => []
  end.

Definition flats (l : list event) : list atom := flat_map flat l.

Lemma flat_go l :
  (fix go (l : list event) : list atom := match l with [] => [] | x :: r => flat x ++ go r end) l = flats l.
Proof. induction l as [|x r IH]; cbn; [auto | rewrite IH; auto]. Qed.

Lemma flat_emit s n a ch o : flat (EvEmit s n a ch o) = flats ch.
Proof. cbn [flat]. apply flat_go. Qed.
Lemma flat_call k cb argv body ret : flat (EvCall k cb argv body ret) = ACall argv :: flats body.
Proof. cbn [flat]. rewrite flat_go. reflexivity. Qed.
Lemma flat_wop c s v em o : flat (EvWOp c s v em o) = flats em.
Proof. cbn [flat]. apply flat_go. Qed.

Lemma flats_app a b : flats (a ++ b) = flats a ++ flats b.
Proof. apply flat_map_app. Qed.
Lemma flats_cons x r : flats (x :: r) = flat x ++ flats r.
Proof. reflexivity. Qed.

(* no call receives an object that is already dead; D = the objects dead so far *)
Fixpoint safe (D : list Z) (l : list atom) : Prop :=
  match l with
  | [] => True
  | ADied o :: r => safe (o :: D) r
  | ACall argv :: r => (forall o, In (VObj o) argv -> ~ In o D) /\ safe D r
  end.

Fixpoint dead_after (D : list Z) (l : list atom) : list Z :=
  match l with
  | [] => D
  | ADied o :: r => dead_after (o :: D) r
  | ACall _ :: r => dead_after D r
  end.

Lemma safe_app a : forall D b, safe D (a ++ b) <-> safe D a /\ safe (dead_after D a) b.
Proof.
  induction a as [|x a IH]; intros D b; cbn [app safe dead_after]; [tauto|].
  destruct x; cbn [safe dead_after]; rewrite IH; tauto.
Qed.

Lemma dead_after_app a : forall D b, dead_after D (a ++ b) = dead_after (dead_after D a) b.
Proof. induction a as [|x a IH]; intros D b; cbn [app dead_after]; auto. destruct x; apply IH. Qed.

Lemma dead_after_died ds : forall D, dead_after D (map ADied ds) = rev ds ++ D.
Proof.
  induction ds as [|o ds IH]; intros D; cbn [map dead_after rev app]; auto.
  rewrite IH, <- app_assoc. reflexivity.
Qed.

Lemma safe_died ds : forall D, safe D (map ADied ds).
Proof. induction ds as [|o ds IH]; intros D; cbn; auto. Qed.

Lemma flats_died ds : flats (map EvDied ds) = map ADied ds.
Proof. induction ds as [|o ds IH]; cbn; [auto | f_equal; exact IH]. Qed.

Lemma dead_after_mono l : forall D o, In o D -> In o (dead_after D l).
Proof.
  induction l as [|x l IH]; intros D o Ho; cbn [dead_after]; auto.
  destruct x; apply IH; auto. right; auto.
Qed.

Lemma safe_call_avoids l : forall D argv, safe D l -> In (ACall argv) l ->
  forall o, In o D -> ~ In (VObj o) argv.
Proof.
  induction l as [|x l IH]; intros D argv Hs Hin o Ho; [destruct Hin|].
  destruct x; cbn [safe] in Hs.
  - destruct Hs as [Hc Hs]. destruct Hin as [He|Hin].
    + inversion He; subst. intro Hv. exact (Hc o Hv Ho).
    + eapply IH; eauto.
  - destruct Hin as [He|Hin]; [discriminate|]. eapply IH; eauto. right; auto.
Qed.

(* the readable form: after [ADied o] no call gets o *)
Lemma safe_no_call_after_death D l1 o l2 argv :
  safe D (l1 ++ ADied o :: l2) -> In (ACall argv) l2 -> ~ In (VObj o) argv.
Proof.
  intros Hs Hin. apply safe_app in Hs. destruct Hs as [_ Hs]. cbn [safe] in Hs.
  eapply safe_call_avoids; eauto. left; auto.
Qed.

(* the invariant of every execution: the produced trace is safe from the dead set of the
   starting state, and the dead set of the final state is the starting one plus the deaths *)
Definition tr_ok (st : state) (evs : list event) (st' : state) : Prop :=
  safe (st_dead st) (flats evs) /\ st_dead st' = dead_after (st_dead st) (flats evs).

Lemma tr_ok_nil st st' : st_dead st' = st_dead st -> tr_ok st [] st'.
Proof. intros Hd. split; cbn; auto. Qed.

Lemma tr_ok_app a e1 b e2 c : tr_ok a e1 b -> tr_ok b e2 c -> tr_ok a (e1 ++ e2) c.
Proof.
  intros [S1 D1] [S2 D2]. split.
  - rewrite flats_app. apply safe_app. split; auto. rewrite <- D1. auto.
  - rewrite flats_app, dead_after_app, <- D1. auto.
Qed.

Lemma tr_ok_dead_l a a' evs b : st_dead a' = st_dead a -> tr_ok a' evs b -> tr_ok a evs b.
Proof. unfold tr_ok. intros ->. auto. Qed.

Lemma tr_ok_dead_r a evs b b' : st_dead b' = st_dead b -> tr_ok a evs b -> tr_ok a evs b'.
Proof. unfold tr_ok. intros ->. auto. Qed.

(* events without calls and deaths *)
Definition quiet (evs : list event) : Prop := flats evs = [].

Lemma tr_ok_quiet st evs st' : quiet evs -> st_dead st' = st_dead st -> tr_ok st evs st'.
Proof. intros Hq Hd. unfold tr_ok. rewrite Hq. cbn. auto. Qed.

Lemma st_dead_die o st : st_dead (die o st) = o :: st_dead st.
Proof. reflexivity. Qed.

Lemma st_dead_fold_die ds : forall st, st_dead (fold_left (fun s o => die o s) ds st) = rev ds ++ st_dead st.
Proof.
  induction ds as [|o ds IH]; intros st; cbn [fold_left rev app]; auto.
  rewrite IH, st_dead_die, <- app_assoc. reflexivity.
Qed.

Lemma reap_tr_ok env gc st : tr_ok st (snd (reap env gc st)) (fst (reap env gc st)).
Proof.
  unfold reap. cbn [fst snd]. unfold tr_ok. rewrite flats_died. split.
  - apply safe_died.
  - rewrite st_dead_fold_die, dead_after_died. reflexivity.
Qed.

Lemma connect_tr_ok env s n cb ua ws us st :
  tr_ok st (snd (fst (connect env s n cb ua ws us st))) (fst (fst (connect env s n cb ua ws us st))).
Proof.
  unfold connect. destruct (negb (forallb _ ws)); [apply tr_ok_quiet; reflexivity|].
  destruct (negb (memz n _)); apply tr_ok_quiet; reflexivity.
Qed.

Lemma st_dead_disconnect_by_key s n k st : st_dead (disconnect_by_key s n k st) = st_dead st.
Proof. unfold disconnect_by_key. destruct (lookup _ _); reflexivity. Qed.

Lemma disconnect_tr_ok s n cb ua ws us st :
  tr_ok st (snd (fst (disconnect s n cb ua ws us st))) (fst (fst (disconnect s n cb ua ws us st))).
Proof.
  unfold disconnect. destruct (negb (forallb _ ws)); [apply tr_ok_quiet; reflexivity|].
  destruct (find _ _); apply tr_ok_quiet; try reflexivity. apply st_dead_disconnect_by_key.
Qed.

Lemma kill_tr_ok env o st : tr_ok st (snd (fst (kill env o st))) (fst (fst (kill env o st))).
Proof.
  unfold kill. destruct (memz o (st_reg st)); [|apply tr_ok_quiet; reflexivity].
  set (st1 := set_pend _ _).
  pose proof (reap_tr_ok env false st1) as Hr.
  destruct (reap env false st1) as [st2 evs]. cbn [fst snd] in *.
  change (EvKill o 0 :: evs) with ([EvKill o 0] ++ evs).
  eapply tr_ok_app; [apply (tr_ok_quiet st [EvKill o 0] st1); reflexivity | exact Hr].
Qed.

Lemma argv_obj h args o :
  (forall x, ~ In (VObj x) args) -> In (VObj o) (argv_of h args) -> In o (h_wargs h).
Proof.
  intros Hno Hin. unfold argv_of in Hin.
  apply in_app_or in Hin. destruct Hin as [Hin|Hin].
  - apply in_map_iff in Hin. destruct Hin as [w [He Hw]]. inversion He; subst; auto.
  - apply in_app_or in Hin. destruct Hin as [Hin|Hin].
    + apply in_map_iff in Hin. destruct Hin as [w [He _]]. discriminate.
    + apply in_app_or in Hin. destruct Hin as [Hin|Hin]; [exfalso; eapply Hno; eauto|].
      destruct (h_uarg h); [destruct Hin as [He|[]]; discriminate | destruct Hin].
Qed.

Section TraceGeneric.
  Variable step : op -> state -> state * list event * status.
  Hypothesis step_ok : forall o st, tr_ok st (snd (fst (step o st))) (fst (fst (step o st))).

  Lemma run_seq_tr_ok : forall ops st,
    tr_ok st (snd (fst (run_seq step ops st))) (fst (fst (run_seq step ops st))).
  Proof.
    induction ops as [|o r IH]; intros st; cbn [run_seq].
    - apply tr_ok_nil; reflexivity.
    - pose proof (step_ok o st) as H1.
      destruct (step o st) as [[st1 e1] s1]. cbn [fst snd] in H1.
      destruct s1; cbn [fst snd]; auto.
      pose proof (IH st1) as H2.
      destruct (run_seq step r st1) as [[st2 e2] s2]. cbn [fst snd] in *.
      eapply tr_ok_app; eauto.
  Qed.
End TraceGeneric.

Section TraceCall.
  Variable run : list op -> state -> state * list event * status.
  Hypothesis run_ok : forall ops st, tr_ok st (snd (fst (run ops st))) (fst (fst (run ops st))).
  Variable env : envt.
  Variable args : list val.
  Hypothesis args_noobj : forall x, ~ In (VObj x) args.

  Lemma call_callback_tr_ok h st :
    tr_ok st (snd (fst (fst (call_callback run env args h st)))) (fst (fst (fst (call_callback run env args h st)))).
  Proof.
    unfold call_callback.
    destruct (existsb (fun w => memz w (st_dead st)) (h_wargs h)) eqn:Ed;
      [apply tr_ok_nil; reflexivity|].
    apply dead_check_false in Ed.
    destruct (e_maxcalls env <=? st_calls st); [apply tr_ok_nil; reflexivity|].
    set (st1 := set_held (set_calls st (st_calls st + 1)) (h_wargs h ++ st_held st)).
    pose proof (run_ok (sc_ops (script_of env (h_cb h))) st1) as Hb.
    destruct (run (sc_ops (script_of env (h_cb h))) st1) as [[st2 body] s2]. cbn [fst snd] in Hb.
    assert (Hcall : forall ret st', st_dead st' = st_dead st2 ->
              tr_ok st [EvCall (h_key h) (h_cb h) (argv_of h args) body ret] st').
    { intros ret st' Hd. destruct Hb as [Sb Db]. unfold tr_ok.
      rewrite flats_cons, flat_call. cbn [flats flat_map]. rewrite app_nil_r. cbn [safe dead_after].
      split; [split|].
      - intros o Ho Hdead. apply (argv_obj h args o args_noobj) in Ho. exact (Ed o Ho Hdead).
      - exact Sb.
      - rewrite Hd. exact Db. }
    destruct s2.
    - set (st2' := set_held st2 (st_held st)).
      pose proof (reap_tr_ok env false st2') as Hr.
      destruct (reap env false st2') as [st3 died]. cbn [fst snd] in *.
      change (EvCall (h_key h) (h_cb h) (argv_of h args) body (Some (sc_ret (script_of env (h_cb h)))) :: died)
        with ([EvCall (h_key h) (h_cb h) (argv_of h args) body (Some (sc_ret (script_of env (h_cb h))))] ++ died).
      eapply tr_ok_app; [apply (Hcall _ st2'); reflexivity | exact Hr].
    - cbn [fst snd]. apply Hcall. reflexivity.
  Qed.

  Lemma emit_loop_tr_ok s n : forall snap st res,
    tr_ok st (snd (fst (fst (emit_loop (call_callback run env args) s n snap st res))))
             (fst (fst (fst (emit_loop (call_callback run env args) s n snap st res)))).
  Proof.
    induction snap as [|h rest IH]; intros st res; cbn [emit_loop].
    - apply tr_ok_nil; reflexivity.
    - destruct (negb (memz (h_key h) (keys st s n))); [apply IH|].
      pose proof (call_callback_tr_ok h st) as H1.
      destruct (call_callback run env args h st) as [[[st1 e1] s1] r]. cbn [fst snd] in H1.
      destruct s1; cbn [fst snd]; auto.
      pose proof (IH st1 (res || r)) as H2.
      destruct (emit_loop (call_callback run env args) s n rest st1 (res || r)) as [[[st2 e2] s2] r2].
      cbn [fst snd] in *. eapply tr_ok_app; eauto.
  Qed.
End TraceCall.

Lemma noobj_ints (args : list Z) : forall x, ~ In (VObj x) (map VInt args).
Proof. intros x Hin. apply in_map_iff in Hin. destruct Hin as [y [He _]]. discriminate. Qed.

Lemma noobj_self1 s : forall x, ~ In (VObj x) [VSelf s].
Proof. intros x [He|[]]; discriminate. Qed.

Lemma noobj_self2 s v : forall x, ~ In (VObj x) [VSelf s; VInt v].
Proof. intros x [He|[He|[]]]; discriminate. Qed.

Lemma tr_ok_wrap_emit st ch st' s n a o :
  tr_ok st ch st' -> tr_ok st [EvEmit s n a ch o] st'.
Proof. unfold tr_ok. rewrite flats_cons, flat_emit. cbn [flats flat_map]. rewrite app_nil_r. auto. Qed.

Lemma tr_ok_wrap_wop st em st' c s v o :
  tr_ok st em st' -> tr_ok st [EvWOp c s v em o] st'.
Proof. unfold tr_ok. rewrite flats_cons, flat_wop. cbn [flats flat_map]. rewrite app_nil_r. auto. Qed.

Lemma run_op_tr_ok : forall fuel env o st,
  tr_ok st (snd (fst (run_op fuel env o st))) (fst (fst (run_op fuel env o st))).
Proof.
  induction fuel as [|f IH]; intros env o st.
  - destruct o; cbn [run_op fst snd]; try (apply tr_ok_quiet; reflexivity).
    + apply connect_tr_ok.
    + apply disconnect_tr_ok.
    + apply tr_ok_quiet; [reflexivity | apply st_dead_disconnect_by_key].
    + apply kill_tr_ok.
    + pose proof (reap_tr_ok env true st) as Hr. destruct (reap env true st) as [st1 evs].
      cbn [fst snd] in *. change (EvGc :: evs) with ([EvGc] ++ evs).
      eapply tr_ok_app; [apply (tr_ok_quiet st [EvGc] st); reflexivity | exact Hr].
  - assert (core_ok : forall s n vargs snap st0, (forall x, ~ In (VObj x) vargs) ->
              tr_ok st0 (snd (fst (fst (emit_loop (call_callback (run_seq (run_op f env)) env vargs) s n snap st0 false))))
                        (fst (fst (fst (emit_loop (call_callback (run_seq (run_op f env)) env vargs) s n snap st0 false))))).
    { intros s n vargs snap st0 Hno. apply emit_loop_tr_ok; auto.
      intros ops st1. apply run_seq_tr_ok. intros; apply IH. }
    destruct o; cbn [run_op fst snd]; try (apply tr_ok_quiet; reflexivity).
    + apply connect_tr_ok.
    + apply disconnect_tr_ok.
    + apply tr_ok_quiet; [reflexivity | apply st_dead_disconnect_by_key].
    + pose proof (core_ok s n (map VInt args) (handlers st s n) st (noobj_ints args)) as Hc.
      destruct (emit_loop _ s n (handlers st s n) st false) as [[[st1 ch] s1] res]. cbn [fst snd] in *.
      apply tr_ok_wrap_emit; auto.
    + apply kill_tr_ok.
    + pose proof (reap_tr_ok env true st) as Hr. destruct (reap env true st) as [st1 evs].
      cbn [fst snd] in *. change (EvGc :: evs) with ([EvGc] ++ evs).
      eapply tr_ok_app; [apply (tr_ok_quiet st [EvGc] st); reflexivity | exact Hr].
    + pose proof (core_ok s n [VSelf s] (handlers st s n) st (noobj_self1 s)) as Hc.
      destruct (emit_loop _ s n (handlers st s n) st false) as [[[st1 ch] s1] res]. cbn [fst snd] in *.
      apply tr_ok_wrap_wop. apply tr_ok_wrap_emit; auto.
    + destruct (wstate st s =? v); [apply tr_ok_quiet; reflexivity|].
      pose proof (core_ok s nc [VSelf s; VInt v] (handlers st s nc) st (noobj_self2 s v)) as H1.
      destruct (emit_loop _ s nc (handlers st s nc) st false) as [[[st1 ch1] s1] r1]. cbn [fst snd] in H1.
      destruct s1; [|cbn [fst snd]; apply tr_ok_wrap_wop; apply tr_ok_wrap_emit; auto].
      set (st2 := set_wstate st1 _).
      pose proof (core_ok s np [VSelf s; VInt (wstate st s)] (handlers st2 s np) st2 (noobj_self2 s _)) as H2.
      destruct (emit_loop _ s np (handlers st2 s np) st2 false) as [[[st3 ch2] s3] r3]. cbn [fst snd] in *.
      apply tr_ok_wrap_wop.
      change [EvEmit s nc [v] ch1 (enc_bool r1); EvEmit s np [wstate st s] ch2 (outcome_of s3 (enc_bool r3))]
        with ([EvEmit s nc [v] ch1 (enc_bool r1)] ++ [EvEmit s np [wstate st s] ch2 (outcome_of s3 (enc_bool r3))]).
      eapply tr_ok_app; [apply tr_ok_wrap_emit; exact H1|].
      apply tr_ok_wrap_emit. eapply tr_ok_dead_l; [|exact H2]. reflexivity.
    + pose proof (core_ok s nc [VSelf s; VInt v] (handlers st s nc) st (noobj_self2 s v)) as H1.
      destruct (emit_loop _ s nc (handlers st s nc) st false) as [[[st1 ch1] s1] r1]. cbn [fst snd] in H1.
      destruct s1; [|cbn [fst snd]; apply tr_ok_wrap_wop; apply tr_ok_wrap_emit; auto].
      set (st2 := set_wstate st1 _).
      pose proof (core_ok s np [VSelf s; VInt (wstate st1 s)] (handlers st2 s np) st2 (noobj_self2 s _)) as H2.
      destruct (emit_loop _ s np (handlers st2 s np) st2 false) as [[[st3 ch2] s3] r3]. cbn [fst snd] in *.
      apply tr_ok_wrap_wop.
      change [EvEmit s nc [v] ch1 (enc_bool r1); EvEmit s np [wstate st1 s] ch2 (outcome_of s3 (enc_bool r3))]
        with ([EvEmit s nc [v] ch1 (enc_bool r1)] ++ [EvEmit s np [wstate st1 s] ch2 (outcome_of s3 (enc_bool r3))]).
      eapply tr_ok_app; [apply tr_ok_wrap_emit; exact H1|].
      apply tr_ok_wrap_emit. eapply tr_ok_dead_l; [|exact H2]. reflexivity.
Qed.

Lemma top_step_tr_ok fuel env o st : tr_ok st (snd (top_step fuel env o st)) (fst (top_step fuel env o st)).
Proof.
  unfold top_step. pose proof (run_op_tr_ok fuel env o st) as H1.
  destruct (run_op fuel env o st) as [[st1 e1] s1]. cbn [fst snd] in H1.
  destruct s1; auto.
  pose proof (reap_tr_ok env false (set_held st1 [])) as H2.
  destruct (reap env false (set_held st1 [])) as [st2 e2]. cbn [fst snd] in *.
  eapply tr_ok_app; [exact H1|]. eapply tr_ok_dead_l; [|exact H2]. reflexivity.
Qed.

Lemma run_top_tr_ok fuel env : forall ops st, tr_ok st (snd (run_top fuel env ops st)) (fst (run_top fuel env ops st)).
Proof.
  induction ops as [|o r IH]; intros st; cbn [run_top].
  - apply tr_ok_nil; reflexivity.
  - pose proof (top_step_tr_ok fuel env o st) as H1.
    destruct (top_step fuel env o st) as [st1 e1]. cbn [fst snd] in H1.
    pose proof (IH st1) as H2.
    destruct (run_top fuel env r st1) as [st2 e2]. cbn [fst snd] in *.
    eapply tr_ok_app; eauto.
Qed.

(* every history, every script table, every fuel: once an object has died no call receives it *)
Lemma no_call_after_death_proof fuel env ops st l1 o l2 argv :
  flats (snd (run_top fuel env ops st)) = l1 ++ ADied o :: l2 ->
  In (ACall argv) l2 -> ~ In (VObj o) argv.
Proof.
  intros He Hin. pose proof (run_top_tr_ok fuel env ops st) as [Hs _]. rewrite He in Hs.
  eapply safe_no_call_after_death; eauto.
Qed.

Lemma no_call_with_dead_object_proof fuel env ops st argv o :
  In (ACall argv) (flats (snd (run_top fuel env ops st))) -> In o (st_dead st) -> ~ In (VObj o) argv.
Proof.
  intros Hin Ho. pose proof (run_top_tr_ok fuel env ops st) as [Hs _].
  eapply safe_call_avoids; eauto.
Qed.

(* a call of a handler passes every weak argument of the handler (so "no call receives a dead
   object" is "no handler with a dead weak argument is called") *)
Lemma call_passes_weak_args h args w : In w (h_wargs h) -> In (VObj w) (argv_of h args).
Proof. intros Hw. unfold argv_of. apply in_or_app. left. apply in_map; auto. Qed.

(* ================= C. the widgets that use the machinery ================= *)
Lemma le_handler_back a b s n h :
  le a b -> Inv a -> In h (handlers a s n) -> In (h_key h) (keys b s n) -> In h (handlers b s n).
Proof.
  intros Hl Hi Hh Hk. unfold keys in Hk. apply in_map_iff in Hk. destruct Hk as [h' [He Hh']].
  assert (Hlt : h_key h' < st_nkey a).
  { rewrite He. apply (proj2 (Hi s n)). unfold keys. apply in_map; auto. }
  pose proof (le_old _ _ Hl s n h' Hlt Hh') as Hold.
  assert (h' = h) by (eapply (NoDup_keys_inj (handlers a s n)); eauto; apply (Inv_NoDup a s n Hi)).
  subst; auto.
Qed.

Lemma le_alive_back a b h : le a b -> wargs_alive b h -> wargs_alive a h.
Proof. intros Hl Ha w Hw Hd. apply (Ha w Hw). apply (le_dead _ _ Hl); auto. Qed.

Lemma le_key_back a b s n h :
  le a b -> Inv a -> In h (handlers a s n) -> In (h_key h) (keys b s n) -> In (h_key h) (keys a s n).
Proof. intros _ _ Hh _. unfold keys. apply in_map; auto. Qed.

(* what one emit of a widget guarantees, as a predicate on the EvEmit node [e] it produced from
   state [a] (ending in [b]) with emitted values [vargs], judged from a later state [c] *)
Definition emit_once (a c : state) (s n : Z) (vargs : list val) (ch : list event) : Prop :=
  sublist (called_keys ch) (keys a s n) /\
  NoDup (called_keys ch) /\
  (forall h, In h (handlers a s n) -> In (h_key h) (keys c s n) -> wargs_alive c h ->
             count_occ Z.eq_dec (called_keys ch) (h_key h) = 1%nat) /\
  (forall cl, In cl (direct_calls ch) ->
     exists h, In h (handlers a s n) /\ c_key cl = h_key h /\ c_cb cl = h_cb h /\
       c_argv cl = map VObj (h_wargs h) ++ map VInt (h_uargs h) ++ vargs
                     ++ match h_uarg h with Some u => [VInt u] | None => [] end).

Lemma core_emit_once f env s n vargs a b ch res c :
  Inv a -> emit_core f env s n vargs a = (b, ch, Done, res) -> le b c ->
  emit_once a c s n vargs ch.
Proof.
  intros Hi Hrun Hbc.
  destruct (core_exactly_once _ _ _ _ _ _ _ _ _ _ Hi Hrun) as [Hs [Hn Hone]].
  pose proof (core_le _ _ _ _ _ _ _ _ _ _ Hi Hrun) as Hab.
  split; [exact Hs|]. split; [exact Hn|]. split.
  - intros h Hh Hk Ha. apply (Hone eq_refl h Hh).
    + assert (Hb : In h (handlers b s n)).
      { eapply le_handler_back; [exact Hab | exact Hi | exact Hh |].
        assert (In h (handlers c s n)).
        { eapply le_handler_back; [eapply le_trans; eauto | exact Hi | exact Hh | exact Hk]. }
        apply (le_keys b c s n (h_key h) Hbc).
        - pose proof (le_nkey _ _ Hab). pose proof (proj2 (Hi s n) (h_key h) (in_map h_key _ _ Hh)). lia.
        - exact Hk. }
      unfold keys. apply in_map; auto.
    + eapply le_alive_back; eauto.
  - exact (core_args _ _ _ _ _ _ _ _ _ _ Hi Hrun).
Qed.

(* Button: one activation = one emit of 'click' with the button as the only emitted value *)
Lemma button_click_proof f env s n st st' evs :
  Inv st -> run_op (S f) env (OClick s n) st = (st', evs, Done) ->
  exists ch out,
    evs = [EvWOp 0 s 0 [EvEmit s n [] ch out] 0] /\ emit_once st st' s n [VSelf s] ch.
Proof.
  intros Hi Hrun. cbn [run_op] in Hrun.
  destruct (emit_loop _ s n (handlers st s n) st false) as [[[st1 ch] s1] res] eqn:El.
  inversion Hrun; subst. cbn [outcome_of].
  eexists _, _. split; [reflexivity|].
  eapply core_emit_once; [exact Hi | exact El |].
  apply le_refl. exact (le_inv _ _ (core_le _ _ _ _ _ _ _ _ _ _ Hi El)).
Qed.

(* CheckBox.set_state: nothing at all when the state is unchanged *)
Lemma checkbox_unchanged_proof f env s nc np v st :
  wstate st s = v -> run_op (S f) env (OSetState s nc np v) st = (st, [EvWOp 1 s v [] 0], Done).
Proof. intros Hw. cbn [run_op]. rewrite Hw, Z.eqb_refl. reflexivity. Qed.

(* CheckBox.set_state with a new state: exactly one emit of 'change' (widget, new state), then
   the state is set, then exactly one emit of 'postchange' (widget, old state) *)
Lemma checkbox_changed_proof f env s nc np v st st' evs :
  Inv st -> wstate st s <> v ->
  run_op (S f) env (OSetState s nc np v) st = (st', evs, Done) ->
  exists st1 ch1 o1 ch2 o2,
    evs = [EvWOp 1 s v [EvEmit s nc [v] ch1 o1; EvEmit s np [wstate st s] ch2 o2] 0] /\
    emit_once st st' s nc [VSelf s; VInt v] ch1 /\
    le st st1 /\ wstate (set_wstate st1 (wupdate (st_wstate st1) s v)) s = v /\
    emit_once (set_wstate st1 (wupdate (st_wstate st1) s v)) st' s np [VSelf s; VInt (wstate st s)] ch2.
Proof.
  intros Hi Hne Hrun. cbn [run_op] in Hrun.
  apply Z.eqb_neq in Hne. rewrite Hne in Hrun.
  destruct (emit_loop _ s nc (handlers st s nc) st false) as [[[st1 ch1] s1] r1] eqn:E1.
  destruct s1; [|inversion Hrun].
  set (st2 := set_wstate st1 (wupdate (st_wstate st1) s v)) in *.
  destruct (emit_loop _ s np (handlers st2 s np) st2 false) as [[[st3 ch2] s3] r3] eqn:E2.
  inversion Hrun; subst. cbn [outcome_of].
  pose proof (core_le _ _ _ _ _ _ _ _ _ _ Hi E1) as H1.
  assert (Hc : same_core st1 st2) by (repeat split).
  assert (Hi2 : Inv st2) by (eapply same_core_Inv; eauto; exact (le_inv _ _ H1)).
  pose proof (core_le _ _ _ _ _ _ _ _ _ _ Hi2 E2) as H2.
  exists st1. eexists _, _, _, _. split; [reflexivity|]. split; [|split; [exact H1|split]].
  - eapply core_emit_once; [exact Hi | exact E1 |]. eapply le_same_core_l; eauto.
  - unfold st2, wstate. cbn [st_wstate set_wstate].
    clear. induction (st_wstate st1) as [|[a b] t IH]; cbn [wupdate wlookup].
    + rewrite Z.eqb_refl. reflexivity.
    + destruct (a =? s) eqn:E; cbn [wlookup]; rewrite E; auto.
  - eapply core_emit_once; [exact Hi2 | exact E2 |]. apply le_refl. exact (le_inv _ _ H2).
Qed.

(* Edit.set_edit_text: always one emit of 'change' (widget, new text) and one of 'postchange'
   (widget, the text just before it is replaced - read after the first emit) *)
Lemma edit_set_text_proof f env s nc np v st st' evs :
  Inv st -> run_op (S f) env (OSetText s nc np v) st = (st', evs, Done) ->
  exists st1 ch1 o1 ch2 o2,
    evs = [EvWOp 2 s v [EvEmit s nc [v] ch1 o1; EvEmit s np [wstate st1 s] ch2 o2] 0] /\
    emit_once st st' s nc [VSelf s; VInt v] ch1 /\
    le st st1 /\
    emit_once (set_wstate st1 (wupdate (st_wstate st1) s v)) st' s np [VSelf s; VInt (wstate st1 s)] ch2.
Proof.
  intros Hi Hrun. cbn [run_op] in Hrun.
  destruct (emit_loop _ s nc (handlers st s nc) st false) as [[[st1 ch1] s1] r1] eqn:E1.
  destruct s1; [|inversion Hrun].
  set (st2 := set_wstate st1 (wupdate (st_wstate st1) s v)) in *.
  destruct (emit_loop _ s np (handlers st2 s np) st2 false) as [[[st3 ch2] s3] r3] eqn:E2.
  inversion Hrun; subst. cbn [outcome_of].
  pose proof (core_le _ _ _ _ _ _ _ _ _ _ Hi E1) as H1.
  assert (Hc : same_core st1 st2) by (repeat split).
  assert (Hi2 : Inv st2) by (eapply same_core_Inv; eauto; exact (le_inv _ _ H1)).
  pose proof (core_le _ _ _ _ _ _ _ _ _ _ Hi2 E2) as H2.
  exists st1. eexists _, _, _, _. split; [reflexivity|]. split; [|split; [exact H1|]].
  - eapply core_emit_once; [exact Hi | exact E1 |]. eapply le_same_core_l; eauto.
  - eapply core_emit_once; [exact Hi2 | exact E2 |]. apply le_refl. exact (le_inv _ _ H2).
Qed.

(* handlers connected before the widget method that stay connected are still in the snapshot of
   its second emit: so [emit_once] of the second emit speaks about them too *)
Lemma connected_before_in_second_snapshot st st1 s v np h :
  Inv st -> le st st1 -> In h (handlers st s np) ->
  In (h_key h) (keys (set_wstate st1 (wupdate (st_wstate st1) s v)) s np) ->
  In h (handlers (set_wstate st1 (wupdate (st_wstate st1) s v)) s np).
Proof.
  intros Hi Hl Hh Hk.
  assert (Hc : same_core st1 (set_wstate st1 (wupdate (st_wstate st1) s v))) by (repeat split).
  eapply le_handler_back; [eapply le_same_core_r; eauto | exact Hi | exact Hh | exact Hk].
Qed.
