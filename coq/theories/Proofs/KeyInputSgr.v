(* C05 - the SGR (1006) mouse report with decimal parameters decodes to one mouse event with
   coordinates (x - 1, y - 1): int() parsing, split(";") and the scan for the final M/m. *)
From Coq Require Import ZArith List Bool Lia.
Import ListNotations.
From Urwid Require Import PyBase escape_table_gen KeyInput KeyInputProofs.
Open Scope Z_scope.

Arguments Z.add : simpl never.
Arguments Z.sub : simpl never.
Arguments Z.mul : simpl never.
Arguments Z.ltb : simpl never.
Arguments Z.leb : simpl never.
Arguments Z.eqb : simpl never.
Arguments Z.land : simpl never.
Arguments Z.shiftr : simpl never.

Definition digits (ds : list Z) : Prop := ds <> [] /\ forallb is_digit ds = true.

Lemma digit_not k a : is_digit k = true -> a < 48 \/ 57 < a -> (k =? a) = false.
Proof. intros H Ha. apply is_digit_range in H. apply Z.eqb_neq. lia. Qed.

Lemma digit_not_space k : is_digit k = true -> is_int_space k = false.
Proof.
  intros H. apply is_digit_range in H. unfold is_int_space.
  repeat (apply orb_false_iff; split); try (apply Z.eqb_neq; lia).
  apply andb_false_iff. right. apply Z.leb_gt. lia.
Qed.

Lemma lstrip_digits ds : digits ds -> lstrip_space ds = ds.
Proof.
  intros [Hne Hd]. destruct ds as [|d r]; [congruence|]. cbn [forallb] in Hd.
  apply andb_true_iff in Hd. destruct Hd as [Hd _]. cbn [lstrip_space]. rewrite (digit_not_space _ Hd). reflexivity.
Qed.

Lemma digits_rev ds : digits ds -> digits (rev ds).
Proof.
  intros [Hne Hd]. split.
  - intros E. apply Hne. rewrite <- (rev_involutive ds), E. reflexivity.
  - rewrite forallb_forall in *. intros x Hx. apply Hd. apply in_rev. exact Hx.
Qed.

Lemma strip_digits ds : digits ds -> strip_space ds = ds.
Proof.
  intros H. unfold strip_space. rewrite (lstrip_digits _ H), (lstrip_digits _ (digits_rev _ H)).
  apply rev_involutive.
Qed.

Lemma int_digits_all : forall ds acc n, forallb is_digit ds = true ->
  int_digits ds true acc n = Some (fold_left (fun a k => a * 10 + k - 48) ds acc, n + Z.of_nat (length ds)).
Proof.
  induction ds as [|d r IH]; intros acc n H.
  - cbn. rewrite Z.add_0_r. reflexivity.
  - cbn [forallb] in H. apply andb_true_iff in H. destruct H as [Hd Hr].
    cbn [int_digits fold_left]. unfold is_digit in Hd. rewrite Hd.
    rewrite (IH _ _ Hr). replace (acc * 10 + (d - 48)) with (acc * 10 + d - 48) by lia.
    assert (E : n + 1 + Z.of_nat (length r) = n + Z.of_nat (length (d :: r))) by (cbn [length]; lia).
    rewrite E. reflexivity.
Qed.

Lemma py_int_digits ds : digits ds -> (length ds <= 4300)%nat -> py_int ds = Some (digits_val ds).
Proof.
  intros H Hl. unfold py_int. rewrite (strip_digits _ H). destruct H as [Hne Hd].
  destruct ds as [|d r]; [congruence|]. cbn [forallb] in Hd. apply andb_true_iff in Hd. destruct Hd as [Hd Hr].
  rewrite (digit_not d 43 Hd), (digit_not d 45 Hd) by lia.
  cbn [int_digits]. pose proof Hd as Hd'. unfold is_digit in Hd'. rewrite Hd'.
  rewrite (int_digits_all _ _ _ Hr).
  assert (E : (INT_MAX_STR_DIGITS <? 0 + 1 + Z.of_nat (length r)) = false).
  { apply Z.ltb_ge. unfold INT_MAX_STR_DIGITS. cbn [length] in Hl. lia. }
  rewrite E. unfold digits_val. cbn [fold_left]. rewrite Z.mul_1_l.
  replace (0 * 10 + (d - 48)) with (0 * 10 + d - 48) by lia. reflexivity.
Qed.

Lemma split_on_no_sep a : forallb is_digit a = true -> split_on 59 a = [a].
Proof.
  induction a as [|c r IH]; intros H; [reflexivity|].
  cbn [forallb] in H. apply andb_true_iff in H. destruct H as [Hc Hr].
  cbn [split_on]. rewrite (digit_not c 59 Hc) by lia. rewrite (IH Hr). reflexivity.
Qed.

Lemma split_on_app a r : forallb is_digit a = true -> split_on 59 (a ++ 59 :: r) = a :: split_on 59 r.
Proof.
  induction a as [|c a IH]; intros H.
  - cbn [app split_on]. change (59 =? 59) with true. reflexivity.
  - cbn [forallb] in H. apply andb_true_iff in H. destruct H as [Hc Hr].
    cbn [app split_on]. rewrite (digit_not c 59 Hc) by lia. rewrite (IH Hr). reflexivity.
Qed.

Lemma sgr_scan_app t rest : t = 77 \/ t = 109 ->
  forall pre, forallb (fun k => is_digit k || (k =? 59)) pre = true ->
  sgr_scan (pre ++ t :: rest) = Some (pre, t, rest).
Proof.
  intros Ht. induction pre as [|k pre IH]; intros H.
  - cbn [app sgr_scan]. assert (E : (t =? 77) || (t =? 109) = true).
    { destruct Ht as [->| ->]; reflexivity. }
    rewrite E. reflexivity.
  - cbn [forallb] in H. apply andb_true_iff in H. destruct H as [Hk Hr].
    cbn [app sgr_scan].
    assert (E : (k =? 77) || (k =? 109) = false).
    { apply orb_true_iff in Hk. destruct Hk as [Hk|Hk].
      - rewrite (digit_not k 77 Hk), (digit_not k 109 Hk) by lia. reflexivity.
      - apply Z.eqb_eq in Hk. subst k. reflexivity. }
    rewrite E, (IH Hr). reflexivity.
Qed.

Lemma input_trie_sgr :
  match sub_trie input_trie 91 with Some t => sub_trie t 60 | None => None end = Some (TLeaf str_sgrmouse).
Proof. vm_compute. reflexivity. Qed.

Lemma trie_get_sgr keys more :
  trie_get (91 :: 60 :: keys) more =
    match read_sgrmouse_info keys more with
    | OOk None => read_cursor_position (91 :: 60 :: keys) more
    | o => o
    end.
Proof.
  unfold trie_get, trie_get_in. pose proof input_trie_sgr as H.
  destruct (sub_trie input_trie 91) as [t|] eqn:E1; [|discriminate H].
  rewrite (get_recurse_sub _ _ _ _ _ E1), (get_recurse_sub _ _ _ _ _ H), get_recurse_leaf.
  change (zs_eqb str_sgrmouse str_mouse) with false. change (zs_eqb str_sgrmouse str_sgrmouse) with true. cbn iota.
  destruct (read_sgrmouse_info keys more) as [[[ev rest]|]| |e]; reflexivity.
Qed.

Lemma forallb_app_digits a b : forallb (fun k => is_digit k || (k =? 59)) a = true ->
  forallb (fun k => is_digit k || (k =? 59)) b = true ->
  forallb (fun k => is_digit k || (k =? 59)) (a ++ 59 :: b) = true.
Proof.
  intros Ha Hb. rewrite forallb_app, Ha. cbn [forallb andb]. change (59 =? 59) with true.
  rewrite orb_true_r. exact Hb.
Qed.

Lemma digits_weaken a : forallb is_digit a = true -> forallb (fun k => is_digit k || (k =? 59)) a = true.
Proof.
  intros H. rewrite forallb_forall in *. intros x Hx. rewrite (H x Hx). reflexivity.
Qed.

(* the documented event of an SGR report: modifiers from bits 4/8/16, M = press (drag with bit 32),
   m = release, button (b & 3) + 1, + 3 for the wheel bit 64; coordinates 1-based in the report *)
Definition sgr_doc_event (b x y t : Z) : event :=
  Mouse (((if bit_set b 4 then str_shift else []) ++ (if bit_set b 8 then str_meta else []) ++
          (if bit_set b 16 then str_ctrl else [])) ++ str_mouse_sp ++
         (if t =? 77 then (if bit_set b 32 then str_drag else str_press) else str_release))
        (Z.shiftr (Z.land b 64) 6 * 3 + Z.land b 3 + 1) (x - 1) (y - 1).

(* ESC [ < b ; x ; y M|m : exactly that one event, what follows untouched *)
Lemma sgr_mouse_decodes_proof em bs xs ys t rest more :
  digits bs -> digits xs -> digits ys -> (t = 77 \/ t = 109) ->
  (length bs <= 4300)%nat -> (length xs <= 4300)%nat -> (length ys <= 4300)%nat ->
  process_keyqueue em (27 :: 91 :: 60 :: bs ++ 59 :: xs ++ 59 :: ys ++ t :: rest) more
    = OOk ([sgr_doc_event (digits_val bs) (digits_val xs) (digits_val ys) t], rest).
Proof.
  intros Hb Hx Hy Ht Lb Lx Ly.
  rewrite process_esc, trie_get_sgr.
  assert (Hscan : sgr_scan (bs ++ 59 :: xs ++ 59 :: ys ++ t :: rest) = Some (bs ++ 59 :: xs ++ 59 :: ys, t, rest)).
  { replace (bs ++ 59 :: xs ++ 59 :: ys ++ t :: rest) with ((bs ++ 59 :: xs ++ 59 :: ys) ++ t :: rest)
      by (rewrite <- !app_assoc; cbn [app]; rewrite <- !app_assoc; reflexivity).
    apply sgr_scan_app; [exact Ht|].
    apply forallb_app_digits; [apply digits_weaken; apply Hb|].
    apply forallb_app_digits; apply digits_weaken; [apply Hx|apply Hy]. }
  unfold read_sgrmouse_info.
  destruct (bs ++ 59 :: xs ++ 59 :: ys ++ t :: rest) as [|k0 r0] eqn:E.
  { destruct Hb as [Hne _]. destruct bs; [congruence|discriminate E]. }
  rewrite Hscan. unfold sgr_event, sgr_doc_event.
  rewrite (split_on_app bs _ (proj2 Hb)), (split_on_app xs _ (proj2 Hx)), (split_on_no_sep ys (proj2 Hy)).
  cbn [map]. rewrite (py_int_digits _ Hb Lb), (py_int_digits _ Hx Lx), (py_int_digits _ Hy Ly).
  change MOUSE_DRAG_FLAG with 32.
  destruct Ht as [->| ->].
  - change (77 =? 77) with true. cbn iota. reflexivity.
  - change (109 =? 77) with false. change (109 =? 109) with true. cbn iota. reflexivity.
Qed.

(* documented button numbers of X10 reports: low two bits 0,1,2 -> buttons 1,2,3; +64 -> wheel 4,5 *)
Lemma wheel_bit : forall b, 0 <= b < 256 ->
  (Z.land b 64 / 64 * 3 =? (if Z.land b 64 =? 0 then 0 else 3)) = true.
Proof. apply byte_forall. vm_compute. reflexivity. Qed.

Lemma x10_button_documented_proof b x y :
  0 <= b < 128 -> Z.land b 3 <> 3 ->
  exists name, x10_event (b + 32) x y
    = Mouse name (Z.land b 3 + 1 + (if Z.land b 64 =? 0 then 0 else 3)) ((x - 33) mod 256) ((y - 33) mod 256).
Proof.
  intros Hb H3. unfold x10_event. replace (b + 32 - 32) with b by lia.
  pose proof (wheel_bit b ltac:(lia)) as Hw. apply Z.eqb_eq in Hw. rewrite Hw.
  destruct (Z.land b 3 =? 3) eqn:E3; [apply Z.eqb_eq in E3; congruence|].
  replace ((if Z.land b 64 =? 0 then 0 else 3) + Z.land b 3 + 1)
    with (Z.land b 3 + 1 + (if Z.land b 64 =? 0 then 0 else 3)) by lia.
  cbn iota.
  destruct (bit_set b MOUSE_RELEASE_FLAG); [eexists; reflexivity|].
  destruct (bit_set b MOUSE_DRAG_FLAG); [eexists; reflexivity|].
  destruct (bit_set b MOUSE_MULTIPLE_CLICK_MASK); eexists; reflexivity.
Qed.

(* documented names of X10 reports in the xterm range (b < 128, not the "no button" value 3):
   'shift '/'meta '/'ctrl ' for bits 4/8/16, drag for bit 32, press otherwise *)
Definition x10_doc_name (b : Z) : list Z :=
  (if bit_set b 4 then str_shift else []) ++ (if bit_set b 8 then str_meta else []) ++
  (if bit_set b 16 then str_ctrl else []) ++ str_mouse_sp ++ (if bit_set b 32 then str_drag else str_press).

Lemma high_bits : forall b, 0 <= b < 256 ->
  (Z.land b MOUSE_RELEASE_FLAG =? 0) && (Z.land b MOUSE_MULTIPLE_CLICK_MASK =? 0) && (MOUSE_DRAG_FLAG =? 32) = true.
Proof. apply byte_forall. vm_compute. reflexivity. Qed.

Lemma x10_documented_proof b x y :
  0 <= b < 128 -> Z.land b 3 <> 3 ->
  x10_event (b + 32) x y
    = Mouse (x10_doc_name b) (Z.land b 3 + 1 + (if Z.land b 64 =? 0 then 0 else 3))
            ((x - 33) mod 256) ((y - 33) mod 256).
Proof.
  intros Hb H3. unfold x10_event, x10_doc_name. replace (b + 32 - 32) with b by lia.
  pose proof (wheel_bit b ltac:(lia)) as Hw. apply Z.eqb_eq in Hw. rewrite Hw.
  pose proof (high_bits b ltac:(lia)) as Hh.
  apply andb_true_iff in Hh. destruct Hh as [Hh Hd]. apply andb_true_iff in Hh. destruct Hh as [Hr Hm].
  apply Z.eqb_eq in Hd. apply Z.eqb_eq in Hm.
  destruct (Z.land b 3 =? 3) eqn:E3; [apply Z.eqb_eq in E3; congruence|].
  replace ((if Z.land b 64 =? 0 then 0 else 3) + Z.land b 3 + 1)
    with (Z.land b 3 + 1 + (if Z.land b 64 =? 0 then 0 else 3)) by lia.
  assert (B1 : bit_set b MOUSE_RELEASE_FLAG = false) by (unfold bit_set; rewrite Hr; reflexivity).
  assert (B2 : bit_set b MOUSE_MULTIPLE_CLICK_MASK = false) by (unfold bit_set; rewrite Hm; reflexivity).
  rewrite B1, B2, Hm, Hd.
  change (Z.shiftr 0 9 =? 1) with false. change (Z.shiftr 0 9 =? 2) with false. cbn iota.
  rewrite !app_nil_r.
  destruct (bit_set b 32); cbn iota; rewrite <- !app_assoc; reflexivity.
Qed.

(* a structurally well-formed multi-byte character that the decoder table accepts is reported as
   that one character, what follows untouched *)
Lemma keyconv_high : forall b, 0 <= b < 256 ->
  implb (127 <? b) (match assoc b keyconv with None => true | Some _ => false end) = true.
Proof. apply byte_forall. vm_compute. reflexivity. Qed.

Lemma utf8_char_decodes_proof code n conts cp rest more :
  utf8_check n (conts ++ rest) = U8Good -> length conts = n ->
  utf8_decode code n conts = Some cp ->
  127 < code < 256 ->
  (Z.land code 224 =? 192) = (n =? 1)%nat -> (Z.land code 240 =? 224) = (n =? 2)%nat ->
  (Z.land code 248 =? 240) = (n =? 3)%nat ->
  process_keyqueue Utf8 (code :: conts ++ rest) more = OOk ([Key [cp]], rest).
Proof.
  intros Hc Hl Hd Hr H1 H2 H3.
  rewrite process_eq.
  assert (E1 : (32 <=? code) && (code <=? 126) = false).
  { apply andb_false_iff. right. apply Z.leb_gt. lia. }
  rewrite E1.
  pose proof (keyconv_high code ltac:(lia)) as Hk.
  assert (E0 : (127 <? code) = true) by (apply Z.ltb_lt; lia). rewrite E0 in Hk. cbn [implb] in Hk.
  destruct (assoc code keyconv); [discriminate Hk|].
  assert (E2 : (0 <? code) && (code <? 27) = false) by (apply andb_false_iff; right; apply Z.ltb_ge; lia).
  assert (E3 : (27 <? code) && (code <? 32) = false) by (apply andb_false_iff; right; apply Z.ltb_ge; lia).
  rewrite E2, E3.
  assert (Ew : wide_step Utf8 code (conts ++ rest) more = None) by reflexivity.
  rewrite Ew. unfold utf8_step. cbn [enc_is_utf8 andb]. rewrite E0.
  assert (E4 : (code <? 256) = true) by (apply Z.ltb_lt; lia). rewrite E4. cbn [andb].
  rewrite H1, H2, H3.
  assert (Hn : n = 1%nat \/ n = 2%nat \/ n = 3%nat).
  { unfold utf8_decode in Hd. destruct n as [|[|[|[|n]]]]; try discriminate; auto. }
  assert (Ef : firstn n (conts ++ rest) = conts).
  { rewrite <- Hl. rewrite firstn_app, Nat.sub_diag, firstn_all. cbn. apply app_nil_r. }
  assert (Es : skipn n (conts ++ rest) = rest).
  { rewrite <- Hl. rewrite skipn_app, Nat.sub_diag, skipn_all. reflexivity. }
  destruct Hn as [->|[->| ->]]; cbn [Nat.eqb]; cbn iota; rewrite Hc, Ef, Hd, Es; reflexivity.
Qed.
